#!/bin/bash
# seedn.sh <round> <Cxx> [ids...] : confirm the seed of round <round> in /tmp/seed<round>/<Cxx>, store it under
# /verif/seeded/<Cxx>-r<round>/, apply to /repo, run the property's check(s), undo.
R=$1; id=$2; shift; shift; ids="$@"; [ -z "$ids" ] && ids=$id
W=/tmp/seed$R/$id
v=$(/verif/tools/verify_seed.sh $W 2>&1); echo "$v" | grep -E "suite-with|demo-with|demo=|BUILD|apply"
S=/verif/seeded/$id-r$R; mkdir -p $S
cp $W/patch.diff $S/patch.diff
demo=$(echo "$v" | grep '^demo=' | cut -d= -f2); [ -n "$demo" ] && cp $W/$demo $S/seed_demo_test.go.txt
git -C /repo apply "$S/patch.diff" || { echo "patch does not apply to /repo"; exit 2; }
for p in $ids; do
  out=$(cd /verif && ./check $p quick 2>&1); rc=$?
  echo "== $p rc=$rc"; echo "$out" | grep -E 'VIOLATION|OK property|violation\[' | head -4 | cut -c1-400
done
git -C /repo checkout -- .; git -C /repo clean -fdq
git -C /repo status --short
