#!/usr/bin/env python3
# sync_expected.py [--apply] : compare the regenerated tables (coq/gen/Tables.v) with the
# expectations the model was written against (coq/model/Expected.v, exp_<name>); with --apply copy
# the regenerated bodies over.  ONLY after the model has been brought in line with the code change
# (the point of TablesAgree is to make that a conscious step).
import re,sys
T=open('/verif/coq/gen/Tables.v').read(); X=open('/verif/coq/model/Expected.v').read()
defs=lambda s: {m.group(1):(m.start(3),m.end(3),m.group(3)) for m in re.finditer(r'Definition (\w+) : ([^\n]*?) :=(.*?)\.\n(?=\n|Definition|\(\*|$)', s, re.S)}
dt,dx=defs(T),defs(X)
chg=[]
for n,(a,b,body) in dx.items():
    if n.startswith('exp_') and n[4:] in dt and dt[n[4:]][2].strip()!=body.strip():
        chg.append(n)
print('differ:',chg)
if '--apply' in sys.argv:
    for n in sorted(chg,key=lambda n:-dx[n][0]):
        a,b,_=dx[n]; X=X[:a]+dt[n[4:]][2]+X[b:]
    open('/verif/coq/model/Expected.v','w').write(X)
