#!/bin/bash
# thorough_isolated.sh : run every check's thorough tier in an isolated copy of /verif and /repo
# (so that work can go on in the real ones); one line per property, details under $V/build.
V=/root/scratch/vthor; R=/root/scratch/repothor
rm -rf $V $R; mkdir -p $V
git clone -q /repo $R
rsync -a --exclude build/run --exclude build/replay /verif/ $V/
sed -i "s#=> /repo#=> $R#" $V/harness/go.mod
export VERIF_REPO=$R
cd $V
for i in $(seq -w 1 20); do
  id=C$i; s=$(date +%s); out=$(./check $id thorough 2>&1); rc=$?; e=$(( $(date +%s) - s ))
  echo "$id rc=$rc ${e}s $(echo "$out" | grep -E 'VIOLATION|OK property' | tail -1 | cut -c1-200)"
  echo "$out" | grep -E "violation\[" | head -5 | cut -c1-400
done
