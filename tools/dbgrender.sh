#!/bin/bash
# dbgrender.sh <replay.json> : show implementation observation and the model's outcome for a render case
d=$(mktemp -d -p /verif/build); /verif/build/harness -prop RENDER -replay "$1" > $d/o.txt
grep '^IMPL' $d/o.txt | cut -c1-600
sed -n '/^COQ:/,$p' $d/o.txt | tail -n +2 > $d/dbg.v
(cd $d && coqc -R /verif/coq Plush -w -all dbg.v) | python3 -c "
import sys,re
o=sys.stdin.read()
m=re.search(r'r\s*=\s*\((\d+)%nat,\s*\[(.*?)\],\s*(\d+)%nat,\s*(.*)\)\s*:', o, re.S)
if not m: print(o[-1500:]); sys.exit()
cls=['OK','ERR','PARSEERR','PANIC','FUEL','UNSUP'][int(m.group(1))]
bs=bytes(int(x.strip().replace('%N','')) for x in m.group(2).split(';') if x.strip())
print('MODEL:',cls,'out=',repr(bs.decode('latin1')),'line=',m.group(3),'log=',re.sub(r'\s+',' ',m.group(4))[:400])
"
rm -rf $d
