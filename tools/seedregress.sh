#!/bin/bash
# seedregress.sh : regression over every stored seed, in an ISOLATED copy of /verif and /repo
# (so that work can go on in the real ones): apply each seed to the copy of the repository, run the
# check(s) named in its meta.json in the copy of the framework, undo.  Output: one line per seed.
# SEED_FILTER=<regexp> restricts the run to the seeds whose directory name matches.
set -u
V=/root/scratch/vcopy; R=/root/scratch/repocopy
rm -rf $V $R; mkdir -p $V
git clone -q /repo $R
rsync -a --exclude build/run --exclude build/replay /verif/ $V/
sed -i "s#=> /repo#=> $R#" $V/harness/go.mod
export VERIF_REPO=$R
cd $V
for S in seeded/*/; do
  name=$(basename $S)
  if [ -n "${SEED_FILTER:-}" ] && ! echo "$name" | grep -qE -e "$SEED_FILTER"; then continue; fi
  ids=$(python3 -c "import json,os;f='$V/$S/meta.json';print(' '.join(json.load(open(f)).get('check_with',['$name'[:3]]) if os.path.exists(f) else ['$name'[:3]]))")
  old=$(python3 -c "import json,os;f='$V/$S/meta.json';m=json.load(open(f)) if os.path.exists(f) else {};print(m.get('applies_to_commit') or '')")
  if [ -n "$old" ]; then echo "$name APPLIES-ONLY-TO $old (not re-created against the current tree, see meta.json)"; continue; fi
  if ! git -C $R apply "$V/$S/patch.diff" 2>/dev/null; then
    if ! git -C $R apply -3 "$V/$S/patch.diff" 2>/dev/null; then echo "$name PATCH-DOES-NOT-APPLY"; git -C $R reset -q; git -C $R checkout -- . ; continue; fi
  fi
  res=""
  for p in $ids; do o=$(./check $p quick 2>&1); rc=$?; res="$res $p=$rc [$(echo "$o" | grep -m1 -o 'violation\[[^]]*\]')]"; done
  git -C $R reset -q 2>/dev/null; git -C $R checkout -- . 2>/dev/null; git -C $R clean -fdq 2>/dev/null
  echo "$name$res"
done
rm -rf $V $R
