#!/usr/bin/env python3
# mkseedprompts.py <round> : one scratch worktree of /repo per property under /tmp/seed<round>/<Cxx> and the
# prompt given to the fresh sub-agent that produces a seeded breaking change there (the prompt holds the
# property text and the summaries of all earlier seeds of that property; nothing of /verif is shown).
import sys
R=sys.argv[1]
import json,glob,os,re,subprocess
os.makedirs(f'/tmp/seed{R}',exist_ok=True)
props={json.loads(l)['id']:json.loads(l) for l in open('/verif/properties.jsonl')}
for pid,p in props.items():
    wt=f'/tmp/seed{R}/{pid}'
    subprocess.run(['git','-C','/repo','worktree','add','-q','--detach',wt,'HEAD'],check=True)
    earlier=[]
    for d in sorted(glob.glob(f'/verif/seeded/{pid}-*')):
        m=os.path.join(d,'meta.json')
        if os.path.exists(m):
            earlier.append(json.load(open(m)).get('summary',''))
    anchors=', '.join(p['anchors']['files'])
    txt=f'''You are helping test a verification effort for the Go library gobuffalo/plush (an ERB-style HTML template engine). You have your own scratch git worktree of the repository at {wt} (work ONLY there; never touch /repo or /verif, and do not read anything under /verif).

Environment: no network. Before any go command run: `export GOFLAGS=-mod=mod GOPROXY=off GOSUMDB=off GOTOOLCHAIN=local`. The existing test suite is run with `cd {wt} && go test -vet=off -count=1 ./...` (takes a few seconds, all pass on the unmodified tree).

Here is a semantic property the library is supposed to satisfy:

---
{pid} - {p['title']}

Statement: {p['statement']}

Quantifier: {p['quantifier']['text']}

Anchors (files): {anchors}
---

Task: produce ONE realistic code change (a plausible bug a developer could introduce: an optimisation, refactoring slip, off-by-one, wrong condition, caching, reordered cases, a missed case in a new helper function...) to the library source in {wt} that BREAKS this property while (a) the code still compiles, and (b) the entire existing test suite still passes. Prefer a change that needs something specific to manifest - a multi-step sequence of operations, an unusual input, a particular value or Go type, a particular nesting, or two cooperating sites that each look fine alone - NOT one that ordinary use would expose at once. Do not edit any *_test.go file that already exists.

Note: earlier changes for this property were:
''' + ''.join(f' - {e}\n' for e in earlier) + f'''Produce a DIFFERENT kind of change - in a different function or mechanism than all of these, manifesting on different inputs. Read ALL the files and mechanisms the property's anchors mention (and the code they call) before choosing; prefer a part of the mechanism none of the earlier changes touched.

Deliverables, all inside {wt}:
1. The change applied to the working tree (uncommitted), and also saved as a patch: `git diff > {wt}/patch.diff` (the patch must contain only library source changes, not your demo; create it before adding untracked demo files or make sure untracked files are not in it).
2. A demonstration: a new Go test file {wt}/seed_demo_test.go (package plush in the repo root, or in another package directory if more suitable) containing a test named TestSeedDemo that FAILS with your change and PASSES without it (verify both; use `git apply -R patch.diff` / `git apply patch.diff` to toggle). The demo file must not be part of patch.diff.
3. Confirm the full existing suite passes with the change applied (excluding your demo test), e.g. `go test -vet=off -count=1 ./... -skip TestSeedDemo`.

Also: if, while reading the code, you notice behaviour of the UNMODIFIED tree that already violates the property, say so briefly at the end of your report (input and observed result).

Report back: the path of the patch, a 2-3 sentence description of the change and what it needs in order to manifest, and the exact commands you ran to confirm (suite passes with change; demo fails with change; demo passes without change). Leave the worktree with the change applied and the demo file present.
'''
    open(f'/tmp/seed{R}/{pid}.prompt.txt','w').write(txt)
print('ok')
