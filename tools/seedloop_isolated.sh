#!/bin/bash
# seedloop_isolated.sh <round> <Cxx>... : confirm the seeds of a round (/tmp/seed<round>/<Cxx>), store them
# under /verif/seeded/<Cxx>-r<round>/ and run each property's quick check against the seed in an ISOLATED copy
# of /verif and /repo (so that neither /repo's working tree nor /verif is touched while work goes on there).
R0=$1; shift
V=/root/scratch/vloop$R0; R=/root/scratch/rloop$R0
rm -rf $V $R; mkdir -p $V
git clone -q /repo $R
rsync -a --exclude build/run --exclude build/replay /verif/ $V/
sed -i "s#=> /repo#=> $R#" $V/harness/go.mod
export VERIF_REPO=$R
cd $V
for id in "$@"; do
  echo "#### $id"
  W=/tmp/seed$R0/$id
  v=$(/verif/tools/verify_seed.sh $W 2>&1); echo "$v" | grep -E "suite-with|demo-with|demo=|BUILD|apply"
  S=/verif/seeded/$id-r$R0; mkdir -p $S; cp $W/patch.diff $S/patch.diff
  demo=$(echo "$v" | grep '^demo=' | cut -d= -f2); [ -n "$demo" ] && cp $W/$demo $S/seed_demo_test.go.txt
  git -C $R apply $S/patch.diff || { echo "patch does not apply"; continue; }
  out=$(./check $id quick 2>&1); rc=$?
  echo "== $id rc=$rc"; echo "$out" | grep -E 'VIOLATION|OK property|violation\[' | head -4 | cut -c1-400
  git -C $R checkout -- .; git -C $R clean -fdq
done
rm -rf $V $R
