#!/usr/bin/env python3
# reportseed.py <seed-dir-name>... : re-create a stored seed patch that no longer applies to /repo's HEAD
# (later fix: commits touched neighbouring lines).  Three-way apply; conflicts that are two independent
# additions are resolved by keeping both sides (ours first); the result must build.  The original patch is
# kept as patch.orig.diff.  Anything that does not build is left alone and reported for porting by hand.
import subprocess, sys, os, re
R='/repo'
env=dict(os.environ, GOFLAGS='-mod=mod', GOPROXY='off', GOSUMDB='off', GOTOOLCHAIN='local')
def sh(*a, **k): return subprocess.run(a, cwd=R, capture_output=True, text=True, env=env, **k)
def clean(): sh('git','reset','-q'); sh('git','checkout','--','.'); sh('git','clean','-fdq')
for name in sys.argv[1:]:
    d=f'/verif/seeded/{name}'; p=f'{d}/patch.diff'
    assert sh('git','status','--short').stdout.strip()=='' , 'repo not clean'
    if sh('git','apply','--check',p).returncode==0:
        print(name,'applies already'); continue
    done=False
    for c in ('-C2','-C1'):
        if sh('git','apply',c,'--check',p).returncode==0:
            sh('git','apply',c,p)
            if sh('go','build','./...').returncode==0:
                diff=sh('git','diff').stdout; clean()
                if not os.path.exists(f'{d}/patch.orig.diff'): os.rename(p, f'{d}/patch.orig.diff')
                open(p,'w').write(diff); print(name,'ported (reduced context',c+'), builds'); done=True
                break
            clean()
    if done: continue
    r=sh('git','apply','-3',p)
    files=[l[3:] for l in sh('git','status','--short').stdout.splitlines()]
    ok=True
    for f in files:
        fp=os.path.join(R,f)
        if not os.path.exists(fp): continue
        s=open(fp).read()
        if '<<<<<<<' not in s: continue
        out=[]; state=0
        for line in s.splitlines(keepends=True):
            if line.startswith('<<<<<<< '): state=1; continue
            if line.startswith('||||||| '): state=3; continue
            if line.startswith('=======') and state in (1,3): state=2; continue
            if line.startswith('>>>>>>> '): state=0; continue
            if state==3: continue
            out.append(line)
        open(fp,'w').write(''.join(out))
    sh('git','reset','-q')
    sh('gofmt','-w',*[f for f in files if f.endswith('.go')])
    b=sh('go','build','./...')
    v=sh('go','vet','-tags','verif','.')
    if b.returncode!=0:
        print(name,'UNION-DOES-NOT-BUILD:', b.stderr.strip().splitlines()[:3]); clean(); continue
    diff=sh('git','diff').stdout
    clean()
    if not os.path.exists(f'{d}/patch.orig.diff'): os.rename(p, f'{d}/patch.orig.diff')
    open(p,'w').write(diff)
    print(name,'ported (union of both sides), builds')
