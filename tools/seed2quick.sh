#!/bin/bash
# seed2quick.sh <seed-dir-name> ids... : apply a stored seed, run checks, undo (no re-verification)
S=/verif/seeded/$1; shift
git -C /repo apply "$S/patch.diff" 2>/dev/null || git -C /repo apply -3 "$S/patch.diff" || { echo "patch does not apply"; git -C /repo reset -q; git -C /repo checkout -- .; git -C /repo clean -fdq; exit 2; }
for p in "$@"; do
  out=$(cd /verif && ./check $p quick 2>&1); rc=$?
  echo "== $p rc=$rc"; echo "$out" | grep -E 'VIOLATION|OK property|violation\[' | head -4 | cut -c1-300
done
git -C /repo reset -q; git -C /repo checkout -- .; git -C /repo clean -fdq
git -C /repo status --short
