#!/bin/bash
# coqchk.sh : re-check the compiled development with Coq's independent checker and
# print the axioms it relies on.  Slow (tens of minutes); not part of any registered check.
cd /verif/coq || exit 2
mods=$(ls props/*.vo | sed 's#/#.#; s#\.vo$##; s#^#Plush.#')
timeout 7200 coqchk -silent -o -R . Plush $mods 2>&1 | tail -40
