#!/usr/bin/env python3
"""split_tables.py < translator-output : write coq/gen/PrecTables.v and coq/gen/Tables.v (only when changed)."""
import sys, os, importlib.machinery, importlib.util
loader = importlib.machinery.SourceFileLoader("check", "/verif/check")
spec = importlib.util.spec_from_loader("check", loader)
m = importlib.util.module_from_spec(spec); loader.exec_module(m)
m.write_tables(sys.stdin.read())
