#!/usr/bin/env python3
# gen_frameproofs.py - writes coq/proofs/FrameProofs.v from tools/FrameProofs.tmpl: the record of
# 27 per-function statements and the per-function tactic rules are repetitive, so they are generated.
import os
here=os.path.dirname(os.path.abspath(__file__))
names=[("eval",3),("eval_chain",3),("eval_list",3),("eval_pairs",4),("eval_infix",5),("eval_if",4),("eval_block",3),("eval_stmts",4),("eval_stmt",3),("eval_for",6),("for_body",7),("for_items",7),("for_slice",8),("for_iter",8),("eval_index",6),("index_callee",5),("eval_call",7),("user_call",5),("bind_params",4),("bind_args",5),("bind_fixed",4),("bind_variadic",4),("block_with",4),("block_in_child",5),("go_apply",6),("partial_call",5)]
sig={ "eval":"st e","eval_chain":"st c0","eval_list":"st es","eval_pairs":"st ps acc","eval_infix":"st op l r","eval_if":"st bs els","eval_block":"st b","eval_stmts":"st ss acc","eval_stmt":"st s","eval_for":"st k v it b","for_body":"st k v b kv vv","for_items":"st k v b items acc","for_slice":"st k v b loc i acc","for_iter":"st k v b loc i acc","eval_index":"st l i v cal","index_callee":"st x ls cal","eval_call":"st fn callee args blk chain","user_call":"st ps body args","bind_params":"st ps args","bind_args":"st sg args blk","bind_fixed":"st ps args","bind_variadic":"st p args","block_with":"st blk ctx","block_in_child":"st blk parent data","go_apply":"st id cfg recv bs","partial_call":"st name data ctx"}
binders={"bind_args","bind_fixed","bind_variadic"}
def field(n):
    a=sig[n]
    if n=="block_with":
        return f"  f_{n} : forall L c {a}, L <= nctxs st -> (ctx = c \\/ L <= ctx) -> W (scur st) L c (frames L c st) (r_{n} ev {a});"
    if n in ("block_in_child","partial_call"):
        return f"  f_{n} : forall L c {a}, L <= nctxs st -> W (scur st) L c (frames L c st) (r_{n} ev {a});"
    if n=="go_apply":
        return f"  f_{n} : forall L c {a}, L <= nctxs st -> (scur st = c \\/ L <= scur st) -> hcs (scur st) bs -> W (scur st) L c (frames L c st) (r_{n} ev {a});"
    if n in binders:
        return f"  f_{n} : forall L c {a}, L <= nctxs st -> (scur st = c \\/ L <= scur st) -> Wx (hcs (scur st)) (scur st) L c (frames L c st) (r_{n} ev {a});"
    return f"  f_{n} : forall L c {a}, L <= nctxs st -> (scur st = c \\/ L <= scur st) -> W (scur st) L c (frames L c st) (r_{n} ev {a});"
fields="\n".join(field(n) for n,_ in names)
fields+="\n  f_exec_prog : forall L c st prog out, L <= nctxs st -> (scur st = c \\/ L <= scur st) -> Wo (scur st) L c (frames L c st) (r_exec_prog ev st prog out)"
def raw(n,k):
    pat=f"r_{n} {' '.join(['_']*k)}"
    if n in ("block_in_child","partial_call"): side="[len_solve]"
    elif n=="go_apply": side="[len_solve|cond_solve|hcs_solve]"
    else: side="[len_solve|cond_solve]"
    return pat, f"apply (f_{n} _ H); {side}"
ih_raw="\n".join(f"  | {raw(n,k)[0]} => {raw(n,k)[1]}" for n,k in names)
ih_raw+="\n  | r_exec_prog _ _ _ _ => apply (f_exec_prog _ H); [len_solve|cond_solve]"
ih_goal="\n".join(f"  | |- Wx _ _ _ _ _ ({raw(n,k)[0]}) => eapply Wx_eq; [{raw(n,k)[1]}|hcs_imp|sc_solve|fr_solve]" for n,k in names)
ih_goal+="\n  | |- Wo _ _ _ _ (r_exec_prog _ _ _ _) => eapply Wo_eq; [apply (f_exec_prog _ H); [len_solve|cond_solve]|sc_solve|fr_solve]"
steps="eval_step eval_chain_step eval_list_step eval_pairs_step eval_infix_step eval_if_step eval_block_step eval_stmts_step eval_stmt_step eval_for_step for_body_step for_items_step for_slice_step for_iter_step eval_index_step index_callee_step eval_call_step user_call_step bind_params_step bind_args_step bind_fixed_step bind_variadic_step block_with_step block_in_child_step go_apply_step partial_call_step exec_prog_step".split()
bullets=""
for x in steps:
    if x=="for_iter_step":
        bullets+='''  - unfold for_iter_step. cbv zeta.
    match goal with |- Wx _ _ _ _ _ (match ?n with _ => _ end) =>
      assert (Hn : forall x s, n = Some (x, s) -> scur s = scur st /\\ nctxs s = nctxs st /\\ frames L c s = frames L c st);
      [ intros x s E;
        repeat match type of E with
               | match ?y with _ => _ end = _ => destruct y eqn:?; try discriminate
               | (let (_, _) := ?y in _) = _ => destruct y eqn:?
               end; inversion E; subst; repeat split; reflexivity
      | destruct n as [[x0 s0]|] eqn:En; [destruct (Hn _ _ eq_refl) as [Hs0 [Hl0 Hf0]]|] ]
    end; w_solve H.
'''
    else:
        bullets+=f"  - unfold {x}. w_solve H.\n"
src=open(os.path.join(here,'FrameProofs.tmpl')).read()
src=src.replace("@@FIELDS@@",fields).replace("@@IH_RAW@@",ih_raw).replace("@@IH_GOAL@@",ih_goal).replace("@@BULLETS@@",bullets)
open(os.path.join(here,'..','coq','proofs','FrameProofs.v'),'w').write(src)
