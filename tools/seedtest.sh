#!/bin/bash
# seedtest.sh <seed-dir-name> [ids...] : apply /verif/seeded/<name>/patch.diff to /repo, run checks, undo.
S=/verif/seeded/$1; shift
ids="$@"; [ -z "$ids" ] && ids=$(python3 -c "import json;print(' '.join(json.load(open('$S/meta.json'))['check_with']))")
git -C /repo apply "$S/patch.diff" || { echo "patch does not apply"; exit 2; }
for id in $ids; do
  out=$(cd /verif && ./check $id quick 2>&1); rc=$?
  echo "== $id rc=$rc"; echo "$out" | grep -E 'VIOLATION|OK property|violation\[' | head -4
done
git -C /repo checkout -- .
git -C /repo status --short
