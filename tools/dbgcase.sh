#!/bin/bash
# dbgcase.sh <rundir> <case-id> : debug one render case of a kept run directory
python3 - "$1" "$2" <<'PY'
import json,sys
c=json.load(open(sys.argv[1]+'/cases.json'))[sys.argv[2]]
json.dump({"replay":{"case":c}}, open('/verif/build/dbgcase.json','w'))
print('TEMPLATE:', c['case']['tmpl'])
PY
/verif/tools/dbgrender.sh /verif/build/dbgcase.json
