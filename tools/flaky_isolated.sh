#!/bin/bash
# flaky_isolated.sh [rounds] : run every check's quick tier several times (different seeds are NOT used: the
# point is run-to-run variation - map order, goroutine schedules, timing) in an isolated copy of /verif and
# /repo; prints only the runs that did not end with rc=0.
N=${1:-3}
V=/root/scratch/vflaky; R=/root/scratch/repoflaky
rm -rf $V $R; mkdir -p $V
git clone -q /repo $R
rsync -a --exclude build/run --exclude build/replay /verif/ $V/
sed -i "s#=> /repo#=> $R#" $V/harness/go.mod
export VERIF_REPO=$R
cd $V
for r in $(seq 1 $N); do
  for i in $(seq -w 1 20); do
    id=C$i; out=$(./check $id quick 2>&1); rc=$?
    if [ $rc -ne 0 ]; then echo "round $r $id rc=$rc"; echo "$out" | grep -E "violation\[|VIOLATION" | head -4 | cut -c1-500; fi
  done
  echo "round $r done"
done
rm -rf $V $R
