#!/usr/bin/env python3
"""Regenerate /verif/MANIFEST.json from lib/props.py and the level texts below."""
import json, sys, os
sys.path.insert(0, '/verif/lib')
from props import PROPS

TEXT = {
 "C01": "Sink theorems on the Coq model (every byte string is escaped so that no raw < > ' \" survives and every & begins an entity; escaping is the identity on special-free text) and an executable model of the whole evaluator whose sink writes strings escaped exactly once and template.HTML verbatim exactly once; the route-level statement (every plumbing route preserves the payload's kind) is checked by correspondence: payloads over the full byte alphabet moved through compositions of 21 routes x 12 sources, marker oracle on the real engine, every case re-evaluated by the model.",
 "C02": "Executable model of the lexer's text scanner, string scanners, parser and evaluator; exhaustive short strings over {<,%,>,\\,=,#,\",a,newline} as whole templates and as string-literal contents, and random interleavings of text / output tags / silent tags / comments at top level and inside blocks, judged by a reference scanner written from the property and re-computed by the model.",
 "C03": "Executable model of lexer and parser (fuelled, every Go loop mirrored); Parse run under recover + watchdog on every token sequence of length <= 2 (thorough 3) in 4 framings, token soup, byte mutations and nesting towers to depth 256; a seeded sample is re-parsed by the model (program dump / error lines compared).",
 "C04": "Executable model of the evaluator in which Go's failure modes are explicit result values; exhaustive kind matrices (operator x left x right, container x index x assigned, receiver x member, iterables, callee x argument lists, built-in x argument kinds) run on the real engine under recover + watchdog (Go-only kinds included) and re-evaluated by the model. One recorded finding (template-built cyclic slice).",
 "C05": "Executable model with errors as values carrying the state reached (tolerant sites resume from it); a failing instrumented helper planted at every hole of 36 expression skeletons x 22 statement contexts (+ depth-2 compositions): whenever its invocation is logged, Render must fail with errors.Is and empty output; every case re-evaluated by the model (log included).",
 "C06": "The model's Pratt loop reads the precedence table regenerated from parser/precedences.go; typed operator functions transcribed; every depth-1 tree over a 20-leaf pool and random trees to depth 5, each in minimal / full / random parenthesisation, judged against a Go reference evaluator written from the documented meaning and re-evaluated by the model.",
 "C07": "Model of isTruthy and of the if / else-if chain; every value kind (modelled and Go-only, + unknown identifier) in the six truthiness contexts against the documented table; chains of 1..5 branches under every truth assignment with counting conditions at top level and nested in for / fn / block helper (first truthy branch, later conditions not evaluated).",
 "C08": "Model of evalForExpression and of the break / continue / return objects threaded through nested blocks; generated loop bodies (break / continue at every statement position, nested loops, conditionals) over slices, typed slices, maps, iterators, nil and non-iterables, judged against an element-by-element Go reference interpreter (loop unrolling; multiset for maps) and re-evaluated by the model.",
 "C09": "Model of the scope chain (Ctx.v, proved for C10) as used by for / function call / partial / contentOf / block helpers with deferred restore; nestings to depth 3 with let / shadow / assignment / probe at every level judged against an environment-chain reference and re-evaluated by the model.",
 "C11": "Model of identifier chains, index access, the index-callee rebinding (substring search on printed paths), parser callee rewiring and method lookup; all paths of <= 2 steps and random paths of 3-4 steps over a self-describing recursive graph (value and pointer roots, decoy variables named like the fields) compared with the same navigation done in Go; one recorded finding (method call on an indexed element).",
 "C12": "Model of the Go-function branch of evalCallExpression (arity, positional binding, nil -> zero, auto-supplied map / helper context, variadic tail); 19 recording signatures x every call shape of 0..3 arguments from 11 kinds x +/- block against a declarative binding written in Go (helper log = what it received; rejected calls must not invoke), evaluation-order probes.",
 "C13": "The model is a function, so determinism is tied to the code through the regenerated table of every range-over-map / MapKeys site and through histories on the real engine: fresh parse, repeated Exec, Clone, cache off / cold / warm, interleaved templates, with a deep structural snapshot of the parsed program (verif hook) around every Exec; the single model answer is compared too.",
 "C15": "Model of the line counter, token stamping, parser error lines and the 'line N:' wrapping; one failing statement (8 runtime kinds, 7 syntax kinds) after every filler / random filler sequences, at top level and inside if / for / fn / helper / else bodies: the reported line must be the failing tag's line, and k leading newlines must add exactly k and change nothing else.",
 "C16": "Model of evalUserFunction (arguments evaluated first in the caller scope, fresh scope, unwrapped return value); generated decision-chain functions x argument tuples x uses (emit, test, compare, arithmetic, pass on, store), swapped-name arguments, higher-order and recursive functions against a Go reference.",
 "C17": "Model of PartialHelper (child scope, feeder, inner Render, JS escaping by content type / extension, layout recursion), BlockWith and contentFor / contentOf; each use compared with a second, inline run of the real engine in the equivalent scope, and re-evaluated by the model.",
 "C18": "Model of skipWhitespace, the # comment scan and the statement loops; generated token-level programs rendered canonically and in four families of re-layout (separators incl. CRLF and # comments, comment tags, every cut of statement runs into tags, statements after closing braces): outputs must coincide; both sides re-evaluated by the model.",
}
PROOF_TEXT = {
 "C10": "Theorems over ALL histories of NewRoot/New/Set/Value/Has on the Coq model of context.go: refinement to the history reading of the property (nearest context on the path to the root with a Set wins; constructor injection counted as Sets), Has<->non-nil, isolation of Set from every context outside the subtree, user value under a helper name wins in the context and its children. Tied to the code by exhaustive short + random long histories re-computed by the model and a Go-side chain-of-scopes oracle.",
 "C14": "PARTIAL by design. Proved: a lockset soundness meta-theorem (any number of threads, any schedule) and, by vm_compute over the access table regenerated from context.go / plush.go / helpers/map.go on every run, that the operations the property allows concurrently satisfy it. Exhibited, not proved: the harness is built with -race and runs context reader/writer mixes, one template from 2-32 goroutines with own roots or children of a shared parent (direct, Clone, cache-served) and concurrent Parse/Render/CacheSet, comparing every concurrent result with the sequential one.",
 "C19": "Closed-form theorems for range / between / until for all 64-bit arguments (termination and the upper extreme included; the lower extreme is a genuine defect proved as *_refuted witnesses and listed as three known findings), partition theorem for groupBy, totality and correctness of len; exhaustive small arguments + extremes, both groupBy implementations over 5 element/pointer variants.",
 "C20": "Theorems for all byte strings: truncate returns s unchanged when short and otherwise has one of two stated shapes; htmlEscape output has no raw special and is the identity on special-free text. jsEscape and toJSON are modelled executably and compared byte for byte with the real helpers (their theorems are in progress and until then rest on the Go oracles). Exhaustive short strings over a 6-symbol alphabet incl. multi-byte runes and invalid UTF-8, all single bytes, recursive JSON values.",
}
TECH_TV = "Coq executable model + model/implementation correspondence (vm_compute) + implementation-side oracle"
TECH_PR = "Coq proof + model/implementation correspondence"

old = json.load(open('/verif/MANIFEST.json'))
checks = []
for i in range(1, 21):
    pid = "C%02d" % i
    cfg = PROPS[pid]
    lvl = cfg["level"]
    text = PROOF_TEXT.get(pid) if lvl == "proof" and pid in PROOF_TEXT else TEXT.get(pid, PROOF_TEXT.get(pid, ""))
    if lvl == "proof" and pid in TEXT and pid not in PROOF_TEXT:
        text = "Theorems (props/%s.v, Print Assumptions in the evidence) about the parts of the model named below, plus: " % pid + TEXT[pid]
    if lvl != "proof":
        text = "NOT YET a proof-level claim: the theorems for this property are still being written; what decides it today is the correspondence. " + text
    checks.append({
        "property_id": pid, "quick_cmd": "./check %s quick" % pid, "thorough_cmd": "./check %s thorough" % pid,
        "evidence_file": "evidence/%s.json" % pid, "replay_cmd_template": "./check %s --replay {path}" % pid, "engine": "coq-model",
        "level_claimed": {"category": lvl, "text": text, "design_ref": "DESIGN.md section 4, " + pid},
        "level_note": "Trusted: " + "; ".join(cfg.get("trusted_base", [])[:6]) + ((" Assumes: " + "; ".join(cfg["assumptions"])) if cfg.get("assumptions") else ""),
        "technique": TECH_PR if lvl == "proof" else TECH_TV,
    })
old["checks"] = checks
old["not_applicable"] = []
for e in old["engines"]:
    e["serves_properties"] = ["C%02d" % i for i in range(1, 21)]
json.dump(old, open('/verif/MANIFEST.json', 'w'), indent=1)
print("manifest:", len(checks), "checks")
