#!/bin/bash
# verify_seed.sh <worktree> : confirm a seeded change (patch.diff + seed_demo_test.go) myself
#  1. suite passes with the change  2. demo fails with it  3. demo passes without it
export GOFLAGS=-mod=mod GOPROXY=off GOSUMDB=off GOTOOLCHAIN=local
mkdir -p /tmp/seedlogs
W=$1; cd "$W" || exit 2
demo=$(git ls-files --others --exclude-standard | grep 'seed_demo_test.go' | head -1)
pkg=./$(dirname "$demo")
git checkout -q -- . ; git apply patch.diff || { echo "patch does not apply"; exit 2; }
go build ./... || { echo "BUILD FAILS"; exit 1; }
if go test -vet=off -count=1 ./... -skip TestSeedDemo >/tmp/seedlogs/suite.log 2>&1; then echo "suite-with-change: PASS"; else echo "suite-with-change: FAIL"; tail -20 /tmp/seedlogs/suite.log; fi
if go test -vet=off -count=1 -run 'TestSeedDemo$' $pkg >/tmp/seedlogs/demo1.log 2>&1; then echo "demo-with-change: PASS (bad)"; else echo "demo-with-change: FAIL (good)"; fi
git apply -R patch.diff
if go test -vet=off -count=1 -run 'TestSeedDemo$' $pkg >/tmp/seedlogs/demo2.log 2>&1; then echo "demo-without-change: PASS (good)"; else echo "demo-without-change: FAIL (bad)"; tail -5 /tmp/seedlogs/demo2.log; fi
git apply patch.diff
echo "demo=$demo"
