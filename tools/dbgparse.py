#!/usr/bin/env python3
"""dbgparse.py <template text> : show the model's parse (dump or error lines) and the implementation's."""
import sys, subprocess, re, os, json, tempfile
inp = sys.argv[1].encode('utf-8','surrogateescape')
hx = inp.hex()
d = tempfile.mkdtemp(dir='/verif/build')
v = os.path.join(d, 'dbg.v')
open(v,'w').write('''From Coq Require Import String.
From Plush Require Import model.Bytes model.Lexer model.Ast model.Parser model.Dump model.Cases.
Local Open Scope string_scope.
Definition r := Eval vm_compute in match parse (hx "%s") with ParseOk p => (0%%nat, dprog p, []) | ParseErr ls => (1%%nat, [], ls) | ParseFuel => (2%%nat, [], []) end.
Print r.
''' % hx)
o = subprocess.run(['coqc','-R','/verif/coq','Plush','-w','-all',v],capture_output=True,text=True,cwd=d).stdout
m = re.search(r'r\s*=\s*\((\d+)%nat,\s*\[(.*?)\],\s*\[(.*?)\]\)', o, re.S)
if not m: print(o); sys.exit(1)
cls = int(m.group(1))
bs = bytes(int(x.strip().replace('%N','')) for x in m.group(2).split(';') if x.strip())
print('MODEL:', ['OK','ERR','FUEL'][cls], bs.decode('latin1'), m.group(3).replace('\n',' '))
subprocess.run(['rm','-rf',d])
