#!/bin/bash
# runall.sh [tier] : run every registered check, print one line each
tier=${1:-quick}
cd /verif
for i in $(seq -w 1 20); do
  id=C$i; s=$(date +%s); out=$(./check $id $tier 2>&1); rc=$?; e=$(( $(date +%s) - s ))
  echo "$id rc=$rc ${e}s $(echo "$out" | grep -E 'VIOLATION|OK property' | tail -1 | cut -c1-160)"
done
