(* EvalProofs.v - theorems about the evaluator model (model/Eval.v). *)
From Coq Require Import Lia.
From Plush Require Import model.Bytes model.Lexer model.Ast model.Parser model.Ctx model.Text model.Iter model.Value model.Eval proofs.TextProofs.
Local Open Scope N_scope.

(* ================= C04: no function of the model ever returns a panic ================= *)
Definition np {A} (r : res A) : Prop := match r with RPanic _ => False | _ => True end.
Definition npo (o : outcome) : Prop := match o with OPanic _ => False | _ => True end.

Lemma np_rbind {A B} (m : res A) (k : A -> res B) : np m -> (forall a, np (k a)) -> np (rbind m k).
Proof. destruct m; simpl; auto. Qed.
Lemma np_rfinal g r : np r -> np (rfinal g r).
Proof. destruct r as [[v s]| | | |]; simpl; auto. Qed.
Lemma np_tolerate b o r : np r -> np (tolerate b o r).
Proof. destruct r; simpl; auto. destruct (b && is_unknown e); simpl; auto. Qed.
Lemma np_of_opres o st : np (of_opres o st).
Proof. destruct o; simpl; auto. Qed.
Lemma np_fail {A} st : np (@fail A st).
Proof. exact I. Qed.

Section NP.
Variable G : genv.

Record NP (ev : evals) : Prop := mkNP {
  np_eval : forall st e, np (r_eval ev st e);
  np_eval_chain : forall st c, np (r_eval_chain ev st c);
  np_eval_list : forall st es, np (r_eval_list ev st es);
  np_eval_pairs : forall st ps acc, np (r_eval_pairs ev st ps acc);
  np_eval_infix : forall st op l r, np (r_eval_infix ev st op l r);
  np_eval_if : forall st bs els, np (r_eval_if ev st bs els);
  np_eval_block : forall st b, np (r_eval_block ev st b);
  np_eval_stmts : forall st ss acc, np (r_eval_stmts ev st ss acc);
  np_eval_stmt : forall st s, np (r_eval_stmt ev st s);
  np_eval_for : forall st k v it b, np (r_eval_for ev st k v it b);
  np_for_body : forall st k v b kv vv, np (r_for_body ev st k v b kv vv);
  np_for_items : forall st k v b items acc, np (r_for_items ev st k v b items acc);
  np_for_slice : forall st k v b loc i acc, np (r_for_slice ev st k v b loc i acc);
  np_for_iter : forall st k v b loc i acc, np (r_for_iter ev st k v b loc i acc);
  np_eval_index : forall st l i v c, np (r_eval_index ev st l i v c);
  np_index_callee : forall st x ls c, np (r_index_callee ev st x ls c);
  np_eval_call : forall st fn callee args blk chain, np (r_eval_call ev st fn callee args blk chain);
  np_user_call : forall st ps body args, np (r_user_call ev st ps body args);
  np_bind_params : forall st ps args, np (r_bind_params ev st ps args);
  np_bind_args : forall st sg args blk, np (r_bind_args ev st sg args blk);
  np_bind_fixed : forall st ps args, np (r_bind_fixed ev st ps args);
  np_bind_variadic : forall st p args, np (r_bind_variadic ev st p args);
  np_block_with : forall st blk ctx, np (r_block_with ev st blk ctx);
  np_block_in_child : forall st blk parent data, np (r_block_in_child ev st blk parent data);
  np_go_apply : forall st id cfg recv bs, np (r_go_apply ev st id cfg recv bs);
  np_partial_call : forall st name data ctx, np (r_partial_call ev st name data ctx);
  np_exec_prog : forall st prog out, npo (r_exec_prog ev st prog out)
}.

Lemma NP_bottom : NP evals_bottom.
Proof. constructor; intros; exact I. Qed.

(* one step of case analysis on the head of the goal *)
Ltac np_step H :=
  match goal with
  | |- np (rbind _ _) => apply np_rbind; [|intros [? ?]]
  | |- np (rfinal _ _) => apply np_rfinal
  | |- np (tolerate _ _ _) => apply np_tolerate
  | |- np (of_opres _ _) => apply np_of_opres
  | |- np (fail _) => exact I
  | |- np (ROk _) => exact I
  | |- np (RErr _ _) => exact I
  | |- np RFuel => exact I
  | |- np RUnsup => exact I
  | |- npo (OOk _ _) => exact I
  | |- npo (OErr _ _ _) => exact I
  | |- npo (OParseErr _) => exact I
  | |- npo OFuel => exact I
  | |- npo OUnsup => exact I
  | |- np (r_eval _ _ _) => apply (np_eval _ H)
  | |- np (r_eval_chain _ _ _) => apply (np_eval_chain _ H)
  | |- np (r_eval_list _ _ _) => apply (np_eval_list _ H)
  | |- np (r_eval_pairs _ _ _ _) => apply (np_eval_pairs _ H)
  | |- np (r_eval_infix _ _ _ _ _) => apply (np_eval_infix _ H)
  | |- np (r_eval_if _ _ _ _) => apply (np_eval_if _ H)
  | |- np (r_eval_block _ _ _) => apply (np_eval_block _ H)
  | |- np (r_eval_stmts _ _ _ _) => apply (np_eval_stmts _ H)
  | |- np (r_eval_stmt _ _ _) => apply (np_eval_stmt _ H)
  | |- np (r_eval_for _ _ _ _ _ _) => apply (np_eval_for _ H)
  | |- np (r_for_body _ _ _ _ _ _ _) => apply (np_for_body _ H)
  | |- np (r_for_items _ _ _ _ _ _ _) => apply (np_for_items _ H)
  | |- np (r_for_slice _ _ _ _ _ _ _ _) => apply (np_for_slice _ H)
  | |- np (r_for_iter _ _ _ _ _ _ _ _) => apply (np_for_iter _ H)
  | |- np (r_eval_index _ _ _ _ _ _) => apply (np_eval_index _ H)
  | |- np (r_index_callee _ _ _ _ _) => apply (np_index_callee _ H)
  | |- np (r_eval_call _ _ _ _ _ _ _) => apply (np_eval_call _ H)
  | |- np (r_user_call _ _ _ _ _) => apply (np_user_call _ H)
  | |- np (r_bind_params _ _ _ _) => apply (np_bind_params _ H)
  | |- np (r_bind_args _ _ _ _ _) => apply (np_bind_args _ H)
  | |- np (r_bind_fixed _ _ _ _) => apply (np_bind_fixed _ H)
  | |- np (r_bind_variadic _ _ _ _) => apply (np_bind_variadic _ H)
  | |- np (r_block_with _ _ _ _) => apply (np_block_with _ H)
  | |- np (r_block_in_child _ _ _ _ _) => apply (np_block_in_child _ H)
  | |- np (r_go_apply _ _ _ _ _ _) => apply (np_go_apply _ H)
  | |- np (r_partial_call _ _ _ _ _) => apply (np_partial_call _ H)
  | |- npo (r_exec_prog _ _ _ _) => apply (np_exec_prog _ H)
  | |- np (match ?x with _ => _ end) => destruct x eqn:?
  | |- npo (match ?x with _ => _ end) => destruct x eqn:?
  | |- np (let '(_, _) := ?x in _) => destruct x eqn:?
  | |- npo (let '(_, _) := ?x in _) => destruct x eqn:?
  | |- np (if ?x then _ else _) => destruct x eqn:?
  | |- npo (if ?x then _ else _) => destruct x eqn:?
  | |- np (RPanic _) =>
      exfalso;
      match goal with
      | Heq : ?x = RPanic _ |- _ =>
          let Hn := fresh in assert (Hn : np x) by (np_step H); rewrite Heq in Hn; exact Hn
      | Heq : ?x = OPanic _ |- _ =>
          let Hn := fresh in assert (Hn : npo x) by (np_step H); rewrite Heq in Hn; exact Hn
      end
  | |- npo (OPanic _) =>
      exfalso;
      match goal with
      | Heq : ?x = OPanic _ |- _ =>
          let Hn := fresh in assert (Hn : npo x) by (np_step H); rewrite Heq in Hn; exact Hn
      | Heq : ?x = RPanic _ |- _ =>
          let Hn := fresh in assert (Hn : np x) by (cbv zeta; repeat (np_step H; cbv zeta)); rewrite Heq in Hn; exact Hn
      end
  | |- np (?f _) => unfold f
  | |- _ => exact I
  end.
Ltac np_solve H := cbv zeta; repeat (np_step H; cbv zeta).

Lemma NP_step ev : NP ev -> NP (evals_step G ev).
Proof.
  intros H. constructor; intros; cbn [evals_step r_eval r_eval_chain r_eval_list r_eval_pairs r_eval_infix r_eval_if
    r_eval_block r_eval_stmts r_eval_stmt r_eval_for r_for_body r_for_items r_for_slice r_for_iter r_eval_index
    r_index_callee r_eval_call r_user_call r_bind_params r_bind_args r_bind_fixed r_bind_variadic r_block_with
    r_block_in_child r_go_apply r_partial_call r_exec_prog].
  - unfold eval_step. np_solve H.
  - unfold eval_chain_step. np_solve H.
  - unfold eval_list_step. np_solve H.
  - unfold eval_pairs_step. np_solve H.
  - unfold eval_infix_step. np_solve H.
  - unfold eval_if_step. np_solve H.
  - unfold eval_block_step. np_solve H.
  - unfold eval_stmts_step. np_solve H.
  - unfold eval_stmt_step. np_solve H.
  - unfold eval_for_step. np_solve H.
  - unfold for_body_step. np_solve H.
  - unfold for_items_step. np_solve H.
  - unfold for_slice_step. np_solve H.
  - unfold for_iter_step. np_solve H.
  - unfold eval_index_step. np_solve H.
  - unfold index_callee_step. np_solve H.
  - unfold eval_call_step. np_solve H.
  - unfold user_call_step. np_solve H.
  - unfold bind_params_step. np_solve H.
  - unfold bind_args_step. np_solve H.
  - unfold bind_fixed_step. np_solve H.
  - unfold bind_variadic_step. np_solve H.
  - unfold block_with_step. np_solve H.
  - unfold block_in_child_step. np_solve H.
  - unfold go_apply_step. np_solve H.
  - unfold partial_call_step. np_solve H.
  - unfold exec_prog_step. np_solve H.
Qed.

Theorem NP_at fuel : NP (evals_at G fuel).
Proof. induction fuel as [|f IH]; [exact NP_bottom|exact (NP_step _ IH)]. Qed.
End NP.

(* ================= corollaries in the fuel-indexed form ================= *)
Section Corollaries.
Variable G : genv.

Theorem eval_no_panic fuel st e site : eval G fuel st e <> RPanic site.
Proof. intros E. pose proof (np_eval _ (NP_at G fuel) st e) as H. unfold eval in E. rewrite E in H. exact H. Qed.

Theorem exec_no_panic fuel st prog out site : exec_prog G fuel st prog out <> OPanic site.
Proof. intros E. pose proof (np_exec_prog _ (NP_at G fuel) st prog out) as H. unfold exec_prog in E. rewrite E in H. exact H. Qed.

Theorem render_no_panic fuel st input site : render G fuel st input <> OPanic site.
Proof.
  unfold render. destruct (parse input); try discriminate. apply exec_no_panic.
Qed.

Theorem go_apply_no_panic fuel st id cfg recv bs site : go_apply G fuel st id cfg recv bs <> RPanic site.
Proof. intros E. pose proof (np_go_apply _ (NP_at G fuel) st id cfg recv bs) as H. unfold go_apply in E. rewrite E in H. exact H. Qed.

(* ================= C07: truthiness and the if chain ================= *)
Theorem truthy_classification v :
  truthy v = false <->
  (v = VNil \/ v = VBool false \/ v = VStr [] \/ v = VHTML [] \/ exists tn, v = VNilPtr tn).
Proof.
  split.
  - destruct v; simpl; try discriminate; auto.
    + destruct b; [discriminate|auto].
    + destruct s; [auto|discriminate].
    + destruct s; [auto 6|discriminate].
    + intros _. right; right; right; right. eexists; reflexivity.
  - intros [->|[->|[->|[->|[tn ->]]]]]; reflexivity.
Qed.

(* unfolding of one level of fuel *)
Lemma eval_S fuel st e : eval G (S fuel) st e = eval_step (evals_at G fuel) st e.
Proof. reflexivity. Qed.
Lemma eval_if_S fuel st bs els : eval_if G (S fuel) st bs els = eval_if_step (evals_at G fuel) st bs els.
Proof. reflexivity. Qed.

(* the condition is truthy: exactly that block is evaluated, in the state the
   condition left behind; no later condition appears in the result *)
Theorem if_chain_true fuel st c b rest els cv st1 :
  eval G fuel st c = ROk (cv, st1) -> truthy cv = true ->
  eval_if G (S fuel) st ((c, b) :: rest) els = eval_block G fuel st1 b.
Proof.
  intros E T. rewrite eval_if_S. unfold eval_if_step. unfold eval in E. rewrite E. simpl. rewrite T. reflexivity.
Qed.

(* the condition is falsy: the chain continues with the remaining branches *)
Theorem if_chain_false fuel st c b rest els cv st1 :
  eval G fuel st c = ROk (cv, st1) -> truthy cv = false ->
  eval_if G (S fuel) st ((c, b) :: rest) els = eval_if G fuel st1 rest els.
Proof.
  intros E T. rewrite eval_if_S. unfold eval_if_step. unfold eval in E. rewrite E. simpl. rewrite T. reflexivity.
Qed.

(* an unknown identifier as condition counts as falsy *)
Theorem if_chain_unknown fuel st c b rest els n st1 :
  eval G fuel st c = RErr (EUnknown n) st1 ->
  eval_if G (S fuel) st ((c, b) :: rest) els = eval_if G fuel (with_stmt st1 (sstmt st)) rest els.
Proof.
  intros E. rewrite eval_if_S. unfold eval_if_step. unfold eval in E. rewrite E. reflexivity.
Qed.

(* any other failure of a condition fails the chain *)
Theorem if_chain_error fuel st c b rest els k st1 :
  eval G fuel st c = RErr (EFail k) st1 ->
  eval_if G (S fuel) st ((c, b) :: rest) els = RErr (EFail k) st1.
Proof.
  intros E. rewrite eval_if_S. unfold eval_if_step. unfold eval in E. rewrite E. reflexivity.
Qed.

Theorem if_chain_end fuel st els :
  eval_if G (S fuel) st [] els =
  match els with Some b => eval_block G fuel st b | None => ROk (VNil, st) end.
Proof. reflexivity. Qed.

(* the same truth value under !, && and || *)
Theorem bang_uses_truthy fuel st lit e v st1 :
  eval G fuel st e = ROk (v, st1) ->
  eval G (S fuel) st (EPrefix lit [33] e) = ROk (VBool (negb (truthy v)), st1).
Proof. intros E. rewrite eval_S. unfold eval_step. unfold eval in E. rewrite E. reflexivity. Qed.

Theorem bang_unknown_is_true fuel st lit e n st1 :
  eval G fuel st e = RErr (EUnknown n) st1 ->
  eval G (S fuel) st (EPrefix lit [33] e) = ROk (VBool true, with_stmt st1 (sstmt st)).
Proof. intros E. rewrite eval_S. unfold eval_step. unfold eval in E. rewrite E. reflexivity. Qed.

Lemma eval_infix_S fuel st op l r : eval_infix G (S fuel) st op l r = eval_infix_step (evals_at G fuel) st op l r.
Proof. reflexivity. Qed.

Theorem and_short_circuit fuel st l r lv st1 :
  eval G fuel st l = ROk (lv, st1) -> truthy lv = false ->
  eval_infix G (S fuel) st o_and l r = ROk (VBool false, st1).
Proof.
  intros E T. rewrite eval_infix_S. unfold eval_infix_step. unfold eval in E. rewrite E. simpl. rewrite T. reflexivity.
Qed.

Theorem or_short_circuit fuel st l r lv st1 :
  eval G fuel st l = ROk (lv, st1) -> truthy lv = true ->
  eval_infix G (S fuel) st o_or l r = ROk (VBool true, st1).
Proof.
  intros E T. rewrite eval_infix_S. unfold eval_infix_step. unfold eval in E. rewrite E. simpl. rewrite T. reflexivity.
Qed.

Theorem and_right_truthy fuel st l r lv st1 rv st2 :
  eval G fuel st l = ROk (lv, st1) -> truthy lv = true ->
  eval G fuel st1 r = ROk (rv, st2) ->
  eval_infix G (S fuel) st o_and l r = ROk (VBool (truthy rv), st2).
Proof.
  intros E T E2. rewrite eval_infix_S. unfold eval_infix_step. unfold eval in E, E2. rewrite E. simpl. rewrite T. simpl.
  rewrite E2. reflexivity.
Qed.

Theorem or_right_truthy fuel st l r lv st1 rv st2 :
  eval G fuel st l = ROk (lv, st1) -> truthy lv = false ->
  eval G fuel st1 r = ROk (rv, st2) ->
  eval_infix G (S fuel) st o_or l r = ROk (VBool (truthy rv), st2).
Proof.
  intros E T E2. rewrite eval_infix_S. unfold eval_infix_step. unfold eval in E, E2. rewrite E. simpl. rewrite T. simpl.
  rewrite E2. reflexivity.
Qed.

(* ================= C05: failures are not swallowed ================= *)
(* the only error the tolerant sites let through is an unknown identifier *)
Theorem tolerate_spec b o r :
  tolerate b o r =
  match r with
  | RErr (EUnknown n) s => if b then ROk (VNil, with_stmt s o) else RErr (EUnknown n) s
  | x => x
  end.
Proof. destruct r as [a|e s| | |]; try reflexivity. destruct e; simpl; destruct b; reflexivity. Qed.

(* a failing operand fails the infix expression, whatever the operator *)
Theorem infix_left_failure fuel st op l r k st1 :
  eval G fuel st l = RErr (EFail k) st1 ->
  eval_infix G (S fuel) st op l r = RErr (EFail k) st1.
Proof.
  intros E. rewrite eval_infix_S. unfold eval_infix_step. unfold eval in E. rewrite E.
  rewrite tolerate_spec. reflexivity.
Qed.

Theorem infix_right_failure fuel st op l r lv st1 k st2 :
  eval G fuel st l = ROk (lv, st1) ->
  (op_is op o_and && negb (truthy lv) = false) -> (op_is op o_or && truthy lv = false) ->
  eval G fuel st1 r = RErr (EFail k) st2 ->
  eval_infix G (S fuel) st op l r = RErr (EFail k) st2.
Proof.
  intros E H1 H2 E2. rewrite eval_infix_S. unfold eval_infix_step. unfold eval in E, E2. rewrite E.
  rewrite tolerate_spec. simpl. rewrite H1, H2. rewrite E2. rewrite tolerate_spec. reflexivity.
Qed.

Theorem bang_failure fuel st lit op e k st1 :
  eval G fuel st e = RErr (EFail k) st1 ->
  eval G (S fuel) st (EPrefix lit op e) = RErr (EFail k) st1.
Proof. intros E. rewrite eval_S. unfold eval_step. unfold eval in E. rewrite E. reflexivity. Qed.

(* a failing statement fails the execution: the result is an error carrying the
   failure, and no output at all (OErr has no output component) *)
Lemma exec_S fuel st prog out : exec_prog G (S fuel) st prog out = exec_prog_step (evals_at G fuel) st prog out.
Proof. reflexivity. Qed.

Theorem exec_output_tag_failure fuel st t e rest out k st1 :
  eval G fuel (with_stmt st None) e = RErr (EFail k) st1 ->
  exists line, exec_prog G (S fuel) st (SRet t true e :: rest) out = OErr line (EFail k) st1.
Proof.
  intros E. rewrite exec_S. unfold exec_prog_step. cbv zeta. unfold eval in E. rewrite E. simpl. eexists. reflexivity.
Qed.

(* ---- C06: typed dispatch of a binary operator on two evaluated operands ---- *)
Definition logical (op : bytes) : bool := op_is op o_and || op_is op o_or.

Theorem infix_values fuel st op l r lv st1 rv st2 :
  logical op = false ->
  eval G fuel st l = ROk (lv, st1) -> eval G fuel st1 r = ROk (rv, st2) ->
  is_nil lv = false -> is_nil rv = false ->
  eval_infix G (S fuel) st op l r =
  match lv with
  | VStr ls => match sprint (sheap st2) rv with
               | Some rr => of_opres (strings_op op ls rr) st2
               | None => RUnsup
               end
  | VInt a => match rv with VInt b => of_opres (ints_op op a b) st2 | _ => fail st2 end
  | VFloat a => match rv with VFloat b => of_opres (floats_op op a b) st2 | _ => fail st2 end
  | VBool a => of_opres (bools_op op a (truthy rv)) st2
  | VSlice _ | VList _ => eval_infix G (S fuel) st op l r
  | _ => fail st2
  end.
Proof.
  intros Hl El Er Nl Nr. unfold logical in Hl. apply orb_false_elim in Hl. destruct Hl as [Ha Ho].
  destruct lv; try reflexivity;
    rewrite eval_infix_S; unfold eval_infix_step; cbv zeta; unfold eval in El, Er;
    rewrite El; cbn [tolerate rbind]; rewrite Ha, Ho; cbn [andb];
    rewrite Er; cbn [tolerate rbind]; cbn [orb]; try rewrite Nr; cbn [is_nil orb]; try reflexivity;
    try discriminate Nl.
Qed.

(* two integers: the integer table decides, and nothing else happens *)
Theorem infix_ints fuel st op l r a st1 b st2 :
  logical op = false ->
  eval G fuel st l = ROk (VInt a, st1) -> eval G fuel st1 r = ROk (VInt b, st2) ->
  eval_infix G (S fuel) st op l r = of_opres (ints_op op a b) st2.
Proof. intros Hl El Er. rewrite (infix_values fuel st op l r _ _ _ _ Hl El Er); reflexivity. Qed.

(* string + x concatenates the printed form of x *)
Theorem infix_string_plus fuel st l r ls st1 rv st2 rr :
  eval G fuel st l = ROk (VStr ls, st1) -> eval G fuel st1 r = ROk (rv, st2) ->
  is_nil rv = false -> sprint (sheap st2) rv = Some rr ->
  eval_infix G (S fuel) st o_plus l r = ROk (VStr (ls ++ rr), st2).
Proof.
  intros El Er Nr Hs. rewrite (infix_values fuel st o_plus l r _ _ _ _ eq_refl El Er eq_refl Nr).
  rewrite Hs. reflexivity.
Qed.

(* an integer with a non-integer, non-nil operand is an error *)
Theorem infix_int_mismatch fuel st op l r a st1 rv st2 :
  logical op = false ->
  eval G fuel st l = ROk (VInt a, st1) -> eval G fuel st1 r = ROk (rv, st2) ->
  is_nil rv = false -> (forall b, rv <> VInt b) ->
  eval_infix G (S fuel) st op l r = RErr (EFail None) st2.
Proof.
  intros Hl El Er Nr Hn. rewrite (infix_values fuel st op l r _ _ _ _ Hl El Er eq_refl Nr).
  destruct rv; try reflexivity. exfalso. eapply Hn. reflexivity.
Qed.

(* ---- C02: what each kind of top-level statement contributes to the output ---- *)
Lemma write_nil_any h : write h VNil = [].
Proof. unfold write. destruct (length h + 64)%nat; reflexivity. Qed.
Lemma printable_nil_any h : printable h VNil = true.
Proof. unfold printable. rewrite Nat.add_comm. reflexivity. Qed.
Lemma write_html_top h s : write h (VHTML s) = s.
Proof. unfold write. rewrite Nat.add_comm. reflexivity. Qed.
Lemma printable_html_top h s : printable h (VHTML s) = true.
Proof. unfold printable. rewrite Nat.add_comm. reflexivity. Qed.

(* literal text is appended verbatim *)
Theorem exec_text fuel st t lit s rest out :
  exec_prog G (S fuel) st (SExpr t (EHtml lit s) :: rest) out =
  exec_prog G fuel (with_stmt st None) rest (out ++ s).
Proof.
  rewrite exec_S. unfold exec_prog_step. cbv zeta. rewrite printable_html_top, write_html_top. reflexivity.
Qed.

(* an output tag appends the printed form of its value *)
Theorem exec_output_tag fuel st t e rest out v st1 :
  eval G fuel (with_stmt st None) e = ROk (v, st1) -> printable (sheap st1) v = true ->
  exec_prog G (S fuel) st (SRet t true e :: rest) out =
  exec_prog G fuel st1 rest (out ++ write (sheap st1) v).
Proof.
  intros E Hp. rewrite exec_S. unfold exec_prog_step. cbv zeta. unfold eval in E. rewrite E. simpl.
  rewrite Hp. reflexivity.
Qed.

(* a code tag holding an expression appends nothing, whatever its value *)
Theorem exec_silent_expr fuel st t e rest out v st1 :
  (forall lit s, e <> EHtml lit s) ->
  eval G fuel (with_stmt st None) e = ROk (v, st1) ->
  exec_prog G (S fuel) st (SExpr t e :: rest) out = exec_prog G fuel st1 rest out.
Proof.
  intros Hne E. rewrite exec_S. unfold exec_prog_step. cbv zeta. unfold eval in E.
  destruct e; try (rewrite E; simpl; rewrite printable_nil_any, write_nil_any, app_nil_r; reflexivity).
  exfalso. eapply Hne. reflexivity.
Qed.

(* a let statement appends nothing *)
Theorem exec_silent_let fuel st t name e rest out v st1 :
  eval G fuel (with_stmt st None) e = ROk (v, st1) ->
  exists st2, exec_prog G (S fuel) st (SLet t name e :: rest) out = exec_prog G fuel st2 rest out
              /\ sheap st2 = sheap st1.
Proof.
  intros E. rewrite exec_S. unfold exec_prog_step. cbv zeta. unfold eval in E. rewrite E. simpl.
  eexists. split.
  - match goal with |- context [printable ?h VNil] => rewrite (printable_nil_any h), (write_nil_any h) end.
    rewrite app_nil_r. reflexivity.
  - reflexivity.
Qed.

(* ---- C15: the line reported for a failing top-level statement ---- *)
Definition stmt_expr (s : stmt) : expr :=
  match s with SRet _ _ e => e | SExpr _ e => e | SLet _ _ e => e end.

(* the line is the one recorded by the innermost statement of a block that was
   being evaluated, otherwise the line of the first token of the tag itself *)
Theorem exec_error_line fuel st s rest out k st1 :
  (forall lit v, stmt_expr s <> EHtml lit v) ->
  eval G fuel (with_stmt st None) (stmt_expr s) = RErr k st1 ->
  exec_prog G (S fuel) st (s :: rest) out =
  OErr (match sstmt st1 with Some l => l | None => tline (stmt_tok s) end) k st1.
Proof.
  intros Hne E. rewrite exec_S. unfold exec_prog_step. cbv zeta. unfold eval in E.
  destruct s as [t n e|t b e|t e]; cbn [stmt_expr] in *.
  - rewrite E. reflexivity.
  - rewrite E. reflexivity.
  - destruct e; try (rewrite E; reflexivity). exfalso. eapply Hne. reflexivity.
Qed.

(* a block that completes restores the statement that was current when it
   started: an error later in the same tag is not blamed on the block's last
   statement (a failing block keeps the statement that failed) *)
Lemma eval_block_S fuel st b : eval_block G (S fuel) st b = eval_block_step (evals_at G fuel) st b.
Proof. reflexivity. Qed.

Theorem block_restores_stmt fuel st b v st1 :
  eval_block G (S fuel) st b = ROk (v, st1) -> sstmt st1 = sstmt st.
Proof.
  rewrite eval_block_S. unfold eval_block_step. destruct b as [ss].
  destruct (r_eval_stmts (evals_at G fuel) st ss []) as [[v0 st0]|k st0|site| |]; intros E; inversion E; subst. reflexivity.
Qed.

Theorem block_error_keeps_stmt fuel st ss k st1 :
  eval_stmts G fuel st ss [] = RErr k st1 -> eval_block G (S fuel) st (Block ss) = RErr k st1.
Proof.
  intros E. rewrite eval_block_S. unfold eval_block_step. unfold eval_stmts in E. rewrite E. reflexivity.
Qed.

(* ---- C13: a hash literal is evaluated in source order ---- *)
Lemma eval_pairs_S fuel st ps acc : eval_pairs G (S fuel) st ps acc = eval_pairs_step (evals_at G fuel) st ps acc.
Proof. reflexivity. Qed.

(* the first pair of the source is evaluated first, in the incoming state; the
   others see the state it left; a later duplicate key overwrites the earlier *)
Theorem hash_pairs_in_source_order fuel st k ve rest acc v st1 :
  eval G fuel st ve = ROk (v, st1) ->
  eval_pairs G (S fuel) st ((k, ve) :: rest) acc =
  eval_pairs G fuel st1 rest (vupdate (VStr (expr_lit k)) v acc).
Proof. intros E. rewrite eval_pairs_S. unfold eval_pairs_step. unfold eval in E. rewrite E. reflexivity. Qed.
Theorem hash_pairs_stop_at_first_failure fuel st k ve rest acc e st1 :
  eval G fuel st ve = RErr e st1 ->
  eval_pairs G (S fuel) st ((k, ve) :: rest) acc = RErr e st1.
Proof. intros E. rewrite eval_pairs_S. unfold eval_pairs_step. unfold eval in E. rewrite E. reflexivity. Qed.
Theorem hash_pairs_done fuel st acc : eval_pairs G (S fuel) st [] acc = ROk (acc, st).
Proof. reflexivity. Qed.

(* ================= C11: path access ================= *)
Lemma eval_chain_S fuel st comps : eval_chain G (S fuel) st comps = eval_chain_step G (evals_at G fuel) st comps.
Proof. reflexivity. Qed.
Lemma eval_index_S fuel st l i v callee : eval_index G (S fuel) st l i v callee = eval_index_step (evals_at G fuel) st l i v callee.
Proof. reflexivity. Qed.

Definition deref (c : value) : value := match c with VPtr x => x | x => x end.
Ltac dr c Hd := unfold deref in Hd; destruct c; try discriminate Hd; first [injection Hd as ? ?; subst | subst].
Definition plain_field (fv : value) : Prop := (forall tn, fv <> VNilPtr tn) /\ (forall x, fv <> VPtr x).

(* a variable: exactly the value bound to that name in the current scope chain *)
Theorem path_variable fuel st n : Ctx.has value VNil is_nil (sctx st) (scur st) n = true ->
  eval_chain G (S fuel) st [n] = ROk (Ctx.value value VNil (sctx st) (scur st) n, st).
Proof. intros H. rewrite eval_chain_S. unfold eval_chain_step. rewrite H. reflexivity. Qed.

(* field selection (the path is kept in reverse: n is the last component):
   exactly the field of that name, through a pointer or not *)
Theorem path_field fuel st n m rest c st1 tn fs fv :
  eval_chain G fuel st (m :: rest) = ROk (c, st1) -> deref c = VStruct tn fs ->
  field_of fs n = Some fv -> plain_field fv -> exported n = true ->
  eval_chain G (S fuel) st (n :: m :: rest) = ROk (fv, st1).
Proof.
  intros E Hd Hf [Hp1 Hp2] Hx. rewrite eval_chain_S. unfold eval_chain_step. unfold eval_chain in E. rewrite E.
  cbn [rbind]. dr c Hd; rewrite Hf, Hx; destruct fv; try reflexivity;
    solve [exfalso; eapply Hp2; reflexivity|exfalso; eapply Hp1; reflexivity].
Qed.
(* a pointer field is followed; a nil pointer field gives nil (empty output) *)
Theorem path_pointer_field fuel st n m rest c st1 tn fs x :
  eval_chain G fuel st (m :: rest) = ROk (c, st1) -> deref c = VStruct tn fs ->
  field_of fs n = Some (VPtr x) -> exported n = true ->
  eval_chain G (S fuel) st (n :: m :: rest) = ROk (x, st1).
Proof.
  intros E Hd Hf Hx. rewrite eval_chain_S. unfold eval_chain_step. unfold eval_chain in E. rewrite E.
  cbn [rbind]. dr c Hd; rewrite Hf, Hx; reflexivity.
Qed.
Theorem path_nil_pointer_field fuel st n m rest c st1 tn fs tn' :
  eval_chain G fuel st (m :: rest) = ROk (c, st1) -> deref c = VStruct tn fs ->
  field_of fs n = Some (VNilPtr tn') ->
  eval_chain G (S fuel) st (n :: m :: rest) = ROk (VNil, st1).
Proof.
  intros E Hd Hf. rewrite eval_chain_S. unfold eval_chain_step. unfold eval_chain in E. rewrite E.
  cbn [rbind]. dr c Hd; rewrite Hf; reflexivity.
Qed.
(* an unknown member (no such field, no such value method) is an error *)
Theorem path_unknown_member fuel st n m rest c st1 tn fs :
  eval_chain G fuel st (m :: rest) = ROk (c, st1) -> deref c = VStruct tn fs ->
  field_of fs n = None -> (forall id, find_method (g_methods G tn) n <> Some (false, id)) ->
  eval_chain G (S fuel) st (n :: m :: rest) = RErr (EFail None) st1.
Proof.
  intros E Hd Hf Hm. rewrite eval_chain_S. unfold eval_chain_step. unfold eval_chain in E. rewrite E.
  cbn [rbind]. dr c Hd; rewrite Hf;
    (destruct (find_method (g_methods G tn) n) as [[[|] id]|] eqn:Em; try reflexivity;
     exfalso; eapply Hm; reflexivity).
Qed.
(* an unexported member is an error *)
Theorem path_unexported_member fuel st n m rest c st1 tn fs fv :
  eval_chain G fuel st (m :: rest) = ROk (c, st1) -> deref c = VStruct tn fs ->
  field_of fs n = Some fv -> (forall tn', fv <> VNilPtr tn') -> exported n = false ->
  eval_chain G (S fuel) st (n :: m :: rest) = RErr (EFail None) st1.
Proof.
  intros E Hd Hf Hp Hx. rewrite eval_chain_S. unfold eval_chain_step. unfold eval_chain in E. rewrite E.
  cbn [rbind]. dr c Hd; rewrite Hf, Hx; destruct fv; try reflexivity;
    exfalso; eapply Hp; reflexivity.
Qed.
(* a failing prefix fails the whole path *)
Theorem path_prefix_failure fuel st n m rest e st1 :
  eval_chain G fuel st (m :: rest) = RErr e st1 ->
  eval_chain G (S fuel) st (n :: m :: rest) = RErr e st1.
Proof. intros E. rewrite eval_chain_S. unfold eval_chain_step. unfold eval_chain in E. rewrite E. reflexivity. Qed.

(* indexing a list: exactly the element at that position ... *)
Theorem index_list_in_range fuel st l i z st1 es st2 x :
  eval G fuel st i = ROk (VInt z, st1) -> eval G fuel st1 l = ROk (VList es, st2) ->
  nth_error es (Z.to_nat z) = Some x -> (0 <= z)%Z ->
  eval_index G (S fuel) st l i ENil ENil = ROk (x, st2).
Proof.
  intros Ei El Hn Hz. rewrite eval_index_S. unfold eval_index_step. unfold eval in Ei, El.
  rewrite Ei. cbn [rbind]. rewrite El. cbn [rbind].
  assert (Hlt: (Z.to_nat z < length es)%nat) by (apply nth_error_Some; congruence).
  assert (H1: (z <? 0)%Z = false) by (apply Z.ltb_ge; exact Hz).
  assert (H2: (Z.of_nat (length es) - 1 <? z)%Z = false) by (apply Z.ltb_ge; lia).
  rewrite H1, H2. cbn [orb]. rewrite Hn. reflexivity.
Qed.
(* ... and out of range it is an error, never another element *)
Theorem index_list_out_of_range fuel st l i z st1 es st2 callee :
  eval G fuel st i = ROk (VInt z, st1) -> eval G fuel st1 l = ROk (VList es, st2) ->
  (z < 0 \/ Z.of_nat (length es) <= z)%Z ->
  eval_index G (S fuel) st l i ENil callee = RErr (EFail None) st2.
Proof.
  intros Ei El Hz. rewrite eval_index_S. unfold eval_index_step. unfold eval in Ei, El.
  rewrite Ei. cbn [rbind]. rewrite El. cbn [rbind].
  assert (H: ((z <? 0)%Z || (Z.of_nat (length es) - 1 <? z)%Z) = true).
  { apply orb_true_iff. destruct Hz; [left; apply Z.ltb_lt; assumption|right; apply Z.ltb_lt; lia]. }
  rewrite H. reflexivity.
Qed.
(* the same for a Go slice held in the heap *)
Theorem index_slice_in_range fuel st l i z st1 loc ety es st2 x :
  eval G fuel st i = ROk (VInt z, st1) -> eval G fuel st1 l = ROk (VSlice loc, st2) ->
  hget (sheap st2) loc = Some (HSlice ety es) ->
  nth_error es (Z.to_nat z) = Some x -> (0 <= z)%Z ->
  eval_index G (S fuel) st l i ENil ENil = ROk (x, st2).
Proof.
  intros Ei El Hh Hn Hz. rewrite eval_index_S. unfold eval_index_step. unfold eval in Ei, El.
  rewrite Ei. cbn [rbind]. rewrite El. cbn [rbind]. rewrite Hh.
  assert (Hlt: (Z.to_nat z < length es)%nat) by (apply nth_error_Some; congruence).
  assert (H1: (z <? 0)%Z = false) by (apply Z.ltb_ge; exact Hz).
  assert (H2: (Z.of_nat (length es) - 1 <? z)%Z = false) by (apply Z.ltb_ge; lia).
  rewrite H1, H2. cbn [orb]. rewrite Hn. reflexivity.
Qed.
Theorem index_slice_out_of_range fuel st l i z st1 loc ety es st2 callee :
  eval G fuel st i = ROk (VInt z, st1) -> eval G fuel st1 l = ROk (VSlice loc, st2) ->
  hget (sheap st2) loc = Some (HSlice ety es) ->
  (z < 0 \/ Z.of_nat (length es) <= z)%Z ->
  eval_index G (S fuel) st l i ENil callee = RErr (EFail None) st2.
Proof.
  intros Ei El Hh Hz. rewrite eval_index_S. unfold eval_index_step. unfold eval in Ei, El.
  rewrite Ei. cbn [rbind]. rewrite El. cbn [rbind]. rewrite Hh.
  assert (H: ((z <? 0)%Z || (Z.of_nat (length es) - 1 <? z)%Z) = true).
  { apply orb_true_iff. destruct Hz; [left; apply Z.ltb_lt; assumption|right; apply Z.ltb_lt; lia]. }
  rewrite H. reflexivity.
Qed.
(* a map with string keys: the value stored under that key, or nil *)
Theorem index_map_string_key fuel st l i k st1 loc vty kvs st2 :
  eval G fuel st i = ROk (VStr k, st1) -> eval G fuel st1 l = ROk (VMap loc, st2) ->
  hget (sheap st2) loc = Some (HMap TyString vty kvs) ->
  eval_index G (S fuel) st l i ENil ENil =
  ROk (match vlookup (VStr k) kvs with Some x => x | None => VNil end, st2).
Proof.
  intros Ei El Hh. rewrite eval_index_S. unfold eval_index_step. unfold eval in Ei, El.
  rewrite Ei. cbn [rbind]. rewrite El. cbn [rbind]. rewrite Hh. cbn [comparable_v negb].
  destruct (vlookup (VStr k) kvs); reflexivity.
Qed.
(* anything that is neither a map nor a sequence cannot be indexed *)
Theorem index_not_indexable fuel st l i iv st1 lv st2 callee :
  eval G fuel st i = ROk (iv, st1) -> eval G fuel st1 l = ROk (lv, st2) ->
  (forall loc, lv <> VMap loc) -> (forall loc, lv <> VSlice loc) -> (forall vs, lv <> VList vs) ->
  eval_index G (S fuel) st l i ENil callee = RErr (EFail None) st2.
Proof.
  intros Ei El H1 H2 H3. rewrite eval_index_S. unfold eval_index_step. unfold eval in Ei, El.
  rewrite Ei. cbn [rbind]. rewrite El. cbn [rbind].
  destruct lv; try reflexivity; exfalso; first [eapply H3; reflexivity|eapply H2; reflexivity|eapply H1; reflexivity].
Qed.

(* ================= C16: user functions ================= *)
Lemma user_call_S fuel st ps body args : user_call G (S fuel) st ps body args = user_call_step G (evals_at G fuel) st ps body args.
Proof. reflexivity. Qed.

(* the value of a call is what the chain of return wrappers carries *)
Theorem unwrap_ret_value fuel v : (forall vs, v <> VRet vs) -> unwrap_ret (S fuel) v = v.
Proof. intros H. destruct v; try reflexivity. exfalso. exact (H vs eq_refl). Qed.

Theorem unwrap_ret_return fuel acc v : (forall vs, v <> VRet vs) ->
  unwrap_ret (S (S fuel)) (VRet (acc ++ [VRet [v]])) = v.
Proof.
  intros H. cbn [unwrap_ret].
  destruct (acc ++ [VRet [v]]) eqn:E; [destruct acc; discriminate|]. rewrite <- E. rewrite last_last.
  cbn [unwrap_ret last]. destruct fuel; destruct v; try reflexivity; exfalso; exact (H vs eq_refl).
Qed.

(* too few arguments: an error, and nothing is evaluated *)
Theorem user_call_too_few fuel st ps body args :
  Nat.ltb (length args) (length ps) = true ->
  user_call G (S fuel) st ps body args = RErr (EFail None) st.
Proof. intros H. rewrite user_call_S. unfold user_call_step. rewrite H. reflexivity. Qed.

(* the arguments are evaluated by eval_list in the CALLER's state (same current
   context), before the callee scope exists; an argument failure fails the call *)
Theorem user_call_arg_failure fuel st ps body args e st1 :
  Nat.ltb (length args) (length ps) = false ->
  eval_list G fuel st (firstn (length ps) args) = RErr e st1 ->
  user_call G (S fuel) st ps body args = RErr e st1.
Proof.
  intros H E. rewrite user_call_S. unfold user_call_step. rewrite H. unfold eval_list in E. rewrite E. reflexivity.
Qed.

Theorem user_call_ok fuel st ps body args vals st0 :
  Nat.ltb (length args) (length ps) = false ->
  eval_list G fuel st (firstn (length ps) args) = ROk (vals, st0) ->
  user_call G (S fuel) st ps body args =
    let '(st1, n) := cnew G st0 in
    rfinal (fun s => with_cur s (scur st0))
      (rbind (eval_block G fuel (set_all (with_cur st1 n) n (combine ps vals)) body)
             (fun xs => let '(r, st3) := xs in ROk (unwrap_ret 4000 r, st3))).
Proof.
  intros H E. rewrite user_call_S. unfold user_call_step. rewrite H. unfold eval_list in E. rewrite E. reflexivity.
Qed.
End Corollaries.

(* ================= C01: the sink ================= *)
Section Sink.

Lemma is_prefix_app p a b : is_prefix p a = true -> is_prefix p (a ++ b) = true.
Proof.
  revert a. induction p as [|x p IH]; intros a H; [reflexivity|].
  destruct a as [|y a]; [discriminate|]. simpl in *.
  apply andb_prop in H. destruct H as [H1 H2]. rewrite H1. simpl. apply IH. exact H2.
Qed.

Lemma entity_tail_app a b : entity_tail a = true -> entity_tail (a ++ b) = true.
Proof.
  unfold entity_tail. intros H.
  repeat (apply orb_prop in H; destruct H as [H|H]);
    repeat (try (rewrite (is_prefix_app _ _ _ H); rewrite ?orb_true_r; reflexivity)).
Qed.

(* cleanliness is compositional *)
Lemma html_clean_app a b : html_clean a = true -> html_clean b = true -> html_clean (a ++ b) = true.
Proof.
  induction a as [|c a IH]; intros Ha Hb; [exact Hb|].
  simpl in *. destruct (is_html_special c); [discriminate|].
  destruct (c =? 38).
  - apply andb_prop in Ha. destruct Ha as [H1 H2]. rewrite (entity_tail_app _ _ H1). simpl. apply IH; assumption.
  - apply IH; assumption.
Qed.

Lemma html_clean_flat_map {A} (f : A -> bytes) l :
  (forall x, In x l -> html_clean (f x) = true) -> html_clean (flat_map f l) = true.
Proof.
  induction l as [|x l IH]; intros H; [reflexivity|]. simpl.
  apply html_clean_app; [apply H; left; reflexivity|apply IH; intros y Hy; apply H; right; exact Hy].
Qed.

(* bytes that are neither special nor an ampersand *)
Definition plain_byte (c : N) : bool := negb (is_html_special c) && negb (c =? 38).
Lemma html_clean_plain s : forallb plain_byte s = true -> html_clean s = true.
Proof.
  intros H. rewrite <- (app_nil_r s). rewrite html_clean_app_plain; [reflexivity|exact H].
Qed.

(* what the sink writes for the scalar kinds *)
Theorem write_string f h s : write_fuel (S f) h (VStr s) = html_escape s.
Proof. reflexivity. Qed.
Theorem write_html f h s : write_fuel (S f) h (VHTML s) = s.
Proof. reflexivity. Qed.
Theorem write_int f h z : write_fuel (S f) h (VInt z) = dec_of_Z z.
Proof. reflexivity. Qed.
Theorem write_bool f h b : write_fuel (S f) h (VBool b) = if b then s_true else s_false.
Proof. reflexivity. Qed.
Theorem write_list f h vs : write_fuel (S f) h (VList vs) = flat_map (write_fuel f h) vs.
Proof. reflexivity. Qed.
Theorem write_ret f h vs : write_fuel (S f) h (VRet vs) = flat_map (write_fuel f h) vs.
Proof. reflexivity. Qed.
Theorem write_nil f h : write_fuel f h VNil = [].
Proof. destruct f; reflexivity. Qed.

(* a string leaf is escaped (exactly once: the output is html_escape s, and
   html_escape of that would differ), trusted HTML is emitted verbatim *)
Theorem write_string_clean f h s : html_clean (write_fuel (S f) h (VStr s)) = true.
Proof. rewrite write_string. apply html_escape_clean. Qed.

(* values without trusted-HTML leaves and without numbers/floats render clean:
   strings, booleans, nil and (nested) lists / returns of those *)
Fixpoint string_only (fuel : nat) (v : value) : bool :=
  match fuel with
  | O => false
  | S f =>
      match v with
      | VStr _ | VBool _ | VNil => true
      | VList vs | VRet vs => forallb (string_only f) vs
      | _ => false
      end
  end.

Theorem write_string_only_clean fuel : forall h v, string_only fuel v = true -> html_clean (write_fuel fuel h v) = true.
Proof.
  induction fuel as [|f IH]; intros h v H; [discriminate|].
  destruct v; simpl in H; try discriminate.
  - reflexivity.
  - simpl. destruct b; reflexivity.
  - apply write_string_clean.
  - rewrite write_ret. apply html_clean_flat_map. intros x Hx. apply IH.
    rewrite forallb_forall in H. exact (H x Hx).
  - rewrite write_list. apply html_clean_flat_map. intros x Hx. apply IH.
    rewrite forallb_forall in H. exact (H x Hx).
Qed.
End Sink.

(* ================= C08: loops ================= *)
Section Loops.
Variable G : genv.

Lemma for_items_S fuel st k v b items acc :
  for_items G (S fuel) st k v b items acc = for_items_step (evals_at G fuel) st k v b items acc.
Proof. reflexivity. Qed.
Lemma for_body_S fuel st k v b kv vv :
  for_body G (S fuel) st k v b kv vv = for_body_step (evals_at G fuel) st k v b kv vv.
Proof. reflexivity. Qed.

(* no elements left: the loop yields what the iterations produced, in order *)
Theorem for_items_done fuel st k v b acc :
  for_items G (S fuel) st k v b [] acc = ROk (VList acc, st).
Proof. reflexivity. Qed.

(* one more element: the body runs once with key and value bound; its output is
   appended; the loop goes on with the remaining elements ... *)
Theorem for_items_next fuel st k v b kv vv rest acc x st1 :
  for_body G fuel st k v b kv vv = ROk ((x, false), st1) ->
  for_items G (S fuel) st k v b ((kv, vv) :: rest) acc = for_items G fuel st1 k v b rest (acc ++ [x]).
Proof.
  intros E. rewrite for_items_S. unfold for_items_step. unfold for_body in E. rewrite E. reflexivity.
Qed.

(* ... unless the body ended in break: what the iteration produced is kept and
   the remaining elements are not visited *)
Theorem for_items_break fuel st k v b kv vv rest acc x st1 :
  for_body G fuel st k v b kv vv = ROk ((x, true), st1) ->
  for_items G (S fuel) st k v b ((kv, vv) :: rest) acc = ROk (VList (acc ++ [x]), st1).
Proof.
  intros E. rewrite for_items_S. unfold for_items_step. unfold for_body in E. rewrite E. reflexivity.
Qed.

(* a failing body fails the loop *)
Theorem for_items_error fuel st k v b kv vv rest acc e st1 :
  for_body G fuel st k v b kv vv = RErr e st1 ->
  for_items G (S fuel) st k v b ((kv, vv) :: rest) acc = RErr e st1.
Proof.
  intros E. rewrite for_items_S. unfold for_items_step. unfold for_body in E. rewrite E. reflexivity.
Qed.

(* the body of one iteration: key and value are bound in the current scope, the
   block is evaluated; continue keeps what was produced and goes on, break keeps
   it and stops, anything else (including a return object) is the iteration's output *)
Theorem for_body_spec fuel st k v b kv vv :
  for_body G (S fuel) st k v b kv vv =
  rbind (eval_block G fuel (set_in (set_in st (scur st) k kv) (scur st) v vv) b)
        (fun rs => let '(r, st2) := rs in
           match r with
           | VCont vs => ROk ((VList vs, false), st2)
           | VBrk vs => ROk ((VList vs, true), st2)
           | x => ROk ((x, false), st2)
           end).
Proof. reflexivity. Qed.

(* inside a block: break / continue stop the block, keeping what the block
   already produced (acc) followed by what the control object carries *)
Lemma eval_stmts_S fuel st ss acc : eval_stmts G (S fuel) st ss acc = eval_stmts_step (evals_at G fuel) st ss acc.
Proof. reflexivity. Qed.

Theorem block_break_keeps_output fuel st s rest acc vs st1 :
  eval_stmt G fuel st s = ROk (VBrk vs, st1) ->
  eval_stmts G (S fuel) st (s :: rest) acc = ROk (VBrk (acc ++ vs), st1).
Proof. intros E. rewrite eval_stmts_S. unfold eval_stmts_step. unfold eval_stmt in E. rewrite E. reflexivity. Qed.

Theorem block_continue_keeps_output fuel st s rest acc vs st1 :
  eval_stmt G fuel st s = ROk (VCont vs, st1) ->
  eval_stmts G (S fuel) st (s :: rest) acc = ROk (VCont (acc ++ vs), st1).
Proof. intros E. rewrite eval_stmts_S. unfold eval_stmts_step. unfold eval_stmt in E. rewrite E. reflexivity. Qed.

(* a return ends the block at once: the statements after it are not evaluated
   (the state is the one the returning statement left), whatever they are *)
Theorem block_return_skips_rest fuel st s rest acc vs st1 :
  eval_stmt G fuel st s = ROk (VRet vs, st1) ->
  eval_stmts G (S fuel) st (s :: rest) acc = ROk (VRet (acc ++ [VRet vs]), st1).
Proof. intros E. rewrite eval_stmts_S. unfold eval_stmts_step. unfold eval_stmt in E. rewrite E. reflexivity. Qed.

(* a statement that yields an ordinary value: the block goes on with the rest *)
Theorem block_value_continues fuel st s rest acc st1 :
  eval_stmt G fuel st s = ROk (VNil, st1) ->
  eval_stmts G (S fuel) st (s :: rest) acc = eval_stmts G fuel st1 rest acc.
Proof. intros E. rewrite eval_stmts_S. unfold eval_stmts_step. unfold eval_stmt in E. rewrite E. reflexivity. Qed.

Theorem block_done fuel st acc : eval_stmts G (S fuel) st [] acc = ROk (VList acc, st).
Proof. reflexivity. Qed.
End Loops.

(* ================= C17: blocks handed to helpers ================= *)
Section Blocks.
Variable G : genv.

Lemma block_with_S fuel st blk ctx : block_with G (S fuel) st blk ctx = block_with_step (evals_at G fuel) st blk ctx.
Proof. reflexivity. Qed.

(* a block helper receives exactly what its block renders to in the given
   scope (the sink applied to the block's value), and the caller's scope is
   restored afterwards - also when the block fails *)
Theorem block_with_ok fuel st b ctx v st1 :
  eval_block G fuel (with_cur st ctx) b = ROk (v, st1) -> printable (sheap st1) v = true ->
  block_with G (S fuel) st (Some b) ctx = ROk (write (sheap st1) v, with_cur st1 (scur st)).
Proof.
  intros E P. rewrite block_with_S. unfold block_with_step. unfold eval_block in E. rewrite E, P. reflexivity.
Qed.

Theorem block_with_error fuel st b ctx e st1 :
  eval_block G fuel (with_cur st ctx) b = RErr e st1 ->
  block_with G (S fuel) st (Some b) ctx = RErr e (with_cur st1 (scur st)).
Proof.
  intros E. rewrite block_with_S. unfold block_with_step. unfold eval_block in E. rewrite E. reflexivity.
Qed.

Theorem block_with_none fuel st ctx : block_with G (S fuel) st None ctx = RErr (EFail None) st.
Proof. reflexivity. Qed.
(* ---- contentFor / contentOf ---- *)
Lemma go_apply_S fuel st id cfg recv bs : go_apply G (S fuel) st id cfg recv bs = go_apply_step (evals_at G fuel) st id cfg recv bs.
Proof. reflexivity. Qed.
Lemma block_in_child_S fuel st blk parent data :
  block_in_child G (S fuel) st blk parent data = block_in_child_step G (evals_at G fuel) st blk parent data.
Proof. reflexivity. Qed.
Lemma partial_call_S fuel st name data ctx :
  partial_call G (S fuel) st name data ctx = partial_call_step G (evals_at G fuel) st name data ctx.
Proof. reflexivity. Qed.

(* contentFor(name) { block }: emits nothing where it is written; the block is
   stored, with the scope it was written in, under the name *)
Theorem content_for_stores fuel st cfg recv name ctx blk :
  go_apply G (S fuel) st H_CONTENTFOR cfg recv [BV (VStr name); BHelp (HC ctx blk)] =
  ROk (VNil, set_in st ctx (k_contentFor name) (VClosure ctx blk)).
Proof. reflexivity. Qed.

(* contentOf(name, data): the stored block, replayed in a fresh child of the scope
   it was written in, with data added; a block of its own is only the default *)
Theorem content_of_replays fuel st cfg recv name m ctx blk cctx cblk :
  Ctx.value value VNil (sctx st) ctx (k_contentFor name) = VClosure cctx cblk ->
  go_apply G (S (S fuel)) st H_CONTENTOF cfg recv [BV (VStr name); m; BHelp (HC ctx blk)] =
  block_in_child G (S fuel) st cblk cctx
    (match map_of_barg (sheap st) m with Some kvs => str_entries kvs | None => [] end).
Proof. intros E. rewrite go_apply_S. unfold go_apply_step. cbn [N.eqb Pos.eqb orb]. cbv zeta. rewrite E. reflexivity. Qed.

Theorem content_of_default_block fuel st cfg recv name m ctx b :
  (forall cctx cblk, Ctx.value value VNil (sctx st) ctx (k_contentFor name) <> VClosure cctx cblk) ->
  go_apply G (S (S fuel)) st H_CONTENTOF cfg recv [BV (VStr name); m; BHelp (HC ctx (Some b))] =
  block_in_child G (S fuel) st (Some b) ctx
    (match map_of_barg (sheap st) m with Some kvs => str_entries kvs | None => [] end).
Proof.
  intros N. rewrite go_apply_S. unfold go_apply_step. cbn [N.eqb Pos.eqb orb]. cbv zeta.
  destruct (Ctx.value value VNil (sctx st) ctx (k_contentFor name)) eqn:E; try reflexivity.
  exfalso. eapply N. reflexivity.
Qed.

Theorem content_of_undefined_fails fuel st cfg recv name m ctx :
  (forall cctx cblk, Ctx.value value VNil (sctx st) ctx (k_contentFor name) <> VClosure cctx cblk) ->
  go_apply G (S fuel) st H_CONTENTOF cfg recv [BV (VStr name); m; BHelp (HC ctx None)] = RErr (EFail None) st.
Proof.
  intros N. rewrite go_apply_S. unfold go_apply_step. cbn [N.eqb Pos.eqb orb]. cbv zeta.
  destruct (Ctx.value value VNil (sctx st) ctx (k_contentFor name)) eqn:E; try reflexivity.
  exfalso. eapply N. reflexivity.
Qed.

(* a block replayed with data: a fresh child scope holding the data, the block
   rendered there by BlockWith, the text handed back as HTML - unescaped, once *)
Theorem block_in_child_inline fuel st blk parent data st1 n body st3 :
  cnew_of G st parent = (st1, n) ->
  block_with G fuel (set_all st1 n data) blk n = ROk (body, st3) ->
  block_in_child G (S fuel) st blk parent data = ROk (VHTML body, st3).
Proof.
  intros E B. rewrite block_in_child_S. unfold block_in_child_step. rewrite E. cbv zeta.
  unfold block_with in B. rewrite B. reflexivity.
Qed.

(* ---- partial(name, data): the feeder's text rendered in a fresh child of the
   caller's scope holding data; the text comes back as HTML, unescaped, once ---- *)
Theorem partial_inline fuel st name data ctx st1 n cfg text prog out st3 :
  cnew_of G st ctx = (st1, n) ->
  Ctx.value value VNil (sctx (set_all st1 n data)) n k_partialFeeder = VGo H_FEEDER cfg ->
  alookup bytes name (g_partials G) = Some text ->
  parse text = ParseOk prog ->
  exec_prog G fuel (with_stmt (with_cur (set_all st1 n data) n) None) prog [] = OOk out st3 ->
  (forall ct, Ctx.value value VNil (sctx st3) n k_contentType <> VStr ct) ->
  (forall l, alookup value k_layout data <> Some (VStr l)) ->
  partial_call G (S fuel) st name data ctx =
  ROk (VHTML out, with_stmt (with_cur st3 (scur (set_all st1 n data))) (sstmt (set_all st1 n data))).
Proof.
  intros E F A P X NC NL. rewrite partial_call_S. unfold partial_call_step. rewrite E. cbv zeta.
  rewrite F. cbn [N.eqb Pos.eqb negb]. rewrite A, P. unfold exec_prog in X. rewrite X.
  cbn [sctx with_stmt with_cur].
  destruct (Ctx.value value VNil (sctx st3) n k_contentType) eqn:EC; try (exfalso; eapply NC; reflexivity);
    destruct (alookup value k_layout data) as [lv|] eqn:EL; try reflexivity;
    destruct lv; try reflexivity; exfalso; eapply NL; reflexivity.
Qed.

(* with a layout: what the partial rendered to is the layout's yield, and the
   layout is itself a partial rendered in a child of the partial's scope *)
Theorem partial_layout fuel st name data ctx st1 n cfg text prog out st3 layout :
  cnew_of G st ctx = (st1, n) ->
  Ctx.value value VNil (sctx (set_all st1 n data)) n k_partialFeeder = VGo H_FEEDER cfg ->
  alookup bytes name (g_partials G) = Some text ->
  parse text = ParseOk prog ->
  exec_prog G fuel (with_stmt (with_cur (set_all st1 n data) n) None) prog [] = OOk out st3 ->
  (forall ct, Ctx.value value VNil (sctx st3) n k_contentType <> VStr ct) ->
  alookup value k_layout data = Some (VStr layout) ->
  partial_call G (S fuel) st name data ctx =
  partial_call G fuel (with_stmt (with_cur st3 (scur (set_all st1 n data))) (sstmt (set_all st1 n data)))
    layout [(k_yield, VHTML out)] n.
Proof.
  intros E F A P X NC L. rewrite partial_call_S. unfold partial_call_step. rewrite E. cbv zeta.
  rewrite F. cbn [N.eqb Pos.eqb negb]. rewrite A, P. unfold exec_prog in X. rewrite X.
  cbn [sctx with_stmt with_cur]. rewrite L.
  destruct (Ctx.value value VNil (sctx st3) n k_contentType) eqn:EC; try (exfalso; eapply NC; reflexivity); reflexivity.
Qed.

(* a partial whose text fails: the error comes out (never partial output), the
   caller's scope and statement are restored; an unknown identifier inside is an
   ordinary failure for the caller (it is not tolerated one level up) *)
Theorem partial_error fuel st name data ctx st1 n cfg text prog l e st3 :
  cnew_of G st ctx = (st1, n) ->
  Ctx.value value VNil (sctx (set_all st1 n data)) n k_partialFeeder = VGo H_FEEDER cfg ->
  alookup bytes name (g_partials G) = Some text ->
  parse text = ParseOk prog ->
  exec_prog G fuel (with_stmt (with_cur (set_all st1 n data) n) None) prog [] = OErr l e st3 ->
  partial_call G (S fuel) st name data ctx =
  RErr (match e with EFail s => EFail s | EUnknown _ => EFail None end)
       (with_stmt (with_cur st3 (scur (set_all st1 n data))) (sstmt (set_all st1 n data))).
Proof.
  intros E F A P X. rewrite partial_call_S. unfold partial_call_step. rewrite E. cbv zeta.
  rewrite F. cbn [N.eqb Pos.eqb negb]. rewrite A, P. unfold exec_prog in X. rewrite X. reflexivity.
Qed.

End Blocks.

(* ================= C09: a fresh scope never clobbers existing ones ================= *)
From Plush Require Import spec.RefCtx proofs.CtxProofs.
Section Frame.
Variable G : genv.
Local Open Scope nat_scope.

Notation cvalue := (Ctx.value value VNil).

(* values of existing contexts are not changed by pushing a context *)
Lemma value_push cx (s : store value) c k : c < length s -> cvalue (cx :: s) c k = cvalue s c k.
Proof. intros H. simpl. destruct (Nat.eqb_spec c (length s)); [lia|reflexivity]. Qed.

(* a Set on a context with a larger id is invisible to every older context *)
Lemma value_set_newer (s : store value) n c k v k' : c < n -> cvalue (Ctx.set value s n k v) c k' = cvalue s c k'.
Proof.
  intros H. apply (set_isolated value VNil). apply (on_path_below value). exact H.
Qed.

Lemma value_fold_set_newer (cond : store value -> key -> bool) n c k' hs : forall (s : store value), c < n ->
  cvalue (fold_left (fun s kv => if cond s (fst kv) then s else Ctx.set value s n (fst kv) (snd kv)) hs s) c k' = cvalue s c k'.
Proof.
  induction hs as [|[k v] r IH]; intros s H; simpl; [reflexivity|].
  destruct (cond s k); rewrite IH by exact H; [reflexivity|apply value_set_newer; exact H].
Qed.

(* New(): every existing context answers every key as before *)
Theorem new_child_frame (s : store value) p c k : c < length s ->
  cvalue (fst (Ctx.new_child value VNil is_nil (g_helpers G) s p)) c k = cvalue s c k.
Proof.
  intros H. unfold Ctx.new_child, Ctx.inject_child. simpl fst.
  rewrite (value_fold_set_newer
             (fun s0 k0 => (Ctx.has value VNil is_nil s0 (length s) k0 || Ctx.has value VNil is_nil s0 p k0)%bool)
             (length s) c k (g_helpers G)) by exact H.
  apply value_push. exact H.
Qed.

(* the scope a for / function call / partial / contentOf / block helper works in
   is a fresh child: whatever is bound in it (loop variables, parameters, data,
   let) leaves every existing context - in particular same-named outer
   variables - exactly as it was *)
Theorem fresh_scope_frame st kvs c k : c < length (sctx st) ->
  let '(st1, n) := cnew G st in
  cvalue (sctx (set_all st1 n kvs)) c k = cvalue (sctx st) c k.
Proof.
  intros H. unfold cnew, cnew_of.
  destruct (Ctx.new_child value VNil is_nil (g_helpers G) (sctx st) (scur st)) as [s' n] eqn:E.
  assert (Hn: n = length (sctx st)) by (unfold Ctx.new_child in E; inversion E; reflexivity).
  assert (Hs: s' = fst (Ctx.new_child value VNil is_nil (g_helpers G) (sctx st) (scur st))) by (rewrite E; reflexivity).
  unfold set_all.
  assert (Hf: forall l st0, cvalue (sctx st0) c k = cvalue (sctx st) c k ->
            cvalue (sctx (fold_left (fun s kv => set_in s n (fst kv) (snd kv)) l st0)) c k = cvalue (sctx st) c k).
  { induction l as [|[k0 v0] r IH]; intros st0 H0; simpl; [exact H0|].
    apply IH. unfold set_in, with_ctx. simpl. rewrite value_set_newer by lia. exact H0. }
  apply Hf. simpl. rewrite Hs. apply new_child_frame. exact H.
Qed.

End Frame.

(* ================= C12: binding arguments of Go helpers ================= *)
Section Binding.
Variable G : genv.

Lemma bind_fixed_S fuel st ps args : bind_fixed G (S fuel) st ps args = bind_fixed_step (evals_at G fuel) st ps args.
Proof. reflexivity. Qed.
Lemma bind_args_S fuel st sg args blk : bind_args G (S fuel) st sg args blk = bind_args_step (evals_at G fuel) st sg args blk.
Proof. reflexivity. Qed.
Lemma eval_call_S fuel st fn callee args blk chain :
  eval_call G (S fuel) st fn callee args blk chain = eval_call_step G (evals_at G fuel) st fn callee args blk chain.
Proof. reflexivity. Qed.

Theorem bind_fixed_done fuel st ps : bind_fixed G (S fuel) st ps [] = ROk ([], st).
Proof. reflexivity. Qed.

(* each supplied argument is evaluated once, in order, and passed positionally:
   nil becomes the parameter's zero value, an assignable value is passed
   unchanged, anything else rejects the call *)
Theorem bind_fixed_nil_arg fuel st p ps a rest st1 :
  eval G fuel st a = ROk (VNil, st1) ->
  bind_fixed G (S fuel) st (p :: ps) (a :: rest) =
  rbind (bind_fixed G fuel st1 ps rest) (fun bs => let '(b, s) := bs in ROk (zero_of p :: b, s)).
Proof. intros E. rewrite bind_fixed_S. unfold bind_fixed_step. unfold eval in E. rewrite E. reflexivity. Qed.

Theorem bind_fixed_assignable fuel st p ps a rest v st1 :
  eval G fuel st a = ROk (v, st1) -> v <> VNil -> assignable (sheap st1) v p = true ->
  bind_fixed G (S fuel) st (p :: ps) (a :: rest) =
  rbind (bind_fixed G fuel st1 ps rest) (fun bs => let '(b, s) := bs in ROk (BV v :: b, s)).
Proof.
  intros E Hn Ha. rewrite bind_fixed_S. unfold bind_fixed_step. unfold eval in E. rewrite E. simpl.
  destruct v; try contradiction; rewrite Ha; reflexivity.
Qed.

Theorem bind_fixed_not_assignable fuel st p ps a rest v st1 :
  eval G fuel st a = ROk (v, st1) -> v <> VNil -> assignable (sheap st1) v p = false ->
  bind_fixed G (S fuel) st (p :: ps) (a :: rest) = RErr (EFail None) st1.
Proof.
  intros E Hn Ha. rewrite bind_fixed_S. unfold bind_fixed_step. unfold eval in E. rewrite E. simpl.
  destruct v; try contradiction; rewrite Ha; reflexivity.
Qed.

Theorem bind_fixed_arg_failure fuel st p ps a rest e st1 :
  eval G fuel st a = RErr e st1 ->
  bind_fixed G (S fuel) st (p :: ps) (a :: rest) = RErr e st1.
Proof. intros E. rewrite bind_fixed_S. unfold bind_fixed_step. unfold eval in E. rewrite E. reflexivity. Qed.

(* too many arguments for a non-variadic function: rejected before any argument is evaluated *)
Theorem bind_args_too_many fuel st sg args blk :
  sg_variadic sg = false -> Nat.ltb (length (sg_params sg)) (length args) = true ->
  bind_args G (S fuel) st sg args blk = RErr (EFail None) st.
Proof. intros Hv H. rewrite bind_args_S. unfold bind_args_step. rewrite Hv, H. reflexivity. Qed.

(* what is supplied for an omitted trailing parameter *)
Theorem auto_arg_helper_context st blk : auto_arg st PHCtx blk = (st, BHelp (HC (scur st) blk)).
Proof. reflexivity. Qed.
Theorem auto_arg_helper_context_iface st blk : auto_arg st PHCtxI blk = (st, BHelp (HC (scur st) blk)).
Proof. reflexivity. Qed.
Theorem auto_arg_map st blk : exists l, auto_arg st PMap blk = (with_heap st (sheap st ++ [HMap TyString TyIface []]), BMap l) /\ l = length (sheap st).
Proof. eexists. split; reflexivity. Qed.

(* a rejected call does not invoke the function: go_apply is only reached
   through a successful binding *)
Theorem call_rejected_not_invoked fuel st lit args blk chain id cfg sg e st1 st2 name :
  eval G fuel st (EIdent lit None [name]) = ROk (VGo id cfg, st1) ->
  g_sig G id cfg = Some sg ->
  bind_args G fuel st1 sg args blk = RErr e st2 ->
  eval_call G (S fuel) st (EIdent lit None [name]) None args blk chain = RErr e st2.
Proof.
  intros E Hs Hb. rewrite eval_call_S. unfold eval_call_step. cbv zeta. unfold eval in E. rewrite E. simpl.
  rewrite Hs. unfold bind_args in Hb. rewrite Hb. reflexivity.
Qed.

(* and when the binding succeeds the call's value is the function's first result *)
Theorem call_bound_invokes fuel st lit args blk id cfg sg st1 bound st2 name :
  eval G fuel st (EIdent lit None [name]) = ROk (VGo id cfg, st1) ->
  g_sig G id cfg = Some sg -> sg_nres sg <> O ->
  bind_args G fuel st1 sg args blk = ROk (bound, st2) ->
  eval_call G (S fuel) st (EIdent lit None [name]) None args blk ENil = go_apply G fuel st2 id cfg None bound.
Proof.
  intros E Hs Hn Hb. rewrite eval_call_S. unfold eval_call_step. cbv zeta. unfold eval in E. rewrite E. simpl.
  rewrite Hs. unfold bind_args in Hb. rewrite Hb. simpl. unfold go_apply.
  destruct (r_go_apply (evals_at G fuel) st2 id cfg None bound) as [[rv st3]| | | |]; simpl; try reflexivity.
  destruct (Nat.eqb_spec (sg_nres sg) 0); [contradiction|reflexivity].
Qed.
End Binding.
