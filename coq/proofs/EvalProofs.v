(* EvalProofs.v - theorems about the evaluator model (model/Eval.v). *)
From Coq Require Import Lia.
From Plush Require Import model.Bytes model.Lexer model.Ast model.Parser model.Ctx model.Text model.Iter model.Value model.Eval proofs.TextProofs.
Local Open Scope N_scope.

(* ================= C04: no function of the model ever returns a panic ================= *)
Definition np {A} (r : res A) : Prop := match r with RPanic _ => False | _ => True end.
Definition npo (o : outcome) : Prop := match o with OPanic _ => False | _ => True end.

Lemma np_rbind {A B} (m : res A) (k : A -> res B) : np m -> (forall a, np (k a)) -> np (rbind m k).
Proof. destruct m; simpl; auto. Qed.
Lemma np_rfinal g r : np r -> np (rfinal g r).
Proof. destruct r as [[v s]| | | |]; simpl; auto. Qed.
Lemma np_tolerate b r : np r -> np (tolerate b r).
Proof. destruct r; simpl; auto. destruct (b && is_unknown e); simpl; auto. Qed.
Lemma np_of_opres o st : np (of_opres o st).
Proof. destruct o; simpl; auto. Qed.
Lemma np_fail {A} st : np (@fail A st).
Proof. exact I. Qed.

Section NP.
Variable G : genv.

Record NP (ev : evals) : Prop := mkNP {
  np_eval : forall st e, np (r_eval ev st e);
  np_eval_chain : forall st c, np (r_eval_chain ev st c);
  np_eval_list : forall st es, np (r_eval_list ev st es);
  np_eval_pairs : forall st ps acc, np (r_eval_pairs ev st ps acc);
  np_eval_infix : forall st op l r, np (r_eval_infix ev st op l r);
  np_eval_if : forall st bs els, np (r_eval_if ev st bs els);
  np_eval_block : forall st b, np (r_eval_block ev st b);
  np_eval_stmts : forall st ss acc, np (r_eval_stmts ev st ss acc);
  np_eval_stmt : forall st s, np (r_eval_stmt ev st s);
  np_eval_for : forall st k v it b, np (r_eval_for ev st k v it b);
  np_for_body : forall st k v b kv vv, np (r_for_body ev st k v b kv vv);
  np_for_items : forall st k v b items acc, np (r_for_items ev st k v b items acc);
  np_for_slice : forall st k v b loc i acc, np (r_for_slice ev st k v b loc i acc);
  np_for_iter : forall st k v b loc i acc, np (r_for_iter ev st k v b loc i acc);
  np_eval_index : forall st l i v c, np (r_eval_index ev st l i v c);
  np_index_callee : forall st x ls c, np (r_index_callee ev st x ls c);
  np_eval_call : forall st fn callee args blk chain, np (r_eval_call ev st fn callee args blk chain);
  np_user_call : forall st ps body args, np (r_user_call ev st ps body args);
  np_bind_params : forall st ps args, np (r_bind_params ev st ps args);
  np_bind_args : forall st sg args blk, np (r_bind_args ev st sg args blk);
  np_bind_fixed : forall st ps args, np (r_bind_fixed ev st ps args);
  np_bind_variadic : forall st p args, np (r_bind_variadic ev st p args);
  np_block_with : forall st blk ctx, np (r_block_with ev st blk ctx);
  np_block_in_child : forall st blk parent data, np (r_block_in_child ev st blk parent data);
  np_go_apply : forall st id cfg recv bs, np (r_go_apply ev st id cfg recv bs);
  np_partial_call : forall st name data ctx, np (r_partial_call ev st name data ctx);
  np_exec_prog : forall st prog out, npo (r_exec_prog ev st prog out)
}.

Lemma NP_bottom : NP evals_bottom.
Proof. constructor; intros; exact I. Qed.

(* one step of case analysis on the head of the goal *)
Ltac np_step H :=
  match goal with
  | |- np (rbind _ _) => apply np_rbind; [|intros [? ?]]
  | |- np (rfinal _ _) => apply np_rfinal
  | |- np (tolerate _ _) => apply np_tolerate
  | |- np (of_opres _ _) => apply np_of_opres
  | |- np (fail _) => exact I
  | |- np (ROk _) => exact I
  | |- np (RErr _ _) => exact I
  | |- np RFuel => exact I
  | |- np RUnsup => exact I
  | |- npo (OOk _ _) => exact I
  | |- npo (OErr _ _ _) => exact I
  | |- npo (OParseErr _) => exact I
  | |- npo OFuel => exact I
  | |- npo OUnsup => exact I
  | |- np (r_eval _ _ _) => apply (np_eval _ H)
  | |- np (r_eval_chain _ _ _) => apply (np_eval_chain _ H)
  | |- np (r_eval_list _ _ _) => apply (np_eval_list _ H)
  | |- np (r_eval_pairs _ _ _ _) => apply (np_eval_pairs _ H)
  | |- np (r_eval_infix _ _ _ _ _) => apply (np_eval_infix _ H)
  | |- np (r_eval_if _ _ _ _) => apply (np_eval_if _ H)
  | |- np (r_eval_block _ _ _) => apply (np_eval_block _ H)
  | |- np (r_eval_stmts _ _ _ _) => apply (np_eval_stmts _ H)
  | |- np (r_eval_stmt _ _ _) => apply (np_eval_stmt _ H)
  | |- np (r_eval_for _ _ _ _ _ _) => apply (np_eval_for _ H)
  | |- np (r_for_body _ _ _ _ _ _ _) => apply (np_for_body _ H)
  | |- np (r_for_items _ _ _ _ _ _ _) => apply (np_for_items _ H)
  | |- np (r_for_slice _ _ _ _ _ _ _ _) => apply (np_for_slice _ H)
  | |- np (r_for_iter _ _ _ _ _ _ _ _) => apply (np_for_iter _ H)
  | |- np (r_eval_index _ _ _ _ _ _) => apply (np_eval_index _ H)
  | |- np (r_index_callee _ _ _ _ _) => apply (np_index_callee _ H)
  | |- np (r_eval_call _ _ _ _ _ _ _) => apply (np_eval_call _ H)
  | |- np (r_user_call _ _ _ _ _) => apply (np_user_call _ H)
  | |- np (r_bind_params _ _ _ _) => apply (np_bind_params _ H)
  | |- np (r_bind_args _ _ _ _ _) => apply (np_bind_args _ H)
  | |- np (r_bind_fixed _ _ _ _) => apply (np_bind_fixed _ H)
  | |- np (r_bind_variadic _ _ _ _) => apply (np_bind_variadic _ H)
  | |- np (r_block_with _ _ _ _) => apply (np_block_with _ H)
  | |- np (r_block_in_child _ _ _ _ _) => apply (np_block_in_child _ H)
  | |- np (r_go_apply _ _ _ _ _ _) => apply (np_go_apply _ H)
  | |- np (r_partial_call _ _ _ _ _) => apply (np_partial_call _ H)
  | |- npo (r_exec_prog _ _ _ _) => apply (np_exec_prog _ H)
  | |- np (match ?x with _ => _ end) => destruct x eqn:?
  | |- npo (match ?x with _ => _ end) => destruct x eqn:?
  | |- np (let '(_, _) := ?x in _) => destruct x eqn:?
  | |- npo (let '(_, _) := ?x in _) => destruct x eqn:?
  | |- np (if ?x then _ else _) => destruct x eqn:?
  | |- npo (if ?x then _ else _) => destruct x eqn:?
  | |- np (RPanic _) =>
      exfalso;
      match goal with
      | Heq : ?x = RPanic _ |- _ =>
          let Hn := fresh in assert (Hn : np x) by (np_step H); rewrite Heq in Hn; exact Hn
      | Heq : ?x = OPanic _ |- _ =>
          let Hn := fresh in assert (Hn : npo x) by (np_step H); rewrite Heq in Hn; exact Hn
      end
  | |- npo (OPanic _) =>
      exfalso;
      match goal with
      | Heq : ?x = OPanic _ |- _ =>
          let Hn := fresh in assert (Hn : npo x) by (np_step H); rewrite Heq in Hn; exact Hn
      | Heq : ?x = RPanic _ |- _ =>
          let Hn := fresh in assert (Hn : np x) by (cbv zeta; repeat (np_step H; cbv zeta)); rewrite Heq in Hn; exact Hn
      end
  | |- np (?f _) => unfold f
  | |- _ => exact I
  end.
Ltac np_solve H := cbv zeta; repeat (np_step H; cbv zeta).

Lemma NP_step ev : NP ev -> NP (evals_step G ev).
Proof.
  intros H. constructor; intros; cbn [evals_step r_eval r_eval_chain r_eval_list r_eval_pairs r_eval_infix r_eval_if
    r_eval_block r_eval_stmts r_eval_stmt r_eval_for r_for_body r_for_items r_for_slice r_for_iter r_eval_index
    r_index_callee r_eval_call r_user_call r_bind_params r_bind_args r_bind_fixed r_bind_variadic r_block_with
    r_block_in_child r_go_apply r_partial_call r_exec_prog].
  - unfold eval_step. np_solve H.
  - unfold eval_chain_step. np_solve H.
  - unfold eval_list_step. np_solve H.
  - unfold eval_pairs_step. np_solve H.
  - unfold eval_infix_step. np_solve H.
  - unfold eval_if_step. np_solve H.
  - unfold eval_block_step. np_solve H.
  - unfold eval_stmts_step. np_solve H.
  - unfold eval_stmt_step. np_solve H.
  - unfold eval_for_step. np_solve H.
  - unfold for_body_step. np_solve H.
  - unfold for_items_step. np_solve H.
  - unfold for_slice_step. np_solve H.
  - unfold for_iter_step. np_solve H.
  - unfold eval_index_step. np_solve H.
  - unfold index_callee_step. np_solve H.
  - unfold eval_call_step. np_solve H.
  - unfold user_call_step. np_solve H.
  - unfold bind_params_step. np_solve H.
  - unfold bind_args_step. np_solve H.
  - unfold bind_fixed_step. np_solve H.
  - unfold bind_variadic_step. np_solve H.
  - unfold block_with_step. np_solve H.
  - unfold block_in_child_step. np_solve H.
  - unfold go_apply_step. np_solve H.
  - unfold partial_call_step. np_solve H.
  - unfold exec_prog_step. np_solve H.
Qed.

Theorem NP_at fuel : NP (evals_at G fuel).
Proof. induction fuel as [|f IH]; [exact NP_bottom|exact (NP_step _ IH)]. Qed.
End NP.

(* ================= corollaries in the fuel-indexed form ================= *)
Section Corollaries.
Variable G : genv.

Theorem eval_no_panic fuel st e site : eval G fuel st e <> RPanic site.
Proof. intros E. pose proof (np_eval _ (NP_at G fuel) st e) as H. unfold eval in E. rewrite E in H. exact H. Qed.

Theorem exec_no_panic fuel st prog out site : exec_prog G fuel st prog out <> OPanic site.
Proof. intros E. pose proof (np_exec_prog _ (NP_at G fuel) st prog out) as H. unfold exec_prog in E. rewrite E in H. exact H. Qed.

Theorem render_no_panic fuel st input site : render G fuel st input <> OPanic site.
Proof.
  unfold render. destruct (parse input); try discriminate. apply exec_no_panic.
Qed.

Theorem go_apply_no_panic fuel st id cfg recv bs site : go_apply G fuel st id cfg recv bs <> RPanic site.
Proof. intros E. pose proof (np_go_apply _ (NP_at G fuel) st id cfg recv bs) as H. unfold go_apply in E. rewrite E in H. exact H. Qed.

(* ================= C07: truthiness and the if chain ================= *)
Theorem truthy_classification v :
  truthy v = false <->
  (v = VNil \/ v = VBool false \/ v = VStr [] \/ v = VHTML [] \/ exists tn, v = VNilPtr tn).
Proof.
  split.
  - destruct v; simpl; try discriminate; auto.
    + destruct b; [discriminate|auto].
    + destruct s; [auto|discriminate].
    + destruct s; [auto 6|discriminate].
    + intros _. right; right; right; right. eexists; reflexivity.
  - intros [->|[->|[->|[->|[tn ->]]]]]; reflexivity.
Qed.

(* unfolding of one level of fuel *)
Lemma eval_S fuel st e : eval G (S fuel) st e = eval_step (evals_at G fuel) st e.
Proof. reflexivity. Qed.
Lemma eval_if_S fuel st bs els : eval_if G (S fuel) st bs els = eval_if_step (evals_at G fuel) st bs els.
Proof. reflexivity. Qed.

(* the condition is truthy: exactly that block is evaluated, in the state the
   condition left behind; no later condition appears in the result *)
Theorem if_chain_true fuel st c b rest els cv st1 :
  eval G fuel st c = ROk (cv, st1) -> truthy cv = true ->
  eval_if G (S fuel) st ((c, b) :: rest) els = eval_block G fuel st1 b.
Proof.
  intros E T. rewrite eval_if_S. unfold eval_if_step. unfold eval in E. rewrite E. simpl. rewrite T. reflexivity.
Qed.

(* the condition is falsy: the chain continues with the remaining branches *)
Theorem if_chain_false fuel st c b rest els cv st1 :
  eval G fuel st c = ROk (cv, st1) -> truthy cv = false ->
  eval_if G (S fuel) st ((c, b) :: rest) els = eval_if G fuel st1 rest els.
Proof.
  intros E T. rewrite eval_if_S. unfold eval_if_step. unfold eval in E. rewrite E. simpl. rewrite T. reflexivity.
Qed.

(* an unknown identifier as condition counts as falsy *)
Theorem if_chain_unknown fuel st c b rest els n st1 :
  eval G fuel st c = RErr (EUnknown n) st1 ->
  eval_if G (S fuel) st ((c, b) :: rest) els = eval_if G fuel st1 rest els.
Proof.
  intros E. rewrite eval_if_S. unfold eval_if_step. unfold eval in E. rewrite E. reflexivity.
Qed.

(* any other failure of a condition fails the chain *)
Theorem if_chain_error fuel st c b rest els k st1 :
  eval G fuel st c = RErr (EFail k) st1 ->
  eval_if G (S fuel) st ((c, b) :: rest) els = RErr (EFail k) st1.
Proof.
  intros E. rewrite eval_if_S. unfold eval_if_step. unfold eval in E. rewrite E. reflexivity.
Qed.

Theorem if_chain_end fuel st els :
  eval_if G (S fuel) st [] els =
  match els with Some b => eval_block G fuel st b | None => ROk (VNil, st) end.
Proof. reflexivity. Qed.

(* the same truth value under !, && and || *)
Theorem bang_uses_truthy fuel st lit e v st1 :
  eval G fuel st e = ROk (v, st1) ->
  eval G (S fuel) st (EPrefix lit [33] e) = ROk (VBool (negb (truthy v)), st1).
Proof. intros E. rewrite eval_S. unfold eval_step. unfold eval in E. rewrite E. reflexivity. Qed.

Theorem bang_unknown_is_true fuel st lit e n st1 :
  eval G fuel st e = RErr (EUnknown n) st1 ->
  eval G (S fuel) st (EPrefix lit [33] e) = ROk (VBool true, st1).
Proof. intros E. rewrite eval_S. unfold eval_step. unfold eval in E. rewrite E. reflexivity. Qed.

Lemma eval_infix_S fuel st op l r : eval_infix G (S fuel) st op l r = eval_infix_step (evals_at G fuel) st op l r.
Proof. reflexivity. Qed.

Theorem and_short_circuit fuel st l r lv st1 :
  eval G fuel st l = ROk (lv, st1) -> truthy lv = false ->
  eval_infix G (S fuel) st o_and l r = ROk (VBool false, st1).
Proof.
  intros E T. rewrite eval_infix_S. unfold eval_infix_step. unfold eval in E. rewrite E. simpl. rewrite T. reflexivity.
Qed.

Theorem or_short_circuit fuel st l r lv st1 :
  eval G fuel st l = ROk (lv, st1) -> truthy lv = true ->
  eval_infix G (S fuel) st o_or l r = ROk (VBool true, st1).
Proof.
  intros E T. rewrite eval_infix_S. unfold eval_infix_step. unfold eval in E. rewrite E. simpl. rewrite T. reflexivity.
Qed.

Theorem and_right_truthy fuel st l r lv st1 rv st2 :
  eval G fuel st l = ROk (lv, st1) -> truthy lv = true ->
  eval G fuel st1 r = ROk (rv, st2) ->
  eval_infix G (S fuel) st o_and l r = ROk (VBool (truthy rv), st2).
Proof.
  intros E T E2. rewrite eval_infix_S. unfold eval_infix_step. unfold eval in E, E2. rewrite E. simpl. rewrite T. simpl.
  rewrite E2. reflexivity.
Qed.

Theorem or_right_truthy fuel st l r lv st1 rv st2 :
  eval G fuel st l = ROk (lv, st1) -> truthy lv = false ->
  eval G fuel st1 r = ROk (rv, st2) ->
  eval_infix G (S fuel) st o_or l r = ROk (VBool (truthy rv), st2).
Proof.
  intros E T E2. rewrite eval_infix_S. unfold eval_infix_step. unfold eval in E, E2. rewrite E. simpl. rewrite T. simpl.
  rewrite E2. reflexivity.
Qed.

(* ================= C05: failures are not swallowed ================= *)
(* the only error the tolerant sites let through is an unknown identifier *)
Theorem tolerate_spec b r :
  tolerate b r =
  match r with
  | RErr (EUnknown n) s => if b then ROk (VNil, s) else RErr (EUnknown n) s
  | x => x
  end.
Proof. destruct r as [a|e s| | |]; try reflexivity. destruct e; simpl; destruct b; reflexivity. Qed.

(* a failing operand fails the infix expression, whatever the operator *)
Theorem infix_left_failure fuel st op l r k st1 :
  eval G fuel st l = RErr (EFail k) st1 ->
  eval_infix G (S fuel) st op l r = RErr (EFail k) st1.
Proof.
  intros E. rewrite eval_infix_S. unfold eval_infix_step. unfold eval in E. rewrite E.
  rewrite tolerate_spec. reflexivity.
Qed.

Theorem infix_right_failure fuel st op l r lv st1 k st2 :
  eval G fuel st l = ROk (lv, st1) ->
  (op_is op o_and && negb (truthy lv) = false) -> (op_is op o_or && truthy lv = false) ->
  eval G fuel st1 r = RErr (EFail k) st2 ->
  eval_infix G (S fuel) st op l r = RErr (EFail k) st2.
Proof.
  intros E H1 H2 E2. rewrite eval_infix_S. unfold eval_infix_step. unfold eval in E, E2. rewrite E.
  rewrite tolerate_spec. simpl. rewrite H1, H2. rewrite E2. rewrite tolerate_spec. reflexivity.
Qed.

Theorem bang_failure fuel st lit op e k st1 :
  eval G fuel st e = RErr (EFail k) st1 ->
  eval G (S fuel) st (EPrefix lit op e) = RErr (EFail k) st1.
Proof. intros E. rewrite eval_S. unfold eval_step. unfold eval in E. rewrite E. reflexivity. Qed.

(* a failing statement fails the execution: the result is an error carrying the
   failure, and no output at all (OErr has no output component) *)
Lemma exec_S fuel st prog out : exec_prog G (S fuel) st prog out = exec_prog_step (evals_at G fuel) st prog out.
Proof. reflexivity. Qed.

Theorem exec_output_tag_failure fuel st t e rest out k st1 :
  eval G fuel (with_stmt st None) e = RErr (EFail k) st1 ->
  exists line, exec_prog G (S fuel) st (SRet t true e :: rest) out = OErr line (EFail k) st1.
Proof.
  intros E. rewrite exec_S. unfold exec_prog_step. cbv zeta. unfold eval in E. rewrite E. simpl. eexists. reflexivity.
Qed.

(* ================= C16: user functions ================= *)
Lemma user_call_S fuel st ps body args : user_call G (S fuel) st ps body args = user_call_step G (evals_at G fuel) st ps body args.
Proof. reflexivity. Qed.

(* the value of a call is what the chain of return wrappers carries *)
Theorem unwrap_ret_value fuel v : (forall vs, v <> VRet vs) -> unwrap_ret (S fuel) v = v.
Proof. intros H. destruct v; try reflexivity. exfalso. exact (H vs eq_refl). Qed.

Theorem unwrap_ret_return fuel acc v : (forall vs, v <> VRet vs) ->
  unwrap_ret (S (S fuel)) (VRet (acc ++ [VRet [v]])) = v.
Proof.
  intros H. cbn [unwrap_ret].
  destruct (acc ++ [VRet [v]]) eqn:E; [destruct acc; discriminate|]. rewrite <- E. rewrite last_last.
  cbn [unwrap_ret last]. destruct fuel; destruct v; try reflexivity; exfalso; exact (H vs eq_refl).
Qed.

(* too few arguments: an error, and nothing is evaluated *)
Theorem user_call_too_few fuel st ps body args :
  Nat.ltb (length args) (length ps) = true ->
  user_call G (S fuel) st ps body args = RErr (EFail None) st.
Proof. intros H. rewrite user_call_S. unfold user_call_step. rewrite H. reflexivity. Qed.

(* the arguments are evaluated by eval_list in the CALLER's state (same current
   context), before the callee scope exists; an argument failure fails the call *)
Theorem user_call_arg_failure fuel st ps body args e st1 :
  Nat.ltb (length args) (length ps) = false ->
  eval_list G fuel st (firstn (length ps) args) = RErr e st1 ->
  user_call G (S fuel) st ps body args = RErr e st1.
Proof.
  intros H E. rewrite user_call_S. unfold user_call_step. rewrite H. unfold eval_list in E. rewrite E. reflexivity.
Qed.

Theorem user_call_ok fuel st ps body args vals st0 :
  Nat.ltb (length args) (length ps) = false ->
  eval_list G fuel st (firstn (length ps) args) = ROk (vals, st0) ->
  user_call G (S fuel) st ps body args =
    let '(st1, n) := cnew G st0 in
    rfinal (fun s => with_cur s (scur st0))
      (rbind (eval_block G fuel (set_all (with_cur st1 n) n (combine ps vals)) body)
             (fun xs => let '(r, st3) := xs in ROk (unwrap_ret 4000 r, st3))).
Proof.
  intros H E. rewrite user_call_S. unfold user_call_step. rewrite H. unfold eval_list in E. rewrite E. reflexivity.
Qed.
End Corollaries.
