(* DataProofs.v - the data handed to partial / contentOf / a block helper's own
   context BINDS every key it holds in the fresh child scope - a key whose value
   is nil included: inside, the name reads as the data gave it (the last entry
   for that key), whatever an outer scope holds under the same name; names the
   data does not mention read through to the scope the child was created in. *)
From Coq Require Import Lia.
From Plush Require Import model.Bytes model.Lexer model.Ast model.Parser model.Ctx model.Text model.Iter model.Value model.Eval proofs.BytesProofs proofs.CtxProofs proofs.FrameProofs.
Local Open Scope nat_scope.

Section Data.
Variable G : genv.

Lemma set_all_app st n d1 d2 : set_all st n (d1 ++ d2) = set_all (set_all st n d1) n d2.
Proof. unfold set_all. apply fold_left_app. Qed.

Lemma set_all_length d : forall st n, length (sctx (set_all st n d)) = length (sctx st).
Proof.
  unfold set_all. induction d as [|kv r IH]; intros st n; simpl; [reflexivity|].
  rewrite IH. unfold set_in. cbn [sctx with_ctx]. apply set_length.
Qed.

(* what a name reads as in scope n after the data has been bound there *)
Theorem data_binds : forall d st (n : nat) k,
  n < length (sctx st) ->
  Ctx.value value VNil (sctx (set_all st n d)) n k =
  match alookup value k (rev d) with
  | Some v => v
  | None => Ctx.value value VNil (sctx st) n k
  end.
Proof.
  induction d as [|[k' v'] d IH] using rev_ind; intros st n k Hn; [reflexivity|].
  rewrite set_all_app, rev_app_distr. cbn [rev app alookup set_all fold_left fst snd].
  unfold set_in. cbn [sctx with_ctx].
  destruct (beq k k') eqn:E.
  - apply beq_true in E. subst k'. apply set_visible. rewrite set_all_length. exact Hn.
  - rewrite value_set_same_ctx_other_key by exact E. apply IH. exact Hn.
Qed.

(* in particular: a key bound to nil hides the outer value of that name *)
Corollary nil_data_hides_outer : forall d st (n : nat) k,
  n < length (sctx st) -> alookup value k (rev d) = Some VNil ->
  Ctx.value value VNil (sctx (set_all st n d)) n k = VNil.
Proof. intros d st n k Hn H. rewrite data_binds by exact Hn. rewrite H. reflexivity. Qed.

(* and a name the data does not mention is read as before *)
Corollary data_leaves_other_names : forall d st (n : nat) k,
  n < length (sctx st) -> alookup value k (rev d) = None ->
  Ctx.value value VNil (sctx (set_all st n d)) n k = Ctx.value value VNil (sctx st) n k.
Proof. intros d st n k Hn H. rewrite data_binds by exact Hn. rewrite H. reflexivity. Qed.

(* the fresh child exists in the store it was created in *)
Lemma cnew_of_fresh st p st1 n : cnew_of G st p = (st1, n) -> n < length (sctx st1).
Proof.
  unfold cnew_of. destruct (Ctx.new_child value VNil is_nil (g_helpers G) (sctx st) p) as [s' m] eqn:E.
  intros H. inversion H; subst; clear H. cbn [sctx with_ctx].
  destruct (new_child_frames value VNil is_nil (g_helpers G) _ _ _ _ E) as [-> [Hl _]]. rewrite Hl. lia.
Qed.

Theorem data_binds_child : forall st parent st1 n d k,
  cnew_of G st parent = (st1, n) ->
  Ctx.value value VNil (sctx (set_all st1 n d)) n k =
  match alookup value k (rev d) with
  | Some v => v
  | None => Ctx.value value VNil (sctx st1) n k
  end.
Proof. intros st parent st1 n d k H. apply data_binds. exact (cnew_of_fresh st parent st1 n H). Qed.

Theorem nil_data_hides_outer_child : forall st parent st1 n d k,
  cnew_of G st parent = (st1, n) -> alookup value k (rev d) = Some VNil ->
  Ctx.value value VNil (sctx (set_all st1 n d)) n k = VNil.
Proof. intros st parent st1 n d k H. apply nil_data_hides_outer. exact (cnew_of_fresh st parent st1 n H). Qed.
End Data.
