(* IterProofs.v - closed forms for the ranger iterators and the partition
   theorem for groupBy (C19). *)
From Coq Require Import Lia ZArith.
From Plush Require Import model.Bytes model.Iter.
Open Scope Z_scope.

Lemma wrap64_id z : in_int z -> wrap64 z = z.
Proof.
  unfold in_int, wrap64, minint, maxint, two63, two64. intros H.
  rewrite Z.mod_small; lia.
Qed.

Lemma wrap64_range z : in_int (wrap64 z).
Proof.
  unfold in_int, wrap64, minint, maxint, two63, two64.
  pose proof (Z.mod_pos_bound (z + 9223372036854775808) 18446744073709551616 ltac:(lia)). lia.
Qed.

(* one call *)
Lemma rnext_lt r : in_int (rpos r) -> in_int (rend r) -> rpos r < rend r ->
  rnext r = (Some (rpos r + 1), mkranger (rpos r + 1) (rend r)).
Proof.
  intros Hp He Hlt. unfold rnext.
  destruct (Z.ltb_spec (rpos r) (rend r)); [|lia].
  rewrite wrap64_id; [reflexivity|]. unfold in_int, minint, maxint in *. lia.
Qed.

Lemma rnext_ge r : rend r <= rpos r -> rnext r = (None, r).
Proof. intros H. unfold rnext. destruct (Z.ltb_spec (rpos r) (rend r)); [lia|reflexivity]. Qed.

(* closed form of the (n+1)-th call, no iteration in the statement *)
Definition nth_result (p e : Z) (n : nat) : option Z :=
  if Z.of_nat n <? e - p then Some (p + Z.of_nat n + 1) else None.

Definition state_after (p e : Z) (n : nat) : ranger :=
  mkranger (p + Z.min (Z.of_nat n) (Z.max 0 (e - p))) e.

Lemma nth_result_shift_lt p e k : p < e ->
  nth_result (p + 1) e k = nth_result p e (S k).
Proof.
  intros H. unfold nth_result. rewrite Nat2Z.inj_succ.
  destruct (Z.ltb_spec (Z.of_nat k) (e - (p + 1))), (Z.ltb_spec (Z.succ (Z.of_nat k)) (e - p)); try lia; [f_equal; lia | reflexivity].
Qed.

Lemma nth_result_ge p e k : e <= p -> nth_result p e k = None.
Proof. intros H. unfold nth_result. destruct (Z.ltb_spec (Z.of_nat k) (e - p)); [lia|reflexivity]. Qed.

Lemma rcalls_closed n : forall p e, in_int p -> in_int e ->
  rcalls n (mkranger p e) =
  (map (nth_result p e) (seq 0 n), state_after p e n).
Proof.
  induction n as [|n IH]; intros p e Hp He.
  - simpl. unfold state_after. f_equal. f_equal. lia.
  - cbn [rcalls].
    destruct (Z.lt_ge_cases p e) as [Hlt|Hge].
    + rewrite (rnext_lt (mkranger p e)); simpl rpos; simpl rend; try assumption.
      assert (Hp1: in_int (p + 1)) by (unfold in_int, minint, maxint in *; lia).
      rewrite (IH (p + 1) e Hp1 He). cbn [seq map].
      assert (H0: nth_result p e 0 = Some (p + 1)).
      { unfold nth_result. simpl Z.of_nat. destruct (Z.ltb_spec 0 (e - p)); [f_equal; lia|lia]. }
      rewrite H0.
      assert (Hm: map (nth_result (p + 1) e) (seq 0 n) = map (nth_result p e) (seq 1 n)).
      { rewrite <- seq_shift, map_map. apply map_ext. intros k. apply nth_result_shift_lt. exact Hlt. }
      rewrite Hm. f_equal. unfold state_after. f_equal. rewrite Nat2Z.inj_succ. lia.
    + rewrite (rnext_ge (mkranger p e)) by (simpl; lia).
      rewrite (IH p e Hp He). cbn [seq map].
      rewrite (nth_result_ge p e 0 Hge).
      assert (Hm: map (nth_result p e) (seq 0 n) = map (nth_result p e) (seq 1 n)).
      { apply map_ext_in_iff || idtac. rewrite <- seq_shift, map_map. apply map_ext. intros k.
        rewrite !nth_result_ge by exact Hge. reflexivity. }
      rewrite Hm. f_equal. unfold state_after. f_equal. rewrite Nat2Z.inj_succ. lia.
Qed.

(* the sequence a, a+1, ... (k elements) *)
Fixpoint zseq (a : Z) (k : nat) : list Z :=
  match k with O => [] | S j => a :: zseq (a + 1) j end.

(* what a for loop sees: exactly max 0 (e-p) values p+1 .. e, then nil *)
Lemma ryield_closed cap : forall p e, in_int p -> in_int e ->
  (Z.to_nat (e - p) <= cap)%nat ->
  ryield cap (mkranger p e) = (zseq (p + 1) (Z.to_nat (e - p)), true).
Proof.
  induction cap as [|cap IH]; intros p e Hp He Hc.
  - assert (Z.to_nat (e - p) = 0%nat) as -> by lia. simpl.
    destruct (Z.ltb_spec p e); [lia|reflexivity].
  - cbn [ryield].
    destruct (Z.lt_ge_cases p e) as [Hlt|Hge].
    + rewrite (rnext_lt (mkranger p e)); simpl; try assumption.
      assert (Hp1: in_int (p + 1)) by (unfold in_int, minint, maxint in *; lia).
      rewrite (IH (p + 1) e Hp1 He) by lia.
      replace (Z.to_nat (e - p)) with (S (Z.to_nat (e - (p + 1)))) by lia.
      reflexivity.
    + rewrite (rnext_ge (mkranger p e)) by (simpl; lia).
      assert (Z.to_nat (e - p) = 0%nat) as -> by lia. reflexivity.
Qed.

(* ---- the three helpers ---- *)

Theorem range_seq a b cap : in_int a -> in_int b -> minint < a ->
  (Z.to_nat (b - a + 1) <= cap)%nat ->
  ryield cap (range_ a b) = (zseq a (Z.to_nat (b - a + 1)), true).
Proof.
  intros Ha Hb Hmin Hc. unfold range_.
  rewrite wrap64_id by (unfold in_int, minint, maxint in *; lia).
  rewrite ryield_closed; try assumption.
  - f_equal. f_equal; [lia|f_equal; lia].
  - unfold in_int, minint, maxint in *; lia.
  - replace (b - (a - 1)) with (b - a + 1) by lia. exact Hc.
Qed.

Theorem between_seq a b cap : in_int a -> in_int b -> minint < b ->
  (Z.to_nat (b - 1 - a) <= cap)%nat ->
  ryield cap (between_ a b) = (zseq (a + 1) (Z.to_nat (b - 1 - a)), true).
Proof.
  intros Ha Hb Hmin Hc. unfold between_.
  rewrite wrap64_id by (unfold in_int, minint, maxint in *; lia).
  apply ryield_closed; try assumption.
  unfold in_int, minint, maxint in *; lia.
Qed.

Theorem until_seq n cap : in_int n -> minint < n ->
  (Z.to_nat n <= cap)%nat ->
  ryield cap (until_ n) = (zseq 0 (Z.to_nat n), true).
Proof.
  intros Hn Hmin Hc. unfold until_.
  rewrite wrap64_id by (unfold in_int, minint, maxint in *; lia).
  rewrite ryield_closed.
  - f_equal. f_equal. f_equal. lia.
  - unfold in_int, minint, maxint; lia.
  - unfold in_int, minint, maxint in *; lia.
  - replace (n - 1 - -1) with n by lia. exact Hc.
Qed.

(* termination for every pair of in-range states: after max 0 (e - p) values
   the iterator answers nil for ever *)
Theorem ranger_terminates p e k : in_int p -> in_int e ->
  (Z.to_nat (e - p) <= k)%nat ->
  fst (rnext (snd (rcalls k (mkranger p e)))) = None.
Proof.
  intros Hp He Hk. rewrite rcalls_closed by assumption. simpl.
  unfold state_after. rewrite rnext_ge; [reflexivity|]. simpl. lia.
Qed.

(* the int extremes on the upper side are fine *)
Example range_to_maxint : ryield 10 (range_ (maxint - 2) maxint) = ([maxint - 2; maxint - 1; maxint], true).
Proof. vm_compute. reflexivity. Qed.

(* ... but a - 1 / b - 1 / n - 1 wraps at minint (known finding F13) *)
Theorem range_minint_refuted :
  ryield 10 (range_ minint (minint + 2)) = ([], true) /\
  zseq minint 3 <> [].
Proof. split; [vm_compute; reflexivity|discriminate]. Qed.

Theorem until_minint_refuted :
  exists xs, ryield 3 (until_ minint) = (xs, false) /\ xs = [0; 1; 2].
Proof. eexists. split; vm_compute; reflexivity. Qed.

Theorem between_minint_refuted :
  exists xs, ryield 3 (between_ 5 minint) = (xs, false) /\ xs = [6; 7; 8].
Proof. eexists. split; vm_compute; reflexivity. Qed.

(* ---- groupBy ---- *)
Section GroupBy.
Context {A : Type}.
Open Scope nat_scope.

Lemma chunks_concat fuel : forall size (xs : list A), 0 < size -> length xs <= fuel ->
  concat (chunks fuel size xs) = xs.
Proof.
  induction fuel as [|f IH]; intros size xs Hs Hl.
  - destruct xs; [reflexivity|simpl in Hl; lia].
  - destruct xs as [|x r]; [reflexivity|].
    cbn [chunks concat]. rewrite IH; [apply firstn_skipn|exact Hs|].
    rewrite skipn_length. simpl length in *. lia.
Qed.

(* every group but the last has exactly [size] elements, the last 1..size *)
Fixpoint sizes_ok (size : nat) (gs : list (list A)) : Prop :=
  match gs with
  | [] => True
  | [g] => 0 < length g <= size
  | g :: r => length g = size /\ sizes_ok size r
  end.

Lemma chunks_sizes fuel : forall size (xs : list A), 0 < size -> length xs <= fuel ->
  sizes_ok size (chunks fuel size xs).
Proof.
  induction fuel as [|f IH]; intros size xs Hs Hl; [exact I|].
  destruct xs as [|x r]; [exact I|].
  cbn [chunks].
  specialize (IH size (skipn size (x :: r)) Hs).
  assert (Hl': length (skipn size (x :: r)) <= f) by (rewrite skipn_length; simpl length in *; lia).
  specialize (IH Hl').
  destruct (chunks f size (skipn size (x :: r))) as [|g gs] eqn:E.
  - simpl. rewrite firstn_length. simpl length. lia.
  - split; [|exact IH].
    (* a further chunk exists, so the remainder is non-empty, so this one is full *)
    rewrite firstn_length. 
    destruct f as [|f']; [discriminate|].
    cbn [chunks] in E. destruct (skipn size (x :: r)) as [|y ys] eqn:Sk; [discriminate|].
    assert (length (skipn size (x :: r)) > 0) by (rewrite Sk; simpl; lia).
    rewrite skipn_length in H. lia.
Qed.

Lemma chunks_count fuel : forall size (xs : list A), 0 < size -> length xs <= fuel ->
  (length (chunks fuel size xs) - 1) * size < length xs + (if length xs =? 0 then 1 else 0).
Proof.
  induction fuel as [|f IH]; intros size xs Hs Hl.
  - destruct xs; simpl; lia.
  - destruct xs as [|x r]; [simpl; lia|].
    cbn [chunks length].
    assert (Hl': length (skipn size (x :: r)) <= f) by (rewrite skipn_length; simpl length in *; lia).
    specialize (IH size (skipn size (x :: r)) Hs Hl').
    rewrite skipn_length in IH. simpl length in *.
    destruct (Nat.eqb_spec (S (length r) - size) 0) as [E|NE].
    + (* nothing left: the rest has no chunks *)
      assert (skipn size (x :: r) = []) as Sk.
      { apply length_zero_iff_nil. rewrite skipn_length. simpl. exact E. }
      rewrite Sk. destruct f; simpl; lia.
    + simpl. nia.
Qed.

Lemma chunks_nonempty fuel : forall size (xs : list A), 0 < size ->
  Forall (fun g => g <> []) (chunks fuel size xs).
Proof.
  induction fuel as [|f IH]; intros size xs Hs; [constructor|].
  destruct xs as [|x r]; [constructor|]. cbn [chunks].
  constructor; [|apply IH; exact Hs].
  destruct size; [lia|]. simpl. discriminate.
Qed.
End GroupBy.

Lemma group_size_pos len n : (0 < n)%Z -> (0 < len)%Z -> (0 < group_size len n)%Z.
Proof.
  intros Hn Hl. unfold group_size.
  destruct (Z.eqb_spec (len mod n) 0) as [E|NE].
  - assert (len / n <> 0)%Z; [|pose proof (Z.div_pos len n); lia].
    intros Hz. pose proof (Z.div_mod len n ltac:(lia)). rewrite Hz, E in H. lia.
  - pose proof (Z.div_pos len n ltac:(lia) ltac:(lia)). lia.
Qed.

Lemma group_size_covers len n : (0 < n)%Z -> (0 <= len)%Z -> (len <= n * group_size len n)%Z.
Proof.
  intros Hn Hl. unfold group_size.
  pose proof (Z.div_mod len n ltac:(lia)) as Hdm.
  pose proof (Z.mod_pos_bound len n Hn) as Hb.
  destruct (Z.eqb_spec (len mod n) 0); nia.
Qed.

(* C19 groupBy: consecutive groups whose concatenation is xs, at most n of
   them, all but the last of equal size, none empty *)
Theorem groupBy_partition {A} (n : Z) (xs : list A) : (0 < n)%Z ->
  exists gs, group_by n xs = Some gs /\
    concat gs = xs /\
    (Z.of_nat (length gs) <= n)%Z /\
    (exists size, sizes_ok size gs) /\
    (xs <> [] -> Forall (fun g => g <> []) gs).
Proof.
  intros Hn. unfold group_by.
  destruct (Z.leb_spec n 0); [lia|].
  destruct (Z.eqb_spec (Z.of_nat (length xs)) n) as [E|NE].
  - exists [xs]. split; [reflexivity|]. split; [simpl; apply app_nil_r|].
    split; [simpl; lia|]. split.
    + exists (length xs). simpl. lia.
    + intros Hx. constructor; [exact Hx|constructor].
  - set (len := Z.of_nat (length xs)) in *.
    destruct xs as [|x r].
    + exists []. split; [reflexivity|]. split; [reflexivity|]. split; [simpl; lia|].
      split; [exists 1%nat; exact I|]. intros Hx; contradiction.
    + assert (Hlen: (0 < len)%Z) by (unfold len; simpl length; lia).
      pose proof (group_size_pos len n Hn Hlen) as Hgs.
      set (size := Z.to_nat (group_size len n)).
      assert (Hs: (0 < size)%nat) by (unfold size; lia).
      eexists. split; [reflexivity|].
      split; [apply chunks_concat; [exact Hs|lia]|].
      split.
      * pose proof (chunks_count (length (x :: r)) size (x :: r) Hs (le_n _)) as Hc.
        pose proof (group_size_covers len n Hn ltac:(lia)) as Hcov.
        fold size in Hc. simpl (length (x :: r) =? 0)%nat in Hc.
        assert (Z.of_nat size = group_size len n) as Hsz by (unfold size; lia).
        set (k := length (chunks (length (x :: r)) size (x :: r))) in *.
        destruct k as [|k']; [lia|].
        replace (S k' - 1)%nat with k' in Hc by lia.
        assert (H1: (Z.of_nat k' * Z.of_nat size < n * Z.of_nat size)%Z).
        { rewrite <- Nat2Z.inj_mul. rewrite Hsz. subst len. simpl length in *. lia. }
        apply Z.mul_lt_mono_pos_r in H1; lia.
      * split; [exists size; apply chunks_sizes; [exact Hs|lia]|].
        intros _. apply chunks_nonempty. exact Hs.
Qed.

Theorem groupBy_err {A} (n : Z) (xs : list A) : (n <= 0)%Z -> group_by n xs = None.
Proof. intros H. unfold group_by. destruct (Z.leb_spec n 0); [reflexivity|lia]. Qed.

Example groupBy_example : group_by 2 [1;2;3;4;5]%Z = Some [[1;2;3];[4;5]]%Z.
Proof. vm_compute. reflexivity. Qed.

(* ---- len ---- *)
Definition go_length (a : lenarg) : option nat :=
  match a with
  | LStr b => Some (length b)
  | LSeq n => Some n
  | LMap n => Some n
  | _ => None
  end.

Definition collection_or_ptr (a : lenarg) : Prop :=
  match a with
  | LStr _ | LSeq _ | LMap _ => True
  | LPtr (LStr _) | LPtr (LSeq _) | LPtr (LMap _) => True
  | _ => False
  end.

Theorem len_spec a : collection_or_ptr a ->
  exists n, len_model a = LenOk n /\
            (go_length a = Some n \/ exists x, a = LPtr x /\ go_length x = Some n).
Proof.
  destruct a as [|b|n|n|x| |]; simpl; try contradiction; intros H.
  - eexists; split; [reflexivity|left; reflexivity].
  - eexists; split; [reflexivity|left; reflexivity].
  - eexists; split; [reflexivity|left; reflexivity].
  - destruct x; try contradiction; eexists; (split; [reflexivity|right; eexists; split; reflexivity]).
Qed.

(* after the C04 repair len never panics *)
Theorem len_total a : exists n, len_model a = LenOk n.
Proof. destruct a as [|b|n|n|x| |]; simpl; try (eexists; reflexivity). destruct x; eexists; reflexivity. Qed.
