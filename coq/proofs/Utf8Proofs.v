(* Utf8Proofs.v - UTF-8 as Go decodes and encodes it: decoding what was encoded
   gives the runes back, so truncate never splits a character and its result
   has the stated number of characters (C20). *)
From Coq Require Import Lia ZArith ZifyN ZifyNat ZifyBool.
From Plush Require Import model.Bytes model.Text proofs.TextProofs.
Open Scope N_scope.
Ltac Zify.zify_post_hook ::= Z.div_mod_to_equations.

(* Unicode scalar values *)
Definition valid_rune (r : N) : Prop := r < 55296 \/ (57343 < r /\ r <= 1114111).

Lemma inr_true lo hi x : inr lo hi x = true <-> lo <= x /\ x <= hi.
Proof. unfold inr. rewrite Bool.andb_true_iff, !N.leb_le. tauto. Qed.
Lemma inr_false lo hi x : inr lo hi x = false <-> x < lo \/ hi < x.
Proof. unfold inr. rewrite Bool.andb_false_iff, !N.leb_gt. tauto. Qed.

(* ---------- decoding one encoded rune ---------- *)
Lemma decode1_encode_rune r rest : valid_rune r ->
  match encode_rune r with
  | b :: tl => decode1 b (tl ++ rest) = (r, length (encode_rune r))
  | [] => False
  end.
Proof.
  intros Hv. unfold encode_rune.
  destruct (N.ltb_spec r 128) as [H1|H1].
  { unfold decode1. destruct (N.ltb_spec r 128); [reflexivity|lia]. }
  destruct (N.ltb_spec r 2048) as [H2|H2].
  { cbn [app length]. unfold decode1.
    destruct (N.ltb_spec (192 + r / 64) 128); [lia|].
    assert (E1: inr 194 223 (192 + r / 64) = true) by (apply inr_true; lia). rewrite E1.
    assert (E2: inr 128 191 (128 + r mod 64) = true) by (apply inr_true; lia). rewrite E2.
    f_equal. lia. }
  assert (Hs: (inr 55296 57343 r || (1114111 <? r)) = false).
  { apply Bool.orb_false_iff. split; [apply inr_false|apply N.ltb_ge]; unfold valid_rune in Hv; lia. }
  rewrite Hs.
  destruct (N.ltb_spec r 65536) as [H3|H3].
  { cbn [app length]. unfold decode1.
    destruct (N.ltb_spec (224 + r / 4096) 128); [lia|].
    assert (E0: inr 194 223 (224 + r / 4096) = false) by (apply inr_false; lia). rewrite E0.
    assert (E1: inr 224 239 (224 + r / 4096) = true) by (apply inr_true; lia). rewrite E1.
    assert (E2: inr (second_lo (224 + r / 4096)) (second_hi (224 + r / 4096)) (128 + (r / 64) mod 64) = true).
    { apply inr_true. unfold second_lo, second_hi.
      destruct (N.eqb_spec (224 + r / 4096) 224); destruct (N.eqb_spec (224 + r / 4096) 240);
        destruct (N.eqb_spec (224 + r / 4096) 237); destruct (N.eqb_spec (224 + r / 4096) 244);
        unfold valid_rune in Hv; lia. }
    rewrite E2.
    assert (E3: inr 128 191 (128 + r mod 64) = true) by (apply inr_true; lia). rewrite E3.
    cbn [andb]. f_equal. lia. }
  { cbn [app length]. unfold decode1.
    assert (Hr: r <= 1114111) by (unfold valid_rune in Hv; lia).
    destruct (N.ltb_spec (240 + r / 262144) 128); [lia|].
    assert (E0: inr 194 223 (240 + r / 262144) = false) by (apply inr_false; lia). rewrite E0.
    assert (E0': inr 224 239 (240 + r / 262144) = false) by (apply inr_false; lia). rewrite E0'.
    assert (E1: inr 240 244 (240 + r / 262144) = true) by (apply inr_true; lia). rewrite E1.
    assert (E2: inr (second_lo (240 + r / 262144)) (second_hi (240 + r / 262144)) (128 + (r / 4096) mod 64) = true).
    { apply inr_true. unfold second_lo, second_hi.
      destruct (N.eqb_spec (240 + r / 262144) 224); destruct (N.eqb_spec (240 + r / 262144) 240);
        destruct (N.eqb_spec (240 + r / 262144) 237); destruct (N.eqb_spec (240 + r / 262144) 244); lia. }
    rewrite E2.
    assert (E3: inr 128 191 (128 + (r / 64) mod 64) = true) by (apply inr_true; lia). rewrite E3.
    assert (E4: inr 128 191 (128 + r mod 64) = true) by (apply inr_true; lia). rewrite E4.
    cbn [andb]. f_equal. lia. }
Qed.

(* ---------- what the decoder produces ---------- *)
Lemma valid_rune_error : valid_rune rune_error.
Proof. unfold valid_rune, rune_error. lia. Qed.

Lemma decode1_valid b r rn size : decode1 b r = (rn, size) -> valid_rune rn /\ (1 <= size)%nat.
Proof.
  unfold decode1. intros H.
  destruct (N.ltb_spec b 128); [inversion H; subst; split; [unfold valid_rune; lia|lia]|].
  destruct (inr 194 223 b) eqn:E2.
  { apply inr_true in E2. destruct r as [|c1 r1]; [inversion H; subst; split; [apply valid_rune_error|lia]|].
    destruct (inr 128 191 c1) eqn:Ec; inversion H; subst; split; try apply valid_rune_error; try lia.
    apply inr_true in Ec. unfold valid_rune. lia. }
  destruct (inr 224 239 b) eqn:E3.
  { apply inr_true in E3. destruct r as [|c1 [|c2 r2]]; try (inversion H; subst; split; [apply valid_rune_error|lia]).
    destruct (inr (second_lo b) (second_hi b) c1 && inr 128 191 c2) eqn:Ec; inversion H; subst; split; try apply valid_rune_error; try lia.
    apply Bool.andb_true_iff in Ec. destruct Ec as [Ea Eb]. apply inr_true in Ea, Eb.
    unfold second_lo, second_hi in Ea.
    destruct (N.eqb_spec b 224); destruct (N.eqb_spec b 240); destruct (N.eqb_spec b 237); destruct (N.eqb_spec b 244);
      unfold valid_rune; lia. }
  destruct (inr 240 244 b) eqn:E4.
  { apply inr_true in E4. destruct r as [|c1 [|c2 [|c3 r3]]]; try (inversion H; subst; split; [apply valid_rune_error|lia]).
    destruct (inr (second_lo b) (second_hi b) c1 && inr 128 191 c2 && inr 128 191 c3) eqn:Ec; inversion H; subst; split; try apply valid_rune_error; try lia.
    apply Bool.andb_true_iff in Ec. destruct Ec as [Ec Ed]. apply Bool.andb_true_iff in Ec. destruct Ec as [Ea Eb].
    apply inr_true in Ea, Eb, Ed. unfold second_lo, second_hi in Ea.
    destruct (N.eqb_spec b 224); destruct (N.eqb_spec b 240); destruct (N.eqb_spec b 237); destruct (N.eqb_spec b 244);
      unfold valid_rune; lia. }
  inversion H; subst. split; [apply valid_rune_error|lia].
Qed.

Lemma decode_aux_valid : forall s skip, Forall valid_rune (decode_aux s skip).
Proof.
  induction s as [|b r IH]; intros skip; [constructor|].
  cbn [decode_aux]. destruct skip as [|k]; [|apply IH].
  destruct (decode1 b r) as [rn size] eqn:E. constructor; [apply (decode1_valid b r rn size E)|apply IH].
Qed.
Theorem decode_valid s : Forall valid_rune (decode s).
Proof. apply decode_aux_valid. Qed.

(* ---------- decode after encode ---------- *)
Lemma decode_aux_skip l : forall t, decode_aux (l ++ t) (length l) = decode_aux t 0.
Proof. induction l as [|c l IH]; intros t; [reflexivity|]. cbn [app length decode_aux]. apply IH. Qed.

Theorem decode_encode_app rs : Forall valid_rune rs -> forall t, decode (encode rs ++ t) = rs ++ decode t.
Proof.
  induction 1 as [|r rs Hr _ IH]; intros t; [reflexivity|].
  unfold decode, encode in *. cbn [flat_map]. rewrite <- app_assoc.
  pose proof (decode1_encode_rune r (flat_map encode_rune rs ++ t) Hr) as H1.
  destruct (encode_rune r) as [|b tl] eqn:Ee; [contradiction|].
  cbn [app decode_aux]. rewrite H1. cbn [length]. rewrite Nat.sub_succ, Nat.sub_0_r.
  cbn [app]. f_equal. rewrite decode_aux_skip. apply IH.
Qed.
Corollary decode_encode rs : Forall valid_rune rs -> decode (encode rs) = rs.
Proof. intros H. rewrite <- (app_nil_r (encode rs)). rewrite decode_encode_app by exact H. apply app_nil_r. Qed.

Lemma Forall_firstn {A} (P : A -> Prop) k : forall l, Forall P l -> Forall P (firstn k l).
Proof.
  induction k as [|k IH]; intros l H; [constructor|]. destruct H; [constructor|].
  cbn [firstn]. constructor; [assumption|apply IH; assumption].
Qed.

(* ---------- truncate, in characters ---------- *)
(* the result read as characters: the first k characters of s, whole, followed
   by the characters of the trail - never part of a character *)
Theorem truncate_characters s size trail :
  (Z.of_nat (rune_len s) <= size)%Z /\ truncate s size trail = s \/
  (size < Z.of_nat (rune_len s))%Z /\
  ((size <= Z.of_nat (rune_len trail))%Z /\ truncate s size trail = trail \/
   exists k, (Z.of_nat k + Z.of_nat (rune_len trail) = size)%Z /\ (k < rune_len s)%nat /\
             decode (truncate s size trail) = firstn k (decode s) ++ decode trail).
Proof.
  unfold truncate, rune_len.
  destruct (Z.leb_spec (Z.of_nat (length (decode s))) size) as [H|H]; [left; split; [exact H|reflexivity]|].
  right. split; [exact H|].
  destruct (Z.leb_spec size (Z.of_nat (length (decode trail)))) as [H2|H2]; [left; split; [exact H2|reflexivity]|].
  right. exists (Z.to_nat (size - Z.of_nat (length (decode trail)))).
  split; [lia|]. split; [lia|].
  apply decode_encode_app. apply Forall_firstn. apply decode_valid.
Qed.

(* the bound of the property: at most max(size, |trail|) characters *)
Theorem truncate_bound s size trail :
  (size < Z.of_nat (rune_len s))%Z ->
  (Z.of_nat (rune_len (truncate s size trail)) <= Z.max size (Z.of_nat (rune_len trail)))%Z.
Proof.
  intros Hlong. destruct (truncate_characters s size trail) as [[H _]|[_ [[H E]|[k [Hk [Hlt E]]]]]]; [lia| |].
  - rewrite E. lia.
  - unfold rune_len in *. rewrite E, app_length, firstn_length. lia.
Qed.
