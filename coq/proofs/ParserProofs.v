(* ParserProofs.v - theorems about the parser model (model/Parser.v). *)
From Coq Require Import Lia.
From Plush Require Import model.Bytes model.Lexer model.Ast model.Parser gen.PrecTables.
Local Open Scope nat_scope.

(* ---------- C06: the precedence table regenerated from parser/precedences.go ---------- *)
(* !/- prefix > * / > + - > < <= > >= > == != ~= > && || > LOWEST, and call and
   index bind tighter than everything *)
Theorem prec_order :
  LOWEST <? prec_of AND = true /\ prec_of AND = prec_of OR /\
  prec_of OR <? prec_of EQ = true /\ prec_of EQ = prec_of NOT_EQ /\ prec_of NOT_EQ = prec_of MATCHES /\
  prec_of MATCHES <? prec_of LT = true /\ prec_of LT = prec_of LTEQ /\ prec_of LTEQ = prec_of GT /\ prec_of GT = prec_of GTEQ /\
  prec_of GTEQ <? prec_of PLUS = true /\ prec_of PLUS = prec_of MINUS /\
  prec_of MINUS <? prec_of ASTERISK = true /\ prec_of ASTERISK = prec_of SLASH /\
  prec_of SLASH <? PREFIX = true /\
  PREFIX <? prec_of LPAREN = true /\ prec_of LPAREN <? prec_of LBRACKET = true.
Proof. vm_compute. repeat split. Qed.

(* every other token has the lowest precedence: it ends an operand *)
Definition is_binop (k : tkind) : bool :=
  match k with
  | PLUS | MINUS | SLASH | ASTERISK | EQ | NOT_EQ | MATCHES | LT | GT | LTEQ | GTEQ | AND | OR => true
  | _ => false
  end.
Theorem prec_lowest_otherwise k :
  is_binop k = false -> k <> LPAREN -> k <> LBRACKET -> prec_of k = LOWEST.
Proof. destruct k; intros H1 H2 H3; try discriminate; try contradiction; vm_compute; reflexivity. Qed.

(* ---------- the Pratt loop ---------- *)
Lemma pratt_loop_S f prec left p :
  pratt_loop (S f) prec left p =
  if peek_is p SEMICOLON || negb (Nat.ltb prec (prec_of (peekk p))) then ret left p
  else
    match peekk p with
    | PLUS | MINUS | SLASH | ASTERISK | EQ | NOT_EQ | MATCHES | LT | GT | LTEQ | GTEQ | AND | OR =>
        let p1 := next p in
        let l := tlit (cur p1) in
        let pr := prec_of (curk p1) in
        bind (parse_expression f pr (next p1)) (fun r p2 => pratt_loop f prec (EInfix l l left r) p2)
    | LPAREN => bind (parse_call f left (next p)) (fun e p2 => pratt_loop f prec e p2)
    | LBRACKET => bind (parse_index f left (next p)) (fun e p2 => pratt_loop f prec e p2)
    | _ => ret left p
    end.
Proof. reflexivity. Qed.

(* the loop stops in front of an operator that does not bind tighter than the
   context: this is what makes every binary operator left-associative *)
Theorem pratt_stops f prec left p :
  prec_of (peekk p) <= prec -> pratt_loop (S f) prec left p = ret left p.
Proof.
  intros H. rewrite pratt_loop_S.
  assert (E: Nat.ltb prec (prec_of (peekk p)) = false) by (apply Nat.ltb_ge; exact H).
  rewrite E. rewrite Bool.orb_true_r. reflexivity.
Qed.

(* ... and climbs over one that does: the right operand is parsed in the
   context of that operator, then the loop continues with the same context *)
Theorem pratt_climbs f prec left p :
  is_binop (peekk p) = true -> prec < prec_of (peekk p) ->
  pratt_loop (S f) prec left p =
  let p1 := next p in
  bind (parse_expression f (prec_of (curk p1)) (next p1))
       (fun r p2 => pratt_loop f prec (EInfix (tlit (cur p1)) (tlit (cur p1)) left r) p2).
Proof.
  intros Hb H. rewrite pratt_loop_S.
  assert (E: Nat.ltb prec (prec_of (peekk p)) = true) by (apply Nat.ltb_lt; exact H).
  rewrite E. cbn [negb].
  assert (Hs: peek_is p SEMICOLON = false).
  { unfold peek_is. destruct (peekk p); try discriminate; reflexivity. }
  rewrite Hs. cbn [orb].
  destruct (peekk p); try discriminate; reflexivity.
Qed.

(* ---------- all operator pairs: a op1 b op2 c ---------- *)
Definition str_tok (s : bytes) (ln : nat) : token := mktok STRING s ln.
Definition three (k1 k2 : tkind) (a b c l1 l2 : bytes) (ln : nat) : pst :=
  mkpst [str_tok a ln; mktok k1 l1 ln; str_tok b ln; mktok k2 l2 ln; str_tok c ln;
         mktok E_END [] ln; mktok EOF [] ln] [] false.

(* for every pair of binary operators and all operands: the tree groups to the
   left unless the second operator binds strictly tighter *)
Theorem three_operands_grouping k1 k2 a b c l1 l2 ln :
  is_binop k1 = true -> is_binop k2 = true ->
  option_map fst (parse_expression 8 LOWEST (three k1 k2 a b c l1 l2 ln)) =
  Some (if prec_of k1 <? prec_of k2
        then EInfix l1 l1 (EStr a a) (EInfix l2 l2 (EStr b b) (EStr c c))
        else EInfix l2 l2 (EInfix l1 l1 (EStr a a) (EStr b b)) (EStr c c)).
Proof.
  intros H1 H2.
  destruct k1; try discriminate H1; destruct k2; try discriminate H2; vm_compute; reflexivity.
Qed.

(* parentheses override: ( b op2 c ) is one operand *)
Definition three_paren (k1 k2 : tkind) (a b c l1 l2 : bytes) (ln : nat) : pst :=
  mkpst [str_tok a ln; mktok k1 l1 ln; mktok LPAREN [40%N] ln; str_tok b ln; mktok k2 l2 ln; str_tok c ln;
         mktok RPAREN [41%N] ln; mktok E_END [] ln; mktok EOF [] ln] [] false.
Theorem parentheses_group k1 k2 a b c l1 l2 ln :
  is_binop k1 = true -> is_binop k2 = true ->
  option_map fst (parse_expression 10 LOWEST (three_paren k1 k2 a b c l1 l2 ln)) =
  Some (EInfix l1 l1 (EStr a a) (EInfix l2 l2 (EStr b b) (EStr c c))).
Proof.
  intros H1 H2.
  destruct k1; try discriminate H1; destruct k2; try discriminate H2; vm_compute; reflexivity.
Qed.

(* a prefix operator binds tighter than every binary operator: !a op b = (!a) op b *)
Definition prefixed (kp k : tkind) (a b lp l : bytes) (ln : nat) : pst :=
  mkpst [mktok kp lp ln; str_tok a ln; mktok k l ln; str_tok b ln; mktok E_END [] ln; mktok EOF [] ln] [] false.
Theorem prefix_binds_tightest kp k a b lp l ln :
  (kp = BANG \/ kp = MINUS) -> is_binop k = true ->
  option_map fst (parse_expression 8 LOWEST (prefixed kp k a b lp l ln)) =
  Some (EInfix l l (EPrefix lp lp (EStr a a)) (EStr b b)).
Proof.
  intros [->| ->] H; destruct k; try discriminate H; vm_compute; reflexivity.
Qed.
