(* LexerProofs.v - theorems about the lexer model (model/Lexer.v). *)
From Coq Require Import Lia.
From Plush Require Import model.Bytes model.Lexer proofs.BytesProofs.
Local Open Scope N_scope.

Notation len l := (length (lrest l)).

(* ---------- readChar ---------- *)
Lemma lrest_adv l : lrest (adv l) = tl (lrest l).
Proof. reflexivity. Qed.
Lemma len_adv l : len (adv l) = pred (len l).
Proof. unfold adv. simpl. destruct (lrest l); reflexivity. Qed.
Lemma lrest_advn n : forall l, lrest (advn n l) = skipn n (lrest l).
Proof.
  induction n as [|n IH]; intros l; [reflexivity|]. simpl advn. rewrite IH, lrest_adv.
  destruct (lrest l); [destruct n; reflexivity|reflexivity].
Qed.
Lemma len_advn n l : len (advn n l) = (len l - n)%nat.
Proof. rewrite lrest_advn. apply skipn_length. Qed.
Lemma linside_adv l : linside (adv l) = linside l.
Proof. reflexivity. Qed.
Lemma linside_advn n : forall l, linside (advn n l) = linside l.
Proof. induction n as [|n IH]; intros l; [reflexivity|]. simpl. rewrite IH. reflexivity. Qed.

Lemma ch_nonzero_len l : ch l <> 0 -> (1 <= len l)%nat.
Proof. unfold ch. destruct (lrest l); simpl; [congruence|lia]. Qed.
Lemma ch_eqb_len l c : (ch l =? c) = true -> c <> 0 -> (1 <= len l)%nat.
Proof. intros H Hc. apply N.eqb_eq in H. apply ch_nonzero_len. congruence. Qed.

(* ---------- C02: text without tags is copied verbatim ---------- *)
Definition no_nul (s : bytes) : Prop := forall c, In c s -> c <> 0.
Definition no_tag (s : bytes) : Prop := contains [60; 37] s = false.

Lemma no_tag_tail c s : no_tag (c :: s) -> no_tag s.
Proof. unfold no_tag. simpl. intros H. apply orb_false_elim in H. apply H. Qed.
Lemma no_tag_head c s : no_tag (c :: s) -> ((c =? 60) && (hd 0 s =? 37)) = false.
Proof.
  unfold no_tag. simpl. intros H. apply orb_false_elim in H. destruct H as [H _].
  destruct (N.eqb_spec 60 c) as [<-|Hn].
  - simpl in H. destruct s as [|d s]; [reflexivity|]. simpl in *.
    destruct (N.eqb_spec 37 d) as [<-|Hd]; [discriminate|].
    destruct (N.eqb_spec d 37); [congruence|reflexivity].
  - destruct (N.eqb_spec c 60); [congruence|reflexivity].
Qed.
Lemma no_tag_next2 c a b s : no_tag (c :: a :: b :: s) -> ((a =? 60) && (b =? 37)) = false.
Proof. intros H. apply no_tag_tail in H. exact (no_tag_head a (b :: s) H). Qed.

(* the scanner reads a tag-free, NUL-free text to its end, unchanged *)
Lemma scan_html_no_tag s : forall prev, no_nul s -> no_tag s ->
  scan_html prev s = (s, length s, false).
Proof.
  induction s as [|c r IH]; intros prev Hn Ht; [reflexivity|].
  cbn [scan_html].
  assert (Hc: (c =? 0) = false) by (apply N.eqb_neq; apply Hn; left; reflexivity).
  rewrite Hc.
  assert (Hn2: (match r with a :: b :: _ => (a =? 60) && (b =? 37) | _ => false end) = false).
  { destruct r as [|a [|b r2]]; try reflexivity. exact (no_tag_next2 c a b r2 Ht). }
  rewrite Hn2. rewrite !andb_false_r. simpl.
  rewrite (no_tag_head c r Ht).
  rewrite (IH c); [reflexivity| |exact (no_tag_tail c r Ht)].
  intros x Hx. apply Hn. right. exact Hx.
Qed.

Lemma replace_esc_tag_no_tag s : no_tag s -> replace_esc_tag s = s.
Proof.
  induction s as [|c r IH]; intros Ht; [reflexivity|].
  pose proof (IH (no_tag_tail c r Ht)) as IHr.
  destruct r as [|a [|b r2]].
  - simpl. destruct c as [|p]; [reflexivity|]. repeat (destruct p; try reflexivity).
  - change (replace_esc_tag (c :: [a]) = c :: [a]). simpl in *.
    destruct c as [|p]; [simpl; f_equal; exact IHr|].
    repeat (destruct p; try (simpl; f_equal; exact IHr)).
    destruct a as [|q]; simpl; try reflexivity. repeat (destruct q; try reflexivity).
  - pose proof (no_tag_next2 c a b r2 Ht) as H2.
    assert (E: replace_esc_tag (c :: a :: b :: r2) = c :: replace_esc_tag (a :: b :: r2)).
    { destruct (N.eqb_spec c 92) as [->|Hc].
      - destruct (N.eqb_spec a 60) as [->|Ha]; [destruct (N.eqb_spec b 37) as [->|Hb]; [discriminate|]|].
        + simpl. destruct b as [|q]; [reflexivity|]. repeat (destruct q; try reflexivity). contradiction.
        + simpl. destruct a as [|q]; [reflexivity|]. repeat (destruct q; try reflexivity). contradiction.
      - simpl. destruct c as [|p]; [reflexivity|]. repeat (destruct p; try reflexivity). contradiction. }
    rewrite E, IHr. reflexivity.
Qed.

Theorem read_html_no_tag l : no_nul (lrest l) -> no_tag (lrest l) ->
  fst (read_html l) = lrest l /\ lrest (snd (read_html l)) = [] /\ linside (snd (read_html l)) = linside l.
Proof.
  intros Hn Ht. unfold read_html. rewrite (scan_html_no_tag _ _ Hn Ht).
  assert (Hr: lrest (advn (length (lrest l)) l) = []).
  { rewrite lrest_advn. apply skipn_all. }
  assert (Hch: ch (advn (length (lrest l)) l) = 0) by (unfold ch; rewrite Hr; reflexivity).
  rewrite Hch. simpl. split; [apply replace_esc_tag_no_tag; exact Ht|split; [exact Hr|apply linside_advn]].
Qed.

(* ---------- C03: the lexer always terminates with a token list ---------- *)
Lemma len_skip_ws l : (len (skip_ws l) <= len l)%nat.
Proof.
  unfold skip_ws. destruct (lrest l) as [|a [|b r]] eqn:E.
  - rewrite len_adv, E. simpl. lia.
  - rewrite len_adv, E. simpl. lia.
  - rewrite len_advn, E. lia.
Qed.

Lemma span_nonempty p r : r <> [] -> p (hd 0 r) = true -> (1 <= length (span p r))%nat.
Proof. destruct r as [|c r]; [contradiction|]. simpl. intros _ H. rewrite H. simpl. lia. Qed.

Lemma ch_hd l : ch l = hd 0 (lrest l).
Proof. reflexivity. Qed.

Lemma lrest_nonempty l : ch l <> 0 -> lrest l <> [].
Proof. unfold ch. destruct (lrest l); simpl; congruence. Qed.

Lemma lrest_set_inside b l : lrest (set_inside b l) = lrest l.
Proof. reflexivity. Qed.

Lemma snd_tail_tok sl k lit l : snd (tail_tok sl k lit l) = adv l.
Proof. reflexivity. Qed.
Lemma snd_now_tok sl k lit l : snd (now_tok sl k lit l) = l.
Proof. reflexivity. Qed.

Ltac split_ifs H :=
  repeat match type of H with
         | (if ?c then _ else _) = _ => destruct c eqn:?
         | (match ?x with _ => _ end) = _ => destruct x eqn:?
         | (let '(_, _) := ?x in _) = _ => destruct x eqn:?
         end.

(* every inside-mode token consumes at least one byte, or is the EOF at the
   true end of the input *)
Lemma next_inside_progress : forall fuel l t l', (len l < fuel)%nat -> next_inside fuel l = (t, l') ->
  (len l' <= len l)%nat /\ ((len l' < len l)%nat \/ (tk t = EOF /\ at_end l' = true)).
Proof.
  induction fuel as [|f IH]; intros l t l' Hf H; [lia|].
  cbn [next_inside] in H.
  pose proof (len_skip_ws l) as Hws.
  remember (skip_ws l) as l1 eqn:El1. clear El1.
  (* the branch of the # comment is the only recursive one *)
  destruct (ch l1 =? 35) eqn:E35.
  - (* first peel the tests that come before '#': none of them can be true *)
    assert (Hc: ch l1 = 35) by (apply N.eqb_eq; exact E35).
    rewrite Hc in H. simpl in H.
    assert (Hne: lrest l1 <> []) by (apply lrest_nonempty; rewrite Hc; discriminate).
    destruct (lrest l1) as [|c0 r1] eqn:Er; [contradiction|].
    assert (Hl1: (1 <= len l1)%nat) by (rewrite Er; simpl; lia).
    apply IH in H.
    + rewrite len_advn, len_adv, Er in H. simpl in H, Hws. destruct H as [H1 H2]. split; [lia|left; lia].
    + rewrite len_advn, len_adv, Er. simpl in *. lia.
  - (* all other branches: a fixed number (>= 1) of readChars *)
    unfold one, two, tail_tok, now_tok in H.
    split_ifs H; inversion H as [[Ht Hl']]; clear H; rewrite <- ?Ht, <- ?Hl'; cbn [tk];
      rewrite ?len_adv, ?len_advn, ?len_adv, ?lrest_set_inside.
    (* the EOF branch: ch l1 = 0 *)
    all: try (match goal with
              | Hz : (ch ?x =? 0) = true |- _ =>
                  split; [lia|];
                  destruct (lrest x) as [|x0 r0] eqn:Er0;
                  [right; split; [reflexivity|unfold at_end, adv; simpl; try rewrite Er0; reflexivity]
                  |left; try rewrite Er0 in Hws; simpl in *; lia]
              end).
    (* every other branch knows that ch l1 is not 0 *)
    all: try (match goal with
              | Hz : (ch ?x =? 0) = false |- _ =>
                  assert (Hnz: ch x <> 0) by (apply N.eqb_neq; exact Hz)
              | Hc : (ch ?x =? ?k) = true |- _ =>
                  assert (Hnz: ch x <> 0) by (apply N.eqb_eq in Hc; rewrite Hc; discriminate)
              end;
              match goal with Hnz : ch ?x <> 0 |- _ => pose proof (ch_nonzero_len x Hnz) as Hl1 end).
    all: try (split; [lia|left; lia]).
    (* identifiers and numbers: the literal has at least one byte *)
    all: try (match goal with
              | |- context [length (span ?p (lrest ?x))] =>
                  assert (1 <= length (span p (lrest x)))%nat
                    by (apply span_nonempty; [apply lrest_nonempty; assumption|
                        rewrite <- ch_hd;
                        first [ assumption
                              | match goal with Hp : ?q (ch x) = true |- _ => rewrite Hp; rewrite ?orb_true_r; reflexivity end
                              | match goal with Hc : (ch x =? ?k) = true |- _ => apply N.eqb_eq in Hc; rewrite Hc; reflexivity end ]]);
                  split; [lia|left; lia]
              end).
Qed.

(* text mode: a text token that starts on a byte other than NUL and other
   than the opening of a tag consumes at least one byte *)
Lemma scan_html_progress prev c r1 : (c =? 0) = false -> ((c =? 60) && (hd 0 r1 =? 37)) = false ->
  (1 <= snd (fst (scan_html prev (c :: r1))))%nat.
Proof.
  intros Hc Ht. cbn [scan_html]. rewrite Hc.
  destruct ((c =? 92) && (prev =? 92) && _); [simpl; lia|].
  destruct ((c =? 92) && _) eqn:E.
  - destruct r1 as [|a [|b r3]]; try (rewrite andb_false_r in E; discriminate).
    destruct (scan_html b r3) as [[t k] e]. simpl. lia.
  - rewrite Ht. destruct (scan_html c r1) as [[t k] e]. simpl. lia.
Qed.

Lemma read_html_progress l : (ch l =? 0) = false -> ((ch l =? 60) && (peek l =? 37)) = false ->
  (len (snd (read_html l)) < len l)%nat.
Proof.
  intros Hc Ht. unfold read_html.
  assert (Hnz: ch l <> 0) by (apply N.eqb_neq; exact Hc).
  pose proof (ch_nonzero_len l Hnz) as Hl.
  destruct (lrest l) as [|c r1] eqn:Er; [simpl in Hl; lia|].
  unfold ch, peek in Hc, Ht. rewrite Er in Hc, Ht. simpl in Hc, Ht.
  pose proof (scan_html_progress (lprev l) c r1 Hc Ht) as Hk.
  destruct (scan_html (lprev l) (c :: r1)) as [[raw k] early]. simpl in Hk.
  assert (Hlen: (len (advn k l) < length (c :: r1))%nat).
  { rewrite len_advn, Er. cbn [length]. lia. }
  destruct early; simpl; [exact Hlen|].
  destruct ((ch (advn k l) =? 60) && (peek (advn k l) =? 37)); simpl; exact Hlen.
Qed.

(* one call of NextToken: the rest shrinks, or the token is an EOF after
   which the stream stops *)
Lemma next_token_progress fuel l t l' : (len l < fuel)%nat -> next_token fuel l = (t, l') ->
  (len l' < len l)%nat \/ (tk t = EOF /\ (at_end l' || negb (linside l)) = true).
Proof.
  intros Hf H. unfold next_token in H.
  destruct (linside l) eqn:Ei.
  - apply next_inside_progress in H; [|exact Hf].
    destruct H as [_ [H|[H1 H2]]]; [left; exact H|right; split; [exact H1|rewrite H2; reflexivity]].
  - destruct (ch l =? 0) eqn:E0.
    + inversion H; subst. right. split; [reflexivity|apply orb_true_r].
    + destruct ((ch l =? 60) && (peek l =? 37)) eqn:Et.
      * apply next_inside_progress in H; [|exact Hf].
        rewrite lrest_set_inside in H.
        destruct H as [_ [H|[H1 H2]]]; [left; exact H|right; split; [exact H1|rewrite H2; reflexivity]].
      * pose proof (read_html_progress l E0 Et) as Hp.
        destruct (read_html l) as [lit l2]. inversion H; subst. left. exact Hp.
Qed.

Lemma lex_all_total : forall fuel l, (len l + 2 <= fuel)%nat -> exists ts, lex_all fuel l = Some ts.
Proof.
  induction fuel as [|f IH]; intros l Hf; [lia|].
  cbn [lex_all].
  destruct (next_token (S f) l) as [t l'] eqn:En.
  apply next_token_progress in En; [|lia].
  assert (Hrec: (len l' < len l)%nat -> exists ts,
            match lex_all f l' with Some ts => Some (t :: ts) | None => None end = Some ts).
  { intros Hlt. destruct (IH l') as [ts Hts]; [lia|]. rewrite Hts. eexists; reflexivity. }
  destruct En as [Hlt|[He Hstop]].
  - destruct (tk t); try (apply Hrec; exact Hlt).
    destruct (at_end l' || negb (linside l)); [eexists; reflexivity|apply Hrec; exact Hlt].
  - rewrite He, Hstop. eexists; reflexivity.
Qed.

(* C03, lexer half: every byte string is turned into a token list; the fuel
   of the model never runs out *)
Theorem lex_total s : exists ts, lex s = Some ts.
Proof. unfold lex. apply lex_all_total. simpl. lia. Qed.

(* ---------- C02: string literals ---------- *)
(* the source spelling of a double-quoted string: every quote is written as backslash quote *)
Definition enc_dq (s : bytes) : bytes := flat_map (fun c => if c =? 34 then [92; 34] else [c]) s.
Definition plain_str (s : bytes) : Prop := forall c, In c s -> c <> 0 /\ c <> 92.

Lemma plain_str_tail c s : plain_str (c :: s) -> plain_str s.
Proof. intros H x Hx. apply H. right. exact Hx. Qed.

(* readString stops exactly at the closing quote, whatever the contents
   (tag delimiters, #, newlines and multi-byte runes are not special) *)
Theorem at_str_enc s r : plain_str s -> at_str (enc_dq s ++ 34 :: r) = (enc_dq s, length (enc_dq s)).
Proof.
  induction s as [|c s IH]; intros Hp.
  - simpl. reflexivity.
  - pose proof (IH (plain_str_tail c s Hp)) as IHs.
    destruct (Hp c (or_introl eq_refl)) as [H0 H92].
    unfold enc_dq. cbn [flat_map]. fold (enc_dq s).
    destruct (c =? 34) eqn:E34.
    + cbn [app at_str]. change (92 =? 0) with false. change (92 =? 34) with false. change (92 =? 92) with true.
      cbn iota. change (34 =? 34) with true. cbn iota. rewrite IHs. reflexivity.
    + cbn [app at_str]. rewrite E34.
      assert (E0: (c =? 0) = false) by (apply N.eqb_neq; exact H0).
      assert (E92: (c =? 92) = false) by (apply N.eqb_neq; exact H92).
      rewrite E0, E92, IHs. reflexivity.
Qed.

(* ... and the literal denotes exactly the characters between the quotes *)
Theorem unescape_enc s : plain_str s -> replace_esc_quote (enc_dq s) = s.
Proof.
  induction s as [|c s IH]; intros Hp; [reflexivity|].
  pose proof (IH (plain_str_tail c s Hp)) as IHs.
  destruct (Hp c (or_introl eq_refl)) as [H0 H92].
  unfold enc_dq. cbn [flat_map]. fold (enc_dq s).
  destruct (N.eqb_spec c 34) as [->|Hn].
  - cbn [app replace_esc_quote]. rewrite IHs. reflexivity.
  - cbn [app].
    assert (E: forall t, replace_esc_quote (c :: t) = c :: replace_esc_quote t).
    { intros t. destruct c as [|p]; [reflexivity|]. simpl.
      repeat (destruct p; try reflexivity). contradiction. }
    rewrite E, IHs. reflexivity.
Qed.

(* back-quoted strings are taken raw *)
Theorem at_bstr_raw s r : (forall c, In c s -> c <> 0 /\ c <> 96) ->
  at_bstr (s ++ 96 :: r) = (s, length s).
Proof.
  induction s as [|c s IH]; intros Hp.
  - reflexivity.
  - cbn [app at_bstr]. destruct (Hp c (or_introl eq_refl)) as [H0 H96].
    apply N.eqb_neq in H0, H96. rewrite H0, H96. cbn [orb].
    rewrite IH; [reflexivity|]. intros x Hx. apply Hp. right. exact Hx.
Qed.

(* the escape \<% in text: three bytes are consumed and stand for a literal <% *)
Theorem scan_html_escape prev r : (prev =? 92) = false ->
  scan_html prev (92 :: 60 :: 37 :: r) =
  (let '(t, k, e) := scan_html 37 r in (92 :: 60 :: 37 :: t, (3 + k)%nat, e)).
Proof. intros Hp. cbn [scan_html]. rewrite Hp. reflexivity. Qed.
Theorem replace_esc_tag_escape t : replace_esc_tag (92 :: 60 :: 37 :: t) = 60 :: 37 :: replace_esc_tag t.
Proof. reflexivity. Qed.
(* the escape \\<% : the first backslash is text, the second is dropped and
   the tag that follows is live (the scan ends before it) *)
Theorem scan_html_double_escape r : scan_html 92 (92 :: 60 :: 37 :: r) = ([], 1%nat, true).
Proof. reflexivity. Qed.
