(* ConcProofs.v - soundness of the lockset check: if every two conflicting
   accesses of the programs share a lock, no schedule of any number of
   threads running those programs reaches a data race. *)
From Coq Require Import List Bool String Lia Arith PeanoNat.
Import ListNotations.
From Plush Require Import model.Conc.

Lemma shares_true a b : shares a b = true -> exists l, In l a /\ In l b.
Proof.
  unfold shares. intros H. apply existsb_exists in H. destruct H as [l [Ha Hb]].
  apply existsb_exists in Hb. destruct Hb as [l' [Hb E]]. apply String.eqb_eq in E. subst l'.
  exists l. split; assumption.
Qed.

Section Sound.
Variable progs : list (list instr).
Variable prog : nat -> list instr.                (* what thread i runs *)
Hypothesis prog_ok : forall i, In (prog i) progs \/ prog i = [].
Hypothesis ok : lockset_ok progs = true.

Definition all := flat_map (annot []) progs.
Definition init : state := fun i => mkthr [] (prog i).

Definition Excl (s : state) : Prop :=
  forall i j l, i <> j -> In l (held (s i)) -> In l (held (s j)) -> False.
Definition Sub (s : state) : Prop :=
  forall i, incl (annot (held (s i)) (rest (s i))) all.

Lemma init_inv : Excl init /\ Sub init.
Proof.
  split.
  - intros i j l _ H. simpl in H. contradiction.
  - intros i. unfold init. simpl. destruct (prog_ok i) as [H|H].
    + intros a Ha. unfold all. apply in_flat_map. exists (prog i). split; assumption.
    + rewrite H. simpl. intros a Ha. contradiction.
Qed.

Lemma in_remove_in l l' h : In l (remove string_dec l' h) -> In l h.
Proof. intros H. apply in_remove in H. apply H. Qed.

Lemma step_inv s s' : Excl s /\ Sub s -> step s s' -> Excl s' /\ Sub s'.
Proof.
  intros [HE HS] St. destruct St as [s i t' T].
  assert (Hheld: forall l, In l (held t') -> In l (held (s i)) \/ (forall j, j <> i -> ~ In l (held (s j)))).
  { intros l Hl.
    inversion T as [l0 h r Ho Hn Heq Heq' | l0 h r Heq Heq' | x w h r Heq Heq']. all: subst t'; simpl in *.
    - destruct Hl as [->|Hl]; [right|left; exact Hl].
      intros j Hj Hin. apply Ho. exists j. split; assumption.
    - left. eapply in_remove_in. exact Hl.
    - left. exact Hl. }
  split.
  - intros a b l Hab Ha Hb. unfold upd in Ha, Hb.
    destruct (Nat.eqb_spec a i) as [Ea|Na], (Nat.eqb_spec b i) as [Eb|Nb].
    + congruence.
    + subst a. destruct (Hheld l Ha) as [H|H]; [exact (HE i b l (not_eq_sym Nb) H Hb)|exact (H b Nb Hb)].
    + subst b. destruct (Hheld l Hb) as [H|H]; [exact (HE a i l Na Ha H)|exact (H a Na Ha)].
    + exact (HE a b l Hab Ha Hb).
  - intros k. unfold upd. destruct (Nat.eqb_spec k i) as [->|Nk]; [|apply HS].
    specialize (HS i).
    inversion T as [l0 h r Ho Hn Heq Heq' | l0 h r Heq Heq' | x w h r Heq Heq']; subst t'; try rewrite <- Heq in HS; simpl in *; try exact HS.
    intros a Ha. apply HS. right. exact Ha.
Qed.

Lemma reach_inv s : reach init s -> Excl s /\ Sub s.
Proof.
  induction 1 as [|s s' R IH St]; [exact init_inv|]. exact (step_inv s s' IH St).
Qed.

Theorem lockset_sound s : reach init s -> ~ race s.
Proof.
  intros R [i [j [x [w1 [w2 [r1 [r2 [Hij [Hi [Hj Hw]]]]]]]]]].
  destruct (reach_inv s R) as [HE HS].
  assert (Ha: In (x, w1, held (s i)) all).
  { apply (HS i). rewrite Hi. simpl. left. reflexivity. }
  assert (Hb: In (x, w2, held (s j)) all).
  { apply (HS j). rewrite Hj. simpl. left. reflexivity. }
  unfold lockset_ok in ok. fold all in ok.
  rewrite forallb_forall in ok. specialize (ok _ Ha).
  rewrite forallb_forall in ok. specialize (ok _ Hb).
  unfold conflict in ok. simpl in ok. rewrite String.eqb_refl, Hw in ok. simpl in ok.
  apply negb_true_iff in ok. apply negb_false_iff in ok.
  destruct (shares_true _ _ ok) as [l [Hl1 Hl2]].
  exact (HE i j l Hij Hl1 Hl2).
Qed.
End Sound.
