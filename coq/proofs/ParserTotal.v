(* ParserTotal.v - the parser model terminates on every token list that ends
   in EOF: its fuel (the depth of the recursive descent) is bounded by a
   linear function of the number of tokens (C03).

   Every function of the mutual Fixpoint gets a rank; a call that may leave
   the cursor where it is goes to a function of strictly smaller rank, every
   other call happens after at least one token was consumed.  So
   depth <= A * (number of tokens left) + rank. *)
From Coq Require Import Lia.
From Plush Require Import model.Bytes model.Lexer model.Ast model.Parser proofs.ParserEqs.
Local Open Scope nat_scope.

Definition len (p : pst) : nat := length (toks p).
Definition ok (p : pst) : Prop := toks p <> [] /\ tk (last (toks p) eof0) = EOF.
Definition Tot {A} (m : M A) (q : pst) : Prop :=
  exists r q', m = Some (r, q') /\ ok q' /\ len q' <= len q.

(* ---------- the cursor ---------- *)
Lemma ok_len p : ok p -> 1 <= len p.
Proof. intros [H _]. unfold len. destruct (toks p); [contradiction|simpl; lia]. Qed.
Lemma ok_single p : ok p -> len p = 1 -> curk p = EOF /\ peekk p = EOF.
Proof.
  intros [H1 H2] Hl. unfold len in Hl. unfold curk, peekk, cur, peekt.
  destruct (toks p) as [|a [|b r]]; try discriminate. simpl in H2. split; exact H2.
Qed.
Lemma next_spec p : ok p -> ok (next p) /\ len (next p) <= len p /\ (2 <= len p -> len (next p) = len p - 1).
Proof.
  intros [H1 H2]. unfold ok, len, next in *. destruct (toks p) as [|a [|b r]] eqn:E.
  - exfalso. apply H1. reflexivity.
  - rewrite E. simpl. split; [split; [discriminate|exact H2]|]. split; lia.
  - cbn [toks]. split; [split; [discriminate|exact H2]|]. simpl. split; lia.
Qed.
Lemma ok_next p : ok p -> ok (next p).
Proof. intros H. apply next_spec. exact H. Qed.
Lemma cur_next p : 2 <= len p -> cur (next p) = peekt p.
Proof. unfold len, cur, next, peekt. destruct (toks p) as [|a [|b r]]; simpl; try lia. reflexivity. Qed.

Lemma len2_curk p k : ok p -> curk p = k -> k <> EOF -> 2 <= len p.
Proof.
  intros H Hk Hn. pose proof (ok_len p H). destruct (Nat.eq_dec (len p) 1) as [E|E]; [|lia].
  destruct (ok_single p H E) as [Hc _]. congruence.
Qed.
Lemma len2_peekk p k : ok p -> peekk p = k -> k <> EOF -> 2 <= len p.
Proof.
  intros H Hk Hn. pose proof (ok_len p H). destruct (Nat.eq_dec (len p) 1) as [E|E]; [|lia].
  destruct (ok_single p H E) as [_ Hc]. congruence.
Qed.
Lemma tkind_eqb_true a b : tkind_eqb a b = true -> a = b.
Proof. unfold tkind_eqb. intros H. apply N.eqb_eq in H. destruct a, b; try reflexivity; discriminate H. Qed.
Lemma tkind_eqb_refl a : tkind_eqb a a = true.
Proof. unfold tkind_eqb. apply N.eqb_refl. Qed.
Lemma len2_cur_is p k : ok p -> cur_is p k = true -> k <> EOF -> 2 <= len p.
Proof. intros H Hc Hn. apply (len2_curk p k H); [apply tkind_eqb_true; exact Hc|exact Hn]. Qed.
Lemma len2_peek_is p k : ok p -> peek_is p k = true -> k <> EOF -> 2 <= len p.
Proof. intros H Hc Hn. apply (len2_peekk p k H); [apply tkind_eqb_true; exact Hc|exact Hn]. Qed.
Lemma len2_cur_not_eof p : ok p -> cur_is p EOF = false -> 2 <= len p.
Proof.
  intros H Hc. pose proof (ok_len p H). destruct (Nat.eq_dec (len p) 1) as [E|E]; [|lia].
  destruct (ok_single p H E) as [Hk _]. unfold cur_is in Hc. rewrite Hk, tkind_eqb_refl in Hc. discriminate.
Qed.
Lemma len2_peek_not_eof p : ok p -> peek_is p EOF = false -> 2 <= len p.
Proof.
  intros H Hc. pose proof (ok_len p H). destruct (Nat.eq_dec (len p) 1) as [E|E]; [|lia].
  destruct (ok_single p H E) as [_ Hk]. unfold peek_is in Hc. rewrite Hk, tkind_eqb_refl in Hc. discriminate.
Qed.
(* after moving onto a token that is not EOF there is still one more *)
Lemma len2_next_peek_is p k : ok p -> peek_is p k = true -> k <> EOF -> 2 <= len (next p).
Proof.
  intros H Hc Hn. pose proof (len2_peek_is p k H Hc Hn) as H2.
  apply (len2_curk (next p) k); [apply ok_next; exact H| |exact Hn].
  unfold curk. rewrite cur_next by exact H2. apply tkind_eqb_true. exact Hc.
Qed.
Lemma len2_next_peekk p k : ok p -> peekk p = k -> k <> EOF -> 2 <= len (next p).
Proof.
  intros H Hc Hn. apply (len2_next_peek_is p k H); [|exact Hn]. unfold peek_is. rewrite Hc. apply tkind_eqb_refl.
Qed.

(* ---------- the other state updates leave the tokens alone ---------- *)
Lemma toks_add_errs n : forall p, toks (add_errs n p) = toks p.
Proof. induction n as [|n IH]; intros p; [reflexivity|]. simpl. rewrite IH. reflexivity. Qed.
Lemma len_add_err p : len (add_err p) = len p. Proof. reflexivity. Qed.
Lemma len_add_err_line n p : len (add_err_line n p) = len p. Proof. reflexivity. Qed.
Lemma len_set_infor b p : len (set_infor b p) = len p. Proof. reflexivity. Qed.
Lemma len_add_errs n p : len (add_errs n p) = len p. Proof. unfold len. rewrite toks_add_errs. reflexivity. Qed.
Lemma ok_add_err p : ok p -> ok (add_err p). Proof. exact (fun H => H). Qed.
Lemma ok_add_err_line n p : ok p -> ok (add_err_line n p). Proof. exact (fun H => H). Qed.
Lemma ok_set_infor b p : ok p -> ok (set_infor b p). Proof. exact (fun H => H). Qed.
Lemma ok_add_errs n p : ok p -> ok (add_errs n p). Proof. unfold ok. rewrite toks_add_errs. exact (fun H => H). Qed.
Lemma ok_skip_semi p : ok p -> ok (skip_semi p).
Proof. intros H. unfold skip_semi. destruct (peek_is p SEMICOLON); [apply ok_next|]; exact H. Qed.
Lemma len_skip_semi p : ok p -> len (skip_semi p) <= len p.
Proof. intros H. unfold skip_semi. destruct (peek_is p SEMICOLON); [apply next_spec; exact H|lia]. Qed.
(* the cursor functions do not look at the error list or the loop flag *)
Lemma peek_is_set_infor b p k : peek_is (set_infor b p) k = peek_is p k. Proof. reflexivity. Qed.
Lemma cur_is_set_infor b p k : cur_is (set_infor b p) k = cur_is p k. Proof. reflexivity. Qed.
Lemma peek_is_add_errs n p k : peek_is (add_errs n p) k = peek_is p k.
Proof. unfold peek_is, peekk, peekt. rewrite toks_add_errs. reflexivity. Qed.
Lemma next_set_infor_len b p : len (next (set_infor b p)) = len (next p).
Proof. unfold len, next. simpl. destruct (toks p) as [|a [|c r]]; reflexivity. Qed.
Lemma next_add_errs_len n p : len (next (add_errs n p)) = len (next p).
Proof. unfold len, next. rewrite toks_add_errs. destruct (toks p) as [|a [|c r]]; simpl; try rewrite toks_add_errs; reflexivity. Qed.

#[global] Hint Rewrite len_add_err len_add_err_line len_set_infor len_add_errs next_set_infor_len next_add_errs_len
  peek_is_set_infor cur_is_set_infor peek_is_add_errs : plen.

(* ---------- the monad ---------- *)
Lemma Tot_ret {A} (r : A) q p : ok q -> len q <= len p -> Tot (ret r q) p.
Proof. intros H1 H2. exists r, q. repeat split; try assumption; apply H1. Qed.
Lemma Tot_sub {A} (m : M A) q p : Tot m q -> len q <= len p -> Tot m p.
Proof. intros [r [q' [E [H1 H2]]]] H. exists r, q'. repeat split; try assumption; try apply H1. lia. Qed.
Lemma Tot_bind {A B} (m : M A) (k : A -> pst -> M B) q p :
  Tot m q -> len q <= len p ->
  (forall r q', ok q' -> len q' <= len q -> Tot (k r q') p) -> Tot (bind m k) p.
Proof.
  intros [r [q' [E [H1 H2]]]] Hq Hk. rewrite E. unfold bind. apply Hk; assumption.
Qed.
Lemma bind_assoc {A B C} (m : M A) (k1 : A -> pst -> M B) (k2 : B -> pst -> M C) :
  bind (bind m k1) k2 = bind m (fun a p => bind (k1 a p) k2).
Proof. destruct m as [[a p]|]; reflexivity. Qed.
Lemma bind_ret {A B} (a : A) q (k : A -> pst -> M B) : bind (ret a q) k = k a q.
Proof. reflexivity. Qed.

Lemma expect_peek_true q k : peek_is q k = true -> expect_peek q k = (true, next q).
Proof. intros H. unfold expect_peek. rewrite H. reflexivity. Qed.
Lemma expect_peek_false q k : peek_is q k = false -> expect_peek q k = (false, add_err q).
Proof. intros H. unfold expect_peek. rewrite H. reflexivity. Qed.

(* ---------- ranks ---------- *)
Definition A := 24.
Definition need (rank : nat) (p : pst) (fuel : nat) : Prop := A * len p + rank <= fuel.

Record IH (f : nat) : Prop := mkIH {
  ih_statement : forall p, ok p -> need 14 p f -> Tot (parse_statement f p) p;
  ih_return : forall b p, ok p -> need 12 p f -> Tot (parse_return f b p) p;
  ih_let : forall p, ok p -> need 12 p f -> Tot (parse_let f p) p;
  ih_expression : forall prec p, ok p -> need 10 p f -> Tot (parse_expression f prec p) p;
  ih_pratt : forall prec left p, ok p -> need 9 p f -> Tot (pratt_loop f prec left p) p;
  ih_identifier : forall p, ok p -> need 5 p f -> Tot (parse_identifier f p) p;
  ih_comment : forall p, ok p -> need 5 p f -> Tot (parse_comment f p) p;
  ih_if : forall p, ok p -> need 5 p f -> Tot (parse_if f p) p;
  ih_else : forall c b elifs els p, ok p -> need 5 p f -> Tot (parse_else f c b elifs els p) p;
  ih_block : forall acc p, ok p -> need 16 p f -> Tot (parse_block f acc p) p;
  ih_for : forall p, ok p -> need 6 p f -> Tot (parse_for f p) p;
  ih_for_header : forall ln names p, ok p -> need 5 p f -> Tot (parse_for_header f ln names p) p;
  ih_fn : forall p, ok p -> need 5 p f -> Tot (parse_fn f p) p;
  ih_params : forall acc p, ok p -> need 5 p f -> Tot (parse_params f acc p) p;
  ih_expr_list : forall endk p, ok p -> 2 <= len p -> need 7 p f -> Tot (parse_expr_list f endk p) p;
  ih_expr_list_more : forall endk acc p, ok p -> need 7 p f -> Tot (parse_expr_list_more f endk acc p) p;
  ih_hash : forall acc p, ok p -> 2 <= len p -> need 7 p f -> Tot (parse_hash f acc p) p;
  ih_call : forall fn p, ok p -> 2 <= len p -> need 8 p f -> Tot (parse_call f fn p) p;
  ih_index : forall left p, ok p -> 2 <= len p -> need 8 p f -> Tot (parse_index f left p) p
}.

(* ---------- automation ---------- *)
Ltac okk :=
  repeat first [ assumption | apply ok_next | apply ok_skip_semi | apply ok_add_errs
               | apply ok_add_err | apply ok_add_err_line | apply ok_set_infor ].

Ltac bools :=
  repeat match goal with
         | H : (_ || _) = false |- _ => apply Bool.orb_false_elim in H; destruct H
         | H : negb _ = false |- _ => apply Bool.negb_false_iff in H
         | H : negb _ = true |- _ => apply Bool.negb_true_iff in H
         end.

(* facts about the length of every [next q] / [skip_semi q] in sight *)
Ltac next_facts :=
  repeat match goal with
         | |- context [len (next ?q)] =>
             lazymatch goal with
             | _ : len (next q) <= len q /\ _ |- _ => fail
             | _ => let H := fresh "Hnx" in
                    assert (H: len (next q) <= len q /\ (2 <= len q -> len (next q) = len q - 1))
                      by (let Hq := fresh "Hokq" in assert (Hq: ok q) by okk; pose proof (next_spec q Hq); tauto)
             end
         | _ : context [len (next ?q)] |- _ =>
             lazymatch goal with
             | _ : len (next q) <= len q /\ _ |- _ => fail
             | _ => let H := fresh "Hnx" in
                    assert (H: len (next q) <= len q /\ (2 <= len q -> len (next q) = len q - 1))
                      by (let Hq := fresh "Hokq" in assert (Hq: ok q) by okk; pose proof (next_spec q Hq); tauto)
             end
         | |- context [len (skip_semi ?q)] =>
             lazymatch goal with
             | _ : len (skip_semi q) <= len q |- _ => fail
             | _ => let H := fresh "Hss" in
                    assert (H: len (skip_semi q) <= len q) by (apply len_skip_semi; okk)
             end
         end.

(* 2 <= len q from what the conditions say about the cursor *)
Ltac cond_facts :=
  repeat match goal with
         | H : peek_is ?q ?k = true |- _ =>
             lazymatch goal with
             | _ : 2 <= len q /\ 2 <= len (next q) |- _ => fail
             | _ => let F := fresh "Hc2" in
                    assert (F: 2 <= len q /\ 2 <= len (next q))
                      by (split; [apply (len2_peek_is q k); [okk|exact H|discriminate]
                                 |apply (len2_next_peek_is q k); [okk|exact H|discriminate]])
             end
         | H : peekk ?q = ?k |- _ =>
             lazymatch goal with
             | _ : 2 <= len q /\ 2 <= len (next q) |- _ => fail
             | _ => let F := fresh "Hc2" in
                    assert (F: 2 <= len q /\ 2 <= len (next q))
                      by (split; [apply (len2_peekk q k); [okk|exact H|discriminate]
                                 |apply (len2_next_peekk q k); [okk|exact H|discriminate]])
             end
         | H : cur_is ?q ?k = true |- _ =>
             lazymatch goal with
             | _ : 2 <= len q |- _ => fail
             | _ => let F := fresh "Hc2" in
                    assert (F: 2 <= len q) by (apply (len2_cur_is q k); [okk|exact H|discriminate])
             end
         | H : curk ?q = ?k |- _ =>
             lazymatch goal with
             | _ : 2 <= len q |- _ => fail
             | _ => let F := fresh "Hc2" in
                    assert (F: 2 <= len q) by (apply (len2_curk q k); [okk|exact H|discriminate])
             end
         | H : cur_is ?q EOF = false |- _ =>
             lazymatch goal with
             | _ : 2 <= len q |- _ => fail
             | _ => let F := fresh "Hc2" in
                    assert (F: 2 <= len q) by (apply (len2_cur_not_eof q); [okk|exact H])
             end
         | H : peek_is ?q EOF = false |- _ =>
             lazymatch goal with
             | _ : 2 <= len q |- _ => fail
             | _ => let F := fresh "Hc2" in
                    assert (F: 2 <= len q) by (apply (len2_peek_not_eof q); [okk|exact H])
             end
         end.

Ltac arith := bools; unfold need in *; autorewrite with plen in *; cond_facts; autorewrite with plen in *; next_facts;
              unfold A in *; autorewrite with plen in *; lia.

Ltac side := first [ solve [okk] | arith ].

Ltac use ih := first
  [ eapply Tot_bind; [apply ih; side | arith | intros ? ? ? ?; cbv beta]
  | eapply Tot_sub; [apply ih; side | arith] ].

Ltac step I :=
  cbv beta zeta;
  lazymatch goal with
  | |- Tot (ret _ _) _ => apply Tot_ret; [solve [okk] | arith]
  | |- Tot (bind (ret _ _) _) _ => rewrite bind_ret; cbv beta
  | |- Tot (bind (bind _ _) _) _ => rewrite bind_assoc
  | |- Tot (if ?c then _ else _) _ => destruct c eqn:?
  | |- Tot (bind (if ?c then _ else _) _) _ => destruct c eqn:?
  | |- Tot (let '(_, _) := expect_peek ?q ?k in _) _ =>
      let E := fresh "Hep" in
      destruct (peek_is q k) eqn:E;
      [rewrite (expect_peek_true q k E) | rewrite (expect_peek_false q k E)]; cbv beta iota; cbn [negb]
  | |- Tot (bind (let '(_, _) := expect_peek ?q ?k in _) _) _ =>
      let E := fresh "Hep" in
      destruct (peek_is q k) eqn:E;
      [rewrite (expect_peek_true q k E) | rewrite (expect_peek_false q k E)]; cbv beta iota; cbn [negb]
  | |- Tot (bind (parse_statement _ _) _) _ => use (ih_statement _ I)
  | |- Tot (parse_statement _ _) _ => use (ih_statement _ I)
  | |- Tot (bind (parse_return _ _ _) _) _ => use (ih_return _ I)
  | |- Tot (bind (parse_let _ _) _) _ => use (ih_let _ I)
  | |- Tot (bind (parse_expression _ _ _) _) _ => use (ih_expression _ I)
  | |- Tot (parse_expression _ _ _) _ => use (ih_expression _ I)
  | |- Tot (bind (pratt_loop _ _ _ _) _) _ => use (ih_pratt _ I)
  | |- Tot (pratt_loop _ _ _ _) _ => use (ih_pratt _ I)
  | |- Tot (bind (parse_identifier _ _) _) _ => use (ih_identifier _ I)
  | |- Tot (bind (parse_comment _ _) _) _ => use (ih_comment _ I)
  | |- Tot (parse_comment _ _) _ => use (ih_comment _ I)
  | |- Tot (bind (parse_if _ _) _) _ => use (ih_if _ I)
  | |- Tot (parse_else _ _ _ _ _ _) _ => use (ih_else _ I)
  | |- Tot (bind (parse_block _ _ _) _) _ => use (ih_block _ I)
  | |- Tot (parse_block _ _ _) _ => use (ih_block _ I)
  | |- Tot (bind (parse_for _ _) _) _ => use (ih_for _ I)
  | |- Tot (bind (parse_for_header _ _ _ _) _) _ => use (ih_for_header _ I)
  | |- Tot (parse_for_header _ _ _ _) _ => use (ih_for_header _ I)
  | |- Tot (bind (parse_fn _ _) _) _ => use (ih_fn _ I)
  | |- Tot (bind (parse_params _ _ _) _) _ => use (ih_params _ I)
  | |- Tot (parse_params _ _ _) _ => use (ih_params _ I)
  | |- Tot (bind (parse_expr_list _ _ _) _) _ => use (ih_expr_list _ I)
  | |- Tot (parse_expr_list_more _ _ _ _) _ => use (ih_expr_list_more _ I)
  | |- Tot (bind (parse_hash _ _ _) _) _ => use (ih_hash _ I)
  | |- Tot (parse_hash _ _ _) _ => use (ih_hash _ I)
  | |- Tot (bind (parse_call _ _ _) _) _ => use (ih_call _ I)
  | |- Tot (bind (parse_index _ _ _) _) _ => use (ih_index _ I)
  | |- Tot (bind (match ?x with _ => _ end) _) _ => destruct x eqn:?
  | |- Tot (match ?x with _ => _ end) _ => destruct x eqn:?
  end.

Ltac run I := repeat (step I).

Lemma IH_0 : IH 0.
Proof.
  constructor; intros; exfalso;
    match goal with H : ok ?p |- _ => pose proof (ok_len p H) end; unfold need, A in *; lia.
Qed.

Section Step.
Variable f : nat.
Variable I : IH f.

Lemma st_statement p : ok p -> need 14 p (S f) -> Tot (parse_statement (S f) p) p.
Proof. intros Hok Hn. rewrite parse_statement_S. run I. Qed.
Lemma st_return b p : ok p -> need 12 p (S f) -> Tot (parse_return (S f) b p) p.
Proof. intros Hok Hn. rewrite parse_return_S. run I. Qed.
Lemma st_let p : ok p -> need 12 p (S f) -> Tot (parse_let (S f) p) p.
Proof. intros Hok Hn. rewrite parse_let_S. run I. Qed.
Lemma st_identifier p : ok p -> need 5 p (S f) -> Tot (parse_identifier (S f) p) p.
Proof. intros Hok Hn. rewrite parse_identifier_S. run I. Qed.
Lemma st_comment p : ok p -> need 5 p (S f) -> Tot (parse_comment (S f) p) p.
Proof. intros Hok Hn. rewrite parse_comment_S. run I. Qed.
Lemma st_if p : ok p -> need 5 p (S f) -> Tot (parse_if (S f) p) p.
Proof. intros Hok Hn. rewrite parse_if_S. run I. Qed.
Lemma st_else c b elifs els p : ok p -> need 5 p (S f) -> Tot (parse_else (S f) c b elifs els p) p.
Proof. intros Hok Hn. rewrite parse_else_S. run I. Qed.
Lemma st_block acc p : ok p -> need 16 p (S f) -> Tot (parse_block (S f) acc p) p.
Proof. intros Hok Hn. rewrite parse_block_S. run I. Qed.
Lemma st_for p : ok p -> need 6 p (S f) -> Tot (parse_for (S f) p) p.
Proof. intros Hok Hn. rewrite parse_for_S. run I. Qed.
Lemma st_for_header ln names p : ok p -> need 5 p (S f) -> Tot (parse_for_header (S f) ln names p) p.
Proof. intros Hok Hn. rewrite parse_for_header_S. run I. Qed.
Lemma st_fn p : ok p -> need 5 p (S f) -> Tot (parse_fn (S f) p) p.
Proof. intros Hok Hn. rewrite parse_fn_S. run I. Qed.
Lemma st_params acc p : ok p -> need 5 p (S f) -> Tot (parse_params (S f) acc p) p.
Proof. intros Hok Hn. rewrite parse_params_S. run I. Qed.
Lemma st_expr_list endk p : ok p -> 2 <= len p -> need 7 p (S f) -> Tot (parse_expr_list (S f) endk p) p.
Proof. intros Hok H2 Hn. rewrite parse_expr_list_S. run I. Qed.
Lemma st_expr_list_more endk acc p : ok p -> need 7 p (S f) -> Tot (parse_expr_list_more (S f) endk acc p) p.
Proof. intros Hok Hn. rewrite parse_expr_list_more_S. run I. Qed.
Lemma st_hash acc p : ok p -> 2 <= len p -> need 7 p (S f) -> Tot (parse_hash (S f) acc p) p.
Proof. intros Hok H2 Hn. rewrite parse_hash_S. run I. Qed.
Lemma st_call fn p : ok p -> 2 <= len p -> need 8 p (S f) -> Tot (parse_call (S f) fn p) p.
Proof. intros Hok H2 Hn. rewrite parse_call_S. run I. Qed.
Lemma st_index left p : ok p -> 2 <= len p -> need 8 p (S f) -> Tot (parse_index (S f) left p) p.
Proof. intros Hok H2 Hn. rewrite parse_index_S. run I. Qed.
Lemma st_pratt prec left p : ok p -> need 9 p (S f) -> Tot (pratt_loop (S f) prec left p) p.
Proof. intros Hok Hn. rewrite pratt_loop_S. run I. Qed.
Lemma st_expression prec p : ok p -> need 10 p (S f) -> Tot (parse_expression (S f) prec p) p.
Proof. intros Hok Hn. rewrite parse_expression_S. run I. Qed.

Lemma IH_step : IH (S f).
Proof.
  constructor; [exact st_statement|exact st_return|exact st_let|exact st_expression|exact st_pratt
               |exact st_identifier|exact st_comment|exact st_if|exact st_else|exact st_block
               |exact st_for|exact st_for_header|exact st_fn|exact st_params|exact st_expr_list
               |exact st_expr_list_more|exact st_hash|exact st_call|exact st_index].
Qed.
End Step.

Theorem IH_all : forall f, IH f.
Proof. induction f as [|f IHf]; [exact IH_0|apply IH_step; exact IHf]. Qed.

(* ---------- parseProgram ---------- *)
Lemma parse_program_total : forall f acc p, ok p -> need 20 p f -> Tot (parse_program f acc p) p.
Proof.
  induction f as [|f IHf]; intros acc p Hok Hn.
  - exfalso. pose proof (ok_len p Hok). unfold need, A in *. lia.
  - pose proof (IH_all f) as I. cbn [parse_program].
    destruct (cur_is p EOF) eqn:Ee; [apply Tot_ret; [exact Hok|lia]|].
    eapply Tot_bind; [apply (ih_statement _ I); [exact Hok|arith]|lia|].
    intros r q' Hq Hl. cbv beta.
    assert (Hnext: Tot (parse_program f acc (next q')) p /\ forall a, Tot (parse_program f a (next q')) p).
    { split; [|intros a]; (eapply Tot_sub; [apply IHf; [okk|arith]|arith]). }
    destruct Hnext as [_ Hnext].
    repeat match goal with
           | |- Tot (match ?x with _ => _ end) _ => destruct x
           | |- Tot (if ?c then _ else _) _ => destruct c
           end; apply Hnext.
Qed.

Definition tokens_ok (ts : list token) : Prop := ts <> [] /\ tk (last ts eof0) = EOF.

(* ---------- C03, parser half ---------- *)
Theorem parse_tokens_total ts : tokens_ok ts -> parse_tokens ts <> ParseFuel.
Proof.
  intros Hts. unfold parse_tokens.
  assert (Hok: ok (mkpst ts [] false)) by exact Hts.
  destruct (parse_program_total (parse_fuel ts) [] (mkpst ts [] false) Hok) as [r [q [E _]]].
  - unfold need, parse_fuel, A, len. cbn [toks]. lia.
  - rewrite E. destruct (errs q); discriminate.
Qed.

(* the lexer's token lists always end in EOF *)
Lemma lex_all_ends_eof : forall fuel l ts, lex_all fuel l = Some ts -> tokens_ok ts.
Proof.
  induction fuel as [|f IH]; intros l ts H; [discriminate|].
  cbn [lex_all] in H. destruct (next_token (S f) l) as [t l'].
  assert (Hrec: forall ts0, match lex_all f l' with Some ts1 => Some (t :: ts1) | None => None end = Some ts0 -> tokens_ok ts0).
  { intros ts0 H0. destruct (lex_all f l') as [ts1|] eqn:E; [|discriminate]. inversion H0; subst.
    destruct (IH l' ts1 E) as [Hne Hl]. split; [discriminate|].
    destruct ts1 as [|a r]; [contradiction|]. exact Hl. }
  destruct (tk t) eqn:Ek; try (apply Hrec; exact H).
  destruct (at_end l' || negb (linside l)); [|apply Hrec; exact H].
  inversion H; subst. split; [discriminate|exact Ek].
Qed.
