(* CtxProofs.v - the store model of plush.Context refines the history spec
   (C10), plus isolation and "user value wins" lemmas. *)
From Coq Require Import Lia.
From Plush Require Import model.Bytes model.Ctx spec.RefCtx proofs.BytesProofs.

Local Open Scope nat_scope.
Section P.
Variable V : Type.
Variable vnil : V.
Variable isnil : V -> bool.
Variable helpers : list (key * V).

Notation store := (store V).
Notation value := (value V vnil).
Notation has := (has V vnil isnil).
Notation set := (set V).
Notation alookup := (alookup V).
Notation aset := (aset V).
Notation ev := (@ev V).
Notation sval := (sval V vnil).
Notation shas := (shas V vnil isnil).
Notation nctx := (nctx V).
Notation created := (created V).
Notation last_set := (last_set V).

Fixpoint getctx (s : store) (c : nat) : option (ctx V) :=
  match s with
  | [] => None
  | cx :: rest => if Nat.eqb c (length rest) then Some cx else getctx rest c
  end.

Lemma getctx_lt s c cx : getctx s c = Some cx -> c < length s.
Proof.
  induction s as [|x r IH]; simpl; [discriminate|].
  destruct (Nat.eqb_spec c (length r)); intros H; [lia|]. apply IH in H. lia.
Qed.

Lemma getctx_some s c : c < length s -> exists cx, getctx s c = Some cx.
Proof.
  induction s as [|x r IH]; simpl; [lia|]. intros H.
  destruct (Nat.eqb_spec c (length r)); [eauto|]. apply IH. lia.
Qed.

Lemma value_oob s c k : length s <= c -> value s c k = vnil.
Proof.
  induction s as [|x r IH]; simpl; [reflexivity|]. intros H.
  destruct (Nat.eqb_spec c (length r)); [lia|]. apply IH. lia.
Qed.

Lemma value_unfold s c k :
  value s c k =
  match getctx s c with
  | None => vnil
  | Some cx =>
      match alookup k (cdata cx) with
      | Some v => v
      | None =>
          match couter cx with
          | Some o => if Nat.ltb o c then value s o k else vnil
          | None => match alookup k (cbase cx) with Some v => v | None => vnil end
          end
      end
  end.
Proof.
  induction s as [|x r IH]; simpl; [reflexivity|].
  destruct (Nat.eqb_spec c (length r)) as [E|NE].
  - destruct (alookup k (cdata x)); [reflexivity|].
    destruct (couter x) as [o|]; [|reflexivity].
    destruct (Nat.ltb_spec o c).
    + destruct (Nat.eqb_spec o (length r)); [lia|reflexivity].
    + apply value_oob. lia.
  - rewrite IH. destruct (getctx r c) as [cx|] eqn:G; [|reflexivity].
    apply getctx_lt in G.
    destruct (alookup k (cdata cx)); [reflexivity|].
    destruct (couter cx) as [o|]; [|reflexivity].
    destruct (Nat.ltb_spec o c); [|reflexivity].
    destruct (Nat.eqb_spec o (length r)); [lia|reflexivity].
Qed.

Lemma alookup_aset k v k' d :
  alookup k' (aset k v d) = if beq k' k then Some v else alookup k' d.
Proof.
  induction d as [|[k0 v0] r IH]; simpl.
  - destruct (beq k' k); reflexivity.
  - destruct (beq k k0) eqn:E; simpl.
    + apply beq_true in E. subst k0. destruct (beq k' k); reflexivity.
    + rewrite IH. destruct (beq k' k0) eqn:E2; [|reflexivity].
      apply beq_true in E2. subst k0.
      destruct (beq k' k) eqn:E3; [|reflexivity].
      apply beq_true in E3. subst k'. rewrite beq_refl in E. discriminate.
Qed.

Lemma set_length s c k v : length (set s c k v) = length s.
Proof.
  induction s as [|x r IH]; simpl; [reflexivity|].
  destruct (Nat.eqb c (length r)); simpl; congruence.
Qed.

Lemma getctx_set s c k v c' :
  getctx (set s c k v) c' =
  match getctx s c' with
  | None => None
  | Some cx => if Nat.eqb c' c
               then Some (mkctx (aset k v (cdata cx)) (couter cx) (cbase cx))
               else Some cx
  end.
Proof.
  induction s as [|x r IH]; simpl; [reflexivity|].
  destruct (Nat.eqb_spec c (length r)) as [E|NE]; simpl.
  - destruct (Nat.eqb_spec c' (length r)) as [E'|NE'].
    + subst. rewrite Nat.eqb_refl. reflexivity.
    + destruct (getctx r c') as [cx|] eqn:G; [|reflexivity].
      apply getctx_lt in G. destruct (Nat.eqb_spec c' c); [lia|reflexivity].
  - rewrite set_length. destruct (Nat.eqb_spec c' (length r)) as [E'|NE'].
    + destruct (Nat.eqb_spec c' c); [lia|reflexivity].
    + apply IH.
Qed.

(* ---------- the abstraction relation ---------- *)

Definition Rel (s : store) (log : list ev) : Prop :=
  length s = nctx log /\
  forall c cx, getctx s c = Some cx ->
    created log c = Some (couter cx, cbase cx) /\
    (forall k, alookup k (cdata cx) = last_set log c k).

Lemma created_lt (log : list ev) c x : created log c = Some x -> c < nctx log.
Proof.
  induction log as [|e r IH]; simpl; [discriminate|].
  destruct e as [o b|c' k v]; simpl.
  - destruct (Nat.eqb_spec c (nctx r)); intros H; [lia|]. apply IH in H. lia.
  - apply IH.
Qed.

Lemma spec_value_fuel (log : list ev) f1 : forall f2 o k, o < f1 -> o < f2 ->
  spec_value V vnil f1 log o k = spec_value V vnil f2 log o k.
Proof.
  induction f1 as [|f IH]; intros f2 o k H1 H2; [lia|].
  destruct f2 as [|f2]; [lia|]. cbn [spec_value].
  destruct (created log o) as [[o1 b]|]; [|reflexivity].
  destruct (last_set log o k); [reflexivity|].
  destruct o1 as [o1|]; [|reflexivity].
  destruct (Nat.ltb_spec o1 o) as [Hlt|]; [|reflexivity].
  apply IH; lia.
Qed.

Lemma rel_value s log : Rel s log -> forall c k, value s c k = sval log c k.
Proof.
  intros [HL HR] c. unfold sval.
  induction c as [c IH] using lt_wf_ind. intros k.
  rewrite value_unfold. cbn [spec_value].
  destruct (getctx s c) as [cx|] eqn:G.
  - destruct (HR _ _ G) as [HC HS]. rewrite HC, <- HS.
    destruct (alookup k (cdata cx)); [reflexivity|].
    destruct (couter cx) as [o|]; [|reflexivity].
    destruct (Nat.ltb_spec o c) as [Hlt|]; [|reflexivity].
    rewrite (IH o Hlt k). apply spec_value_fuel; lia.
  - destruct (created log c) as [x|] eqn:C; [|reflexivity].
    apply created_lt in C. rewrite <- HL in C.
    destruct (getctx_some s c C) as [cx G']. congruence.
Qed.

Lemma rel_has s log : Rel s log -> forall c k, has s c k = shas log c k.
Proof. intros R c k. unfold has, shas. rewrite (rel_value _ _ R). reflexivity. Qed.

Lemma rel_set s log c k v : Rel s log -> Rel (set s c k v) (EvSet c k v :: log).
Proof.
  intros [HL HR]. split; [rewrite set_length; exact HL|].
  intros c' cx'. rewrite getctx_set.
  destruct (getctx s c') as [cx|] eqn:G; [|discriminate].
  destruct (HR _ _ G) as [HC HS]. simpl.
  destruct (Nat.eqb_spec c' c) as [E|NE]; intros H; inversion H; subst; clear H; simpl.
  - split; [exact HC|]. intros k'. rewrite alookup_aset, HS. reflexivity.
  - split; [exact HC|]. intros k'. exact (HS k').
Qed.

Lemma rel_push s log o b :
  Rel s log ->
  Rel (mkctx [] o b :: s) (EvCreate o b :: log).
Proof.
  intros [HL HR]. split; [simpl; congruence|].
  intros c cx. simpl. rewrite <- HL.
  destruct (Nat.eqb_spec c (length s)) as [E|NE].
  - intros H; inversion H; subst; clear H. simpl. split; reflexivity.
  - intros G. exact (HR _ _ G).
Qed.

Lemma rel_fold_cond s log c (cond_m : store -> key -> bool) (cond_s : list ev -> key -> bool) hs :
  (forall s log k, Rel s log -> cond_m s k = cond_s log k) ->
  Rel s log ->
  Rel (fold_left (fun s kv => if cond_m s (fst kv) then s else set s c (fst kv) (snd kv)) hs s)
      (fold_left (fun l kv => if cond_s l (fst kv) then l else EvSet c (fst kv) (snd kv) :: l) hs log).
Proof.
  intros HC. revert s log. induction hs as [|[k v] r IH]; intros s log R; simpl; [exact R|].
  rewrite (HC _ _ k R). destruct (cond_s log k); apply IH; [exact R|apply rel_set; exact R].
Qed.

Lemma rel_initial_data s log c d :
  Rel s log ->
  forall cx rest, s = cx :: rest -> c = length rest ->
  Rel (mkctx (fold_left (fun l kv => aset (fst kv) (snd kv) l) d (cdata cx)) (couter cx) (cbase cx) :: rest)
      (fold_left (fun l kv => EvSet c (fst kv) (snd kv) :: l) d log).
Proof.
  revert s log. induction d as [|[k v] r IH]; intros s log R cx rest -> ->; simpl.
  - destruct cx; exact R.
  - pose proof (rel_set _ _ (length rest) k v R) as R'. simpl in R'.
    rewrite Nat.eqb_refl in R'.
    exact (IH _ _ R' _ _ eq_refl eq_refl).
Qed.

(* assoc list built by successive aset of (rev d) looks up like d itself *)
Lemma alookup_fold_rev d k :
  alookup k (fold_left (fun l kv => aset (fst kv) (snd kv) l) (rev d) []) = alookup k d.
Proof.
  induction d as [|[k0 v0] r IH]; simpl; [reflexivity|].
  rewrite fold_left_app. simpl. rewrite alookup_aset, IH. reflexivity.
Qed.

Lemma rel_same_lookup s log cx cx' rest :
  s = cx :: rest ->
  couter cx = couter cx' -> cbase cx = cbase cx' ->
  (forall k, alookup k (cdata cx) = alookup k (cdata cx')) ->
  Rel s log -> Rel (cx' :: rest) log.
Proof.
  intros -> Ho Hb Hd [HL HR]. split; [exact HL|].
  intros c cy. simpl. destruct (Nat.eqb_spec c (length rest)) as [E|NE].
  - intros H; inversion H; subst cy; clear H.
    destruct (HR (length rest) cx) as [HC HS]; [simpl; rewrite Nat.eqb_refl; reflexivity|].
    subst c. rewrite <- Ho, <- Hb. split; [exact HC|]. intros k. rewrite <- Hd. apply HS.
  - intros G. apply HR. simpl. destruct (Nat.eqb_spec c (length rest)); [lia|exact G].
Qed.

Lemma step_refines s log o :
  Rel s log ->
  let '(s', x) := step V vnil isnil helpers s o in
  let '(l', y) := spec_step V vnil isnil helpers log o in
  x = y /\ Rel s' l'.
Proof.
  intros R. destruct o as [d b|p|c k v|c k|c k].
  - (* NewRoot *)
    destruct R as [HL HR]. unfold step, new_root, spec_step. rewrite <- HL.
    split; [reflexivity|].
    unfold inject_root.
    apply (rel_fold_cond _ _ (length s)
             (fun s0 k => has s0 (length s) k)
             (fun l0 k => shas l0 (length s) k)).
    { intros s0 l0 k0 R0. apply rel_has. exact R0. }
    pose proof (rel_push s log None b (conj HL HR)) as R1.
    pose proof (rel_initial_data _ _ (length s) (rev d) R1 _ _ eq_refl eq_refl) as R2.
    simpl in R2.
    eapply rel_same_lookup; [reflexivity| | | |exact R2]; simpl; try reflexivity.
    intros k. apply alookup_fold_rev.
  - (* New *)
    destruct R as [HL HR]. unfold step, new_child, spec_step. rewrite <- HL.
    destruct (Nat.ltb p (length s)); [|split; [reflexivity|split; assumption]].
    split; [reflexivity|].
    unfold inject_child.
    apply (rel_fold_cond _ _ (length s)
             (fun s0 k => has s0 (length s) k || has s0 p k)
             (fun l0 k => shas l0 (length s) k || shas l0 p k)).
    { intros s0 l0 k0 R0. rewrite !(rel_has _ _ R0). reflexivity. }
    apply rel_push. split; assumption.
  - (* Set *)
    simpl. split; [reflexivity|]. apply rel_set. exact R.
  - (* Value *)
    simpl. split; [|exact R]. f_equal. apply rel_value. exact R.
  - (* Has *)
    simpl. split; [|exact R]. f_equal. apply rel_has. exact R.
Qed.

Lemma rel_init : Rel [] [].
Proof. split; [reflexivity|]. intros c cx; simpl; discriminate. Qed.

Theorem run_refines_from s log ops :
  Rel s log ->
  run V vnil isnil helpers s ops = spec_run V vnil isnil helpers log ops.
Proof.
  revert s log. induction ops as [|o r IH]; intros s log R; simpl; [reflexivity|].
  pose proof (step_refines s log o R) as H.
  destruct (step V vnil isnil helpers s o) as [s' x].
  destruct (spec_step V vnil isnil helpers log o) as [l' y].
  destruct H as [-> R']. f_equal. apply IH. exact R'.
Qed.

(* C10 headline: for every history, the store model answers every Value and
   Has exactly as the history spec does. *)
Theorem ctx_refines_spec ops :
  run V vnil isnil helpers [] ops = spec_run V vnil isnil helpers [] ops.
Proof. apply run_refines_from. exact rel_init. Qed.

(* ---------- Has <-> non-nil (by definition, as in the code) ---------- *)
Lemma has_iff_nonnil s c k : has s c k = true <-> isnil (value s c k) = false.
Proof. unfold has. destruct (isnil (value s c k)); simpl; split; congruence. Qed.

(* ---------- isolation: a Set on c is invisible outside c's subtree ---------- *)

(* c is c' or an ancestor of c' *)
Fixpoint on_path (fuel : nat) (s : store) (c c' : nat) : bool :=
  match fuel with
  | O => false
  | S f =>
      Nat.eqb c c' ||
      match getctx s c' with
      | Some cx => match couter cx with
                   | Some o => Nat.ltb o c' && on_path f s c o
                   | None => false
                   end
      | None => false
      end
  end.

Lemma set_isolated s c k v c' k' :
  on_path (S c') s c c' = false ->
  value (set s c k v) c' k' = value s c' k'.
Proof.
  induction c' as [c' IH] using lt_wf_ind. intros Hp.
  rewrite (value_unfold (set s c k v)), (value_unfold s), getctx_set.
  cbn [on_path] in Hp. apply orb_false_elim in Hp. destruct Hp as [Hne Hp].
  destruct (getctx s c') as [cx|] eqn:G; [|reflexivity].
  rewrite Nat.eqb_sym, Hne. 
  destruct (alookup k' (cdata cx)); [reflexivity|].
  destruct (couter cx) as [o|]; [|reflexivity].
  destruct (Nat.ltb_spec o c') as [Hlt|]; [|reflexivity].
  simpl in Hp. apply IH; [exact Hlt|].
  (* fuel monotonicity of on_path *)
  clear - Hp Hlt.
  assert (Hm: forall f f' a, on_path f s c a = false -> f' <= f -> on_path f' s c a = false).
  { induction f as [|f IHf]; intros f' a H Hle.
    - assert (f' = 0)%nat by lia. subst. reflexivity.
    - destruct f' as [|f']; [reflexivity|]. cbn [on_path] in *.
      apply orb_false_elim in H. destruct H as [H1 H2]. rewrite H1. simpl.
      destruct (getctx s a) as [cy|]; [|reflexivity].
      destruct (couter cy) as [o'|]; [|reflexivity].
      destruct (Nat.ltb o' a); [|reflexivity]. simpl in *.
      apply (IHf f'); [exact H2|lia]. }
  apply (Hm c'); [exact Hp|lia].
Qed.

(* a Set is visible on the context itself *)
Lemma set_visible s c k v : c < length s -> value (set s c k v) c k = v.
Proof.
  intros H. rewrite value_unfold, getctx_set.
  destruct (getctx_some s c H) as [cx ->]. rewrite Nat.eqb_refl. simpl.
  rewrite alookup_aset, beq_refl. reflexivity.
Qed.

(* other keys of the same context are untouched *)
Lemma set_other_key s c k v k' : beq k' k = false -> on_path c s c c = false \/ True ->
  forall cx, getctx s c = Some cx ->
  alookup k' (cdata cx) = None -> couter cx = None ->
  value (set s c k v) c k' = value s c k'.
Proof.
  intros Hk _ cx G Hl Ho.
  rewrite (value_unfold (set s c k v)), (value_unfold s), getctx_set, G, Nat.eqb_refl. simpl.
  rewrite alookup_aset, Hk, Hl, Ho. reflexivity.
Qed.

(* ---------- a user value under a helper name wins ---------- *)

Lemma value_set_same_ctx_other_key s c k v k' :
  beq k' k = false -> value (set s c k v) c k' = value s c k'.
Proof.
  intros Hk. rewrite (value_unfold (set s c k v)), (value_unfold s), getctx_set.
  destruct (getctx s c) as [cx|] eqn:G; [|reflexivity].
  rewrite Nat.eqb_refl. simpl. rewrite alookup_aset, Hk.
  destruct (alookup k' (cdata cx)); [reflexivity|].
  destruct (couter cx) as [o|]; [|reflexivity].
  destruct (Nat.ltb_spec o c) as [Hlt|]; [|reflexivity].
  apply set_isolated. cbn [on_path].
  destruct (Nat.eqb_spec c o); [lia|]. simpl.
  destruct (getctx s o) as [cy|]; [|reflexivity].
  destruct (couter cy) as [o'|]; [|reflexivity].
  destruct (Nat.ltb_spec o' o) as [Hlt'|]; [|reflexivity]. simpl.
  (* c cannot be on the path from o (all ids on it are <= o < c) *)
  clear - Hlt Hlt'. revert o' Hlt'.
  induction o as [o IH] using lt_wf_ind. intros o' Hlt'.
  destruct o as [|o1]; [lia|]. cbn [on_path].
  destruct (Nat.eqb_spec c o'); [lia|]. simpl.
  destruct (getctx s o') as [cz|]; [|reflexivity].
  destruct (couter cz) as [o2|]; [|reflexivity].
  destruct (Nat.ltb_spec o2 o') as [H2|]; [|reflexivity]. simpl.
  destruct (Nat.eq_dec o' o1) as [->|NE].
  - apply IH; lia.
  - (* fuel o1 instead of o': weaken *)
    assert (Hm: forall f a, a < c -> on_path f s c a = false).
    { induction f as [|f IHf]; intros a Ha; [reflexivity|]. cbn [on_path].
      destruct (Nat.eqb_spec c a); [lia|]. simpl.
      destruct (getctx s a) as [cw|]; [|reflexivity].
      destruct (couter cw) as [o3|]; [|reflexivity].
      destruct (Nat.ltb_spec o3 a); [|reflexivity]. simpl. apply IHf. lia. }
    apply Hm. lia.
Qed.

Lemma on_path_below s c : forall f a, a < c -> on_path f s c a = false.
Proof.
  induction f as [|f IHf]; intros a Ha; [reflexivity|]. cbn [on_path].
  destruct (Nat.eqb_spec c a); [lia|]. simpl.
  destruct (getctx s a) as [cw|]; [|reflexivity].
  destruct (couter cw) as [o3|]; [|reflexivity].
  destruct (Nat.ltb_spec o3 a); [|reflexivity]. simpl. apply IHf. lia.
Qed.

(* the conditional injection loop never disturbs a key for which the
   condition already holds and keeps holding *)
Lemma inject_keeps (cond : store -> key -> bool) n k u hs : forall s,
  value s n k = u ->
  (forall s', value s' n k = u -> cond s' k = true) ->
  value (fold_left (fun s kv => if cond s (fst kv) then s else set s n (fst kv) (snd kv)) hs s) n k = u.
Proof.
  induction hs as [|[k' v'] r IH]; intros s Hv Hc; simpl; [exact Hv|].
  destruct (cond s k') eqn:C; [apply IH; assumption|].
  apply IH; [|exact Hc].
  destruct (beq_spec k k') as [->|NE].
  - rewrite (Hc s Hv) in C. discriminate.
  - rewrite value_set_same_ctx_other_key; [exact Hv|].
    destruct (beq_spec k k'); [contradiction|reflexivity].
Qed.

(* New(): a non-nil value visible on the parent under any name (in particular
   a built-in helper's name) is what the child sees; the built-in is not
   injected over it. *)
Theorem child_sees_user_value s p k u :
  p < length s -> value s p k = u -> isnil u = false ->
  let '(s', n) := new_child V vnil isnil helpers s p in
  value s' n k = u.
Proof.
  intros Hp Hv Hn. unfold new_child, inject_child.
  set (n := length s).
  assert (Hpush: forall k0, value (mkctx [] (Some p) [] :: s) p k0 = value s p k0).
  { intros k0. simpl. destruct (Nat.eqb_spec p (length s)); [lia|reflexivity]. }
  assert (Hn0: value (mkctx [] (Some p) [] :: s) n k = u).
  { simpl. unfold n. rewrite Nat.eqb_refl. simpl. exact Hv. }
  (* invariant: value at n for k is u, hence has n k = true *)
  apply (inject_keeps (fun s0 k0 => has s0 n k0 || has s0 p k0) n k u); [exact Hn0|].
  intros s' Hs'. unfold has. rewrite Hs', Hn. reflexivity.
Qed.

(* NewContextWith(data): a non-nil entry of data is never overwritten by a
   built-in helper of the same name. *)
Theorem root_keeps_user_value s d b k u :
  alookup k d = Some u -> isnil u = false ->
  let '(s', n) := new_root V vnil isnil helpers s d b in
  value s' n k = u.
Proof.
  intros Hd Hn. unfold new_root, inject_root.
  apply (inject_keeps (fun s0 k0 => has s0 (length s) k0) (length s) k u).
  - simpl. rewrite Nat.eqb_refl. simpl. rewrite Hd. reflexivity.
  - intros s' Hs'. unfold has. rewrite Hs', Hn. reflexivity.
Qed.

End P.
