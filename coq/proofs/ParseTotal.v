(* ParseTotal.v - parser.Parse as a whole: lexer then parser (C03). *)
From Plush Require Import model.Bytes model.Lexer model.Ast model.Parser proofs.LexerProofs proofs.ParserTotal.

(* for every input text the model of Parse returns a program or a list of
   syntax errors: neither the lexer's nor the parser's fuel runs out *)
Theorem parse_total s : parse s <> ParseFuel.
Proof.
  unfold parse. destruct (lex_total s) as [ts Hts]. rewrite Hts.
  apply parse_tokens_total. unfold lex in Hts. exact (lex_all_ends_eof _ _ _ Hts).
Qed.

Theorem parse_total_cases s : (exists prog, parse s = ParseOk prog) \/ (exists ls, parse s = ParseErr ls).
Proof.
  pose proof (parse_total s) as H. destruct (parse s) as [prog|ls|]; [left; eauto|right; eauto|contradiction].
Qed.
