(* QuietProofs.v - C05 as a global invariant of the evaluator model: no silent
   failure.  Every function of the evaluator, for every fuel, from every
   state: if it returns a value (or only fails on an unknown identifier, the
   one fault that is tolerated in places) then no failing helper was invoked
   on the way; otherwise at most ONE failing helper was invoked, it is the
   newest failure of the log, and the error returned carries its sentinel. *)
From Coq Require Import Lia.
From Plush Require Import model.Bytes model.Lexer model.Ast model.Parser model.Ctx model.Text model.Iter model.Value model.Eval.
Local Open Scope N_scope.

(* the arguments of the failing-helper invocations of a log, newest first *)
Definition is_fail_id (id : N) : bool := id =? H_FAIL.
Fixpoint fails (l : list event) : list (list bytes) :=
  match l with
  | [] => []
  | EvCall id args :: r => if is_fail_id id then args :: fails r else fails r
  end.
Definition fa (st : state) : list (list bytes) := fails (slog st).

(* how the failing helper configured with sentinel z is logged *)
Definition fail_args (z : Z) : list bytes := [105 :: dec_of_Z z].

Definition loud (F : list (list bytes)) (e : err) (s : state) : Prop :=
  match e with
  | EUnknown _ => fa s = F
  | EFail o => fa s = F \/ exists z, o = Some (Z.to_N z) /\ fa s = fail_args z :: F
  end.

Definition Q {A} (F : list (list bytes)) (r : res (A * state)) : Prop :=
  match r with
  | ROk (_, s) => fa s = F
  | RErr e s => loud F e s
  | _ => True
  end.
Definition Qo (F : list (list bytes)) (o : outcome) : Prop :=
  match o with
  | OOk _ s => fa s = F
  | OErr _ e s => loud F e s
  | _ => True
  end.

(* ---- the log is untouched by everything but log_ev ---- *)
Lemma fa_with_ctx st s : fa (with_ctx st s) = fa st. Proof. reflexivity. Qed.
Lemma fa_with_heap st h : fa (with_heap st h) = fa st. Proof. reflexivity. Qed.
Lemma fa_with_cur st c : fa (with_cur st c) = fa st. Proof. reflexivity. Qed.
Lemma fa_with_stmt st l : fa (with_stmt st l) = fa st. Proof. reflexivity. Qed.

Section Quiet.
Variable G : genv.

Lemma fa_set_in st c k v : fa (set_in st c k v) = fa st. Proof. reflexivity. Qed.
Lemma fa_set_all kvs : forall st c, fa (set_all st c kvs) = fa st.
Proof.
  unfold set_all. induction kvs as [|kv r IH]; intros st c; simpl; [reflexivity|].
  rewrite IH. reflexivity.
Qed.
Lemma fa_copy_data st a b : fa (copy_data st a b) = fa st.
Proof. unfold copy_data. apply fa_set_all. Qed.
Lemma fa_cnew_of st p st1 n : cnew_of G st p = (st1, n) -> fa st1 = fa st.
Proof. unfold cnew_of. destruct (Ctx.new_child _ _ _ _ _ _) as [s' m]. intros E; inversion E; subst. reflexivity. Qed.
Lemma fa_cnew st st1 n : cnew G st = (st1, n) -> fa st1 = fa st.
Proof. apply fa_cnew_of. Qed.
Lemma fa_halloc st c st1 l : halloc_st st c = (st1, l) -> fa st1 = fa st.
Proof. unfold halloc_st. destruct (halloc _ _) as [h m]. intros E; inversion E; subst. reflexivity. Qed.
Lemma fa_auto_arg st p blk st1 b : auto_arg st p blk = (st1, b) -> fa st1 = fa st.
Proof.
  unfold auto_arg. destruct p; try (intros E; inversion E; subst; reflexivity).
  all: destruct (halloc_st st _) as [s l] eqn:Eh; intros E; inversion E; subst; eapply fa_halloc; eassumption.
Qed.
Lemma fa_log_other st id args : is_fail_id id = false -> fa (log_ev st (EvCall id args)) = fa st.
Proof. intros H. unfold fa, log_ev. cbn [slog fails]. rewrite H. reflexivity. Qed.
Lemma fa_log_fail st id args : is_fail_id id = true -> fa (log_ev st (EvCall id args)) = args :: fa st.
Proof. intros H. unfold fa, log_ev. cbn [slog fails]. rewrite H. reflexivity. Qed.

Lemma vshow_int h z : vshow h (VInt z) = 105 :: dec_of_Z z.
Proof. unfold vshow. rewrite Nat.add_comm. reflexivity. Qed.

(* ---- combinators ---- *)
Lemma Q_rbind {A B} F (m : res (A * state)) (k : A * state -> res (B * state)) :
  Q F m -> (forall a s, fa s = F -> Q F (k (a, s))) -> Q F (rbind m k).
Proof. destruct m as [[a s]|e s| | |]; simpl; auto. Qed.
Lemma Q_rfinal F g r : (forall s, fa (g s) = fa s) -> Q F r -> Q F (rfinal g r).
Proof.
  intros Hg. destruct r as [[v s]|e s| | |]; simpl; auto.
  - rewrite Hg. auto.
  - destruct e; simpl; rewrite Hg; auto.
Qed.
Lemma Q_tolerate F b o r : Q F r -> Q F (tolerate b o r).
Proof.
  destruct r as [[v s]|e s| | |]; simpl; auto.
  destruct e; simpl; destruct b; simpl; auto.
Qed.
Lemma Q_of_opres F o st : fa st = F -> Q F (of_opres o st).
Proof. intros H. destruct o; simpl; auto. Qed.
Lemma Q_fail {A} F st : fa st = F -> Q F (@fail (A * state) st).
Proof. intros H. simpl. auto. Qed.
Lemma Q_ok {A} F (a : A) st : fa st = F -> Q F (ROk (a, st)).
Proof. auto. Qed.
Lemma Q_unknown {A} F n st : fa st = F -> @Q A F (RErr (EUnknown n) st).
Proof. auto. Qed.
Lemma Q_failnone {A} F st : fa st = F -> @Q A F (RErr (EFail None) st).
Proof. simpl; auto. Qed.
Lemma Q_eq {A} F F' (r : res (A * state)) : Q F' r -> F' = F -> Q F r.
Proof. intros H E. subst. exact H. Qed.
Lemma Qo_eq F F' o : Qo F' o -> F' = F -> Qo F o.
Proof. intros H E. subst. exact H. Qed.
(* an error handed on, possibly with a restored state *)
Lemma Q_err_move {B} F e s s' : loud F e s -> fa s' = fa s -> @Q B F (RErr e s').
Proof. simpl. unfold loud. intros H E. destruct e; rewrite E; exact H. Qed.
Lemma Qo_err_move F e s s' l : loud F e s -> fa s' = fa s -> Qo F (OErr l e s').
Proof. simpl. unfold loud. intros H E. destruct e; rewrite E; exact H. Qed.
Lemma Q_of_Qo_err {A} F e s s' :
  loud F e s -> fa s' = fa s ->
  @Q A F (RErr (match e with EFail x => EFail x | EUnknown _ => EFail None end) s').
Proof. simpl. unfold loud. intros H E. destruct e; rewrite E; auto. Qed.

(* the one place where a failure enters: the failing helper logs its call and
   returns its sentinel *)
Lemma Q_fail_event {A} st id h z :
  (id =? H_FAIL) = true ->
  @Q A (fa st) (RErr (EFail (Some (Z.to_N z))) (log_ev st (EvCall id [vshow h (VInt z)]))).
Proof.
  intros E. simpl. right. exists z. split; [reflexivity|].
  rewrite fa_log_fail by exact E. rewrite vshow_int. reflexivity.
Qed.

Record QQ (ev : evals) : Prop := mkQQ {
  q_eval : forall st e, Q (fa st) (r_eval ev st e);
  q_eval_chain : forall st c, Q (fa st) (r_eval_chain ev st c);
  q_eval_list : forall st es, Q (fa st) (r_eval_list ev st es);
  q_eval_pairs : forall st ps acc, Q (fa st) (r_eval_pairs ev st ps acc);
  q_eval_infix : forall st op l r, Q (fa st) (r_eval_infix ev st op l r);
  q_eval_if : forall st bs els, Q (fa st) (r_eval_if ev st bs els);
  q_eval_block : forall st b, Q (fa st) (r_eval_block ev st b);
  q_eval_stmts : forall st ss acc, Q (fa st) (r_eval_stmts ev st ss acc);
  q_eval_stmt : forall st s, Q (fa st) (r_eval_stmt ev st s);
  q_eval_for : forall st k v it b, Q (fa st) (r_eval_for ev st k v it b);
  q_for_body : forall st k v b kv vv, Q (fa st) (r_for_body ev st k v b kv vv);
  q_for_items : forall st k v b items acc, Q (fa st) (r_for_items ev st k v b items acc);
  q_for_slice : forall st k v b loc i acc, Q (fa st) (r_for_slice ev st k v b loc i acc);
  q_for_iter : forall st k v b loc i acc, Q (fa st) (r_for_iter ev st k v b loc i acc);
  q_eval_index : forall st l i v c, Q (fa st) (r_eval_index ev st l i v c);
  q_index_callee : forall st x ls c, Q (fa st) (r_index_callee ev st x ls c);
  q_eval_call : forall st fn callee args blk chain, Q (fa st) (r_eval_call ev st fn callee args blk chain);
  q_user_call : forall st ps body args, Q (fa st) (r_user_call ev st ps body args);
  q_bind_params : forall st ps args, Q (fa st) (r_bind_params ev st ps args);
  q_bind_args : forall st sg args blk, Q (fa st) (r_bind_args ev st sg args blk);
  q_bind_fixed : forall st ps args, Q (fa st) (r_bind_fixed ev st ps args);
  q_bind_variadic : forall st p args, Q (fa st) (r_bind_variadic ev st p args);
  q_block_with : forall st blk ctx, Q (fa st) (r_block_with ev st blk ctx);
  q_block_in_child : forall st blk parent data, Q (fa st) (r_block_in_child ev st blk parent data);
  q_go_apply : forall st id cfg recv bs, Q (fa st) (r_go_apply ev st id cfg recv bs);
  q_partial_call : forall st name data ctx, Q (fa st) (r_partial_call ev st name data ctx);
  q_exec_prog : forall st prog out, Qo (fa st) (r_exec_prog ev st prog out)
}.

Lemma QQ_bottom : QQ evals_bottom.
Proof. constructor; intros; exact I. Qed.

(* ---- side conditions: fa of a derived state ---- *)
Ltac fa_norm :=
  repeat first
    [ rewrite fa_with_ctx | rewrite fa_with_heap | rewrite fa_with_cur | rewrite fa_with_stmt
    | rewrite fa_set_in | rewrite fa_set_all | rewrite fa_copy_data
    | rewrite fa_log_other by assumption ].
Ltac fa_solve := fa_norm; first [assumption | reflexivity | congruence].

(* facts about states obtained by destructuring a pair *)
Ltac harvest :=
  repeat match goal with
  | H : cnew G _ = (_, _) |- _ => apply fa_cnew in H
  | H : cnew_of G _ _ = (_, _) |- _ => apply fa_cnew_of in H
  | H : halloc_st _ _ = (_, _) |- _ => apply fa_halloc in H
  | H : auto_arg _ _ _ = (_, _) |- _ => apply fa_auto_arg in H
  end.

(* an equation defining a (state, x) pair by cases *)
Ltac digest E :=
  repeat match type of E with
         | match ?y with _ => _ end = _ => destruct y eqn:?
         | (let '(_, _) := ?y in _) = _ => destruct y eqn:?
         end;
  harvest; inversion E; subst; clear E.

Ltac q_ih H :=
  match goal with
  | |- Q _ (r_eval _ _ _) => eapply Q_eq; [apply (q_eval _ H)|fa_solve]
  | |- Q _ (r_eval_chain _ _ _) => eapply Q_eq; [apply (q_eval_chain _ H)|fa_solve]
  | |- Q _ (r_eval_list _ _ _) => eapply Q_eq; [apply (q_eval_list _ H)|fa_solve]
  | |- Q _ (r_eval_pairs _ _ _ _) => eapply Q_eq; [apply (q_eval_pairs _ H)|fa_solve]
  | |- Q _ (r_eval_infix _ _ _ _ _) => eapply Q_eq; [apply (q_eval_infix _ H)|fa_solve]
  | |- Q _ (r_eval_if _ _ _ _) => eapply Q_eq; [apply (q_eval_if _ H)|fa_solve]
  | |- Q _ (r_eval_block _ _ _) => eapply Q_eq; [apply (q_eval_block _ H)|fa_solve]
  | |- Q _ (r_eval_stmts _ _ _ _) => eapply Q_eq; [apply (q_eval_stmts _ H)|fa_solve]
  | |- Q _ (r_eval_stmt _ _ _) => eapply Q_eq; [apply (q_eval_stmt _ H)|fa_solve]
  | |- Q _ (r_eval_for _ _ _ _ _ _) => eapply Q_eq; [apply (q_eval_for _ H)|fa_solve]
  | |- Q _ (r_for_body _ _ _ _ _ _ _) => eapply Q_eq; [apply (q_for_body _ H)|fa_solve]
  | |- Q _ (r_for_items _ _ _ _ _ _ _) => eapply Q_eq; [apply (q_for_items _ H)|fa_solve]
  | |- Q _ (r_for_slice _ _ _ _ _ _ _ _) => eapply Q_eq; [apply (q_for_slice _ H)|fa_solve]
  | |- Q _ (r_for_iter _ _ _ _ _ _ _ _) => eapply Q_eq; [apply (q_for_iter _ H)|fa_solve]
  | |- Q _ (r_eval_index _ _ _ _ _ _) => eapply Q_eq; [apply (q_eval_index _ H)|fa_solve]
  | |- Q _ (r_index_callee _ _ _ _ _) => eapply Q_eq; [apply (q_index_callee _ H)|fa_solve]
  | |- Q _ (r_eval_call _ _ _ _ _ _ _) => eapply Q_eq; [apply (q_eval_call _ H)|fa_solve]
  | |- Q _ (r_user_call _ _ _ _ _) => eapply Q_eq; [apply (q_user_call _ H)|fa_solve]
  | |- Q _ (r_bind_params _ _ _ _) => eapply Q_eq; [apply (q_bind_params _ H)|fa_solve]
  | |- Q _ (r_bind_args _ _ _ _ _) => eapply Q_eq; [apply (q_bind_args _ H)|fa_solve]
  | |- Q _ (r_bind_fixed _ _ _ _) => eapply Q_eq; [apply (q_bind_fixed _ H)|fa_solve]
  | |- Q _ (r_bind_variadic _ _ _ _) => eapply Q_eq; [apply (q_bind_variadic _ H)|fa_solve]
  | |- Q _ (r_block_with _ _ _ _) => eapply Q_eq; [apply (q_block_with _ H)|fa_solve]
  | |- Q _ (r_block_in_child _ _ _ _ _) => eapply Q_eq; [apply (q_block_in_child _ H)|fa_solve]
  | |- Q _ (r_go_apply _ _ _ _ _ _) => eapply Q_eq; [apply (q_go_apply _ H)|fa_solve]
  | |- Q _ (r_partial_call _ _ _ _ _) => eapply Q_eq; [apply (q_partial_call _ H)|fa_solve]
  | |- Qo _ (r_exec_prog _ _ _ _) => eapply Qo_eq; [apply (q_exec_prog _ H)|fa_solve]
  end.

(* scrutinee of result type: establish Q for it first, then split *)
Ltac q_scrut H F x tac :=
  let T := type of x in
  let T' := eval hnf in T in
  lazymatch T' with
  | res _ =>
      let Hq := fresh "Hq" in
      assert (Hq : Q F x) by tac;
      destruct x as [[? ?]|? ?|?| |] eqn:?; cbn [Q] in Hq
  | outcome =>
      let Hq := fresh "Hq" in
      assert (Hq : Qo F x) by tac;
      destruct x as [? ?|? ? ?|?|?| |] eqn:?; cbn [Qo] in Hq
  | _ => destruct x eqn:?; harvest
  end.

Ltac q_step H :=
  match goal with
  | |- Q _ (rbind _ _) => apply Q_rbind; [|intros ? ? ?; cbv beta iota zeta]
  | |- Q _ (rfinal _ _) => apply Q_rfinal; [intros; fa_solve|]
  | |- Q _ (tolerate _ _ _) => apply Q_tolerate
  | |- Q _ (of_opres _ _) => apply Q_of_opres; fa_solve
  | |- Q _ (fail _) => apply Q_fail; fa_solve
  | |- Q _ (ROk (_, _)) => apply Q_ok; fa_solve
  | |- Q _ (RErr (EUnknown _) _) => apply Q_unknown; fa_solve
  | |- Q _ (RErr (EFail None) _) => apply Q_failnone; fa_solve
  | Hq : loud _ ?e ?s |- Q _ (RErr ?e _) => apply (Q_err_move _ e s); [exact Hq|fa_solve]
  | Hq : loud _ ?e ?s |- Qo _ (OErr _ ?e _) => apply (Qo_err_move _ e s); [exact Hq|fa_solve]
  | Hq : loud _ ?e ?s |- Q _ (RErr (match ?e with _ => _ end) _) =>
      apply (Q_of_Qo_err _ e s); [exact Hq|fa_solve]
  | |- Q _ (RErr (EFail (Some _)) (log_ev _ _)) => apply Q_fail_event; assumption
  | |- Q _ (RPanic _) => exact I
  | |- Q _ RFuel => exact I
  | |- Q _ RUnsup => exact I
  | |- Qo _ (OOk _ _) => cbn [Qo]; fa_solve
  | |- Qo _ (OParseErr _) => exact I
  | |- Qo _ (OPanic _) => exact I
  | |- Qo _ OFuel => exact I
  | |- Qo _ OUnsup => exact I
  | |- Q _ (r_eval _ _ _) => q_ih H
  | |- Q _ (r_eval_chain _ _ _) => q_ih H
  | |- Q _ (r_eval_list _ _ _) => q_ih H
  | |- Q _ (r_eval_pairs _ _ _ _) => q_ih H
  | |- Q _ (r_eval_infix _ _ _ _ _) => q_ih H
  | |- Q _ (r_eval_if _ _ _ _) => q_ih H
  | |- Q _ (r_eval_block _ _ _) => q_ih H
  | |- Q _ (r_eval_stmts _ _ _ _) => q_ih H
  | |- Q _ (r_eval_stmt _ _ _) => q_ih H
  | |- Q _ (r_eval_for _ _ _ _ _ _) => q_ih H
  | |- Q _ (r_for_body _ _ _ _ _ _ _) => q_ih H
  | |- Q _ (r_for_items _ _ _ _ _ _ _) => q_ih H
  | |- Q _ (r_for_slice _ _ _ _ _ _ _ _) => q_ih H
  | |- Q _ (r_for_iter _ _ _ _ _ _ _ _) => q_ih H
  | |- Q _ (r_eval_index _ _ _ _ _ _) => q_ih H
  | |- Q _ (r_index_callee _ _ _ _ _) => q_ih H
  | |- Q _ (r_eval_call _ _ _ _ _ _ _) => q_ih H
  | |- Q _ (r_user_call _ _ _ _ _) => q_ih H
  | |- Q _ (r_bind_params _ _ _ _) => q_ih H
  | |- Q _ (r_bind_args _ _ _ _ _) => q_ih H
  | |- Q _ (r_bind_fixed _ _ _ _) => q_ih H
  | |- Q _ (r_bind_variadic _ _ _ _) => q_ih H
  | |- Q _ (r_block_with _ _ _ _) => q_ih H
  | |- Q _ (r_block_in_child _ _ _ _ _) => q_ih H
  | |- Q _ (r_go_apply _ _ _ _ _ _) => q_ih H
  | |- Q _ (r_partial_call _ _ _ _ _) => q_ih H
  | |- Qo _ (r_exec_prog _ _ _ _) => q_ih H
  | |- Q ?F (match ?x with _ => _ end) => q_scrut H F x ltac:(cbv zeta; repeat (q_step H; cbv zeta))
  | |- Qo ?F (match ?x with _ => _ end) => q_scrut H F x ltac:(cbv zeta; repeat (q_step H; cbv zeta))
  | |- Q _ (let '(_, _) := ?x in _) => destruct x eqn:?; harvest
  | |- Qo _ (let '(_, _) := ?x in _) => destruct x eqn:?; harvest
  | |- Q _ (if ?x then _ else _) => destruct x eqn:?
  | |- Qo _ (if ?x then _ else _) => destruct x eqn:?
  | E : match _ with _ => _ end = (_, _) |- _ => digest E
  end.
Ltac q_solve H := cbv zeta; repeat (q_step H; cbv zeta).

Lemma QQ_step ev : QQ ev -> QQ (evals_step G ev).
Proof.
  intros H. constructor; intros; cbn [evals_step r_eval r_eval_chain r_eval_list r_eval_pairs r_eval_infix r_eval_if
    r_eval_block r_eval_stmts r_eval_stmt r_eval_for r_for_body r_for_items r_for_slice r_for_iter r_eval_index
    r_index_callee r_eval_call r_user_call r_bind_params r_bind_args r_bind_fixed r_bind_variadic r_block_with
    r_block_in_child r_go_apply r_partial_call r_exec_prog].
  - unfold eval_step. q_solve H.
  - unfold eval_chain_step. q_solve H.
  - unfold eval_list_step. q_solve H.
  - unfold eval_pairs_step. q_solve H.
  - unfold eval_infix_step. q_solve H.
  - unfold eval_if_step. q_solve H.
  - unfold eval_block_step. q_solve H.
  - unfold eval_stmts_step. q_solve H.
  - unfold eval_stmt_step. q_solve H.
  - unfold eval_for_step. q_solve H.
  - unfold for_body_step. q_solve H.
  - unfold for_items_step. q_solve H.
  - unfold for_slice_step. q_solve H.
  - unfold for_iter_step. cbv zeta.
    match goal with |- Q _ (match ?n with _ => _ end) =>
      assert (Hn : forall x s, n = Some (x, s) -> fa s = fa st);
      [ intros x s E;
        repeat match type of E with
               | match ?y with _ => _ end = _ => destruct y eqn:?; try discriminate
               | (let (_, _) := ?y in _) = _ => destruct y eqn:?
               end; inversion E; subst; reflexivity
      | destruct n as [[x0 s0]|] eqn:En; [pose proof (Hn _ _ eq_refl) as Hs0|] ]
    end; q_solve H.
  - unfold eval_index_step. q_solve H.
  - unfold index_callee_step. q_solve H.
  - unfold eval_call_step. q_solve H.
  - unfold user_call_step. q_solve H.
  - unfold bind_params_step. q_solve H.
  - unfold bind_args_step. q_solve H.
  - unfold bind_fixed_step. q_solve H.
  - unfold bind_variadic_step. q_solve H.
  - unfold block_with_step. q_solve H.
  - unfold block_in_child_step. q_solve H.
  - unfold go_apply_step. q_solve H.
  - unfold partial_call_step. q_solve H.
  - unfold exec_prog_step. q_solve H.
Qed.

Theorem QQ_at fuel : QQ (evals_at G fuel).
Proof. induction fuel as [|f IH]; [exact QQ_bottom|exact (QQ_step _ IH)]. Qed.

(* ---- the fuel-indexed and top-level forms ---- *)
Theorem eval_quiet fuel st e : Q (fa st) (eval G fuel st e).
Proof. exact (q_eval _ (QQ_at fuel) st e). Qed.

Theorem exec_quiet fuel st prog out : Qo (fa st) (exec_prog G fuel st prog out).
Proof. exact (q_exec_prog _ (QQ_at fuel) st prog out). Qed.

Theorem render_quiet fuel st input : Qo (fa st) (render G fuel st input).
Proof.
  unfold render. destruct (parse input); try exact I.
  eapply Qo_eq; [apply exec_quiet|reflexivity].
Qed.

(* a render that succeeds invoked no failing helper *)
Theorem render_ok_no_failure fuel st input out st1 :
  render G fuel st input = OOk out st1 -> fa st1 = fa st.
Proof. intros E. pose proof (render_quiet fuel st input) as H. rewrite E in H. exact H. Qed.

(* a render that fails either invoked no failing helper (an operation failed),
   or invoked exactly one: its call is the newest failure of the log, nothing
   failing was invoked after it, and the error returned is its sentinel *)
Theorem render_err_reports_the_failure fuel st input l e st1 :
  render G fuel st input = OErr l e st1 ->
  fa st1 = fa st \/ exists z, e = EFail (Some (Z.to_N z)) /\ fa st1 = fail_args z :: fa st.
Proof.
  intros E. pose proof (render_quiet fuel st input) as H. rewrite E in H. cbn [Qo] in H.
  destruct e as [n|o]; cbn [loud] in H; [left; exact H|].
  destruct H as [H|[z [-> H]]]; [left; exact H|right; exists z; split; [reflexivity|exact H]].
Qed.

(* the contrapositive the property is worded in: once a failing helper has been
   invoked, the render cannot succeed *)
Theorem invoked_failure_cannot_succeed fuel st input out st1 :
  fa st1 <> fa st -> render G fuel st input <> OOk out st1.
Proof. intros N E. apply N. eapply render_ok_no_failure; eassumption. Qed.

End Quiet.

(* ---- the statements are not vacuous: a failing helper under a tolerant operator ---- *)
From Coq Require Import String.
From Plush Require Import model.Cases.
Local Open Scope string_scope.

(* the template a<%= fail1() || true %>b<%= fail1() %>: the helper fails under || (where an unknown identifier would be
   tolerated): the render fails with the helper's sentinel, one failure logged,
   and the second call is never reached *)
Example quiet_failing_helper :
  match run_case [] (mkrcase (hx "613c253d206661696c312829207c7c207472756520253e623c253d206661696c31282920253e") [((hx "6661696c31"), DGo 100%N [DInt 1%Z])] [] (ObsOk []) []) with
  | OErr _ (EFail (Some 1%N)) st1 => fa st1 = [fail_args 1]
  | _ => False
  end.
Proof. vm_compute. reflexivity. Qed.

(* the tolerated fault: an unknown identifier under || is nil, the render succeeds, nothing failed *)
Example quiet_tolerated_unknown :
  match run_case [] (mkrcase (hx "613c253d206e6f73756368207c7c207472756520253e62") [] [] (ObsOk []) []) with
  | OOk out st1 => out = hx "617472756562" /\ fa st1 = []
  | _ => False
  end.
Proof. vm_compute. split; reflexivity. Qed.

