(* EscapeProofs.v - jsEscape and toJSON never emit a byte that could leave the
   context they are used in (C20). *)
From Coq Require Import Lia.
From Plush Require Import model.Bytes model.Text.
Open Scope N_scope.

(* ---------- a continuation of a valid multi-byte rune is >= 128 ---------- *)
Lemma inr_lo lo hi x : inr lo hi x = true -> lo <= x.
Proof. unfold inr. intros H. apply andb_prop in H. destruct H as [H _]. apply N.leb_le. exact H. Qed.
Lemma second_lo_ge b : 128 <= second_lo b.
Proof. unfold second_lo. destruct (b =? 224); [lia|]. destruct (b =? 240); lia. Qed.

Definition high (x : N) : Prop := 128 <= x.

Lemma decode1_tail_high c r rn size : decode1 c r = (rn, size) -> Forall high (firstn (size - 1) r).
Proof.
  unfold decode1. intros H.
  destruct (c <? 128); [inversion H; constructor|].
  destruct (inr 194 223 c).
  { destruct r as [|c1 r1]; [inversion H; constructor|].
    destruct (inr 128 191 c1) eqn:E1; inversion H; subst; simpl; [|constructor].
    constructor; [apply (inr_lo _ _ _ E1)|constructor]. }
  destruct (inr 224 239 c).
  { destruct r as [|c1 [|c2 r2]]; try (inversion H; constructor).
    destruct (inr (second_lo c) (second_hi c) c1 && inr 128 191 c2) eqn:E; inversion H; subst; simpl; [|constructor].
    apply andb_prop in E. destruct E as [E1 E2].
    constructor; [pose proof (inr_lo _ _ _ E1); pose proof (second_lo_ge c); unfold high; lia|].
    constructor; [apply (inr_lo _ _ _ E2)|constructor]. }
  destruct (inr 240 244 c).
  { destruct r as [|c1 [|c2 [|c3 r3]]]; try (inversion H; constructor).
    destruct (inr (second_lo c) (second_hi c) c1 && inr 128 191 c2 && inr 128 191 c3) eqn:E; inversion H; subst; simpl; [|constructor].
    apply andb_prop in E. destruct E as [E E3]. apply andb_prop in E. destruct E as [E1 E2].
    constructor; [pose proof (inr_lo _ _ _ E1); pose proof (second_lo_ge c); unfold high; lia|].
    constructor; [apply (inr_lo _ _ _ E2)|].
    constructor; [apply (inr_lo _ _ _ E3)|constructor]. }
  inversion H; constructor.
Qed.

(* ---------- hex digits ---------- *)
Definition is_hex (c : N) : bool := inr 48 57 c || inr 65 70 c || inr 97 102 c.
Lemma lt16_cases d : d < 16 -> In d [0;1;2;3;4;5;6;7;8;9;10;11;12;13;14;15].
Proof.
  intros H. assert (E: d = N.of_nat (N.to_nat d)) by (symmetry; apply N2Nat.id).
  assert (Hn: (N.to_nat d < 16)%nat) by lia.
  rewrite E. destruct (N.to_nat d) as [|[|[|[|[|[|[|[|[|[|[|[|[|[|[|[|n]]]]]]]]]]]]]]]]; simpl; try tauto. lia.
Qed.
Lemma hexU_is_hex d : d < 16 -> is_hex (hexU d) = true.
Proof. intros H. apply lt16_cases in H. simpl in H. repeat (destruct H as [<-|H]; [reflexivity|]). contradiction. Qed.
Lemma hexL_is_hex d : d < 16 -> is_hex (hexL d) = true.
Proof. intros H. apply lt16_cases in H. simpl in H. repeat (destruct H as [<-|H]; [reflexivity|]). contradiction. Qed.
Lemma mod16_lt n : n mod 16 < 16.
Proof. apply N.mod_lt. discriminate. Qed.

Lemma hex_digits_U_hex fuel : forall n acc, forallb is_hex acc = true -> forallb is_hex (hex_digits_U fuel n acc) = true.
Proof.
  induction fuel as [|f IH]; intros n acc H; [exact H|].
  cbn [hex_digits_U].
  assert (H': forallb is_hex (hexU (n mod 16) :: acc) = true).
  { cbn [forallb]. rewrite (hexU_is_hex _ (mod16_lt n)). exact H. }
  destruct (n / 16 =? 0); [exact H'|apply IH; exact H'].
Qed.
Lemma pad4_hex d : forallb is_hex d = true -> forallb is_hex (pad4 d) = true.
Proof.
  intros H. unfold pad4. rewrite forallb_app, H, Bool.andb_true_r.
  induction (4 - length d)%nat as [|k IH]; [reflexivity|]. simpl. exact IH.
Qed.

(* ================= jsEscape ================= *)
(* what must not appear raw in a JavaScript string: quotes, the characters that
   could close a script element or start an entity, = and line breaks *)
Definition js_bad (c : N) : bool :=
  (c =? 39) || (c =? 34) || (c =? 60) || (c =? 62) || (c =? 38) || (c =? 61) || (c =? 10) || (c =? 13).
(* a byte string in which none of them appears, except a quote directly after
   a backslash that starts an escape; escapes are backslash followed by a
   backslash, a single quote, a double quote, or u and four hex digits *)
Fixpoint js_ok (s : bytes) : bool :=
  match s with
  | [] => true
  | c :: r =>
      if c =? 92 then
        match r with
        | [] => false
        | x :: r' => ((x =? 92) || (x =? 39) || (x =? 34) || (x =? 117)) && js_ok r'
        end
      else negb (js_bad c) && js_ok r
  end.

Definition js_plain (c : N) : bool := negb (c =? 92) && negb (js_bad c).
Lemma js_ok_plain c r : js_plain c = true -> js_ok (c :: r) = js_ok r.
Proof.
  unfold js_plain. intros H. apply andb_prop in H. destruct H as [H1 H2].
  apply Bool.negb_true_iff in H1. cbn [js_ok]. rewrite H1, H2. reflexivity.
Qed.
Lemma js_ok_plain_app l r : forallb js_plain l = true -> js_ok (l ++ r) = js_ok r.
Proof.
  induction l as [|c l IH]; intros H; [reflexivity|]. cbn [forallb] in H. apply andb_prop in H.
  destruct H as [H1 H2]. cbn [app]. rewrite (js_ok_plain c _ H1). apply IH. exact H2.
Qed.
Lemma hex_plain c : is_hex c = true -> js_plain c = true.
Proof.
  unfold is_hex, inr, js_plain, js_bad. intros H.
  repeat match goal with |- context [?a =? ?b] => destruct (N.eqb_spec a b); [subst; discriminate H|] end.
  reflexivity.
Qed.
Lemma hexes_plain l : forallb is_hex l = true -> forallb js_plain l = true.
Proof.
  induction l as [|c l IH]; intros H; [reflexivity|]. cbn [forallb] in *. apply andb_prop in H.
  destruct H as [H1 H2]. rewrite (hex_plain c H1), (IH H2). reflexivity.
Qed.
Lemma high_plain c : 128 <= c -> js_plain c = true.
Proof.
  intros H. unfold js_plain, js_bad.
  repeat match goal with |- context [?a =? ?b] => destruct (N.eqb_spec a b); [lia|] end. reflexivity.
Qed.
Lemma highs_plain l : Forall high l -> forallb js_plain l = true.
Proof. induction 1 as [|c l Hc _ IH]; [reflexivity|]. cbn [forallb]. rewrite (high_plain c Hc), IH. reflexivity. Qed.

Lemma js_ok_u r : js_ok (92 :: 117 :: r) = js_ok r.
Proof. reflexivity. Qed.
Lemma js_ascii_ok c r : c < 128 -> js_ok (js_ascii c ++ r) = js_ok r.
Proof.
  intros Hc. unfold js_ascii.
  repeat match goal with |- context [if ?a =? ?b then _ else _] => destruct (a =? b); [reflexivity|] end.
  change ([92; 117; 48; 48; hexU (c / 16); hexU (c mod 16)] ++ r)
    with (92 :: 117 :: ([48; 48; hexU (c / 16); hexU (c mod 16)] ++ r)).
  rewrite js_ok_u.
  apply js_ok_plain_app. apply hexes_plain. cbn [forallb].
  assert (H16: c / 16 < 16) by (apply N.div_lt_upper_bound; lia).
  rewrite (hexU_is_hex _ H16), (hexU_is_hex _ (mod16_lt c)). reflexivity.
Qed.
Lemma js_uni_ok rn r : js_ok (js_uni rn ++ r) = js_ok r.
Proof.
  unfold js_uni.
  change ((92 :: 117 :: pad4 (hex_digits_U 8 rn [])) ++ r) with (92 :: 117 :: (pad4 (hex_digits_U 8 rn []) ++ r)).
  rewrite js_ok_u.
  apply js_ok_plain_app. apply hexes_plain. apply pad4_hex. apply hex_digits_U_hex. reflexivity.
Qed.

Section JS.
Variable is_print : N -> bool.

Lemma js_escape_aux_ok : forall s skip, js_ok (js_escape_aux is_print s skip) = true.
Proof.
  induction s as [|c r IH]; intros skip; [reflexivity|].
  cbn [js_escape_aux]. destruct skip as [|k]; [|apply IH].
  destruct (c <? 128) eqn:E128.
  - apply N.ltb_lt in E128. destruct (js_special c) eqn:Es.
    + rewrite js_ascii_ok by exact E128. apply IH.
    + cbn [app]. rewrite js_ok_plain; [apply IH|].
      unfold js_special in Es. unfold js_plain, js_bad.
      repeat match type of Es with (_ || _) = false => apply Bool.orb_false_elim in Es; destruct Es as [Es ?] end.
      repeat match goal with H : (c =? ?k) = false |- _ => rewrite H; clear H end.
      destruct (N.eqb_spec c 10) as [->|_]; [discriminate|]. destruct (N.eqb_spec c 13) as [->|_]; [discriminate|].
      reflexivity.
  - apply N.ltb_ge in E128. destruct (decode1 c r) as [rn size] eqn:Ed.
    destruct (is_print rn).
    + cbn [app]. rewrite (js_ok_plain c _ (high_plain c E128)).
      rewrite js_ok_plain_app; [apply IH|]. apply highs_plain. exact (decode1_tail_high c r rn size Ed).
    + rewrite js_uni_ok. apply IH.
Qed.

(* jsEscape, for every byte string and whatever unicode.IsPrint answers: no raw
   < > & = quote or line break; quotes only directly after an escaping backslash *)
Theorem js_escape_ok s : js_ok (js_escape is_print s) = true.
Proof. apply js_escape_aux_ok. Qed.
End JS.

(* ================= toJSON ================= *)
Definition json_bad (c : N) : bool := (c =? 60) || (c =? 62) || (c =? 38).
Definition json_clean (s : bytes) : bool := forallb (fun c => negb (json_bad c)) s.

Lemma json_clean_app a b : json_clean (a ++ b) = json_clean a && json_clean b.
Proof. apply forallb_app. Qed.
Lemma json_clean_high l : Forall high l -> json_clean l = true.
Proof.
  induction 1 as [|c l Hc _ IH]; [reflexivity|]. unfold json_clean in *. cbn [forallb]. rewrite IH.
  unfold json_bad, high in *.
  repeat match goal with |- context [?a =? ?b] => destruct (N.eqb_spec a b); [lia|] end. reflexivity.
Qed.
Lemma json_ascii_clean c : c < 128 -> json_clean (json_ascii c) = true.
Proof.
  intros Hc. unfold json_ascii.
  destruct ((c =? 92) || (c =? 34)) eqn:E.
  { apply Bool.orb_true_iff in E. destruct E as [E|E]; apply N.eqb_eq in E; subst; reflexivity. }
  repeat match goal with |- context [if ?a =? ?b then _ else _] => destruct (a =? b); [reflexivity|] end.
  unfold json_clean. cbn [forallb].
  assert (H16: c / 16 < 16) by (apply N.div_lt_upper_bound; lia).
  assert (K: forall d, d < 16 -> negb (json_bad (hexL d)) = true).
  { intros d Hd. apply lt16_cases in Hd. simpl in Hd. repeat (destruct Hd as [<-|Hd]; [reflexivity|]). contradiction. }
  rewrite (K _ H16), (K _ (mod16_lt c)). reflexivity.
Qed.
Lemma json_safe_clean c : json_safe c = true -> negb (json_bad c) = true.
Proof.
  unfold json_safe, json_bad. intros H. apply andb_prop in H. destruct H as [_ H].
  apply Bool.negb_true_iff in H. apply Bool.negb_true_iff.
  repeat match type of H with (_ || _) = false => apply Bool.orb_false_elim in H; destruct H as [H ?] end.
  repeat match goal with E : (c =? ?k) = false |- _ => rewrite E; clear E end. reflexivity.
Qed.

(* bytes are copied from the input only as part of a rune that decode1 accepted *)
Lemma json_str_aux_clean : forall s skip copy,
  (copy = true -> Forall high (firstn skip s)) -> json_clean (json_str_aux s skip copy) = true.
Proof.
  induction s as [|c r IH]; intros skip copy Hinv; [reflexivity|].
  cbn [json_str_aux]. destruct skip as [|k].
  - destruct (c <? 128) eqn:E128.
    + apply N.ltb_lt in E128. rewrite json_clean_app. rewrite IH by (intros _; constructor).
      rewrite Bool.andb_true_r. destruct (json_safe c) eqn:Es.
      * unfold json_clean. cbn [forallb]. rewrite (json_safe_clean c Es). reflexivity.
      * apply json_ascii_clean. exact E128.
    + apply N.ltb_ge in E128. destruct (decode1 c r) as [rn size] eqn:Ed.
      destruct ((rn =? rune_error) && Nat.eqb size 1).
      { rewrite json_clean_app. rewrite IH by (intros _; constructor). reflexivity. }
      destruct ((rn =? 8232) || (rn =? 8233)).
      { rewrite json_clean_app. rewrite IH by discriminate. rewrite Bool.andb_true_r.
        unfold json_clean. cbn [forallb].
        assert (K: forall d, d < 16 -> negb (json_bad (hexL d)) = true).
        { intros d Hd. apply lt16_cases in Hd. simpl in Hd. repeat (destruct Hd as [<-|Hd]; [reflexivity|]). contradiction. }
        rewrite (K _ (mod16_lt rn)). reflexivity. }
      change (c :: json_str_aux r (size - 1) true) with ([c] ++ json_str_aux r (size - 1) true).
      rewrite json_clean_app. rewrite IH by (intros _; exact (decode1_tail_high c r rn size Ed)).
      rewrite Bool.andb_true_r. apply json_clean_high. constructor; [exact E128|constructor].
  - rewrite json_clean_app. destruct copy.
    + specialize (Hinv eq_refl). cbn [firstn] in Hinv. inversion Hinv as [|x l Hx Hl]; subst.
      rewrite IH by (intros _; exact Hl). rewrite Bool.andb_true_r.
      apply json_clean_high. constructor; [exact Hx|constructor].
    + rewrite IH by discriminate. reflexivity.
Qed.
Lemma json_string_clean s : json_clean (json_string s) = true.
Proof.
  unfold json_string. change (34 :: json_str_aux s 0 true ++ [34]) with ([34] ++ json_str_aux s 0 true ++ [34]).
  rewrite !json_clean_app. rewrite json_str_aux_clean by (intros _; constructor). reflexivity.
Qed.

Lemma digits_pos_clean fuel : forall n acc, json_clean acc = true -> json_clean (digits_pos fuel n acc) = true.
Proof.
  induction fuel as [|f IH]; intros n acc H; [exact H|].
  cbn [digits_pos].
  assert (H': json_clean ((48 + n mod 10) :: acc) = true).
  { unfold json_clean in *. cbn [forallb]. rewrite H, Bool.andb_true_r.
    assert (Hm: n mod 10 < 10) by (apply N.mod_lt; discriminate).
    pose proof (N.le_0_l (n mod 10)) as Hm0.
    unfold json_bad. repeat match goal with |- context [?a =? ?b] => destruct (N.eqb_spec a b); [lia|] end. reflexivity. }
  destruct (n / 10 =? 0); [exact H'|apply IH; exact H'].
Qed.
Lemma dec_of_Z_clean z : json_clean (dec_of_Z z) = true.
Proof.
  destruct z as [|p|p]; [reflexivity| |]; unfold dec_of_Z, dec_of_N.
  - apply digits_pos_clean. reflexivity.
  - change (45 :: ?x) with ([45] ++ x). rewrite json_clean_app. rewrite digits_pos_clean by reflexivity. reflexivity.
Qed.

(* induction over JSON values (lists of values nested inside values) *)
Section JsonInd.
Variable P : json -> Prop.
Hypothesis Hnull : P JNull.
Hypothesis Hbool : forall b, P (JBool b).
Hypothesis Hint : forall z, P (JInt z).
Hypothesis Hstr : forall s, P (JStr s).
Hypothesis Harr : forall l, Forall P l -> P (JArr l).
Hypothesis Hobj : forall m, Forall (fun kv => P (snd kv)) m -> P (JObj m).
Fixpoint json_ind' (v : json) : P v :=
  match v with
  | JNull => Hnull
  | JBool b => Hbool b
  | JInt z => Hint z
  | JStr s => Hstr s
  | JArr l => Harr l ((fix go (l : list json) : Forall P l :=
                         match l with [] => Forall_nil _ | x :: r => Forall_cons _ (json_ind' x) (go r) end) l)
  | JObj m => Hobj m ((fix go (m : list (bytes * json)) : Forall (fun kv => P (snd kv)) m :=
                         match m with [] => Forall_nil _ | kv :: r => Forall_cons _ (json_ind' (snd kv)) (go r) end) m)
  end.
End JsonInd.

(* encoding/json output for every value: no raw < > & anywhere (strings, keys,
   numbers, punctuation) *)
Theorem json_encode_clean : forall v, json_clean (json_encode v) = true.
Proof.
  apply json_ind'.
  - reflexivity.
  - intros [|]; reflexivity.
  - intros z. apply dec_of_Z_clean.
  - intros s. apply json_string_clean.
  - intros l Hl. cbn [json_encode].
    match goal with |- json_clean (91 :: ?g l true ++ [93]) = true => set (go := g) end.
    assert (Hgo: forall first, json_clean (go l first) = true).
    { induction Hl as [|x r Hx _ IHr]; intros first; [reflexivity|].
      cbn [go]. fold go. rewrite !json_clean_app, Hx, IHr. destruct first; reflexivity. }
    change (91 :: go l true ++ [93]) with ([91] ++ go l true ++ [93]).
    rewrite !json_clean_app, Hgo. reflexivity.
  - intros m Hm. cbn [json_encode].
    match goal with |- json_clean (123 :: ?g m true ++ [125]) = true => set (go := g) end.
    assert (Hgo: forall first, json_clean (go m first) = true).
    { induction Hm as [|[k x] r Hx _ IHr]; intros first; [reflexivity|].
      cbn [go]. fold go. cbn [snd] in Hx. rewrite !json_clean_app, json_string_clean, Hx, IHr. destruct first; reflexivity. }
    change (123 :: go m true ++ [125]) with ([123] ++ go m true ++ [125]).
    rewrite !json_clean_app, Hgo. reflexivity.
Qed.

Theorem to_json_clean v : json_clean (to_json v) = true.
Proof. apply json_encode_clean. Qed.
