(* RenderProofs.v - end-to-end theorems through lexer, parser and evaluator. *)
From Coq Require Import Lia.
From Plush Require Import model.Bytes model.Lexer model.Ast model.Parser model.Ctx model.Value model.Eval
  proofs.BytesProofs proofs.LexerProofs.
Local Open Scope N_scope.

(* ---------- C02: a template without tags renders to itself ---------- *)
Lemma lex_no_tag s : s <> [] -> no_nul s -> no_tag s ->
  exists ln1 ln2, lex s = Some [mktok HTML s ln1; mktok EOF [] ln2].
Proof.
  intros Hne Hn Ht. unfold lex.
  destruct s as [|c r] eqn:Es; [contradiction|]. rewrite <- Es in *.
  assert (Hc: c <> 0) by (apply Hn; rewrite Es; left; reflexivity).
  replace (length s + 2)%nat with (S (S (length s))) by lia.
  set (l0 := lx_init s).
  assert (Hrest: lrest l0 = s) by reflexivity.
  assert (Hin: linside l0 = false) by reflexivity.
  cbn [lex_all]. unfold next_token at 1. rewrite Hin.
  assert (Hch: (ch l0 =? 0) = false).
  { unfold ch. rewrite Hrest, Es. simpl. apply N.eqb_neq. exact Hc. }
  rewrite Hch.
  assert (Htag: ((ch l0 =? 60) && (peek l0 =? 37)) = false).
  { unfold ch, peek. rewrite Hrest, Es. simpl. rewrite Es in Ht. exact (no_tag_head c r Ht). }
  rewrite Htag.
  pose proof (read_html_no_tag l0) as Hr. rewrite Hrest in Hr. destruct (Hr Hn Ht) as [Hlit [Hend Hin1]].
  destruct (read_html l0) as [lit l1] eqn:Er. simpl in Hlit, Hend, Hin1. subst lit. cbn [tk].
  assert (Hi: linside l1 = false) by (rewrite Hin1; reflexivity). clear Hin1. rename Hi into Hin1.
  destruct (length s) as [|n] eqn:El; [rewrite Es in El; discriminate|].
  cbn [lex_all]. unfold next_token. rewrite Hin1.
  assert (Hch1: (ch l1 =? 0) = true) by (unfold ch; rewrite Hend; reflexivity).
  rewrite Hch1. cbn [tk]. rewrite Hin1. cbn [negb]. rewrite orb_true_r.
  eexists. eexists. reflexivity.
Qed.

Lemma lex_empty : lex [] = Some [mktok EOF [] 1].
Proof. reflexivity. Qed.

Lemma parse_single_html s ln1 ln2 :
  parse_tokens [mktok HTML s ln1; mktok EOF [] ln2] = ParseOk [SExpr (mktok HTML s ln1) (EHtml s s)].
Proof. reflexivity. Qed.

Lemma write_html_any h s : write h (VHTML s) = s.
Proof. unfold write. rewrite Nat.add_comm. reflexivity. Qed.
Lemma printable_html_any h s : printable h (VHTML s) = true.
Proof. unfold printable. rewrite Nat.add_comm. reflexivity. Qed.

Theorem render_no_tag G fuel st s : no_nul s -> no_tag s ->
  exists st', render G (S (S fuel)) st s = OOk s st'.
Proof.
  intros Hn Ht. unfold render, parse.
  destruct s as [|c r] eqn:Es.
  - rewrite lex_empty. eexists. reflexivity.
  - rewrite <- Es in *.
    destruct (lex_no_tag s) as [ln1 [ln2 Hl]]; [rewrite Es; discriminate|exact Hn|exact Ht|].
    rewrite Hl, parse_single_html.
    eexists. unfold exec_prog. cbn [evals_at evals_step r_exec_prog]. unfold exec_prog_step at 1. cbv zeta.
    rewrite printable_html_any, write_html_any. cbn [evals_at evals_step r_exec_prog]. unfold exec_prog_step.
    simpl. reflexivity.
Qed.
