(* CacheProofs.v - refinement of the cache / template life cycle (model/Cache.v)
   to the pure rendering function, over all histories (C13). *)
From Plush Require Import model.Bytes model.Lexer model.Ast model.Parser model.Value model.Eval model.Cache
  proofs.BytesProofs.

Section P.
Variable G : genv.
Variable fuel : nat.

(* every cached template carries its own input and a program that is the
   parse of that input *)
Definition good (k : bytes) (t : template) : Prop :=
  t_input t = k /\ exists p, t_prog t = Some p /\ parse k = ParseOk p.
Definition Inv (c : cache) : Prop := forall k t, clookup k (c_map c) = Some t -> good k t.

Lemma new_template_spec input :
  snd (new_template input) = parse input /\
  (forall p, parse input = ParseOk p -> good input (fst (new_template input))).
Proof.
  unfold new_template, t_parse. cbn [t_prog t_input].
  destruct (parse input) as [p|ls|] eqn:E; cbn [fst snd]; split; try reflexivity; try discriminate.
  intros q Hq. inversion Hq; subst. split; [reflexivity|]. exists q. split; [reflexivity|exact E].
Qed.

Lemma c_parse_spec c input : Inv c ->
  let '(c', t, r) := c_parse c input in
  Inv c' /\ r = parse input /\ (forall p, r = ParseOk p -> good input t) /\ c_on c' = c_on c.
Proof.
  intros HI. unfold c_parse.
  destruct (new_template_spec input) as [Hs Hg].
  destruct (c_on c) eqn:Eon; cbn [negb].
  - destruct (clookup input (c_map c)) as [t|] eqn:El.
    + destruct (HI input t El) as [Hin [p [Hp Hparse]]].
      rewrite Hp. split; [exact HI|]. split; [symmetry; exact Hparse|]. split; [|exact Eon].
      intros q _. split; [exact Hin|]. exists p. split; assumption.
    + destruct (new_template input) as [t r]. cbn [fst snd] in *. subst r.
      destruct (parse input) as [p|ls|] eqn:E.
      * split; [|split; [reflexivity|split; [intros q Hq; apply (Hg p eq_refl)|reflexivity]]].
        intros k t' Hk. cbn [c_map clookup] in Hk.
        destruct (beq_spec k input) as [->|Hne].
        -- inversion Hk; subst. apply (Hg p eq_refl).
        -- apply HI. exact Hk.
      * split; [exact HI|split; [reflexivity|split; [discriminate|exact Eon]]].
      * split; [exact HI|split; [reflexivity|split; [discriminate|exact Eon]]].
  - destruct (new_template input) as [t r]. cbn [fst snd] in *.
    split; [exact HI|split; [exact Hs|split; [intros p Hp; apply (Hg p); rewrite <- Hs; exact Hp|exact Eon]]].
Qed.

(* executing a good template is rendering its input; the template stays good
   and its program is not changed *)
Lemma t_exec_good k t st : good k t ->
  snd (t_exec G fuel t st) = render G fuel st k /\ fst (t_exec G fuel t st) = t.
Proof.
  intros [Hin [p [Hp Hparse]]]. unfold t_exec, t_parse. rewrite Hp. cbn [fst snd].
  unfold render, run_parsed. rewrite Hparse. split; reflexivity.
Qed.
Lemma exec_n_good k t st n : good k t -> snd (exec_n G fuel n t st) = render G fuel st k.
Proof.
  intros Hg. induction n as [|n IH]; cbn [exec_n]; [apply t_exec_good; exact Hg|].
  destruct (t_exec_good k t st Hg) as [_ Hsame].
  destruct (t_exec G fuel t st) as [t' o]. cbn [fst] in Hsame. subst t'. exact IH.
Qed.
Lemma clone_good k t : good k t -> good k (t_clone t).
Proof. intros H. exact H. Qed.

Lemma run_parsed_render r st input : r = parse input -> (forall p, r <> ParseOk p) ->
  run_parsed G fuel r st = render G fuel st input.
Proof. intros -> H. unfold run_parsed, render. destruct (parse input); try reflexivity. Qed.

Lemma step_refines c o : Inv c ->
  Inv (fst (step G fuel c o)) /\ snd (step G fuel c o) = spec_of G fuel o.
Proof.
  intros HI. destruct o as [on|input st|input n st|input st]; cbn [step spec_of].
  - split; [|reflexivity]. intros k t H. apply HI. exact H.
  - pose proof (c_parse_spec c input HI) as H. destruct (c_parse c input) as [[c' t] r].
    destruct H as [HI' [Hr [Hg _]]]. cbn [fst snd]. split; [exact HI'|]. f_equal.
    destruct r as [p|ls|] eqn:Er.
    + apply t_exec_good. apply (Hg p). reflexivity.
    + apply run_parsed_render; [exact Hr|discriminate].
    + apply run_parsed_render; [exact Hr|discriminate].
  - pose proof (c_parse_spec c input HI) as H. destruct (c_parse c input) as [[c' t] r].
    destruct H as [HI' [Hr [Hg _]]]. cbn [fst snd]. split; [exact HI'|]. f_equal.
    destruct r as [p|ls|] eqn:Er.
    + apply exec_n_good. apply (Hg p). reflexivity.
    + apply run_parsed_render; [exact Hr|discriminate].
    + apply run_parsed_render; [exact Hr|discriminate].
  - pose proof (c_parse_spec c input HI) as H. destruct (c_parse c input) as [[c' t] r].
    destruct H as [HI' [Hr [Hg _]]]. cbn [fst snd]. split; [exact HI'|]. f_equal.
    destruct r as [p|ls|] eqn:Er.
    + apply t_exec_good. apply clone_good. apply (Hg p). reflexivity.
    + apply run_parsed_render; [exact Hr|discriminate].
    + apply run_parsed_render; [exact Hr|discriminate].
Qed.

(* every history, from any cache satisfying the invariant (the empty one
   does), with the cache switched on and off at will: each operation returns
   what the pure function returns *)
Theorem history_refines : forall ops c, Inv c -> run G fuel c ops = map (spec_of G fuel) ops.
Proof.
  induction ops as [|o ops IH]; intros c HI; [reflexivity|].
  cbn [run map]. destruct (step_refines c o HI) as [HI' Hout].
  destruct (step G fuel c o) as [c' out]. cbn [fst snd] in *. subst out. f_equal. apply IH. exact HI'.
Qed.

Lemma Inv_empty on : Inv (mkcache on []).
Proof. intros k t H. discriminate. Qed.

Theorem history_deterministic ops on : run G fuel (mkcache on []) ops = map (spec_of G fuel) ops.
Proof. apply history_refines. apply Inv_empty. Qed.

(* a template's parsed program is never modified by executing it *)
Theorem exec_keeps_program t st p : t_prog t = Some p -> t_prog (fst (t_exec G fuel t st)) = Some p.
Proof. intros H. unfold t_exec, t_parse. rewrite H. exact H. Qed.

End P.
