(* JsonProofs.v - C20: what toJSON emits is a JSON text.  A recogniser of the
   JSON grammar (RFC 8259, compact form: no insignificant white space, which
   encoding/json never emits) is defined here, independently of the encoder,
   and the encoder's output is shown to be accepted by it, exactly up to its
   end, for every value: strings (every escape the encoder uses, raw bytes only
   above the control range), numbers without leading zeros, the three
   literals, arrays and objects nested to any depth. *)
From Coq Require Import Lia.
From Plush Require Import model.Bytes model.Text proofs.BytesProofs proofs.EscapeProofs.
Local Open Scope N_scope.

(* ================= the recogniser ================= *)
(* the inside of a string, after the opening quote: the rest after the closing quote *)
Fixpoint scan_str (s : bytes) : option bytes :=
  match s with
  | [] => None
  | c :: r =>
      if c =? 34 then Some r
      else if c =? 92 then
        match r with
        | e :: r' =>
            if (e =? 34) || (e =? 92) || (e =? 47) || (e =? 98) || (e =? 102) || (e =? 110) || (e =? 114) || (e =? 116)
            then scan_str r'
            else if e =? 117 then
              match r' with
              | a :: b :: c' :: d :: r'' =>
                  if is_hex a && is_hex b && is_hex c' && is_hex d then scan_str r'' else None
              | _ => None
              end
            else None
        | [] => None
        end
      else if c <? 32 then None          (* control characters must be escaped *)
      else scan_str r
  end.

Definition is_dig (c : N) : bool := inr 48 57 c.
Fixpoint skip_digits (s : bytes) : bytes :=
  match s with
  | c :: r => if is_dig c then skip_digits r else s
  | [] => []
  end.
(* int = zero / ( digit1-9 *DIGIT ), with an optional minus *)
Definition scan_nat (s : bytes) : option bytes :=
  match s with
  | c :: r =>
      if c =? 48 then match r with d :: _ => if is_dig d then None else Some r | [] => Some r end
      else if is_dig c then Some (skip_digits r)
      else None
  | [] => None
  end.
Definition scan_num (s : bytes) : option bytes :=
  match s with
  | c :: r => if c =? 45 then scan_nat r else scan_nat s
  | [] => None
  end.

Fixpoint strip (p s : bytes) : option bytes :=
  match p, s with
  | [], _ => Some s
  | x :: p', y :: s' => if x =? y then strip p' s' else None
  | _ :: _, [] => None
  end.

Fixpoint skip_val (fuel : nat) (s : bytes) : option bytes :=
  match fuel with
  | O => None
  | S f =>
      match s with
      | [] => None
      | c :: r =>
          if c =? 34 then scan_str r
          else if c =? 91 then
            match r with c2 :: r2 => if c2 =? 93 then Some r2 else skip_elems f r | [] => None end
          else if c =? 123 then
            match r with c2 :: r2 => if c2 =? 125 then Some r2 else skip_members f r | [] => None end
          else if c =? 110 then strip [117; 108; 108] r
          else if c =? 116 then strip [114; 117; 101] r
          else if c =? 102 then strip [97; 108; 115; 101] r
          else scan_num s
      end
  end
with skip_elems (fuel : nat) (s : bytes) : option bytes :=      (* value *( "," value ) "]" *)
  match fuel with
  | O => None
  | S f =>
      match skip_val f s with
      | Some (c :: r) => if c =? 44 then skip_elems f r else if c =? 93 then Some r else None
      | _ => None
      end
  end
with skip_members (fuel : nat) (s : bytes) : option bytes :=    (* string ":" value *( "," ... ) "}" *)
  match fuel with
  | O => None
  | S f =>
      match s with
      | q :: r =>
          if q =? 34 then
            match scan_str r with
            | Some (c :: r1) =>
                if c =? 58 then
                  match skip_val f r1 with
                  | Some (d :: r2) => if d =? 44 then skip_members f r2 else if d =? 125 then Some r2 else None
                  | _ => None
                  end
                else None
            | _ => None
            end
          else None
      | [] => None
      end
  end.

(* a text is JSON when the recogniser accepts all of it *)
Definition is_json (s : bytes) : Prop := exists f0, forall f, (f0 <= f)%nat -> skip_val f s = Some [].

(* what may follow a value for the number rule to stop where the number ends *)
Definition ok_follow (rest : bytes) : bool := match rest with c :: _ => negb (is_dig c) | [] => true end.

(* ================= strings ================= *)
Lemma scan_plain c tail : (c =? 34) = false -> (c =? 92) = false -> (c <? 32) = false -> scan_str (c :: tail) = scan_str tail.
Proof. intros A B C. cbn [scan_str]. rewrite A, B, C. reflexivity. Qed.
Lemma scan_high c tail : 128 <= c -> scan_str (c :: tail) = scan_str tail.
Proof.
  intros H. apply scan_plain.
  - apply N.eqb_neq. lia.
  - apply N.eqb_neq. lia.
  - apply N.ltb_ge. lia.
Qed.
Lemma scan_highs l tail : Forall high l -> scan_str (l ++ tail) = scan_str tail.
Proof. induction 1 as [|x l Hx _ IH]; [reflexivity|]. cbn [app]. rewrite scan_high by exact Hx. exact IH. Qed.
Lemma scan_esc e tail :
  ((e =? 34) || (e =? 92) || (e =? 47) || (e =? 98) || (e =? 102) || (e =? 110) || (e =? 114) || (e =? 116)) = true ->
  scan_str (92 :: e :: tail) = scan_str tail.
Proof. intros H. cbn [scan_str]. change (92 =? 34) with false. change (92 =? 92) with true. cbv iota. rewrite H. reflexivity. Qed.
Lemma scan_u a b c d tail :
  is_hex a = true -> is_hex b = true -> is_hex c = true -> is_hex d = true ->
  scan_str (92 :: 117 :: a :: b :: c :: d :: tail) = scan_str tail.
Proof.
  intros A B C D. cbn [scan_str]. change (92 =? 34) with false. change (92 =? 92) with true. cbv iota.
  change ((117 =? 34) || (117 =? 92) || (117 =? 47) || (117 =? 98) || (117 =? 102) || (117 =? 110) || (117 =? 114) || (117 =? 116)) with false.
  change (117 =? 117) with true. cbv iota. rewrite A, B, C, D. reflexivity.
Qed.

Lemma div16_lt8 c : c < 128 -> c / 16 < 16.
Proof. intros H. apply N.div_lt_upper_bound; lia. Qed.

Lemma scan_json_ascii c tail : c < 128 -> scan_str (json_ascii c ++ tail) = scan_str tail.
Proof.
  intros H. unfold json_ascii.
  destruct ((c =? 92) || (c =? 34)) eqn:E1.
  { cbn [app]. apply scan_esc. apply Bool.orb_true_iff in E1. destruct E1 as [E|E]; rewrite E; rewrite ?Bool.orb_true_r; reflexivity. }
  destruct (c =? 8); [apply scan_esc; reflexivity|].
  destruct (c =? 12); [apply scan_esc; reflexivity|].
  destruct (c =? 10); [apply scan_esc; reflexivity|].
  destruct (c =? 13); [apply scan_esc; reflexivity|].
  destruct (c =? 9); [apply scan_esc; reflexivity|].
  cbn [app]. apply scan_u; try reflexivity.
  - apply hexL_is_hex. apply div16_lt8. exact H.
  - apply hexL_is_hex. apply mod16_lt.
Qed.

Lemma scan_json_safe c tail : json_safe c = true -> scan_str (c :: tail) = scan_str tail.
Proof.
  unfold json_safe. intros H. apply Bool.andb_true_iff in H. destruct H as [H1 H2].
  apply Bool.negb_true_iff in H2.
  repeat match type of H2 with (_ || _) = false => apply Bool.orb_false_elim in H2; destruct H2 as [H2 ?] end.
  apply scan_plain; try assumption.
  apply N.ltb_ge. apply (inr_lo 32 127 c H1).
Qed.

(* the body of a string, then the closing quote: scanned exactly *)
Lemma scan_str_aux : forall s skip copy rest,
  (copy = true -> Forall high (firstn skip s)) ->
  scan_str (json_str_aux s skip copy ++ 34 :: rest) = Some rest.
Proof.
  induction s as [|c r IH]; intros skip copy rest Hinv.
  { cbn [json_str_aux app scan_str]. reflexivity. }
  cbn [json_str_aux]. destruct skip as [|k].
  - destruct (c <? 128) eqn:E128.
    + apply N.ltb_lt in E128. rewrite <- app_assoc. destruct (json_safe c) eqn:Es.
      * cbn [app]. rewrite scan_json_safe by exact Es. apply IH. intros _; constructor.
      * rewrite scan_json_ascii by exact E128. apply IH. intros _; constructor.
    + apply N.ltb_ge in E128. destruct (decode1 c r) as [rn size] eqn:Ed.
      destruct ((rn =? rune_error) && Nat.eqb size 1).
      { rewrite <- app_assoc. cbn [app]. rewrite scan_u by reflexivity. apply IH. intros _; constructor. }
      destruct ((rn =? 8232) || (rn =? 8233)).
      { rewrite <- app_assoc. cbn [app]. rewrite scan_u; try reflexivity.
        - apply IH. discriminate.
        - apply hexL_is_hex. apply mod16_lt. }
      cbn [app]. rewrite scan_high by exact E128. apply IH. intros _. exact (decode1_tail_high c r rn size Ed).
  - rewrite <- app_assoc. destruct copy.
    + specialize (Hinv eq_refl). cbn [firstn] in Hinv. inversion Hinv as [|x l Hx Hl]; subst.
      cbn [app]. rewrite scan_high by exact Hx. apply IH. intros _; exact Hl.
    + cbn [app]. apply IH. discriminate.
Qed.

Lemma scan_json_string s rest : scan_str (json_str_aux s 0 true ++ 34 :: rest) = Some rest.
Proof. apply scan_str_aux. intros _; constructor. Qed.

(* ================= numbers ================= *)
Lemma skip_digits_app d rest : forallb is_dig d = true -> ok_follow rest = true -> skip_digits (d ++ rest) = rest.
Proof.
  induction d as [|x d IH]; intros Hd Hr.
  - cbn [app]. destruct rest as [|c r]; [reflexivity|]. cbn [skip_digits]. cbn [ok_follow] in Hr.
    apply Bool.negb_true_iff in Hr. rewrite Hr. reflexivity.
  - cbn [forallb] in Hd. apply Bool.andb_true_iff in Hd. destruct Hd as [Hx Hd].
    cbn [app skip_digits]. rewrite Hx. apply IH; assumption.
Qed.

Lemma digit_of m : m < 10 -> is_dig (48 + m) = true.
Proof. intros H. unfold is_dig, inr. apply Bool.andb_true_iff. split; apply N.leb_le; lia. Qed.

(* the decimal printer: a first digit that is not zero, then digits, then what was there *)
Lemma digits_pos_shape fuel : forall n acc,
  n <> 0 -> n < 2 ^ N.of_nat fuel ->
  exists d ds, digits_pos fuel n acc = d :: ds ++ acc /\ is_dig d = true /\ (d =? 48) = false /\ forallb is_dig ds = true.
Proof.
  induction fuel as [|f IH]; intros n acc Hn Hlt.
  { cbn in Hlt. lia. }
  cbn [digits_pos]. cbv zeta.
  assert (Hm : n mod 10 < 10) by (apply N.mod_lt; discriminate).
  destruct (n / 10 =? 0) eqn:E.
  - apply N.eqb_eq in E. exists (48 + n mod 10), []. cbn [app forallb]. split; [reflexivity|].
    split; [apply digit_of; exact Hm|]. split; [|reflexivity].
    apply N.eqb_neq. assert (n < 10) by (apply N.div_small_iff in E; lia).
    rewrite N.mod_small by assumption. lia.
  - apply N.eqb_neq in E.
    assert (Hlt' : n / 10 < 2 ^ N.of_nat f).
    { apply N.div_lt_upper_bound; [discriminate|].
      rewrite Nat2N.inj_succ, N.pow_succ_r' in Hlt. lia. }
    destruct (IH (n / 10) ((48 + n mod 10) :: acc) E Hlt') as [d [ds [E1 [E2 [E3 E4]]]]].
    exists d, (ds ++ [48 + n mod 10]). rewrite E1. split.
    + rewrite <- app_assoc. reflexivity.
    + split; [exact E2|]. split; [exact E3|]. rewrite forallb_app, E4. cbn [forallb]. rewrite digit_of by exact Hm. reflexivity.
Qed.

Lemma dec_of_N_shape p :
  exists d ds, dec_of_N (Npos p) = d :: ds /\ is_dig d = true /\ (d =? 48) = false /\ forallb is_dig ds = true.
Proof.
  unfold dec_of_N.
  destruct (digits_pos_shape (S (N.to_nat (N.log2 (Npos p)))) (Npos p) []) as [d [ds [E1 [E2 [E3 E4]]]]].
  - discriminate.
  - rewrite Nat2N.inj_succ, N2Nat.id. apply N.log2_spec. reflexivity.
  - exists d, ds. rewrite E1, app_nil_r. auto.
Qed.

Lemma scan_nat_dec p rest : ok_follow rest = true -> scan_nat (dec_of_N (Npos p) ++ rest) = Some rest.
Proof.
  intros Hr. destruct (dec_of_N_shape p) as [d [ds [E1 [E2 [E3 E4]]]]]. rewrite E1.
  cbn [app scan_nat]. rewrite E3, E2. rewrite skip_digits_app by assumption. reflexivity.
Qed.

Lemma scan_num_dec z rest : ok_follow rest = true -> scan_num (dec_of_Z z ++ rest) = Some rest.
Proof.
  intros Hr. destruct z as [|p|p]; unfold dec_of_Z.
  - cbn [app scan_num scan_nat]. change (48 =? 45) with false. change (48 =? 48) with true. cbv iota.
    destruct rest as [|c r]; [reflexivity|]. cbn [ok_follow] in Hr. apply Bool.negb_true_iff in Hr. rewrite Hr. reflexivity.
  - destruct (dec_of_N_shape p) as [d [ds [E1 [E2 [E3 E4]]]]].
    assert (Hd45 : (d =? 45) = false).
    { unfold is_dig, inr in E2. apply Bool.andb_true_iff in E2. destruct E2 as [A _]. apply N.leb_le in A. apply N.eqb_neq. lia. }
    pose proof (scan_nat_dec p rest Hr) as H. rewrite E1 in *. cbn [app] in *. cbn [scan_num]. rewrite Hd45. exact H.
  - cbn [app scan_num]. change (45 =? 45) with true. cbv iota. apply scan_nat_dec. exact Hr.
Qed.

(* the first byte of a number is a digit or a minus: none of the other openers *)
Lemma dec_first z : exists c r, dec_of_Z z = c :: r /\ (c =? 34) = false /\ (c =? 91) = false /\ (c =? 123) = false /\
  (c =? 110) = false /\ (c =? 116) = false /\ (c =? 102) = false.
Proof.
  destruct z as [|p|p]; unfold dec_of_Z.
  - exists 48, []. repeat split; reflexivity.
  - destruct (dec_of_N_shape p) as [d [ds [E1 [E2 _]]]]. exists d, ds. split; [exact E1|].
    unfold is_dig, inr in E2. apply Bool.andb_true_iff in E2. destruct E2 as [A B]. apply N.leb_le in A, B.
    repeat split; apply N.eqb_neq; lia.
  - exists 45, (dec_of_N (Npos p)). repeat split; reflexivity.
Qed.

(* ================= values ================= *)
Definition accepts (v : json) : Prop :=
  forall rest, ok_follow rest = true -> exists f0, forall f, (f0 <= f)%nat -> skip_val f (json_encode v ++ rest) = Some rest.

Lemma ok_follow_punct c r : (c =? 44) || (c =? 93) || (c =? 125) = true -> ok_follow (c :: r) = true.
Proof.
  intros H. cbn [ok_follow]. apply Bool.negb_true_iff. unfold is_dig, inr.
  apply Bool.orb_true_iff in H. destruct H as [H|H]; [apply Bool.orb_true_iff in H; destruct H as [H|H]|];
    apply N.eqb_eq in H; subst c; reflexivity.
Qed.

(* the elements of an array after the opening bracket *)
Lemma elems_accept (go : list json -> bool -> bytes)
  (Hgo : forall x r first, go (x :: r) first = (if first then [] else [44]) ++ json_encode x ++ go r false)
  (Hnil : forall first, go [] first = []) :
  forall r x rest, accepts x -> Forall accepts r ->
  exists f0, forall f, (f0 <= f)%nat -> skip_elems f (json_encode x ++ go r false ++ 93 :: rest) = Some rest.
Proof.
  induction r as [|y r IH]; intros x rest Hx Hr.
  - rewrite Hnil. cbn [app].
    destruct (Hx (93 :: rest) (ok_follow_punct 93 rest eq_refl)) as [f0 H0].
    exists (S f0). intros f Hf. destruct f as [|f]; [lia|]. cbn [skip_elems].
    rewrite H0 by lia. change (93 =? 44) with false. change (93 =? 93) with true. reflexivity.
  - inversion Hr as [|y' r' Hy Hr']; subst.
    rewrite Hgo. cbn [app]. rewrite <- !app_assoc. cbn [app].
    destruct (IH y rest Hy Hr') as [f1 H1].
    destruct (Hx (44 :: json_encode y ++ go r false ++ 93 :: rest) (ok_follow_punct 44 _ eq_refl)) as [f0 H0].
    exists (S (Nat.max f0 f1)). intros f Hf. destruct f as [|f]; [lia|]. cbn [skip_elems].
    rewrite H0 by lia. change (44 =? 44) with true. cbv iota. apply H1. lia.
Qed.

Lemma members_accept (go : list (bytes * json) -> bool -> bytes)
  (Hgo : forall k x r first, go ((k, x) :: r) first = (if first then [] else [44]) ++ json_string k ++ [58] ++ json_encode x ++ go r false)
  (Hnil : forall first, go [] first = []) :
  forall r k x rest, accepts x -> Forall (fun kv => accepts (snd kv)) r ->
  exists f0, forall f, (f0 <= f)%nat ->
    skip_members f (json_string k ++ [58] ++ json_encode x ++ go r false ++ 125 :: rest) = Some rest.
Proof.
  induction r as [|[k' y] r IH]; intros k x rest Hx Hr.
  - rewrite Hnil. cbn [app].
    destruct (Hx (125 :: rest) (ok_follow_punct 125 rest eq_refl)) as [f0 H0].
    exists (S f0). intros f Hf. destruct f as [|f]; [lia|]. cbn [skip_members].
    unfold json_string. cbn [app]. change (34 =? 34) with true. cbv iota.
    rewrite <- app_assoc. cbn [app]. rewrite scan_json_string. change (58 =? 58) with true. cbv iota.
    rewrite H0 by lia. change (125 =? 44) with false. change (125 =? 125) with true. reflexivity.
  - inversion Hr as [|kv r' Hy Hr']; subst. cbn [snd] in Hy.
    rewrite Hgo. cbn [app]. rewrite <- !app_assoc. cbn [app].
    destruct (IH k' y rest Hy Hr') as [f1 H1].
    destruct (Hx (44 :: json_string k' ++ 58 :: json_encode y ++ go r false ++ 125 :: rest) (ok_follow_punct 44 _ eq_refl)) as [f0 H0].
    exists (S (Nat.max f0 f1)). intros f Hf. destruct f as [|f]; [lia|]. cbn [skip_members].
    unfold json_string at 1. cbn [app]. change (34 =? 34) with true. cbv iota.
    rewrite <- app_assoc. cbn [app]. rewrite scan_json_string. change (58 =? 58) with true. cbv iota.
    repeat (rewrite <- app_assoc; cbn [app]).
    rewrite H0 by lia. change (44 =? 44) with true. cbv iota.
    specialize (H1 f). repeat (rewrite <- app_assoc in H1; cbn [app] in H1). apply H1. lia.
Qed.

Lemma skip_val_obj f k tail : skip_val (S f) (123 :: json_string k ++ tail) = skip_members f (json_string k ++ tail).
Proof. unfold json_string. cbn [app skip_val]. reflexivity. Qed.

Theorem json_encode_accepted : forall v, accepts v.
Proof.
  apply json_ind'.
  - intros rest _. exists 1%nat. intros f Hf. destruct f as [|f]; [lia|]. reflexivity.
  - intros b rest _. exists 1%nat. intros f Hf. destruct f as [|f]; [lia|]. destruct b; reflexivity.
  - intros z rest Hr. exists 1%nat. intros f Hf. destruct f as [|f]; [lia|].
    destruct (dec_first z) as [c [r [E [A [B [C [D [E' F]]]]]]]].
    cbn [json_encode]. pose proof (scan_num_dec z rest Hr) as H. rewrite E in *. cbn [app] in *.
    cbn [skip_val]. rewrite A, B, C, D, E', F. exact H.
  - intros s rest _. exists 1%nat. intros f Hf. destruct f as [|f]; [lia|].
    cbn [json_encode]. unfold json_string. cbn [app skip_val]. change (34 =? 34) with true. cbv iota.
    rewrite <- app_assoc. cbn [app]. apply scan_json_string.
  - intros l Hl rest _. cbn [json_encode].
    match goal with |- exists _, forall _, _ -> skip_val _ ((91 :: ?g l true ++ [93]) ++ rest) = _ => set (go := g) end.
    destruct l as [|x r].
    + exists 1%nat. intros f Hf. destruct f as [|f]; [lia|]. reflexivity.
    + inversion Hl as [|x' r' Hx Hr]; subst.
      destruct (elems_accept go (fun _ _ _ => eq_refl) (fun _ => eq_refl) r x rest Hx Hr) as [f0 H0].
      exists (S f0). intros f Hf. destruct f as [|f]; [lia|].
      cbn [go]. fold go. cbn [app]. rewrite <- !app_assoc. cbn [app skip_val].
      change (91 =? 34) with false. change (91 =? 91) with true. cbv iota.
      (* the first byte of an encoded value is never the closing bracket *)
      assert (Hfirst : exists c t, json_encode x ++ go r false ++ 93 :: rest = c :: t /\ (c =? 93) = false).
      { destruct x as [| [|] |z|s|l'|m']; cbn [json_encode app]; try (eexists; eexists; split; [reflexivity|reflexivity]).
        destruct (dec_first z) as [c [t [E _]]]. rewrite E. cbn [app]. exists c, (t ++ go r false ++ 93 :: rest). split; [reflexivity|].
        destruct z as [|p|p]; unfold dec_of_Z in E; try (inversion E; subst; reflexivity).
        destruct (dec_of_N_shape p) as [d [ds [E1 [E2 _]]]]. rewrite E1 in E. inversion E; subst.
        unfold is_dig, inr in E2. apply Bool.andb_true_iff in E2. destruct E2 as [_ B]. apply N.leb_le in B. apply N.eqb_neq. lia. }
      destruct Hfirst as [c [t [Ec Hc]]].
      specialize (H0 f). rewrite Ec in *. rewrite Hc. apply H0. lia.
  - intros m Hm rest _. cbn [json_encode].
    match goal with |- exists _, forall _, _ -> skip_val _ ((123 :: ?g m true ++ [125]) ++ rest) = _ => set (go := g) end.
    destruct m as [|[k x] r].
    + exists 1%nat. intros f Hf. destruct f as [|f]; [lia|]. reflexivity.
    + inversion Hm as [|kv r' Hx Hr]; subst. cbn [snd] in Hx.
      destruct (members_accept go (fun _ _ _ _ => eq_refl) (fun _ => eq_refl) r k x rest Hx Hr) as [f0 H0].
      exists (S f0). intros f Hf. destruct f as [|f]; [lia|].
      cbn [go]. fold go. repeat (rewrite <- app_assoc; cbn [app]).
      rewrite skip_val_obj.
      specialize (H0 f). repeat (rewrite <- app_assoc in H0; cbn [app] in H0). apply H0. lia.
Qed.

(* what toJSON emits is a JSON text: the recogniser accepts it, all of it *)
Theorem to_json_is_json v : is_json (to_json v).
Proof.
  unfold is_json, to_json.
  destruct (json_encode_accepted (json_sorted v) [] eq_refl) as [f0 H].
  exists f0. intros f Hf. specialize (H f Hf). rewrite app_nil_r in H. exact H.
Qed.

(* the recogniser is not vacuous: it rejects what is not JSON *)
Example rejects_raw_control : skip_val 5 [34; 10; 34] = None.
Proof. reflexivity. Qed.
Example rejects_leading_zero : skip_val 5 [48; 49] = None.
Proof. reflexivity. Qed.
Example rejects_trailing_comma : skip_val 9 [91; 49; 44; 93] = None.
Proof. reflexivity. Qed.
Example rejects_unquoted_key : skip_val 9 [123; 97; 58; 49; 125] = None.
Proof. reflexivity. Qed.
Example accepts_nested : skip_val 9 [123; 34; 97; 34; 58; 91; 49; 44; 110; 117; 108; 108; 93; 125] = Some [].
Proof. reflexivity. Qed.
