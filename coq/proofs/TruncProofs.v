(* TruncProofs.v - truncate is idempotent (C20): truncating a result again
   with the same size and trail changes nothing, for every byte string
   (invalid UTF-8 included), every size and every trail. *)
From Coq Require Import Lia ZArith ZifyNat ZifyBool.
From Plush Require Import model.Bytes model.Text proofs.TextProofs proofs.Utf8Proofs.

Lemma truncate_trail trail size : truncate trail size trail = trail.
Proof.
  unfold truncate.
  destruct (Z.leb_spec (Z.of_nat (length (decode trail))) size) as [Hle|Hgt]; [reflexivity|].
  destruct (Z.leb_spec size (Z.of_nat (length (decode trail)))) as [_|Hc]; [reflexivity|lia].
Qed.

Theorem truncate_idempotent s size trail :
  truncate (truncate s size trail) size trail = truncate s size trail.
Proof.
  destruct (truncate_characters s size trail) as [[_ E]|[Hlong [[_ E]|[k [Hk [Hlt E]]]]]].
  - rewrite E at 1. reflexivity.
  - rewrite E. apply truncate_trail.
  - apply truncate_short. unfold rune_len in *. rewrite E, app_length, firstn_length. lia.
Qed.
