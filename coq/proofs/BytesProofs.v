(* BytesProofs.v - basic facts about byte-string utilities. *)
From Coq Require Import Lia.
From Plush Require Import model.Bytes.

Lemma beq_true a b : beq a b = true -> a = b.
Proof.
  revert b. induction a as [|x a IH]; destruct b as [|y b]; simpl; try discriminate; auto.
  intros H. apply andb_prop in H. destruct H as [H1 H2].
  apply N.eqb_eq in H1. apply IH in H2. congruence.
Qed.

Lemma beq_refl a : beq a a = true.
Proof. induction a as [|x a IH]; simpl; [reflexivity|]. rewrite N.eqb_refl. exact IH. Qed.

Lemma beq_false a b : beq a b = false -> a <> b.
Proof. intros H E. subst. rewrite beq_refl in H. discriminate. Qed.

Lemma beq_spec a b : reflect (a = b) (beq a b).
Proof.
  destruct (beq a b) eqn:E; constructor; [apply beq_true|apply beq_false]; exact E.
Qed.

Lemma beq_sym a b : beq a b = beq b a.
Proof.
  destruct (beq_spec a b), (beq_spec b a); congruence.
Qed.
