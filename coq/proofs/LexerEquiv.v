(* LexerEquiv.v - the token stream depends on the line counter only through the
   line stamps (C15), and on nothing but the bytes that remain (C18).

   One relational theorem, parametrised by a relation L between line numbers
   that is preserved by successor, is instantiated twice:
     L a b := b = a + k   (the counter starts k higher: every stamp is k higher)
     L a b := True        (layout changes lines only). *)
From Coq Require Import Lia.
From Plush Require Import model.Bytes model.Lexer proofs.BytesProofs proofs.LexerProofs.
Local Open Scope N_scope.

Section Rel.
Variable L : nat -> nat -> Prop.
Hypothesis L_S : forall a b, L a b -> L (S a) (S b).

(* two lexer states with the same remaining bytes and the same mode; the
   previous byte matters in text mode only *)
Definition R (l l' : lx) : Prop :=
  lrest l' = lrest l /\ linside l' = linside l /\ L (lline l) (lline l') /\
  (linside l = true \/ lprev l' = lprev l).
Definition Rt (t t' : token) : Prop := tk t' = tk t /\ tlit t' = tlit t /\ L (tline t) (tline t').
Definition Rres (x y : token * lx) : Prop := Rt (fst x) (fst y) /\ R (snd x) (snd y).

Lemma R_ch l l' : R l l' -> ch l' = ch l.
Proof. intros [H _]. unfold ch. rewrite H. reflexivity. Qed.

Lemma R_adv l l' : R l l' -> R (adv l) (adv l').
Proof.
  intros [Hr [Hi [Hl Hp]]]. unfold R, adv. cbn [lrest linside lline lprev].
  rewrite Hr, Hi. repeat split.
  - destruct (hd 0 (tl (lrest l)) =? 10); [apply L_S|]; exact Hl.
  - right. unfold ch. rewrite Hr. reflexivity.
Qed.
Lemma R_advn n : forall l l', R l l' -> R (advn n l) (advn n l').
Proof. induction n as [|n IH]; intros l l' H; [exact H|]. simpl. apply IH. apply R_adv. exact H. Qed.
Lemma R_set_inside b l l' : R l l' -> lprev l' = lprev l -> R (set_inside b l) (set_inside b l').
Proof.
  intros [Hr [Hi [Hl Hp]]] Hp'. unfold R, set_inside. cbn [lrest linside lline lprev].
  repeat split; try assumption. right. exact Hp'.
Qed.
Lemma R_set_inside_true l l' : R l l' -> R (set_inside true l) (set_inside true l').
Proof.
  intros [Hr [Hi [Hl Hp]]]. unfold R, set_inside. cbn [lrest linside lline lprev].
  repeat split; try assumption. left. reflexivity.
Qed.
Lemma R_skip_ws l l' : R l l' -> R (skip_ws l) (skip_ws l').
Proof.
  intros H. pose proof H as [Hr _]. unfold skip_ws. rewrite Hr.
  destruct (lrest l) as [|a [|b r]]; [apply R_adv|apply R_adv|apply R_advn]; exact H.
Qed.
Lemma R_line l l' : R l l' -> L (lline l) (lline l').
Proof. intros [_ [_ [H _]]]. exact H. Qed.

Lemma R_tail_tok sl sl' k lit l l' : L sl sl' -> R l l' -> Rres (tail_tok sl k lit l) (tail_tok sl' k lit l').
Proof. intros Hs H. split; [repeat split; exact Hs|apply R_adv; exact H]. Qed.
Lemma R_now_tok sl sl' k lit l l' : L sl sl' -> R l l' -> Rres (now_tok sl k lit l) (now_tok sl' k lit l').
Proof. intros Hs H. split; [repeat split; exact Hs|exact H]. Qed.
Lemma R_one k l l' : R l l' -> Rres (one l k) (one l' k).
Proof. intros H. unfold one. rewrite (R_ch l l' H). apply R_tail_tok; [apply R_line|]; exact H. Qed.
Lemma R_two k lit l l' : R l l' -> Rres (two l k lit) (two l' k lit).
Proof. intros H. unfold two. apply R_tail_tok; [apply R_line; exact H|apply R_adv; exact H]. Qed.

(* E_END leaves the tag: two readChars follow, so the previous byte agrees *)
Lemma R_two_leave k lit l l' : R l l' -> Rres (two (set_inside false l) k lit) (two (set_inside false l') k lit).
Proof.
  intros H. unfold two, tail_tok. cbn [fst snd]. split.
  - repeat split. exact (R_line l l' H).
  - pose proof (R_adv l l' H) as Ha. destruct H as [Hr [Hi [Hl Hp]]].
    unfold R, adv, set_inside, ch. cbn [lrest linside lline lprev]. rewrite Hr.
    repeat split.
    + destruct (hd 0 (tl (lrest l)) =? 10);
        destruct (hd 0 (tl (tl (lrest l))) =? 10); repeat apply L_S; exact Hl.
    + right. reflexivity.
Qed.

(* ---------- one token in code mode ---------- *)
Theorem R_next_inside_core : forall fuel l l', R (skip_ws l) (skip_ws l') -> Rres (next_inside fuel l) (next_inside fuel l').
Proof.
  induction fuel as [|f IH]; intros l0 l0' H0.
  - cbn [next_inside].
    pose proof H0 as H. clear H0.
    remember (skip_ws l0) as l eqn:El. remember (skip_ws l0') as l' eqn:El'. clear El El'.
    pose proof H as [Hr [Hi [Hl Hp]]].
    unfold peek. rewrite ?lrest_adv, ?lrest_set_inside. rewrite (R_ch l l' H). unfold ch. rewrite Hr. fold (ch l).
    repeat match goal with
           | |- context [if ?c then _ else _] => destruct c eqn:?
           | |- context [match number_kind ?x with _ => _ end] => destruct (number_kind x) eqn:?
           | |- context [let '(_, _) := ?x in _] => destruct x eqn:?
           end;
      first [ apply R_one; exact H
            | apply R_two; exact H
            | apply R_two_leave; exact H
            | apply R_tail_tok; [exact Hl|]; repeat apply R_adv; repeat apply R_advn; try apply R_set_inside_true; exact H
            | apply R_now_tok; [first [exact Hl|apply R_line; apply R_advn; exact H]|]; repeat apply R_advn; exact H ].
  - cbn [next_inside].
    pose proof H0 as H. clear H0.
    remember (skip_ws l0) as l eqn:El. remember (skip_ws l0') as l' eqn:El'. clear El El'.
    pose proof H as [Hr [Hi [Hl Hp]]].
    unfold peek. rewrite ?lrest_adv, ?lrest_set_inside. rewrite (R_ch l l' H). unfold ch. rewrite Hr. fold (ch l).
    repeat match goal with
           | |- context [if ?c then _ else _] => destruct c eqn:?
           | |- context [match number_kind ?x with _ => _ end] => destruct (number_kind x) eqn:?
           | |- context [let '(_, _) := ?x in _] => destruct x eqn:?
           | |- context [match lrest ?x with _ => _ end] => destruct (lrest x) eqn:?
           end;
      first [ apply R_one; exact H
            | apply R_two; exact H
            | apply R_two_leave; exact H
            | apply IH; apply R_skip_ws; first [exact H | repeat apply R_advn; repeat apply R_adv; exact H]
            | apply R_tail_tok; [exact Hl|]; repeat apply R_adv; repeat apply R_advn; try apply R_set_inside_true; exact H
            | apply R_now_tok; [first [exact Hl|apply R_line; apply R_advn; exact H]|]; repeat apply R_advn; exact H ].
Qed.

Theorem R_next_inside fuel l l' : R l l' -> Rres (next_inside fuel l) (next_inside fuel l').
Proof. intros H. apply R_next_inside_core. apply R_skip_ws. exact H. Qed.

(* ---------- one token in text mode ---------- *)
Lemma R_read_html l l' : R l l' -> lprev l' = lprev l ->
  fst (read_html l') = fst (read_html l) /\ R (snd (read_html l)) (snd (read_html l')).
Proof.
  intros H Hp. pose proof H as [Hr _]. unfold read_html. rewrite Hr, Hp.
  destruct (scan_html (lprev l) (lrest l)) as [[raw k] early].
  pose proof (R_advn k l l' H) as Hk.
  pose proof Hk as [Hkr _].
  unfold peek. rewrite (R_ch _ _ Hk), Hkr.
  destruct early; cbn [fst snd]; [split; [reflexivity|exact Hk]|].
  destruct ((ch (advn k l) =? 60) && (hd 0 (tl (lrest (advn k l))) =? 37)); cbn [fst snd];
    (split; [reflexivity|]); [apply R_set_inside_true|]; exact Hk.
Qed.

Theorem R_next_token fuel l l' : R l l' -> Rres (next_token fuel l) (next_token fuel l').
Proof.
  intros H. pose proof H as [Hr [Hi [Hl Hp]]]. unfold next_token. rewrite Hi.
  destruct (linside l) eqn:Ei; [apply R_next_inside; exact H|].
  destruct Hp as [Hp|Hp]; [discriminate|].
  unfold peek. rewrite (R_ch _ _ H), Hr.
  destruct (ch l =? 0); [split; [repeat split; exact Hl|exact H]|].
  destruct ((ch l =? 60) && (hd 0 (tl (lrest l)) =? 37)).
  - apply R_next_inside. apply R_set_inside_true. exact H.
  - destruct (R_read_html l l' H Hp) as [Hlit Hst].
    destruct (read_html l) as [lit m], (read_html l') as [lit' m']. cbn [fst snd] in *. subst lit'.
    split; [repeat split; apply R_line; exact Hst|exact Hst].
Qed.

(* ---------- the whole stream ---------- *)
Definition Ropt (a b : option (list token)) : Prop :=
  match a, b with
  | Some ts, Some ts' => Forall2 Rt ts ts'
  | None, None => True
  | _, _ => False
  end.

Theorem R_lex_all : forall fuel l l', R l l' -> Ropt (lex_all fuel l) (lex_all fuel l').
Proof.
  induction fuel as [|f IH]; intros l l' H; [exact I|].
  cbn [lex_all].
  pose proof (R_next_token (S f) l l' H) as Hn.
  destruct (next_token (S f) l) as [t m], (next_token (S f) l') as [t' m'].
  destruct Hn as [Ht Hm]. cbn [fst snd] in Ht, Hm.
  pose proof Ht as [Hk _]. rewrite Hk.
  pose proof H as [_ [Hi _]]. pose proof Hm as [Hmr _].
  assert (Hae: at_end m' = at_end m) by (unfold at_end; rewrite Hmr; reflexivity).
  rewrite Hae, Hi.
  pose proof (IH m m' Hm) as Hrec.
  assert (Hcons: Ropt (match lex_all f m with Some ts => Some (t :: ts) | None => None end)
                      (match lex_all f m' with Some ts => Some (t' :: ts) | None => None end)).
  { destruct (lex_all f m), (lex_all f m'); simpl in *; try contradiction; try exact I.
    constructor; assumption. }
  destruct (tk t); try exact Hcons.
  destruct (at_end m || negb (linside l)); [|exact Hcons].
  simpl. constructor; [exact Ht|constructor].
Qed.

End Rel.

(* ================= C15: the line counter ================= *)
Definition shift_tok (k : nat) (t : token) : token := mktok (tk t) (tlit t) (tline t + k).
Definition shift_lx (k : nat) (l : lx) : lx := mklx (lprev l) (lrest l) (linside l) (lline l + k).
Definition L_shift (k : nat) (a b : nat) : Prop := b = (a + k)%nat.

Lemma L_shift_S k a b : L_shift k a b -> L_shift k (S a) (S b).
Proof. unfold L_shift. lia. Qed.

Lemma Forall2_shift k ts ts' : Forall2 (Rt (L_shift k)) ts ts' -> ts' = map (shift_tok k) ts.
Proof.
  induction 1 as [|t t' ts ts' [Hk [Hl Hn]] _ IH]; [reflexivity|].
  simpl. f_equal; [|exact IH]. destruct t, t'. unfold shift_tok, L_shift in *. simpl in *. subst. reflexivity.
Qed.

(* starting the line counter k higher raises the line of every token by
   exactly k and changes nothing else: not the kinds, not the literals, not
   the number of tokens, not whether lexing succeeds *)
Theorem lex_all_line_shift k fuel l :
  lex_all fuel (shift_lx k l) = option_map (map (shift_tok k)) (lex_all fuel l).
Proof.
  assert (H: R (L_shift k) l (shift_lx k l)).
  { unfold R, shift_lx, L_shift. cbn [lrest linside lline lprev]. repeat split. right. reflexivity. }
  pose proof (R_lex_all (L_shift k) (L_shift_S k) fuel l (shift_lx k l) H) as Hr.
  unfold Ropt in Hr. destruct (lex_all fuel l), (lex_all fuel (shift_lx k l)); try contradiction; [|reflexivity].
  simpl. f_equal. apply Forall2_shift. exact Hr.
Qed.

(* readChar moves the counter by one exactly when it moves onto a newline;
   so consuming n bytes raises it by the number of newlines among the n bytes
   that follow the current one *)
Fixpoint count_nl (s : bytes) : nat :=
  match s with [] => O | c :: r => ((if (c =? 10)%N then 1 else 0) + count_nl r)%nat end.

Theorem line_after_advn n : forall l,
  lline (advn n l) = (lline l + count_nl (firstn n (tl (lrest l))))%nat.
Proof.
  induction n as [|n IH]; intros l; [simpl; lia|].
  cbn [advn]. rewrite IH. unfold adv. cbn [lline lrest].
  destruct (tl (lrest l)) as [|c r]; [simpl; destruct n; simpl; lia|].
  cbn [hd tl firstn count_nl]. destruct (c =? 10); lia.
Qed.

(* k newlines of text in front of anything raise the counter by exactly k *)
Theorem line_after_newlines k s :
  lline (advn k (lx_init (repeat 10 k ++ s))) = (lline (lx_init s) + k)%nat.
Proof.
  destruct k as [|k]; [simpl; lia|].
  rewrite line_after_advn. unfold lx_init. cbn [lline lrest repeat app hd tl].
  change (10 =? 10) with true. cbn iota.
  assert (H: forall j t, count_nl (firstn (S j) (repeat 10 j ++ t)) = (j + (if (hd 0 t =? 10)%N then 1 else 0))%nat).
  { induction j as [|j IHj]; intros t.
    - destruct t as [|c t]; simpl; [reflexivity|]. destruct (c =? 10); reflexivity.
    - change (repeat 10 (S j) ++ t) with (10 :: (repeat 10 j ++ t)).
      change (firstn (S (S j)) (10 :: (repeat 10 j ++ t))) with (10 :: firstn (S j) (repeat 10 j ++ t)).
      cbn [count_nl]. rewrite IHj. change (10 =? 10) with true. cbn iota. lia. }
  rewrite H. destruct (hd 0 s =? 10); lia.
Qed.

(* ================= C18: layout ================= *)
Definition L_any (a b : nat) : Prop := True.
Lemma L_any_S a b : L_any a b -> L_any (S a) (S b).
Proof. trivial. Qed.

(* two code-mode states with the same remaining bytes give the same token
   (kind and literal) and equivalent successor states, whatever the lines and
   the byte before *)
Theorem next_inside_layout fuel l l' : lrest l' = lrest l -> linside l = true -> linside l' = true ->
  Rres L_any (next_inside fuel l) (next_inside fuel l').
Proof.
  intros Hr Hi Hi'. apply R_next_inside; [exact L_any_S|].
  unfold R, L_any. rewrite Hi, Hi'. repeat split; [exact Hr|left; reflexivity].
Qed.

Lemma ws_count_app w r : forallb is_ws w = true -> ws_count (w ++ r) = (length w + ws_count r)%nat.
Proof.
  induction w as [|c w IH]; intros H; [reflexivity|].
  simpl in H. apply andb_prop in H. destruct H as [Hc Hw].
  cbn [app ws_count length]. rewrite Hc, IH by exact Hw. reflexivity.
Qed.

(* inserting spaces, tabs and line ends in front of a token changes neither
   the token nor what follows it (two bytes must remain: the lexer consumes a
   last byte blindly, whatever it is) *)
Theorem whitespace_insertion fuel l l' w :
  forallb is_ws w = true -> lrest l' = w ++ lrest l -> (2 <= length (lrest l))%nat ->
  linside l = true -> linside l' = true ->
  Rres L_any (next_inside fuel l) (next_inside fuel l').
Proof.
  intros Hw Hr Hlen Hi Hi'.
  assert (Hs: R L_any (skip_ws l) (skip_ws l')).
  { unfold skip_ws. rewrite Hr.
    destruct (lrest l) as [|a [|b r]] eqn:Er; [simpl in Hlen; lia|simpl in Hlen; lia|].
    assert (Hw2: exists x y z, w ++ a :: b :: r = x :: y :: z).
    { destruct w as [|x [|y z]]; simpl; eauto. }
    destruct Hw2 as [x [y [z Hxyz]]]. rewrite Hxyz. rewrite <- Hxyz.
    rewrite ws_count_app by exact Hw.
    unfold R, L_any. rewrite !lrest_advn, !linside_advn, Hr, Er, Hi, Hi'.
    repeat split; [|left; reflexivity].
    clear. induction w as [|c w IHw]; [reflexivity|exact IHw]. }
  apply R_next_inside_core; [exact L_any_S|exact Hs].
Qed.

(* a # comment is skipped up to the end of its line: the token returned is the
   one that follows it *)
Theorem line_comment_skipped f l c r1 :
  ch (skip_ws l) = 35 -> lrest (skip_ws l) = c :: r1 ->
  next_inside (S f) l = next_inside f (advn (S (at_cmt r1)) (skip_ws l)).
Proof.
  intros Hc Hr. cbn [next_inside]. rewrite Hc, Hr. reflexivity.
Qed.
Theorem comment_extent s r : (forall c, In c s -> c <> 10 /\ c <> 13 /\ c <> 0) ->
  at_cmt (s ++ 10 :: r) = length s.
Proof.
  induction s as [|c s IH]; intros H; [reflexivity|].
  cbn [app at_cmt length]. destruct (H c (or_introl eq_refl)) as [H1 [H2 H3]].
  apply N.eqb_neq in H1, H2, H3. rewrite H1, H2, H3. cbn [orb]. f_equal. apply IH.
  intros x Hx. apply H. right. exact Hx.
Qed.
