(* StmtProofs.v - C15, the statement an error is blamed on, as a global
   invariant of the evaluator model: an evaluation that SUCCEEDS leaves the
   current statement (compiler.curStmt, the line an error is reported at) as it
   found it - whatever blocks, loops, function bodies, helper blocks and
   partials ran on the way.  So an error raised later in the same tag is
   reported at that tag, never at the last statement of something that
   completed earlier (the defect repaired by the fix for C15 cannot recur in
   any other construct).  The two functions that walk the statements of a
   block (eval_stmts, eval_stmt) set the current statement as they go and are
   exempt; the block that contains them restores it. *)
From Coq Require Import Lia.
From Plush Require Import model.Bytes model.Lexer model.Ast model.Parser model.Ctx model.Text model.Iter model.Value model.Eval.
Local Open Scope N_scope.

Definition SC {A} (c : option nat) (r : res (A * state)) : Prop :=
  match r with
  | ROk (_, s) => sstmt s = c
  | _ => True
  end.
(* top-level execution resets the current statement at every tag: no claim *)
Definition SCo (c : option nat) (o : outcome) : Prop := True.

Lemma sc_with_ctx st s : sstmt (with_ctx st s) = sstmt st. Proof. reflexivity. Qed.
Lemma sc_with_heap st h : sstmt (with_heap st h) = sstmt st. Proof. reflexivity. Qed.
Lemma sc_with_cur st c : sstmt (with_cur st c) = sstmt st. Proof. reflexivity. Qed.
Lemma sc_with_stmt st l : sstmt (with_stmt st l) = l. Proof. reflexivity. Qed.
Lemma sc_log_ev st e : sstmt (log_ev st e) = sstmt st. Proof. reflexivity. Qed.

Section Stmt.
Variable G : genv.

Lemma sc_set_in st c k v : sstmt (set_in st c k v) = sstmt st. Proof. reflexivity. Qed.
Lemma sc_set_all kvs : forall st c, sstmt (set_all st c kvs) = sstmt st.
Proof.
  unfold set_all. induction kvs as [|kv r IH]; intros st c; simpl; [reflexivity|].
  rewrite IH. reflexivity.
Qed.
Lemma sc_copy_data st a b : sstmt (copy_data st a b) = sstmt st.
Proof. unfold copy_data. apply sc_set_all. Qed.
Lemma sc_cnew_of st p st1 n : cnew_of G st p = (st1, n) -> sstmt st1 = sstmt st.
Proof. unfold cnew_of. destruct (Ctx.new_child _ _ _ _ _ _) as [s' m]. intros E; inversion E; subst. reflexivity. Qed.
Lemma sc_cnew st st1 n : cnew G st = (st1, n) -> sstmt st1 = sstmt st.
Proof. apply sc_cnew_of. Qed.
Lemma sc_halloc st c st1 l : halloc_st st c = (st1, l) -> sstmt st1 = sstmt st.
Proof. unfold halloc_st. destruct (halloc _ _) as [h m]. intros E; inversion E; subst. reflexivity. Qed.
Lemma sc_auto_arg st p blk st1 b : auto_arg st p blk = (st1, b) -> sstmt st1 = sstmt st.
Proof.
  unfold auto_arg. destruct p; try (intros E; inversion E; subst; reflexivity).
  all: destruct (halloc_st st _) as [s l] eqn:Eh; intros E; inversion E; subst; eapply sc_halloc; eassumption.
Qed.

Lemma SC_rbind {A B} c (m : res (A * state)) (k : A * state -> res (B * state)) :
  SC c m -> (forall a s, sstmt s = c -> SC c (k (a, s))) -> SC c (rbind m k).
Proof. destruct m as [[a s]|e s| | |]; simpl; auto. Qed.
(* a deferred restore decides the scope whatever happened inside *)
Lemma SC_rfinal c g r : (forall s, sstmt (g s) = sstmt s) -> SC c r -> SC c (rfinal g r).
Proof. intros Hg. destruct r as [[v s]|e s| | |]; simpl; auto. rewrite Hg. auto. Qed.
Lemma SC_tolerate c b o r : o = c -> SC c r -> SC c (tolerate b o r).
Proof. intros E. destruct r as [[v s]|e s| | |]; simpl; auto. destruct (b && is_unknown e)%bool; simpl; auto. Qed.
Lemma SC_of_opres c o st : sstmt st = c -> SC c (of_opres o st).
Proof. intros H. destruct o; simpl; auto. Qed.
Lemma SC_fail {A} c st : SC c (@fail (A * state) st).
Proof. exact I. Qed.
Lemma SC_ok {A} c (a : A) st : sstmt st = c -> SC c (ROk (a, st)).
Proof. auto. Qed.
Lemma SC_err {A} c e st : @SC A c (RErr e st).
Proof. exact I. Qed.
Lemma SC_eq {A} c c' (r : res (A * state)) : SC c' r -> c' = c -> SC c r.
Proof. intros H E. subst. exact H. Qed.
Lemma SCo_eq c c' o : SCo c' o -> c' = c -> SCo c o.
Proof. intros H E. subst. exact H. Qed.

Record SS (ev : evals) : Prop := mkSS {
  s_eval : forall st e, SC (sstmt st) (r_eval ev st e);
  s_eval_chain : forall st c, SC (sstmt st) (r_eval_chain ev st c);
  s_eval_list : forall st es, SC (sstmt st) (r_eval_list ev st es);
  s_eval_pairs : forall st ps acc, SC (sstmt st) (r_eval_pairs ev st ps acc);
  s_eval_infix : forall st op l r, SC (sstmt st) (r_eval_infix ev st op l r);
  s_eval_if : forall st bs els, SC (sstmt st) (r_eval_if ev st bs els);
  s_eval_block : forall st b, SC (sstmt st) (r_eval_block ev st b);
  s_eval_stmts : forall (st : state) (ss : list stmt) (acc : list value), True;
  s_eval_stmt : forall (st : state) (s : stmt), True;
  s_eval_for : forall st k v it b, SC (sstmt st) (r_eval_for ev st k v it b);
  s_for_body : forall st k v b kv vv, SC (sstmt st) (r_for_body ev st k v b kv vv);
  s_for_items : forall st k v b items acc, SC (sstmt st) (r_for_items ev st k v b items acc);
  s_for_slice : forall st k v b loc i acc, SC (sstmt st) (r_for_slice ev st k v b loc i acc);
  s_for_iter : forall st k v b loc i acc, SC (sstmt st) (r_for_iter ev st k v b loc i acc);
  s_eval_index : forall st l i v c, SC (sstmt st) (r_eval_index ev st l i v c);
  s_index_callee : forall st x ls c, SC (sstmt st) (r_index_callee ev st x ls c);
  s_eval_call : forall st fn callee args blk chain, SC (sstmt st) (r_eval_call ev st fn callee args blk chain);
  s_user_call : forall st ps body args, SC (sstmt st) (r_user_call ev st ps body args);
  s_bind_params : forall st ps args, SC (sstmt st) (r_bind_params ev st ps args);
  s_bind_args : forall st sg args blk, SC (sstmt st) (r_bind_args ev st sg args blk);
  s_bind_fixed : forall st ps args, SC (sstmt st) (r_bind_fixed ev st ps args);
  s_bind_variadic : forall st p args, SC (sstmt st) (r_bind_variadic ev st p args);
  s_block_with : forall st blk ctx, SC (sstmt st) (r_block_with ev st blk ctx);
  s_block_in_child : forall st blk parent data, SC (sstmt st) (r_block_in_child ev st blk parent data);
  s_go_apply : forall st id cfg recv bs, SC (sstmt st) (r_go_apply ev st id cfg recv bs);
  s_partial_call : forall st name data ctx, SC (sstmt st) (r_partial_call ev st name data ctx);
  s_exec_prog : forall st prog out, SCo (sstmt st) (r_exec_prog ev st prog out)
}.

Lemma SS_bottom : SS evals_bottom.
Proof. constructor; intros; exact I. Qed.

Ltac sc_norm :=
  repeat first
    [ rewrite sc_with_cur | rewrite sc_with_ctx | rewrite sc_with_heap | rewrite sc_with_stmt | rewrite sc_log_ev
    | rewrite sc_set_in | rewrite sc_set_all | rewrite sc_copy_data ].
Ltac sc_solve := sc_norm; first [assumption | reflexivity | congruence].

Ltac harvest :=
  repeat match goal with
  | H : cnew G _ = (_, _) |- _ => apply sc_cnew in H
  | H : cnew_of G _ _ = (_, _) |- _ => apply sc_cnew_of in H
  | H : halloc_st _ _ = (_, _) |- _ => apply sc_halloc in H
  | H : auto_arg _ _ _ = (_, _) |- _ => apply sc_auto_arg in H
  end.

Ltac digest E :=
  repeat match type of E with
         | match ?y with _ => _ end = _ => destruct y eqn:?
         | (let '(_, _) := ?y in _) = _ => destruct y eqn:?
         end;
  harvest; inversion E; subst; clear E.

Ltac s_ih H :=
  match goal with
  | |- SC _ (r_eval _ _ _) => eapply SC_eq; [apply (s_eval _ H)|sc_solve]
  | |- SC _ (r_eval_chain _ _ _) => eapply SC_eq; [apply (s_eval_chain _ H)|sc_solve]
  | |- SC _ (r_eval_list _ _ _) => eapply SC_eq; [apply (s_eval_list _ H)|sc_solve]
  | |- SC _ (r_eval_pairs _ _ _ _) => eapply SC_eq; [apply (s_eval_pairs _ H)|sc_solve]
  | |- SC _ (r_eval_infix _ _ _ _ _) => eapply SC_eq; [apply (s_eval_infix _ H)|sc_solve]
  | |- SC _ (r_eval_if _ _ _ _) => eapply SC_eq; [apply (s_eval_if _ H)|sc_solve]
  | |- SC _ (r_eval_block _ _ _) => eapply SC_eq; [apply (s_eval_block _ H)|sc_solve]
  | |- SC _ (r_eval_for _ _ _ _ _ _) => eapply SC_eq; [apply (s_eval_for _ H)|sc_solve]
  | |- SC _ (r_for_body _ _ _ _ _ _ _) => eapply SC_eq; [apply (s_for_body _ H)|sc_solve]
  | |- SC _ (r_for_items _ _ _ _ _ _ _) => eapply SC_eq; [apply (s_for_items _ H)|sc_solve]
  | |- SC _ (r_for_slice _ _ _ _ _ _ _ _) => eapply SC_eq; [apply (s_for_slice _ H)|sc_solve]
  | |- SC _ (r_for_iter _ _ _ _ _ _ _ _) => eapply SC_eq; [apply (s_for_iter _ H)|sc_solve]
  | |- SC _ (r_eval_index _ _ _ _ _ _) => eapply SC_eq; [apply (s_eval_index _ H)|sc_solve]
  | |- SC _ (r_index_callee _ _ _ _ _) => eapply SC_eq; [apply (s_index_callee _ H)|sc_solve]
  | |- SC _ (r_eval_call _ _ _ _ _ _ _) => eapply SC_eq; [apply (s_eval_call _ H)|sc_solve]
  | |- SC _ (r_user_call _ _ _ _ _) => eapply SC_eq; [apply (s_user_call _ H)|sc_solve]
  | |- SC _ (r_bind_params _ _ _ _) => eapply SC_eq; [apply (s_bind_params _ H)|sc_solve]
  | |- SC _ (r_bind_args _ _ _ _ _) => eapply SC_eq; [apply (s_bind_args _ H)|sc_solve]
  | |- SC _ (r_bind_fixed _ _ _ _) => eapply SC_eq; [apply (s_bind_fixed _ H)|sc_solve]
  | |- SC _ (r_bind_variadic _ _ _ _) => eapply SC_eq; [apply (s_bind_variadic _ H)|sc_solve]
  | |- SC _ (r_block_with _ _ _ _) => eapply SC_eq; [apply (s_block_with _ H)|sc_solve]
  | |- SC _ (r_block_in_child _ _ _ _ _) => eapply SC_eq; [apply (s_block_in_child _ H)|sc_solve]
  | |- SC _ (r_go_apply _ _ _ _ _ _) => eapply SC_eq; [apply (s_go_apply _ H)|sc_solve]
  | |- SC _ (r_partial_call _ _ _ _ _) => eapply SC_eq; [apply (s_partial_call _ H)|sc_solve]
  | |- SCo _ (r_exec_prog _ _ _ _) => eapply SCo_eq; [apply (s_exec_prog _ H)|sc_solve]
  end.

(* the invariant of a scrutinee, at the scope IT starts in *)
Ltac s_raw H x :=
  lazymatch x with
  | r_eval _ _ _ => apply (s_eval _ H)
  | r_eval_chain _ _ _ => apply (s_eval_chain _ H)
  | r_eval_list _ _ _ => apply (s_eval_list _ H)
  | r_eval_pairs _ _ _ _ => apply (s_eval_pairs _ H)
  | r_eval_infix _ _ _ _ _ => apply (s_eval_infix _ H)
  | r_eval_if _ _ _ _ => apply (s_eval_if _ H)
  | r_eval_block _ _ _ => apply (s_eval_block _ H)
  | r_eval_for _ _ _ _ _ _ => apply (s_eval_for _ H)
  | r_for_body _ _ _ _ _ _ _ => apply (s_for_body _ H)
  | r_for_items _ _ _ _ _ _ _ => apply (s_for_items _ H)
  | r_for_slice _ _ _ _ _ _ _ _ => apply (s_for_slice _ H)
  | r_for_iter _ _ _ _ _ _ _ _ => apply (s_for_iter _ H)
  | r_eval_index _ _ _ _ _ _ => apply (s_eval_index _ H)
  | r_index_callee _ _ _ _ _ => apply (s_index_callee _ H)
  | r_eval_call _ _ _ _ _ _ _ => apply (s_eval_call _ H)
  | r_user_call _ _ _ _ _ => apply (s_user_call _ H)
  | r_bind_params _ _ _ _ => apply (s_bind_params _ H)
  | r_bind_args _ _ _ _ _ => apply (s_bind_args _ H)
  | r_bind_fixed _ _ _ _ => apply (s_bind_fixed _ H)
  | r_bind_variadic _ _ _ _ => apply (s_bind_variadic _ H)
  | r_block_with _ _ _ _ => apply (s_block_with _ H)
  | r_block_in_child _ _ _ _ _ => apply (s_block_in_child _ H)
  | r_go_apply _ _ _ _ _ _ => apply (s_go_apply _ H)
  | r_partial_call _ _ _ _ _ => apply (s_partial_call _ H)
  | r_exec_prog _ _ _ _ => apply (s_exec_prog _ H)
  end.

Ltac s_scrut H c x tac :=
  let T := type of x in
  let T' := eval hnf in T in
  lazymatch T' with
  | res _ =>
      let Hq := fresh "Hq" in
      first [ assert (Hq : SC c x) by tac;
              destruct x as [[? ?]|? ?|?| |] eqn:?; cbn [SC] in Hq; sc_norm_in Hq
            | destruct x as [[? ?]|? ?|?| |] eqn:? ]
  | outcome =>
      let Hq := fresh "Hq" in
      destruct x as [? ?|? ? ?|?|?| |] eqn:?
  | _ => destruct x eqn:?; harvest
  end
with sc_norm_in Hq :=
  repeat first
    [ rewrite sc_with_cur in Hq | rewrite sc_with_ctx in Hq | rewrite sc_with_heap in Hq | rewrite sc_with_stmt in Hq
    | rewrite sc_log_ev in Hq | rewrite sc_set_in in Hq | rewrite sc_set_all in Hq | rewrite sc_copy_data in Hq ].

Ltac s_step H :=
  match goal with
  | |- SC _ (rbind _ _) => apply SC_rbind; [|intros ? ? ?; cbv beta iota zeta]
  | |- SC _ (rfinal _ _) => apply SC_rfinal; [intros; sc_solve|]
  | |- SC _ (tolerate _ _ _) => apply SC_tolerate; [sc_solve|]
  | |- SC _ (of_opres _ _) => apply SC_of_opres; sc_solve
  | |- SC _ (fail _) => exact I
  | |- SC _ (ROk (_, _)) => apply SC_ok; sc_solve
  | |- SC _ (RErr _ _) => exact I
  | |- SC _ (RPanic _) => exact I
  | |- SC _ RFuel => exact I
  | |- SC _ RUnsup => exact I
  | |- SCo _ _ => exact I
  | |- SCo _ (OParseErr _) => exact I
  | |- SCo _ (OPanic _) => exact I
  | |- SCo _ OFuel => exact I
  | |- SCo _ OUnsup => exact I
  | |- SC _ (r_eval _ _ _) => s_ih H
  | |- SC _ (r_eval_chain _ _ _) => s_ih H
  | |- SC _ (r_eval_list _ _ _) => s_ih H
  | |- SC _ (r_eval_pairs _ _ _ _) => s_ih H
  | |- SC _ (r_eval_infix _ _ _ _ _) => s_ih H
  | |- SC _ (r_eval_if _ _ _ _) => s_ih H
  | |- SC _ (r_eval_block _ _ _) => s_ih H
  | |- SC _ (r_eval_for _ _ _ _ _ _) => s_ih H
  | |- SC _ (r_for_body _ _ _ _ _ _ _) => s_ih H
  | |- SC _ (r_for_items _ _ _ _ _ _ _) => s_ih H
  | |- SC _ (r_for_slice _ _ _ _ _ _ _ _) => s_ih H
  | |- SC _ (r_for_iter _ _ _ _ _ _ _ _) => s_ih H
  | |- SC _ (r_eval_index _ _ _ _ _ _) => s_ih H
  | |- SC _ (r_index_callee _ _ _ _ _) => s_ih H
  | |- SC _ (r_eval_call _ _ _ _ _ _ _) => s_ih H
  | |- SC _ (r_user_call _ _ _ _ _) => s_ih H
  | |- SC _ (r_bind_params _ _ _ _) => s_ih H
  | |- SC _ (r_bind_args _ _ _ _ _) => s_ih H
  | |- SC _ (r_bind_fixed _ _ _ _) => s_ih H
  | |- SC _ (r_bind_variadic _ _ _ _) => s_ih H
  | |- SC _ (r_block_with _ _ _ _) => s_ih H
  | |- SC _ (r_block_in_child _ _ _ _ _) => s_ih H
  | |- SC _ (r_go_apply _ _ _ _ _ _) => s_ih H
  | |- SC _ (r_partial_call _ _ _ _ _) => s_ih H
  | |- SCo _ (r_exec_prog _ _ _ _) => s_ih H
  | |- SC ?c (match ?x with _ => _ end) => s_scrut H c x ltac:(cbv zeta; repeat (s_step H; cbv zeta))
  | |- SCo ?c (match ?x with _ => _ end) => s_scrut H c x ltac:(cbv zeta; repeat (s_step H; cbv zeta))
  | |- SC _ (let '(_, _) := ?x in _) => destruct x eqn:?; harvest
  | |- SCo _ (let '(_, _) := ?x in _) => destruct x eqn:?; harvest
  | |- SC _ (if ?x then _ else _) => destruct x eqn:?
  | |- SCo _ (if ?x then _ else _) => destruct x eqn:?
  | E : match _ with _ => _ end = (_, _) |- _ => digest E
  end.
Ltac s_solve H := cbv zeta; repeat (s_step H; cbv zeta).

Lemma SS_step ev : SS ev -> SS (evals_step G ev).
Proof.
  intros H. constructor; intros; cbn [evals_step r_eval r_eval_chain r_eval_list r_eval_pairs r_eval_infix r_eval_if
    r_eval_block r_eval_stmts r_eval_stmt r_eval_for r_for_body r_for_items r_for_slice r_for_iter r_eval_index
    r_index_callee r_eval_call r_user_call r_bind_params r_bind_args r_bind_fixed r_bind_variadic r_block_with
    r_block_in_child r_go_apply r_partial_call r_exec_prog].
  - unfold eval_step. s_solve H.
  - unfold eval_chain_step. s_solve H.
  - unfold eval_list_step. s_solve H.
  - unfold eval_pairs_step. s_solve H.
  - unfold eval_infix_step. s_solve H.
  - unfold eval_if_step. s_solve H.
  - unfold eval_block_step. s_solve H.
  - exact I.
  - exact I.
  - unfold eval_for_step. s_solve H.
  - unfold for_body_step. s_solve H.
  - unfold for_items_step. s_solve H.
  - unfold for_slice_step. s_solve H.
  - unfold for_iter_step. cbv zeta.
    match goal with |- SC _ (match ?n with _ => _ end) =>
      assert (Hn : forall x s, n = Some (x, s) -> sstmt s = sstmt st);
      [ intros x s E;
        repeat match type of E with
               | match ?y with _ => _ end = _ => destruct y eqn:?; try discriminate
               | (let (_, _) := ?y in _) = _ => destruct y eqn:?
               end; inversion E; subst; reflexivity
      | destruct n as [[x0 s0]|] eqn:En; [pose proof (Hn _ _ eq_refl) as Hs0|] ]
    end; s_solve H.
  - unfold eval_index_step. s_solve H.
  - unfold index_callee_step. s_solve H.
  - unfold eval_call_step. s_solve H.
  - unfold user_call_step. s_solve H.
  - unfold bind_params_step. s_solve H.
  - unfold bind_args_step. s_solve H.
  - unfold bind_fixed_step. s_solve H.
  - unfold bind_variadic_step. s_solve H.
  - unfold block_with_step. s_solve H.
  - unfold block_in_child_step. s_solve H.
  - unfold go_apply_step. s_solve H.
  - unfold partial_call_step. s_solve H.
  - unfold exec_prog_step. s_solve H.
Qed.

Theorem SS_at fuel : SS (evals_at G fuel).
Proof. induction fuel as [|f IH]; [exact SS_bottom|exact (SS_step _ IH)]. Qed.

(* ---- the fuel-indexed forms ---- *)
Theorem eval_ok_keeps_statement fuel st e v st1 :
  eval G fuel st e = ROk (v, st1) -> sstmt st1 = sstmt st.
Proof. intros E. pose proof (s_eval _ (SS_at fuel) st e) as H. unfold eval in E. rewrite E in H. exact H. Qed.

Theorem eval_list_ok_keeps_statement fuel st es vs st1 :
  eval_list G fuel st es = ROk (vs, st1) -> sstmt st1 = sstmt st.
Proof. intros E. pose proof (s_eval_list _ (SS_at fuel) st es) as H. unfold eval_list in E. rewrite E in H. exact H. Qed.

Theorem user_call_ok_keeps_statement fuel st ps body args v st1 :
  user_call G fuel st ps body args = ROk (v, st1) -> sstmt st1 = sstmt st.
Proof. intros E. pose proof (s_user_call _ (SS_at fuel) st ps body args) as H. unfold user_call in E. rewrite E in H. exact H. Qed.

Theorem partial_ok_keeps_statement fuel st name data ctx v st1 :
  partial_call G fuel st name data ctx = ROk (v, st1) -> sstmt st1 = sstmt st.
Proof. intros E. pose proof (s_partial_call _ (SS_at fuel) st name data ctx) as H. unfold partial_call in E. rewrite E in H. exact H. Qed.

End Stmt.
