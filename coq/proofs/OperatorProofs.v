(* OperatorProofs.v - the typed operator tables of model/Value.v against the
   documented meaning of each operator (C06). *)
From Coq Require Import Lia ZArith Floats.
From Plush Require Import model.Bytes model.Iter model.Text model.Value proofs.BytesProofs proofs.IterProofs.
Local Open Scope Z_scope.

(* ---------- integers ---------- *)
Theorem ints_div_truncates a b : b <> 0 -> ints_op o_div a b = OpV (VInt (wrap64 (Z.quot a b))).
Proof. intros H. unfold ints_op. simpl. destruct (Z.eqb_spec b 0); [contradiction|reflexivity]. Qed.
Theorem ints_div_zero a : ints_op o_div a 0 = OpErr.
Proof. reflexivity. Qed.
Theorem ints_arith a b :
  ints_op o_plus a b = OpV (VInt (wrap64 (a + b))) /\
  ints_op o_minus a b = OpV (VInt (wrap64 (a - b))) /\
  ints_op o_mul a b = OpV (VInt (wrap64 (a * b))).
Proof. repeat split. Qed.

Definition bool_of (r : opres) : option bool := match r with OpV (VBool b) => Some b | _ => None end.

(* the six comparisons are those of the integers *)
Theorem ints_compare a b :
  bool_of (ints_op o_lt a b) = Some (a <? b) /\ bool_of (ints_op o_le a b) = Some (a <=? b) /\
  bool_of (ints_op o_gt a b) = Some (a >? b) /\ bool_of (ints_op o_ge a b) = Some (a >=? b) /\
  bool_of (ints_op o_eq a b) = Some (a =? b) /\ bool_of (ints_op o_ne a b) = Some (negb (a =? b)).
Proof.
  repeat split; unfold ints_op; simpl; f_equal.
  - rewrite Z.gtb_ltb. reflexivity.
  - rewrite Z.geb_leb. reflexivity.
Qed.

(* ---------- strings ---------- *)
Theorem strings_plus l rr : strings_op o_plus l rr = OpV (VStr (l ++ rr)).
Proof. reflexivity. Qed.

Lemma bytes_leb_refl a : bytes_leb a a = true.
Proof. induction a as [|x a IH]; [reflexivity|]. simpl. rewrite N.ltb_irrefl. exact IH. Qed.
Lemma bytes_leb_total a : forall b, bytes_leb a b = true \/ bytes_leb b a = true.
Proof.
  induction a as [|x a IH]; intros [|y b]; simpl; auto.
  destruct (N.ltb_spec x y), (N.ltb_spec y x); auto; try lia.
Qed.
Lemma bytes_leb_antisym a : forall b, bytes_leb a b = true -> bytes_leb b a = true -> a = b.
Proof.
  induction a as [|x a IH]; intros [|y b]; simpl; try discriminate; auto.
  destruct (N.ltb_spec x y), (N.ltb_spec y x); try discriminate; try lia.
  intros H1 H2. f_equal; [lia|apply IH; assumption].
Qed.

(* strict and non-strict comparisons of strings are the two halves of one
   total order (byte-wise lexicographic), and == is equality of the bytes *)
Theorem strings_compare l r :
  bool_of (strings_op o_le l r) = Some (bytes_leb l r) /\
  bool_of (strings_op o_ge l r) = Some (bytes_leb r l) /\
  bool_of (strings_op o_lt l r) = Some (negb (bytes_leb r l)) /\
  bool_of (strings_op o_gt l r) = Some (negb (bytes_leb l r)) /\
  bool_of (strings_op o_eq l r) = Some (beq l r) /\
  bool_of (strings_op o_ne l r) = Some (negb (beq l r)).
Proof.
  assert (K: forall a b, bytes_ltb a b = negb (bytes_leb b a)).
  { intros a b. unfold bytes_ltb.
    destruct (bytes_leb a b) eqn:E1, (bytes_leb b a) eqn:E2; simpl.
    - rewrite (bytes_leb_antisym a b E1 E2), beq_refl. reflexivity.
    - destruct (beq_spec a b) as [->|_]; [rewrite bytes_leb_refl in E2; discriminate|reflexivity].
    - reflexivity.
    - destruct (bytes_leb_total a b); congruence. }
  repeat split; unfold strings_op; simpl; f_equal; apply K.
Qed.

(* ---------- floats ---------- *)
Theorem floats_div_zero a : floats_op o_div a 0%float = OpErr.
Proof. reflexivity. Qed.

(* ---------- unknown operator for a type is an error, not a value ---------- *)
Theorem strings_minus_error l r : strings_op o_minus l r = OpErr /\ strings_op o_mul l r = OpErr /\ strings_op o_div l r = OpErr.
Proof. repeat split. Qed.

(* inside the int64 range the arithmetic is exact *)
Theorem ints_exact a b :
  (in_int (a + b) -> ints_op o_plus a b = OpV (VInt (a + b))) /\
  (in_int (a - b) -> ints_op o_minus a b = OpV (VInt (a - b))) /\
  (in_int (a * b) -> ints_op o_mul a b = OpV (VInt (a * b))) /\
  (b <> 0 -> in_int (Z.quot a b) -> ints_op o_div a b = OpV (VInt (Z.quot a b))).
Proof.
  repeat split; intros.
  - unfold ints_op; simpl; rewrite wrap64_id by assumption; reflexivity.
  - unfold ints_op; simpl; rewrite wrap64_id by assumption; reflexivity.
  - unfold ints_op; simpl; rewrite wrap64_id by assumption; reflexivity.
  - rewrite ints_div_truncates by assumption. rewrite wrap64_id by assumption. reflexivity.
Qed.

(* ---------- NaN ---------- *)
(* These statements are about ALL binary64 values, so they cannot be computed: they rest on the
   standard library's specification of the primitive comparisons against SpecFloat
   (FloatAxioms.eqb_spec, ltb_spec, leb_spec - axioms the standard library declares). *)

Definition is_nan_f (x : float) : bool := negb (PrimFloat.eqb x x).

Lemma sfcompare_refl_nonnan s : s <> S754_nan -> SFcompare s s = Some Eq.
Proof.
  destruct s as [b|b| |b m e]; intros H; try congruence.
  - reflexivity.
  - destruct b; reflexivity.
  - cbn [SFcompare]. destruct b; rewrite Z.compare_refl.
    all: try rewrite Pos.compare_cont_refl; try rewrite Pos.compare_refl; try reflexivity.
Qed.

Lemma nan_prim2sf x : is_nan_f x = true -> Prim2SF x = S754_nan.
Proof.
  unfold is_nan_f. rewrite FloatAxioms.eqb_spec. unfold SFeqb. intros H.
  destruct (Prim2SF x) eqn:E; try reflexivity; rewrite sfcompare_refl_nonnan in H by congruence; discriminate.
Qed.

Lemma sfcompare_nan_l s : SFcompare S754_nan s = None. Proof. reflexivity. Qed.
Lemma sfcompare_nan_r s : SFcompare s S754_nan = None. Proof. destruct s as [b|b| |b m e]; try reflexivity; destruct b; reflexivity. Qed.

(* every ordered comparison with NaN is false, == is false, != is true, on either side *)
Theorem nan_comparisons x y : is_nan_f x = true ->
  floats_op o_lt x y = OpV (VBool false) /\ floats_op o_lt y x = OpV (VBool false) /\
  floats_op o_le x y = OpV (VBool false) /\ floats_op o_le y x = OpV (VBool false) /\
  floats_op o_gt x y = OpV (VBool false) /\ floats_op o_gt y x = OpV (VBool false) /\
  floats_op o_ge x y = OpV (VBool false) /\ floats_op o_ge y x = OpV (VBool false) /\
  floats_op o_eq x y = OpV (VBool false) /\ floats_op o_eq y x = OpV (VBool false) /\
  floats_op o_ne x y = OpV (VBool true) /\ floats_op o_ne y x = OpV (VBool true).
Proof.
  intros H. apply nan_prim2sf in H.
  assert (L1 : PrimFloat.ltb x y = false) by (rewrite FloatAxioms.ltb_spec; unfold SFltb; rewrite H; reflexivity).
  assert (L2 : PrimFloat.ltb y x = false) by (rewrite FloatAxioms.ltb_spec; unfold SFltb; rewrite H, sfcompare_nan_r; reflexivity).
  assert (L3 : PrimFloat.leb x y = false) by (rewrite FloatAxioms.leb_spec; unfold SFleb; rewrite H; reflexivity).
  assert (L4 : PrimFloat.leb y x = false) by (rewrite FloatAxioms.leb_spec; unfold SFleb; rewrite H, sfcompare_nan_r; reflexivity).
  assert (L5 : PrimFloat.eqb x y = false) by (rewrite FloatAxioms.eqb_spec; unfold SFeqb; rewrite H; reflexivity).
  assert (L6 : PrimFloat.eqb y x = false) by (rewrite FloatAxioms.eqb_spec; unfold SFeqb; rewrite H, sfcompare_nan_r; reflexivity).
  unfold floats_op. cbn. rewrite L1, L2, L3, L4, L5, L6. repeat split; reflexivity.
Qed.
Example nan_exists : is_nan_f (PrimFloat.div 0%float 0%float) = true. Proof. reflexivity. Qed.
Example inf_minus_inf_is_nan : is_nan_f (PrimFloat.sub infinity infinity) = true. Proof. reflexivity. Qed.
