(* TablesAgree.v - the tables regenerated from /repo on this run are the tables the model was
   transcribed from (model/Expected.v).  Every lemma is closed by reflexivity: an edit to a table
   in /repo breaks the lemma named after it. *)
From Coq Require Import String List.
From Plush Require Import gen.PrecTables gen.Tables model.Expected.

(* model/Parser.v LOWEST, PREFIX *)
Lemma agree_prec_levels : prec_levels = exp_prec_levels. Proof. reflexivity. Qed.
(* model/Parser.v prec_of (reads the generated table directly) *)
Lemma agree_precedences : precedences = exp_precedences. Proof. reflexivity. Qed.
(* model/Lexer.v keyword_table *)
Lemma agree_keywords : keywords = exp_keywords. Proof. reflexivity. Qed.
(* model/Parser.v has_prefix + the dispatch in parse_expression *)
Lemma agree_prefix_fns : prefix_fns = exp_prefix_fns. Proof. reflexivity. Qed.
(* model/Parser.v pratt_loop *)
Lemma agree_infix_fns : infix_fns = exp_infix_fns. Proof. reflexivity. Qed.
(* model/Parser.v pratt_loop *)
Lemma agree_pratt_loop_cond : pratt_loop_cond = exp_pratt_loop_cond. Proof. reflexivity. Qed.
(* model/Parser.v pratt_loop (infix case) *)
Lemma agree_parse_infix_body : parse_infix_body = exp_parse_infix_body. Proof. reflexivity. Qed.
(* model/Parser.v parse_expression (BANG/MINUS) *)
Lemma agree_parse_prefix_body : parse_prefix_body = exp_parse_prefix_body. Proof. reflexivity. Qed.
(* model/Value.v ints_op *)
Lemma agree_ops_intsOperator : ops_intsOperator = exp_ops_intsOperator. Proof. reflexivity. Qed.
Lemma agree_pre_intsOperator : pre_intsOperator = exp_pre_intsOperator. Proof. reflexivity. Qed.
(* model/Value.v floats_op *)
Lemma agree_ops_floatsOperator : ops_floatsOperator = exp_ops_floatsOperator. Proof. reflexivity. Qed.
Lemma agree_pre_floatsOperator : pre_floatsOperator = exp_pre_floatsOperator. Proof. reflexivity. Qed.
(* model/Value.v strings_op *)
Lemma agree_ops_stringsOperator : ops_stringsOperator = exp_ops_stringsOperator. Proof. reflexivity. Qed.
Lemma agree_pre_stringsOperator : pre_stringsOperator = exp_pre_stringsOperator. Proof. reflexivity. Qed.
(* model/Value.v bools_op *)
Lemma agree_ops_boolsOperator : ops_boolsOperator = exp_ops_boolsOperator. Proof. reflexivity. Qed.
Lemma agree_pre_boolsOperator : pre_boolsOperator = exp_pre_boolsOperator. Proof. reflexivity. Qed.
(* model/Value.v nils_op *)
Lemma agree_ops_nilsOperator : ops_nilsOperator = exp_ops_nilsOperator. Proof. reflexivity. Qed.
Lemma agree_pre_nilsOperator : pre_nilsOperator = exp_pre_nilsOperator. Proof. reflexivity. Qed.
(* model/Eval.v eval_infix (VSlice case) *)
Lemma agree_ops_arrayOperator : ops_arrayOperator = exp_ops_arrayOperator. Proof. reflexivity. Qed.
Lemma agree_pre_arrayOperator : pre_arrayOperator = exp_pre_arrayOperator. Proof. reflexivity. Qed.
(* model/Value.v write_fuel *)
Lemma agree_sink_cases : sink_cases = exp_sink_cases. Proof. reflexivity. Qed.
(* model/Value.v truthy *)
Lemma agree_truthy_cases : truthy_cases = exp_truthy_cases. Proof. reflexivity. Qed.
(* model/Eval.v eval_stmt *)
Lemma agree_stmt_emit_cases : stmt_emit_cases = exp_stmt_emit_cases. Proof. reflexivity. Qed.
(* model/Eval.v eval_infix *)
Lemma agree_infix_dispatch_cases : infix_dispatch_cases = exp_infix_dispatch_cases. Proof. reflexivity. Qed.
(* model/Eval.v eval_infix (tolerate, short circuit) *)
Lemma agree_infix_prelude : infix_prelude = exp_infix_prelude. Proof. reflexivity. Qed.
(* model/Eval.v eval (EPrefix) *)
Lemma agree_body_evalPrefixExpression : body_evalPrefixExpression = exp_body_evalPrefixExpression. Proof. reflexivity. Qed.
(* model/Eval.v eval_if *)
Lemma agree_body_evalIfExpression : body_evalIfExpression = exp_body_evalIfExpression. Proof. reflexivity. Qed.
(* model/Eval.v eval_if *)
Lemma agree_body_evalElseAndElseIfExpressions : body_evalElseAndElseIfExpressions = exp_body_evalElseAndElseIfExpressions. Proof. reflexivity. Qed.
(* model/Eval.v exec_prog *)
Lemma agree_body_compile : body_compile = exp_body_compile. Proof. reflexivity. Qed.
(* model/Eval.v eval_stmts *)
Lemma agree_body_evalBlockStatement : body_evalBlockStatement = exp_body_evalBlockStatement. Proof. reflexivity. Qed.
(* model/Eval.v eval_stmt (SRet) *)
Lemma agree_body_evalReturnStatement : body_evalReturnStatement = exp_body_evalReturnStatement. Proof. reflexivity. Qed.
(* props/C14.v (used directly) *)
Lemma agree_access_table : access_table = exp_access_table. Proof. reflexivity. Qed.
(* model/Eval.v copy_data / for_items / partial data / contentOf data *)
Lemma agree_map_range_sites : map_range_sites = exp_map_range_sites. Proof. reflexivity. Qed.
(* model/Iter.v range_ between_ until_ *)
Lemma agree_ranger_consts : ranger_consts = exp_ranger_consts. Proof. reflexivity. Qed.
(* model/Iter.v rnext *)
Lemma agree_ranger_next : ranger_next = exp_ranger_next. Proof. reflexivity. Qed.
(* model/Iter.v group_by *)
Lemma agree_groupby_src_a : groupby_src_a = exp_groupby_src_a. Proof. reflexivity. Qed.
(* model/Iter.v group_by *)
Lemma agree_groupby_src_b : groupby_src_b = exp_groupby_src_b. Proof. reflexivity. Qed.

(* the two shipped groupBy implementations have the same (normalised) body *)
Lemma groupby_twins : groupby_src_a = groupby_src_b. Proof. reflexivity. Qed.

(* C13: plush.go / template.go functions transcribed by model/Cache.v *)
Lemma agree_body_plush_Parse : body_plush_Parse = exp_body_plush_Parse. Proof. reflexivity. Qed.
Lemma agree_body_plush_Render : body_plush_Render = exp_body_plush_Render. Proof. reflexivity. Qed.
Lemma agree_body_NewTemplate : body_NewTemplate = exp_body_NewTemplate. Proof. reflexivity. Qed.
Lemma agree_body_Template_Parse : body_Template_Parse = exp_body_Template_Parse. Proof. reflexivity. Qed.
Lemma agree_body_Template_Exec : body_Template_Exec = exp_body_Template_Exec. Proof. reflexivity. Qed.
Lemma agree_body_Template_Clone : body_Template_Clone = exp_body_Template_Clone. Proof. reflexivity. Qed.
