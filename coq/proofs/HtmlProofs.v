(* HtmlProofs.v - htmlEscape loses nothing (C20): a decoder of the five
   entities recovers every NUL-free byte string from its escaped form, hence
   htmlEscape is injective on such strings. A NUL byte is the one exception:
   text/template replaces it by U+FFFD, which a literal U+FFFD also yields. *)
From Coq Require Import Lia.
From Plush Require Import model.Bytes model.Text.
Open Scope N_scope.

(* the reference decoder: an ampersand followed by the tail of one of the five
   entities stands for the escaped byte, every other byte for itself *)
Fixpoint html_unesc (s : bytes) (skip : nat) : bytes :=
  match s with
  | [] => []
  | c :: r =>
      match skip with
      | S k => html_unesc r k
      | O =>
          if c =? 38 then
            if is_prefix [35; 51; 52; 59] r then 34 :: html_unesc r 4
            else if is_prefix [35; 51; 57; 59] r then 39 :: html_unesc r 4
            else if is_prefix [97; 109; 112; 59] r then 38 :: html_unesc r 4
            else if is_prefix [108; 116; 59] r then 60 :: html_unesc r 3
            else if is_prefix [103; 116; 59] r then 62 :: html_unesc r 3
            else c :: html_unesc r 0
          else c :: html_unesc r 0
      end
  end.
Definition html_unescape (s : bytes) : bytes := html_unesc s 0.

Lemma html_unesc_skip l : forall t, html_unesc (l ++ t) (length l) = html_unesc t 0.
Proof.
  induction l as [|c l IH]; intros t; [reflexivity|].
  cbn [app length html_unesc]. apply IH.
Qed.

Lemma html_unesc_esc1 c r : c <> 0 -> html_unesc (html_esc1 c ++ r) 0 = c :: html_unesc r 0.
Proof.
  intros H0. unfold html_esc1.
  destruct (N.eqb_spec c 0) as [E0|_]; [contradiction|].
  destruct (N.eqb_spec c 34) as [E|N34];
    [subst c; exact (f_equal (cons 34) (html_unesc_skip [35; 51; 52; 59] r))|].
  destruct (N.eqb_spec c 39) as [E|N39];
    [subst c; exact (f_equal (cons 39) (html_unesc_skip [35; 51; 57; 59] r))|].
  destruct (N.eqb_spec c 38) as [E|N38];
    [subst c; exact (f_equal (cons 38) (html_unesc_skip [97; 109; 112; 59] r))|].
  destruct (N.eqb_spec c 60) as [E|N60];
    [subst c; exact (f_equal (cons 60) (html_unesc_skip [108; 116; 59] r))|].
  destruct (N.eqb_spec c 62) as [E|N62];
    [subst c; exact (f_equal (cons 62) (html_unesc_skip [103; 116; 59] r))|].
  cbn [app html_unesc].
  destruct (N.eqb_spec c 38) as [E|_]; [contradiction|]. reflexivity.
Qed.

Definition nul_free (s : bytes) : bool := forallb (fun c => negb (c =? 0)) s.

Theorem html_unescape_escape s : nul_free s = true -> html_unescape (html_escape s) = s.
Proof.
  unfold html_unescape, html_escape, nul_free.
  induction s as [|c s IH]; [reflexivity|].
  cbn [forallb flat_map]. intros H. apply andb_prop in H. destruct H as [Hc Hs].
  apply Bool.negb_true_iff in Hc. apply N.eqb_neq in Hc.
  rewrite (html_unesc_esc1 c _ Hc), (IH Hs). reflexivity.
Qed.

Theorem html_escape_injective a b :
  nul_free a = true -> nul_free b = true -> html_escape a = html_escape b -> a = b.
Proof.
  intros Ha Hb E. rewrite <- (html_unescape_escape a Ha), <- (html_unescape_escape b Hb), E.
  reflexivity.
Qed.

(* the exception is real: NUL and a literal U+FFFD escape to the same bytes *)
Example html_escape_nul_collides : html_escape [0] = html_escape [239; 191; 189] /\ [0] <> [239; 191; 189].
Proof. split; [reflexivity|discriminate]. Qed.

(* escaping distributes over concatenation: escaping pieces and joining them is
   escaping the whole (what the evaluator relies on when it escapes value by value) *)
Theorem html_escape_app a b : html_escape (a ++ b) = html_escape a ++ html_escape b.
Proof. unfold html_escape. apply flat_map_app. Qed.

(* the output is never shorter than the input *)
Lemma html_esc1_len c : (1 <= length (html_esc1 c))%nat.
Proof.
  unfold html_esc1.
  repeat match goal with |- context [if ?x =? ?y then _ else _] => destruct (x =? y) end;
  cbn [length]; lia.
Qed.

Theorem html_escape_length s : (length s <= length (html_escape s))%nat.
Proof.
  unfold html_escape. induction s as [|c s IH]; [cbn [length flat_map]; lia|].
  cbn [flat_map]. rewrite app_length. pose proof (html_esc1_len c). cbn [length]. lia.
Qed.
