(* TextProofs.v - theorems about truncate and the escapers (C20, C01). *)
From Coq Require Import Lia.
From Plush Require Import model.Bytes model.Text.
Open Scope N_scope.

(* ---------- truncate ---------- *)
Theorem truncate_short s size trail :
  (Z.of_nat (rune_len s) <= size)%Z -> truncate s size trail = s.
Proof.
  intros H. unfold truncate, rune_len in *.
  destruct (Z.leb_spec (Z.of_nat (length (decode s))) size); [reflexivity|lia].
Qed.

(* the three possible shapes of the result *)
Theorem truncate_shape s size trail :
  truncate s size trail = s \/
  truncate s size trail = trail \/
  exists k, (Z.of_nat k + Z.of_nat (rune_len trail) = size)%Z /\ (k < rune_len s)%nat /\
            truncate s size trail = encode (firstn k (decode s)) ++ trail.
Proof.
  unfold truncate, rune_len.
  destruct (Z.leb_spec (Z.of_nat (length (decode s))) size); [left; reflexivity|].
  destruct (Z.leb_spec size (Z.of_nat (length (decode trail)))); [right; left; reflexivity|].
  right; right. exists (Z.to_nat (size - Z.of_nat (length (decode trail)))).
  split; [lia|]. split; [lia|reflexivity].
Qed.

(* ---------- HTML escaping ---------- *)
Definition is_html_special (c : N) : bool :=
  (c =? 60) || (c =? 62) || (c =? 39) || (c =? 34).

Definition entity_tail (r : bytes) : bool :=
  is_prefix [35; 51; 52; 59] r || is_prefix [35; 51; 57; 59] r ||
  is_prefix [97; 109; 112; 59] r || is_prefix [108; 116; 59] r || is_prefix [103; 116; 59] r.

(* no raw angle bracket or quote, and every ampersand begins one of the five entities *)
Fixpoint html_clean (s : bytes) : bool :=
  match s with
  | [] => true
  | c :: r =>
      if is_html_special c then false
      else if c =? 38 then entity_tail r && html_clean r
      else html_clean r
  end.

Lemma html_clean_app_plain a b :
  forallb (fun c => negb (is_html_special c) && negb (c =? 38)) a = true ->
  html_clean (a ++ b) = html_clean b.
Proof.
  induction a as [|c a IH]; simpl; [reflexivity|].
  intros H. apply andb_prop in H. destruct H as [H1 H2].
  apply andb_prop in H1. destruct H1 as [H3 H4].
  apply negb_true_iff in H3, H4. rewrite H3, H4. apply IH. exact H2.
Qed.

Lemma html_clean_esc1 c r : html_clean r = true -> html_clean (html_esc1 c ++ r) = true.
Proof.
  intros IH. unfold html_esc1.
  destruct (N.eqb_spec c 0); [rewrite (html_clean_app_plain [239;191;189]); [exact IH|reflexivity]|].
  destruct (N.eqb_spec c 34); [simpl; exact IH|].
  destruct (N.eqb_spec c 39); [simpl; exact IH|].
  destruct (N.eqb_spec c 38); [simpl; exact IH|].
  destruct (N.eqb_spec c 60); [simpl; exact IH|].
  destruct (N.eqb_spec c 62); [simpl; exact IH|].
  cbn [app html_clean]. unfold is_html_special.
  destruct (N.eqb_spec c 60); [contradiction|].
  destruct (N.eqb_spec c 62); [contradiction|].
  destruct (N.eqb_spec c 39); [contradiction|].
  destruct (N.eqb_spec c 34); [contradiction|].
  destruct (N.eqb_spec c 38); [contradiction|]. simpl. exact IH.
Qed.

Theorem html_escape_clean s : html_clean (html_escape s) = true.
Proof.
  induction s as [|c s IH]; [reflexivity|].
  unfold html_escape in *. cbn [flat_map]. apply html_clean_esc1. exact IH.
Qed.

(* text without the five specials and NUL is not changed *)
Theorem html_escape_id s :
  forallb (fun c => negb (is_html_special c) && negb (c =? 38) && negb (c =? 0)) s = true ->
  html_escape s = s.
Proof.
  induction s as [|c s IH]; [reflexivity|]. cbn [forallb]. intros H.
  apply andb_prop in H. destruct H as [H1 H2].
  apply andb_prop in H1. destruct H1 as [H3 H0].
  apply andb_prop in H3. destruct H3 as [Hs Ha].
  unfold html_escape in *. cbn [flat_map]. rewrite (IH H2).
  unfold is_html_special in Hs. apply negb_true_iff in Hs, Ha, H0.
  apply orb_false_elim in Hs. destruct Hs as [Hs H34].
  apply orb_false_elim in Hs. destruct Hs as [Hs H39].
  apply orb_false_elim in Hs. destruct Hs as [H60 H62].
  unfold html_esc1. rewrite H0, H34, H39, Ha, H60, H62. reflexivity.
Qed.

(* escaping is injective on the byte level: distinct inputs stay distinct is not
   needed; what C01 needs is that the output never contains a raw special. *)
Corollary html_escape_no_lt s : existsb (fun c => c =? 60) (html_escape s) = false.
Proof.
  pose proof (html_escape_clean s) as H. revert H. generalize (html_escape s) as o.
  induction o as [|c o IH]; [reflexivity|]. cbn [html_clean existsb].
  unfold is_html_special. destruct (N.eqb_spec c 60); [simpl; discriminate|].
  simpl. destruct ((c =? 62) || (c =? 39) || (c =? 34)); [discriminate|].
  destruct (c =? 38); [|exact IH]. intros H. apply andb_prop in H. apply IH. apply H.
Qed.
