(* RefCtx.v - the reference reading of property C10, written over the
   *history* (a log of creation and Set events) instead of a mutable store:
   Value(k) on c is the value most recently Set for k on the nearest context
   on the path from c to the root that has a Set for k; constructor-time
   data and helper injection count as Sets made by the constructor. *)
From Plush Require Import model.Bytes model.Ctx.

Section Spec.
Variable V : Type.
Variable vnil : V.
Variable isnil : V -> bool.
Variable helpers : list (key * V).

Inductive ev :=
| EvCreate (outer : option nat) (base : list (key * V))
| EvSet (c : nat) (k : key) (v : V).

(* logs are newest-first *)
Fixpoint nctx (log : list ev) : nat :=
  match log with
  | [] => O
  | EvCreate _ _ :: r => S (nctx r)
  | EvSet _ _ _ :: r => nctx r
  end.

(* the most recent Set of k on c since c was created *)
Fixpoint last_set (log : list ev) (c : nat) (k : key) : option V :=
  match log with
  | [] => None
  | EvSet c' k' v :: r => if Nat.eqb c c' && beq k k' then Some v else last_set r c k
  | EvCreate _ _ :: r => if Nat.eqb c (nctx r) then None else last_set r c k
  end.

Fixpoint created (log : list ev) (c : nat) : option (option nat * list (key * V)) :=
  match log with
  | [] => None
  | EvCreate o b :: r => if Nat.eqb c (nctx r) then Some (o, b) else created r c
  | EvSet _ _ _ :: r => created r c
  end.

(* walk from c towards the root; fuel S c is always enough (outer < c) *)
Fixpoint spec_value (fuel : nat) (log : list ev) (c : nat) (k : key) : V :=
  match fuel with
  | O => vnil
  | S f =>
      match created log c with
      | None => vnil
      | Some (o, b) =>
          match last_set log c k with
          | Some v => v
          | None =>
              match o with
              | Some o' => if Nat.ltb o' c then spec_value f log o' k else vnil
              | None => match alookup V k b with Some v => v | None => vnil end
              end
          end
      end
  end.

Definition sval (log : list ev) (c : nat) (k : key) : V := spec_value (S c) log c k.
Definition shas (log : list ev) (c : nat) (k : key) : bool := negb (isnil (sval log c k)).

Definition spec_step (log : list ev) (o : op V) : list ev * out V :=
  match o with
  | ONewRoot d b =>
      let c := nctx log in
      let l1 := EvCreate None b :: log in
      let l2 := fold_left (fun l kv => EvSet c (fst kv) (snd kv) :: l) (rev d) l1 in
      let l3 := fold_left (fun l kv => if shas l c (fst kv) then l
                                        else EvSet c (fst kv) (snd kv) :: l) helpers l2 in
      (l3, RCtx c)
  | ONew p =>
      if Nat.ltb p (nctx log) then
        let c := nctx log in
        let l1 := EvCreate (Some p) [] :: log in
        let l3 := fold_left (fun l kv => if shas l c (fst kv) || shas l p (fst kv) then l
                                          else EvSet c (fst kv) (snd kv) :: l) helpers l1 in
        (l3, RCtx c)
      else (log, RNone)
  | OSet c k v => (EvSet c k v :: log, RNone)
  | OValue c k => (log, RVal (sval log c k))
  | OHas c k => (log, RBool (shas log c k))
  end.

Fixpoint spec_run (log : list ev) (ops : list (op V)) : list (out V) :=
  match ops with
  | [] => []
  | o :: r => let '(l', x) := spec_step log o in x :: spec_run l' r
  end.

End Spec.
Arguments EvCreate {V}.
Arguments EvSet {V}.
