(* Value.v - the value universe of the evaluator, the heap of slices / maps /
   iterators, the output sink (compiler.write), truthiness (isTruthy) and the
   typed operator functions of compiler.go. *)
From Coq Require Import Floats Uint63.
From Plush Require Import model.Bytes model.Lexer model.Ast model.Text model.Iter.
Open Scope N_scope.

(* element / key types that the evaluator's reflect code distinguishes *)
Inductive ty := TyIface | TyInt | TyString | TyBool | TyFloat | TyHTML | TyStruct (n : bytes) | TyOther.

Definition ty_eqb (a b : ty) : bool :=
  match a, b with
  | TyIface, TyIface | TyInt, TyInt | TyString, TyString | TyBool, TyBool
  | TyFloat, TyFloat | TyHTML, TyHTML | TyOther, TyOther => true
  | TyStruct x, TyStruct y => beq x y
  | _, _ => false
  end.

Inductive value :=
| VNil
| VBool (b : bool)
| VInt (z : Z)                         (* Go int *)
| VFloat (f : float)                   (* float64 *)
| VStr (s : bytes)
| VHTML (s : bytes)                    (* template.HTML *)
| VSlice (l : nat)                     (* slice: heap location *)
| VMap (l : nat)                       (* map: heap location *)
| VIter (l : nat)                      (* plush.Iterator: heap location *)
| VStruct (tn : bytes) (fs : list (bytes * value))
| VPtr (v : value)                     (* non-nil pointer to a struct *)
| VNilPtr (tn : bytes)                 (* typed nil pointer *)
| VFn (params : list bytes) (body : block)      (* *userFunction *)
| VGo (id : N) (cfg : list value)      (* a Go func value of the helper family *)
| VBound (recv : value) (id : N)       (* a method value *)
| VRet (vs : list value)
| VBrk (vs : list value)
| VCont (vs : list value)
| VClosure (ctx : nat) (blk : option block)   (* the func stored by contentFor *)
| VRefl (v : value)                    (* a reflect.Value (result of array + x) *)
| VList (vs : list value)              (* a []interface{} built by the evaluator (block / loop results) *)
| VOther (tag : N).                    (* anything else (opaque) *)

Inductive hcell :=
| HSlice (ety : ty) (els : list value)
| HMap (kty vty : ty) (kvs : list (value * value))
| HRanger (r : ranger)
| HList (rest : list value).           (* groupBy iterator: the groups still to come *)

Definition heap := list hcell.
Definition hget (h : heap) (l : nat) : option hcell := nth_error h l.
Fixpoint hset (h : heap) (l : nat) (c : hcell) : heap :=
  match h, l with
  | [], _ => []
  | _ :: r, O => c :: r
  | x :: r, S k => x :: hset r k c
  end.
Definition halloc (h : heap) (c : hcell) : heap * nat := (h ++ [c], length h).

(* ---------- dynamic type (reflect.TypeOf) as far as the code looks ---------- *)
Definition ty_of (v : value) : ty :=
  match v with
  | VInt _ => TyInt | VStr _ => TyString | VBool _ => TyBool | VFloat _ => TyFloat
  | VHTML _ => TyHTML | VStruct n _ => TyStruct n
  | _ => TyOther
  end.

(* ---------- printing ---------- *)
Definition s_true : bytes := [116;114;117;101].
Definition s_false : bytes := [102;97;108;115;101].

(* fmt.Sprint(float64) for nice values: 10^-4 <= |x| < 10^6 (no exponent
   notation) and x * 2^k integral for some k with at most 15 significant
   digits; None otherwise = outside the modelled fragment (OUnsup) *)
Definition pow2 (k : nat) : Z := Z.pow 2 (Z.of_nat k).
Fixpoint frac_digits (fuel : nat) (num den : Z) : bytes :=   (* digits of num/den < 1, den = 2^k *)
  match fuel with
  | O => []
  | S f => if (num =? 0)%Z then []
           else let d := (num * 10 / den)%Z in
                N.of_nat (Z.to_nat (48 + d)) :: frac_digits f (num * 10 mod den)%Z den
  end.
Definition fmt_float (x : float) : option bytes :=
  match Prim2SF x with
  | S754_zero s => Some (if s then [45; 48] else [48])
  | S754_finite s m e =>
      let mz := Zpos m in
      if (0 <=? e)%Z then
        let v := (mz * 2 ^ e)%Z in
        (* from 10^6 on Go switches to exponent notation: outside the modelled fragment *)
        if (v <? 1000000)%Z then Some ((if s then [45] else []) ++ dec_of_Z v) else None
      else
        let k := Z.to_nat (- e) in
        let den := pow2 k in
        let ip := (mz / den)%Z in
        let fr := (mz mod den)%Z in
        let fd := frac_digits 60 fr den in
        if (Nat.leb (length (dec_of_Z ip) + length fd) 15) && (ip <? 1000000)%Z && negb ((ip =? 0)%Z && Nat.ltb 4 (length (span (N.eqb 48) fd)))
        then Some ((if s then [45] else []) ++ dec_of_Z ip ++ (match fd with [] => [] | _ => 46 :: fd end))
        else None
  | _ => None
  end.

(* strconv.ParseFloat on the lexer's FLOAT literals (digits with one dot):
   m / 10^k is correctly rounded for m < 2^53, k <= 22 *)
Fixpoint zdigits (s : bytes) (acc : Z) : Z :=
  match s with
  | [] => acc
  | c :: r => zdigits r (acc * 10 + Z.of_N (c - 48))%Z
  end.
Definition parse_float (lit : bytes) : option float :=
  let ip := span (fun c => inr 48 57 c) lit in
  let fp := match skipn (length ip) lit with 46 :: r => span (fun c => inr 48 57 c) r | _ => [] end in
  let m := zdigits (ip ++ fp) 0%Z in
  if (m <? 9007199254740992)%Z && Nat.leb (length fp) 22
  then Some (PrimFloat.div (PrimFloat.of_uint63 (Uint63.of_Z m))
                           (PrimFloat.of_uint63 (Uint63.of_Z (10 ^ Z.of_nat (length fp)))))
  else None.

(* ---------- the output sink: compiler.write ---------- *)
(* leaves of a value in output order; slices are followed through the heap *)
Fixpoint write_fuel (fuel : nat) (h : heap) (v : value) : bytes :=
  match fuel with
  | O => []
  | S f =>
      match v with
      | VStr s => html_escape s
      | VBool b => if b then s_true else s_false
      | VHTML s => s
      | VInt z => dec_of_Z z
      | VFloat x => match fmt_float x with Some b => b | None => [63] end
      | VRefl x => write_fuel f h x                        (* interfaceable *)
      | VSlice l =>
          match hget h l with
          | Some (HSlice TyString els) | Some (HSlice TyIface els) => flat_map (write_fuel f h) els
          | _ => []
          end
      | VRet vs => flat_map (write_fuel f h) vs
      | VList vs => flat_map (write_fuel f h) vs
      | _ => []
      end
  end.
(* nesting depth of values is bounded by the heap size + wrapper depth *)
Definition write (h : heap) (v : value) : bytes := write_fuel (length h + 64) h v.

(* does the sink stay inside the modelled fragment (every float printable)? *)
Fixpoint printable_fuel (fuel : nat) (h : heap) (v : value) : bool :=
  match fuel with
  | O => true
  | S f =>
      match v with
      | VFloat x => match fmt_float x with Some _ => true | None => false end
      | VRefl x => printable_fuel f h x
      | VSlice l =>
          match hget h l with
          | Some (HSlice TyIface els) => forallb (printable_fuel f h) els
          | _ => true
          end
      | VRet vs | VList vs => forallb (printable_fuel f h) vs
      | VFn _ _ => false      (* printed through String(), which prints the syntax tree: outside the fragment *)
      | _ => true
      end
  end.
Definition printable (h : heap) (v : value) : bool := printable_fuel (length h + 64) h v.

(* ---------- isTruthy ---------- *)
Definition truthy (v : value) : bool :=
  match v with
  | VNil => false
  | VBool b => b
  | VStr s => match s with [] => false | _ => true end
  | VHTML s => match s with [] => false | _ => true end
  | VNilPtr _ => false
  | _ => true
  end.

(* ---------- fmt.Sprint for the right operand of a string operator ---------- *)
Fixpoint sprint_fuel (fuel : nat) (h : heap) (v : value) : option bytes :=
  match fuel with
  | O => None
  | S f =>
      match v with
      | VStr s | VHTML s => Some s
      | VInt z => Some (dec_of_Z z)
      | VBool b => Some (if b then s_true else s_false)
      | VFloat x => fmt_float x
      | VNil => Some [60;110;105;108;62]            (* <nil> *)
      | VSlice l =>
          match hget h l with
          | Some (HSlice _ els) =>
              option_map (fun b => 91 :: b)
              ((fix go (l : list value) (first : bool) : option bytes :=
                 match l with
                 | [] => Some [93]
                 | x :: r => match sprint_fuel f h x, go r false with
                             | Some a, Some b => Some ((if first then [] else [32]) ++ a ++ b)
                             | _, _ => None
                             end
                 end) els true)
          | _ => None
          end
      | _ => None
      end
  end.
Definition sprint (h : heap) (v : value) : option bytes := sprint_fuel (length h + 8) h v.

(* ---------- operator results ---------- *)
Inductive opres := OpV (v : value) | OpErr | OpUnsupported.

Definition bytes_ltb (a b : bytes) : bool := bytes_leb a b && negb (beq a b).

Definition op_is (op : bytes) (s : list N) : bool := beq op s.
Definition o_plus := [43]. Definition o_minus := [45]. Definition o_mul := [42]. Definition o_div := [47].
Definition o_lt := [60]. Definition o_gt := [62]. Definition o_le := [60;61]. Definition o_ge := [62;61].
Definition o_eq := [61;61]. Definition o_ne := [33;61]. Definition o_and := [38;38]. Definition o_or := [124;124].
Definition o_match := [126;61].

(* intsOperator *)
Definition ints_op (op : bytes) (l r : Z) : opres :=
  if op_is op o_plus then OpV (VInt (wrap64 (l + r)))
  else if op_is op o_minus then OpV (VInt (wrap64 (l - r)))
  else if op_is op o_div then (if (r =? 0)%Z then OpErr else OpV (VInt (wrap64 (Z.quot l r))))
  else if op_is op o_mul then OpV (VInt (wrap64 (l * r)))
  else if op_is op o_lt then OpV (VBool (l <? r)%Z)
  else if op_is op o_gt then OpV (VBool (r <? l)%Z)
  else if op_is op o_ne then OpV (VBool (negb (l =? r)%Z))
  else if op_is op o_ge then OpV (VBool (r <=? l)%Z)
  else if op_is op o_le then OpV (VBool (l <=? r)%Z)
  else if op_is op o_eq then OpV (VBool (l =? r)%Z)
  else OpErr.

(* floatsOperator *)
Definition floats_op (op : bytes) (l r : float) : opres :=
  if op_is op o_plus then OpV (VFloat (l + r)%float)
  else if op_is op o_minus then OpV (VFloat (l - r)%float)
  else if op_is op o_div then (if PrimFloat.eqb r 0%float then OpErr else OpV (VFloat (l / r)%float))
  else if op_is op o_mul then OpV (VFloat (l * r)%float)
  else if op_is op o_lt then OpV (VBool (PrimFloat.ltb l r))
  else if op_is op o_gt then OpV (VBool (PrimFloat.ltb r l))
  else if op_is op o_ne then OpV (VBool (negb (PrimFloat.eqb l r)))
  else if op_is op o_ge then OpV (VBool (PrimFloat.leb r l))
  else if op_is op o_le then OpV (VBool (PrimFloat.leb l r))
  else if op_is op o_eq then OpV (VBool (PrimFloat.eqb l r))
  else OpErr.

(* stringsOperator: the right operand is printed first *)
Definition strings_op (op : bytes) (l rr : bytes) : opres :=
  if op_is op o_plus then OpV (VStr (l ++ rr))
  else if op_is op o_lt then OpV (VBool (bytes_ltb l rr))
  else if op_is op o_gt then OpV (VBool (bytes_ltb rr l))
  else if op_is op o_ne then OpV (VBool (negb (beq l rr)))
  else if op_is op o_ge then OpV (VBool (bytes_leb rr l))
  else if op_is op o_le then OpV (VBool (bytes_leb l rr))
  else if op_is op o_eq then OpV (VBool (beq l rr))
  else if op_is op o_match then OpUnsupported       (* regexp: an oracle, not modelled *)
  else OpErr.

(* boolsOperator *)
Definition bools_op (op : bytes) (lt rt : bool) : opres :=
  if op_is op o_and || op_is op o_plus then OpV (VBool (lt && rt))
  else if op_is op o_or then OpV (VBool (lt || rt))
  else if op_is op o_ne then OpV (VBool (negb (Bool.eqb lt rt)))
  else if op_is op o_eq then OpV (VBool (Bool.eqb lt rt))
  else OpErr.

(* nilsOperator: at least one operand is the untyped nil *)
Definition is_nil (v : value) : bool := match v with VNil => true | _ => false end.
Definition nils_op (op : bytes) (l r : value) : opres :=
  if op_is op o_ne then OpV (VBool (negb (is_nil l && is_nil r)))
  else if op_is op o_eq then OpV (VBool (is_nil l && is_nil r))
  else OpErr.

(* ---------- canonical text of a value as the recording helpers log it ---------- *)
Fixpoint insert_sorted (k : bytes) (v : bytes) (l : list (bytes * bytes)) : list (bytes * bytes) :=
  match l with
  | [] => [(k, v)]
  | (k', v') :: r => if bytes_leb k k' then (k, v) :: l else (k', v') :: insert_sorted k v r
  end.
Fixpoint hexb (s : bytes) : bytes :=
  match s with [] => [] | c :: r => hexL (c / 16) :: hexL (c mod 16) :: hexb r end.

Fixpoint alookup_b (k : bytes) (l : list (bytes * value)) : option value :=
  match l with [] => None | (k', v) :: r => if beq k k' then Some v else alookup_b k r end.

Fixpoint vshow_fuel (fuel : nat) (h : heap) (v : value) : bytes :=
  match fuel with
  | O => [63]
  | S f =>
      let list_show (els : list value) : bytes :=
        [91] ++ concat_sep [44] (map (vshow_fuel f h) els) ++ [93] in
      match v with
      | VNil => [110]
      | VInt z => 105 :: dec_of_Z z
      | VStr s => 115 :: hexb s
      | VHTML s => 104 :: hexb s
      | VBool b => [98; if b then 49 else 48]
      | VFloat x => 102 :: (match fmt_float x with Some b => b | None => [63] end)
      | VList els => list_show els
      | VSlice l => match hget h l with Some (HSlice _ els) => list_show els | _ => [63] end
      | VMap l =>
          match hget h l with
          | Some (HMap _ _ kvs) =>
              let items := fold_right (fun kv acc =>
                 match fst kv with
                 | VStr k => insert_sorted k (hexb k ++ [61] ++ vshow_fuel f h (snd kv)) acc
                 | _ => acc
                 end) [] kvs in
              [123] ++ concat_sep [44] (map snd items) ++ [125]
          | _ => [63]
          end
      | VStruct tn fs =>
          tn ++ [40] ++ (match alookup_b [78;97;109;101] fs with Some x => vshow_fuel f h x | None => [115] end) ++ [41]
      | VPtr x => 38 :: vshow_fuel f h x
      | VNilPtr _ => [38; 110]
      | VOther 2 => [72; 48]                      (* HelperContext without block *)
      | VOther 3 => [72; 49]                      (* HelperContext with block *)
      | _ => [63]
      end
  end.
Definition vshow (h : heap) (v : value) : bytes := vshow_fuel (length h + 16) h v.

(* reflect.Type.Comparable of a dynamic value (can it be a map key?) *)
Fixpoint comparable_v (v : value) : bool :=
  match v with
  | VSlice _ | VMap _ | VList _ | VGo _ _ | VBound _ _ | VClosure _ _ | VRefl _ => false
  | VStruct _ fs => (fix go (l : list (bytes * value)) : bool :=
                       match l with [] => true | (_, x) :: r => comparable_v x && go r end) fs
  | _ => true
  end.
