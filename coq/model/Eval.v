(* Eval.v - model of compiler.go (the tree-walking evaluator), helper_context.go,
   partial_helper.go, helpers/content, template.go's Exec, and of the Go-call
   binding logic.  One mutual Fixpoint on fuel.  Go's failure modes are result
   values: errors carry the state reached (tolerant sites resume from it). *)
From Coq Require Import Floats.
From Plush Require Import model.Bytes model.Lexer model.Ast model.Parser model.Ctx model.Text model.Iter model.Value.
Open Scope N_scope.

Inductive err :=
| EUnknown (name : bytes)            (* *ErrUnknownIdentifier, unwrapped *)
| EFail (sentinel : option N).       (* any other error; Some k when errors.Is(err, E_k) *)

(* panic sites: reflect preconditions the code did not check before the C04
   repairs; no function of the model returns RPanic any more (proofs/EvalProofs.v) *)
Definition P_MAP_NIL_KEY : N := 1.     (* reflect.TypeOf(nil).Kind() in evalAccessIndex *)
Definition P_NEG_INDEX : N := 2.       (* rv.Index(i) with i < 0 *)
Definition P_SET_NIL : N := 3.         (* reflect.ValueOf(nil).Type() / Set(zero Value) *)
Definition P_MAP_ASSIGN : N := 4.      (* MapIndex / SetMapIndex with an unassignable key or element *)
Definition P_USERFN_ARGS : N := 5.     (* args[i] with too few arguments *)
Definition P_NIL_RECEIVER : N := 6.    (* MethodByName on the zero Value *)
Definition P_LEN : N := 7.             (* meta.Len on a non-collection *)
Definition P_TRUNCATE : N := 8.        (* type assertions on the size / trail options, nil options map *)
Definition P_NIL_METHOD : N := 9.      (* method called through a nil pointer *)

(* ---------- Go function signatures ---------- *)
Inductive pty :=
| PInt | PStr | PBool | PFloat | PIface | PHTML
| PMap                      (* map[string]interface{} / hctx.Map *)
| PHCtx                     (* plush.HelperContext (struct) *)
| PHCtxI                    (* hctx.HelperContext (interface) *)
| PSliceI | PSliceS
| PStructT (n : bytes) | PPtrT (n : bytes).

Record gosig := mksig { sg_params : list pty; sg_variadic : bool; sg_nres : nat; sg_err : bool }.

(* ---------- state ---------- *)
Inductive event := EvCall (id : N) (args : list bytes).   (* helper id, its arguments as logged text *)

Record state := mkst {
  sctx : store value;          (* contexts (model/Ctx.v) *)
  sheap : heap;
  scur : nat;                  (* c.ctx *)
  slog : list event;           (* newest first *)
  sstmt : option nat           (* line of c.curStmt *)
}.

Inductive res (A : Type) :=
| ROk (a : A)
| RErr (e : err) (st : state)
| RPanic (site : N)
| RFuel
| RUnsup.                            (* outside the modelled fragment *)
Arguments ROk {A}. Arguments RErr {A}. Arguments RPanic {A}. Arguments RFuel {A}. Arguments RUnsup {A}.

Definition with_ctx (st : state) (s : store value) : state := mkst s (sheap st) (scur st) (slog st) (sstmt st).
Definition with_heap (st : state) (h : heap) : state := mkst (sctx st) h (scur st) (slog st) (sstmt st).
Definition with_cur (st : state) (c : nat) : state := mkst (sctx st) (sheap st) c (slog st) (sstmt st).
Definition with_stmt (st : state) (l : option nat) : state := mkst (sctx st) (sheap st) (scur st) (slog st) l.
Definition log_ev (st : state) (e : event) : state := mkst (sctx st) (sheap st) (scur st) (e :: slog st) (sstmt st).

(* the HelperContext value handed to helpers *)
Inductive hctxv := HC (ctx : nat) (blk : option block).

(* bound arguments as the Go function sees them *)
Inductive barg := BV (v : value) | BMap (l : nat) | BHelp (hc : hctxv).

(* ---------- the global environment of a run ---------- *)
Record genv := mkgenv {
  g_helpers : list (key * value);                   (* plush.Helpers.All() as model values *)
  g_sig : N -> list value -> option gosig;          (* signature of VGo id cfg *)
  g_methods : bytes -> list (bytes * bool * N);     (* struct type -> (method, pointer receiver?, func id) *)
  g_partials : list (bytes * bytes)                 (* what the partial feeder returns for a name *)
}.

(* results of top-level execution (Template.Exec) *)
Inductive outcome :=
| OOk (out : bytes) (st : state)
| OErr (line : nat) (e : err) (st : state)     (* "line N: ..." wrapping e *)
| OParseErr (lines : list nat)
| OPanic (site : N)
| OFuel
| OUnsup.

Section Eval.
Variable G : genv.

Notation cvalue := (Ctx.value value VNil).
Notation chas := (Ctx.has value VNil is_nil).
Notation cset := (Ctx.set value).
Definition cnew_of (st : state) (parent : nat) : state * nat :=
  let '(s', n) := Ctx.new_child value VNil is_nil (g_helpers G) (sctx st) parent in
  (with_ctx st s', n).
Definition cnew (st : state) : state * nat := cnew_of st (scur st).
Definition set_in (st : state) (c : nat) (k : key) (v : value) : state := with_ctx st (cset (sctx st) c k v).

(* for k, v := range octx.data { c.ctx.Set(k, v) } *)
Definition data_of (st : state) (c : nat) : list (key * value) :=
  match nth_error (rev (sctx st)) c with Some cx => cdata cx | None => [] end.
Definition set_all (st : state) (c : nat) (kvs : list (key * value)) : state :=
  fold_left (fun s kv => set_in s c (fst kv) (snd kv)) kvs st.
Definition copy_data (st : state) (from to : nat) : state := set_all st to (data_of st from).

Definition halloc_st (st : state) (c : hcell) : state * nat :=
  let '(h, l) := halloc (sheap st) c in (with_heap st h, l).

(* ---------- small helpers ---------- *)
Definition is_unknown (e : err) : bool := match e with EUnknown _ => true | _ => false end.
Definition is_exit (v : value) : bool := match v with VRet _ | VBrk _ | VCont _ => true | _ => false end.
Definition tolerant_op (op : bytes) : bool := op_is op o_eq || op_is op o_ne || op_is op o_or || op_is op o_and.
Definition fail {A} (st : state) : res A := RErr (EFail None) st.
Definition of_opres (r : opres) (st : state) : res (value * state) :=
  match r with OpV v => ROk (v, st) | OpErr => fail st | OpUnsupported => RUnsup end.

Definition same_key (k k' : value) : bool :=
  match k, k' with
  | VStr a, VStr b => beq a b
  | VInt a, VInt b => (a =? b)%Z
  | VBool a, VBool b => Bool.eqb a b
  | _, _ => false
  end.
Fixpoint vlookup (k : value) (kvs : list (value * value)) : option value :=
  match kvs with
  | [] => None
  | (k', v) :: r => if same_key k k' then Some v else vlookup k r
  end.
Fixpoint vupdate (k v : value) (kvs : list (value * value)) : list (value * value) :=
  match kvs with
  | [] => [(k, v)]
  | (k', v') :: r => if same_key k k' then (k, v) :: r else (k', v') :: vupdate k v r
  end.
Fixpoint vdelete (k : value) (kvs : list (value * value)) : list (value * value) :=
  match kvs with
  | [] => []
  | (k', v') :: r => if same_key k k' then r else (k', v') :: vdelete k r
  end.
Definition str_entries (kvs : list (value * value)) : list (key * value) :=
  flat_map (fun kv => match fst kv with VStr k => [(k, snd kv)] | _ => [] end) kvs.

(* reflect AssignableTo between a dynamic value and a parameter type *)
Definition assignable (h : heap) (v : value) (p : pty) : bool :=
  match p, v with
  | PIface, _ => true
  | PInt, VInt _ | PStr, VStr _ | PBool, VBool _ | PFloat, VFloat _ | PHTML, VHTML _ => true
  | PMap, VMap l => match hget h l with Some (HMap TyString TyIface _) => true | _ => false end
  | PSliceI, VSlice l => match hget h l with Some (HSlice TyIface _) => true | _ => false end
  | PSliceI, VList _ => true
  | PSliceS, VSlice l => match hget h l with Some (HSlice TyString _) => true | _ => false end
  | PStructT n, VStruct m _ => beq n m
  | PPtrT n, VPtr (VStruct m _) => beq n m
  | PPtrT n, VNilPtr m => beq n m
  | _, _ => false
  end.

(* zero value of a parameter type (nil argument / silently filled parameter) *)
Definition zero_of (p : pty) : barg :=
  match p with
  | PInt => BV (VInt 0) | PStr => BV (VStr []) | PBool => BV (VBool false)
  | PFloat => BV (VFloat 0%float) | PHTML => BV (VHTML [])
  | PStructT n => BV (VStruct n [])
  | PPtrT n => BV (VNilPtr n)
  | PHCtx => BV (VOther 2)       (* the zero HelperContext struct (no context, no block) *)
  | _ => BV VNil                 (* nil interface / map / slice *)
  end.

(* hc(arg): what is supplied for a missing trailing parameter *)
Definition auto_arg (st : state) (p : pty) (blk : option block) : state * barg :=
  match p with
  | PHCtx | PHCtxI => (st, BHelp (HC (scur st) blk))
  | PMap => let '(st', l) := halloc_st st (HMap TyString TyIface []) in (st', BMap l)
  | _ => (st, zero_of p)
  end.

(* an explicit nil for a HelperContext parameter means the usual helper context, as when the
   argument is omitted (non-variadic calls) *)
Fixpoint fix_nil_hctx (cur : nat) (blk : option block) (ps : list pty) (bs : list barg) : list barg :=
  match ps, bs with
  | p :: ps', b :: bs' =>
      (match p, b with
       | PHCtx, BV (VOther 2) | PHCtxI, BV VNil => BHelp (HC cur blk)
       | _, _ => b
       end) :: fix_nil_hctx cur blk ps' bs'
  | _, _ => bs
  end.

Definition ext_of (name : bytes) : bytes :=      (* filepath.Ext *)
  (fix go (s : bytes) (acc : option bytes) : bytes :=
     match s with
     | [] => match acc with Some e => e | None => [] end
     | c :: r => if c =? 47 then go r None
                 else if c =? 46 then go r (Some (c :: r))
                 else go r acc
     end) name None.

Definition k_contentFor (name : bytes) : key := [99;111;110;116;101;110;116;70;111;114;58] ++ name.
Definition k_partialFeeder : key := [112;97;114;116;105;97;108;70;101;101;100;101;114].
Definition k_contentType : key := [99;111;110;116;101;110;116;84;121;112;101].
Definition k_layout : key := [108;97;121;111;117;116].
Definition k_yield : key := [121;105;101;108;100].
Definition k_size : key := [115;105;122;101].
Definition k_trail : key := [116;114;97;105;108].
Definition s_javascript : bytes := [106;97;118;97;115;99;114;105;112;116].
Definition s_dotjs : bytes := [46;106;115].
Definition s_nil : bytes := [110;105;108].
Definition s_dots : bytes := [46;46;46].

(* json view of a value (toJSON) *)
Fixpoint to_json_value (fuel : nat) (h : heap) (v : value) : option json :=
  match fuel with
  | O => None
  | S f =>
      match v with
      | VNil => Some JNull
      | VBool b => Some (JBool b)
      | VInt z => Some (JInt z)
      | VStr s | VHTML s => Some (JStr s)
      | VList els =>
          option_map JArr ((fix go (l : list value) : option (list json) :=
             match l with
             | [] => Some []
             | x :: r => match to_json_value f h x, go r with Some a, Some b => Some (a :: b) | _, _ => None end
             end) els)
      | VSlice l =>
          match hget h l with
          | Some (HSlice _ els) =>
              option_map JArr ((fix go (l : list value) : option (list json) :=
                 match l with
                 | [] => Some []
                 | x :: r => match to_json_value f h x, go r with Some a, Some b => Some (a :: b) | _, _ => None end
                 end) els)
          | _ => None
          end
      | VMap l =>
          match hget h l with
          | Some (HMap TyString _ kvs) =>
              option_map JObj ((fix go (l : list (value * value)) : option (list (bytes * json)) :=
                 match l with
                 | [] => Some []
                 | (VStr k, x) :: r => match to_json_value f h x, go r with Some a, Some b => Some ((k, a) :: b) | _, _ => None end
                 | _ => None
                 end) kvs)
          | _ => None
          end
      | _ => None
      end
  end.

(* meta.Len argument view *)
Definition lenarg_of (h : heap) (v : value) : lenarg :=
  match v with
  | VNil => LNil
  | VStr s | VHTML s => LStr s
  | VList vs => LSeq (length vs)
  | VSlice l => match hget h l with Some (HSlice _ els) => LSeq (length els) | _ => LOther end
  | VMap l => match hget h l with Some (HMap _ _ kvs) => LMap (length kvs) | _ => LOther end
  | VNilPtr _ => LNilPtr
  | VPtr _ => LPtr LOther
  | _ => LOther
  end.

(* helper ids of the built-ins that the model implements *)
Definition H_RAW : N := 1.   Definition H_LEN : N := 2.    Definition H_RANGE : N := 3.
Definition H_BETWEEN : N := 4. Definition H_UNTIL : N := 5. Definition H_GROUPBY : N := 6.
Definition H_TRUNCATE : N := 7. Definition H_HTMLESCAPE : N := 8. Definition H_JSESCAPE : N := 9.
Definition H_TOJSON : N := 10. Definition H_CONTENTFOR : N := 11. Definition H_CONTENTOF : N := 12.
Definition H_PARTIAL : N := 13. Definition H_FEEDER : N := 14.
(* harness family *)
Definition H_FAIL : N := 100.      (* returns its configured sentinel error;     cfg = [VInt k] *)
Definition H_COUNT : N := 101.     (* logs the call, returns cfg[1];            cfg = [VInt k; ret] *)
Definition H_HTML : N := 102.      (* html(s): template.HTML(s) *)
Definition H_BLK : N := 103.       (* blk(help): Block() in brackets, as HTML *)
Definition H_BLK2 : N := 104.      (* blk2(help): Block() twice *)
Definition H_BLKCTX : N := 105.    (* blkctx(data, help): BlockWith(help.New() + data) *)
Definition H_REC : N := 106.       (* logs its bound arguments, returns cfg[1];  cfg = [VInt sig; ret] *)
Definition H_ID : N := 107.        (* id(v interface{}) interface{} *)
Definition H_METHOD_HELLO : N := 120.
Definition H_METHOD_PHELLO : N := 121.
Definition H_METHOD_GET : N := 122.

Definition field_of (fs : list (bytes * value)) (n : bytes) : option value := alookup value n fs.
Definition exported (n : bytes) : bool := match n with c :: _ => inr 65 90 c | [] => false end.

Fixpoint find_method (ms : list (bytes * bool * N)) (n : bytes) : option (bool * N) :=
  match ms with
  | [] => None
  | (m, p, id) :: r => if beq m n then Some (p, id) else find_method r n
  end.

(* the key under which evalIndexCallee rebinds the indexed element: the name held by the
   placeholder identifier that assign_callee put at the root of the expression after the index
   (calleePlaceholder); the printed left side when there is none *)
Definition callee_root (callee : expr) : option bytes :=
  match callee with
  | EIdent _ (Some s) _ => Some s
  | EIndex (EIdent _ (Some s) _) _ _ _ => Some s
  | ECall _ _ (Some (EIdent _ pre names)) _ _ _ =>
      match pre with Some s => Some s | None => match names with s :: _ => Some s | [] => None end end
  | _ => None
  end.
Definition callee_key (leftS : bytes) (callee : expr) : bytes :=
  match callee_root callee with Some s => s | None => leftS end.

Definition R := res (value * state).
Definition rbind {A B} (m : res A) (k : A -> res B) : res B :=
  match m with
  | ROk a => k a
  | RErr e s => RErr e s
  | RPanic s => RPanic s
  | RFuel => RFuel
  | RUnsup => RUnsup
  end.
Notation "'let+' ( x , s ) := m 'in' k" := (rbind m (fun xs => let '(x, s) := xs in k))
  (at level 200, x name, s name, m at level 100, k at level 200).

(* deferred restores: apply [g] to the final state on the Ok and Err paths *)
Definition rfinal (g : state -> state) (r : R) : R :=
  match r with
  | ROk (v, s) => ROk (v, g s)
  | RErr e s => RErr e (g s)
  | x => x
  end.
(* a tolerated unknown identifier counts as nil; evaluation goes on, so the statement
   recorded while the error was raised is dropped for the one current before (ostmt) *)
Definition tolerate (on : bool) (ostmt : option nat) (r : R) : R :=
  match r with
  | RErr e s => if on && is_unknown e then ROk (VNil, with_stmt s ostmt) else RErr e s
  | x => x
  end.

Definition map_of_barg (h : heap) (b : barg) : option (list (value * value)) :=
  match b with
  | BMap l | BV (VMap l) => match hget h l with Some (HMap _ _ kvs) => Some kvs | _ => None end
  | _ => None                                    (* nil map *)
  end.

Definition is_print_approx (r : N) : bool := negb ((r =? 8232) || (r =? 8233)).

(* the value of a call is the value of the first return reached: follow the
   chain of return wrappers that carried it out of the nested blocks *)
Fixpoint unwrap_ret (fuel : nat) (v : value) : value :=
  match fuel with
  | O => v
  | S f => match v with
           | VRet vs => match vs with [] => v | _ => unwrap_ret f (last vs VNil) end
           | x => x
           end
  end.

(* The evaluator is written with open recursion: every function takes the
   record [self] of all functions at the next lower fuel.  [evals_at] ties the
   knot by structural recursion on fuel. *)
Record evals := mkevals {
  r_eval : state -> expr -> R;
  r_eval_chain : state -> (list bytes) -> R;
  r_eval_list : state -> (list expr) -> (res (list value * state));
  r_eval_pairs : state -> (list (expr * expr)) -> (list (value * value)) -> (res (list (value * value) * state));
  r_eval_infix : state -> bytes -> expr -> expr -> R;
  r_eval_if : state -> (list (expr * block)) -> (option block) -> R;
  r_eval_block : state -> block -> R;
  r_eval_stmts : state -> (list stmt) -> (list value) -> R;
  r_eval_stmt : state -> stmt -> R;
  r_eval_for : state -> bytes -> bytes -> expr -> block -> R;
  r_for_body : state -> bytes -> bytes -> block -> value -> value -> (res ((value * bool) * state));
  r_for_items : state -> bytes -> bytes -> block -> (list (value * value)) -> (list value) -> R;
  r_for_slice : state -> bytes -> bytes -> block -> nat -> nat -> (list value) -> R;
  r_for_iter : state -> bytes -> bytes -> block -> nat -> nat -> (list value) -> R;
  r_eval_index : state -> expr -> expr -> expr -> expr -> R;
  r_index_callee : state -> value -> bytes -> expr -> R;
  r_eval_call : state -> expr -> (option expr) -> (list expr) -> (option block) -> expr -> R;
  r_user_call : state -> (list bytes) -> block -> (list expr) -> R;
  r_bind_params : state -> (list bytes) -> (list expr) -> R;
  r_bind_args : state -> gosig -> (list expr) -> (option block) -> (res (list barg * state));
  r_bind_fixed : state -> (list pty) -> (list expr) -> (res (list barg * state));
  r_bind_variadic : state -> pty -> (list expr) -> (res (list barg * state));
  r_block_with : state -> (option block) -> nat -> (res (bytes * state));
  r_block_in_child : state -> (option block) -> nat -> (list (key * value)) -> R;
  r_go_apply : state -> N -> (list value) -> (option value) -> (list barg) -> R;
  r_partial_call : state -> bytes -> (list (key * value)) -> nat -> R;
  r_exec_prog : state -> (list stmt) -> bytes -> outcome
}.

Definition eval_step (self : evals) (st : state) (e : expr) : R :=
      match e with
      | ENil => ROk (VNil, st)
      | EHtml _ v => ROk (VHTML v, st)
      | EStr _ v => ROk (VStr v, st)
      | EInt _ v => ROk (VInt v, st)
      | EFloat l => match parse_float l with Some x => ROk (VFloat x, st) | None => RUnsup end
      | EBool _ b => ROk (VBool b, st)
      | EFn _ params b => ROk (VFn params b, st)
      | ECont _ => ROk (VCont [], st)
      | EBreak _ => ROk (VBrk [], st)
      | EIdent _ pre names =>
          r_eval_chain self st (rev (match pre with Some s => s :: names | None => names end))
      | EPrefix _ op r =>
          let+ (v, st1) := tolerate true (sstmt st) (r_eval self st r) in
          if beq op [33] then ROk (VBool (negb (truthy v)), st1) else fail st1
      | EInfix _ op l r => r_eval_infix self st op l r
      | EArr els =>
          let+ (vs, st1) := r_eval_list self st els in
          let '(st2, loc) := halloc_st st1 (HSlice TyIface vs) in
          ROk (VSlice loc, st2)
      | EHash pairs =>
          let+ (kvs, st1) := r_eval_pairs self st pairs [] in
          let '(st2, loc) := halloc_st st1 (HMap TyString TyIface kvs) in
          ROk (VMap loc, st2)
      | EAssign name v =>
          let+ (x, st1) := r_eval self st v in
          let n := match name with EIdent _ _ names => last names [] | _ => [] end in
          if chas (sctx st1) (scur st1) n
          then ROk (VNil, set_in st1 (scur st1) n x)
          else RErr (EUnknown n) st1
      | EIf c b elifs els => r_eval_if self st ((c, b) :: elifs) els
      | EFor k v it b => r_eval_for self st k v it b
      | EIndex l i v callee => r_eval_index self st l i v callee
      | ECall _ fn callee args blk chain => r_eval_call self st fn callee args blk chain
      end.

Definition eval_chain_step (self : evals) (st : state) (comps : list bytes) : R :=
      match comps with
      | [] => fail st
      | [n] =>
          if chas (sctx st) (scur st) n then ROk (cvalue (sctx st) (scur st) n, st)
          else if beq n s_nil then ROk (VNil, st)
          else RErr (EUnknown n) st
      | n :: rest =>
          let+ (c, st1) := r_eval_chain self st rest in
          match c with
          | VNil => ROk (VNil, st1)
          | _ =>
              match (match c with VPtr x => x | x => x end) with
              | VStruct tn fs =>
                  match field_of fs n with
                  | Some fv =>
                      match fv with
                      | VNilPtr _ => ROk (VNil, st1)
                      | VPtr x => if exported n then ROk (x, st1) else fail st1
                      | x => if exported n then ROk (x, st1) else fail st1
                      end
                  | None =>
                      (* value-receiver methods only: rv is the struct value *)
                      match find_method (g_methods G tn) n with
                      | Some (false, id) => ROk (VBound (VStruct tn fs) id, st1)
                      | _ => fail st1
                      end
                  end
              | _ => fail st1
              end
          end
      end.

Definition eval_list_step (self : evals) (st : state) (es : list expr) : res (list value * state) :=
      match es with
      | [] => ROk ([], st)
      | e :: r =>
          let+ (v, st1) := r_eval self st e in
          let+ (vs, st2) := r_eval_list self st1 r in
          ROk (v :: vs, st2)
      end.

Definition eval_pairs_step (self : evals) (st : state) (ps : list (expr * expr)) (acc : list (value * value)) : res (list (value * value) * state) :=
      match ps with
      | [] => ROk (acc, st)
      | (k, ve) :: r =>
          let+ (v, st1) := r_eval self st ve in
          r_eval_pairs self st1 r (vupdate (VStr (expr_lit k)) v acc)
      end.

Definition eval_infix_step (self : evals) (st : state) (op : bytes) (l r : expr) : R :=
      let tol := tolerant_op op in
      let+ (lv, st1) := tolerate tol (sstmt st) (r_eval self st l) in
      if op_is op o_and && negb (truthy lv) then ROk (VBool false, st1)
      else if op_is op o_or && truthy lv then ROk (VBool true, st1)
      else
        let+ (rv, st2) := tolerate tol (sstmt st) (r_eval self st1 r) in
        if op_is op o_and || op_is op o_or then ROk (VBool (truthy rv), st2)
        else if is_nil lv || is_nil rv then of_opres (nils_op op lv rv) st2
        else
          match lv with
          | VStr ls =>
              match sprint (sheap st2) rv with
              | Some rr => of_opres (strings_op op ls rr) st2
              | None => RUnsup
              end
          | VInt a => match rv with VInt b => of_opres (ints_op op a b) st2 | _ => fail st2 end
          | VFloat a => match rv with VFloat b => of_opres (floats_op op a b) st2 | _ => fail st2 end
          | VBool a => of_opres (bools_op op a (truthy rv)) st2
          | VSlice loc =>
              (* arrayOperator *)
              if op_is op o_plus then
                match hget (sheap st2) loc with
                | Some (HSlice ety els) =>
                    if ty_eqb ety TyIface || ty_eqb ety (ty_of rv) then
                      let '(st3, nl) := halloc_st st2 (HSlice ety (els ++ [rv])) in
                      ROk (VSlice nl, st3)
                    else fail st2
                | _ => fail st2
                end
              else fail st2
          | VList els =>
              if op_is op o_plus then ROk (VList (els ++ [rv]), st2) else fail st2
          | _ => fail st2
          end.

Definition eval_if_step (self : evals) (st : state) (branches : list (expr * block)) (els : option block) : R :=
      match branches with
      | [] => match els with Some b => r_eval_block self st b | None => ROk (VNil, st) end
      | (c, b) :: rest =>
          let+ (cv, st1) := tolerate true (sstmt st) (r_eval self st c) in
          if truthy cv then r_eval_block self st1 b else r_eval_if self st1 rest els
      end.

(* a block that completes hands the current statement back to the statement that holds it *)
Definition eval_block_step (self : evals) (st : state) (b : block) : R :=
match b with Block ss =>
  match r_eval_stmts self st ss [] with
  | ROk (v, st1) => ROk (v, with_stmt st1 (sstmt st))
  | r => r
  end
end.

Definition eval_stmts_step (self : evals) (st : state) (ss : list stmt) (acc : list value) : R :=
      match ss with
      | [] => ROk (VList acc, st)
      | s :: r =>
          let+ (i, st1) := r_eval_stmt self st s in
          match i with
          | VCont vs => ROk (VCont (acc ++ vs), st1)
          | VBrk vs => ROk (VBrk (acc ++ vs), st1)
          | VRet vs => ROk (VRet (acc ++ [VRet vs]), st1)
          | VNil => r_eval_stmts self st1 r acc
          | x => r_eval_stmts self st1 r (acc ++ [x])
          end
      end.

Definition eval_stmt_step (self : evals) (st : state) (s : stmt) : R :=
      let st0 := with_stmt st (Some (tline (stmt_tok s))) in
      match s with
      | SExpr _ e =>
          let+ (v, st1) := r_eval self st0 e in
          if is_exit v then ROk (v, st1)
          else match e, v with
               | EHtml _ _, VHTML _ => ROk (v, st1)     (* literal text only, not HTML values *)
               | _, _ => ROk (VNil, st1)
               end
      | SRet _ is_e e =>
          let+ (v, st1) := r_eval self st0 e in
          ROk ((if is_e then v else VRet [v]), st1)
      | SLet _ name e =>
          let+ (v, st1) := r_eval self st0 e in
          ROk (VNil, set_in st1 (scur st1) (match name with Some n => n | None => [] end) v)
      end.

Definition eval_for_step (self : evals) (st : state) (k v : bytes) (it : expr) (b : block) : R :=
      let octx := scur st in
      let '(st1, n) := cnew st in
      let st2 := with_cur (copy_data st1 octx n) n in
      rfinal (fun s => with_cur s octx)
        (let+ (iter, st3) := r_eval self st2 it in
         match iter with
         | VNil => ROk (VNil, st3)
         | VMap loc =>
             match hget (sheap st3) loc with
             | Some (HMap _ _ kvs) => r_for_items self st3 k v b kvs []
             | _ => fail st3
             end
         | VSlice loc => r_for_slice self st3 k v b loc O []
         | VList vs => r_for_items self st3 k v b (combine (map (fun i => VInt (Z.of_nat i)) (seq 0 (length vs))) vs) []
         | VIter loc => r_for_iter self st3 k v b loc O []
         | _ => fail st3
         end).

Definition for_body_step (self : evals) (st : state) (k v : bytes) (b : block) (kv vv : value) : res ((value * bool) * state) :=
      let st1 := set_in (set_in st (scur st) k kv) (scur st) v vv in
      let+ (r, st2) := r_eval_block self st1 b in
      match r with
      | VCont vs => ROk ((VList vs, false), st2)
      | VBrk vs => ROk ((VList vs, true), st2)
      | x => ROk ((x, false), st2)
      end.

Definition for_items_step (self : evals) (st : state) (k v : bytes) (b : block) (items : list (value * value)) (acc : list value) : R :=
      match items with
      | [] => ROk (VList acc, st)
      | (kv, vv) :: r =>
          let+ (rb, st1) := r_for_body self st k v b kv vv in
          let '(x, brk) := rb in
          if brk then ROk (VList (acc ++ [x]), st1) else r_for_items self st1 k v b r (acc ++ [x])
      end.

Definition for_slice_step (self : evals) (st : state) (k v : bytes) (b : block) (loc : nat) (i : nat) (acc : list value) : R :=
      match hget (sheap st) loc with
      | Some (HSlice _ els) =>
          match nth_error els i with
          | None => ROk (VList acc, st)
          | Some x =>
              let+ (rb, st1) := r_for_body self st k v b (VInt (Z.of_nat i)) x in
              let '(y, brk) := rb in
              if brk then ROk (VList (acc ++ [y]), st1) else r_for_slice self st1 k v b loc (S i) (acc ++ [y])
          end
      | _ => fail st
      end.

Definition for_iter_step (self : evals) (st : state) (k v : bytes) (b : block) (loc : nat) (i : nat) (acc : list value) : R :=
      let nxt : option (value * state) :=
        match hget (sheap st) loc with
        | Some (HRanger r) =>
            match rnext r with
            | (Some z, r') => Some (VInt z, with_heap st (hset (sheap st) loc (HRanger r')))
            | (None, _) => None
            end
        | Some (HList (x :: rest)) => Some (x, with_heap st (hset (sheap st) loc (HList rest)))
        | _ => None
        end in
      match nxt with
      | None => ROk (VList acc, st)
      | Some (x, st0) =>
          let+ (rb, st1) := r_for_body self st0 k v b (VInt (Z.of_nat i)) x in
          let '(y, brk) := rb in
          if brk then ROk (VList (acc ++ [y]), st1) else r_for_iter self st1 k v b loc (S i) (acc ++ [y])
      end.

Definition eval_index_step (self : evals) (st : state) (l i v callee : expr) : R :=
      let+ (iv, st1) := r_eval self st i in
      let+ (lv, st2) := r_eval self st1 l in
      match v with
      | ENil =>
          (* access *)
          let finish (x : value) (s : state) : R :=
            match callee with
            | ENil => ROk (x, s)
            | _ => r_index_callee self s x (estr l) callee
            end in
          match lv with
          | VMap loc =>
              match hget (sheap st2) loc with
              | Some (HMap kty _ kvs) =>
                  match iv with
                  | VNil => fail st2
                  | _ =>
                      if negb (comparable_v iv) then fail st2 else
                      let kind_ok :=
                        match kty, iv with
                        | TyIface, _ => true
                        | TyString, VStr _ | TyInt, VInt _ | TyBool, VBool _ | TyFloat, VFloat _ => true
                        | _, _ => false
                        end in
                      if negb kind_ok then fail st2
                      else match vlookup iv kvs with
                           | Some x => finish x st2
                           | None => ROk (VNil, st2)
                           end
                  end
              | _ => fail st2
              end
          | VSlice _ | VList _ =>
              let els := match lv with
                         | VList vs => Some vs
                         | VSlice loc => match hget (sheap st2) loc with Some (HSlice _ e) => Some e | _ => None end
                         | _ => None
                         end in
              match els, iv with
              | Some es, VInt z =>
                  if (z <? 0)%Z || (Z.of_nat (length es) - 1 <? z)%Z then fail st2
                  else match nth_error es (Z.to_nat z) with
                       | Some x => finish x st2
                       | None => fail st2
                       end
              | _, _ => fail st2
              end
          | _ => fail st2
          end
      | _ =>
          (* update *)
          let+ (nv, st3) := r_eval self st2 v in
          match lv with
          | VMap loc =>
              match hget (sheap st3) loc with
              | Some (HMap kty vty kvs) =>
                  let key_ok := comparable_v iv && match kty, iv with
                                | _, VNil => false
                                | TyIface, _ => true
                                | TyString, VStr _ | TyInt, VInt _ | TyBool, VBool _ => true
                                | _, _ => false
                                end in
                  let val_ok := match vty, nv with
                                | _, VNil => true            (* zero Value: deletes the key *)
                                | TyIface, _ => true
                                | t, x => ty_eqb t (ty_of x)
                                end in
                  if negb (key_ok && val_ok) then fail st3
                  else
                    let kvs' := match nv with VNil => vdelete iv kvs | _ => vupdate iv nv kvs end in
                    ROk (VNil, with_heap st3 (hset (sheap st3) loc (HMap kty vty kvs')))
              | _ => fail st3
              end
          | VSlice loc =>
              match hget (sheap st3) loc, iv with
              | Some (HSlice ety es), VInt z =>
                  if (z <? 0)%Z || (Z.of_nat (length es) - 1 <? z)%Z then fail st3
                  else match nv with
                       | VNil =>
                           if ty_eqb ety TyIface then
                             let es' := firstn (Z.to_nat z) es ++ [VNil] ++ skipn (S (Z.to_nat z)) es in
                             ROk (VNil, with_heap st3 (hset (sheap st3) loc (HSlice ety es')))
                           else fail st3
                       | _ =>
                           if ty_eqb ety TyIface || ty_eqb ety (ty_of nv) then
                             let es' := firstn (Z.to_nat z) es ++ [nv] ++ skipn (S (Z.to_nat z)) es in
                             ROk (VNil, with_heap st3 (hset (sheap st3) loc (HSlice ety es')))
                           else fail st3
                       end
              | _, _ => fail st3
              end
          | VList _ => RUnsup
          | _ => fail st3
          end
      end.

Definition index_callee_step (self : evals) (st : state) (x : value) (leftS : bytes) (callee : expr) : R :=
      let octx := scur st in
      let '(st1, n) := cnew st in
      let st2 := with_cur (copy_data st1 octx n) n in
      let st3 := set_in st2 n (callee_key leftS callee) x in
      rfinal (fun s => with_cur s octx) (r_eval self st3 callee).

Definition eval_call_step (self : evals) (st : state) (fn : expr) (callee : option expr) (args : list expr) (blk : option block) (chain : expr) : R :=
      (* resolve the callable; None = the receiver itself is the result *)
      let resolved : res ((option value * value) * state) :=
        match callee with
        | Some ce =>
            let+ (c, st1) := r_eval self st ce in
            let mname := match fn with EIdent _ _ names => last names [] | _ => estr fn end in
            match c with
            | VNil => fail st1
            | VStruct tn fs =>
                match find_method (g_methods G tn) mname with
                | Some (_, id) => ROk ((Some (VBound c id), c), st1)
                | None => fail st1
                end
            | VPtr (VStruct tn fs) =>
                match find_method (g_methods G tn) mname with
                | Some (_, id) => ROk ((Some (VBound c id), c), st1)
                | None => ROk ((None, c), st1)              (* rc.Interface(): the receiver itself *)
                end
            | VNilPtr tn => fail st1
            | _ => fail st1
            end
        | None =>
            let+ (fv, st1) := r_eval self st fn in
            ROk ((Some fv, VNil), st1)
        end in
      let+ (cr, st1) := resolved in
      match cr with
      | (None, self) => ROk (self, st1)
      | (Some (VFn params body), _) =>
          match callee with
          | None => r_user_call self st1 params body args
          | Some _ => fail st1
          end
      | (Some fv, _) =>
          let go : option (N * list value * option value) :=
            match fv with
            | VGo id cfg => Some (id, cfg, None)
            | VBound recv id => Some (id, [], Some recv)
            | _ => None
            end in
          match go with
          | None => fail st1                           (* nil or not a func *)
          | Some (id, cfg, recv) =>
              match g_sig G id cfg with
              | None => RUnsup
              | Some sg =>
                  let+ (bound, st2) := r_bind_args self st1 sg args blk in
                  let+ (rv, st3) := r_go_apply self st2 id cfg recv bound in
                  if Nat.eqb (sg_nres sg) 0 then ROk (VNil, st3)
                  else
                    match chain with
                    | ENil => ROk (rv, st3)
                    | _ =>
                        let octx := scur st3 in
                        let '(st4, n) := cnew st3 in
                        let st5 := with_cur (copy_data st4 octx n) n in
                        let st6 := set_in st5 n (estr fn) rv in
                        rfinal (fun s => with_cur s octx) (r_eval self st6 chain)
                    end
              end
          end
      end.

Definition user_call_step (self : evals) (st : state) (params : list bytes) (body : block) (args : list expr) : R :=
      if Nat.ltb (length args) (length params) then fail st else
      (* the arguments are evaluated in the caller's scope, before any parameter is bound *)
      let+ (vals, st0) := r_eval_list self st (firstn (length params) args) in
      let octx := scur st0 in
      let '(st1, n) := cnew st0 in
      let st2 := set_all (with_cur st1 n) n (combine params vals) in
      rfinal (fun s => with_cur s octx)
        (let+ (r, st3) := r_eval_block self st2 body in
         ROk (unwrap_ret 4000 r, st3)).

(* kept for the record of the old behaviour; no longer used by user_call *)
Definition bind_params_step (self : evals) (st : state) (params : list bytes) (args : list expr) : R :=
      match params, args with
      | [], _ => ROk (VNil, st)
      | _ :: _, [] => fail st
      | p :: ps, a :: rest =>
          let+ (v, st1) := r_eval self st a in
          r_bind_params self (set_in st1 (scur st1) p v) ps rest
      end.

Definition bind_args_step (self : evals) (st : state) (sg : gosig) (args : list expr) (blk : option block) : res (list barg * state) :=
      let nin := length (sg_params sg) in
      if negb (sg_variadic sg) then
        if Nat.ltb nin (length args) then fail st
        else
          let+ (bs0, st1) := r_bind_fixed self st (sg_params sg) args in
          let bs := fix_nil_hctx (scur st1) blk (sg_params sg) bs0 in
          let diff := (nin - length bs)%nat in
          let '(st2, bs2) :=
            match diff with
            | 2%nat =>
                let '(s1, b1) := auto_arg st1 (nth (nin - 2) (sg_params sg) PIface) blk in
                let '(s2, b2) := auto_arg s1 (nth (nin - 1) (sg_params sg) PIface) blk in
                (s2, bs ++ [b1; b2])
            | 1%nat =>
                let '(s1, b1) := auto_arg st1 (nth (nin - 1) (sg_params sg) PIface) blk in
                (s1, bs ++ [b1])
            | _ => (st1, bs)
            end in
          if Nat.eqb (length bs2) nin then ROk (bs2, st2) else fail st2
      else
        (* variadic: the last parameter's type is the element type *)
        if Nat.ltb (length args) (nin - 1) then fail st
        else
          let+ (bs, st1) := r_bind_fixed self st (removelast (sg_params sg)) (firstn (nin - 1) args) in
          let+ (vs, st2) := r_bind_variadic self st1 (last (sg_params sg) PIface) (skipn (nin - 1) args) in
          ROk (bs ++ vs, st2).

Definition bind_fixed_step (self : evals) (st : state) (ps : list pty) (args : list expr) : res (list barg * state) :=
      match args, ps with
      | [], _ => ROk ([], st)
      | _ :: _, [] => fail st
      | a :: rest, p :: ps' =>
          let+ (v, st1) := r_eval self st a in
          let bound := match v with VNil => Some (zero_of p) | _ => if assignable (sheap st1) v p then Some (BV v) else None end in
          match bound with
          | None => fail st1
          | Some bv =>
              let+ (bs, st2) := r_bind_fixed self st1 ps' rest in
              ROk (bv :: bs, st2)
          end
      end.

Definition bind_variadic_step (self : evals) (st : state) (p : pty) (args : list expr) : res (list barg * state) :=
      match args with
      | [] => ROk ([], st)
      | a :: rest =>
          let+ (v, st1) := r_eval self st a in
          let bound := match v with VNil => Some (zero_of p) | _ => if assignable (sheap st1) v p then Some (BV v) else None end in
          match bound with
          | None => fail st1
          | Some bv =>
              let+ (bs, st2) := r_bind_variadic self st1 p rest in
              ROk (bv :: bs, st2)
          end
      end.

Definition block_with_step (self : evals) (st : state) (blk : option block) (ctx : nat) : res (bytes * state) :=
      match blk with
      | None => fail st
      | Some b =>
          let octx := scur st in
          match r_eval_block self (with_cur st ctx) b with
          | ROk (v, st1) => if printable (sheap st1) v then ROk (write (sheap st1) v, with_cur st1 octx) else RUnsup
          | RErr e s => RErr e (with_cur s octx)
          | RPanic s => RPanic s
          | RFuel => RFuel
          | RUnsup => RUnsup
          end
      end.

Definition block_in_child_step (self : evals) (st : state) (blk : option block) (parent : nat) (data : list (key * value)) : R :=
      let '(st1, n) := cnew_of st parent in
      let st2 := set_all st1 n data in
      match r_block_with self st2 blk n with
      | ROk (body, st3) => ROk (VHTML body, st3)
      | RErr e s => RErr e s
      | RPanic s => RPanic s
      | RFuel => RFuel
      | RUnsup => RUnsup
      end.

Definition go_apply_step (self : evals) (st : state) (id : N) (cfg : list value) (recv : option value) (bs : list barg) : R :=
      let h := sheap st in
      if (id =? H_RAW) || (id =? H_HTML) then
        match bs with [BV (VStr s)] => ROk (VHTML s, st) | _ => RUnsup end
      else if id =? H_ID then
        match bs with [BV v] => ROk (v, st) | _ => RUnsup end
      else if id =? H_LEN then
        match bs with
        | [BV v] => match len_model (lenarg_of h v) with
                    | LenOk n => ROk (VInt (Z.of_nat n), st)
                    | LenPanic => RUnsup
                    end
        | _ => RUnsup
        end
      else if (id =? H_RANGE) || (id =? H_BETWEEN) then
        match bs with
        | [BV (VInt a); BV (VInt b)] =>
            let '(st1, l) := halloc_st st (HRanger (if id =? H_RANGE then range_ a b else between_ a b)) in
            ROk (VIter l, st1)
        | _ => RUnsup
        end
      else if id =? H_UNTIL then
        match bs with
        | [BV (VInt a)] => let '(st1, l) := halloc_st st (HRanger (until_ a)) in ROk (VIter l, st1)
        | _ => RUnsup
        end
      else if id =? H_GROUPBY then
        match bs with
        | [BV (VInt n); BV v] =>
            let els := match v with
                       | VList vs => Some vs
                       | VSlice l => match hget h l with Some (HSlice _ e) => Some e | _ => None end
                       | _ => None
                       end in
            match els with
            | None => fail st
            | Some es =>
                match group_by n es with
                | None => fail st
                | Some gs => let '(st1, l) := halloc_st st (HList (map VList gs)) in ROk (VIter l, st1)
                end
            end
        | _ => RUnsup
        end
      else if id =? H_TRUNCATE then
        match bs with
        | [BV (VStr s); m] =>
            let kvs := match map_of_barg h m with Some x => x | None => [] end in
            (* options of the wrong type fall back to the defaults *)
            let sz := match vlookup (VStr k_size) kvs with Some (VInt z) => z | _ => 50%Z end in
            let t := match vlookup (VStr k_trail) kvs with Some (VStr t) => t | _ => s_dots end in
            ROk (VStr (truncate s sz t), st)
        | _ => RUnsup
        end
      else if id =? H_HTMLESCAPE then
        match bs with
        | [BV (VStr s); BHelp (HC ctx blk)] =>
            match blk with
            | Some _ =>
                match r_block_with self st blk ctx with
                | ROk (body, st1) => ROk (VStr (html_escape body), st1)
                | RErr e s => RErr e s
                | RPanic s => RPanic s
                | RFuel => RFuel
                | RUnsup => RUnsup
                end
            | None => ROk (VStr (html_escape s), st)
            end
        | _ => RUnsup
        end
      else if id =? H_JSESCAPE then
        match bs with
        | [BV (VStr s)] => ROk (VStr (js_escape is_print_approx s), st)
        | _ => RUnsup
        end
      else if id =? H_TOJSON then
        match bs with
        | [BV v] => match to_json_value (length h + 16) h v with
                    | Some j => ROk (VHTML (to_json j), st)
                    | None => RUnsup
                    end
        | _ => RUnsup
        end
      else if id =? H_CONTENTFOR then
        match bs with
        | [BV (VStr name); BHelp (HC ctx blk)] =>
            ROk (VNil, set_in st ctx (k_contentFor name) (VClosure ctx blk))
        | _ => RUnsup
        end
      else if id =? H_CONTENTOF then
        match bs with
        | [BV (VStr name); m; BHelp (HC ctx blk)] =>
            let data := match map_of_barg h m with Some kvs => str_entries kvs | None => [] end in
            match cvalue (sctx st) ctx (k_contentFor name) with
            | VClosure cctx cblk => r_block_in_child self st cblk cctx data
            | _ => match blk with
                   | None => fail st
                   | Some _ => r_block_in_child self st blk ctx data
                   end
            end
        | _ => RUnsup
        end
      else if id =? H_PARTIAL then
        match bs with
        | [BV (VStr name); m; BHelp (HC ctx _)] =>
            r_partial_call self st name (match map_of_barg h m with Some kvs => str_entries kvs | None => [] end) ctx
        | _ => RUnsup
        end
      else if id =? H_FAIL then
        match cfg with
        | VInt k :: _ => RErr (EFail (Some (Z.to_N k))) (log_ev st (EvCall id [vshow h (VInt k)]))
        | _ => RUnsup
        end
      else if (id =? H_COUNT) || (id =? H_REC) then
        let argv := map (fun b => match b with
                                  | BV v => vshow h v
                                  | BMap l => vshow h (VMap l)
                                  | BHelp (HC _ (Some _)) => vshow h (VOther 3)
                                  | BHelp _ => vshow h (VOther 2)
                                  end) bs in
        ROk (nth 1 cfg VNil, log_ev st (EvCall id (vshow h (nth 0 cfg VNil) :: argv)))
      else if (id =? H_BLK) || (id =? H_BLK2) then
        match bs with
        | [BHelp (HC ctx blk)] =>
            match r_block_with self st blk ctx with
            | ROk (body, st1) =>
                if id =? H_BLK then ROk (VHTML ([91] ++ body ++ [93]), st1)
                else match r_block_with self st1 blk ctx with
                     | ROk (body2, st2) => ROk (VHTML (body ++ [124] ++ body2), st2)
                     | RErr e s => RErr e s
                     | RPanic s => RPanic s
                     | RFuel => RFuel
                     | RUnsup => RUnsup
                     end
            | RErr e s => RErr e s
            | RPanic s => RPanic s
            | RFuel => RFuel
            | RUnsup => RUnsup
            end
        | _ => RUnsup
        end
      else if id =? H_BLKCTX then
        match bs with
        | [m; BHelp (HC ctx blk)] =>
            r_block_in_child self st blk ctx (match map_of_barg h m with Some kvs => str_entries kvs | None => [] end)
        | _ => RUnsup
        end
      else if (id =? H_METHOD_HELLO) || (id =? H_METHOD_PHELLO) || (id =? H_METHOD_GET) then
        match recv with
        | Some rv =>
            match (match rv with VPtr x => x | x => x end) with
            | VStruct _ fs =>
                if id =? H_METHOD_GET then
                  match bs, field_of fs [73;110] with [], Some x => ROk (x, st) | _, _ => RUnsup end
                else
                  match field_of fs [78;97;109;101] with
                  | Some (VStr nm) =>
                      if id =? H_METHOD_HELLO then
                        match bs with
                        | [BV (VStr s)] => ROk (VStr ([104;101;108;108;111;32] ++ s ++ [32;102;114;111;109;32] ++ nm), st)
                        | _ => RUnsup
                        end
                      else
                        match bs with
                        | [] => ROk (VStr ([112;104;101;108;108;111;32] ++ nm), st)
                        | _ => RUnsup
                        end
                  | _ => RUnsup
                  end
            | _ => RUnsup
            end
        | None => RUnsup
        end
      else RUnsup.

Definition partial_call_step (self : evals) (st : state) (name : bytes) (data : list (key * value)) (ctx : nat) : R :=
      let '(st1, n) := cnew_of st ctx in
      let st2 := set_all st1 n data in
      match cvalue (sctx st2) n k_partialFeeder with
      | VGo id _ =>
          if negb (id =? H_FEEDER) then RUnsup
          else
            match alookup bytes name (g_partials G) with
            | None => fail st2                                   (* the feeder's error *)
            | Some text =>
                match parse text with
                | ParseFuel => RFuel
                | ParseErr _ => fail st2
                | ParseOk prog =>
                    let ocur := scur st2 in
                    let ostmt := sstmt st2 in
                    match r_exec_prog self (with_stmt (with_cur st2 n) None) prog [] with
                    | OOk out st3 =>
                        let st4 := with_stmt (with_cur st3 ocur) ostmt in
                        let part :=
                          match cvalue (sctx st4) n k_contentType with
                          | VStr ct =>
                              let ext := ext_of name in
                              if contains s_javascript ct && negb (beq ext s_dotjs) && negb (beq ext [])
                              then js_escape is_print_approx out
                              else out
                          | _ => out
                          end in
                        match alookup value k_layout data with
                        | Some (VStr layout) => r_partial_call self st4 layout [(k_yield, VHTML part)] n
                        | _ => ROk (VHTML part, st4)
                        end
                    | OErr _ e st3 =>
                        RErr (match e with EFail s => EFail s | EUnknown _ => EFail None end)
                             (with_stmt (with_cur st3 ocur) ostmt)
                    | OParseErr _ => fail st2
                    | OPanic s => RPanic s
                    | OFuel => RFuel
                    | OUnsup => RUnsup
                    end
                end
            end
      | _ => fail st2
      end.

Definition exec_prog_step (self : evals) (st : state) (prog : list stmt) (out : bytes) : outcome :=
      match prog with
      | [] => OOk out st
      | s :: rest0 =>
          let rest := rest0 in
          let st := with_stmt st None in          (* c.curStmt = nil *)
          let r : R :=
            match s with
            | SRet _ is_e e =>
                let+ (v, st1) := r_eval self st e in
                ROk ((if is_e then v else VRet [v]), st1)
            | SExpr _ (EHtml _ v) => ROk (VHTML v, st)
            | SExpr _ e =>
                let+ (v, st1) := r_eval self st e in ROk (VNil, st1)
            | SLet _ name e =>
                let+ (v, st1) := r_eval self st e in
                ROk (VNil, set_in st1 (scur st1) (match name with Some n => n | None => [] end) v)
            end in
          match r with
          | ROk (v, st1) => if printable (sheap st1) v then r_exec_prog self st1 rest (out ++ write (sheap st1) v) else OUnsup
          | RErr e st1 =>
              OErr (match sstmt st1 with Some l => l | None => tline (stmt_tok s) end) e st1
          | RPanic site => OPanic site
          | RFuel => OFuel
          | RUnsup => OUnsup
          end
      end.

Definition evals_bottom : evals := mkevals
  (fun _ _ => RFuel)
  (fun _ _ => RFuel)
  (fun _ _ => RFuel)
  (fun _ _ _ => RFuel)
  (fun _ _ _ _ => RFuel)
  (fun _ _ _ => RFuel)
  (fun _ _ => RFuel)
  (fun _ _ _ => RFuel)
  (fun _ _ => RFuel)
  (fun _ _ _ _ _ => RFuel)
  (fun _ _ _ _ _ _ => RFuel)
  (fun _ _ _ _ _ _ => RFuel)
  (fun _ _ _ _ _ _ _ => RFuel)
  (fun _ _ _ _ _ _ _ => RFuel)
  (fun _ _ _ _ _ => RFuel)
  (fun _ _ _ _ => RFuel)
  (fun _ _ _ _ _ _ => RFuel)
  (fun _ _ _ _ => RFuel)
  (fun _ _ _ => RFuel)
  (fun _ _ _ _ => RFuel)
  (fun _ _ _ => RFuel)
  (fun _ _ _ => RFuel)
  (fun _ _ _ => RFuel)
  (fun _ _ _ _ => RFuel)
  (fun _ _ _ _ _ => RFuel)
  (fun _ _ _ _ => RFuel)
  (fun _ _ _ => OFuel).

Definition evals_step (self : evals) : evals := mkevals
  (eval_step self)
  (eval_chain_step self)
  (eval_list_step self)
  (eval_pairs_step self)
  (eval_infix_step self)
  (eval_if_step self)
  (eval_block_step self)
  (eval_stmts_step self)
  (eval_stmt_step self)
  (eval_for_step self)
  (for_body_step self)
  (for_items_step self)
  (for_slice_step self)
  (for_iter_step self)
  (eval_index_step self)
  (index_callee_step self)
  (eval_call_step self)
  (user_call_step self)
  (bind_params_step self)
  (bind_args_step self)
  (bind_fixed_step self)
  (bind_variadic_step self)
  (block_with_step self)
  (block_in_child_step self)
  (go_apply_step self)
  (partial_call_step self)
  (exec_prog_step self).

Fixpoint evals_at (fuel : nat) : evals :=
  match fuel with
  | O => evals_bottom
  | S f => evals_step (evals_at f)
  end.

Definition eval (fuel : nat) := r_eval (evals_at fuel).
Definition eval_chain (fuel : nat) := r_eval_chain (evals_at fuel).
Definition eval_list (fuel : nat) := r_eval_list (evals_at fuel).
Definition eval_pairs (fuel : nat) := r_eval_pairs (evals_at fuel).
Definition eval_infix (fuel : nat) := r_eval_infix (evals_at fuel).
Definition eval_if (fuel : nat) := r_eval_if (evals_at fuel).
Definition eval_block (fuel : nat) := r_eval_block (evals_at fuel).
Definition eval_stmts (fuel : nat) := r_eval_stmts (evals_at fuel).
Definition eval_stmt (fuel : nat) := r_eval_stmt (evals_at fuel).
Definition eval_for (fuel : nat) := r_eval_for (evals_at fuel).
Definition for_body (fuel : nat) := r_for_body (evals_at fuel).
Definition for_items (fuel : nat) := r_for_items (evals_at fuel).
Definition for_slice (fuel : nat) := r_for_slice (evals_at fuel).
Definition for_iter (fuel : nat) := r_for_iter (evals_at fuel).
Definition eval_index (fuel : nat) := r_eval_index (evals_at fuel).
Definition index_callee (fuel : nat) := r_index_callee (evals_at fuel).
Definition eval_call (fuel : nat) := r_eval_call (evals_at fuel).
Definition user_call (fuel : nat) := r_user_call (evals_at fuel).
Definition bind_params (fuel : nat) := r_bind_params (evals_at fuel).
Definition bind_args (fuel : nat) := r_bind_args (evals_at fuel).
Definition bind_fixed (fuel : nat) := r_bind_fixed (evals_at fuel).
Definition bind_variadic (fuel : nat) := r_bind_variadic (evals_at fuel).
Definition block_with (fuel : nat) := r_block_with (evals_at fuel).
Definition block_in_child (fuel : nat) := r_block_in_child (evals_at fuel).
Definition go_apply (fuel : nat) := r_go_apply (evals_at fuel).
Definition partial_call (fuel : nat) := r_partial_call (evals_at fuel).
Definition exec_prog (fuel : nat) := r_exec_prog (evals_at fuel).

(* plush.Render(input, ctx) with ctx = the current context of [st] *)
Definition render (fuel : nat) (st : state) (input : bytes) : outcome :=
  match parse input with
  | ParseFuel => OFuel
  | ParseErr ls => OParseErr ls
  | ParseOk prog => exec_prog fuel (with_stmt st None) prog []
  end.

End Eval.
