(* Expected.v - the decision tables of gobuffalo/plush AS THE MODEL WAS TRANSCRIBED FROM THEM.
   Hand-maintained snapshot: when proofs/TablesAgree.v stops checking, the source changed a
   table and the corresponding model definition (named next to each lemma there) must be
   re-examined. *)
From Coq Require Import String List.
Import ListNotations.
Open Scope string_scope.

Definition exp_prec_levels : list (string * nat) :=
  [("LOWEST", 1);
   ("ANDOR", 2);
   ("EQUALS", 3);
   ("LESSGREATER", 4);
   ("SUM", 5);
   ("PRODUCT", 6);
   ("PREFIX", 7);
   ("CALL", 8);
   ("INDEX", 9)].

Definition exp_precedences : list (string * nat) :=
  [("!=", 3);
   ("&&", 2);
   ("(", 8);
   ("*", 6);
   ("+", 5);
   ("-", 5);
   ("/", 6);
   ("<", 4);
   ("<=", 4);
   ("==", 3);
   (">", 4);
   (">=", 4);
   ("[", 9);
   ("||", 2);
   ("~=", 3)].

Definition exp_keywords : list (string * string) :=
  [("break", "BREAK");
   ("continue", "CONTINUE");
   ("else", "ELSE");
   ("false", "FALSE");
   ("fn", "FUNCTION");
   ("for", "FOR");
   ("func", "FUNCTION");
   ("if", "IF");
   ("in", "IN");
   ("let", "LET");
   ("return", "RETURN");
   ("true", "TRUE")].

Definition exp_prefix_fns : list (string * string) :=
  [("!", "parsePrefixExpression");
   ("%>", "func:return nil");
   ("(", "parseGroupedExpression");
   ("-", "parsePrefixExpression");
   ("<%#", "parseCommentLiteral");
   ("BREAK", "parseForLoopControlFlow");
   ("B_STRING", "parseStringLiteral");
   ("CONTINUE", "parseForLoopControlFlow");
   ("FALSE", "parseBoolean");
   ("FLOAT", "parseFloatLiteral");
   ("FOR", "parseForExpression");
   ("FUNCTION", "parseFunctionLiteral");
   ("HTML", "parseHTMLLiteral");
   ("IDENT", "parseIdentifier");
   ("IF", "parseIfExpression");
   ("INT", "parseIntegerLiteral");
   ("STRING", "parseStringLiteral");
   ("TRUE", "parseBoolean");
   ("[", "parseArrayLiteral");
   ("{", "parseHashLiteral")].

Definition exp_infix_fns : list (string * string) :=
  [("!=", "parseInfixExpression");
   ("&&", "parseInfixExpression");
   ("(", "parseCallExpression");
   ("*", "parseInfixExpression");
   ("+", "parseInfixExpression");
   ("-", "parseInfixExpression");
   ("/", "parseInfixExpression");
   ("<", "parseInfixExpression");
   ("<=", "parseInfixExpression");
   ("==", "parseInfixExpression");
   (">", "parseInfixExpression");
   (">=", "parseInfixExpression");
   ("[", "parseIndexExpression");
   ("||", "parseInfixExpression");
   ("~=", "parseInfixExpression")].

Definition exp_pratt_loop_cond : string := "!p.peekTokenIs(token.SEMICOLON) && precedence < p.peekPrecedence()".

Definition exp_parse_infix_body : string := "expression := &ast.InfixExpression{ TokenAble: ast.TokenAble{Token: p.curToken}, Operator: p.curToken.Literal, Left: left, }; precedence := p.curPrecedence(); p.nextToken(); expression.Right = p.parseExpression(precedence); return expression".

Definition exp_parse_prefix_body : string := "expression := &ast.PrefixExpression{ TokenAble: ast.TokenAble{Token: p.curToken}, Operator: p.curToken.Literal, }; p.nextToken(); expression.Right = p.parseExpression(PREFIX); return expression".

Definition exp_ops_intsOperator : list (string * string) :=
  [("!=", "return l != r, nil");
   ("*", "return l * r, nil");
   ("+", "return l + r, nil");
   ("-", "return l - r, nil");
   ("/", "if r == 0 { return nil, fmt.Errorf(""E"", l, op, r) }; return l / r, nil");
   ("<", "return l < r, nil");
   ("<=", "return l <= r, nil");
   ("==", "return l == r, nil");
   (">", "return l > r, nil");
   (">=", "return l >= r, nil")].

Definition exp_pre_intsOperator : list string := ["return nil, fmt.Errorf(""E"", op)"].

Definition exp_ops_floatsOperator : list (string * string) :=
  [("!=", "return l != r, nil");
   ("*", "return l * r, nil");
   ("+", "return l + r, nil");
   ("-", "return l - r, nil");
   ("/", "if r == 0 { return nil, fmt.Errorf(""E"", l, op, r) }; return l / r, nil");
   ("<", "return l < r, nil");
   ("<=", "return l <= r, nil");
   ("==", "return l == r, nil");
   (">", "return l > r, nil");
   (">=", "return l >= r, nil")].

Definition exp_pre_floatsOperator : list string := ["return nil, fmt.Errorf(""E"", op)"].

Definition exp_ops_stringsOperator : list (string * string) :=
  [("!=", "return l != rr, nil");
   ("+", "return l + rr, nil");
   ("<", "return l < rr, nil");
   ("<=", "return l <= rr, nil");
   ("==", "return l == rr, nil");
   (">", "return l > rr, nil");
   (">=", "return l >= rr, nil");
   ("~=", "x, err := regexp.Compile(rr); if err != nil { return nil, fmt.Errorf(""E"", rr) }; return x.MatchString(l), nil")].

Definition exp_pre_stringsOperator : list string := ["rr := fmt.Sprint(r)";
   "return nil, fmt.Errorf(""E"", op)"].

Definition exp_ops_boolsOperator : list (string * string) :=
  [("!=", "return lt != rt, nil");
   ("&&", "return lt && rt, nil");
   ("+", "return lt && rt, nil");
   ("==", "return lt == rt, nil");
   ("default", "return nil, fmt.Errorf(""E"", op, lt, rt)");
   ("||", "return lt || rt, nil")].

Definition exp_pre_boolsOperator : list string := ["lt := c.isTruthy(l)";
   "rt := c.isTruthy(r)"].

Definition exp_ops_nilsOperator : list (string * string) :=
  [("!=", "return l != r, nil");
   ("==", "return l == r, nil");
   ("default", "return nil, fmt.Errorf(""E"", op, l, r)")].

Definition exp_pre_nilsOperator : list string := [].

Definition exp_ops_arrayOperator : list (string * string) :=
  [("+", "if reflect.TypeOf(l).Kind() != reflect.Slice { return nil, fmt.Errorf(""E"", op, l, r) }; elemType := reflect.TypeOf(l).Elem(); if elemType.Kind() != reflect.Interface { t := reflect.ValueOf(r).Type() if elemType != t { err = fmt.Errorf(""E"", r, t, elemType) } } else if t := reflect.TypeOf(r); !t.AssignableTo(elemType) { err = fmt.Errorf(""E"", r, t, elemType) }; if err == nil { lv := reflect.ValueOf(l) res := reflect.MakeSlice(lv.Type(), lv.Len(), lv.Len()+1) reflect.Copy(res, lv) return reflect.Append(res, reflect.ValueOf(r)).Interface(), nil }");
   ("default", "err = fmt.Errorf(""E"", op, l, r)")].

Definition exp_pre_arrayOperator : list string := ["var err error";
   "return nil, err"].

Definition exp_sink_cases : list (string * string) :=
  [("time.Time", "if dtf, ok := c.ctx.Value(""TIME_FORMAT"").(string); ok { bb.Write(unsafeGetBytes(template.HTMLEscapeString(t.Format(dtf)))) return }; bb.Write(unsafeGetBytes(template.HTMLEscapeString(t.Format(DefaultTimeFormat))))");
   ("*time.Time", "if t != nil { c.write(bb, *t) }");
   ("interfaceable", "if c.unwrapping < maxUnwrap { c.unwrapping++ c.write(bb, t.Interface()) c.unwrapping-- }");
   ("string,ast.Printable,bool", "bb.Write(unsafeGetBytes(template.HTMLEscaper(t)))");
   ("template.HTML", "bb.Write(unsafeGetBytes(string(t)))");
   ("HTMLer", "bb.Write(unsafeGetBytes(string(t.HTML())))");
   ("uint,uint8,uint16,uint32,uint64,int,int8,int16,int32,int64,float32,float64", "bb.Write(unsafeGetBytes(fmt.Sprint(t)))");
   ("fmt.Stringer", "bb.Write(unsafeGetBytes(template.HTMLEscapeString(t.String())))");
   ("[]string", "for _, ii := range t { c.write(bb, ii) }");
   ("[]interface{}", "for _, ii := range t { c.write(bb, ii) }");
   ("returnObject", "for _, ii := range t.Value { c.write(bb, ii) }")].

Definition exp_truthy_cases : list (string * string) :=
  [("bool", "return t");
   ("string", "return t != """"");
   ("template.HTML", "return t != """"");
   ("default", "if reflect.ValueOf(i).Kind() == reflect.Ptr && reflect.ValueOf(i).IsNil() { return false }; return true")].

Definition exp_stmt_emit_cases : list (string * string) :=
  [("exitBlockStatment,ast.Printable", "return s, err");
   ("template.HTML", "if _, ok := t.Expression.(*ast.HTMLLiteral); ok { return s, err }")].

Definition exp_infix_dispatch_cases : list (string * string) :=
  [("string", "return c.stringsOperator(t, rres, node.Operator)");
   ("int64", "if r, ok := rres.(int64); ok { return c.intsOperator(int(t), int(r), node.Operator) }");
   ("int", "if r, ok := rres.(int); ok { return c.intsOperator(t, r, node.Operator) }");
   ("float64", "if r, ok := rres.(float64); ok { return c.floatsOperator(t, r, node.Operator) }");
   ("bool", "return c.boolsOperator(lres, rres, node.Operator)");
   ("default", "if reflect.TypeOf(t).Kind() == reflect.Slice || reflect.TypeOf(t).Kind() == reflect.Array { return c.arrayOperator(lres, rres, node.Operator) }")].

Definition exp_infix_prelude : list string := ["stmt := c.curStmt";
   "tolerated := func(err error) bool { if node.Operator == ""=="" || node.Operator == ""!="" || node.Operator == ""||"" || node.Operator == ""&&"" { return c.unknownIsNil(err, stmt) } return false }";
   "lres, err := c.evalExpression(node.Left)";
   "if err != nil && !tolerated(err) { return nil, err }";
   "switch { case node.Operator == ""&&"" && !c.isTruthy(lres): return false, nil case node.Operator == ""||"" && c.isTruthy(lres): return true, nil }";
   "rres, err := c.evalExpression(node.Right)";
   "if err != nil && !tolerated(err) { return nil, err }";
   "switch node.Operator { case ""&&"", ""||"": return c.isTruthy(rres), nil }";
   "if nil == lres || nil == rres { return c.nilsOperator(lres, rres, node.Operator) }"].

Definition exp_body_evalPrefixExpression : list string := ["stmt := c.curStmt";
   "res, err := c.evalExpression(node.Right)";
   "if err != nil { if !c.unknownIsNil(err, stmt) { return nil, err } }";
   "switch node.Operator { case ""!"": return !c.isTruthy(res), nil }";
   "return nil, fmt.Errorf(""E"", node.Operator)"].

Definition exp_body_evalIfExpression : list string := ["stmt := c.curStmt";
   "con, err := c.evalExpression(node.Condition)";
   "if err != nil { if !c.unknownIsNil(err, stmt) { return nil, err } }";
   "if c.isTruthy(con) { return c.evalBlockStatement(node.Block) }";
   "return c.evalElseAndElseIfExpressions(node)"].

Definition exp_body_evalElseAndElseIfExpressions : list string := ["var r interface{}";
   "stmt := c.curStmt";
   "for _, eiNode := range node.ElseIf { eiCon, err := c.evalExpression(eiNode.Condition) if err != nil { if !c.unknownIsNil(err, stmt) { return nil, err } } if c.isTruthy(eiCon) { return c.evalBlockStatement(eiNode.Block) } }";
   "if node.ElseBlock != nil { return c.evalBlockStatement(node.ElseBlock) }";
   "return r, nil"].

Definition exp_body_compile : list string := ["bb := &strings.Builder{}";
   "for _, stmt := range c.program.Statements { var res interface{} var err error c.curStmt = nil switch node := stmt.(type) { case *ast.ReturnStatement: res, err = c.evalReturnStatement(node) case *ast.ExpressionStatement: if h, ok := node.Expression.(*ast.HTMLLiteral); ok { res = template.HTML(h.Value) } else { _, err = c.evalExpression(node.Expression) } case *ast.LetStatement: res, err = c.evalLetStatement(node) } if err != nil { s := stmt if c.curStmt != nil { s = c.curStmt } return """", fmt.Errorf(""E"", s.T().LineNumber, err) } c.write(bb, res) }";
   "return bb.String(), nil"].

Definition exp_body_evalBlockStatement : list string := ["outer := c.curStmt";
   "res := []interface{}{}";
   "for _, s := range node.Statements { i, err := c.evalStatement(s) if err != nil { return nil, err } val, exitBlock := i.(exitBlockStatment) if !exitBlock { if i != nil { res = append(res, i) } } else { var resValue interface{} switch obj := val.(type) { case continueObject: obj = continueObject{Value: append(res, obj.Value...)} resValue = obj case breakObject: obj = breakObject{Value: append(res, obj.Value...)} resValue = obj case returnObject: res = append(res, i) obj.Value = res resValue = obj } c.curStmt = outer return resValue, nil } }";
   "c.curStmt = outer";
   "return res, nil"].

Definition exp_body_evalReturnStatement : list string := ["res, err := c.evalExpression(node.ReturnValue)";
   "if err != nil { return nil, err }";
   "if node.Type == token.RETURN { v := returnObject{} v.Value = append(v.Value, res) res = v }";
   "return res, nil"].

(* (function, accesses in source order: (location, is_write, locks held)) *)
Definition exp_access_table : list (string * list (string * bool * list string)) :=
  [
   ("CacheSet", [("plush.cache", true, ["plush.moot"])]);
   ("Context.Set", [("Context.data", true, ["Context.moot"])]);
   ("Context.Value", [("Context.data", false, ["Context.moot"])]);
   ("Context.export", [("Context.data", false, [])]);
   ("HelperMap.Add", [("HelperMap.helpers", false, ["HelperMap.moot"]); ("HelperMap.helpers", true, ["HelperMap.moot"]); ("HelperMap.helpers", true, ["HelperMap.moot"])]);
   ("HelperMap.All", [("HelperMap.helpers", false, [])]);
   ("HelperMap.Helpers", [("HelperMap.helpers", false, [])]);
   ("Parse", [("plush.cache", false, ["plush.moot"]); ("plush.cache", true, ["plush.moot"])])
  ].

Definition exp_map_range_sites : list string := ["BuffaloRenderer: range helpers";
   "ContentFor: range data";
   "ContentOf: range data";
   "NewContextWith: range Helpers.All()";
   "NewContextWithOuter: range Helpers.All()";
   "PartialHelper: range data";
   "evalCallExpression: range octx.data";
   "evalForExpression: range octx.data";
   "evalForExpression: riter.MapKeys()";
   "evalIndexCallee: range octx.data";
   "export: range c.data"].

Definition exp_ranger_consts : list (string * string) :=
  [("Range", "&ranger{pos: a - 1, end: b}");
   ("Between", "&ranger{pos: a, end: b - 1}");
   ("Until", "&ranger{pos: -1, end: a - 1}");
   ("rangeHelper", "&ranger{pos: a - 1, end: b}");
   ("betweenHelper", "&ranger{pos: a, end: b - 1}");
   ("untilHelper", "&ranger{pos: -1, end: a - 1}")].

Definition exp_ranger_next : list (string * string) :=
  [("helpers/iterators/range.go", "if r.pos < r.end { r.pos++ return r.pos }; return nil");
   ("iterators.go", "if r.pos < r.end { r.pos++ return r.pos }; return nil")].

Definition exp_groupby_src_a : string := "if size <= 0 { return nil, ERR() }; u := reflect.Indirect(reflect.ValueOf(underlying)); group := []reflect.Value{}; switch u.Kind() { case reflect.Array, reflect.Slice: if u.Kind() == reflect.Array && !u.CanAddr() { a := reflect.New(u.Type()).Elem() a.Set(u) u = a } if u.Len() == size { return &groupBy{ group: []reflect.Value{u}, }, nil } groupSize := u.Len() / size if u.Len()%size != 0 { groupSize++ } pos := 0 for pos < u.Len() { e := pos + groupSize if e > u.Len() { e = u.Len() } group = append(group, u.Slice(pos, e)) pos += groupSize } default: return nil, ERR(, underlying) }; g := &groupBy{ group: group, }; return g, nil".

Definition exp_groupby_src_b : string := "if size <= 0 { return nil, ERR() }; u := reflect.Indirect(reflect.ValueOf(underlying)); group := []reflect.Value{}; switch u.Kind() { case reflect.Array, reflect.Slice: if u.Kind() == reflect.Array && !u.CanAddr() { a := reflect.New(u.Type()).Elem() a.Set(u) u = a } if u.Len() == size { return &groupBy{ group: []reflect.Value{u}, }, nil } groupSize := u.Len() / size if u.Len()%size != 0 { groupSize++ } pos := 0 for pos < u.Len() { e := pos + groupSize if e > u.Len() { e = u.Len() } group = append(group, u.Slice(pos, e)) pos += groupSize } default: return nil, ERR(, underlying) }; g := &groupBy{ group: group, }; return g, nil".

(* C13: the cache and the template life cycle, as model/Cache.v transcribes them *)
Definition exp_body_plush_Parse : list string := ["if !CacheEnabled { return NewTemplate(input) }";
   "moot.Lock()";
   "defer moot.Unlock()";
   "t, ok := cache[input]";
   "if ok { return t, nil }";
   "t, err := NewTemplate(input)";
   "if err != nil { return t, err }";
   "cache[input] = t";
   "return t, nil"].

Definition exp_body_plush_Render : list string := ["t, err := Parse(input)";
   "if err != nil { return """", err }";
   "return t.Exec(ctx)"].

Definition exp_body_NewTemplate : list string := ["t := &Template{ Input: input, }";
   "err := t.Parse()";
   "if err != nil { return t, err }";
   "return t, nil"].

Definition exp_body_Template_Parse : list string := ["t.parseMoot.Lock()";
   "defer t.parseMoot.Unlock()";
   "if t.program != nil { return nil }";
   "program, err := parser.Parse(t.Input)";
   "if err != nil { return err }";
   "t.program = program";
   "return nil"].

Definition exp_body_Template_Exec : list string := ["err := t.Parse()";
   "if err != nil { return """", err }";
   "ev := compiler{ ctx: ctx, program: t.program, }";
   "s, err := ev.compile()";
   "return s, err"].

Definition exp_body_Template_Clone : list string := ["t.parseMoot.Lock()";
   "defer t.parseMoot.Unlock()";
   "t2 := &Template{ Input: t.Input, program: t.program, }";
   "return t2"].
