(* Bytes.v - byte strings as [list N], hex decoding for generated case files,
   and small list utilities shared by every model file.  No proofs here. *)
From Coq Require Export List NArith ZArith Bool.
From Coq Require Import Ascii String.
Export ListNotations.
Open Scope N_scope.
Notation length := List.length.

Definition byte := N.
Definition bytes := list N.

Fixpoint beq (a b : bytes) : bool :=
  match a, b with
  | [], [] => true
  | x :: a', y :: b' => N.eqb x y && beq a' b'
  | _, _ => false
  end.

Definition hexval (c : ascii) : N :=
  let n := N_of_ascii c in
  if (48 <=? n) && (n <=? 57) then n - 48
  else if (97 <=? n) && (n <=? 102) then n - 87
  else if (65 <=? n) && (n <=? 70) then n - 55
  else 0.

(* hx "3c25" = [60; 37] *)
Fixpoint hx (s : string) : bytes :=
  match s with
  | String a (String b r) => (hexval a * 16 + hexval b) :: hx r
  | _ => []
  end.

(* ASCII text literal: bs "abc" *)
Fixpoint bs (s : string) : bytes :=
  match s with
  | EmptyString => []
  | String a r => N_of_ascii a :: bs r
  end.

Fixpoint is_prefix (p s : bytes) : bool :=
  match p, s with
  | [], _ => true
  | x :: p', y :: s' => N.eqb x y && is_prefix p' s'
  | _ :: _, [] => false
  end.

(* does [p] occur in [s] *)
Fixpoint contains (p s : bytes) : bool :=
  match s with
  | [] => match p with [] => true | _ => false end
  | _ :: s' => is_prefix p s || contains p s'
  end.

Fixpoint concat_sep (sep : bytes) (l : list bytes) : bytes :=
  match l with
  | [] => []
  | [x] => x
  | x :: r => x ++ sep ++ concat_sep sep r
  end.

(* strings.Split(s, ".") for a single-byte separator: always non-empty *)
Fixpoint split_on_aux (c : N) (cur : bytes) (s : bytes) : list bytes :=
  match s with
  | [] => [rev cur]
  | x :: r => if N.eqb x c then rev cur :: split_on_aux c [] r
              else split_on_aux c (x :: cur) r
  end.
Definition split_on (c : N) (s : bytes) : list bytes := split_on_aux c [] s.

(* decimal printing of Z (fmt.Sprint of an int) *)
Fixpoint digits_pos (fuel : nat) (n : N) (acc : bytes) : bytes :=
  match fuel with
  | O => acc
  | S f => let acc' := (48 + n mod 10) :: acc in
           if n / 10 =? 0 then acc' else digits_pos f (n / 10) acc'
  end.
Definition dec_of_N (n : N) : bytes := digits_pos (S (N.to_nat (N.log2 n))) n [].
Definition dec_of_Z (z : Z) : bytes :=
  match z with
  | Z0 => [48]
  | Zpos p => dec_of_N (Npos p)
  | Zneg p => 45 :: dec_of_N (Npos p)
  end.

Definition is_ws (c : N) : bool := (c =? 32) || (c =? 9) || (c =? 10) || (c =? 13).

Fixpoint drop_ws (s : bytes) : bytes :=
  match s with
  | c :: r => if is_ws c then drop_ws r else s
  | [] => []
  end.
