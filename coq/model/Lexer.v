(* Lexer.v - byte-for-byte model of lexer/lexer.go.
   State: the bytes from the current char on ([ch] = head, 0 past the end,
   so a NUL byte and end of input look alike to the scanning loops exactly as
   in the Go code), the previous byte (for prevChar), the inside-tag flag and
   the line counter.  Every Go loop is a structural recursion on the
   remaining input; only [next_inside] (the # comment self-call) and
   [lex_all] use fuel. *)
From Plush Require Import model.Bytes.
Open Scope N_scope.

Inductive tkind :=
| ILLEGAL | EOF | IDENT | INT | FLOAT | STRING | B_STRING | HTML | DOT
| ASSIGN | PLUS | MINUS | BANG | ASTERISK | SLASH
| LT | LTEQ | GT | GTEQ | EQ | NOT_EQ | AND | OR | MATCHES
| S_START | C_START | E_START | E_END
| COMMA | SEMICOLON | COLON | LPAREN | RPAREN | LBRACE | RBRACE | LBRACKET | RBRACKET
| FUNCTION | LET | TRUE | FALSE | IF | ELSE | RETURN | FOR | IN | CONTINUE | BREAK.

Definition tkind_code (a : tkind) : N :=
  match a with
  | ILLEGAL => 0 | EOF => 1 | IDENT => 2 | INT => 3 | FLOAT => 4 | STRING => 5
  | B_STRING => 6 | HTML => 7 | DOT => 8 | ASSIGN => 9 | PLUS => 10 | MINUS => 11
  | BANG => 12 | ASTERISK => 13 | SLASH => 14 | LT => 15 | LTEQ => 16 | GT => 17 | GTEQ => 18
  | EQ => 19 | NOT_EQ => 20 | AND => 21 | OR => 22 | MATCHES => 23 | S_START => 24
  | C_START => 25 | E_START => 26 | E_END => 27 | COMMA => 28 | SEMICOLON => 29
  | COLON => 30 | LPAREN => 31 | RPAREN => 32 | LBRACE => 33 | RBRACE => 34
  | LBRACKET => 35 | RBRACKET => 36 | FUNCTION => 37 | LET => 38 | TRUE => 39
  | FALSE => 40 | IF => 41 | ELSE => 42 | RETURN => 43 | FOR => 44 | IN => 45
  | CONTINUE => 46 | BREAK => 47
  end.
Definition tkind_eqb (a b : tkind) : bool := tkind_code a =? tkind_code b.

Record token := mktok { tk : tkind; tlit : bytes; tline : nat }.

Record lx := mklx { lprev : N; lrest : bytes; linside : bool; lline : nat }.

Definition ch (l : lx) : N := hd 0 (lrest l).
Definition peek (l : lx) : N := hd 0 (tl (lrest l)).
Definition peek2 (l : lx) : N := hd 0 (tl (tl (lrest l))).

(* readChar *)
Definition adv (l : lx) : lx :=
  let r := tl (lrest l) in
  mklx (ch l) r (linside l) (if hd 0 r =? 10 then S (lline l) else lline l).
Fixpoint advn (n : nat) (l : lx) : lx :=
  match n with O => l | S k => advn k (adv l) end.
Definition set_inside (b : bool) (l : lx) : lx := mklx (lprev l) (lrest l) b (lline l).

(* lexer.New *)
Definition lx_init (s : bytes) : lx :=
  mklx 0 s false (if hd 0 s =? 10 then 2%nat else 1%nat).

Definition inr_ (lo hi x : N) : bool := (lo <=? x) && (x <=? hi).
Definition is_letter (c : N) : bool := inr_ 97 122 c || inr_ 65 90 c || (c =? 95) || (c =? 45).
Definition is_dot (c : N) : bool := c =? 46.
Definition is_digit (c : N) : bool := inr_ 48 57 c || (c =? 46).

(* the longest prefix satisfying p *)
Fixpoint span (p : N -> bool) (r : bytes) : bytes :=
  match r with
  | c :: r' => if p c then c :: span p r' else []
  | [] => []
  end.

(* strings.Replace(s, old, new, -1) for a two/three byte [old] *)
Fixpoint replace_esc_tag (s : bytes) : bytes :=      (* \<%  ->  <% *)
  match s with
  | 92 :: ((60 :: 37 :: r) as t) => 60 :: 37 :: replace_esc_tag r
  | c :: r => c :: replace_esc_tag r
  | [] => []
  end.
Fixpoint replace_esc_quote (s : bytes) : bytes :=    (* \"  ->  " *)
  match s with
  | 92 :: 34 :: r => 34 :: replace_esc_quote r
  | c :: r => c :: replace_esc_quote r
  | [] => []
  end.

(* token.LookupIdent; the table is checked against gen/Tables.v *)
Definition keyword_table : list (bytes * tkind) :=
  [ ([98;114;101;97;107], BREAK); ([99;111;110;116;105;110;117;101], CONTINUE);
    ([101;108;115;101], ELSE); ([102;97;108;115;101], FALSE); ([102;110], FUNCTION);
    ([102;111;114], FOR); ([102;117;110;99], FUNCTION); ([105;102], IF); ([105;110], IN);
    ([108;101;116], LET); ([114;101;116;117;114;110], RETURN); ([116;114;117;101], TRUE) ].
Fixpoint lookup_kw (s : bytes) (t : list (bytes * tkind)) : tkind :=
  match t with
  | [] => IDENT
  | (k, v) :: r => if beq s k then v else lookup_kw s r
  end.
Definition lookup_ident (s : bytes) : tkind := lookup_kw s keyword_table.

(* ---------- text mode: readHTML ---------- *)
(* Scans from the current char.  Returns the raw segment (before the \<%
   replacement), the number of readChar calls, and how the scan stopped:
   true = at the second backslash of \\<% (the early return: one more
   readChar moves onto the '<', the backslash is not part of the text). *)
Fixpoint scan_html (prev : N) (r : bytes) : bytes * nat * bool :=
  match r with
  | [] => ([], O, false)
  | c :: r1 =>
      if c =? 0 then ([], O, false)
      else
        let next2 := match r1 with a :: b :: _ => (a =? 60) && (b =? 37) | _ => false end in
        if (c =? 92) && (prev =? 92) && next2 then ([], 1%nat, true)
        else if (c =? 92) && next2 then
          (* \<% : two readChars onto the '%', then the loop's readChar *)
          match r1 with
          | a :: b :: r3 => let '(t, k, e) := scan_html b r3 in (c :: a :: b :: t, (3 + k)%nat, e)
          | _ => ([], O, false)
          end
        else if (c =? 60) && (hd 0 r1 =? 37) then ([], O, false)   (* <% : tag opens *)
        else let '(t, k, e) := scan_html c r1 in (c :: t, S k, e)
  end.

Definition read_html (l : lx) : bytes * lx :=
  let '(raw, k, early) := scan_html (lprev l) (lrest l) in
  let l' := advn k l in
  (* the normal exit sets inside when it stopped at "<%"; the early return does not *)
  let l'' := if early then l'
             else if (ch l' =? 60) && (peek l' =? 37) then set_inside true l' else l' in
  (replace_esc_tag raw, l'').

(* ---------- inside a tag ---------- *)
(* skipWhitespace, including its quirk: when the current char is the last
   byte of the input (or past it) it is consumed whatever it is *)
Fixpoint ws_count (r : bytes) : nat :=
  match r with
  | c :: r' => if is_ws c then S (ws_count r') else O
  | [] => O
  end.
Definition skip_ws (l : lx) : lx :=
  match lrest l with
  | [] => adv l
  | [_] => adv l
  | r => advn (ws_count r) l
  end.

(* readString / readBString: [r] starts at the char just moved onto *)
Fixpoint at_str (r : bytes) : bytes * nat :=
  match r with
  | [] => ([], O)
  | c :: r1 =>
      if c =? 0 then ([], O)
      else if c =? 34 then ([], O)
      else if c =? 92 then
        match r1 with
        | d :: r2 => if d =? 34
                     then let '(raw, k) := at_str r2 in (92 :: 34 :: raw, (2 + k)%nat)
                     else let '(raw, k) := at_str r1 in (c :: raw, S k)
        | [] => let '(raw, k) := at_str r1 in (c :: raw, S k)
        end
      else let '(raw, k) := at_str r1 in (c :: raw, S k)
  end.
Fixpoint at_bstr (r : bytes) : bytes * nat :=
  match r with
  | [] => ([], O)
  | c :: r1 => if (c =? 0) || (c =? 96) then ([], O)
               else let '(raw, k) := at_bstr r1 in (c :: raw, S k)
  end.
(* '#' comment: readChars until the new char is \n, \r or 0 *)
Fixpoint at_cmt (r : bytes) : nat :=
  match r with
  | [] => O
  | c :: r1 => if (c =? 10) || (c =? 13) || (c =? 0) then O else S (at_cmt r1)
  end.

(* number literal classification: strings.Split(lit, ".") *)
Definition count_dots (s : bytes) : nat := length (filter is_dot s).
Definition number_kind (lit : bytes) : tkind :=
  match count_dots lit with
  | O => INT
  | S O => FLOAT
  | _ => ILLEGAL
  end.

(* tokens that end with the common tail  l.readChar(); every token carries the
   line [sl] on which it starts (startLine in the Go code) *)
Definition tail_tok (sl : nat) (k : tkind) (lit : bytes) (l : lx) : token * lx :=
  (mktok k lit sl, adv l).
(* tokens returned early *)
Definition now_tok (sl : nat) (k : tkind) (lit : bytes) (l : lx) : token * lx :=
  (mktok k lit sl, l).

(* string(l.ch): a byte converted to a rune and UTF-8 encoded *)
Definition byte_string (c : N) : bytes := if c <? 128 then [c] else [192 + c / 64; 128 + c mod 64].
Definition one (l : lx) (k : tkind) : token * lx := tail_tok (lline l) k (byte_string (ch l)) l.
Definition two (l : lx) (k : tkind) (lit : bytes) : token * lx := tail_tok (lline l) k lit (adv l).

Fixpoint next_inside (fuel : nat) (l0 : lx) : token * lx :=
  let l := skip_ws l0 in
  let sl := lline l in
  let c := ch l in
  let p := peek l in
  if c =? 61 then (if p =? 61 then two l EQ [61; 61] else one l ASSIGN)
  else if c =? 46 then
    (if is_digit p then
       let lit := span (fun x => is_digit x || is_dot x) (lrest l) in
       let l' := advn (length lit) l in
       match number_kind lit with
       | ILLEGAL => now_tok sl ILLEGAL lit l'       (* stamped with the line it starts on *)
       | k => now_tok sl k lit l'        (* returned at once, like a number that starts with a digit *)
       end
     else one l DOT)
  else if c =? 43 then one l PLUS
  else if c =? 38 then (if p =? 38 then two l AND [38; 38] else one l ILLEGAL)
  else if c =? 124 then (if p =? 124 then two l OR [124; 124] else one l ILLEGAL)
  else if c =? 45 then one l MINUS
  else if c =? 33 then (if p =? 61 then two l NOT_EQ [33; 61] else one l BANG)
  else if c =? 47 then one l SLASH
  else if c =? 42 then one l ASTERISK
  else if c =? 37 then
    (if p =? 62 then two (set_inside false l) E_END [37; 62] else one l ILLEGAL)
  else if c =? 60 then
    (if p =? 37 then
       let l1 := adv (set_inside true l) in
       if peek l1 =? 35 then tail_tok sl C_START [60; 37; 35] (adv l1)
       else if peek l1 =? 61 then tail_tok sl E_START [60; 37; 61] (adv l1)
       else tail_tok sl S_START [60; 37] l1
     else if p =? 61 then two l LTEQ [60; 61]
     else one l LT)
  else if c =? 126 then (if p =? 61 then two l MATCHES [126; 61] else one l MATCHES)
  else if c =? 62 then (if p =? 61 then two l GTEQ [62; 61] else one l GT)
  else if c =? 59 then one l SEMICOLON
  else if c =? 58 then one l COLON
  else if c =? 44 then one l COMMA
  else if c =? 123 then one l LBRACE
  else if c =? 125 then one l RBRACE
  else if c =? 40 then one l LPAREN
  else if c =? 41 then one l RPAREN
  else if c =? 34 then
    let '(raw, k) := at_str (tl (lrest l)) in
    tail_tok sl STRING (replace_esc_quote raw) (advn (S k) l)
  else if c =? 96 then
    let '(raw, k) := at_bstr (tl (lrest l)) in
    tail_tok sl B_STRING raw (advn (S k) l)
  else if c =? 35 then
    match fuel with
    | O => now_tok sl EOF [] l            (* unreachable with enough fuel *)
    | S f =>
        match lrest l with
        | [] => next_inside f l           (* cannot happen: ch = '#' *)
        | _ :: r1 => next_inside f (advn (S (at_cmt r1)) l)
        end
    end
  else if c =? 91 then one l LBRACKET
  else if c =? 93 then one l RBRACKET
  else if c =? 0 then tail_tok sl EOF [] l
  else if is_letter c then
    let lit := span (fun x => is_letter x || is_digit x) (lrest l) in
    now_tok sl (lookup_ident lit) lit (advn (length lit) l)
  else if is_digit c then
    let lit := span (fun x => is_digit x || is_dot x) (lrest l) in
    (match number_kind lit with
     | ILLEGAL => now_tok sl ILLEGAL lit (advn (length lit) l)
     | k => now_tok sl k lit (advn (length lit) l)
     end)
  else one l ILLEGAL.

(* Lexer.NextToken *)
Definition next_token (fuel : nat) (l : lx) : token * lx :=
  if linside l then next_inside fuel l
  else if ch l =? 0 then (mktok EOF [] (lline l), l)
  else if (ch l =? 60) && (peek l =? 37) then next_inside fuel (set_inside true l)
  else let '(lit, l') := read_html l in (mktok HTML lit (lline l'), l').

(* The parser pulls tokens lazily but never feeds anything back into the
   lexer, so the whole stream can be produced up front.  The stream stops at
   the first EOF token produced at the true end of the input (after it the
   lexer answers EOF for ever); an EOF caused by a NUL byte inside a tag is
   followed by more tokens, as in the Go code. *)
Definition at_end (l : lx) : bool := match lrest l with [] => true | _ => false end.

Fixpoint lex_all (fuel : nat) (l : lx) : option (list token) :=
  match fuel with
  | O => None
  | S f =>
      let '(t, l') := next_token fuel l in
      match tk t with
      | EOF =>
          if at_end l' || negb (linside l) then Some [t]
          else match lex_all f l' with Some ts => Some (t :: ts) | None => None end
      | _ => match lex_all f l' with Some ts => Some (t :: ts) | None => None end
      end
  end.

Definition lex (s : bytes) : option (list token) := lex_all (length s + 2) (lx_init s).
