(* Ast.v - the syntax tree of package ast, with nil children made explicit
   ([ENil]), and every String() method (the parser and the evaluator compute
   semantics from printed nodes: strings.Split(function.String(), ".") etc.). *)
From Plush Require Import model.Bytes model.Lexer.
Open Scope N_scope.

Inductive expr :=
| ENil
(* Identifier chain a.b.c: [names] = [a;b;c]; [pre] = Some S when assignCallee
   hung an Identifier{Value: S} under the root (OriginalCallee.Callee) *)
| EIdent (lit : bytes) (pre : option bytes) (names : list bytes)
| EInt (lit : bytes) (v : Z)
| EFloat (lit : bytes)
| EStr (lit : bytes) (v : bytes)          (* Token.Literal, Value *)
| EBool (lit : bytes) (b : bool)
| EHtml (lit : bytes) (v : bytes)
| EPrefix (lit : bytes) (op : bytes) (r : expr)
| EInfix (lit : bytes) (op : bytes) (l r : expr)
| EIf (c : expr) (b : block) (elifs : list (expr * block)) (els : option block)
| EFor (k v : bytes) (it : expr) (b : block)
| EFn (lit : bytes) (params : list bytes) (b : block)
| ECall (lit : bytes) (fn : expr) (callee : option expr) (args : list expr) (blk : option block) (chain : expr)
| EIndex (l i v callee : expr)
| EArr (els : list expr)
| EHash (pairs : list (expr * expr))
| EAssign (name : expr) (v : expr)
| EBreak (lit : bytes)
| ECont (lit : bytes)
with stmt :=
| SLet (t : token) (name : option bytes) (v : expr)
| SRet (t : token) (is_e : bool) (v : expr)      (* <%= e %>  or  return e *)
| SExpr (t : token) (e : expr)
with block :=
| Block (ss : list stmt).

Definition stmt_tok (s : stmt) : token :=
  match s with SLet t _ _ | SRet t _ _ | SExpr t _ => t end.

(* TokenLiteral() of an expression node (used for hash keys) *)
Definition expr_lit (e : expr) : bytes :=
  match e with
  | ENil => []
  | EIdent l _ _ | EInt l _ | EFloat l | EStr l _ | EBool l _ | EHtml l _
  | EPrefix l _ _ | EInfix l _ _ _ | EFn l _ _ | ECall l _ _ _ _ _ | EBreak l | ECont l => l
  | EIf _ _ _ _ => [105; 102]
  | EFor _ _ _ _ => [102; 111; 114]
  | EIndex _ _ _ _ => [91]
  | EArr _ => [91]
  | EHash _ => [123]
  | EAssign n _ => match n with EIdent l _ _ => l | _ => [] end
  end.

Definition ident_string (pre : option bytes) (names : list bytes) : bytes :=
  match pre with
  | Some s => s ++ [46] ++ concat_sep [46] names
  | None => concat_sep [46] names
  end.

(* the bytes of <pe.Right == nil> and of the MISSING marker printed by infix_expression.go *)
Definition bs_lit_pe_nil : bytes := [60;112;101;46;82;105;103;104;116;32;61;61;32;110;105;108;62].
Definition bs_lit_missing : bytes := [32;33;33;77;73;83;83;73;78;71;32;39;37;62;39;33;33].
Definition s_lp : bytes := [40].
Definition s_rp : bytes := [41].
Definition s_commasp : bytes := [44; 32].

(* String() *)
Fixpoint estr (e : expr) : bytes :=
  match e with
  | ENil => []
  | EIdent _ pre names => ident_string pre names
  | EInt l _ | EFloat l | EBool l _ | EHtml l _ | EBreak l | ECont l => l
  | EStr l _ => 34 :: l ++ [34]
  | EPrefix _ op r =>
      s_lp ++ op ++ (match r with ENil => bs_lit_pe_nil | _ => estr r end) ++ s_rp
  | EInfix _ op l r =>
      s_lp ++ estr l ++ [32] ++ op ++ [32] ++
      (match r with ENil => bs_lit_missing | _ => estr r end) ++ s_rp
  | EIf c b elifs els =>
      [105;102;32;40] ++ estr c ++ [41;32;123;32] ++ bstr b ++ [32;125] ++
      (fix go (l : list (expr * block)) : bytes :=
         match l with
         | [] => []
         | (ec, eb) :: r => [32;125;32;101;108;115;101;32;105;102;32;40] ++ estr ec ++ [41;32;123;32] ++ bstr eb ++ [32;125] ++ go r
         end) elifs ++
      (match els with
       | Some eb => [32;125;32;101;108;115;101;32;123;32] ++ bstr eb ++ [32;125]
       | None => []
       end)
  | EFor k v it b =>
      [102;111;114;32;40] ++ k ++ s_commasp ++ v ++ [41;32;105;110;32] ++ estr it ++ [32;123;32] ++ bstr b ++ [32;125]
  | EFn l params b => l ++ s_lp ++ concat_sep s_commasp params ++ [41;32] ++ bstr b
  | ECall _ fn _ args blk _ =>
      estr fn ++ s_lp ++
      concat_sep s_commasp
        ((fix go (l : list expr) : list bytes :=
            match l with
            | [] => []
            | ENil :: r => go r
            | a :: r => estr a :: go r
            end) args) ++ s_rp ++
      (match blk with Some b => [32;123;10] ++ bstr b ++ [125] | None => [] end)
  | EIndex l i v callee =>
      s_lp ++ estr l ++ [91] ++ estr i ++
      (match callee with ENil => [93;41] | _ => [93;46] ++ estr callee ++ s_rp end) ++
      (match v with ENil => [] | _ => [61] ++ estr v end)
  | EArr els =>
      [91] ++ concat_sep s_commasp ((fix go (l : list expr) : list bytes :=
                 match l with [] => [] | a :: r => estr a :: go r end) els) ++ [93]
  | EHash pairs =>
      [123] ++ concat_sep s_commasp ((fix go (l : list (expr * expr)) : list bytes :=
                 match l with [] => [] | (k, v) :: r => (estr k ++ [58;32] ++ estr v) :: go r end) pairs) ++ [125]
  | EAssign n v =>
      (match n with ENil => [63] | _ => estr n end) ++ [32;61;32] ++
      (match v with ENil => [63] | _ => estr v end)
  end
with sstr (s : stmt) : bytes :=
  match s with
  | SLet t name v =>
      tlit t ++ [32] ++ (match name with Some n => n | None => [] end) ++ [32;61;32] ++ estr v ++ [59]
  | SRet _ true v => [60;37;61;32] ++ estr v ++ [59;32;37;62]
  | SRet _ false v => [114;101;116;117;114;110;32] ++ estr v ++ [59]
  | SExpr _ e => estr e
  end
with bstr (b : block) : bytes :=
  match b with
  | Block ss =>
      (fix go (l : list stmt) : bytes :=
         match l with [] => [] | s :: r => [9] ++ sstr s ++ [10] ++ go r end) ss
  end.
