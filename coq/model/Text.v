(* Text.v - UTF-8 as Go decodes it, helpers/text/truncate.go, the HTML and JS
   escapers of text/template (to which html/template forwards), and the
   encoding/json encoder on the JSON value fragment. *)
From Plush Require Import model.Bytes.
Open Scope N_scope.

(* ---------- UTF-8 (unicode/utf8.DecodeRuneInString, []rune(s)) ---------- *)
Definition rune_error : N := 65533.
Definition inr (lo hi x : N) : bool := (lo <=? x) && (x <=? hi).

(* the admissible range of the second byte, by first byte (utf8 acceptRanges) *)
Definition second_lo (b : N) : N :=
  if b =? 224 then 160 else if b =? 240 then 144 else 128.
Definition second_hi (b : N) : N :=
  if b =? 237 then 159 else if b =? 244 then 143 else 191.

(* first byte b, rest r  ->  (rune, number of bytes consumed) *)
Definition decode1 (b : N) (r : bytes) : N * nat :=
  if b <? 128 then (b, 1%nat)
  else if inr 194 223 b then
    match r with
    | c1 :: _ => if inr 128 191 c1 then ((b - 192) * 64 + (c1 - 128), 2%nat) else (rune_error, 1%nat)
    | _ => (rune_error, 1%nat)
    end
  else if inr 224 239 b then
    match r with
    | c1 :: c2 :: _ =>
        if inr (second_lo b) (second_hi b) c1 && inr 128 191 c2
        then ((b - 224) * 4096 + (c1 - 128) * 64 + (c2 - 128), 3%nat)
        else (rune_error, 1%nat)
    | _ => (rune_error, 1%nat)
    end
  else if inr 240 244 b then
    match r with
    | c1 :: c2 :: c3 :: _ =>
        if inr (second_lo b) (second_hi b) c1 && inr 128 191 c2 && inr 128 191 c3
        then ((b - 240) * 262144 + (c1 - 128) * 4096 + (c2 - 128) * 64 + (c3 - 128), 4%nat)
        else (rune_error, 1%nat)
    | _ => (rune_error, 1%nat)
    end
  else (rune_error, 1%nat).

(* []rune(s); [skip] = bytes of the current rune still to pass over *)
Fixpoint decode_aux (s : bytes) (skip : nat) : list N :=
  match s with
  | [] => []
  | b :: r =>
      match skip with
      | S k => decode_aux r k
      | O => let '(rn, size) := decode1 b r in rn :: decode_aux r (size - 1)
      end
  end.
Definition decode (s : bytes) : list N := decode_aux s 0.
Definition rune_len (s : bytes) : nat := length (decode s).

(* utf8.EncodeRune / string(rune) *)
Definition encode_rune (r : N) : bytes :=
  if r <? 128 then [r]
  else if r <? 2048 then [192 + r / 64; 128 + r mod 64]
  else if inr 55296 57343 r || (1114111 <? r) then [239; 191; 189]
  else if r <? 65536 then [224 + r / 4096; 128 + (r / 64) mod 64; 128 + r mod 64]
  else [240 + r / 262144; 128 + (r / 4096) mod 64; 128 + (r / 64) mod 64; 128 + r mod 64].
Definition encode (rs : list N) : bytes := flat_map encode_rune rs.

(* ---------- helpers/text/truncate.go ---------- *)
(* size and trail are already defaulted (50, "...") by the caller *)
Definition truncate (s : bytes) (size : Z) (trail : bytes) : bytes :=
  let rs := decode s in
  if (Z.of_nat (length rs) <=? size)%Z then s
  else
    let rt := decode trail in
    if (size <=? Z.of_nat (length rt))%Z then trail
    else encode (firstn (Z.to_nat (size - Z.of_nat (length rt))) rs) ++ trail.

(* ---------- text/template.HTMLEscapeString ---------- *)
Definition html_esc1 (c : N) : bytes :=
  if c =? 0 then [239; 191; 189]
  else if c =? 34 then [38; 35; 51; 52; 59]      (* &#34; *)
  else if c =? 39 then [38; 35; 51; 57; 59]      (* &#39; *)
  else if c =? 38 then [38; 97; 109; 112; 59]    (* &amp; *)
  else if c =? 60 then [38; 108; 116; 59]        (* &lt; *)
  else if c =? 62 then [38; 103; 116; 59]        (* &gt; *)
  else [c].
Definition html_escape (s : bytes) : bytes := flat_map html_esc1 s.

(* ---------- text/template.JSEscapeString ---------- *)
Definition hexU (d : N) : N := if d <? 10 then 48 + d else 55 + d.   (* 0-9A-F *)
Definition hexL (d : N) : N := if d <? 10 then 48 + d else 87 + d.   (* 0-9a-f *)

Definition js_special (c : N) : bool :=
  (c =? 92) || (c =? 39) || (c =? 34) || (c =? 60) || (c =? 62) || (c =? 38) || (c =? 61) || (c <? 32).

Definition js_ascii (c : N) : bytes :=
  if c =? 92 then [92; 92]
  else if c =? 39 then [92; 39]
  else if c =? 34 then [92; 34]
  else if c =? 60 then [92; 117; 48; 48; 51; 67]   (* < *)
  else if c =? 62 then [92; 117; 48; 48; 51; 69]   (* > *)
  else if c =? 38 then [92; 117; 48; 48; 50; 54]   (* & *)
  else if c =? 61 then [92; 117; 48; 48; 51; 68]   (* = *)
  else [92; 117; 48; 48; hexU (c / 16); hexU (c mod 16)].

(* %04X : at least four upper-case hex digits *)
Fixpoint hex_digits_U (fuel : nat) (n : N) (acc : bytes) : bytes :=
  match fuel with
  | O => acc
  | S f => let acc' := hexU (n mod 16) :: acc in
           if n / 16 =? 0 then acc' else hex_digits_U f (n / 16) acc'
  end.
Definition pad4 (d : bytes) : bytes := repeat 48 (4 - length d) ++ d.
Definition js_uni (r : N) : bytes := 92 :: 117 :: pad4 (hex_digits_U 8 r []).

Section JS.
Variable is_print : N -> bool.   (* unicode.IsPrint: an oracle *)

Fixpoint js_escape_aux (s : bytes) (skip : nat) : bytes :=
  match s with
  | [] => []
  | c :: r =>
      match skip with
      | S k => js_escape_aux r k
      | O =>
          if c <? 128 then (if js_special c then js_ascii c else [c]) ++ js_escape_aux r 0
          else
            let '(rn, size) := decode1 c r in
            (if is_print rn then c :: firstn (size - 1) r else js_uni rn) ++ js_escape_aux r (size - 1)
      end
  end.
Definition js_escape (s : bytes) : bytes := js_escape_aux s 0.
End JS.

(* ---------- encoding/json.Marshal on the JSON value fragment ---------- *)
Inductive json :=
| JNull
| JBool (b : bool)
| JInt (z : Z)
| JStr (s : bytes)
| JArr (l : list json)
| JObj (m : list (bytes * json)).

(* htmlSafeSet: printable ASCII except the double quote, ampersand, angle brackets and backslash *)
Definition json_safe (c : N) : bool :=
  inr 32 127 c && negb ((c =? 34) || (c =? 38) || (c =? 60) || (c =? 62) || (c =? 92)).

Definition json_ascii (c : N) : bytes :=
  if (c =? 92) || (c =? 34) then [92; c]
  else if c =? 8 then [92; 98]
  else if c =? 12 then [92; 102]
  else if c =? 10 then [92; 110]
  else if c =? 13 then [92; 114]
  else if c =? 9 then [92; 116]
  else [92; 117; 48; 48; hexL (c / 16); hexL (c mod 16)].

Fixpoint json_str_aux (s : bytes) (skip : nat) (copy : bool) : bytes :=
  match s with
  | [] => []
  | c :: r =>
      match skip with
      | S k => (if copy then [c] else []) ++ json_str_aux r k copy  (* rest of the current rune *)
      | O =>
          if c <? 128 then (if json_safe c then [c] else json_ascii c) ++ json_str_aux r 0 true
          else
            let '(rn, size) := decode1 c r in
            if (rn =? rune_error) && Nat.eqb size 1 then [92; 117; 102; 102; 102; 100] ++ json_str_aux r 0 true
            else if (rn =? 8232) || (rn =? 8233)
                 then [92; 117; 50; 48; 50; hexL (rn mod 16)] ++ json_str_aux r 2 false
            else c :: json_str_aux r (size - 1) true
      end
  end.
Definition json_string (s : bytes) : bytes := 34 :: json_str_aux s 0 true ++ [34].

(* byte-wise lexicographic order (Go sorts object keys as strings) *)
Fixpoint bytes_leb (a b : bytes) : bool :=
  match a, b with
  | [], _ => true
  | _ :: _, [] => false
  | x :: a', y :: b' => if x <? y then true else if y <? x then false else bytes_leb a' b'
  end.
Fixpoint insert_kv {A} (k : bytes) (v : A) (l : list (bytes * A)) : list (bytes * A) :=
  match l with
  | [] => [(k, v)]
  | (k', v') :: r => if bytes_leb k k' then (k, v) :: l else (k', v') :: insert_kv k v r
  end.
Definition sort_kv {A} (l : list (bytes * A)) : list (bytes * A) :=
  fold_right (fun kv acc => insert_kv (fst kv) (snd kv) acc) [] l.

Fixpoint json_encode (v : json) : bytes :=
  match v with
  | JNull => [110; 117; 108; 108]
  | JBool true => [116; 114; 117; 101]
  | JBool false => [102; 97; 108; 115; 101]
  | JInt z => dec_of_Z z
  | JStr s => json_string s
  | JArr l =>
      91 :: (fix go (l : list json) (first : bool) : bytes :=
               match l with
               | [] => []
               | x :: r => (if first then [] else [44]) ++ json_encode x ++ go r false
               end) l true ++ [93]
  | JObj m =>
      123 :: (fix go (l : list (bytes * json)) (first : bool) : bytes :=
                match l with
                | [] => []
                | (k, x) :: r => (if first then [] else [44]) ++ json_string k ++ [58] ++ json_encode x ++ go r false
                end) m true ++ [125]
  end.
(* callers pass objects with keys already sorted: [json_sorted] does it *)
Fixpoint json_sorted (v : json) : json :=
  match v with
  | JArr l => JArr (map json_sorted l)
  | JObj m => JObj (sort_kv (map (fun kv => (fst kv, json_sorted (snd kv))) m))
  | x => x
  end.
Definition to_json (v : json) : bytes := json_encode (json_sorted v).
