(* Cases.v - checkers used by the generated case files (shard_*.v): each takes
   a case (inputs + what the implementation was observed to do) and says
   whether the model reproduces the observation. *)
From Plush Require Import model.Bytes model.Ctx.

Fixpoint mism {A} (f : A -> bool) (l : list A) (i : nat) : list nat :=
  match l with
  | [] => []
  | x :: r => if f x then mism f r (S i) else i :: mism f r (S i)
  end.

Fixpoint list_eqb {A} (eq : A -> A -> bool) (a b : list A) : bool :=
  match a, b with
  | [], [] => true
  | x :: a', y :: b' => eq x y && list_eqb eq a' b'
  | _, _ => false
  end.

(* ---- C10 ---- *)
Definition out_eqb (a b : out N) : bool :=
  match a, b with
  | RNone, RNone => true
  | RCtx x, RCtx y => Nat.eqb x y
  | RVal x, RVal y => N.eqb x y
  | RBool x, RBool y => Bool.eqb x y
  | _, _ => false
  end.

Definition check_c10 (helpers : list (key * N)) (c : list (op N) * list (out N)) : bool :=
  list_eqb out_eqb (run N 0 (N.eqb 0) helpers [] (fst c)) (snd c).

(* ---- C19 ---- *)
From Plush Require Import model.Iter.
Definition zlist_eqb := list_eqb Z.eqb.

(* (helper 0=range 1=between 2=until, a, b, cap, observed values, exhausted) *)
Definition check_c19r (c : nat * Z * Z * nat * list Z * bool) : bool :=
  let '(h, a, b, cap, obs, fin) := c in
  let r := match h with O => range_ a b | S O => between_ a b | _ => until_ a end in
  let '(xs, f) := ryield cap r in
  zlist_eqb xs obs && Bool.eqb f fin.

(* (n, len, observed groups as index lists or None for an error) *)
Fixpoint zupto (k : nat) (a : Z) : list Z :=
  match k with O => [] | S j => a :: zupto j (a + 1)%Z end.
Definition check_c19g (c : Z * nat * option (list (list Z))) : bool :=
  let '(n, len, obs) := c in
  match group_by n (zupto len 0%Z), obs with
  | None, None => true
  | Some gs, Some o => list_eqb zlist_eqb gs o
  | _, _ => false
  end.

(* len: (argument descriptor, observed: Some n | None = panic) *)
Definition check_c19l (c : lenarg * option nat) : bool :=
  match len_model (fst c), snd c with
  | LenOk n, Some m => Nat.eqb n m
  | LenPanic, None => true
  | _, _ => false
  end.

(* ---- C20 ---- *)
From Plush Require Import model.Text.
Definition bytes_eqb := beq.
(* truncate: (s, size, trail, observed) *)
Definition check_c20t (c : bytes * Z * bytes * bytes) : bool :=
  let '(s, size, trail, obs) := c in beq (truncate s size trail) obs.
(* htmlEscape: (s, observed) *)
Definition check_c20h (c : bytes * bytes) : bool := beq (html_escape (fst c)) (snd c).
(* jsEscape: (s, runes of s that unicode.IsPrint accepts, observed) *)
Definition check_c20j (c : bytes * list N * bytes) : bool :=
  let '(s, pr, obs) := c in
  beq (js_escape (fun r => existsb (N.eqb r) pr) s) obs.
(* toJSON: (value, observed) *)
Definition check_c20json (c : json * bytes) : bool := beq (to_json (fst c)) (snd c).

(* ---- lexer ---- *)
From Plush Require Import model.Lexer.
Definition tok_eqb (a : token) (b : N * bytes * nat) : bool :=
  let '(k, lit, ln) := b in
  (tkind_code (tk a) =? k)%N && beq (tlit a) lit && Nat.eqb (tline a) ln.
Fixpoint toks_eqb (a : list token) (b : list (N * bytes * nat)) : bool :=
  match a, b with
  | [], [] => true
  | x :: a', y :: b' => tok_eqb x y && toks_eqb a' b'
  | _, _ => false
  end.
(* drop the EOFs that follow the first EOF of the trailing run *)
Fixpoint trim_eofs (ts : list token) : list token :=
  match ts with
  | [] => []
  | t :: r =>
      match tk t with
      | EOF => if forallb (fun x => tkind_eqb (tk x) EOF) r then [t] else t :: trim_eofs r
      | _ => t :: trim_eofs r
      end
  end.
(* (input, observed tokens (kind code, literal, line)) *)
Definition check_lex (c : bytes * list (N * bytes * nat)) : bool :=
  match lex (fst c) with
  | Some ts => toks_eqb (trim_eofs ts) (snd c)
  | None => false
  end.

(* ---- parser ---- *)
From Plush Require Import model.Ast model.Parser model.Dump.
Inductive parse_obs := POk (dump : bytes) | PErr (lines : list nat).
Definition check_parse (c : bytes * parse_obs) : bool :=
  match parse (fst c), snd c with
  | ParseOk prog, POk d => beq (dprog prog) d
  | ParseErr ls, PErr ls' => list_eqb Nat.eqb ls ls'
  | _, _ => false
  end.

(* ---- render cases ---- *)
From Plush Require Import model.Value model.Eval.

Inductive vdesc :=
| DNil | DBool (b : bool) | DInt (z : Z) | DFloat (lit : bytes) | DStr (s : bytes) | DHTML (s : bytes)
| DSlice (ety : ty) (els : list vdesc)
| DMap (kty vty : ty) (kvs : list (vdesc * vdesc))
| DStruct (tn : bytes) (fs : list (bytes * vdesc))
| DPtr (v : vdesc)
| DNilPtr (tn : bytes)
| DGo (id : N) (cfg : list vdesc).

Fixpoint build (d : vdesc) (h : heap) : value * heap :=
  match d with
  | DNil => (VNil, h)
  | DBool b => (VBool b, h)
  | DInt z => (VInt z, h)
  | DFloat lit => (match parse_float lit with Some x => VFloat x | None => VOther 9 end, h)
  | DStr s => (VStr s, h)
  | DHTML s => (VHTML s, h)
  | DSlice ety els =>
      let '(vs, h1) := (fix go (l : list vdesc) (h : heap) : list value * heap :=
                          match l with
                          | [] => ([], h)
                          | x :: r => let '(v, h1) := build x h in let '(vs, h2) := go r h1 in (v :: vs, h2)
                          end) els h in
      let '(h2, loc) := halloc h1 (HSlice ety vs) in (VSlice loc, h2)
  | DMap kty vty kvs =>
      let '(es, h1) := (fix go (l : list (vdesc * vdesc)) (h : heap) : list (value * value) * heap :=
                          match l with
                          | [] => ([], h)
                          | (k, x) :: r =>
                              let '(kv, h1) := build k h in
                              let '(v, h2) := build x h1 in
                              let '(vs, h3) := go r h2 in ((kv, v) :: vs, h3)
                          end) kvs h in
      let '(h2, loc) := halloc h1 (HMap kty vty es) in (VMap loc, h2)
  | DStruct tn fs =>
      let '(fvs, h1) := (fix go (l : list (bytes * vdesc)) (h : heap) : list (bytes * value) * heap :=
                           match l with
                           | [] => ([], h)
                           | (n, x) :: r => let '(v, h1) := build x h in let '(vs, h2) := go r h1 in ((n, v) :: vs, h2)
                           end) fs h in
      (VStruct tn fvs, h1)
  | DPtr x => let '(v, h1) := build x h in (VPtr v, h1)
  | DNilPtr tn => (VNilPtr tn, h)
  | DGo id cfg =>
      let '(vs, h1) := (fix go (l : list vdesc) (h : heap) : list value * heap :=
                          match l with
                          | [] => ([], h)
                          | x :: r => let '(v, h1) := build x h in let '(vs, h2) := go r h1 in (v :: vs, h2)
                          end) cfg h in
      (VGo id vs, h1)
  end.

Fixpoint build_bindings (bs : list (bytes * vdesc)) (h : heap) : list (bytes * value) * heap :=
  match bs with
  | [] => ([], h)
  | (n, d) :: r => let '(v, h1) := build d h in let '(vs, h2) := build_bindings r h1 in ((n, v) :: vs, h2)
  end.

(* names of plush.Helpers.All() that the model implements *)
Definition builtin_ids : list (bytes * N) :=
  [ ([114;97;119], H_RAW); ([108;101;110], H_LEN); ([114;97;110;103;101], H_RANGE);
    ([98;101;116;119;101;101;110], H_BETWEEN); ([117;110;116;105;108], H_UNTIL);
    ([103;114;111;117;112;66;121], H_GROUPBY); ([116;114;117;110;99;97;116;101], H_TRUNCATE);
    ([104;116;109;108;69;115;99;97;112;101], H_HTMLESCAPE); ([106;115;69;115;99;97;112;101], H_JSESCAPE);
    ([116;111;74;83;79;78], H_TOJSON); ([106;115;111;110], H_TOJSON);
    ([99;111;110;116;101;110;116;70;111;114], H_CONTENTFOR); ([99;111;110;116;101;110;116;79;102], H_CONTENTOF);
    ([112;97;114;116;105;97;108], H_PARTIAL) ].
Fixpoint id_of_name (n : bytes) (t : list (bytes * N)) : N :=
  match t with [] => 0 | (k, v) :: r => if beq n k then v else id_of_name n r end.
Definition helpers_of (names : list bytes) : list (key * value) :=
  map (fun n => (n, VGo (id_of_name n builtin_ids) [])) names.

Definition tn_T0 : bytes := [84;48].
Definition tn_T1 : bytes := [84;49].
Definition tn_Node : bytes := [78;111;100;101].

(* signatures of the helper family (must match harness/family.go) *)
Definition rec_sig (code : Z) : option gosig :=
  match code with
  | 0 => Some (mksig [] false 1 false)
  | 1 => Some (mksig [PInt] false 1 false)
  | 2 => Some (mksig [PStr; PInt] false 1 false)
  | 3 => Some (mksig [PIface; PStr; PBool] false 1 false)
  | 4 => Some (mksig [PStr; PMap] false 1 false)
  | 5 => Some (mksig [PStr; PHCtx] false 1 false)
  | 6 => Some (mksig [PStr; PMap; PHCtx] false 1 false)
  | 7 => Some (mksig [PInt; PIface] true 1 false)
  | 8 => Some (mksig [PStr] true 1 false)
  | 9 => Some (mksig [PStr; PHCtxI] false 2 true)
  | 10 => Some (mksig [PStr; PStr] false 1 false)
  | 11 => Some (mksig [PStructT tn_T0] false 1 false)
  | 12 => Some (mksig [PPtrT tn_T0] false 1 false)
  | 13 => Some (mksig [PSliceI] false 1 false)
  | 14 => Some (mksig [PFloat] false 1 false)
  | 15 => Some (mksig [PHTML] false 1 false)
  | 16 => Some (mksig [PBool] false 1 false)
  | 17 => Some (mksig [PMap] false 1 false)
  | 18 => Some (mksig [PStr; PStr; PStr] false 1 false)
  | _ => None
  end%Z.

Definition family_sig (id : N) (cfg : list value) : option gosig :=
  if id =? H_RAW then Some (mksig [PStr] false 1 false)
  else if id =? H_LEN then Some (mksig [PIface] false 1 false)
  else if (id =? H_RANGE) || (id =? H_BETWEEN) then Some (mksig [PInt; PInt] false 1 false)
  else if id =? H_UNTIL then Some (mksig [PInt] false 1 false)
  else if id =? H_GROUPBY then Some (mksig [PInt; PIface] false 2 true)
  else if id =? H_TRUNCATE then Some (mksig [PStr; PMap] false 1 false)
  else if id =? H_HTMLESCAPE then Some (mksig [PStr; PHCtxI] false 2 true)
  else if id =? H_JSESCAPE then Some (mksig [PStr] false 1 false)
  else if id =? H_TOJSON then Some (mksig [PIface] false 2 true)
  else if id =? H_CONTENTFOR then Some (mksig [PStr; PHCtxI] false 0 false)
  else if id =? H_CONTENTOF then Some (mksig [PStr; PMap; PHCtxI] false 2 true)
  else if id =? H_PARTIAL then Some (mksig [PStr; PMap; PHCtx] false 2 true)
  else if id =? H_FEEDER then Some (mksig [PStr] false 2 true)
  else if id =? H_FAIL then Some (mksig [] false 2 true)
  else if id =? H_COUNT then Some (mksig [] false 1 false)
  else if id =? H_HTML then Some (mksig [PStr] false 1 false)
  else if (id =? H_BLK) || (id =? H_BLK2) then Some (mksig [PHCtx] false 2 true)
  else if id =? H_BLKCTX then Some (mksig [PMap; PHCtx] false 2 true)
  else if id =? H_REC then match cfg with VInt c :: _ => rec_sig c | _ => None end
  else if id =? H_ID then Some (mksig [PIface] false 1 false)
  else if id =? H_METHOD_HELLO then Some (mksig [PStr] false 1 false)
  else if id =? H_METHOD_PHELLO then Some (mksig [] false 1 false)
  else if id =? H_METHOD_GET then Some (mksig [] false 1 false)
  else None.

Definition family_methods (tn : bytes) : list (bytes * bool * N) :=
  if beq tn tn_T0 then [([72;101;108;108;111], false, H_METHOD_HELLO); ([80;72;101;108;108;111], true, H_METHOD_PHELLO)]
  else if beq tn tn_T1 then [([71;101;116], false, H_METHOD_GET)]
  else [].

Inductive robs :=
| ObsOk (out : bytes)
| ObsErr (line : nat) (sentinel : option N)
| ObsParseErr (lines : list nat)
| ObsPanic.

Record rcase := mkrcase {
  rc_tmpl : bytes;
  rc_bind : list (bytes * vdesc);
  rc_parts : list (bytes * bytes);
  rc_obs : robs;
  rc_log : list (N * list bytes)
}.

Definition run_case (names : list bytes) (c : rcase) : outcome :=
  let G := mkgenv (helpers_of names) family_sig family_methods (rc_parts c) in
  let '(data, h) := build_bindings (rc_bind c) [] in
  let '(s, root) := Ctx.new_root value VNil is_nil (g_helpers G) [] data [] in
  let st := mkst s h root [] None in
  render G (3000 + 8 * length (rc_tmpl c)) st (rc_tmpl c).

Fixpoint log_eqb_aux (a : list event) (b : list (N * list bytes)) : bool :=
  match a, b with
  | [], [] => true
  | EvCall id args :: a', (id', args') :: b' => (id =? id') && list_eqb beq args args' && log_eqb_aux a' b'
  | _, _ => false
  end.
Definition log_eqb (a : list event) (b : list (N * list bytes)) : bool := log_eqb_aux (rev a) b.
Definition optN_eqb (a b : option N) : bool :=
  match a, b with Some x, Some y => x =? y | None, None => true | _, _ => false end.

(* 0 = agrees, 1 = disagrees, 2 = outside the modelled fragment, 3 = out of fuel *)
Definition check_render (names : list bytes) (c : rcase) : N :=
  match run_case names c, rc_obs c with
  | OOk out st, ObsOk o => if beq out o && log_eqb (slog st) (rc_log c) then 0 else 1
  | OErr ln e st, ObsErr ln' s' =>
      if Nat.eqb ln ln' && optN_eqb (match e with EFail s => s | EUnknown _ => None end) s' && log_eqb (slog st) (rc_log c) then 0 else 1
  | OParseErr ls, ObsParseErr ls' => if list_eqb Nat.eqb ls ls' then 0 else 1
  | OPanic _, ObsPanic => 0
  | OUnsup, _ => 2
  | OFuel, _ => 3
  | _, _ => 1
  end.

Fixpoint classify {A} (f : A -> N) (l : list A) (i : nat) : list nat * list nat :=
  match l with
  | [] => ([], [])
  | x :: r => let '(m, u) := classify f r (S i) in
              let c := f x in
              if c =? 0 then (m, u) else if c =? 2 then (m, i :: u) else (i :: m, u)
  end.
