(* Cases.v - checkers used by the generated case files (shard_*.v): each takes
   a case (inputs + what the implementation was observed to do) and says
   whether the model reproduces the observation. *)
From Plush Require Import model.Bytes model.Ctx.

Fixpoint mism {A} (f : A -> bool) (l : list A) (i : nat) : list nat :=
  match l with
  | [] => []
  | x :: r => if f x then mism f r (S i) else i :: mism f r (S i)
  end.

Fixpoint list_eqb {A} (eq : A -> A -> bool) (a b : list A) : bool :=
  match a, b with
  | [], [] => true
  | x :: a', y :: b' => eq x y && list_eqb eq a' b'
  | _, _ => false
  end.

(* ---- C10 ---- *)
Definition out_eqb (a b : out N) : bool :=
  match a, b with
  | RNone, RNone => true
  | RCtx x, RCtx y => Nat.eqb x y
  | RVal x, RVal y => N.eqb x y
  | RBool x, RBool y => Bool.eqb x y
  | _, _ => false
  end.

Definition check_c10 (helpers : list (key * N)) (c : list (op N) * list (out N)) : bool :=
  list_eqb out_eqb (run N 0 (N.eqb 0) helpers [] (fst c)) (snd c).

(* ---- C19 ---- *)
From Plush Require Import model.Iter.
Definition zlist_eqb := list_eqb Z.eqb.

(* (helper 0=range 1=between 2=until, a, b, cap, observed values, exhausted) *)
Definition check_c19r (c : nat * Z * Z * nat * list Z * bool) : bool :=
  let '(h, a, b, cap, obs, fin) := c in
  let r := match h with O => range_ a b | S O => between_ a b | _ => until_ a end in
  let '(xs, f) := ryield cap r in
  zlist_eqb xs obs && Bool.eqb f fin.

(* (n, len, observed groups as index lists or None for an error) *)
Fixpoint zupto (k : nat) (a : Z) : list Z :=
  match k with O => [] | S j => a :: zupto j (a + 1)%Z end.
Definition check_c19g (c : Z * nat * option (list (list Z))) : bool :=
  let '(n, len, obs) := c in
  match group_by n (zupto len 0%Z), obs with
  | None, None => true
  | Some gs, Some o => list_eqb zlist_eqb gs o
  | _, _ => false
  end.

(* len: (argument descriptor, observed: Some n | None = panic) *)
Definition check_c19l (c : lenarg * option nat) : bool :=
  match len_model (fst c), snd c with
  | LenOk n, Some m => Nat.eqb n m
  | LenPanic, None => true
  | _, _ => false
  end.

(* ---- C20 ---- *)
From Plush Require Import model.Text.
Definition bytes_eqb := beq.
(* truncate: (s, size, trail, observed) *)
Definition check_c20t (c : bytes * Z * bytes * bytes) : bool :=
  let '(s, size, trail, obs) := c in beq (truncate s size trail) obs.
(* htmlEscape: (s, observed) *)
Definition check_c20h (c : bytes * bytes) : bool := beq (html_escape (fst c)) (snd c).
(* jsEscape: (s, runes of s that unicode.IsPrint accepts, observed) *)
Definition check_c20j (c : bytes * list N * bytes) : bool :=
  let '(s, pr, obs) := c in
  beq (js_escape (fun r => existsb (N.eqb r) pr) s) obs.
(* toJSON: (value, observed) *)
Definition check_c20json (c : json * bytes) : bool := beq (to_json (fst c)) (snd c).

(* ---- lexer ---- *)
From Plush Require Import model.Lexer.
Definition tok_eqb (a : token) (b : N * bytes * nat) : bool :=
  let '(k, lit, ln) := b in
  (tkind_code (tk a) =? k)%N && beq (tlit a) lit && Nat.eqb (tline a) ln.
Fixpoint toks_eqb (a : list token) (b : list (N * bytes * nat)) : bool :=
  match a, b with
  | [], [] => true
  | x :: a', y :: b' => tok_eqb x y && toks_eqb a' b'
  | _, _ => false
  end.
(* drop the EOFs that follow the first EOF of the trailing run *)
Fixpoint trim_eofs (ts : list token) : list token :=
  match ts with
  | [] => []
  | t :: r =>
      match tk t with
      | EOF => if forallb (fun x => tkind_eqb (tk x) EOF) r then [t] else t :: trim_eofs r
      | _ => t :: trim_eofs r
      end
  end.
(* (input, observed tokens (kind code, literal, line)) *)
Definition check_lex (c : bytes * list (N * bytes * nat)) : bool :=
  match lex (fst c) with
  | Some ts => toks_eqb (trim_eofs ts) (snd c)
  | None => false
  end.

(* ---- parser ---- *)
From Plush Require Import model.Ast model.Parser model.Dump.
Inductive parse_obs := POk (dump : bytes) | PErr (lines : list nat).
Definition check_parse (c : bytes * parse_obs) : bool :=
  match parse (fst c), snd c with
  | ParseOk prog, POk d => beq (dprog prog) d
  | ParseErr ls, PErr ls' => list_eqb Nat.eqb ls ls'
  | _, _ => false
  end.
