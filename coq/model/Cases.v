(* Cases.v - checkers used by the generated case files (shard_*.v): each takes
   a case (inputs + what the implementation was observed to do) and says
   whether the model reproduces the observation. *)
From Plush Require Import model.Bytes model.Ctx.

Fixpoint mism {A} (f : A -> bool) (l : list A) (i : nat) : list nat :=
  match l with
  | [] => []
  | x :: r => if f x then mism f r (S i) else i :: mism f r (S i)
  end.

Fixpoint list_eqb {A} (eq : A -> A -> bool) (a b : list A) : bool :=
  match a, b with
  | [], [] => true
  | x :: a', y :: b' => eq x y && list_eqb eq a' b'
  | _, _ => false
  end.

(* ---- C10 ---- *)
Definition out_eqb (a b : out N) : bool :=
  match a, b with
  | RNone, RNone => true
  | RCtx x, RCtx y => Nat.eqb x y
  | RVal x, RVal y => N.eqb x y
  | RBool x, RBool y => Bool.eqb x y
  | _, _ => false
  end.

Definition check_c10 (helpers : list (key * N)) (c : list (op N) * list (out N)) : bool :=
  list_eqb out_eqb (run N 0 (N.eqb 0) helpers [] (fst c)) (snd c).
