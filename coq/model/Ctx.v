(* Ctx.v - executable model of plush.Context (context.go) and of the
   constructor-time helper injection.  Parametric in the value type so the
   same definitions serve the C10 history model and the evaluator's scopes.

   Store layout: newest context first; the id of a context is the length of
   the list behind it (creation order 0,1,2,...).  An [outer] reference is
   always to an older context, so [value] is structurally recursive on the
   store and needs no fuel. *)
From Plush Require Import model.Bytes.

Definition key := bytes.

Section Ctx.
Variable V : Type.
Variable vnil : V.
Variable isnil : V -> bool.
Variable helpers : list (key * V).   (* plush.Helpers.All() *)

Record ctx := mkctx {
  cdata  : list (key * V);   (* c.data *)
  couter : option nat;       (* c.outer *)
  cbase  : list (key * V)    (* values of the wrapped context.Context (roots only) *)
}.
Definition store := list ctx.

Fixpoint alookup (k : key) (l : list (key * V)) : option V :=
  match l with
  | [] => None
  | (k', v) :: r => if beq k k' then Some v else alookup k r
  end.

(* c.data[k] = v : replace in place or append *)
Fixpoint aset (k : key) (v : V) (l : list (key * V)) : list (key * V) :=
  match l with
  | [] => [(k, v)]
  | (k', v') :: r => if beq k k' then (k, v) :: r else (k', v') :: aset k v r
  end.

(* func (c *Context) Value(key) *)
Fixpoint value (s : store) (c : nat) (k : key) : V :=
  match s with
  | [] => vnil
  | cx :: rest =>
      if Nat.eqb c (length rest) then
        match alookup k (cdata cx) with
        | Some v => v
        | None =>
            match couter cx with
            | Some o => value rest o k
            | None => match alookup k (cbase cx) with Some v => v | None => vnil end
            end
        end
      else value rest c k
  end.

(* func (c *Context) Has(key) *)
Definition has (s : store) (c : nat) (k : key) : bool := negb (isnil (value s c k)).

(* func (c *Context) Set(key, value) *)
Fixpoint set (s : store) (c : nat) (k : key) (v : V) : store :=
  match s with
  | [] => []
  | cx :: rest =>
      if Nat.eqb c (length rest)
      then mkctx (aset k v (cdata cx)) (couter cx) (cbase cx) :: rest
      else cx :: set rest c k v
  end.

(* for k, v := range Helpers.All() { if !c.Has(k) { c.Set(k, v) } } *)
Definition inject_root (s : store) (c : nat) : store :=
  fold_left (fun s kv => if has s c (fst kv) then s else set s c (fst kv) (snd kv)) helpers s.

(* for k, v := range Helpers.All() { if !c.Has(k) && !c.outer.Has(k) { c.Set(k, v) } } *)
Definition inject_child (s : store) (c o : nat) : store :=
  fold_left (fun s kv => if has s c (fst kv) || has s o (fst kv) then s
                         else set s c (fst kv) (snd kv)) helpers s.

(* NewContextWith(data) (+ NewContextWithContext: base) *)
Definition new_root (s : store) (data base : list (key * V)) : store * nat :=
  let c := length s in
  (inject_root (mkctx data None base :: s) c, c).

(* (c *Context).New() = NewContextWithOuter(map{}, c) *)
Definition new_child (s : store) (o : nat) : store * nat :=
  let c := length s in
  (inject_child (mkctx [] (Some o) [] :: s) c o, c).

(* ---- histories ---- *)
Inductive op :=
| ONewRoot (data base : list (key * V))
| ONew (c : nat)
| OSet (c : nat) (k : key) (v : V)
| OValue (c : nat) (k : key)
| OHas (c : nat) (k : key).

Inductive out :=
| RNone
| RCtx (id : nat)
| RVal (v : V)
| RBool (b : bool).

Definition step (s : store) (o : op) : store * out :=
  match o with
  | ONewRoot d b => let '(s', c) := new_root s d b in (s', RCtx c)
  | ONew c => if Nat.ltb c (length s)
              then let '(s', n) := new_child s c in (s', RCtx n)
              else (s, RNone)
  | OSet c k v => (set s c k v, RNone)
  | OValue c k => (s, RVal (value s c k))
  | OHas c k => (s, RBool (has s c k))
  end.

Fixpoint run (s : store) (ops : list op) : list out :=
  match ops with
  | [] => []
  | o :: r => let '(s', x) := step s o in x :: run s' r
  end.

End Ctx.

Arguments mkctx {V}.
Arguments cdata {V}.
Arguments couter {V}.
Arguments cbase {V}.
Arguments ONewRoot {V}.
Arguments ONew {V}.
Arguments OSet {V}.
Arguments OValue {V}.
Arguments OHas {V}.
Arguments RNone {V}.
Arguments RCtx {V}.
Arguments RVal {V}.
Arguments RBool {V}.
