(* Parser.v - model of parser/parser.go on the pre-lexed token stream.
   One mutual Fixpoint on fuel mirrors the Go functions and loops one for one,
   including the cursor conventions after blocks.  The precedence table is the
   one the translator regenerates from parser/precedences.go (gen/Tables.v). *)
From Coq Require Import String.
From Plush Require Import model.Bytes model.Lexer model.Ast model.Conc gen.PrecTables.
Notation length := List.length (only parsing).
Open Scope N_scope.

(* ---------- precedences (from the generated table) ---------- *)
Definition tkind_spelling (k : tkind) : string :=
  match k with
  | ILLEGAL => "ILLEGAL" | EOF => "EOF" | IDENT => "IDENT" | INT => "INT" | FLOAT => "FLOAT"
  | STRING => "STRING" | B_STRING => "B_STRING" | HTML => "HTML" | DOT => "DOT"
  | ASSIGN => "=" | PLUS => "+" | MINUS => "-" | BANG => "!" | ASTERISK => "*" | SLASH => "/"
  | LT => "<" | LTEQ => "<=" | GT => ">" | GTEQ => ">=" | EQ => "==" | NOT_EQ => "!="
  | AND => "&&" | OR => "||" | MATCHES => "~=" | S_START => "<%" | C_START => "<%#"
  | E_START => "<%=" | E_END => "%>" | COMMA => "," | SEMICOLON => ";" | COLON => ":"
  | LPAREN => "(" | RPAREN => ")" | LBRACE => "{" | RBRACE => "}" | LBRACKET => "[" | RBRACKET => "]"
  | FUNCTION => "FUNCTION" | LET => "LET" | TRUE => "TRUE" | FALSE => "FALSE" | IF => "IF"
  | ELSE => "ELSE" | RETURN => "RETURN" | FOR => "FOR" | IN => "IN" | CONTINUE => "CONTINUE"
  | BREAK => "BREAK"
  end%string.

Definition level (name : string) : nat :=
  match tlookup name prec_levels with Some n => n | None => O end.
Definition LOWEST : nat := level "LOWEST"%string.
Definition PREFIX : nat := level "PREFIX"%string.

(* peekPrecedence / curPrecedence *)
Definition prec_of (k : tkind) : nat :=
  match tlookup (tkind_spelling k) precedences with Some n => n | None => LOWEST end.

(* ---------- parser state ---------- *)
Record pst := mkpst { toks : list token; errs : list nat (* line of each error, newest first *); infor : bool }.

Definition eof0 : token := mktok EOF [] 0.
Definition cur (p : pst) : token := match toks p with t :: _ => t | [] => eof0 end.
Definition peekt (p : pst) : token :=
  match toks p with _ :: t :: _ => t | [t] => t | [] => eof0 end.
Definition curk (p : pst) : tkind := tk (cur p).
Definition peekk (p : pst) : tkind := tk (peekt p).
Definition cur_is (p : pst) (k : tkind) : bool := tkind_eqb (curk p) k.
Definition peek_is (p : pst) (k : tkind) : bool := tkind_eqb (peekk p) k.

(* nextToken: the stream ends with an EOF that is repeated for ever *)
Definition next (p : pst) : pst :=
  match toks p with
  | _ :: ((_ :: _) as r) => mkpst r (errs p) (infor p)
  | _ => p
  end.
Definition add_err (p : pst) : pst := mkpst (toks p) (tline (cur p) :: errs p) (infor p).
Definition add_err_line (ln : nat) (p : pst) : pst := mkpst (toks p) (ln :: errs p) (infor p).
Definition set_infor (b : bool) (p : pst) : pst := mkpst (toks p) (errs p) b.

(* expectPeek *)
Definition expect_peek (p : pst) (k : tkind) : bool * pst :=
  if peek_is p k then (true, next p) else (false, add_err p).

Definition skip_semi (p : pst) : pst := if peek_is p SEMICOLON then next p else p.

(* strconv.Atoi on a digit string *)
Fixpoint digits_val (s : bytes) (acc : Z) : Z :=
  match s with
  | [] => acc
  | c :: r => digits_val r (acc * 10 + Z.of_N (c - 48))%Z
  end.
Definition atoi (s : bytes) : option Z :=
  match s with
  | [] => None
  | _ => let v := digits_val s 0%Z in
         if (v <=? 9223372036854775807)%Z then Some v else None
  end.

(* confrimIfCondition: (ok, number of error messages appended) *)
Definition comparable (e : expr) : bool :=
  match e with
  | EIdent _ _ _ | EIndex _ _ _ _ | ECall _ _ _ _ _ _ | EInfix _ _ _ _ | EPrefix _ _ _
  | EBool _ _ | EFloat _ | EInt _ _ | EStr _ _ => true
  | _ => false
  end.
Fixpoint confirm_if (e : expr) : bool * nat :=
  match e with
  | ENil => (false, 1%nat)
  | EInfix _ _ l r =>
      let '(okl, nl) := confirm_if l in
      if okl then let '(okr, nr) := confirm_if r in (okr, (nl + nr)%nat)
      else (false, nl)
  | EPrefix _ _ r => confirm_if r
  | _ => if comparable e then (true, O) else (false, 1%nat)
  end.
Fixpoint add_errs (n : nat) (p : pst) : pst :=
  match n with O => p | S k => add_errs k (add_err p) end.

(* assignCallee *)
Definition set_pre (s : bytes) (e : expr) : expr :=
  match e with EIdent l _ names => EIdent l (Some s) names | _ => e end.
Definition assign_callee (e : expr) (s : bytes) : option expr :=
  match e with
  | EIndex (EIdent l pre names) i v c => Some (EIndex (EIdent l (Some s) names) i v c)
  | ECall l fn _ args blk chain => Some (ECall l fn (Some (EIdent [] None [s])) args blk chain)
  | EIdent l _ names => Some (EIdent l (Some s) names)
  | _ => None
  end.

(* parseCallExpression: Callee / Function rebuilt from the printed left side *)
Definition split_callee (fn : expr) : expr * option expr :=
  let ss := split_on 46 (estr fn) in
  match ss with
  | _ :: _ :: _ => (EIdent (last ss []) None ss, Some (EIdent (last (removelast ss) []) None (removelast ss)))
  | _ => (fn, None)
  end.

(* the token types for which newParser registers a prefix parse function
   (checked against gen/Tables.v prefix_fns in proofs/TablesAgree.v) *)
Definition has_prefix (k : tkind) : bool :=
  match k with
  | IDENT | CONTINUE | BREAK | INT | FLOAT | STRING | B_STRING | BANG | MINUS | TRUE | FALSE
  | LPAREN | IF | FOR | FUNCTION | LBRACKET | LBRACE | HTML | C_START | E_END => true
  | _ => false
  end.

(* ---------- monad ---------- *)
Definition M (A : Type) := option (A * pst).     (* None = out of fuel *)
Definition ret {A} (a : A) (p : pst) : M A := Some (a, p).
Definition bind {A B} (m : M A) (k : A -> pst -> M B) : M B :=
  match m with Some (a, p) => k a p | None => None end.
Notation "'let*' ( x , p ) := m 'in' k" := (bind m (fun x p => k))
  (at level 200, x name, p name, m at level 100, k at level 200).

Definition for_names (s : list bytes) : bytes * bytes :=
  match s with
  | [v] => ([95], v)
  | [k; v] => (k, v)
  | _ => ([95], [64;118;97;108;117;101])    (* "_", "@value" *)
  end.

Fixpoint parse_statement (fuel : nat) (p : pst) : M (option stmt) :=
  match fuel with
  | O => None
  | S f =>
      match curk p with
      | LET => let* (s, p1) := parse_let f p in ret (Some s) p1
      | S_START => parse_statement f (next p)
      | RETURN => let* (s, p1) := parse_return f false p in ret (Some s) p1
      | E_START => let* (s, p1) := parse_return f true p in ret (Some s) p1
      | RBRACE => ret None p
      | EOF => ret None p
      | _ =>
          let t := cur p in
          let* (e, p1) := parse_expression f LOWEST p in
          ret (Some (SExpr t e)) (skip_semi p1)
      end
  end

with parse_return (fuel : nat) (is_e : bool) (p : pst) : M stmt :=
  match fuel with
  | O => None
  | S f =>
      let t := cur p in
      let* (e, p1) := parse_expression f LOWEST (next p) in
      ret (SRet t is_e e) (skip_semi p1)
  end

with parse_let (fuel : nat) (p : pst) : M stmt :=
  match fuel with
  | O => None
  | S f =>
      let t := cur p in
      let '(ok1, p1) := expect_peek p IDENT in
      if negb ok1 then ret (SLet t None ENil) p1
      else
        let name := tlit (cur p1) in
        let '(ok2, p2) := expect_peek p1 ASSIGN in
        if negb ok2 then ret (SLet t (Some name) ENil) p2
        else
          let* (e, p3) := parse_expression f LOWEST (next p2) in
          ret (SLet t (Some name) e) (skip_semi p3)
  end

with parse_expression (fuel : nat) (prec : nat) (p : pst) : M expr :=
  match fuel with
  | O => None
  | S f =>
      if cur_is p LET then ret ENil p
      else if negb (has_prefix (curk p)) then ret ENil (add_err p)     (* noPrefixParseFnError: return nil *)
      else
        let* (left, p1) :=
          match curk p with
          | IDENT => parse_identifier f p
          | CONTINUE | BREAK =>
              if infor p
              then ret (if cur_is p BREAK then EBreak (tlit (cur p)) else ECont (tlit (cur p))) p
              else ret ENil (add_err p)
          | INT =>
              match atoi (tlit (cur p)) with
              | Some v => ret (EInt (tlit (cur p)) v) p
              | None => ret ENil (add_err p)
              end
          | FLOAT => ret (EFloat (tlit (cur p))) p
          | STRING | B_STRING => ret (EStr (tlit (cur p)) (tlit (cur p))) p
          | BANG | MINUS =>
              let l := tlit (cur p) in
              let* (r, p1) := parse_expression f PREFIX (next p) in
              ret (EPrefix l l r) p1
          | TRUE => ret (EBool (tlit (cur p)) true) p
          | FALSE => ret (EBool (tlit (cur p)) false) p
          | LPAREN =>
              let* (e, p1) := parse_expression f LOWEST (next p) in
              let '(ok, p2) := expect_peek p1 RPAREN in
              ret (if ok then e else ENil) p2
          | IF => parse_if f p
          | FOR => parse_for f p
          | FUNCTION => parse_fn f p
          | LBRACKET =>
              let* (els, p1) := parse_expr_list f RBRACKET p in
              ret (EArr els) p1
          | LBRACE => parse_hash f [] p
          | HTML => ret (EHtml (tlit (cur p)) (tlit (cur p))) p
          | C_START => parse_comment f p
          | E_END => ret ENil p
          | _ => ret ENil p                      (* excluded by has_prefix *)
          end in
        pratt_loop f prec left p1
  end

(* for !p.peekTokenIs(SEMICOLON) && precedence < p.peekPrecedence() *)
with pratt_loop (fuel : nat) (prec : nat) (left : expr) (p : pst) : M expr :=
  match fuel with
  | O => None
  | S f =>
      if peek_is p SEMICOLON || negb (Nat.ltb prec (prec_of (peekk p))) then ret left p
      else
        match peekk p with
        | PLUS | MINUS | SLASH | ASTERISK | EQ | NOT_EQ | MATCHES | LT | GT | LTEQ | GTEQ | AND | OR =>
            let p1 := next p in
            let l := tlit (cur p1) in
            let pr := prec_of (curk p1) in
            let* (r, p2) := parse_expression f pr (next p1) in
            pratt_loop f prec (EInfix l l left r) p2
        | LPAREN =>
            let* (e, p2) := parse_call f left (next p) in
            pratt_loop f prec e p2
        | LBRACKET =>
            let* (e, p2) := parse_index f left (next p) in
            pratt_loop f prec e p2
        | _ => ret left p
        end
  end

with parse_identifier (fuel : nat) (p : pst) : M expr :=
  match fuel with
  | O => None
  | S f =>
      let l := tlit (cur p) in
      let id := EIdent l None (split_on 46 l) in
      if peek_is p ASSIGN then
        (* parseAssignExpression: expectPeek(ASSIGN) succeeds *)
        let* (v, p1) := parse_expression f LOWEST (next (next p)) in
        ret (EAssign id v) p1        (* the semicolon is left to the enclosing statement *)
      else ret id p
  end

with parse_comment (fuel : nat) (p : pst) : M expr :=
  match fuel with
  | O => None
  | S f =>
      if cur_is p E_END || cur_is p EOF then ret (EStr (tlit (cur p)) []) p
      else parse_comment f (next p)
  end

with parse_if (fuel : nat) (p : pst) : M expr :=
  match fuel with
  | O => None
  | S f =>
      let '(ok1, p1) := expect_peek p LPAREN in
      if negb ok1 then ret ENil p1
      else
        let* (c, p2) := parse_expression f LOWEST (next p1) in
        let '(okc, nerr) := confirm_if c in
        let p3 := add_errs nerr p2 in
        if negb okc then ret ENil p3
        else
          let '(ok2, p4) := expect_peek p3 RPAREN in
          if negb ok2 then ret ENil p4
          else
            let '(ok3, p5) := expect_peek p4 LBRACE in
            if negb ok3 then ret ENil p5
            else
              let* (b, p6) := parse_block f [] (next p5) in
              parse_else f c b [] None p6
  end

(* for p.peekTokenIs(token.ELSE) { ... } *)
with parse_else (fuel : nat) (c : expr) (b : block) (elifs : list (expr * block)) (els : option block) (p : pst) : M expr :=
  match fuel with
  | O => None
  | S f =>
      if negb (peek_is p ELSE) then ret (EIf c b (rev elifs) els) p
      else
        let p1 := next p in
        if peek_is p1 IF then
          (* parseElseIfExpression *)
          let p2 := next p1 in
          let '(ok1, p3) := expect_peek p2 LPAREN in
          if negb ok1 then ret ENil p3
          else
            let* (ec, p4) := parse_expression f LOWEST (next p3) in
            let '(ok2, p5) := expect_peek p4 RPAREN in
            if negb ok2 then ret ENil p5
            else
              let '(ok3, p6) := expect_peek p5 LBRACE in
              if negb ok3 then ret ENil p6
              else
                let* (eb, p7) := parse_block f [] (next p6) in
                parse_else f c b ((ec, eb) :: elifs) els p7
        else
          let '(ok, p2) := expect_peek p1 LBRACE in
          if negb ok then ret ENil p2
          else
            let* (eb, p3) := parse_block f [] (next p2) in
            parse_else f c b elifs (Some eb) p3
  end

(* parseBlockStatement, after its initial nextToken *)
with parse_block (fuel : nat) (acc : list stmt) (p : pst) : M block :=
  match fuel with
  | O => None
  | S f =>
      if cur_is p RBRACE || cur_is p EOF then ret (Block (rev acc)) p
      else if cur_is p S_START || cur_is p E_END then parse_block f acc (next p)
      else
        let* (s, p1) := parse_statement f p in
        parse_block f (match s with Some x => x :: acc | None => acc end) (next p1)
  end

with parse_for (fuel : nat) (p : pst) : M expr :=
  match fuel with
  | O => None
  | S f =>
      let '(ok1, p1) := expect_peek p LPAREN in
      if negb ok1 then ret ENil p1
      else
        let outer := infor p1 in
        let ln := tline (cur p1) in
        let* (e, p2) := parse_for_header f ln [] (set_infor true p1) in
        ret e (set_infor outer p2)        (* the deferred restore *)
  end

(* for !p.curTokenIs(token.RPAREN) { ... } and the rest of parseForExpression *)
with parse_for_header (fuel : nat) (ln : nat) (names : list bytes) (p : pst) : M expr :=
  match fuel with
  | O => None
  | S f =>
      if negb (cur_is p RPAREN) then
        let names' := if cur_is p IDENT then tlit (cur p) :: names else names in
        if peek_is p LBRACE || peek_is p EOF then ret ENil (add_err_line ln p)
        else parse_for_header f ln names' (next p)
      else
        let '(k, v) := for_names (rev names) in
        let p1 := next p in
        if negb (cur_is p1 IN) then ret ENil p1
        else
          let* (it, p2) := parse_expression f LOWEST (next p1) in
          match it with
          | ECall l fn callee args (Some blk) chain =>
              ret (EFor k v (ECall l fn callee args None chain) blk) p2
          | _ =>
              let '(ok, p3) := expect_peek p2 LBRACE in
              if negb ok then ret ENil p3
              else
                let* (b, p4) := parse_block f [] (next p3) in
                ret (EFor k v it b) p4
          end
  end

with parse_fn (fuel : nat) (p : pst) : M expr :=
  match fuel with
  | O => None
  | S f =>
      let l := tlit (cur p) in
      let '(ok1, p1) := expect_peek p LPAREN in
      if negb ok1 then ret ENil p1
      else
        let* (params, p2) :=
          (if peek_is p1 RPAREN then ret [] (next p1)
           else parse_params f [tlit (cur (next p1))] (next p1)) in
        let outer := infor p2 in
        let p3 := set_infor false p2 in
        let '(ok2, p4) := expect_peek p3 LBRACE in
        if negb ok2 then ret ENil (set_infor outer p4)
        else
          let* (b, p5) := parse_block f [] (next p4) in
          ret (EFn l params b) (set_infor outer p5)
  end

(* for p.peekTokenIs(token.COMMA) { ... } of parseFunctionParameters *)
with parse_params (fuel : nat) (acc : list bytes) (p : pst) : M (list bytes) :=
  match fuel with
  | O => None
  | S f =>
      if peek_is p COMMA then
        let p1 := next (next p) in
        parse_params f (tlit (cur p1) :: acc) p1
      else
        let '(ok, p1) := expect_peek p RPAREN in
        ret (if ok then rev acc else []) p1
  end

(* parseExpressionList *)
with parse_expr_list (fuel : nat) (endk : tkind) (p : pst) : M (list expr) :=
  match fuel with
  | O => None
  | S f =>
      if peek_is p endk then ret [] (next p)
      else
        let* (e, p1) := parse_expression f LOWEST (next p) in
        parse_expr_list_more f endk [e] p1
  end

with parse_expr_list_more (fuel : nat) (endk : tkind) (acc : list expr) (p : pst) : M (list expr) :=
  match fuel with
  | O => None
  | S f =>
      if peek_is p COMMA then
        let* (e, p1) := parse_expression f LOWEST (next (next p)) in
        parse_expr_list_more f endk (e :: acc) p1
      else
        let '(ok, p1) := expect_peek p endk in
        ret (if ok then rev acc else []) p1
  end

(* parseHashLiteral: for !p.peekTokenIs(token.RBRACE) { ... } *)
with parse_hash (fuel : nat) (acc : list (expr * expr)) (p : pst) : M expr :=
  match fuel with
  | O => None
  | S f =>
      if peek_is p RBRACE then ret (EHash (rev acc)) (next p)     (* expectPeek(RBRACE) succeeds *)
      else
        let* (k, p1) := parse_expression f LOWEST (next p) in
        match k with
        | ENil => ret ENil (add_err p1)
        | _ =>
            let '(ok1, p2) := expect_peek p1 COLON in
            if negb ok1 then ret ENil p2
            else
              let* (v, p3) := parse_expression f LOWEST (next p2) in
              if negb (peek_is p3 RBRACE) then
                let '(ok2, p4) := expect_peek p3 COMMA in
                if negb ok2 then ret ENil p4
                else parse_hash f ((k, v) :: acc) p4
              else parse_hash f ((k, v) :: acc) p3
        end
  end

(* parseCallExpression; cur = '(' *)
with parse_call (fuel : nat) (fn : expr) (p : pst) : M expr :=
  match fuel with
  | O => None
  | S f =>
      match fn with
      | ENil => ret ENil p
      | _ =>
          let l := tlit (cur p) in
          let '(fn', callee) := split_callee fn in
          let* (args, p1) := parse_expr_list f RPAREN p in
          let* (blk, p2) :=
            (if peek_is p1 LBRACE
             then let* (b, q) := parse_block f [] (next (next p1)) in ret (Some b) q
             else ret None p1) in
          if peek_is p2 DOT then
            let s := estr fn' in
            let* (pe, p3) := parse_expression f LOWEST (next (next p2)) in
            match assign_callee pe s with
            | Some ch => ret (ECall l fn' callee args blk ch) p3
            | None => ret ENil (add_err p3)
            end
          else ret (ECall l fn' callee args blk ENil) p2
      end
  end

(* parseIndexExpression; cur = '[' *)
with parse_index (fuel : nat) (left : expr) (p : pst) : M expr :=
  match fuel with
  | O => None
  | S f =>
      match left with
      | ENil => ret ENil p
      | _ =>
          let* (i, p1) := parse_expression f LOWEST (next p) in
          let '(ok, p2) := expect_peek p1 RBRACKET in
          if negb ok then ret ENil p2
          else
            let* (callee, p3) :=
              (if peek_is p2 DOT then
                 let s := estr left in
                 let* (pe, q) := parse_expression f LOWEST (next (next p2)) in
                 match assign_callee pe s with
                 | Some c => ret (Some c) q
                 | None => ret None (add_err q)
                 end
               else ret (Some ENil) p2) in
            match callee with
            | None => ret ENil p3
            | Some c =>
                if peek_is p3 ASSIGN then
                  let* (v, p4) := parse_expression f LOWEST (next (next p3)) in
                  ret (EIndex left i v c) p4
                else ret (EIndex left i ENil c) p3
            end
      end
  end.

(* parseProgram: a statement is kept unless it prints as blank *)
Definition blank (s : bytes) : bool :=
  forallb (fun c => (c =? 32) || ((9 <=? c) && (c <=? 13))) s.

Fixpoint parse_program (fuel : nat) (acc : list stmt) (p : pst) : M (list stmt) :=
  match fuel with
  | O => None
  | S f =>
      if cur_is p EOF then ret (rev acc) p
      else
        let* (s, p1) := parse_statement f p in
        match s with
        | Some (SExpr t (EHtml l v)) => parse_program f (SExpr t (EHtml l v) :: acc) (next p1)
        | Some st => if blank (sstr st) then parse_program f acc (next p1)
                     else parse_program f (st :: acc) (next p1)
        | None => parse_program f acc (next p1)
        end
  end.

Inductive parse_result :=
| ParseOk (prog : list stmt)
| ParseErr (lines : list nat)      (* the line of each syntax error, in order *)
| ParseFuel.

(* fuel = depth of the recursive descent: linear in the number of tokens; that this
   bound is never exhausted is proofs/ParserTotal.v (C03) *)
Definition parse_fuel (ts : list token) : nat := 24 * length ts + 24.

Definition parse_tokens (ts : list token) : parse_result :=
  match parse_program (parse_fuel ts) [] (mkpst ts [] false) with
  | None => ParseFuel
  | Some (prog, p) => match errs p with [] => ParseOk prog | es => ParseErr (rev es) end
  end.

(* parser.Parse(s) *)
Definition parse (s : bytes) : parse_result :=
  match lex s with
  | Some ts => parse_tokens ts
  | None => ParseFuel
  end.
