(* Conc.v - an abstract machine for the locking discipline (C14): threads run
   programs of lock acquisitions, releases and shared-memory accesses.  A
   data race is a reachable state in which two different threads are both
   about to access the same location, at least one of them writing. *)
From Coq Require Import List Bool String.
Import ListNotations.

Definition lock := string.
Definition loc := string.

Inductive instr :=
| Acq (l : lock)
| Rel (l : lock)
| Acc (x : loc) (w : bool).

Definition acc := (loc * bool * list lock)%type.

(* static view: each access with the locks held when it executes *)
Fixpoint annot (held : list lock) (p : list instr) : list acc :=
  match p with
  | [] => []
  | Acq l :: r => annot (l :: held) r
  | Rel l :: r => annot (remove string_dec l held) r
  | Acc x w :: r => (x, w, held) :: annot held r
  end.

Definition shares (a b : list lock) : bool :=
  existsb (fun l => existsb (String.eqb l) b) a.

Definition conflict (a b : acc) : bool :=
  String.eqb (fst (fst a)) (fst (fst b)) && (snd (fst a) || snd (fst b)) && negb (shares (snd a) (snd b)).

(* Eraser-style check over every pair of accesses of every two programs
   (a program may run in any number of threads at once) *)
Definition lockset_ok (progs : list (list instr)) : bool :=
  let all := flat_map (annot []) progs in
  forallb (fun a => forallb (fun b => negb (conflict a b)) all) all.

(* ---- dynamic semantics ---- *)
Record thr := mkthr { held : list lock; rest : list instr }.
Definition state := nat -> thr.          (* thread id -> thread; unboundedly many *)

Inductive tstep (others : lock -> Prop) : thr -> thr -> Prop :=
| TAcq l h r : ~ others l -> ~ In l h -> tstep others (mkthr h (Acq l :: r)) (mkthr (l :: h) r)
| TRel l h r : tstep others (mkthr h (Rel l :: r)) (mkthr (remove string_dec l h) r)
| TAcc x w h r : tstep others (mkthr h (Acc x w :: r)) (mkthr h r).

Definition upd (s : state) (i : nat) (t : thr) : state :=
  fun j => if Nat.eqb j i then t else s j.

Inductive step : state -> state -> Prop :=
| Step s i t' :
    tstep (fun l => exists j, j <> i /\ In l (held (s j))) (s i) t' ->
    step s (upd s i t').

Inductive reach (s0 : state) : state -> Prop :=
| RRefl : reach s0 s0
| RStep s s' : reach s0 s -> step s s' -> reach s0 s'.

Definition race (s : state) : Prop :=
  exists i j x w1 w2 r1 r2,
    i <> j /\ rest (s i) = Acc x w1 :: r1 /\ rest (s j) = Acc x w2 :: r2 /\ (w1 || w2) = true.

(* building thread programs from the translator's access table *)
Definition prog_of (accs : list (string * bool * list string)) : list instr :=
  flat_map (fun a => map Acq (snd a) ++ [Acc (fst (fst a)) (snd (fst a))] ++ map Rel (snd a)) accs.

Fixpoint tlookup {A} (k : string) (t : list (string * A)) : option A :=
  match t with
  | [] => None
  | (k', v) :: r => if String.eqb k k' then Some v else tlookup k r
  end.

(* None if an operation is missing from the table *)
Fixpoint progs_of (tbl : list (string * list (string * bool * list string))) (ops : list string)
  : option (list (list instr)) :=
  match ops with
  | [] => Some []
  | o :: r => match tlookup o tbl, progs_of tbl r with
              | Some a, Some ps => Some (prog_of a :: ps)
              | _, _ => None
              end
  end.
