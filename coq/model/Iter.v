(* Iter.v - model of helpers/iterators (range.go, between.go, until.go,
   group_by.go) and of the twin definitions in /repo/iterators.go.
   Go int is 64-bit two's complement: every arithmetic result is wrapped. *)
From Plush Require Import model.Bytes.
Open Scope Z_scope.

Definition minint : Z := Eval compute in - 2 ^ 63.
Definition maxint : Z := Eval compute in 2 ^ 63 - 1.
Definition in_int (z : Z) : Prop := minint <= z <= maxint.
Definition two63 : Z := Eval compute in 2 ^ 63.
Definition two64 : Z := Eval compute in 2 ^ 64.
Definition wrap64 (z : Z) : Z := (z + two63) mod two64 - two63.

Record ranger := mkranger { rpos : Z; rend : Z }.

(* func (r *ranger) Next() interface{} *)
Definition rnext (r : ranger) : option Z * ranger :=
  if rpos r <? rend r
  then let p := wrap64 (rpos r + 1) in (Some p, mkranger p (rend r))
  else (None, r).

(* the constants come from the source through gen/Tables.v (ranger_consts) *)
Definition range_ (a b : Z) : ranger := mkranger (wrap64 (a - 1)) b.
Definition between_ (a b : Z) : ranger := mkranger a (wrap64 (b - 1)).
Definition until_ (a : Z) : ranger := mkranger (-1) (wrap64 (a - 1)).

(* n calls of Next: the results and the final state *)
Fixpoint rcalls (n : nat) (r : ranger) : list (option Z) * ranger :=
  match n with
  | O => ([], r)
  | S k => let '(x, r') := rnext r in
           let '(xs, r'') := rcalls k r' in (x :: xs, r'')
  end.

(* what a for loop sees: values until the first nil, at most [cap] of them;
   the flag says whether the iterator was exhausted within the cap *)
Fixpoint ryield (cap : nat) (r : ranger) : list Z * bool :=
  match cap with
  | O => ([], negb (rpos r <? rend r))
  | S k => match rnext r with
           | (Some x, r') => let '(xs, fin) := ryield k r' in (x :: xs, fin)
           | (None, _) => ([], true)
           end
  end.

(* ---- groupBy ---- *)
Fixpoint chunks {A} (fuel : nat) (size : nat) (xs : list A) : list (list A) :=
  match fuel with
  | O => []
  | S f => match xs with
           | [] => []
           | _ => firstn size xs :: chunks f size (skipn size xs)
           end
  end.

Definition group_size (len n : Z) : Z :=
  len / n + (if len mod n =? 0 then 0 else 1).

(* GroupBy(size, underlying) on a slice/array (or pointer to one) *)
Definition group_by {A} (n : Z) (xs : list A) : option (list (list A)) :=
  if n <=? 0 then None
  else
    let len := Z.of_nat (length xs) in
    if len =? n then Some [xs]
    else Some (chunks (length xs) (Z.to_nat (group_size len n)) xs).

(* ---- len (helpers/meta/len.go) ---- *)
Inductive lenarg :=
| LNil                       (* untyped nil *)
| LStr (b : bytes)           (* string *)
| LSeq (n : nat)             (* slice or array with n elements *)
| LMap (n : nat)             (* map with n entries *)
| LPtr (a : lenarg)          (* non-nil pointer to a *)
| LNilPtr                    (* typed nil pointer *)
| LOther.                    (* int, bool, struct, func, ... *)

Inductive lenres := LenOk (n : nat) | LenPanic.

(* rv.Len() for the kinds that have a length, 0 for everything else *)
Definition len_direct (a : lenarg) : lenres :=
  match a with
  | LStr b => LenOk (length b)
  | LSeq n => LenOk n
  | LMap n => LenOk n
  | _ => LenOk 0
  end.

(* func Len(v interface{}) int *)
Definition len_model (a : lenarg) : lenres :=
  match a with
  | LNil => LenOk 0
  | LPtr x => len_direct x   (* rv.Kind() == reflect.Ptr -> rv.Elem() (one level) *)
  | LNilPtr => LenOk 0       (* Elem of a nil pointer is the zero Value: no length *)
  | x => len_direct x
  end.
