(* Cache.v - model of plush.go (Parse, Render, the global cache) and template.go
   (NewTemplate, Template.Parse, Exec, Clone).  The statement lists of these Go
   functions are regenerated on every run (gen/Tables.v: body_plush_Parse ...)
   and compared with the ones this file was written against (Expected.v). *)
From Plush Require Import model.Bytes model.Lexer model.Ast model.Parser model.Value model.Eval.

Record template := mkT { t_input : bytes; t_prog : option (list stmt) }.

(* Template.Parse: a successful result is kept and reused *)
Definition t_parse (t : template) : template * parse_result :=
  match t_prog t with
  | Some p => (t, ParseOk p)
  | None =>
      match parse (t_input t) with
      | ParseOk p => (mkT (t_input t) (Some p), ParseOk p)
      | r => (t, r)
      end
  end.
Definition new_template (input : bytes) : template * parse_result := t_parse (mkT input None).
Definition t_clone (t : template) : template := mkT (t_input t) (t_prog t).

Section Exec.
Variable G : genv.
Variable fuel : nat.

Definition run_parsed (r : parse_result) (st : state) : outcome :=
  match r with
  | ParseFuel => OFuel
  | ParseErr ls => OParseErr ls
  | ParseOk prog => exec_prog G fuel (with_stmt st None) prog []
  end.
(* Template.Exec: parse (if needed), then a fresh evaluator over the program *)
Definition t_exec (t : template) (st : state) : template * outcome :=
  let '(t', r) := t_parse t in (t', run_parsed r st).

(* the global cache: CacheEnabled and the map from input text to template *)
Record cache := mkcache { c_on : bool; c_map : list (bytes * template) }.
Fixpoint clookup (k : bytes) (m : list (bytes * template)) : option template :=
  match m with [] => None | (k', t) :: r => if beq k k' then Some t else clookup k r end.

(* plush.Parse *)
Definition c_parse (c : cache) (input : bytes) : cache * template * parse_result :=
  if negb (c_on c) then let '(t, r) := new_template input in (c, t, r)
  else
    match clookup input (c_map c) with
    | Some t => (c, t, match t_prog t with Some p => ParseOk p | None => ParseFuel end)
    | None =>
        let '(t, r) := new_template input in
        match r with
        | ParseOk _ => (mkcache (c_on c) ((input, t) :: c_map c), t, r)
        | _ => (c, t, r)
        end
    end.

(* a history of what a program can do with the package *)
Inductive op :=
| OSetCache (on : bool)                      (* plush.CacheEnabled = on *)
| ORender (input : bytes) (st : state)       (* plush.Render(input, ctx) *)
| OParseExec (input : bytes) (n : nat) (st : state)   (* t := Parse(input); n+1 times t.Exec(ctx): the last result *)
| OCloneExec (input : bytes) (st : state).   (* Parse(input).Clone().Exec(ctx) *)

Fixpoint exec_n (n : nat) (t : template) (st : state) : template * outcome :=
  match n with
  | O => t_exec t st
  | S k => let '(t', _) := t_exec t st in exec_n k t' st
  end.

Definition step (c : cache) (o : op) : cache * option outcome :=
  match o with
  | OSetCache on => (mkcache on (c_map c), None)
  | ORender input st =>
      let '(c', t, r) := c_parse c input in
      (c', Some (match r with ParseOk _ => snd (t_exec t st) | _ => run_parsed r st end))
  | OParseExec input n st =>
      let '(c', t, r) := c_parse c input in
      (c', Some (match r with ParseOk _ => snd (exec_n n t st) | _ => run_parsed r st end))
  | OCloneExec input st =>
      let '(c', t, r) := c_parse c input in
      (c', Some (match r with ParseOk _ => snd (t_exec (t_clone t) st) | _ => run_parsed r st end))
  end.

Fixpoint run (c : cache) (ops : list op) : list (option outcome) :=
  match ops with
  | [] => []
  | o :: r => let '(c', out) := step c o in out :: run c' r
  end.

(* the specification: every rendering operation is the pure function *)
Definition spec_of (o : op) : option outcome :=
  match o with
  | OSetCache _ => None
  | ORender input st | OParseExec input _ st | OCloneExec input st => Some (render G fuel st input)
  end.

End Exec.
