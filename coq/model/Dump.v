(* Dump.v - canonical text form of the syntax tree, produced identically by
   the Go harness from the real ast (correspondence glue, no semantics). *)
From Plush Require Import model.Bytes model.Lexer model.Ast model.Text.
Open Scope N_scope.

Fixpoint hexs (s : bytes) : bytes :=
  match s with
  | [] => []
  | c :: r => hexL (c / 16) :: hexL (c mod 16) :: hexs r
  end.
Definition hx_ (s : bytes) : bytes := 120 :: hexs s.   (* 'x' + hex *)
Definition sp : bytes := [32].
Definition nat_dec (n : nat) : bytes := dec_of_N (N.of_nat n).

Fixpoint dexpr (e : expr) : bytes :=
  match e with
  | ENil => [95]
  | EIdent l pre names =>
      [40;105;100;32] ++ hx_ l ++ sp ++
      concat_sep [44] (map hx_ (match pre with Some s => s :: names | None => names end)) ++ [41]
  | EInt l v => [40;105;110;116;32] ++ hx_ l ++ sp ++ dec_of_Z v ++ [41]
  | EFloat l => [40;102;108;116;32] ++ hx_ l ++ [41]
  | EStr l v => [40;115;116;114;32] ++ hx_ l ++ sp ++ hx_ v ++ [41]
  | EBool l b => [40;98;111;111;108;32] ++ hx_ l ++ sp ++ (if b then [49] else [48]) ++ [41]
  | EHtml l v => [40;104;116;109;108;32] ++ hx_ l ++ sp ++ hx_ v ++ [41]
  | EPrefix _ op r => [40;112;114;101;32] ++ hx_ op ++ sp ++ dexpr r ++ [41]
  | EInfix _ op l r => [40;105;110;102;32] ++ hx_ op ++ sp ++ dexpr l ++ sp ++ dexpr r ++ [41]
  | EIf c b elifs els =>
      [40;105;102;32] ++ dexpr c ++ sp ++ dblock b ++ sp ++ [91] ++
      (fix go (l : list (expr * block)) : bytes :=
         match l with [] => [] | (ec, eb) :: r => [40] ++ dexpr ec ++ sp ++ dblock eb ++ [41] ++ go r end) elifs ++
      [93] ++ sp ++ (match els with Some eb => dblock eb | None => [95] end) ++ [41]
  | EFor k v it b => [40;102;111;114;32] ++ hx_ k ++ sp ++ hx_ v ++ sp ++ dexpr it ++ sp ++ dblock b ++ [41]
  | EFn l params b => [40;102;110;32] ++ hx_ l ++ sp ++ [91] ++ concat_sep [44] (map hx_ params) ++ [93] ++ sp ++ dblock b ++ [41]
  | ECall _ fn callee args blk chain =>
      [40;99;97;108;108;32] ++ dexpr fn ++ sp ++
      (match callee with Some c => dexpr c | None => [95] end) ++ sp ++ [91] ++
      (fix go (l : list expr) : bytes := match l with [] => [] | a :: r => dexpr a ++ go r end) args ++ [93] ++ sp ++
      (match blk with Some b => dblock b | None => [95] end) ++ sp ++ dexpr chain ++ [41]
  | EIndex l i v c => [40;105;100;120;32] ++ dexpr l ++ sp ++ dexpr i ++ sp ++ dexpr v ++ sp ++ dexpr c ++ [41]
  | EArr els => [40;97;114;114;32;91] ++ (fix go (l : list expr) : bytes := match l with [] => [] | a :: r => dexpr a ++ go r end) els ++ [93;41]
  | EHash pairs => [40;104;97;115;104;32;91] ++
      (fix go (l : list (expr * expr)) : bytes :=
         match l with [] => [] | (k, v) :: r => [40] ++ dexpr k ++ sp ++ dexpr v ++ [41] ++ go r end) pairs ++ [93;41]
  | EAssign n v => [40;97;115;103;32] ++ dexpr n ++ sp ++ dexpr v ++ [41]
  | EBreak l => [40;98;114;107;32] ++ hx_ l ++ [41]
  | ECont l => [40;99;110;116;32] ++ hx_ l ++ [41]
  end
with dstmt (s : stmt) : bytes :=
  match s with
  | SLet t name v => [40;108;101;116;32] ++ nat_dec (tline t) ++ sp ++ hx_ (tlit t) ++ sp ++
                     (match name with Some n => hx_ n | None => [95] end) ++ sp ++ dexpr v ++ [41]
  | SRet t is_e v => [40;114;101;116;32] ++ nat_dec (tline t) ++ sp ++ (if is_e then [49] else [48]) ++ sp ++ dexpr v ++ [41]
  | SExpr t e => [40;101;120;112;114;32] ++ nat_dec (tline t) ++ sp ++ dexpr e ++ [41]
  end
with dblock (b : block) : bytes :=
  match b with
  | Block ss => [123] ++ (fix go (l : list stmt) : bytes := match l with [] => [] | s :: r => dstmt s ++ go r end) ss ++ [125]
  end.

Definition dprog (ss : list stmt) : bytes := flat_map dstmt ss.
