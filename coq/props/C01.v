(* C01 - string data is escaped on output; trusted HTML verbatim. Statements only. *)
From Plush Require Import model.Bytes model.Text model.Value model.Eval proofs.TextProofs proofs.EvalProofs.

(* the sink writes a Go string escaped, for every heap and every string *)
Theorem C01_sink_string : forall f h s, write_fuel (S f) h (VStr s) = html_escape s.
Proof. exact write_string. Qed.

(* and the escaped text never contains a raw angle bracket, a raw quote or a bare ampersand *)
Theorem C01_sink_string_clean : forall f h s, html_clean (write_fuel (S f) h (VStr s)) = true.
Proof. exact write_string_clean. Qed.

(* trusted HTML (template.HTML: literal text, raw(), HTML-returning helpers, the
   results of contentOf / partial / block helpers) is written verbatim, once *)
Theorem C01_sink_html : forall f h s, write_fuel (S f) h (VHTML s) = s.
Proof. exact write_html. Qed.

(* lists / return wrappers are written element by element, in order, each element exactly once *)
Theorem C01_sink_list : forall f h vs, write_fuel (S f) h (VList vs) = flat_map (write_fuel f h) vs.
Proof. exact write_list. Qed.
Theorem C01_sink_ret : forall f h vs, write_fuel (S f) h (VRet vs) = flat_map (write_fuel f h) vs.
Proof. exact write_ret. Qed.

(* whatever nesting of lists and return wrappers carries strings and booleans to
   the sink, the output has no raw special character *)
Theorem C01_string_only_clean : forall fuel h v, string_only fuel v = true -> html_clean (write_fuel fuel h v) = true.
Proof. exact write_string_only_clean. Qed.

(* cleanliness is preserved by concatenation (outputs of successive tags) *)
Theorem C01_clean_concat : forall a b, html_clean a = true -> html_clean b = true -> html_clean (a ++ b) = true.
Proof. exact html_clean_app. Qed.

Definition bs_ex1 : bytes := [60; 98; 62; 38; 39]%N.   (* <b>&' *)
Example C01_example : write [] (VList [VStr (bs_ex1); VHTML bs_ex1]) = html_escape bs_ex1 ++ bs_ex1.
Proof. vm_compute. reflexivity. Qed.

Print Assumptions C01_sink_string_clean.
Print Assumptions C01_sink_html.
Print Assumptions C01_string_only_clean.
Print Assumptions C01_clean_concat.
