(* C15 - error lines, invariant under shifting.  Statements only.
   Proved for all inputs at the lexer (where lines are produced) and for the
   top-level statement of the evaluator (where they are reported); the parser
   and the evaluator only copy the stamps of the tokens, which the
   correspondence check exercises (see the level note). *)
From Plush Require Import model.Bytes model.Lexer model.Ast model.Parser model.Value model.Eval
  proofs.LexerProofs proofs.LexerEquiv proofs.EvalProofs proofs.StmtProofs.

(* starting the line counter k higher raises the line stamp of every token by
   exactly k and changes nothing else: kinds, literals, number of tokens and
   success of the lexer are the same - for every input and every k *)
Theorem C15_token_lines_shift : forall k fuel l,
  lex_all fuel (shift_lx k l) = option_map (map (shift_tok k)) (lex_all fuel l).
Proof. exact lex_all_line_shift. Qed.
Print Assumptions C15_token_lines_shift.

(* consuming n bytes raises the counter by the number of newlines among the n
   bytes after the current one (text, strings, comments, tags: every byte is
   consumed by the same readChar) *)
Theorem C15_line_counts_newlines : forall n l,
  lline (advn n l) = (lline l + count_nl (firstn n (tl (lrest l))))%nat.
Proof. exact line_after_advn. Qed.

(* k newlines in front of any template: after them the counter is exactly k
   higher than at the start of the template alone *)
Theorem C15_leading_newlines : forall k s,
  lline (advn k (lx_init (repeat 10%N k ++ s))) = (lline (lx_init s) + k)%nat.
Proof. exact line_after_newlines. Qed.
Print Assumptions C15_leading_newlines.

(* the general form: two lexer states with the same remaining bytes whose
   counters are related by a relation closed under successor give token
   streams that agree in everything but lines, and the lines are related *)
Theorem C15_lines_are_the_only_difference : forall (L : nat -> nat -> Prop),
  (forall a b, L a b -> L (S a) (S b)) ->
  forall fuel l l', R L l l' -> Ropt L (lex_all fuel l) (lex_all fuel l').
Proof. exact R_lex_all. Qed.

(* a syntax error is recorded with the line stamp of the current token *)
Theorem C15_parser_error_line : forall p, errs (add_err p) = tline (cur p) :: errs p.
Proof. reflexivity. Qed.

(* a failing top-level statement reports the line recorded by the innermost
   block statement being evaluated, otherwise the line of its own first token *)
Theorem C15_runtime_error_line : forall G fuel st s rest out k st1,
  (forall lit v, stmt_expr s <> EHtml lit v) ->
  eval G fuel (with_stmt st None) (stmt_expr s) = RErr k st1 ->
  exec_prog G (S fuel) st (s :: rest) out =
  OErr (match sstmt st1 with Some l => l | None => tline (stmt_tok s) end) k st1.
Proof. exact exec_error_line. Qed.
Print Assumptions C15_runtime_error_line.

(* a block (function body, if, for, helper block) that completes hands the
   current statement back: what fails later in the same tag is reported at the
   tag, not at the last statement of the block; a block that fails keeps the
   statement that failed *)
Theorem C15_completed_block_restores_statement : forall G fuel st b v st1,
  eval_block G (S fuel) st b = ROk (v, st1) -> sstmt st1 = sstmt st.
Proof. exact block_restores_stmt. Qed.
Print Assumptions C15_completed_block_restores_statement.

Theorem C15_failing_block_keeps_statement : forall G fuel st ss k st1,
  eval_stmts G fuel st ss [] = RErr k st1 -> eval_block G (S fuel) st (Block ss) = RErr k st1.
Proof. exact block_error_keeps_stmt. Qed.
Print Assumptions C15_failing_block_keeps_statement.

(* ---- the blamed statement as an invariant of every evaluation (proofs/StmtProofs.v) ----
   For every environment, fuel, state and expression: an evaluation that
   succeeds leaves the current statement as it found it, whatever blocks,
   loops, function bodies, helper blocks, partials and TOLERATED failures
   occurred on the way.  An error raised later in the same tag is therefore
   reported at that tag's own line (C15_runtime_error_line), never at a
   statement of something that had already completed. *)
Theorem C15_success_keeps_the_blamed_statement : forall G fuel st e v st1,
  eval G fuel st e = ROk (v, st1) -> sstmt st1 = sstmt st.
Proof. exact eval_ok_keeps_statement. Qed.
Print Assumptions C15_success_keeps_the_blamed_statement.

Theorem C15_function_call_keeps_the_blamed_statement : forall G fuel st ps body args v st1,
  user_call G fuel st ps body args = ROk (v, st1) -> sstmt st1 = sstmt st.
Proof. exact user_call_ok_keeps_statement. Qed.

Theorem C15_partial_keeps_the_blamed_statement : forall G fuel st name data ctx v st1,
  partial_call G fuel st name data ctx = ROk (v, st1) -> sstmt st1 = sstmt st.
Proof. exact partial_ok_keeps_statement. Qed.
