(* C08 - for loops, break, continue. Statements only. *)
From Plush Require Import model.Bytes model.Ast model.Value model.Eval proofs.EvalProofs.

(* the loop over the remaining elements: nothing left -> the iterations' outputs in order *)
Theorem C08_loop_done : forall G fuel st k v b acc,
  for_items G (S fuel) st k v b [] acc = ROk (VList acc, st).
Proof. exact for_items_done. Qed.

(* one element: the body runs once with key and value bound, its output is appended,
   and the loop goes on with the rest (each element visited once, in order) *)
Theorem C08_loop_next : forall G fuel st k v b kv vv rest acc x st1,
  for_body G fuel st k v b kv vv = ROk ((x, false), st1) ->
  for_items G (S fuel) st k v b ((kv, vv) :: rest) acc = for_items G fuel st1 k v b rest (acc ++ [x]).
Proof. exact for_items_next. Qed.

(* break: what the iteration produced is kept, the remaining elements are not visited *)
Theorem C08_loop_break : forall G fuel st k v b kv vv rest acc x st1,
  for_body G fuel st k v b kv vv = ROk ((x, true), st1) ->
  for_items G (S fuel) st k v b ((kv, vv) :: rest) acc = ROk (VList (acc ++ [x]), st1).
Proof. exact for_items_break. Qed.

Theorem C08_loop_error : forall G fuel st k v b kv vv rest acc e st1,
  for_body G fuel st k v b kv vv = RErr e st1 ->
  for_items G (S fuel) st k v b ((kv, vv) :: rest) acc = RErr e st1.
Proof. exact for_items_error. Qed.

(* one iteration: bind key and value, evaluate the block; continue ends only this
   iteration (keeping its output), break ends the loop (keeping its output) *)
Theorem C08_body : forall G fuel st k v b kv vv,
  for_body G (S fuel) st k v b kv vv =
  rbind (eval_block G fuel (set_in (set_in st (scur st) k kv) (scur st) v vv) b)
        (fun rs => let '(r, st2) := rs in
           match r with
           | VCont vs => ROk ((VList vs, false), st2)
           | VBrk vs => ROk ((VList vs, true), st2)
           | x => ROk ((x, false), st2)
           end).
Proof. exact for_body_spec. Qed.

(* break / continue anywhere in a block (also when they come out of a nested
   block): the statements after them are skipped, what was produced is kept *)
Theorem C08_block_break : forall G fuel st s rest acc vs st1,
  eval_stmt G fuel st s = ROk (VBrk vs, st1) ->
  eval_stmts G (S fuel) st (s :: rest) acc = ROk (VBrk (acc ++ vs), st1).
Proof. exact block_break_keeps_output. Qed.

Theorem C08_block_continue : forall G fuel st s rest acc vs st1,
  eval_stmt G fuel st s = ROk (VCont vs, st1) ->
  eval_stmts G (S fuel) st (s :: rest) acc = ROk (VCont (acc ++ vs), st1).
Proof. exact block_continue_keeps_output. Qed.

Print Assumptions C08_loop_next.
Print Assumptions C08_loop_break.
Print Assumptions C08_body.
Print Assumptions C08_block_break.
