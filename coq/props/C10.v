(* C10 - Context behaves as a chain of scopes for every history.
   Only statements + [exact]; the proofs live in proofs/CtxProofs.v. *)
From Plush Require Import model.Bytes model.Ctx spec.RefCtx proofs.CtxProofs.

Section C10.
Variable V : Type.
Variable vnil : V.
Variable isnil : V -> bool.
Variable helpers : list (key * V).

(* For every history of NewRoot/New/Set/Value/Has operations the store model
   of context.go returns, for every Value and Has, what the history reading of
   the property returns. *)
Theorem C10_ctx_refines_spec : forall ops : list (op V),
  run V vnil isnil helpers [] ops = spec_run V vnil isnil helpers [] ops.
Proof. exact (ctx_refines_spec V vnil isnil helpers). Qed.

(* Has(k) is true exactly when Value(k) is non-nil. *)
Theorem C10_has_iff_nonnil : forall s c k,
  has V vnil isnil s c k = true <-> isnil (value V vnil s c k) = false.
Proof. exact (has_iff_nonnil V vnil isnil). Qed.

(* A Set on c never changes what a context outside c's subtree observes
   (ancestors, siblings, unrelated roots), for any key. *)
Theorem C10_set_isolated : forall s c k v c' k',
  on_path V (S c') s c c' = false ->
  value V vnil (set V s c k v) c' k' = value V vnil s c' k'.
Proof. exact (set_isolated V vnil). Qed.

(* ... and is visible on c itself. *)
Theorem C10_set_visible : forall s c k v,
  (c < length s)%nat -> value V vnil (set V s c k v) c k = v.
Proof. exact (set_visible V vnil). Qed.

(* A user value under a helper's name wins in that context's children ... *)
Theorem C10_child_sees_user_value : forall s p k u,
  (p < length s)%nat -> value V vnil s p k = u -> isnil u = false ->
  let '(s', n) := new_child V vnil isnil helpers s p in
  value V vnil s' n k = u.
Proof. exact (child_sees_user_value V vnil isnil helpers). Qed.

(* ... and in the context it was supplied to. *)
Theorem C10_root_keeps_user_value : forall s d b k u,
  alookup V k d = Some u -> isnil u = false ->
  let '(s', n) := new_root V vnil isnil helpers s d b in
  value V vnil s' n k = u.
Proof. exact (root_keeps_user_value V vnil isnil helpers). Qed.
End C10.

From Coq Require Import String.
Local Open Scope string_scope.
(* non-vacuity: a concrete three-context history in which the isolation
   premise holds and a user value shadows a built-in *)
Example C10_example :
  let helpers := [(bs "len", 99%N)] in
  run N 0%N (N.eqb 0%N) helpers []
    [ONewRoot [(bs "a", 1%N)] []; ONew 0; ONew 0; OSet 1 (bs "a") 2%N;
     OValue 1 (bs "a"); OValue 2 (bs "a"); OValue 0 (bs "a");
     OSet 0 (bs "len") 7%N; ONew 0; OValue 3 (bs "len"); OValue 1 (bs "len")]
  = [RCtx 0; RCtx 1; RCtx 2; RNone; RVal 2%N; RVal 1%N; RVal 1%N;
     RNone; RCtx 3; RVal 7%N; RVal 7%N]%nat.
Proof. vm_compute. reflexivity. Qed.

Print Assumptions C10_ctx_refines_spec.
Print Assumptions C10_has_iff_nonnil.
Print Assumptions C10_set_isolated.
Print Assumptions C10_set_visible.
Print Assumptions C10_child_sees_user_value.
Print Assumptions C10_root_keeps_user_value.
