(* C20 - text and encoding helpers. Statements only. *)
From Plush Require Import model.Bytes model.Text proofs.TextProofs proofs.EscapeProofs proofs.Utf8Proofs proofs.JsonProofs proofs.HtmlProofs proofs.TruncProofs.

(* truncate returns s unchanged (byte-identical, any bytes) when it has at
   most size characters *)
Theorem C20_truncate_short : forall s size trail,
  (Z.of_nat (rune_len s) <= size)%Z -> truncate s size trail = s.
Proof. exact truncate_short. Qed.

(* otherwise the result is the trail alone, or k whole characters of s
   (k + |trail| = size) re-encoded, followed by the trail *)
Theorem C20_truncate_shape : forall s size trail,
  truncate s size trail = s \/
  truncate s size trail = trail \/
  exists k, (Z.of_nat k + Z.of_nat (rune_len trail) = size)%Z /\ (k < rune_len s)%nat /\
            truncate s size trail = encode (firstn k (decode s)) ++ trail.
Proof. exact truncate_shape. Qed.

(* read as characters, the result is s itself, or the trail alone, or the first k
   whole characters of s followed by the characters of the trail with
   k + |trail| = size: a multi-byte character is never split *)
Theorem C20_truncate_characters : forall s size trail,
  (Z.of_nat (rune_len s) <= size)%Z /\ truncate s size trail = s \/
  (size < Z.of_nat (rune_len s))%Z /\
  ((size <= Z.of_nat (rune_len trail))%Z /\ truncate s size trail = trail \/
   exists k, (Z.of_nat k + Z.of_nat (rune_len trail) = size)%Z /\ (k < rune_len s)%nat /\
             decode (truncate s size trail) = firstn k (decode s) ++ decode trail).
Proof. exact truncate_characters. Qed.

(* ... and when s is longer than size it totals at most max(size, |trail|) characters *)
Theorem C20_truncate_bound : forall s size trail,
  (size < Z.of_nat (rune_len s))%Z ->
  (Z.of_nat (rune_len (truncate s size trail)) <= Z.max size (Z.of_nat (rune_len trail)))%Z.
Proof. exact truncate_bound. Qed.

(* truncating a result again with the same size and trail changes nothing *)
Theorem C20_truncate_idempotent : forall s size trail,
  truncate (truncate s size trail) size trail = truncate s size trail.
Proof. exact truncate_idempotent. Qed.

(* the UTF-8 facts behind it: decoding yields Unicode scalar values only, and
   decoding what was encoded from scalar values gives them back *)
Theorem C20_decode_valid : forall s, Forall valid_rune (decode s).
Proof. exact decode_valid. Qed.
Theorem C20_decode_encode : forall rs, Forall valid_rune rs -> forall t, decode (encode rs ++ t) = rs ++ decode t.
Proof. exact decode_encode_app. Qed.

(* htmlEscape: for every byte string, no raw angle bracket or quote, and every ampersand begins an entity *)
Theorem C20_html_escape_clean : forall s, html_clean (html_escape s) = true.
Proof. exact html_escape_clean. Qed.

Theorem C20_html_escape_id : forall s,
  forallb (fun c => negb (is_html_special c) && negb (N.eqb c 38) && negb (N.eqb c 0)) s = true ->
  html_escape s = s.
Proof. exact html_escape_id. Qed.

(* htmlEscape loses nothing: the decoder of the five entities recovers every
   NUL-free byte string, so distinct strings escape to distinct outputs (NUL is
   the one exception - it becomes U+FFFD, see html_escape_nul_collides);
   escaping piecewise and joining is escaping the whole; never shorter *)
Theorem C20_html_unescape_escape : forall s, nul_free s = true -> html_unescape (html_escape s) = s.
Proof. exact html_unescape_escape. Qed.

Theorem C20_html_escape_injective : forall a b,
  nul_free a = true -> nul_free b = true -> html_escape a = html_escape b -> a = b.
Proof. exact html_escape_injective. Qed.

Theorem C20_html_escape_app : forall a b, html_escape (a ++ b) = html_escape a ++ html_escape b.
Proof. exact html_escape_app. Qed.

Theorem C20_html_escape_length : forall s, (length s <= length (html_escape s))%nat.
Proof. exact html_escape_length. Qed.

(* jsEscape, for every byte string and whatever unicode.IsPrint answers: the
   output contains no raw < > & = and no raw line break, and a quote only
   directly after the backslash of an escape (escapes: backslash + backslash,
   quote, or u and hex digits) *)
Theorem C20_js_escape_ok : forall is_print s, js_ok (js_escape is_print s) = true.
Proof. exact js_escape_ok. Qed.

(* toJSON, for every JSON value: no raw < > & anywhere in the output (strings,
   object keys, numbers, punctuation) *)
Theorem C20_to_json_clean : forall v, json_clean (to_json v) = true.
Proof. exact to_json_clean. Qed.

(* bytes of the input are copied to the output of jsEscape / toJSON only as
   part of a multi-byte rune that the UTF-8 decoder accepted *)
Theorem C20_copied_bytes_are_continuations : forall c r rn size,
  decode1 c r = (rn, size) -> Forall high (firstn (size - 1) r).
Proof. exact decode1_tail_high. Qed.

Print Assumptions C20_truncate_characters.
Print Assumptions C20_truncate_bound.
Print Assumptions C20_truncate_idempotent.
Print Assumptions C20_decode_encode.
Print Assumptions C20_js_escape_ok.
Print Assumptions C20_to_json_clean.
Print Assumptions C20_truncate_short.
Print Assumptions C20_truncate_shape.
Print Assumptions C20_html_escape_clean.
Print Assumptions C20_html_escape_id.
Print Assumptions C20_html_unescape_escape.
Print Assumptions C20_html_escape_injective.
Print Assumptions C20_html_escape_app.
Print Assumptions C20_html_escape_length.

(* toJSON emits a JSON text, for every value: a recogniser of the JSON grammar
   (proofs/JsonProofs.v: strings with the standard escapes and no raw control
   characters, numbers without leading zeros, null / true / false, arrays and
   objects nested to any depth, nothing before or after) accepts the whole
   output.  That the text decodes back to the value is decided by the
   encoding/json oracle of the harness, not proved. *)
Theorem C20_to_json_is_json : forall v, is_json (to_json v).
Proof. exact to_json_is_json. Qed.
Print Assumptions C20_to_json_is_json.

(* ... and, piece by piece: a string body followed by its closing quote is
   scanned exactly, whatever bytes the string holds *)
Theorem C20_json_string_scanned : forall s rest, scan_str (json_str_aux s 0 true ++ 34%N :: rest) = Some rest.
Proof. exact scan_json_string. Qed.

(* the recogniser is not vacuous *)
Example C20_recogniser_rejects :
  skip_val 9 [34; 10; 34]%N = None /\ skip_val 9 [48; 49]%N = None /\ skip_val 9 [91; 49; 44; 93]%N = None /\
  skip_val 9 [123; 97; 58; 49; 125]%N = None.
Proof. repeat split; reflexivity. Qed.
