(* C20 - text and encoding helpers. Statements only. *)
From Plush Require Import model.Bytes model.Text proofs.TextProofs.

(* truncate returns s unchanged (byte-identical, any bytes) when it has at
   most size characters *)
Theorem C20_truncate_short : forall s size trail,
  (Z.of_nat (rune_len s) <= size)%Z -> truncate s size trail = s.
Proof. exact truncate_short. Qed.

(* otherwise the result is the trail alone, or k whole characters of s
   (k + |trail| = size) re-encoded, followed by the trail *)
Theorem C20_truncate_shape : forall s size trail,
  truncate s size trail = s \/
  truncate s size trail = trail \/
  exists k, (Z.of_nat k + Z.of_nat (rune_len trail) = size)%Z /\ (k < rune_len s)%nat /\
            truncate s size trail = encode (firstn k (decode s)) ++ trail.
Proof. exact truncate_shape. Qed.

(* htmlEscape: for every byte string, no raw angle bracket or quote, and every ampersand begins an entity *)
Theorem C20_html_escape_clean : forall s, html_clean (html_escape s) = true.
Proof. exact html_escape_clean. Qed.

Theorem C20_html_escape_id : forall s,
  forallb (fun c => negb (is_html_special c) && negb (N.eqb c 38) && negb (N.eqb c 0)) s = true ->
  html_escape s = s.
Proof. exact html_escape_id. Qed.

Print Assumptions C20_truncate_short.
Print Assumptions C20_truncate_shape.
Print Assumptions C20_html_escape_clean.
Print Assumptions C20_html_escape_id.
