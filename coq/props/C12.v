(* C12 - Go helpers receive exactly the supplied arguments, or are not called. Statements only. *)
From Plush Require Import model.Bytes model.Ast model.Value model.Eval proofs.EvalProofs.

Theorem C12_bind_done : forall G fuel st ps, bind_fixed G (S fuel) st ps [] = ROk ([], st).
Proof. exact bind_fixed_done. Qed.

(* nil becomes the parameter type's zero value *)
Theorem C12_bind_nil : forall G fuel st p ps a rest st1,
  eval G fuel st a = ROk (VNil, st1) ->
  bind_fixed G (S fuel) st (p :: ps) (a :: rest) =
  rbind (bind_fixed G fuel st1 ps rest) (fun bs => let '(b, s) := bs in ROk (zero_of p :: b, s)).
Proof. exact bind_fixed_nil_arg. Qed.

(* an assignable value is passed positionally, unchanged; the next argument is
   evaluated in the state the previous one left (once each, left to right) *)
Theorem C12_bind_value : forall G fuel st p ps a rest v st1,
  eval G fuel st a = ROk (v, st1) -> v <> VNil -> assignable (sheap st1) v p = true ->
  bind_fixed G (S fuel) st (p :: ps) (a :: rest) =
  rbind (bind_fixed G fuel st1 ps rest) (fun bs => let '(b, s) := bs in ROk (BV v :: b, s)).
Proof. exact bind_fixed_assignable. Qed.

(* a value that is not assignable to its parameter rejects the call *)
Theorem C12_bind_reject : forall G fuel st p ps a rest v st1,
  eval G fuel st a = ROk (v, st1) -> v <> VNil -> assignable (sheap st1) v p = false ->
  bind_fixed G (S fuel) st (p :: ps) (a :: rest) = RErr (EFail None) st1.
Proof. exact bind_fixed_not_assignable. Qed.

Theorem C12_too_many : forall G fuel st sg args blk,
  sg_variadic sg = false -> Nat.ltb (length (sg_params sg)) (length args) = true ->
  bind_args G (S fuel) st sg args blk = RErr (EFail None) st.
Proof. exact bind_args_too_many. Qed.

(* an omitted trailing helper context carries the call's block; an omitted map is a fresh empty map *)
Theorem C12_auto_helper_context : forall st blk, auto_arg st PHCtx blk = (st, BHelp (HC (scur st) blk)).
Proof. exact auto_arg_helper_context. Qed.
Theorem C12_auto_helper_context_iface : forall st blk, auto_arg st PHCtxI blk = (st, BHelp (HC (scur st) blk)).
Proof. exact auto_arg_helper_context_iface. Qed.

(* a rejected call never reaches the function *)
Theorem C12_rejected_not_invoked : forall G fuel st lit args blk chain id cfg sg e st1 st2 name,
  eval G fuel st (EIdent lit None [name]) = ROk (VGo id cfg, st1) ->
  g_sig G id cfg = Some sg ->
  bind_args G fuel st1 sg args blk = RErr e st2 ->
  eval_call G (S fuel) st (EIdent lit None [name]) None args blk chain = RErr e st2.
Proof. exact call_rejected_not_invoked. Qed.

(* a bound call is exactly the function applied to the bound arguments; its first
   result is the call's value and an error result fails the call (go_apply's RErr) *)
Theorem C12_bound_invokes : forall G fuel st lit args blk id cfg sg st1 bound st2 name,
  eval G fuel st (EIdent lit None [name]) = ROk (VGo id cfg, st1) ->
  g_sig G id cfg = Some sg -> sg_nres sg <> O ->
  bind_args G fuel st1 sg args blk = ROk (bound, st2) ->
  eval_call G (S fuel) st (EIdent lit None [name]) None args blk ENil = go_apply G fuel st2 id cfg None bound.
Proof. exact call_bound_invokes. Qed.

Print Assumptions C12_bind_nil.
Print Assumptions C12_bind_value.
Print Assumptions C12_bind_reject.
Print Assumptions C12_rejected_not_invoked.
Print Assumptions C12_bound_invokes.

(* an explicit nil for a HelperContext parameter (struct or interface type) is
   replaced by the usual helper context - current scope and the call's block -
   exactly as when the argument is omitted; every other binding is left alone *)
Theorem C12_nil_helper_context_struct : forall cur blk ps bs,
  fix_nil_hctx cur blk (PHCtx :: ps) (BV (VOther 2) :: bs) = BHelp (HC cur blk) :: fix_nil_hctx cur blk ps bs.
Proof. reflexivity. Qed.
Theorem C12_nil_helper_context_iface : forall cur blk ps bs,
  fix_nil_hctx cur blk (PHCtxI :: ps) (BV VNil :: bs) = BHelp (HC cur blk) :: fix_nil_hctx cur blk ps bs.
Proof. reflexivity. Qed.
Theorem C12_other_bindings_untouched : forall cur blk p ps b bs,
  p <> PHCtx -> p <> PHCtxI ->
  fix_nil_hctx cur blk (p :: ps) (b :: bs) = b :: fix_nil_hctx cur blk ps bs.
Proof. intros cur blk p ps b bs H1 H2. destruct p; try reflexivity; contradiction. Qed.
Theorem C12_fix_keeps_length : forall cur blk ps bs, length (fix_nil_hctx cur blk ps bs) = length bs.
Proof.
  intros cur blk ps. induction ps as [|p ps IH]; intros [|b bs]; try reflexivity.
  cbn [fix_nil_hctx length]. f_equal. apply IH.
Qed.
Print Assumptions C12_nil_helper_context_struct.
