(* C09 - names bound inside scoped constructs never leak or clobber. Statements only.
   The one-step store theorems come first; the second half states the property
   for WHOLE evaluations, for every program, state and fuel (proofs/ScopeProofs.v,
   proofs/FrameProofs.v: induction on fuel through all 27 evaluator functions). *)
From Plush Require Import model.Bytes model.Ctx model.Ast model.Value model.Eval proofs.EvalProofs proofs.CtxProofs proofs.ScopeProofs proofs.FrameProofs.

(* New(): every existing context answers every key exactly as before *)
Theorem C09_new_child_frame : forall G (s : store value) p c k, (c < length s)%nat ->
  Ctx.value value VNil (fst (Ctx.new_child value VNil is_nil (g_helpers G) s p)) c k = Ctx.value value VNil s c k.
Proof. exact new_child_frame. Qed.

(* the scope a for / function call / partial / contentOf / block helper works in is
   a fresh child: whatever is bound in it (loop variables, parameters, data, let)
   leaves every existing context - in particular same-named outer variables - unchanged *)
Theorem C09_fresh_scope_frame_partial : forall G st kvs c k, (c < length (sctx st))%nat ->
  let '(st1, n) := cnew G st in
  Ctx.value value VNil (sctx (set_all st1 n kvs)) c k = Ctx.value value VNil (sctx st) c k.
Proof. exact fresh_scope_frame. Qed.

(* the caller's scope is restored after a block ran in another scope, also on failure *)
Theorem C09_block_restores_scope : forall G fuel st b ctx v st1,
  eval_block G fuel (with_cur st ctx) b = ROk (v, st1) -> printable (sheap st1) v = true ->
  block_with G (S fuel) st (Some b) ctx = ROk (write (sheap st1) v, with_cur st1 (scur st)).
Proof. exact block_with_ok. Qed.
Theorem C09_block_restores_scope_on_error : forall G fuel st b ctx e st1,
  eval_block G fuel (with_cur st ctx) b = RErr e st1 ->
  block_with G (S fuel) st (Some b) ctx = RErr e (with_cur st1 (scur st)).
Proof. exact block_with_error. Qed.

Print Assumptions C09_new_child_frame.
Print Assumptions C09_fresh_scope_frame_partial.
Print Assumptions C09_block_restores_scope.

(* ================= whole evaluations =================
   A scope is a frame of the context store (frames are numbered in creation
   order; getctx value (sctx st) i is frame i; nctxs st their number; scur st
   the current one).  final_state r is the state a result carries, on the
   value path and on the error path alike. *)

(* (a) whatever is evaluated, and however it ends, the current scope afterwards
   is the scope it started in: every construct that enters a scope leaves it *)
Theorem C09_scope_restored : forall G fuel st e, SC (scur st) (eval G fuel st e).
Proof. exact eval_restores_scope. Qed.
Print Assumptions C09_scope_restored.
Theorem C09_scope_restored_exec : forall G fuel st prog out, SCo (scur st) (exec_prog G fuel st prog out).
Proof. exact exec_restores_scope. Qed.

(* (b) of the frames that existed, an evaluation can change only the current
   one (top-level let / assignment persist there); no frame disappears *)
Theorem C09_only_the_current_scope_is_written : forall G fuel st e s,
  final_state (eval G fuel st e) = Some s ->
  scur s = scur st /\ (nctxs st <= nctxs s)%nat /\
  forall i, (i < nctxs st)%nat -> i <> scur st -> getctx value (sctx s) i = getctx value (sctx st) i.
Proof. exact eval_touches_only_current_frame. Qed.
Print Assumptions C09_only_the_current_scope_is_written.

(* (c) a for loop - iterable, loop variables, everything its body binds or
   assigns, nested to any depth - changes NO frame that existed before it ... *)
Theorem C09_for_changes_no_outer_scope : forall G fuel st k v it b s,
  final_state (eval_for G (S fuel) st k v it b) = Some s ->
  scur s = scur st /\ forall i, (i < nctxs st)%nat -> getctx value (sctx s) i = getctx value (sctx st) i.
Proof. exact for_changes_no_frame. Qed.
Print Assumptions C09_for_changes_no_outer_scope.

(* ... so every name looked up afterwards has the value it had before: nothing
   leaked, nothing clobbered *)
Theorem C09_for_leaves_every_name_unchanged : forall G fuel st k v it b s name,
  (scur st < nctxs st)%nat ->
  final_state (eval_for G (S fuel) st k v it b) = Some s ->
  Ctx.value value VNil (sctx s) (scur s) name = Ctx.value value VNil (sctx st) (scur st) name.
Proof. exact for_leaves_every_name_unchanged. Qed.
Print Assumptions C09_for_leaves_every_name_unchanged.

(* (d) the same for a partial (with or without a layout) ... *)
Theorem C09_partial_leaves_every_name_unchanged : forall G fuel st pname data ctx s name,
  (scur st < nctxs st)%nat ->
  final_state (partial_call G fuel st pname data ctx) = Some s ->
  Ctx.value value VNil (sctx s) (scur s) name = Ctx.value value VNil (sctx st) (scur st) name.
Proof. exact partial_leaves_every_name_unchanged. Qed.
Print Assumptions C09_partial_leaves_every_name_unchanged.

(* ... and for a stored block replayed with its own data (contentOf, a block
   helper with its own context) *)
Theorem C09_content_block_leaves_every_name_unchanged : forall G fuel st blk parent data s name,
  (scur st < nctxs st)%nat ->
  final_state (block_in_child G fuel st blk parent data) = Some s ->
  Ctx.value value VNil (sctx s) (scur s) name = Ctx.value value VNil (sctx st) (scur st) name.
Proof. exact block_in_child_leaves_every_name_unchanged. Qed.
Print Assumptions C09_content_block_leaves_every_name_unchanged.

(* (e) user functions: the body runs in a freshly created scope holding the
   parameters; it changes no frame that existed before the call (the arguments
   themselves are evaluated in the caller's scope, where (b) applies) *)
Theorem C09_function_body_changes_no_outer_scope : forall G fuel st st1 n kvs body s,
  cnew G st = (st1, n) ->
  final_state (eval_block G fuel (set_all (with_cur st1 n) n kvs) body) = Some s ->
  forall i, (i < nctxs st)%nat -> getctx value (sctx s) i = getctx value (sctx st) i.
Proof. exact fresh_scope_changes_no_frame. Qed.
Print Assumptions C09_function_body_changes_no_outer_scope.

(* the premise (the current scope exists) holds in the state every render starts from *)
Example C09_initial_state_is_well_formed :
  let '(s, root) := Ctx.new_root value VNil is_nil [] [] [] [] in (root < length s)%nat.
Proof. vm_compute. auto. Qed.
