(* C09 - names bound inside scoped constructs never leak or clobber. Statements only.
   PARTIAL: the store-level frame theorems below are proved for all states; that every
   evaluator function writes only to the current scope or to scopes it created itself
   (so that the frame theorem applies to whole evaluations) is so far supported by the
   correspondence check only. *)
From Plush Require Import model.Bytes model.Ctx model.Value model.Eval proofs.EvalProofs.

(* New(): every existing context answers every key exactly as before *)
Theorem C09_new_child_frame : forall G (s : store value) p c k, (c < length s)%nat ->
  Ctx.value value VNil (fst (Ctx.new_child value VNil is_nil (g_helpers G) s p)) c k = Ctx.value value VNil s c k.
Proof. exact new_child_frame. Qed.

(* the scope a for / function call / partial / contentOf / block helper works in is
   a fresh child: whatever is bound in it (loop variables, parameters, data, let)
   leaves every existing context - in particular same-named outer variables - unchanged *)
Theorem C09_fresh_scope_frame_partial : forall G st kvs c k, (c < length (sctx st))%nat ->
  let '(st1, n) := cnew G st in
  Ctx.value value VNil (sctx (set_all st1 n kvs)) c k = Ctx.value value VNil (sctx st) c k.
Proof. exact fresh_scope_frame. Qed.

(* the caller's scope is restored after a block ran in another scope, also on failure *)
Theorem C09_block_restores_scope : forall G fuel st b ctx v st1,
  eval_block G fuel (with_cur st ctx) b = ROk (v, st1) -> printable (sheap st1) v = true ->
  block_with G (S fuel) st (Some b) ctx = ROk (write (sheap st1) v, with_cur st1 (scur st)).
Proof. exact block_with_ok. Qed.
Theorem C09_block_restores_scope_on_error : forall G fuel st b ctx e st1,
  eval_block G fuel (with_cur st ctx) b = RErr e st1 ->
  block_with G (S fuel) st (Some b) ctx = RErr e (with_cur st1 (scur st)).
Proof. exact block_with_error. Qed.

Print Assumptions C09_new_child_frame.
Print Assumptions C09_fresh_scope_frame_partial.
Print Assumptions C09_block_restores_scope.
