(* C04 - evaluation is total: no evaluator function and no modelled built-in
   helper ever returns a panic. Statements only. *)
From Plush Require Import model.Bytes model.Ast model.Value model.Eval proofs.EvalProofs.

(* for every environment (helper family, signatures, methods, partials), every
   fuel, every state and every expression / program / template text *)
Theorem C04_eval_no_panic : forall G fuel st e site, eval G fuel st e <> RPanic site.
Proof. exact eval_no_panic. Qed.

Theorem C04_exec_no_panic : forall G fuel st prog out site, exec_prog G fuel st prog out <> OPanic site.
Proof. exact exec_no_panic. Qed.

Theorem C04_render_no_panic : forall G fuel st input site, render G fuel st input <> OPanic site.
Proof. exact render_no_panic. Qed.

(* every modelled built-in / family helper, for every argument list *)
Theorem C04_helper_no_panic : forall G fuel st id cfg recv bs site, go_apply G fuel st id cfg recv bs <> RPanic site.
Proof. exact go_apply_no_panic. Qed.

(* the simultaneous statement over all 27 mutually recursive functions *)
Theorem C04_all_functions : forall G fuel, NP (evals_at G fuel).
Proof. exact NP_at. Qed.

Print Assumptions C04_eval_no_panic.
Print Assumptions C04_exec_no_panic.
Print Assumptions C04_render_no_panic.
Print Assumptions C04_helper_no_panic.
Print Assumptions C04_all_functions.
