(* C06 - operators, precedence and associativity.  Statements only. *)
From Coq Require Import ZArith Floats.
From Plush Require Import model.Bytes model.Iter model.Text model.Lexer model.Ast model.Parser model.Value model.Eval
  proofs.ParserProofs proofs.OperatorProofs proofs.EvalProofs.

(* the precedence order, read off the table regenerated from parser/precedences.go
   on every run: prefix > * / > + - > < <= > >= > == != ~= > && || *)
Theorem C06_precedence_order :
  (LOWEST <? prec_of AND)%nat = true /\ prec_of AND = prec_of OR /\
  (prec_of OR <? prec_of EQ)%nat = true /\ prec_of EQ = prec_of NOT_EQ /\ prec_of NOT_EQ = prec_of MATCHES /\
  (prec_of MATCHES <? prec_of LT)%nat = true /\ prec_of LT = prec_of LTEQ /\ prec_of LTEQ = prec_of GT /\ prec_of GT = prec_of GTEQ /\
  (prec_of GTEQ <? prec_of PLUS)%nat = true /\ prec_of PLUS = prec_of MINUS /\
  (prec_of MINUS <? prec_of ASTERISK)%nat = true /\ prec_of ASTERISK = prec_of SLASH /\
  (prec_of SLASH <? PREFIX)%nat = true /\
  (PREFIX <? prec_of LPAREN)%nat = true /\ (prec_of LPAREN <? prec_of LBRACKET)%nat = true.
Proof. exact prec_order. Qed.
Print Assumptions C06_precedence_order.

(* the Pratt loop: it stops in front of an operator that does not bind
   tighter than its context (left associativity) and climbs over one that does *)
Theorem C06_pratt_stops : forall f prec left p,
  (prec_of (peekk p) <= prec)%nat -> pratt_loop (S f) prec left p = ret left p.
Proof. exact pratt_stops. Qed.
Theorem C06_pratt_climbs : forall f prec left p,
  is_binop (peekk p) = true -> (prec < prec_of (peekk p))%nat ->
  pratt_loop (S f) prec left p =
  let p1 := next p in
  bind (parse_expression f (prec_of (curk p1)) (next p1))
       (fun r p2 => pratt_loop f prec (EInfix (tlit (cur p1)) (tlit (cur p1)) left r) p2).
Proof. exact pratt_climbs. Qed.
Print Assumptions C06_pratt_climbs.

(* every pair of binary operators, all operands: a op1 b op2 c groups to the
   left unless op2 binds strictly tighter; parentheses override; a prefix
   operator binds tighter than every binary operator *)
Theorem C06_three_operands_grouping : forall k1 k2 a b c l1 l2 ln,
  is_binop k1 = true -> is_binop k2 = true ->
  option_map fst (parse_expression 8 LOWEST (three k1 k2 a b c l1 l2 ln)) =
  Some (if (prec_of k1 <? prec_of k2)%nat
        then EInfix l1 l1 (EStr a a) (EInfix l2 l2 (EStr b b) (EStr c c))
        else EInfix l2 l2 (EInfix l1 l1 (EStr a a) (EStr b b)) (EStr c c)).
Proof. exact three_operands_grouping. Qed.
Theorem C06_parentheses_group : forall k1 k2 a b c l1 l2 ln,
  is_binop k1 = true -> is_binop k2 = true ->
  option_map fst (parse_expression 10 LOWEST (three_paren k1 k2 a b c l1 l2 ln)) =
  Some (EInfix l1 l1 (EStr a a) (EInfix l2 l2 (EStr b b) (EStr c c))).
Proof. exact parentheses_group. Qed.
Theorem C06_prefix_binds_tightest : forall kp k a b lp l ln,
  (kp = BANG \/ kp = MINUS) -> is_binop k = true ->
  option_map fst (parse_expression 8 LOWEST (prefixed kp k a b lp l ln)) =
  Some (EInfix l l (EPrefix lp lp (EStr a a)) (EStr b b)).
Proof. exact prefix_binds_tightest. Qed.
Print Assumptions C06_three_operands_grouping.

(* operator meaning: integers *)
Theorem C06_int_division_truncates : forall a b, b <> 0%Z -> ints_op o_div a b = OpV (VInt (wrap64 (Z.quot a b))).
Proof. exact ints_div_truncates. Qed.
Theorem C06_int_division_by_zero : forall a, ints_op o_div a 0 = OpErr.
Proof. exact ints_div_zero. Qed.
Theorem C06_int_arithmetic_exact : forall a b,
  (in_int (a + b) -> ints_op o_plus a b = OpV (VInt (a + b))) /\
  (in_int (a - b) -> ints_op o_minus a b = OpV (VInt (a - b))) /\
  (in_int (a * b) -> ints_op o_mul a b = OpV (VInt (a * b))) /\
  (b <> 0%Z -> in_int (Z.quot a b) -> ints_op o_div a b = OpV (VInt (Z.quot a b))).
Proof. exact ints_exact. Qed.
Theorem C06_int_comparisons : forall a b,
  bool_of (ints_op o_lt a b) = Some (a <? b)%Z /\ bool_of (ints_op o_le a b) = Some (a <=? b)%Z /\
  bool_of (ints_op o_gt a b) = Some (a >? b)%Z /\ bool_of (ints_op o_ge a b) = Some (a >=? b)%Z /\
  bool_of (ints_op o_eq a b) = Some (a =? b)%Z /\ bool_of (ints_op o_ne a b) = Some (negb (a =? b)%Z).
Proof. exact ints_compare. Qed.
(* strings *)
Theorem C06_string_comparisons : forall l r,
  bool_of (strings_op o_le l r) = Some (bytes_leb l r) /\
  bool_of (strings_op o_ge l r) = Some (bytes_leb r l) /\
  bool_of (strings_op o_lt l r) = Some (negb (bytes_leb r l)) /\
  bool_of (strings_op o_gt l r) = Some (negb (bytes_leb l r)) /\
  bool_of (strings_op o_eq l r) = Some (beq l r) /\
  bool_of (strings_op o_ne l r) = Some (negb (beq l r)).
Proof. exact strings_compare. Qed.
(* NaN (the float that differs from itself: Inf - Inf, or a NaN held by a variable): every
   ordered comparison with it is false, == is false and != is true, on either side.  For all
   binary64 operands; rests on the standard library's FloatAxioms (eqb_spec, ltb_spec, leb_spec). *)
Theorem C06_nan_comparisons : forall x y, is_nan_f x = true ->
  floats_op o_lt x y = OpV (VBool false) /\ floats_op o_lt y x = OpV (VBool false) /\
  floats_op o_le x y = OpV (VBool false) /\ floats_op o_le y x = OpV (VBool false) /\
  floats_op o_gt x y = OpV (VBool false) /\ floats_op o_gt y x = OpV (VBool false) /\
  floats_op o_ge x y = OpV (VBool false) /\ floats_op o_ge y x = OpV (VBool false) /\
  floats_op o_eq x y = OpV (VBool false) /\ floats_op o_eq y x = OpV (VBool false) /\
  floats_op o_ne x y = OpV (VBool true) /\ floats_op o_ne y x = OpV (VBool true).
Proof. exact nan_comparisons. Qed.
Print Assumptions C06_nan_comparisons.
Example C06_inf_minus_inf_is_nan : is_nan_f (PrimFloat.sub infinity infinity) = true.
Proof. reflexivity. Qed.

Theorem C06_float_division_by_zero : forall a, floats_op o_div a 0%float = OpErr.
Proof. exact floats_div_zero. Qed.
Print Assumptions C06_string_comparisons.

(* the evaluator dispatches on the operand types and does nothing else *)
Theorem C06_two_integers : forall G fuel st op l r a st1 b st2,
  logical op = false ->
  eval G fuel st l = ROk (VInt a, st1) -> eval G fuel st1 r = ROk (VInt b, st2) ->
  eval_infix G (S fuel) st op l r = of_opres (ints_op op a b) st2.
Proof. exact infix_ints. Qed.
Theorem C06_string_plus_prints_right_operand : forall G fuel st l r ls st1 rv st2 rr,
  eval G fuel st l = ROk (VStr ls, st1) -> eval G fuel st1 r = ROk (rv, st2) ->
  is_nil rv = false -> sprint (sheap st2) rv = Some rr ->
  eval_infix G (S fuel) st o_plus l r = ROk (VStr (ls ++ rr), st2).
Proof. exact infix_string_plus. Qed.
Theorem C06_type_mismatch_is_error : forall G fuel st op l r a st1 rv st2,
  logical op = false ->
  eval G fuel st l = ROk (VInt a, st1) -> eval G fuel st1 r = ROk (rv, st2) ->
  is_nil rv = false -> (forall b, rv <> VInt b) ->
  eval_infix G (S fuel) st op l r = RErr (EFail None) st2.
Proof. exact infix_int_mismatch. Qed.
(* short-circuit *)
Theorem C06_and_short_circuit : forall G fuel st l r lv st1,
  eval G fuel st l = ROk (lv, st1) -> truthy lv = false ->
  eval_infix G (S fuel) st o_and l r = ROk (VBool false, st1).
Proof. exact and_short_circuit. Qed.
Theorem C06_or_short_circuit : forall G fuel st l r lv st1,
  eval G fuel st l = ROk (lv, st1) -> truthy lv = true ->
  eval_infix G (S fuel) st o_or l r = ROk (VBool true, st1).
Proof. exact or_short_circuit. Qed.
Print Assumptions C06_two_integers.
