(* C17 - rendering via partial / layout / contentFor / block helpers equals rendering
   inline. Statements only.  Each construct is characterised by what it reduces to:
   the SAME evaluator (exec_prog / eval_block) run on the partial's text or the
   stored block, in a fresh child of the right scope holding the data - which is
   what "written inline in the equivalent scope" means - and the text comes back
   as HTML, unescaped and once.  That the real engine behaves like these
   equations is what the inline-twin harness and the correspondence check test. *)
From Plush Require Import model.Bytes model.Ast model.Parser model.Ctx model.Value model.Eval proofs.EvalProofs proofs.DataProofs.

(* BlockWith(ctx): the helper gets the sink applied to the value of the block
   evaluated in ctx - exactly what the same statements render to there - and the
   text is not escaped again (it is handed back as bytes, wrapped as HTML by the helper) *)
Theorem C17_block_with : forall G fuel st b ctx v st1,
  eval_block G fuel (with_cur st ctx) b = ROk (v, st1) -> printable (sheap st1) v = true ->
  block_with G (S fuel) st (Some b) ctx = ROk (write (sheap st1) v, with_cur st1 (scur st)).
Proof. exact block_with_ok. Qed.

Theorem C17_block_with_error : forall G fuel st b ctx e st1,
  eval_block G fuel (with_cur st ctx) b = RErr e st1 ->
  block_with G (S fuel) st (Some b) ctx = RErr e (with_cur st1 (scur st)).
Proof. exact block_with_error. Qed.

Theorem C17_no_block : forall G fuel st ctx, block_with G (S fuel) st None ctx = RErr (EFail None) st.
Proof. exact block_with_none. Qed.

Print Assumptions C17_block_with.
Print Assumptions C17_block_with_error.

(* contentFor(name) { block } emits nothing where it is written: the block is stored,
   together with the scope it was written in *)
Theorem C17_content_for_emits_nothing : forall G fuel st cfg recv name ctx blk,
  go_apply G (S fuel) st H_CONTENTFOR cfg recv [BV (VStr name); BHelp (HC ctx blk)] =
  ROk (VNil, set_in st ctx (k_contentFor name) (VClosure ctx blk)).
Proof. exact content_for_stores. Qed.
Print Assumptions C17_content_for_emits_nothing.

(* every later contentOf(name, data) replays the stored block in a fresh child of
   the scope it was written in, with data added ... *)
Theorem C17_content_of_replays_stored_block : forall G fuel st cfg recv name m ctx blk cctx cblk,
  Ctx.value value VNil (sctx st) ctx (k_contentFor name) = VClosure cctx cblk ->
  go_apply G (S (S fuel)) st H_CONTENTOF cfg recv [BV (VStr name); m; BHelp (HC ctx blk)] =
  block_in_child G (S fuel) st cblk cctx
    (match map_of_barg (sheap st) m with Some kvs => str_entries kvs | None => [] end).
Proof. exact content_of_replays. Qed.
Print Assumptions C17_content_of_replays_stored_block.

(* ... or its own default block when the name is undefined, or fails *)
Theorem C17_content_of_default_block : forall G fuel st cfg recv name m ctx b,
  (forall cctx cblk, Ctx.value value VNil (sctx st) ctx (k_contentFor name) <> VClosure cctx cblk) ->
  go_apply G (S (S fuel)) st H_CONTENTOF cfg recv [BV (VStr name); m; BHelp (HC ctx (Some b))] =
  block_in_child G (S fuel) st (Some b) ctx
    (match map_of_barg (sheap st) m with Some kvs => str_entries kvs | None => [] end).
Proof. exact content_of_default_block. Qed.
Theorem C17_content_of_undefined_is_an_error : forall G fuel st cfg recv name m ctx,
  (forall cctx cblk, Ctx.value value VNil (sctx st) ctx (k_contentFor name) <> VClosure cctx cblk) ->
  go_apply G (S fuel) st H_CONTENTOF cfg recv [BV (VStr name); m; BHelp (HC ctx None)] = RErr (EFail None) st.
Proof. exact content_of_undefined_fails. Qed.

(* a block replayed with data = BlockWith in a fresh child scope holding the data;
   the text is handed back as HTML (C17_block_with says what the text is) *)
Theorem C17_block_with_data_inline : forall G fuel st blk parent data st1 n body st3,
  cnew_of G st parent = (st1, n) ->
  block_with G fuel (set_all st1 n data) blk n = ROk (body, st3) ->
  block_in_child G (S fuel) st blk parent data = ROk (VHTML body, st3).
Proof. exact block_in_child_inline. Qed.
Print Assumptions C17_block_with_data_inline.

(* the data BINDS every key it holds in that fresh child - a key whose value is nil
   included: inside, a name reads as the data gave it (the last entry for the key),
   whatever an outer scope holds under that name, exactly as after a let of the
   same names; a name the data does not mention reads through to the parent *)
Theorem C17_data_binds_every_key : forall G st parent st1 n d k,
  cnew_of G st parent = (st1, n) ->
  Ctx.value value VNil (sctx (set_all st1 n d)) n k =
  match alookup value k (rev d) with
  | Some v => v
  | None => Ctx.value value VNil (sctx st1) n k
  end.
Proof. exact data_binds_child. Qed.
Print Assumptions C17_data_binds_every_key.

Theorem C17_nil_data_hides_outer_name : forall G st parent st1 n d k,
  cnew_of G st parent = (st1, n) -> alookup value k (rev d) = Some VNil ->
  Ctx.value value VNil (sctx (set_all st1 n d)) n k = VNil.
Proof. exact nil_data_hides_outer_child. Qed.
Print Assumptions C17_nil_data_hides_outer_name.

(* partial(name, data) without a layout: the feeder's text, parsed and executed by
   the same evaluator in a fresh child of the caller's scope holding data; its
   output comes back verbatim as HTML (unescaped, once) and the caller's scope
   and current statement are restored *)
Theorem C17_partial_inline : forall G fuel st name data ctx st1 n cfg text prog out st3,
  cnew_of G st ctx = (st1, n) ->
  Ctx.value value VNil (sctx (set_all st1 n data)) n k_partialFeeder = VGo H_FEEDER cfg ->
  alookup bytes name (g_partials G) = Some text ->
  parse text = ParseOk prog ->
  exec_prog G fuel (with_stmt (with_cur (set_all st1 n data) n) None) prog [] = OOk out st3 ->
  (forall ct, Ctx.value value VNil (sctx st3) n k_contentType <> VStr ct) ->
  (forall l, alookup value k_layout data <> Some (VStr l)) ->
  partial_call G (S fuel) st name data ctx =
  ROk (VHTML out, with_stmt (with_cur st3 (scur (set_all st1 n data))) (sstmt (set_all st1 n data))).
Proof. exact partial_inline. Qed.
Print Assumptions C17_partial_inline.

(* with a layout: what the partial rendered to is the layout's yield *)
Theorem C17_partial_layout : forall G fuel st name data ctx st1 n cfg text prog out st3 layout,
  cnew_of G st ctx = (st1, n) ->
  Ctx.value value VNil (sctx (set_all st1 n data)) n k_partialFeeder = VGo H_FEEDER cfg ->
  alookup bytes name (g_partials G) = Some text ->
  parse text = ParseOk prog ->
  exec_prog G fuel (with_stmt (with_cur (set_all st1 n data) n) None) prog [] = OOk out st3 ->
  (forall ct, Ctx.value value VNil (sctx st3) n k_contentType <> VStr ct) ->
  alookup value k_layout data = Some (VStr layout) ->
  partial_call G (S fuel) st name data ctx =
  partial_call G fuel (with_stmt (with_cur st3 (scur (set_all st1 n data))) (sstmt (set_all st1 n data)))
    layout [(k_yield, VHTML out)] n.
Proof. exact partial_layout. Qed.
Print Assumptions C17_partial_layout.

(* a partial whose text fails yields the error, never partial output *)
Theorem C17_partial_error : forall G fuel st name data ctx st1 n cfg text prog l e st3,
  cnew_of G st ctx = (st1, n) ->
  Ctx.value value VNil (sctx (set_all st1 n data)) n k_partialFeeder = VGo H_FEEDER cfg ->
  alookup bytes name (g_partials G) = Some text ->
  parse text = ParseOk prog ->
  exec_prog G fuel (with_stmt (with_cur (set_all st1 n data) n) None) prog [] = OErr l e st3 ->
  partial_call G (S fuel) st name data ctx =
  RErr (match e with EFail s => EFail s | EUnknown _ => EFail None end)
       (with_stmt (with_cur st3 (scur (set_all st1 n data))) (sstmt (set_all st1 n data))).
Proof. exact partial_error. Qed.

(* the premises are satisfiable: a partial rendered through the model, end to end *)
From Coq Require Import String.
From Plush Require Import model.Lexer model.Cases.
Local Open Scope string_scope.
Example C17_partial_renders_inline_text :
  match run_case [hx "7061727469616c"]
          (mkrcase (hx "413c253d207061727469616c282270222c207b77686f3a2022573c227d2920253e42")
                   [(hx "7061727469616c466565646572", DGo 14%N [])]
                   [(hx "70", hx "5b3c253d2077686f20253e5d")] (ObsOk []) []) with
  | OOk out _ => out = hx "415b57266c743b5d42"
  | _ => False
  end.
Proof. vm_compute. reflexivity. Qed.

(* data {who: nil} hides the outer who inside the partial; data that does not mention who does not *)
Example C17_nil_data_in_a_partial :
  match run_case [hx "7061727469616c"]
          (mkrcase (hx "3c25206c65742077686f203d20226f757465722220253e3c253d207061727469616c282270222c207b77686f3a206e696c7d2920253e7c3c253d207061727469616c282270222c207b783a206e696c7d2920253e")
                   [(hx "7061727469616c466565646572", DGo 14%N [])]
                   [(hx "70", hx "5b3c253d206966202877686f29207b20253e573c25207d20656c7365207b20253e2d3c25207d20253e5d")] (ObsOk []) []) with
  | OOk out _ => out = hx "5b2d5d7c5b575d"
  | _ => False
  end.
Proof. vm_compute. reflexivity. Qed.

(* ---- the known finding c17-control-in-helper-block, as a theorem about the faithful model ----
   a continue inside the block of a block helper (blk writes [ block ]) in a loop body: the block
   evaluates to the control value, its text (a1, a2) is lost and the loop never sees the continue;
   the same source inline keeps the text and ends each iteration at the continue *)
Theorem C17_control_in_helper_block_refuted :
  match run_case [] (mkrcase (hx "3c253d20666f722028782920696e205b312c20325d207b20253e5b3c253d20626c6b2829207b20253e613c253d207820253e3c2520636f6e74696e756520253e623c25207d20253e5d3c25207d20253e") [(hx "626c6b", DGo 103%N [])] [] (ObsOk []) []),
        run_case [] (mkrcase (hx "3c253d20666f722028782920696e205b312c20325d207b20253e5b613c253d207820253e3c2520636f6e74696e756520253e625d3c25207d20253e") [] [] (ObsOk []) []) with
  | OOk via_helper _, OOk inline _ => via_helper = hx "5b5b5d5d5b5b5d5d" /\ inline = hx "5b61315b6132"
  | _, _ => False
  end.
Proof. vm_compute. split; reflexivity. Qed.
