(* C17 - block helpers / contentOf receive exactly what the block renders to. Statements only.
   PARTIAL: the block-level statements are proved; the partial / layout statements
   (partial_call = render of the feeder's text in the child scope) are unfoldings of the
   model's definition and are checked against the real engine by the inline-twin harness. *)
From Plush Require Import model.Bytes model.Ast model.Value model.Eval proofs.EvalProofs.

(* BlockWith(ctx): the helper gets the sink applied to the value of the block
   evaluated in ctx - exactly what the same statements render to there - and the
   text is not escaped again (it is handed back as bytes, wrapped as HTML by the helper) *)
Theorem C17_block_with : forall G fuel st b ctx v st1,
  eval_block G fuel (with_cur st ctx) b = ROk (v, st1) -> printable (sheap st1) v = true ->
  block_with G (S fuel) st (Some b) ctx = ROk (write (sheap st1) v, with_cur st1 (scur st)).
Proof. exact block_with_ok. Qed.

Theorem C17_block_with_error : forall G fuel st b ctx e st1,
  eval_block G fuel (with_cur st ctx) b = RErr e st1 ->
  block_with G (S fuel) st (Some b) ctx = RErr e (with_cur st1 (scur st)).
Proof. exact block_with_error. Qed.

Theorem C17_no_block : forall G fuel st ctx, block_with G (S fuel) st None ctx = RErr (EFail None) st.
Proof. exact block_with_none. Qed.

Print Assumptions C17_block_with.
Print Assumptions C17_block_with_error.
