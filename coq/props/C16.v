(* C16 - user-defined functions. Statements only. *)
From Plush Require Import model.Bytes model.Ast model.Value model.Eval proofs.EvalProofs.

(* too few arguments: an error before anything is evaluated *)
Theorem C16_too_few : forall G fuel st ps body args,
  Nat.ltb (length args) (length ps) = true ->
  user_call G (S fuel) st ps body args = RErr (EFail None) st.
Proof. exact user_call_too_few. Qed.

(* the arguments are evaluated, left to right, in the CALLER's state and scope,
   before the callee scope exists; a failing argument fails the call *)
Theorem C16_arg_failure : forall G fuel st ps body args e st1,
  Nat.ltb (length args) (length ps) = false ->
  eval_list G fuel st (firstn (length ps) args) = RErr e st1 ->
  user_call G (S fuel) st ps body args = RErr e st1.
Proof. exact user_call_arg_failure. Qed.

(* then: a fresh child scope, every parameter bound to its argument VALUE, the
   body evaluated there, the caller's scope restored, and the call's value is
   the returned value (the return wrappers removed) *)
Theorem C16_call : forall G fuel st ps body args vals st0,
  Nat.ltb (length args) (length ps) = false ->
  eval_list G fuel st (firstn (length ps) args) = ROk (vals, st0) ->
  user_call G (S fuel) st ps body args =
    let '(st1, n) := cnew G st0 in
    rfinal (fun s => with_cur s (scur st0))
      (rbind (eval_block G fuel (set_all (with_cur st1 n) n (combine ps vals)) body)
             (fun xs => let '(r, st3) := xs in ROk (unwrap_ret 4000 r, st3))).
Proof. exact user_call_ok. Qed.

Theorem C16_unwrap_return : forall fuel acc v, (forall vs, v <> VRet vs) ->
  unwrap_ret (S (S fuel)) (VRet (acc ++ [VRet [v]])) = v.
Proof. exact unwrap_ret_return. Qed.

Theorem C16_unwrap_plain : forall fuel v, (forall vs, v <> VRet vs) -> unwrap_ret (S fuel) v = v.
Proof. exact unwrap_ret_value. Qed.

Print Assumptions C16_too_few.
Print Assumptions C16_arg_failure.
Print Assumptions C16_call.
Print Assumptions C16_unwrap_return.
