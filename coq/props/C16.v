(* C16 - user-defined functions. Statements only. *)
From Plush Require Import model.Bytes model.Ast model.Value model.Eval proofs.EvalProofs.

(* too few arguments: an error before anything is evaluated *)
Theorem C16_too_few : forall G fuel st ps body args,
  Nat.ltb (length args) (length ps) = true ->
  user_call G (S fuel) st ps body args = RErr (EFail None) st.
Proof. exact user_call_too_few. Qed.

(* the arguments are evaluated, left to right, in the CALLER's state and scope,
   before the callee scope exists; a failing argument fails the call *)
Theorem C16_arg_failure : forall G fuel st ps body args e st1,
  Nat.ltb (length args) (length ps) = false ->
  eval_list G fuel st (firstn (length ps) args) = RErr e st1 ->
  user_call G (S fuel) st ps body args = RErr e st1.
Proof. exact user_call_arg_failure. Qed.

(* then: a fresh child scope, every parameter bound to its argument VALUE, the
   body evaluated there, the caller's scope restored, and the call's value is
   the returned value (the return wrappers removed) *)
Theorem C16_call : forall G fuel st ps body args vals st0,
  Nat.ltb (length args) (length ps) = false ->
  eval_list G fuel st (firstn (length ps) args) = ROk (vals, st0) ->
  user_call G (S fuel) st ps body args =
    let '(st1, n) := cnew G st0 in
    rfinal (fun s => with_cur s (scur st0))
      (rbind (eval_block G fuel (set_all (with_cur st1 n) n (combine ps vals)) body)
             (fun xs => let '(r, st3) := xs in ROk (unwrap_ret 4000 r, st3))).
Proof. exact user_call_ok. Qed.

Theorem C16_unwrap_return : forall fuel acc v, (forall vs, v <> VRet vs) ->
  unwrap_ret (S (S fuel)) (VRet (acc ++ [VRet [v]])) = v.
Proof. exact unwrap_ret_return. Qed.

Theorem C16_unwrap_plain : forall fuel v, (forall vs, v <> VRet vs) -> unwrap_ret (S fuel) v = v.
Proof. exact unwrap_ret_value. Qed.

(* the first return reached ends the body: everything after it is skipped *)
Theorem C16_return_skips_the_rest : forall G fuel st s rest acc vs st1,
  eval_stmt G fuel st s = ROk (VRet vs, st1) ->
  eval_stmts G (S fuel) st (s :: rest) acc = ROk (VRet (acc ++ [VRet vs]), st1).
Proof. exact block_return_skips_rest. Qed.
Print Assumptions C16_return_skips_the_rest.

Print Assumptions C16_too_few.
Print Assumptions C16_arg_failure.
Print Assumptions C16_call.
Print Assumptions C16_unwrap_return.

(* ---- the known finding c16-return-inside-loop, as a theorem about the faithful model ----
   fn() { for (x) in [1,2,3] { if (x == 2) { return x } } return 9 }  called once:
   the return reached inside the loop does not end the function; the call yields 9, not 2 *)
From Coq Require Import String.
From Plush Require Import model.Lexer model.Parser model.Cases.
Local Open Scope string_scope.
Theorem C16_return_inside_loop_refuted :
  match run_case [] (mkrcase (hx "3c25206c65742066203d20666e2829207b20666f722028782920696e205b312c322c335d207b206966202878203d3d203229207b2072657475726e2078207d207d2072657475726e2039207d20253e3c253d2066282920253e") [] [] (ObsOk []) []) with
  | OOk out _ => out = hx "39"
  | _ => False
  end.
Proof. vm_compute. reflexivity. Qed.
Print Assumptions C16_return_inside_loop_refuted.
