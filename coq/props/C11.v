(* C11 - path access returns exactly what Go navigation would, or fails; never
   another.  Statements only (proofs in proofs/EvalProofs.v), plus the
   machine-checked witness of the known finding c11-method-after-index. *)
From Coq Require Import String ZArith.
From Plush Require Import model.Bytes model.Ctx model.Lexer model.Ast model.Parser model.Value model.Eval model.Cases
  proofs.EvalProofs.

(* a variable is the value bound to exactly that name *)
Theorem C11_variable : forall G fuel st n, Ctx.has value VNil is_nil (sctx st) (scur st) n = true ->
  eval_chain G (S fuel) st [n] = ROk (Ctx.value value VNil (sctx st) (scur st) n, st).
Proof. exact path_variable. Qed.

(* field selection: exactly the field of that name of the value the prefix of
   the path denotes (through a pointer or not); paths are kept last-first *)
Theorem C11_field : forall G fuel st n m rest c st1 tn fs fv,
  eval_chain G fuel st (m :: rest) = ROk (c, st1) -> deref c = VStruct tn fs ->
  field_of fs n = Some fv -> plain_field fv -> exported n = true ->
  eval_chain G (S fuel) st (n :: m :: rest) = ROk (fv, st1).
Proof. exact path_field. Qed.
Theorem C11_pointer_field_followed : forall G fuel st n m rest c st1 tn fs x,
  eval_chain G fuel st (m :: rest) = ROk (c, st1) -> deref c = VStruct tn fs ->
  field_of fs n = Some (VPtr x) -> exported n = true ->
  eval_chain G (S fuel) st (n :: m :: rest) = ROk (x, st1).
Proof. exact path_pointer_field. Qed.
Theorem C11_nil_pointer_field_is_nil : forall G fuel st n m rest c st1 tn fs tn',
  eval_chain G fuel st (m :: rest) = ROk (c, st1) -> deref c = VStruct tn fs ->
  field_of fs n = Some (VNilPtr tn') ->
  eval_chain G (S fuel) st (n :: m :: rest) = ROk (VNil, st1).
Proof. exact path_nil_pointer_field. Qed.
Theorem C11_unknown_member_is_error : forall G fuel st n m rest c st1 tn fs,
  eval_chain G fuel st (m :: rest) = ROk (c, st1) -> deref c = VStruct tn fs ->
  field_of fs n = None -> (forall id, find_method (g_methods G tn) n <> Some (false, id)) ->
  eval_chain G (S fuel) st (n :: m :: rest) = RErr (EFail None) st1.
Proof. exact path_unknown_member. Qed.
Theorem C11_unexported_member_is_error : forall G fuel st n m rest c st1 tn fs fv,
  eval_chain G fuel st (m :: rest) = ROk (c, st1) -> deref c = VStruct tn fs ->
  field_of fs n = Some fv -> (forall tn', fv <> VNilPtr tn') -> exported n = false ->
  eval_chain G (S fuel) st (n :: m :: rest) = RErr (EFail None) st1.
Proof. exact path_unexported_member. Qed.
Theorem C11_prefix_failure : forall G fuel st n m rest e st1,
  eval_chain G fuel st (m :: rest) = RErr e st1 ->
  eval_chain G (S fuel) st (n :: m :: rest) = RErr e st1.
Proof. exact path_prefix_failure. Qed.
Print Assumptions C11_field.

(* indexing: exactly the element at that position, and outside the bounds an
   error - never another element *)
Theorem C11_list_index_in_range : forall G fuel st l i z st1 es st2 x,
  eval G fuel st i = ROk (VInt z, st1) -> eval G fuel st1 l = ROk (VList es, st2) ->
  nth_error es (Z.to_nat z) = Some x -> (0 <= z)%Z ->
  eval_index G (S fuel) st l i ENil ENil = ROk (x, st2).
Proof. exact index_list_in_range. Qed.
Theorem C11_list_index_out_of_range : forall G fuel st l i z st1 es st2 callee,
  eval G fuel st i = ROk (VInt z, st1) -> eval G fuel st1 l = ROk (VList es, st2) ->
  (z < 0 \/ Z.of_nat (length es) <= z)%Z ->
  eval_index G (S fuel) st l i ENil callee = RErr (EFail None) st2.
Proof. exact index_list_out_of_range. Qed.
Theorem C11_slice_index_in_range : forall G fuel st l i z st1 loc ety es st2 x,
  eval G fuel st i = ROk (VInt z, st1) -> eval G fuel st1 l = ROk (VSlice loc, st2) ->
  hget (sheap st2) loc = Some (HSlice ety es) ->
  nth_error es (Z.to_nat z) = Some x -> (0 <= z)%Z ->
  eval_index G (S fuel) st l i ENil ENil = ROk (x, st2).
Proof. exact index_slice_in_range. Qed.
Theorem C11_slice_index_out_of_range : forall G fuel st l i z st1 loc ety es st2 callee,
  eval G fuel st i = ROk (VInt z, st1) -> eval G fuel st1 l = ROk (VSlice loc, st2) ->
  hget (sheap st2) loc = Some (HSlice ety es) ->
  (z < 0 \/ Z.of_nat (length es) <= z)%Z ->
  eval_index G (S fuel) st l i ENil callee = RErr (EFail None) st2.
Proof. exact index_slice_out_of_range. Qed.
Theorem C11_map_lookup : forall G fuel st l i k st1 loc vty kvs st2,
  eval G fuel st i = ROk (VStr k, st1) -> eval G fuel st1 l = ROk (VMap loc, st2) ->
  hget (sheap st2) loc = Some (HMap TyString vty kvs) ->
  eval_index G (S fuel) st l i ENil ENil =
  ROk (match vlookup (VStr k) kvs with Some x => x | None => VNil end, st2).
Proof. exact index_map_string_key. Qed.
Theorem C11_not_indexable_is_error : forall G fuel st l i iv st1 lv st2 callee,
  eval G fuel st i = ROk (iv, st1) -> eval G fuel st1 l = ROk (lv, st2) ->
  (forall loc, lv <> VMap loc) -> (forall loc, lv <> VSlice loc) -> (forall vs, lv <> VList vs) ->
  eval_index G (S fuel) st l i ENil callee = RErr (EFail None) st2.
Proof. exact index_not_indexable. Qed.
Print Assumptions C11_slice_index_in_range.

(* ---- the known finding, as a theorem about the faithful model ----
   o is a T1 struct with a field In (a T0) and a field Ins (a slice of T0); T0
   has the value method Hello.  The element o.Ins[0] is reachable and the
   method works on the field o.In, but the same method on the indexed element
   fails with  o.Ins: unknown identifier  (the callee of the call is rebuilt
   from the printed left-hand side and looked up as one variable).  In Go the
   navigation succeeds, so the full statement of C11 is false of the code. *)
Local Open Scope string_scope.
Definition o_desc : vdesc :=
  DStruct (hx "5431") [((hx "4e616d65"), (DStr (hx "6f"))); ((hx "496e"), (DStruct (hx "5430") [((hx "4e616d65"), (DStr (hx "6f2e496e")))]));
    ((hx "496e73"), (DSlice (TyStruct tn_T0) [(DStruct (hx "5430") [((hx "4e616d65"), (DStr (hx "6f2e496e735b305d")))]);
                                              (DStruct (hx "5430") [((hx "4e616d65"), (DStr (hx "6f2e496e735b315d")))])]))].
Definition c11_case (t : bytes) : rcase := mkrcase t [((hx "6f"), o_desc)] [] (ObsOk []) [].
Definition out_of (o : outcome) : option bytes := match o with OOk b _ => Some b | _ => None end.
Definition unknown_of (o : outcome) : option bytes := match o with OErr _ (EUnknown n) _ => Some n | _ => None end.

Theorem C11_method_after_index :
  (* <%= o.Ins[0].Name %>  prints  o.Ins[0] *)
  out_of (run_case [] (c11_case (hx "3c253d206f2e496e735b305d2e4e616d6520253e"))) = Some (hx "6f2e496e735b305d") /\
  (* <%= o.In.Hello("z") %>  prints  hello z from o.In *)
  out_of (run_case [] (c11_case (hx "3c253d206f2e496e2e48656c6c6f28227a222920253e"))) = Some (hx "68656c6c6f207a2066726f6d206f2e496e") /\
  (* <%= o.Ins[0].Hello("z") %>  prints  hello z from o.Ins[0]  (it failed with o.Ins: unknown identifier
     until evalIndexCallee took the rebinding key from the parser's placeholder: fix 2026-10-01) *)
  out_of (run_case [] (c11_case (hx "3c253d206f2e496e735b305d2e48656c6c6f28227a222920253e"))) = Some (hx "68656c6c6f207a2066726f6d206f2e496e735b305d").
Proof. vm_compute. repeat split. Qed.
Print Assumptions C11_method_after_index.
