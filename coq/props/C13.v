(* C13 - rendering is a deterministic function of template and data; templates
   are immutable.  Statements only. *)
From Coq Require Import String.
From Plush Require Import model.Bytes model.Lexer model.Ast model.Parser model.Value model.Eval model.Cache
  model.Expected gen.Tables proofs.TablesAgree proofs.EvalProofs proofs.CacheProofs.

(* every history of package-level operations - switching the cache on and off,
   Render, Parse followed by any number of Exec on the same template, Clone -
   starting from an empty cache: each operation returns exactly what the pure
   function [render] returns for its template text and data, so equal
   inputs give equal results whatever happened before *)
Theorem C13_history_refines_pure_function : forall G fuel ops on,
  run G fuel (mkcache on []) ops = map (spec_of G fuel) ops.
Proof. exact history_deterministic. Qed.
Print Assumptions C13_history_refines_pure_function.

(* the invariant behind it, from any cache state in which every entry holds
   the parse of its own key *)
Theorem C13_history_refines_from_invariant : forall G fuel ops c,
  Inv c -> run G fuel c ops = map (spec_of G fuel) ops.
Proof. exact history_refines. Qed.

(* executing a template never changes its parsed program *)
Theorem C13_exec_keeps_program : forall G fuel t st p,
  t_prog t = Some p -> t_prog (fst (t_exec G fuel t st)) = Some p.
Proof. exact exec_keeps_program. Qed.
Print Assumptions C13_exec_keeps_program.

(* the Go functions the cache model transcribes are, statement for statement,
   the ones it was written against (regenerated from plush.go and template.go) *)
Theorem C13_cache_code_is_the_modelled_one :
  body_plush_Parse = exp_body_plush_Parse /\ body_plush_Render = exp_body_plush_Render /\
  body_NewTemplate = exp_body_NewTemplate /\ body_Template_Parse = exp_body_Template_Parse /\
  body_Template_Exec = exp_body_Template_Exec /\ body_Template_Clone = exp_body_Template_Clone.
Proof.
  exact (conj agree_body_plush_Parse (conj agree_body_plush_Render (conj agree_body_NewTemplate
        (conj agree_body_Template_Parse (conj agree_body_Template_Exec agree_body_Template_Clone))))).
Qed.

(* a hash literal is evaluated in source order (not in Go map order): first
   pair first, each in the state the previous one left *)
Theorem C13_hash_pairs_in_source_order : forall G fuel st k ve rest acc v st1,
  eval G fuel st ve = ROk (v, st1) ->
  eval_pairs G (S fuel) st ((k, ve) :: rest) acc =
  eval_pairs G fuel st1 rest (vupdate (VStr (expr_lit k)) v acc).
Proof. exact hash_pairs_in_source_order. Qed.
Theorem C13_hash_pairs_stop_at_first_failure : forall G fuel st k ve rest acc e st1,
  eval G fuel st ve = RErr e st1 ->
  eval_pairs G (S fuel) st ((k, ve) :: rest) acc = RErr e st1.
Proof. exact hash_pairs_stop_at_first_failure. Qed.
Print Assumptions C13_hash_pairs_in_source_order.

(* the places where the Go code iterates over a Go map are exactly the known
   ones: copying context data (order-insensitive) and the for loop over a map
   (the licensed variation).  The list is regenerated from the sources. *)
Theorem C13_map_iteration_sites : map_range_sites = exp_map_range_sites.
Proof. exact agree_map_range_sites. Qed.
Theorem C13_no_map_iteration_in_hash_literal :
  forallb (fun s => negb (String.eqb s "evalHashLiteral: range node.Pairs"%string)) map_range_sites = true.
Proof. vm_compute. reflexivity. Qed.
Print Assumptions C13_map_iteration_sites.
