(* C19 - iterator and collection helpers. Statements only. *)
From Coq Require Import ZArith.
From Plush Require Import model.Bytes model.Iter proofs.IterProofs.
Open Scope Z_scope.

(* range(a,b) yields a..b inclusive and then stops - for all in-range a, b
   except a = minint (known finding F13, refuted below) *)
Theorem C19_range_seq : forall a b cap, in_int a -> in_int b -> minint < a ->
  (Z.to_nat (b - a + 1) <= cap)%nat ->
  ryield cap (range_ a b) = (zseq a (Z.to_nat (b - a + 1)), true).
Proof. exact range_seq. Qed.

(* between(a,b) yields a+1..b-1 - except b = minint *)
Theorem C19_between_seq : forall a b cap, in_int a -> in_int b -> minint < b ->
  (Z.to_nat (b - 1 - a) <= cap)%nat ->
  ryield cap (between_ a b) = (zseq (a + 1) (Z.to_nat (b - 1 - a)), true).
Proof. exact between_seq. Qed.

(* until(n) yields 0..n-1 - except n = minint *)
Theorem C19_until_seq : forall n cap, in_int n -> minint < n ->
  (Z.to_nat n <= cap)%nat ->
  ryield cap (until_ n) = (zseq 0 (Z.to_nat n), true).
Proof. exact until_seq. Qed.

(* closed form of the n-th Next() and termination, for every ranger state *)
Theorem C19_rcalls_closed : forall n p e, in_int p -> in_int e ->
  rcalls n (mkranger p e) = (map (nth_result p e) (seq 0 n), state_after p e n).
Proof. exact rcalls_closed. Qed.

Theorem C19_ranger_terminates : forall p e k, in_int p -> in_int e ->
  (Z.to_nat (e - p) <= k)%nat ->
  fst (rnext (snd (rcalls k (mkranger p e)))) = None.
Proof. exact ranger_terminates. Qed.

(* the full statement is FALSE at minint: witnesses (F13, known findings) *)
Theorem C19_range_minint_refuted :
  ryield 10 (range_ minint (minint + 2)) = ([], true) /\ zseq minint 3 <> [].
Proof. exact range_minint_refuted. Qed.
Theorem C19_until_minint_refuted :
  exists xs, ryield 3 (until_ minint) = (xs, false) /\ xs = [0; 1; 2].
Proof. exact until_minint_refuted. Qed.
Theorem C19_between_minint_refuted :
  exists xs, ryield 3 (between_ 5 minint) = (xs, false) /\ xs = [6; 7; 8].
Proof. exact between_minint_refuted. Qed.

(* groupBy: a partition into at most n consecutive groups *)
Theorem C19_groupBy_partition : forall (A : Type) (n : Z) (xs : list A), 0 < n ->
  exists gs, group_by n xs = Some gs /\
    concat gs = xs /\
    Z.of_nat (length gs) <= n /\
    (exists size, sizes_ok size gs) /\
    (xs <> [] -> Forall (fun g => g <> []) gs).
Proof. exact @groupBy_partition. Qed.

Theorem C19_groupBy_err : forall (A : Type) (n : Z) (xs : list A), n <= 0 -> group_by n xs = None.
Proof. exact @groupBy_err. Qed.

Theorem C19_len_spec : forall a, collection_or_ptr a ->
  exists n, len_model a = LenOk n /\
            (go_length a = Some n \/ exists x, a = LPtr x /\ go_length x = Some n).
Proof. exact len_spec. Qed.

(* len is total: no argument makes it panic *)
Theorem C19_len_total : forall a, exists n, len_model a = LenOk n.
Proof. exact len_total. Qed.

Example C19_example_range : ryield 64 (range_ 3 6) = ([3; 4; 5; 6], true).
Proof. vm_compute. reflexivity. Qed.
Example C19_example_maxint : ryield 10 (range_ (maxint - 2) maxint) = ([maxint - 2; maxint - 1; maxint], true).
Proof. exact range_to_maxint. Qed.
Example C19_example_group : group_by 2 [1;2;3;4;5] = Some [[1;2;3];[4;5]].
Proof. exact groupBy_example. Qed.

Print Assumptions C19_range_seq.
Print Assumptions C19_between_seq.
Print Assumptions C19_until_seq.
Print Assumptions C19_rcalls_closed.
Print Assumptions C19_ranger_terminates.
Print Assumptions C19_groupBy_partition.
Print Assumptions C19_groupBy_err.
Print Assumptions C19_len_spec.
Print Assumptions C19_len_total.
