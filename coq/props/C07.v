(* C07 - first truthy branch; uniform truthiness. Statements only. *)
From Plush Require Import model.Bytes model.Ast model.Value model.Eval proofs.EvalProofs.

(* exactly nil, false, the empty string, empty HTML and nil pointers are falsy *)
Theorem C07_truthy_classification : forall v,
  truthy v = false <->
  (v = VNil \/ v = VBool false \/ v = VStr [] \/ v = VHTML [] \/ exists tn, v = VNilPtr tn).
Proof. exact truthy_classification. Qed.

(* a truthy condition: exactly its block is evaluated, in the state the
   condition left; the remaining conditions and blocks do not occur in the result *)
Theorem C07_if_chain_true : forall G fuel st c b rest els cv st1,
  eval G fuel st c = ROk (cv, st1) -> truthy cv = true ->
  eval_if G (S fuel) st ((c, b) :: rest) els = eval_block G fuel st1 b.
Proof. exact if_chain_true. Qed.

Theorem C07_if_chain_false : forall G fuel st c b rest els cv st1,
  eval G fuel st c = ROk (cv, st1) -> truthy cv = false ->
  eval_if G (S fuel) st ((c, b) :: rest) els = eval_if G fuel st1 rest els.
Proof. exact if_chain_false. Qed.

(* an unknown identifier as a condition is falsy, anywhere in the chain *)
Theorem C07_if_chain_unknown : forall G fuel st c b rest els n st1,
  eval G fuel st c = RErr (EUnknown n) st1 ->
  eval_if G (S fuel) st ((c, b) :: rest) els = eval_if G fuel (with_stmt st1 (sstmt st)) rest els.
Proof. exact if_chain_unknown. Qed.

Theorem C07_if_chain_end : forall G fuel st els,
  eval_if G (S fuel) st [] els =
  match els with Some b => eval_block G fuel st b | None => ROk (VNil, st) end.
Proof. exact if_chain_end. Qed.

(* the same truth value under ! (and an unknown identifier is falsy there too) *)
Theorem C07_bang : forall G fuel st lit e v st1,
  eval G fuel st e = ROk (v, st1) ->
  eval G (S fuel) st (EPrefix lit [33%N] e) = ROk (VBool (negb (truthy v)), st1).
Proof. exact bang_uses_truthy. Qed.

Theorem C07_bang_unknown : forall G fuel st lit e n st1,
  eval G fuel st e = RErr (EUnknown n) st1 ->
  eval G (S fuel) st (EPrefix lit [33%N] e) = ROk (VBool true, with_stmt st1 (sstmt st)).
Proof. exact bang_unknown_is_true. Qed.

(* && and || decide by the same truth value and short-circuit *)
Theorem C07_and_short_circuit : forall G fuel st l r lv st1,
  eval G fuel st l = ROk (lv, st1) -> truthy lv = false ->
  eval_infix G (S fuel) st o_and l r = ROk (VBool false, st1).
Proof. exact and_short_circuit. Qed.

Theorem C07_or_short_circuit : forall G fuel st l r lv st1,
  eval G fuel st l = ROk (lv, st1) -> truthy lv = true ->
  eval_infix G (S fuel) st o_or l r = ROk (VBool true, st1).
Proof. exact or_short_circuit. Qed.

Theorem C07_and_right : forall G fuel st l r lv st1 rv st2,
  eval G fuel st l = ROk (lv, st1) -> truthy lv = true -> eval G fuel st1 r = ROk (rv, st2) ->
  eval_infix G (S fuel) st o_and l r = ROk (VBool (truthy rv), st2).
Proof. exact and_right_truthy. Qed.

Theorem C07_or_right : forall G fuel st l r lv st1 rv st2,
  eval G fuel st l = ROk (lv, st1) -> truthy lv = false -> eval G fuel st1 r = ROk (rv, st2) ->
  eval_infix G (S fuel) st o_or l r = ROk (VBool (truthy rv), st2).
Proof. exact or_right_truthy. Qed.

Print Assumptions C07_truthy_classification.
Print Assumptions C07_if_chain_true.
Print Assumptions C07_if_chain_false.
Print Assumptions C07_if_chain_unknown.
Print Assumptions C07_bang.
Print Assumptions C07_and_short_circuit.
Print Assumptions C07_or_right.
