(* C03 - parsing is total.  Statements only. *)
From Plush Require Import model.Bytes model.Lexer model.Ast model.Parser model.Value model.Eval
  proofs.LexerProofs proofs.ParserTotal proofs.ParseTotal proofs.EvalProofs.

(* the lexer turns every byte string into a token list: the model's fuel
   (length + 2 calls of NextToken) never runs out, because every call consumes
   at least one byte or returns the final EOF *)
Theorem C03_lex_total : forall s, exists ts, lex s = Some ts.
Proof. exact lex_total. Qed.
Print Assumptions C03_lex_total.

(* one call of NextToken makes progress (the invariant behind the theorem) *)
Theorem C03_next_token_progress : forall fuel l t l', (length (lrest l) < fuel)%nat ->
  next_token fuel l = (t, l') ->
  (length (lrest l') < length (lrest l))%nat \/ (tk t = EOF /\ (at_end l' || negb (linside l)) = true).
Proof. exact next_token_progress. Qed.

(* the parser terminates on every token list that ends in EOF: the depth of the
   recursive descent is at most 24 * (number of tokens) + 24, the model's fuel *)
Theorem C03_parser_total : forall ts, tokens_ok ts -> parse_tokens ts <> ParseFuel.
Proof. exact parse_tokens_total. Qed.
Print Assumptions C03_parser_total.

(* Parse as a whole: for every input text, a program or a list of syntax
   errors - never out of fuel (the model's only other outcome) *)
Theorem C03_parse_total : forall s,
  (exists prog, parse s = ParseOk prog) \/ (exists ls, parse s = ParseErr ls).
Proof. exact parse_total_cases. Qed.
Print Assumptions C03_parse_total.

(* rendering never panics, for any input text: no function of the model
   evaluator returns RPanic, and the parser has no panic outcome at all *)
Theorem C03_render_no_panic : forall G fuel st input site, render G fuel st input <> OPanic site.
Proof. exact render_no_panic. Qed.
Print Assumptions C03_render_no_panic.
