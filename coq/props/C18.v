(* C18 - layout inside code tags is insignificant.  Statements only.
   Proved at the lexer, where layout is consumed, for all inputs; the
   re-synchronisation of the parser on tag boundaries is exercised by the
   correspondence check (see the level note). *)
From Plush Require Import model.Bytes model.Lexer proofs.LexerProofs proofs.LexerEquiv.

(* in code mode the next token (kind and literal) and the state after it depend
   on nothing but the bytes that remain: not on the line, not on what was
   consumed before *)
Theorem C18_token_depends_on_remaining_bytes_only : forall fuel l l',
  lrest l' = lrest l -> linside l = true -> linside l' = true ->
  Rres L_any (next_inside fuel l) (next_inside fuel l').
Proof. exact next_inside_layout. Qed.
Print Assumptions C18_token_depends_on_remaining_bytes_only.

(* inserting any run of spaces, tabs, newlines and carriage returns in front
   of a token changes neither the token nor the state after it *)
Theorem C18_whitespace_insertion : forall fuel l l' w,
  forallb is_ws w = true -> lrest l' = w ++ lrest l -> (2 <= length (lrest l))%nat ->
  linside l = true -> linside l' = true ->
  Rres L_any (next_inside fuel l) (next_inside fuel l').
Proof. exact whitespace_insertion. Qed.
Print Assumptions C18_whitespace_insertion.

(* ... and so does a # comment: it is skipped to the end of its line and the
   token returned is the one that follows *)
Theorem C18_line_comment_skipped : forall f l c r1,
  ch (skip_ws l) = 35%N -> lrest (skip_ws l) = c :: r1 ->
  next_inside (S f) l = next_inside f (advn (S (at_cmt r1)) (skip_ws l)).
Proof. exact line_comment_skipped. Qed.
Theorem C18_comment_extent : forall s r, (forall c, In c s -> c <> 10%N /\ c <> 13%N /\ c <> 0%N) ->
  at_cmt (s ++ 10%N :: r) = length s.
Proof. exact comment_extent. Qed.

(* the same for whole streams: equal remaining bytes give token streams equal
   in everything but lines *)
Theorem C18_streams_agree : forall fuel l l', R L_any l l' -> Ropt L_any (lex_all fuel l) (lex_all fuel l').
Proof. intros fuel l l'. exact (R_lex_all L_any L_any_S fuel l l'). Qed.
Print Assumptions C18_streams_agree.

(* ---- the known finding c18-comment-tag-with-quote, as a theorem about the faithful model ----
   the template  a, comment tag holding the words say and hi with one double quote before hi,
   b, output tag n, c  (bytes below) with n = 3 renders just the letter a, not ab3c: the quote
   inside the comment tag is lexed as the start of a string literal that runs to the end *)
From Coq Require Import String.
From Plush Require Import model.Ast model.Parser model.Value model.Eval model.Cases.
Local Open Scope string_scope.
Theorem C18_comment_tag_with_quote_refuted :
  match run_case [] (mkrcase (hx "613c2523207361792022686920253e623c253d206e20253e63") [((hx "6e"), DInt 3%Z)] [] (ObsOk []) []) with
  | OOk out _ => out = hx "61"
  | _ => False
  end.
Proof. vm_compute. reflexivity. Qed.
Print Assumptions C18_comment_tag_with_quote_refuted.
