(* C02 - output = literal text verbatim + values of output tags, in source order.
   Statements only; the proofs are in proofs/LexerProofs.v, proofs/RenderProofs.v
   and proofs/EvalProofs.v. *)
From Plush Require Import model.Bytes model.Lexer model.Ast model.Parser model.Value model.Eval
  proofs.LexerProofs proofs.RenderProofs proofs.EvalProofs.

(* a template without tags (and without NUL, which the lexer treats as the end
   of the input) renders to itself: through the lexer, the parser and the
   evaluator, for every text, every helper environment and every state *)
Theorem C02_no_tags_renders_to_itself : forall G fuel st s, no_nul s -> no_tag s ->
  exists st', render G (S (S fuel)) st s = OOk s st'.
Proof. exact render_no_tag. Qed.
Print Assumptions C02_no_tags_renders_to_itself.

(* the text scanner copies a tag-free segment byte for byte, consumes all of it
   and stays in text mode *)
Theorem C02_text_token_verbatim : forall l, no_nul (lrest l) -> no_tag (lrest l) ->
  fst (read_html l) = lrest l /\ lrest (snd (read_html l)) = [] /\ linside (snd (read_html l)) = linside l.
Proof. exact read_html_no_tag. Qed.
Print Assumptions C02_text_token_verbatim.

(* the two escapes *)
Theorem C02_escape_is_literal_tag_open : forall prev r, N.eqb prev 92 = false ->
  scan_html prev (92 :: 60 :: 37 :: r)%N =
  (let '(t, k, e) := scan_html 37 r in ((92 :: 60 :: 37 :: t)%N, (3 + k)%nat, e)).
Proof. exact scan_html_escape. Qed.
Theorem C02_escape_replaced : forall t, replace_esc_tag (92 :: 60 :: 37 :: t)%N = (60 :: 37 :: replace_esc_tag t)%N.
Proof. exact replace_esc_tag_escape. Qed.
Theorem C02_double_escape_live_tag : forall r, scan_html 92 (92 :: 60 :: 37 :: r)%N = ([], 1%nat, true).
Proof. exact scan_html_double_escape. Qed.
Print Assumptions C02_escape_is_literal_tag_open.

(* string literals: the scanner stops at the closing quote whatever lies
   between the quotes, and the literal denotes exactly those characters *)
Theorem C02_string_scanned_to_closing_quote : forall s r, plain_str s ->
  at_str (enc_dq s ++ 34%N :: r) = (enc_dq s, length (enc_dq s)).
Proof. exact at_str_enc. Qed.
Theorem C02_string_denotes_its_characters : forall s, plain_str s -> replace_esc_quote (enc_dq s) = s.
Proof. exact unescape_enc. Qed.
Theorem C02_backquoted_string_raw : forall s r, (forall c, In c s -> c <> 0%N /\ c <> 96%N) ->
  at_bstr (s ++ 96%N :: r) = (s, length s).
Proof. exact at_bstr_raw. Qed.
Print Assumptions C02_string_scanned_to_closing_quote.

(* what each kind of top-level statement contributes, in source order:
   text is appended verbatim ... *)
Theorem C02_text_statement : forall G fuel st t lit s rest out,
  exec_prog G (S fuel) st (SExpr t (EHtml lit s) :: rest) out =
  exec_prog G fuel (with_stmt st None) rest (out ++ s).
Proof. exact exec_text. Qed.
(* ... an output tag appends the printed form of its value ... *)
Theorem C02_output_tag : forall G fuel st t e rest out v st1,
  eval G fuel (with_stmt st None) e = ROk (v, st1) -> printable (sheap st1) v = true ->
  exec_prog G (S fuel) st (SRet t true e :: rest) out =
  exec_prog G fuel st1 rest (out ++ write (sheap st1) v).
Proof. exact exec_output_tag. Qed.
(* ... a code tag appends nothing, whatever the value of its expression ... *)
Theorem C02_code_tag_silent : forall G fuel st t e rest out v st1,
  (forall lit s, e <> EHtml lit s) ->
  eval G fuel (with_stmt st None) e = ROk (v, st1) ->
  exec_prog G (S fuel) st (SExpr t e :: rest) out = exec_prog G fuel st1 rest out.
Proof. exact exec_silent_expr. Qed.
(* ... and neither does a let *)
Theorem C02_let_silent : forall G fuel st t name e rest out v st1,
  eval G fuel (with_stmt st None) e = ROk (v, st1) ->
  exists st2, exec_prog G (S fuel) st (SLet t name e :: rest) out = exec_prog G fuel st2 rest out
              /\ sheap st2 = sheap st1.
Proof. exact exec_silent_let. Qed.
Print Assumptions C02_code_tag_silent.

(* non-vacuity: a text with every special byte but no tag opener *)
Example C02_premises_hold : no_nul [92; 60; 32; 37; 62; 34; 10; 195; 169]%N /\ no_tag [92; 60; 32; 37; 62; 34; 10; 195; 169]%N.
Proof. split; [intros c Hc; simpl in Hc; repeat (destruct Hc as [<-|Hc]; [discriminate|]); contradiction|reflexivity]. Qed.
