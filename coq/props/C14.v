(* C14 - the locking discipline of contexts and the template cache (the part
   of the property that is logic; the runtime part is the -race harness). *)
From Coq Require Import List Bool String.
Import ListNotations.
From Plush Require Import model.Conc proofs.ConcProofs gen.Tables.
Open Scope string_scope.

(* operations the property allows to run concurrently: Set/Value (Has and New
   are compositions of these two), Parse/Render and CacheSet; plus the
   unlocked readers of the helper map used by New *)
Definition api_ops : list string :=
  ["Context.Set"; "Context.Value"; "Parse"; "CacheSet"; "HelperMap.All"; "HelperMap.Helpers"].

(* the programs are built from the table the translator extracted from
   /repo on this run *)
Definition api_progs : option (list (list instr)) := progs_of access_table api_ops.

Theorem C14_plush_lockset_ok :
  exists ps, api_progs = Some ps /\ lockset_ok ps = true.
Proof. eexists. split; vm_compute; reflexivity. Qed.

(* for any number of threads, each running any of these operations, under
   every schedule: no data race on the modelled locations *)
Theorem C14_no_race : forall ps (prog : nat -> list instr),
  api_progs = Some ps ->
  (forall i, In (prog i) ps \/ prog i = []) ->
  forall s, reach (init prog) s -> ~ race s.
Proof.
  intros ps prog Hps Hprog s.
  destruct C14_plush_lockset_ok as [ps' [E Hok]]. rewrite Hps in E. inversion E; subst ps'.
  exact (lockset_sound ps prog Hprog Hok s).
Qed.

(* the check has teeth: without the lock in Value the table is rejected *)
Example C14_unlocked_value_rejected :
  lockset_ok [prog_of [("Context.data", true, ["Context.moot"])];
              prog_of [("Context.data", false, [])]] = false.
Proof. vm_compute. reflexivity. Qed.

Print Assumptions C14_plush_lockset_ok.
Print Assumptions C14_no_race.
