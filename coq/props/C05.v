(* C05 - no silent failure. Statements only. *)
From Plush Require Import model.Bytes model.Ast model.Value model.Eval proofs.EvalProofs proofs.QuietProofs.

(* the tolerant sites (!, ==, !=, &&, ||, if / else-if conditions) let exactly one
   kind of error through: an unwrapped unknown identifier *)
Theorem C05_tolerate_spec : forall b o r,
  tolerate b o r =
  match r with
  | RErr (EUnknown n) s => if b then ROk (VNil, with_stmt s o) else RErr (EUnknown n) s
  | x => x
  end.
Proof. exact tolerate_spec. Qed.

(* a failing operand (helper error, operation error) fails the expression under
   EVERY operator, including == != && || *)
Theorem C05_infix_left_failure : forall G fuel st op l r k st1,
  eval G fuel st l = RErr (EFail k) st1 ->
  eval_infix G (S fuel) st op l r = RErr (EFail k) st1.
Proof. exact infix_left_failure. Qed.

Theorem C05_infix_right_failure : forall G fuel st op l r lv st1 k st2,
  eval G fuel st l = ROk (lv, st1) ->
  (op_is op o_and && negb (truthy lv) = false)%bool -> (op_is op o_or && truthy lv = false)%bool ->
  eval G fuel st1 r = RErr (EFail k) st2 ->
  eval_infix G (S fuel) st op l r = RErr (EFail k) st2.
Proof. exact infix_right_failure. Qed.

Theorem C05_bang_failure : forall G fuel st lit op e k st1,
  eval G fuel st e = RErr (EFail k) st1 ->
  eval G (S fuel) st (EPrefix lit op e) = RErr (EFail k) st1.
Proof. exact bang_failure. Qed.

Theorem C05_condition_failure : forall G fuel st c b rest els k st1,
  eval G fuel st c = RErr (EFail k) st1 ->
  eval_if G (S fuel) st ((c, b) :: rest) els = RErr (EFail k) st1.
Proof. exact if_chain_error. Qed.

(* a failing output tag fails the execution with that error (sentinel kept:
   errors.Is) and produces NO output: OErr has no output component *)
Theorem C05_exec_failure : forall G fuel st t e rest out k st1,
  eval G fuel (with_stmt st None) e = RErr (EFail k) st1 ->
  exists line, exec_prog G (S fuel) st (SRet t true e :: rest) out = OErr line (EFail k) st1.
Proof. exact exec_output_tag_failure. Qed.

Print Assumptions C05_tolerate_spec.
Print Assumptions C05_infix_left_failure.
Print Assumptions C05_infix_right_failure.
Print Assumptions C05_exec_failure.

(* ---- the property as an invariant of every execution (proofs/QuietProofs.v) ----
   fa st = the arguments of the failing-helper invocations in the log of st,
   newest first; fail_args z = how the failing helper configured with sentinel
   z logs its call (the correspondence check compares exactly this log and the
   sentinel with what the Go harness observed).  For every environment, fuel,
   starting state and template: *)

(* a render that returns output invoked no failing helper *)
Theorem C05_success_means_nothing_failed : forall G fuel st input out st1,
  render G fuel st input = OOk out st1 -> fa st1 = fa st.
Proof. exact render_ok_no_failure. Qed.
Print Assumptions C05_success_means_nothing_failed.

(* once a failing helper has been invoked the render cannot return output *)
Theorem C05_invoked_failure_cannot_succeed : forall G fuel st input out st1,
  fa st1 <> fa st -> render G fuel st input <> OOk out st1.
Proof. exact invoked_failure_cannot_succeed. Qed.
Print Assumptions C05_invoked_failure_cannot_succeed.

(* a render that fails either invoked no failing helper, or exactly one: nothing
   failing ran after it and the error returned is that helper's sentinel
   (errors.Is); OErr carries no output *)
Theorem C05_failure_is_the_helpers_error : forall G fuel st input l e st1,
  render G fuel st input = OErr l e st1 ->
  fa st1 = fa st \/ exists z, e = EFail (Some (Z.to_N z)) /\ fa st1 = fail_args z :: fa st.
Proof. exact render_err_reports_the_failure. Qed.
Print Assumptions C05_failure_is_the_helpers_error.

(* the same for every expression, in the middle of any evaluation: a value, or
   the one tolerated fault, means no failing helper was invoked on the way *)
Theorem C05_expression_invariant : forall G fuel st e, Q (fa st) (eval G fuel st e).
Proof. exact eval_quiet. Qed.
Print Assumptions C05_expression_invariant.
