package main

import (
	"bytes"
	"encoding/json"
	"fmt"
	"html"
	"reflect"
	"sort"
	"strings"
	"unicode"
	"unicode/utf8"

	"github.com/gobuffalo/plush/v5/helpers/encoders"
	"github.com/gobuffalo/plush/v5/helpers/escapes"
	"github.com/gobuffalo/plush/v5/helpers/hctx"
	"github.com/gobuffalo/plush/v5/helpers/helptest"
	"github.com/gobuffalo/plush/v5/helpers/text"
)

// ---- C20: text and encoding helpers ----------------------------------------

func c20truncate(s string, size int, trail string) (out string, panicked string) {
	defer func() {
		if r := recover(); r != nil {
			panicked = fmt.Sprint(r)
		}
	}()
	return text.Truncate(s, hctx.Map{"size": size, "trail": trail}), ""
}

func c20json(v interface{}) string {
	switch t := v.(type) {
	case nil:
		return "JNull"
	case bool:
		return "(JBool " + cqBool(t) + ")"
	case int:
		return "(JInt " + cqZ(int64(t)) + ")"
	case string:
		return "(JStr " + cqBytes(t) + ")"
	case []interface{}:
		xs := make([]string, len(t))
		for i, x := range t {
			xs[i] = c20json(x)
		}
		return "(JArr " + cqList(xs) + ")"
	case map[string]interface{}:
		xs := []string{}
		for k, x := range t { // Go map order: the model sorts
			xs = append(xs, fmt.Sprintf("(%s, %s)", cqBytes(k), c20json(x)))
		}
		return "(JObj " + cqList(xs) + ")"
	}
	return "JNull"
}

var c20strs = []string{"", "a", "<b>", "a&b", "\"q\"", "it's", "back\\slash", "é", "世界", "😀", "é", "line\nbreak", "\t\r", "\x01\x1f", " x ", "=", "</script>", "&amp;", "\x7f", "\b\f"}

func c20genJSON(r *Rng, depth int) interface{} {
	k := r.Intn(10)
	if depth <= 0 && k >= 7 {
		k = r.Intn(7)
	}
	switch {
	case k == 0:
		return nil
	case k == 1:
		return r.Bool()
	case k <= 3:
		switch r.Intn(4) {
		case 0:
			return r.Intn(10)
		case 1:
			return -r.Intn(100000)
		case 2:
			return int(r.Next() >> 12) // < 2^52
		default:
			return -int(r.Next() >> 12)
		}
	case k <= 6:
		s := c20strs[r.Intn(len(c20strs))]
		if r.Intn(3) == 0 {
			s += c20strs[r.Intn(len(c20strs))]
		}
		return s
	case k <= 8:
		n := r.Intn(4)
		xs := make([]interface{}, n)
		for i := range xs {
			xs[i] = c20genJSON(r, depth-1)
		}
		return xs
	default:
		n := r.Intn(4)
		m := map[string]interface{}{}
		for i := 0; i < n; i++ {
			m[c20strs[r.Intn(len(c20strs))]] = c20genJSON(r, depth-1)
		}
		return m
	}
}

// normalise a decoded JSON value (json.Number -> int) for DeepEqual with the input
func c20norm(v interface{}) interface{} {
	switch t := v.(type) {
	case json.Number:
		n, err := t.Int64()
		if err != nil {
			return t.String()
		}
		return int(n)
	case []interface{}:
		for i := range t {
			t[i] = c20norm(t[i])
		}
		return t
	case map[string]interface{}:
		for k := range t {
			t[k] = c20norm(t[k])
		}
		return t
	}
	return v
}

func init() {
	register("C20", func(e *Env) {
		renderPrelude()
		pre := "From Plush Require Import model.Bytes model.Text model.Cases.\n"
		for _, k := range []string{"c20t", "c20h", "c20j", "c20json"} {
			shardPrelude[k] = pre
			shardCheck[k] = "check_" + k
		}
		e.perShard = 800
		e.rep.Rule = "truncate: every string of <= L symbols over {a, 2-byte rune, 3-byte rune, stray continuation byte, 4-byte rune, combining mark} x sizes -1..4 x 3 trails (exhaustive) + random strings of 0..64 symbols x size in [-2,70] x trails of 0..8 symbols; htmlEscape/jsEscape over the same strings plus specials; toJSON over recursively generated values (depth<=3) with unsorted keys, every third result held and compared again after later calls, and results kept in template variables across calls; non-trivial = result differs from input or value is compound; distinct by input"
		syms := []string{"a", "é", "世", "\x80", "😀", "́"}
		trails := []string{"", "...", "…b"}
		L := 3
		if e.Thorough() {
			L = 4
		}
		doTrunc := func(s string, size int, trail string) {
			out, pan := c20truncate(s, size, trail)
			e.rep.Evaluations++
			e.Count("truncate")
			rp := map[string]interface{}{"s": s, "size": size, "trail": trail, "out": out, "panic": pan}
			if pan != "" {
				e.Violate("c20-truncate-panic", fmt.Sprintf("truncate(%q,%d,%q) panicked: %s", s, size, trail, pan), rp)
				return
			}
			n, nt := utf8.RuneCountInString(s), utf8.RuneCountInString(trail)
			max := size
			if nt > max {
				max = nt
			}
			bad := ""
			if n <= size {
				if out != s {
					bad = "s has at most size characters but was changed"
				}
			} else {
				if utf8.RuneCountInString(out) > max {
					bad = "result longer than max(size, len(trail)) characters"
				}
				if !strings.HasSuffix(out, trail) {
					bad = "result does not end with trail"
				} else if utf8.ValidString(s) {
					p := out[:len(out)-len(trail)]
					if !strings.HasPrefix(s, p) || !utf8.ValidString(p) {
						bad = "result is not a whole-character prefix of s followed by trail"
					}
				}
			}
			if bad == "" {
				// idempotent (theorem C20_truncate_idempotent)
				if out2, pan2 := c20truncate(out, size, trail); pan2 != "" || out2 != out {
					bad = fmt.Sprintf("truncating the result again gives %q %s", out2, pan2)
				}
			}
			if bad != "" {
				e.Violate("c20-truncate", fmt.Sprintf("truncate(%q,%d,%q) = %q: %s", s, size, trail, out, bad), rp)
			}
			if out != s {
				e.Distinct("t/" + s + "/" + fmt.Sprint(size) + "/" + trail)
			}
			e.AddCase("c20t", fmt.Sprintf("c20t-%d", e.rep.Evaluations), fmt.Sprintf("(%s, %s, %s, %s)", cqBytes(s), cqZ(int64(size)), cqBytes(trail), cqBytes(out)), rp)
			if e.rep.Evaluations%1499 == 7 {
				e.Sample(rp)
			}
		}
		var strs []string
		var gen func(prefix string, n int)
		gen = func(prefix string, n int) {
			strs = append(strs, prefix)
			if n == 0 {
				return
			}
			for _, s := range syms {
				gen(prefix+s, n-1)
			}
		}
		gen("", L)
		for _, s := range strs {
			for size := -1; size <= 4; size++ {
				for _, tr := range trails {
					doTrunc(s, size, tr)
				}
			}
		}
		nr := 300
		if e.Thorough() {
			nr = 6000
		}
		rsyms := append(append([]string{}, syms...), "b", " ", "<", "&", "\xff", "\xe4\xb8", "Z")
		randStr := func(maxn int) string {
			n := e.Rng.Intn(maxn + 1)
			var b strings.Builder
			for i := 0; i < n; i++ {
				b.WriteString(rsyms[e.Rng.Intn(len(rsyms))])
			}
			return b.String()
		}
		for i := 0; i < nr; i++ {
			doTrunc(randStr(64), e.Rng.Intn(73)-2, randStr(8))
		}
		e.flushShard()
		// htmlEscape / jsEscape
		escIn := append([]string{}, c20strs...)
		for _, s := range strs {
			if len(s) <= 8 {
				escIn = append(escIn, s+"<&>'\"")
			}
		}
		for i := 0; i < nr; i++ {
			escIn = append(escIn, randStr(24)+c20strs[e.Rng.Intn(len(c20strs))]+randStr(6))
		}
		for i := 0; i < 256; i++ {
			escIn = append(escIn, "x"+string([]byte{byte(i)})+"y")
		}
		for _, s := range escIn {
			hc := helptest.NewContext()
			out, err := escapes.HTMLEscape(s, hc)
			e.rep.Evaluations++
			e.Count("htmlEscape")
			rp := map[string]interface{}{"s": s, "out": out}
			if err != nil {
				e.Violate("c20-html", "htmlEscape failed: "+err.Error(), rp)
				continue
			}
			ob := []byte(out)
			for i, c := range ob {
				if c == '<' || c == '>' || c == '\'' || c == '"' {
					e.Violate("c20-html", fmt.Sprintf("htmlEscape(%q) = %q contains a raw %q", s, out, string(c)), rp)
					break
				}
				if c == '&' {
					rest := out[i:]
					if !(strings.HasPrefix(rest, "&amp;") || strings.HasPrefix(rest, "&lt;") || strings.HasPrefix(rest, "&gt;") || strings.HasPrefix(rest, "&#34;") || strings.HasPrefix(rest, "&#39;")) {
						e.Violate("c20-html", fmt.Sprintf("htmlEscape(%q) = %q contains a raw &", s, out), rp)
						break
					}
				}
			}
			// nothing is lost: decoding the entities gives the input back (a NUL
			// byte is replaced by U+FFFD and is the one exception; theorem
			// C20_html_unescape_escape)
			if !strings.Contains(s, "\x00") && html.UnescapeString(out) != s {
				e.Violate("c20-html", fmt.Sprintf("htmlEscape(%q) = %q does not decode back to the input", s, out), rp)
			}
			if out != s {
				e.Distinct("h/" + s)
			}
			e.AddCase("c20h", fmt.Sprintf("c20h-%d", e.rep.Evaluations), fmt.Sprintf("(%s, %s)", cqBytes(s), cqBytes(out)), rp)
		}
		e.flushShard()
		for _, s := range escIn {
			out := escapes.JSEscape(s)
			e.rep.Evaluations++
			e.Count("jsEscape")
			rp := map[string]interface{}{"s": s, "out": out}
			ob := []byte(out)
			for i := 0; i < len(ob); i++ {
				c := ob[i]
				if c == '\\' {
					i++ // escaped character
					continue
				}
				if c == '<' || c == '>' || c == '&' || c == '=' || c == '\'' || c == '"' || c == '\n' || c == '\r' {
					e.Violate("c20-js", fmt.Sprintf("jsEscape(%q) = %q contains an unescaped %q", s, out, string(c)), rp)
					break
				}
			}
			if strings.Contains(out, " ") || strings.Contains(out, " ") {
				e.Violate("c20-js", fmt.Sprintf("jsEscape(%q) contains a raw line separator", s), rp)
			}
			pr := []string{}
			seen := map[rune]bool{}
			for _, r := range s {
				if r >= 128 && unicode.IsPrint(r) && !seen[r] {
					seen[r] = true
					pr = append(pr, cqN(uint64(r)))
				}
			}
			if out != s {
				e.Distinct("j/" + s)
			}
			e.AddCase("c20j", fmt.Sprintf("c20j-%d", e.rep.Evaluations), fmt.Sprintf("(%s, %s, %s)", cqBytes(s), cqList(pr), cqBytes(out)), rp)
		}
		e.flushShard()
		// toJSON
		nj := 400
		if e.Thorough() {
			nj = 8000
		}
		var heldH interface{}
		heldCopy, heldDesc := "", ""
		for i := 0; i < nj; i++ {
			v := c20genJSON(e.Rng, 3)
			h, err := encoders.ToJSON(v)
			e.rep.Evaluations++
			e.Count("toJSON")
			// a result obtained earlier must not change when the helper is called again
			if heldH != nil {
				if now := fmt.Sprint(heldH); now != heldCopy {
					e.Violate("c20-json", fmt.Sprintf("the result of an earlier toJSON call changed after a later call: toJSON(%s) was %q, is now %q", heldDesc, heldCopy, now), map[string]interface{}{"value": heldDesc, "was": heldCopy, "now": now})
					heldH = nil
				}
			}
			if i%3 == 0 && err == nil {
				heldH, heldCopy, heldDesc = h, string(append([]byte(nil), string(h)...)), fmt.Sprintf("%#v", v)
			}
			out := string(h)
			rp := map[string]interface{}{"value": fmt.Sprintf("%#v", v), "out": out}
			if err != nil {
				e.Violate("c20-json", "toJSON failed: "+err.Error(), rp)
				continue
			}
			if !json.Valid([]byte(out)) {
				e.Violate("c20-json", fmt.Sprintf("toJSON output is not valid JSON: %q", out), rp)
			}
			if strings.ContainsAny(out, "<>&") {
				e.Violate("c20-json", fmt.Sprintf("toJSON output contains a raw < > or &: %q", out), rp)
			}
			dec := json.NewDecoder(bytes.NewReader([]byte(out)))
			dec.UseNumber()
			var back interface{}
			if err := dec.Decode(&back); err != nil {
				e.Violate("c20-json", "toJSON output does not decode: "+err.Error(), rp)
			} else if !reflect.DeepEqual(c20norm(back), c20norm(v)) {
				e.Violate("c20-json", fmt.Sprintf("toJSON(%#v) = %q decodes to %#v", v, out, back), rp)
			}
			switch v.(type) {
			case []interface{}, map[string]interface{}:
				e.Distinct("json/" + out)
			}
			e.AddCase("c20json", fmt.Sprintf("c20json-%d", e.rep.Evaluations), fmt.Sprintf("(%s, %s)", c20json(v), cqBytes(out)), rp)
			if i%97 == 5 {
				e.Sample(rp)
			}
		}
		// the same through a template: results kept in variables while the helper is called again
		for _, tc := range [][2]string{
			{`<% let a = toJSON({name: "alice", tags: ["a", "b", "c"]}) %><% let b = toJSON([1, 2]) %><%= a %>|<%= b %>|<%= toJSON("s") %>|<%= a %>`, `{"name":"alice","tags":["a","b","c"]}|[1,2]|"s"|{"name":"alice","tags":["a","b","c"]}`},
			{`<% let x1 = toJSON([1, 1]) %><% let x2 = toJSON([2, 2]) %><% let x3 = toJSON({k: [3]}) %><%= for (x) in [x1, x2, x3, x1] { %><%= x %>;<% } %>`, `[1,1];[2,2];{"k":[3]};[1,1];`},
			{`<% let a = jsEscape("<a>") %><% let b = jsEscape("'q'") %><% let c = htmlEscape("<h>") %><% let d = truncate("abcdefgh", {size: 5}) %><% let e = truncate("zyxwvuts", {size: 4}) %><%= a %>|<%= b %>|<%= c %>|<%= d %>|<%= e %>`, `\u003Ca\u003E|\&#39;q\&#39;|&amp;lt;h&amp;gt;|ab...|z...`},
		} {
			o := runRender(RCase{Tmpl: tc[0]})
			e.rep.Evaluations++
			e.Count("held-results-template")
			if o.Class != "OK" || o.Out != tc[1] {
				e.Violate("c20-json", fmt.Sprintf("%s rendered %q (%s %s), want %q", tc[0], o.Out, o.Class, o.Msg, tc[1]), map[string]interface{}{"tmpl": tc[0], "observed": o})
			}
		}
		e.flushShard()
		// raw(s) reaches the OUTPUT byte-identical: through Render, for every kind of byte string (bytes that
		// are not UTF-8 included), alone, next to text, inside blocks, several times
		for _, p := range append(append([]string{}, c20strs...), "a\xffb", "cut: \xe4\xb8", "\x80\x80", "\xed\xa0\x80", "\xf0\x9f\x98", "ok\xc3", "<\xfe>&\xff;", "\x00mid\x00") {
			for _, t := range [][2]string{{"<%= raw(p) %>", p}, {"[<%= raw(p) %>|<%= raw(p) %>]", "[" + p + "|" + p + "]"}, {"<%= if (true) { %><%= raw(p) %><% } %>.", p + "."},
				{"<% let r = raw(p) %><%= for (i) in [1, 2] { %><%= r %>,<% } %>", p + "," + p + ","}, {"<% let f = fn(v) { return raw(v) } %><%= f(p) %>", p}} {
				c := RCase{Tmpl: t[0], Binds: []Bind{{"p", vStr(p)}}}
				o := e.addRenderCase("raw-through-render", c)
				if o.Class != "OK" || o.Out != t[1] {
					e.Violate("c20-raw", fmt.Sprintf("%s with p = %q rendered %q (%s %s), want %q", t[0], p, o.Out, o.Class, firstLine(o.Msg), t[1]), map[string]interface{}{"case": c, "observed": o})
				}
			}
		}
		_ = sort.Strings
	})
}
