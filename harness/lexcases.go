package main

import (
	"fmt"
	"strings"

	"github.com/gobuffalo/plush/v5/lexer"
	"github.com/gobuffalo/plush/v5/token"
)

var tokCodes = map[token.Type]int{
	token.ILLEGAL: 0, token.EOF: 1, token.IDENT: 2, token.INT: 3, token.FLOAT: 4, token.STRING: 5,
	token.B_STRING: 6, token.HTML: 7, token.DOT: 8, token.ASSIGN: 9, token.PLUS: 10, token.MINUS: 11,
	token.BANG: 12, token.ASTERISK: 13, token.SLASH: 14, token.LT: 15, token.LTEQ: 16, token.GT: 17, token.GTEQ: 18,
	token.EQ: 19, token.NOT_EQ: 20, token.AND: 21, token.OR: 22, token.MATCHES: 23, token.S_START: 24,
	token.C_START: 25, token.E_START: 26, token.E_END: 27, token.COMMA: 28, token.SEMICOLON: 29,
	token.COLON: 30, token.LPAREN: 31, token.RPAREN: 32, token.LBRACE: 33, token.RBRACE: 34,
	token.LBRACKET: 35, token.RBRACKET: 36, token.FUNCTION: 37, token.LET: 38, token.TRUE: 39,
	token.FALSE: 40, token.IF: 41, token.ELSE: 42, token.RETURN: 43, token.FOR: 44, token.IN: 45,
	token.CONTINUE: 46, token.BREAK: 47,
}

type lexTok struct {
	Kind string `json:"kind"`
	Lit  string `json:"lit"`
	Line int    `json:"line"`
}

// lexImpl pulls len+3 tokens and trims the trailing run of EOFs to one.
func lexImpl(input string) (toks []lexTok, panicked string) {
	defer func() {
		if r := recover(); r != nil {
			panicked = fmt.Sprint(r)
		}
	}()
	l := lexer.New(input)
	n := len(input) + 3
	for i := 0; i < n; i++ {
		t := l.NextToken()
		toks = append(toks, lexTok{string(t.Type), t.Literal, t.LineNumber})
	}
	last := len(toks)
	for last > 0 && toks[last-1].Kind == token.EOF {
		last--
	}
	if last < len(toks) {
		toks = toks[:last+1]
	}
	return toks, ""
}

func lexTerm(input string, toks []lexTok) string {
	items := make([]string, len(toks))
	for i, t := range toks {
		code, ok := tokCodes[token.Type(t.Kind)]
		if !ok {
			code = 99
		}
		items[i] = fmt.Sprintf("(%s, %s, %s)", cqN(uint64(code)), cqBytes(t.Lit), cqNat(t.Line))
	}
	return fmt.Sprintf("(%s, %s)", cqBytes(input), cqList(items))
}

func lexPrelude() {
	shardPrelude["lex"] = "From Plush Require Import model.Bytes model.Lexer model.Cases.\n"
	shardCheck["lex"] = "check_lex"
}

// addLexCase runs the real lexer on input and records the observation.
func (e *Env) addLexCase(tag, input string) {
	toks, pan := lexImpl(input)
	e.rep.Evaluations++
	e.Count("lex-" + tag)
	rp := map[string]interface{}{"input": input, "tokens": toks}
	if pan != "" {
		e.Violate("lexer-panic", fmt.Sprintf("lexer panicked on %q: %s", input, pan), rp)
		return
	}
	if len(toks) > 2 {
		e.Distinct("lex/" + input)
	}
	e.AddCase("lex", fmt.Sprintf("lex-%d", e.rep.Evaluations), lexTerm(input, toks), rp)
}

// all strings over alphabet up to length n
func allStrings(alpha []string, n int, f func(string)) {
	var rec func(prefix string, k int)
	rec = func(prefix string, k int) {
		f(prefix)
		if k == 0 {
			return
		}
		for _, a := range alpha {
			rec(prefix+a, k-1)
		}
	}
	rec("", n)
}

var tokenVocab = []string{"x", "a.b", "a-b", "1", "2.5", ".5", "1.2.3", `"s"`, "`b`", ".", "=", "+", "-", "!", "*", "/", "%", "<", "<=", ">", ">=", "==", "!=", "&&", "||", "~=", "~", "&", "|",
	"<%", "<%#", "<%=", "%>", ",", ";", ":", "(", ")", "{", "}", "[", "]", "fn", "func", "let", "true", "false", "if", "else", "return", "for", "in", "continue", "break", "nil", "@", "# c\n", "html"}

func randSoup(r *Rng, n int) string {
	var b strings.Builder
	for i := 0; i < n; i++ {
		b.WriteString(tokenVocab[r.Intn(len(tokenVocab))])
		switch r.Intn(6) {
		case 0:
		case 1:
			b.WriteString("\n")
		default:
			b.WriteString(" ")
		}
	}
	return b.String()
}

func init() {
	register("LEX", func(e *Env) {
		lexPrelude()
		e.perShard = 400
		alpha := []string{"<", "%", ">", "\\", "=", "#", "\"", "a", "\n", " "}
		L := 4
		if e.Thorough() {
			L = 5
		}
		allStrings(alpha, L, func(s string) { e.addLexCase("text", s) })
		allStrings([]string{"\"", "\\", "`", "a", "%", ">", "#", "\n", "."}, L, func(s string) { e.addLexCase("intag", "<%= "+s) })
		for i := 0; i < 400; i++ {
			fr := []string{"<% ", "<%= ", "<%# ", "", "x<%"}[e.Rng.Intn(5)]
			cl := []string{" %>", "", " %>y", "%"}[e.Rng.Intn(4)]
			e.addLexCase("soup", fr+randSoup(e.Rng, 1+e.Rng.Intn(12))+cl)
		}
		for i := 0; i < 300; i++ {
			n := e.Rng.Intn(20)
			bs := make([]byte, n)
			for j := range bs {
				bs[j] = byte(e.Rng.Intn(256))
				if e.Rng.Intn(3) == 0 {
					bs[j] = "<%>=\\\"`#\x00\n"[e.Rng.Intn(10)]
				}
			}
			e.addLexCase("bytes", string(bs))
		}
	})
}

func init() {
	register("PARSE", func(e *Env) {
		parsePrelude()
		e.perShard = 250
		for _, s := range []string{"", "a", "<%= 1 %>", "<% let x = 1 %><%= x %>", "<%= a.b.c %>", "<%= f(1, 2) %>", "<%= x[0].y %>", "<%= if (a) { %>x<% } else { %>y<% } %>",
			"<% for (k,v) in xs { %><%= v %><% } %>", "<%= {a: 1, \"b\": 2} %>", "<%= [1,2][0] %>", "<% let f = fn(a,b) { return a + b } %>", "<%# c %>x", "<%= a.B[0].C[1].D %>", "<%= f(x).y %>", "<%= f(x).y.z() %>",
			"<%= 1 + 2 * 3 - 4 / 5 %>", "<%= !a && b || c == d %>", "<% x = 2 %>", "<% a[0] = 1 %>", "<%= a.b(1) { %>t<% } %>", "<% if (1 [2]) { } %>", "<%= (1 + 2) * 3 %>", "<%= -1 %>", "<% return 1 %>",
			"<% for (x) in f() { %>b<% } %>", "<% break %>", "<% for (x) in xs { break } %>", "<%= 99999999999999999999 %>", "<%= 1.5 + .5 %>", "<% if (true) { %>a<% } else if (false) { %>b<% } else { %>c<% } %>"} {
			e.addParseCase("fixed", s)
		}
		n := 1500
		if e.Thorough() {
			n = 20000
		}
		for i := 0; i < n; i++ {
			fr := []string{"<% ", "<%= ", "<%# ", "", "x<%", "<% if (a) { %>", "<% for (v) in xs { %>"}[e.Rng.Intn(7)]
			cl := []string{" %>", "", " %>y", "%", " } %>", "<% } %>"}[e.Rng.Intn(6)]
			e.addParseCase("soup", fr+randSoup(e.Rng, 1+e.Rng.Intn(10))+cl)
		}
	})
}
