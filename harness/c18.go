package main

import (
	"fmt"
	"strings"
)

// ---- C18: layout inside code tags is insignificant -----------------------------------

type litem18 struct {
	kind  string // text out silent if for
	text  string
	toks  []string   // out: expression tokens; if: condition; for: iterable
	stmts [][]string // silent: statements
	body  []litem18
	els   []litem18  // if: else body (nil = none)
	after [][]string // statements placed after the closing brace (layout variant d decides where)
}

// layout choices are drawn from the Rng; style 0 = canonical
type layout18 struct {
	r     *Rng
	style int // 0 canonical, 1 random separators, 2 + comment tags, 3 + merging/splitting, 4 + statements after closing braces
}

func (l layout18) sep() string {
	if l.style == 0 {
		return " "
	}
	return []string{" ", "  ", "\t", "\n", "\r\n", " # c\n", "\n\n ", " ", " #\n", "#\n", " #\r\n", " # \n", " ## #\n", " # a\n # b\n"}[l.r.Intn(14)]
}

// two tokens may be written without any white space between them when they still lex as the
// same two tokens: one side is a bracket, comma, colon or brace, or an arithmetic operator meets
// a name, number, string or bracket ('-' and '.' are the property's exceptions and never glued)
func canGlue(a, b string) bool {
	if a == "" || b == "" {
		return false
	}
	la, fb := a[len(a)-1], b[0]
	punct := func(c byte) bool { return strings.IndexByte("()[],{}:", c) >= 0 }
	word := func(c byte) bool {
		return c == '"' || c == '`' || c == '_' || (c >= '0' && c <= '9') || (c >= 'a' && c <= 'z') || (c >= 'A' && c <= 'Z')
	}
	if fb == '.' || la == '.' || fb == '-' || la == '-' {
		return false
	}
	if punct(la) || punct(fb) {
		return !(la == '{' && fb == '{') // keep clear of anything that could look like another opener
	}
	arith := func(s string) bool {
		// arithmetic, comparison and logical operators: no white space is needed on either side
		switch s {
		case "+", "*", "/", "<", "<=", ">", ">=", "==", "!=", "&&", "||", "~=":
			return true
		}
		return false
	}
	if arith(a) && (word(fb) || fb == '(' || fb == '[') {
		return true
	}
	if arith(b) && (word(la) || la == ')' || la == ']') {
		return true
	}
	return false
}

func (l layout18) join(toks []string) string {
	var b strings.Builder
	for i, t := range toks {
		if i > 0 {
			if l.style >= 5 && canGlue(toks[i-1], t) && l.r.Intn(3) != 0 {
				// no white space at all
			} else {
				b.WriteString(l.sep())
			}
		}
		b.WriteString(t)
	}
	return b.String()
}

func (l layout18) stmtSep() string {
	if l.style == 0 {
		return " ; "
	}
	return []string{";", " ; ", "\n", ";\n", " \n "}[l.r.Intn(5)]
}

func (l layout18) comment() string {
	if l.style >= 2 && l.r.Intn(4) == 0 {
		return []string{"<%# note %>", "<%# a b c\n d %>", "<%#%>", "<%# it's 100% sure? %>", "<%# caf\xc3\xa9 @ $ ^ \\ & | 1.2.3 %>", "<%# } else { %>", "<%# <%= x %>"}[l.r.Intn(7)]
	}
	return ""
}

func (l layout18) pad() string {
	if l.style == 0 {
		return " "
	}
	return []string{" ", "", "\n", "  ", "\t"}[l.r.Intn(5)]
}

func (l layout18) tag(out bool, body string) string {
	open := "<%"
	if out {
		open = "<%="
	}
	p1, p2 := l.pad(), l.pad()
	if p1 == "" && body != "" && (body[0] == '=' || body[0] == '#') {
		p1 = " "
	}
	return open + p1 + body + p2 + "%>"
}

// silent statements: every statement its own tag (canonical) or cut at random
func (l layout18) silent(stmts [][]string) string {
	var b strings.Builder
	i := 0
	for i < len(stmts) {
		k := 1
		if l.style >= 3 {
			k = 1 + l.r.Intn(len(stmts)-i)
		}
		b.WriteString(l.tag(false, l.joinStmts(stmts[i:i+k])))
		b.WriteString(l.comment())
		i += k
	}
	return b.String()
}

func (l layout18) print(items []litem18) string {
	var b strings.Builder
	closing := func(after [][]string) {
		// the closing brace, possibly followed by statements in the same tag
		if len(after) > 0 && l.style >= 4 && l.r.Intn(2) == 0 {
			sep := l.stmtSepNonEmpty()
			if strings.ContainsAny(after[0][0][:1], "([{-!") {
				sep = " ; "
			}
			b.WriteString(l.tag(false, "}"+sep+l.joinStmts(after)))
		} else {
			b.WriteString(l.tag(false, "}"))
			if len(after) > 0 {
				b.WriteString(l.silent(after))
			}
		}
	}
	for _, it := range items {
		b.WriteString(l.comment())
		switch it.kind {
		case "text":
			b.WriteString(it.text)
		case "out":
			b.WriteString(l.tag(true, l.join(it.toks)))
		case "silent":
			b.WriteString(l.silent(it.stmts))
		case "if":
			b.WriteString(l.tag(true, l.join(append(append([]string{"if", "("}, it.toks...), ")", "{"))))
			b.WriteString(l.print(it.body))
			if it.els != nil {
				b.WriteString(l.tag(false, l.join([]string{"}", "else", "{"})))
				b.WriteString(l.print(it.els))
			}
			closing(it.after)
		case "for":
			b.WriteString(l.tag(true, l.join(append(append([]string{"for", "(", "i", ",", "x", ")", "in"}, it.toks...), "{"))))
			b.WriteString(l.print(it.body))
			closing(it.after)
		case "fn":
			b.WriteString(l.tag(false, l.join([]string{"let", "fq", "=", "fn", "(", "a", ")", "{"})))
			b.WriteString(l.print(it.body))
			closing(it.after)
			b.WriteString(l.tag(true, l.join(append(append([]string{"fq", "("}, it.toks...), ")"))))
		}
	}
	return b.String()
}

// statements in one tag: a statement that begins with ( [ { - ! would continue
// the previous expression, so it is always introduced by a semicolon
func (l layout18) joinStmts(stmts [][]string) string {
	var b strings.Builder
	for i, s := range stmts {
		if i > 0 {
			sep := l.stmtSep()
			if strings.ContainsAny(s[0][:1], "([{-!") && !strings.Contains(sep, ";") {
				sep = " ; "
			}
			b.WriteString(sep)
		}
		b.WriteString(l.join(s))
	}
	return b.String()
}

func (l layout18) stmtSepNonEmpty() string {
	return []string{" ", "\n", " ; ", ";"}[l.r.Intn(4)]
}

var exprs18 = [][]string{{"n"}, {"(", "n", "+", "2", ")"}, {".5", "+", "1.5"}, {"2.5", "*", ".5"}, {"n", "+", "1"}, {"s"}, {`"lit<"`}, {"xs", "[", "0", "]"}, {"len", "(", "xs", ")"}, {"n", "*", "(", "2", "+", "n", ")"}, {"!", "f"},
	{"n", "==", "3", "&&", "t"}, {"m", "[", `"a"`, "]"}, {"o.Name"}, {"0", "-", "n"}, {"s", "+", `" x"`}, {"[", "1", ",", "2", "]"}, {"{", "k", ":", "n", "}", "[", `"k"`, "]"},
	{"o.In.Hello", "(", `"w"`, ")"}, {"o.Ins", "[", "0", "]", ".", "Name"}, {"Name"}, {"o.Ins", "[", "1", "]", ".", "Name"}, {"o.Get", "(", ")", ".", "Name"}, {"truncate", "(", "s", ",", "{", "size", ":", "3", "}", ")"}, {"n", "<=", "3", "||", "f"}, {"n", ">=", "2", "&&", "(", "n", "<", "9", ")"}, {"s", "~=", `"^s"`}, {"n", "!=", "4", "||", "(", "t", "&&", "f", ")"}, {"1", "<", "n", "&&", "n", ">", "1"}, {"1.5", "+", "0.25"}, {"acc"}}

func gen18(r *Rng, depth int) []litem18 {
	n := 1 + r.Intn(4)
	var items []litem18
	pick := func() []string { return exprs18[r.Intn(len(exprs18))] }
	stmt := func() []string {
		switch r.Intn(4) {
		case 3:
			// element assignment (a statement that ends with an arbitrary expression)
			if r.Bool() {
				return append([]string{"xs", "[", "0", "]", "="}, pick()...)
			}
			return append([]string{"m", "[", `"a"`, "]", "="}, pick()...)
		case 0:
			return append([]string{"let", []string{"u", "w", "acc"}[r.Intn(3)], "="}, pick()...)
		case 1:
			return append([]string{"acc", "="}, append([]string{"acc", "+"}, []string{"1", "n", "2"}[r.Intn(3)])...)
		default:
			return pick()
		}
	}
	stmts := func() [][]string {
		k := 1 + r.Intn(3)
		var ss [][]string
		for i := 0; i < k; i++ {
			ss = append(ss, stmt())
		}
		return ss
	}
	for i := 0; i < n; i++ {
		switch x := r.Intn(10); {
		case x < 2:
			items = append(items, litem18{kind: "text", text: []string{"t", " <b>", "\nline\n", "."}[r.Intn(4)]})
		case x < 4:
			items = append(items, litem18{kind: "out", toks: pick()})
		case x < 6:
			items = append(items, litem18{kind: "silent", stmts: stmts()})
		case x < 7 && depth > 0:
			it := litem18{kind: "if", toks: [][]string{{"t"}, {"f"}, {"n", "==", "3"}, {"!", "t"}}[r.Intn(4)], body: gen18(r, depth-1)}
			if r.Bool() {
				it.els = gen18(r, depth-1)
			}
			if r.Bool() {
				it.after = stmts()
			}
			items = append(items, it)
		case x < 8 && depth > 0:
			it := litem18{kind: "for", toks: [][]string{{"xs"}, {"[", "1", ",", "2", "]"}, {"range", "(", "1", ",", "2", ")"}}[r.Intn(3)], body: append(gen18(r, depth-1), litem18{kind: "out", toks: []string{"x"}})}
			if r.Bool() {
				it.after = stmts()
			}
			items = append(items, it)
		case x < 9 && depth > 0:
			it := litem18{kind: "fn", toks: pick(), body: append(gen18(r, depth-1), litem18{kind: "out", toks: []string{"a"}})}
			if r.Bool() {
				it.after = stmts()
			}
			items = append(items, it)
		default:
			if r.Bool() {
				items = append(items, litem18{kind: "out", toks: []string{"acc"}})
				break
			}
			// a function written inside one tag, with return statements (the separator between
			// return and its value is layout too), and loops that return
			body := [][]string{
				{"return", "a", "+", "1"},
				{"if", "(", "a", "==", "3", ")", "{", "return", `"three"`, "}", "return", "a"},
				{"let", "q", "=", "a", "*", "2", ";", "return", "q"},
				{"return", "[", "a", ",", "n", "]", "[", "0", "]"},
			}[r.Intn(4)]
			def := append(append([]string{"let", "fr", "=", "fn", "(", "a", ")", "{"}, body...), "}")
			items = append(items, litem18{kind: "silent", stmts: [][]string{def}}, litem18{kind: "out", toks: append(append([]string{"fr", "("}, pick()...), ")")})
			if r.Bool() {
				items = append(items, litem18{kind: "out", toks: []string{"for", "(", "x", ")", "in", "[", "1", ",", "2", "]", "{", "return", "x", "+", "n", "}"}})
			}
		}
	}
	return items
}

func init() {
	register("C18", func(e *Env) {
		renderPrelude()
		e.perShard = 60
		e.rep.Rule = "generated programs as token lists (let, assignment, expression statements, output tags, if/else, for, function definition + call (multi-tag bodies, and single-tag bodies with return statements), text; nesting depth 2), each rendered in its canonical layout (one statement per tag, single spaces) and in re-layouts: random separators from {space, spaces, tab, newline, CRLF, # line comment, blank lines} between all tokens, random tag padding, <%# %> comment tags between items, every random cut of a run of silent statements into tags with separators {; newline}, statements placed after the closing brace of if / for / fn in the same tag; oracle: every re-layout renders exactly what the canonical layout renders (errors equal up to the line number); distinct by canonical source"
		binds := []Bind{{"n", vInt(3)}, {"s", vStr("str<")}, {"t", vBool(true)}, {"f", vBool(false)}, {"xs", vSlice("iface", vInt(7), vStr("e"))},
			{"m", vMap("string", "iface", vStr("a"), vInt(1))}, {"o", vT1("o")}, {"acc", vInt(0)}, {"Name", vStr("top")}}
		n := 220
		if e.Thorough() {
			n = 5000
		}
		norm := func(o RObs) string {
			if o.Class == "OK" {
				return "OK:" + o.Out
			}
			return o.Class + ":" + lineAnyRe.ReplaceAllString(firstLine(o.Msg), "line N:")
		}
		for i := 0; i < n; i++ {
			prog := gen18(e.Rng, 2)
			canon := layout18{e.Rng, 0}.print(prog)
			c0 := RCase{Tmpl: canon, Binds: binds}
			o0 := e.addRenderCase("canon", c0)
			e.Distinct(canon)
			for style := 1; style <= 5; style++ {
				src := layout18{e.Rng, style}.print(prog)
				c := RCase{Tmpl: src, Binds: binds}
				o := e.addRenderCase(fmt.Sprintf("relayout%d", style), c)
				// text segments are not touched by the layouts except for comment tags, so outputs must be equal
				if norm(o) != norm(o0) {
					key := "c18-layout"
					if style == 4 {
						key = c18afterKey(prog, o0, o)
					}
					e.Violate(key, fmt.Sprintf("canonical %q renders %q but re-layout (style %d) %q renders %q", canon, norm(o0), style, src, norm(o)), map[string]interface{}{"canonical": canon, "relayout": src, "observed": o, "canonical_observed": o0})
				}
			}
		}
		// every kind of silent statement followed, in the same tag, by every kind of statement opening
		// (identifier, keyword, and the openings ( [ { ! that a missing terminator would glue on)
		{
			firsts := [][]string{{"let", "u", "=", "n"}, {"acc", "=", "acc", "+", "1"}, {"xs", "[", "0", "]", "=", "7"}, {"m", "[", `"a"`, "]", "=", "n", "+", "1"}, {"n"}, {"len", "(", "xs", ")"},
				{"let", "u", "=", "xs", "[", "0", "]"}, {"xs", "[", "0", "]", "=", "xs", "[", "1", "]"}, {"let", "u", "=", "fn", "(", ")", "{", "return", "1", "}"}}
			seconds := [][]string{{"(", "xs", "[", "1", "]", ")"}, {"[", "xs", "[", "1", "]", "]"}, {"{", "k", ":", "n", "}"}, {"!", "f"}, {"acc", "=", "acc", "+", "xs", "[", "0", "]"}, {"let", "w", "=", "m", "[", `"a"`, "]"},
				{"if", "(", "t", ")", "{", "acc", "=", "5", "}"}, {"xs", "[", "1", "]", "=", "9"}}
			probe := `|<%= acc %>|<%= xs[0] %>|<%= xs[1] %>|<%= m["a"] %>`
			for _, f := range firsts {
				for _, g := range seconds {
					canon := "<% " + strings.Join(f, " ") + " %><% " + strings.Join(g, " ") + " %>" + probe
					o0 := e.addRenderCase("pair-canon", RCase{Tmpl: canon, Binds: binds})
					e.Distinct(canon)
					for _, sep := range []string{";", " ; ", ";\n", " ;\t"} {
						src := "<% " + strings.Join(f, " ") + sep + strings.Join(g, " ") + " %>" + probe
						o := e.addRenderCase("pair-merged", RCase{Tmpl: src, Binds: binds})
						if norm(o) != norm(o0) {
							e.Violate("c18-layout", fmt.Sprintf("canonical %q renders %q but merged into one tag %q renders %q", canon, norm(o0), src, norm(o)), map[string]interface{}{"canonical": canon, "relayout": src, "observed": o, "canonical_observed": o0})
						}
					}
				}
			}
		}
		// bodies of ONE statement whose VALUE is observed (a function without return called in a condition,
		// compared with nil, printed; a loop body; an if block bound by let): cutting the body into tags,
		// adding comment tags or line comments inside it changes nothing
		for _, t := range []struct {
			canon    string
			variants []string
		}{
			{"<% let f = fn(a) { a = 2 } %><%= if (f(1)) { %>T<% } else { %>F<% } %>|<%= f(1) == nil %>|<%= f(1) %>",
				[]string{"<% let f = fn(a) { %><% a = 2 %><% } %><%= if (f(1)) { %>T<% } else { %>F<% } %>|<%= f(1) == nil %>|<%= f(1) %>",
					"<% let f = fn(a) { %><%# set a %><% a = 2 %><% } %><%= if (f(1)) { %>T<% } else { %>F<% } %>|<%= f(1) == nil %>|<%= f(1) %>",
					"<% let f = fn(a) { # set a\n a = 2 } %><%= if (f(1)) { %>T<% } else { %>F<% } %>|<%= f(1) == nil %>|<%= f(1) %>",
					"<% let f = fn(a) { %><% a = 2 %><%# done %><% } %><%= if (f(1)) { %>T<% } else { %>F<% } %>|<%= f(1) == nil %>|<%= f(1) %>"}},
			{"<% let g = fn() { n } %><%= if (g()) { %>T<% } else { %>F<% } %>|<%= g() %>",
				[]string{"<% let g = fn() { %><%# c %><% n %><% } %><%= if (g()) { %>T<% } else { %>F<% } %>|<%= g() %>", "<% let g = fn() {\n\n n\n } %><%= if (g()) { %>T<% } else { %>F<% } %>|<%= g() %>"}},
			{"<%= for (x) in xs { %><% let u = x %><% } %>|<%= for (x) in xs { %><%= x %><% } %>",
				[]string{"<%= for (x) in xs { %><%# c %><% let u = x %><% } %>|<%= for (x) in xs { %><%# c %><%= x %><%# d %><% } %>", "<%= for (x) in xs { let u = x } %>|<%= for (x) in xs { %><%= x %><% } %>"}},
			{"<%= if (t) { %><% acc = 5 %><% } %>|<%= if (t) { %><%= acc %><% } %>", []string{"<%= if (t) { %><%# c %><% acc = 5 %><% } %>|<%= if (t) { %><%# c %><%= acc %><% } %>", "<%= if (t) { acc = 5 } %>|<%= if (t) { %><%= acc %><% } %>"}},
		} {
			o0 := e.addRenderCase("one-statement-canon", RCase{Tmpl: t.canon, Binds: binds})
			e.Distinct(t.canon)
			for _, v := range t.variants {
				o := e.addRenderCase("one-statement-relayout", RCase{Tmpl: v, Binds: binds})
				if norm(o) != norm(o0) {
					e.Violate("c18-layout", fmt.Sprintf("canonical %q renders %q but re-layout %q renders %q", t.canon, norm(o0), v, norm(o)), map[string]interface{}{"canonical": t.canon, "relayout": v, "observed": o, "canonical_observed": o0})
				}
			}
		}
		// the two documented exceptions, and the repaired # comment defect
		for _, t := range [][2]string{{"<%= n - 1 %>", "2"}, {"<%= 1 # c\n+2 %>", "3"}, {"<%= len(# c\nxs) %>", "2"}, {"<%= # c\nlen(xs) %>", "2"}, {"<%= 1 #\n+2 %>", "3"}, {"<% let q = 1\n#\nq = q + 2 %><%= q %>", "3"}, {"<% let q = 1 #\nq = q + 2\n#\n %><%= q %>", "3"}, {"<%= 1 #\r\n+2 %>", "3"}, {"<%=n%>", "3"}, {"<%=\nn\n%>", "3"}, {"<%let q=n;q=q+1%><%=q%>", "4"}} {
			c := RCase{Tmpl: t[0], Binds: binds}
			o := e.addRenderCase("fixed", c)
			if o.Class != "OK" || o.Out != t[1] {
				e.Violate("c18-layout", fmt.Sprintf("%q rendered %q (%s %s), want %q", t[0], o.Out, o.Class, o.Msg, t[1]), map[string]interface{}{"case": c.Tmpl, "observed": o})
			}
		}
		// a comment tag whose text holds an unbalanced quote (recorded finding: the text of a
		// comment tag is tokenized, so the quote opens a string that swallows what follows)
		for _, t := range [][2]string{
			{"a<%# say \"hi %>b<%= n %>c", "ab3c"}, {"a<%# it`s %>b<%= n %>c<%= \"x\" %>", "ab3cx"}, {"<%= n %><%# \" %>|<%= n %>", "3|3"},
		} {
			c := RCase{Tmpl: t[0], Binds: binds}
			o := e.addRenderCase("comment-quote", c)
			if o.Class != "OK" || o.Out != t[1] {
				e.Violate("c18-comment-tag-with-quote", fmt.Sprintf("%q rendered %q (%s %s), want %q: the quote inside the comment tag is lexed as the start of a string", t[0], o.Out, o.Class, o.Msg, t[1]), map[string]interface{}{"case": c.Tmpl, "observed": o})
			}
		}
	})
}

// a statement after a for's closing brace in the same tag is the known finding F12
func c18afterKey(prog []litem18, o0, o RObs) string {
	var hasFor func(items []litem18) bool
	hasFor = func(items []litem18) bool {
		for _, it := range items {
			if it.kind == "for" && len(it.after) > 0 {
				return true
			}
			if hasFor(it.body) || hasFor(it.els) {
				return true
			}
		}
		return false
	}
	if hasFor(prog) {
		return "c18-statement-after-for-brace"
	}
	return "c18-layout"
}
