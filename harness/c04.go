package main

import (
	"fmt"
	"html/template"
	"os"
	"os/exec"
	"regexp"
	"strings"
	"syscall"
	"time"

	"github.com/gobuffalo/plush/v5"
	"github.com/gobuffalo/plush/v5/helpers/hctx"
)

// ---- C04: evaluation is total -------------------------------------------------

// the value pool: name -> description (shared with the model) ...
func c04pool() []Bind {
	return []Bind{
		{"vnil", vNil()}, {"vt", vBool(true)}, {"vf", vBool(false)}, {"vi", vInt(3)}, {"vz", vInt(0)}, {"vneg", vInt(-2)},
		{"vfl", vFloat("1.5")}, {"vs", vStr("str")}, {"vre", vStr("(")}, {"vre2", vStr("a[")}, {"ve", vStr("")}, {"vh", vHTML("<b>")}, {"vhe", vHTML("")},
		// value-dependent paths of the helpers: longer than the default sizes, multi-byte
		{"vlong", vStr(strings.Repeat("世", 20))}, {"vlonga", vStr(strings.Repeat("ab<", 24))},
		{"vxs", vSlice("iface", vInt(1), vStr("a"))}, {"vxe", vSlice("iface")}, {"vss", vSlice("string", vStr("a"), vStr("b"))}, {"vis", vSlice("int", vInt(1), vInt(2))},
		{"vts", vSlice("T0", vT0("e0"))},
		{"vm", vMap("string", "iface", vStr("a"), vInt(1))}, {"vmi", vMap("string", "int", vStr("a"), vInt(1))}, {"vms", vMap("string", "string", vStr("a"), vStr("x"))},
		{"vim", vMap("int", "string", vInt(1), vStr("one"))}, {"vmm", vMap("iface", "iface", vStr("a"), vInt(1), vInt(2), vStr("two"))},
		{"vt0", vT0("t0")}, {"vt1", vT1("t1")}, {"vp1", vPtr(vT1("p1"))}, {"vp0", vPtr(vT0("p0"))}, {"vnp", VD{K: "nilptr", Tn: "T0"}},
		{"vfn0", vGo(106, vInt(0), vStr("r"))}, {"vfn2", vGo(106, vInt(2), vStr("r"))}, {"vfnv", vGo(106, vInt(7), vStr("r"))}, {"vid", vGo(107)},
	}
}

// ... plus Go-only kinds the model does not represent (judged by the panic oracle only)
type namedS string
type namedI int
type strer struct{}

func (strer) String() string { return "<strer>" }

type htmlerT struct{ s string }

func (h htmlerT) HTML() template.HTML { return template.HTML(h.s) }

type embE struct{ X string }
type c04lbl struct{ Name string }

func (l *c04lbl) String() string { return "lbl:" + l.Name }

type c04priv struct {
	label   *c04lbl
	updated *time.Time
	count   *int
	name    string
	html    *htmlerT
	Label   *c04lbl
	iface   fmt.Stringer
	list    []*c04lbl
	nilp    *c04lbl
}

type namedB bool
type namedF float64
type c04nh template.HTML

type c04stack []int

func (s *c04stack) Pop() int {
	if len(*s) == 0 {
		return -1
	}
	v := (*s)[len(*s)-1]
	*s = (*s)[:len(*s)-1]
	return v
}
func (s *c04stack) Push(v int) int { *s = append(*s, v); return len(*s) }
func (s *c04stack) Clear() string  { *s = (*s)[:0]; return "" }

type c04verr struct{}

func (c04verr) Error() string { return "verr" }

type c04terr string

func (e c04terr) Error() string { return string(e) }

type c04perr struct{}

func (*c04perr) Error() string { return "perr" }

type c04self struct{}

func (p c04self) Interface() interface{} { return p }

type c04cycA struct{}
type c04cycB struct{}

func (p c04cycA) Interface() interface{} { return c04cycB{} }
func (p c04cycB) Interface() interface{} { return c04cycA{} }

type c04wrap struct{ v interface{} }

func (p c04wrap) Interface() interface{} { return p.v }

// a context that is not a *plush.Context (Exec accepts any hctx.Context)
type c04fctx struct{ *plush.Context }

type embO struct {
	*embE
	Y string
}
type dynK struct{ V interface{} }

// a nullable column type in the style of gobuffalo/nulls: Interface() has a value receiver
type nullS struct {
	S     string
	Valid bool
}

func (n nullS) Interface() interface{} {
	if !n.Valid {
		return nil
	}
	return n.S
}

// helper-context parameter kinds
type namedHC plush.HelperContext
type implHC struct{ hctx.HelperContext } // merely implements the interface

type docB struct{ ID []byte }
type docS struct{ Slug []string }
type docM struct{ ID map[string]int }

var tm0 = time.Unix(0, 0).UTC()

func c04extra() map[string]interface{} {
	var pp **T0
	t0 := &T0{"pp"}
	pp = &t0
	var ni interface{} = (*T1)(nil)
	return map[string]interface{}{
		"xi8": int8(-3), "xu8": uint8(200), "xi64": int64(1 << 40), "xu": uint(7), "xf32": float32(0.5), "xns": namedS("ns"), "xni": namedI(4),
		"xarr": [3]int{1, 2, 3}, "xarrs": [2]string{"a", "b"}, "xpp": pp, "xnilT1": ni, "xchan": make(chan int), "xtime": time.Unix(0, 0).UTC(),
		"xstrer": strer{}, "xhtmler": template.HTML("<h>"), "xmapstruct": map[T0]int{{"k"}: 1}, "xfnerr": func() error { return nil }, "xfnpanic": func(a, b, c, d, e int) {},
		"xnilslice": []string(nil), "xnilmap": map[string]interface{}(nil), "xiface": []interface{}{nil, 1}, "xfnvar": func(xs ...int) int { return len(xs) },
		"xfnmap": func(m map[string]interface{}) int { return len(m) }, "xbytes": []byte("hi"), "xptrslice": &[]int{1, 2}, "xptrmap": &map[string]int{"a": 1},
		// typed nil / non-nil pointers to printable structs, containers whose element or key type is a
		// non-empty interface, structs with uncomparable Slug / ID fields (pathFor compares them)
		"xniltime": (*time.Time)(nil), "xptime": &tm0, "xstringers": []fmt.Stringer{strer{}}, "xerrs": []error{fmt.Errorf("e")}, "xstrmap": map[fmt.Stringer]int{strer{}: 1},
		// typed nil func, typed nil pointers to types with String() / HTML() VALUE methods, a struct
		// promoting a field through a nil embedded pointer, a comparable-typed key with an
		// uncomparable dynamic value
		"xnilfn": (func() int)(nil), "xnilstrer": (*strer)(nil), "xnilhtmler": (*htmlerT)(nil), "xembed": embO{Y: "y"}, "xpembed": &embO{Y: "y"}, "xdynkey": dynK{V: []int{1}},
		"xidbytes": docB{ID: []byte{1, 2}}, "xidzero": docB{}, "xslugs": &docS{Slug: []string{"a"}}, "xidmap": docM{ID: map[string]int{"a": 1}}, "xidlist": []interface{}{docB{ID: []byte{3}}},
		// wrappers the sink unwraps through Interface(): one that hands back itself, two that hand back
		// each other, and an honest one three levels deep
		// maps whose interface-typed keys hold values of different kinds
		"xmixnum": map[interface{}]string{1: "a", 2.5: "b"}, "xmixint": map[interface{}]string{int(1): "a", uint(2): "b", int8(3): "c"}, "xmixfs": map[interface{}]int{1.5: 1, "x": 2, 2.5: 3},
		"xmixall": map[interface{}]interface{}{true: 1, "s": 2, 3: 3, 4.5: 4, [2]int{1, 2}: 5, T0{"k"}: 6, nil: 7, uint8(8): 8}, "xmixstr": map[fmt.Stringer]int{strer{}: 1, &c04lbl{"p"}: 2},
		// named basic types holding their zero values (an empty named string, a named false, a named 0)
		"xnsempty": namedS(""), "xnbfalse": namedB(false), "xnbtrue": namedB(true), "xnizero": namedI(0), "xnfzero": namedF(0), "xnhempty": c04nh(""),
		"xselfw": c04self{}, "xcycw": c04cycA{}, "xdeepw": c04wrap{c04wrap{c04wrap{7}}}, "xpselfw": &c04self{},
		"xhcnamed": func(h namedHC) (string, error) {
			hh := plush.HelperContext(h)
			if hh.HasBlock() {
				return hh.Block()
			}
			return fmt.Sprint(hh.Value("vi")), nil
		},
		"xhcvar": func(h plush.HelperContext, rest ...string) (string, error) {
			if h.HasBlock() {
				return h.Block()
			}
			return fmt.Sprint(h.Value("vi"), rest), nil
		},
		"xhcimpl": func(h implHC) string { return "impl" },
		"xvarstr": func(sep string, parts ...fmt.Stringer) string { return fmt.Sprint(len(parts)) },
		"xvarerr": func(es ...error) int { return len(es) },
		"xvarint": func(a int, xs ...int) int { return a + len(xs) },
		"xhciface": func(h hctx.HelperContext) (string, error) {
			if h.HasBlock() {
				return h.Block()
			}
			return fmt.Sprint(h.Value("vi")), nil
		},
		// nullable values: set, unset, and typed nil pointers to them (alone and as elements)
		"xnull": nullS{S: "n", Valid: true}, "xnullunset": nullS{}, "xpnull": &nullS{S: "n", Valid: true}, "xnilnull": (*nullS)(nil), "xnulls": []interface{}{(*nullS)(nil), nullS{}},
	}
}

// the call-site error of a built-in helper (the shipped global helpers) that quotes a recovered panic
var recoveredInBuiltin = regexp.MustCompile(`could not call (len|range|between|until|groupBy|truncate|raw|htmlEscape|jsEscape|toJSON|json|contentOf|contentFor|partial|pathFor|inspect|debug|form|formFor|form_for|env|envOr|capitalize|markdown|hasBlock)\b[^:]* function: (runtime error|reflect)`)

func (e *Env) c04case(tag string, tmpl string, modelled bool, extra map[string]interface{}) {
	c := RCase{Tmpl: tmpl, Binds: c04pool(), Parts: stdParts}
	var o RObs
	if modelled {
		o = e.addRenderCase(tag, c)
	} else {
		o = runRenderExtra(c, extra)
		e.rep.Evaluations++
		e.Count("render-" + tag + "-" + o.Class)
		if o.Class == "HANG" {
			e.Violate("render-hang", fmt.Sprintf("Render did not return within 5s on %q", tmpl), map[string]interface{}{"tmpl": tmpl})
		}
	}
	if o.Class == "PANIC" {
		e.Violate("eval-panic@"+siteOf(o.Msg), fmt.Sprintf("Render panicked on %q: %s", tmpl, o.Msg), map[string]interface{}{"tmpl": tmpl, "observed": o})
	}
	// a panic raised INSIDE a called function is reported by the call site as the call's error: for a
	// built-in helper that is still a helper that panicked (the text of a Go run-time panic gives it away)
	if o.Class == "ERR" && (strings.HasPrefix(tag, "builtin") || recoveredInBuiltin.MatchString(o.Msg)) && (strings.Contains(o.Msg, "runtime error:") || strings.Contains(o.Msg, "reflect: ") || strings.Contains(o.Msg, "reflect.Value.")) {
		e.Violate("eval-panic@recovered-in-builtin", fmt.Sprintf("a built-in helper panicked on %q (recovered at the call site): %s", tmpl, firstLine(o.Msg)), map[string]interface{}{"tmpl": tmpl, "observed": o})
	}
}

func init() {
	register("C04", func(e *Env) {
		renderPrelude()
		e.perShard = 60
		e.rep.Rule = "matrices over a pool of 29 modelled value kinds (+36 Go-only kinds judged by the panic oracle alone: small ints, named types, arrays, chans, typed nil pointers incl. *time.Time, containers with non-empty interface element / key types, structs with uncomparable ID / Slug fields, ...): (operator x left x right), (container x index x assigned value), (receiver x member/method), iterables, (callee x argument lists), (built-in x argument kinds, + long and multi-byte string values with sizes around the helpers' defaults); containers changed by the body of the loop over them, results of slice + used as receivers; plus random programs; every case runs under recover + watchdog, modelled cases are also re-evaluated by the Coq model; non-trivial = evaluation reached (parsed OK); distinct by template"
		pool := c04pool()
		names := []string{}
		for _, b := range pool {
			names = append(names, b.Name)
		}
		extra := c04extra()
		xnames := []string{}
		for k := range extra {
			xnames = append(xnames, k)
		}
		sortStrings(xnames)
		ops := []string{"+", "-", "*", "/", "<", "<=", ">", ">=", "==", "!=", "&&", "||", "~="}
		sub := names
		if !e.Thorough() {
			sub = []string{"vnil", "vt", "vi", "vz", "vfl", "vs", "vre", "ve", "vh", "vxs", "vss", "vm", "vt0", "vp1", "vnp", "vfn0"}
		}
		for _, op := range ops {
			for _, l := range sub {
				for _, r := range sub {
					e.c04case("op", fmt.Sprintf("<%%= %s %s %s %%>", l, op, r), op != "~=", nil)
				}
			}
			for _, x := range xnames {
				e.c04case("opx", fmt.Sprintf("<%%= %s %s vi %%>|<%%= vs %s %s %%>", x, op, op, x), false, extra)
			}
		}
		for _, l := range names {
			e.c04case("prefix", fmt.Sprintf("<%%= !%s %%><%%= if (%s) { %%>y<%% } %%><%%= %s %%>", l, l, l), true, nil)
		}
		for _, x := range xnames {
			e.c04case("prefixx", fmt.Sprintf("<%%= !%s %%><%%= if (%s) { %%>y<%% } %%><%%= %s %%><%%= len(%s) %%>", x, x, x, x), false, extra)
		}
		// containers x index x assigned
		conts := []string{"vxs", "vxe", "vss", "vis", "vts", "vm", "vmi", "vms", "vim", "vmm", "vs", "vi", "vnil", "vt1", "vp1", "[1,2]", "{a: 1}"}
		idxs := []string{"0", "1", "0 - 1", "99", `"a"`, `"zz"`, "vnil", "vt", "vfl", "vh", "vxs", "vi", "vt0"}
		vals := []string{"", "1", `"x"`, "vnil", "vt0", "vxs", "vfl"}
		for _, c := range conts {
			for _, i := range idxs {
				for _, v := range vals {
					if v == "" {
						e.c04case("index", fmt.Sprintf("<%%= %s[%s] %%>", c, i), true, nil)
					} else if c == "vxs" && v == "vxs" {
						// a slice stored into itself: see the cyclic-data witness below
						continue
					} else {
						e.c04case("assign", fmt.Sprintf("<%% %s[%s] = %s %%><%%= %s %%>", c, i, v, c), !strings.HasPrefix(c, "[") && !strings.HasPrefix(c, "{"), nil)
					}
				}
			}
		}
		for _, x := range xnames {
			for _, i := range []string{"0", "0 - 1", `"a"`, "vnil", "vt0"} {
				e.c04case("indexx", fmt.Sprintf("<%%= %s[%s] %%><%% %s[%s] = 1 %%><%% %s[%s] = vnil %%>", x, i, x, i, x, i), false, extra)
			}
		}
		// receivers x members
		recvs := []string{"vt1", "vp1", "vt0", "vp0", "vnp", "vnil", "vi", "vs", "vxs", "vm", "vt1.In", "vt1.PIn", "vt1.NilP", "vt1.Ins[0]", "vt1.M[\"k\"]", "vfn0", "undefinedVar"}
		membs := []string{".Name", ".In", ".Nope", ".priv", ".Hello(\"a\")", ".PHello()", ".Get()", ".Nope()", ".Hello()", ".Hello(1)", ".Hello(\"a\", \"b\")", ".Name()", ".In.Name", ".Get().Name", ".Ins[0].Name", ".Ins[9].Name", ".Tags[0]"}
		for _, r := range recvs {
			for _, m := range membs {
				e.c04case("member", fmt.Sprintf("<%%= %s%s %%>", r, m), true, nil)
			}
		}
		for _, x := range xnames {
			e.c04case("memberx", fmt.Sprintf("<%%= %s.Name %%>", x), false, extra)
			e.c04case("memberx", fmt.Sprintf("<%%= %s.X %%>|<%%= %s.Y %%>|<%%= %s.V %%>", x, x, x), false, extra)
			e.c04case("keyx", fmt.Sprintf("<%%= vmm[%s] %%><%% vmm[%s] = 1 %%><%%= vm[%s] %%>", x, x, x), false, extra)
			e.c04case("memberx", fmt.Sprintf("<%%= %s.String() %%>", x), false, extra)
			e.c04case("memberx", fmt.Sprintf("<%%= %s.Hello(1) %%>", x), false, extra)
		}
		// iterables
		for _, it := range append(append([]string{}, names...), "range(1,3)", "until(2)", "groupBy(2, vxs)", "undefinedVar", "vt1.Ins", "vt1.Tags", "vt1.M") {
			e.c04case("iter", fmt.Sprintf("<%%= for (k, v) in %s { %%><%%= k %%>=<%%= v %%>;<%% } %%>", it), !strings.Contains(it, "vmm") && !strings.Contains(it, ".M"), nil)
		}
		for _, x := range xnames {
			e.c04case("iterx", fmt.Sprintf("<%%= for (k, v) in %s { %%><%%= k %%><%% } %%>", x), false, extra)
		}
		// callee x argument lists
		callees := []string{"rec0", "rec1", "rec2", "rec3", "rec4", "rec5", "rec6", "rec7", "rec8", "rec9", "rec10", "rec11", "rec12", "rec13", "rec14", "rec15", "rec16", "rec17", "rec18", "id", "vi", "vs", "vnil", "vxs", "vt0", "undefinedFn", "blk", "blkctx", "cnt", "fail1", "mkhtml"}
		args := []string{"1", `"a"`, "vnil", "vt", "vxs", "{k: 1}", "vt0", "vp0", "vfl", "vh", "nil"}
		maxA := 2
		if e.Thorough() {
			maxA = 3
		}
		var lists []string
		var recA func(prefix []string, d int)
		recA = func(prefix []string, d int) {
			lists = append(lists, strings.Join(prefix, ", "))
			if d == maxA {
				return
			}
			for _, a := range args {
				recA(append(append([]string{}, prefix...), a), d+1)
			}
		}
		recA(nil, 0)
		stdb := stdBinds()
		for _, cal := range callees {
			for _, al := range lists {
				c := RCase{Tmpl: fmt.Sprintf("<%%= %s(%s) %%>", cal, al), Binds: append(append([]Bind{}, pool...), stdb...), Parts: stdParts}
				o := e.addRenderCase("call", c)
				if o.Class == "PANIC" {
					e.Violate("eval-panic@"+siteOf(o.Msg), fmt.Sprintf("Render panicked on %q: %s", c.Tmpl, o.Msg), map[string]interface{}{"tmpl": c.Tmpl, "observed": o})
				}
			}
		}
		// helpers whose context parameter has a named type, comes before a variadic tail, or is an
		// explicit nil: the context they get must be usable (scope and block present)
		for _, t := range []string{"<%= xhcnamed() %>", "<%= xhcnamed(nil) %>", "<%= xhcnamed() { %>b<% } %>", "<%= xhcvar(nil, \"a\") %>", "<%= xhcvar(nil) { %>b<% } %>",
			"<%= xhcvar(nil, \"a\", \"b\") { %>b<%= vi %><% } %>", "<%= xhcimpl() %>", "<%= xhcimpl(nil) %>", "<%= xhciface(nil) { %>b<% } %>", "<%= xhciface() %>"} {
			e.c04case("helper-context-kinds", t, false, extra)
		}
		// variadic helpers: every argument kind in the variadic tail, element types that are interfaces with methods
		for _, cal := range []string{"xvarstr(\",\"", "xvarerr(", "xvarint(1", "xfnvar("} {
			for _, a := range append(append([]string{}, args...), "xstrer", "xnilstrer", "xerrs", "xnilfn", "xarr") {
				sep := ", "
				if strings.HasSuffix(cal, "(") {
					sep = ""
				}
				e.c04case("variadic-kinds", fmt.Sprintf("<%%= %s%s%s) %%>", cal, sep, a), false, extra)
				e.c04case("variadic-kinds", fmt.Sprintf("<%%= %s%s%s, %s) %%>", cal, sep, "xstrer", a), false, extra)
			}
		}
		for _, x := range []string{"xfnerr", "xfnpanic", "xfnvar", "xfnmap", "xchan", "xtime"} {
			for _, al := range lists[:40] {
				e.c04case("callx", fmt.Sprintf("<%%= %s(%s) %%>", x, al), false, extra)
			}
		}
		// user functions
		for _, al := range lists {
			e.c04case("userfn", fmt.Sprintf("<%% let g = fn(a, b) { return a } %%><%%= g(%s) %%>", al), true, nil)
		}
		// built-ins x argument kinds
		builtins := []string{"len", "range", "between", "until", "groupBy", "truncate", "raw", "htmlEscape", "jsEscape", "toJSON", "json", "contentOf", "contentFor", "partial",
			"capitalize", "camelize", "pluralize", "inspect", "debug", "env", "envOr", "pathFor", "underscore", "form", "form_for"}
		for _, b := range builtins {
			for _, al := range lists {
				if len(al) > 24 {
					continue
				}
				mod := b == "len" || b == "range" || b == "between" || b == "until" || b == "groupBy" || b == "truncate" || b == "raw" || b == "htmlEscape" || b == "jsEscape" || b == "contentOf" || b == "contentFor" || b == "partial"
				e.c04case("builtin", fmt.Sprintf("<%%= %s(%s) %%>", b, al), mod, nil)
			}
			for _, x := range xnames {
				// one call per template: a rejected first call must not hide the second
				e.c04case("builtinx", fmt.Sprintf("<%%= %s(%s) %%>", b, x), false, extra)
				e.c04case("builtinx", fmt.Sprintf("<%%= for (g) in %s(1, %s) { %%><%%= g %%><%% } %%>", b, x), false, extra)
				e.c04case("builtinx", fmt.Sprintf("<%%= %s(2, %s) %%>", b, x), false, extra)
			}
			// value-dependent paths: strings longer than the helpers' default sizes, multi-byte
			for _, al := range []string{"vlong", "vlonga", "vlong, {size: 45}", `vlong, {size: 45, trail: ""}`, "vlong, {size: 21}", "vlong, {size: 19, trail: vlong}", "vlonga, {size: 70, trail: vlong}", "vlonga, {size: 71}", `vlong + vlonga, {size: 64}`, "2, vlong", "vlong, vlonga"} {
				e.c04case("builtin-long", fmt.Sprintf("<%%= %s(%s) %%>", b, al), false, nil)
			}
		}
		// groupBy: every (size, length) shape, the groups drained and their elements printed
		for size := 0; size <= 7; size++ {
			for n := 0; n <= 9; n++ {
				els := make([]string, n)
				for i := range els {
					els[i] = fmt.Sprint(i + 1)
				}
				e.c04case("groupby-shapes", fmt.Sprintf("<%%= for (g) in groupBy(%d, [%s]) { %%>[<%%= for (x) in g { %%><%%= x %%><%% } %%>]<%% } %%>", size, strings.Join(els, ", ")), true, nil)
			}
		}
		// cyclic data built by the template itself: runs in a subprocess because a
		// Go stack overflow is fatal for the whole process
		if out, err := exec.Command(os.Args[0], "-prop", "C04", "-witness", "cyclic").CombinedOutput(); err != nil && strings.Contains(string(out), "stack overflow") {
			e.Violate("c04-cyclic-slice-stack-overflow", "<% vxs[0] = vxs %><%= vxs %>: a slice stored into itself makes compiler.write recurse for ever; the process dies with a fatal stack overflow", map[string]string{"tmpl": "<% vxs[0] = vxs %><%= vxs %>"})
		}
		e.rep.Evaluations++
		// a container changed by the body of the loop that iterates over it; results of slice + used as receivers
		for _, t := range []string{
			`<%= for (k, v) in m3 { %><% m3["a"] = nil %><% m3["b"] = nil %><% m3["c"] = nil %><%= k %><% } %>`,
			`<%= for (k, v) in m3 { %><% m3[k] = nil %><% m3["z" + k] = 1 %><%= v %><% } %>`,
			`<%= for (i, v) in sl3 { %><% sl3[2] = nil %><% sl3[0] = sl3 + 1 %><%= i %><% } %>`,
			`<% let b = sl3 + 1 %><%= b.Index(9) %>`, `<% let b = sl3 + 1 %><%= b.Len() %>|<%= b %>|<%= len(b) %>|<%= b[3] %>`, `<% let b = sl3 + 1 %><% b.SetLen(1) %><%= b %>`,
			`<% let b = (sl3 + 1) + 2 %><%= b %><%= for (x) in sl3 + 1 { %><%= x %><% } %>`, `<% let b = sl3 + nil %><%= b %>`,
		} {
			e.c04case("mutate-while-iterating", t, false, map[string]interface{}{"m3": map[string]interface{}{"a": 1, "b": 2, "c": 3}, "sl3": []interface{}{1, 2, 3}})
		}
		// the repaired defects stay in the corpus
		for _, t := range []string{`<%= vm[vnil] %>`, `<% vmi["b"] = "x" %>`, `<% vmi[1] = 1 %>`, `<% vxs[0] = vnil %>`, `<%= vxs[0 - 1] %>`, `<%= len(1) %>`, `<%= truncate("abc", {size: "x"}) %>`, `<% let g = fn(a, b) { return a } %><%= g(1) %>`, `<%= vt1.NilP.Hello("x") %>`, `<%= {let: 1} %>`} {
			e.c04case("corpus", t, true, nil)
		}
		// a loop over a POINTER to a slice whose body shortens (or lengthens) that slice through the pointer:
		// the loop ends early or goes on - it does not index past the end
		for _, tm := range []string{"<%= for (i, v) in stack { %><%= stack.Pop() %>,<% } %>", "<%= for (v) in stack { %><%= stack.Pop() %><%= stack.Pop() %>;<% } %>", "<%= for (i, v) in stack { %><%= stack.Push(i) %><%= if (i > 6) { break } %><% } %>",
			"<%= for (v) in stack { %><%= for (w) in stack { %><%= stack.Pop() %><% } %><% } %>", "<%= for (v) in stack { %><%= stack.Clear() %>x<% } %>|<%= len(stack) %>"} {
			st := c04stack{1, 2, 3, 4}
			e.c04case("shrinking-slice", tm, false, map[string]interface{}{"stack": &st})
		}
		// helpers whose LAST result has a type that implements error BY VALUE (a struct, an errno-like integer, a
		// named string) or is a concrete pointer type, nil or not: the render fails or succeeds, it does not panic
		{
			extra := map[string]interface{}{
				"estruct": func() (string, c04verr) { return "s", c04verr{} }, "eerrno": func() (int, syscall.Errno) { return 1, syscall.Errno(2) }, "eerrno0": func() (int, syscall.Errno) { return 1, syscall.Errno(0) },
				"etext": func() c04terr { return c04terr("t") }, "eptrnil": func() (string, *c04perr) { return "ok", nil }, "eptr": func() (string, *c04perr) { return "no", &c04perr{} },
				"eiface": func() (string, fmt.Stringer) { return "ok", nil }, "earr": func() [2]error { return [2]error{} }, "efn": func() (string, func() error) { return "ok", nil },
			}
			for _, f := range []string{"estruct", "eerrno", "eerrno0", "etext", "eptrnil", "eptr", "eiface", "earr", "efn"} {
				for _, form := range []string{"<%= X() %>", "<% let q = X() %>ok", "<%= if (X()) { %>y<% } %>", "<%= for (i) in [1] { %><%= X() %><% } %>"} {
					e.c04case("error-result-kinds", strings.Replace(form, "X", f, 1), false, extra)
				}
			}
		}
		// element assignment into ARRAYS held by value (not addressable) and behind pointers, of every element
		// type incl. interfaces, with nil and values of every kind: an error or the assignment, never a panic
		{
			ai, ae, as, an := [2]interface{}{1, "b"}, [1]error{nil}, [2]fmt.Stringer{strer{}, nil}, [2]int{1, 2}
			extra := map[string]interface{}{"ai": ai, "ae": ae, "as": as, "an": an, "pai": &ai, "pan": &an, "mai": map[string][2]interface{}{"a": ai}, "sai": struct{ A [2]interface{} }{ai}, "lai": [][2]interface{}{ai}}
			for _, target := range []string{"ai[0]", "ae[0]", "as[1]", "an[0]", "pai[1]", "pan[1]", "ai[5]", "mai[\"a\"]", "lai[0]"} {
				for _, v := range []string{"nil", "1", "\"s\"", "vt0", "[1]", "ai", "vnil"} {
					e.c04case("array-element-assign", "<% "+target+" = "+v+" %>ok", false, extra)
				}
			}
		}
		// block helpers called WITHOUT a block, alone and followed by what would replay the block
		for _, tm := range []string{`<% contentFor("a") %><%= contentOf("a") %>`, `<% contentFor("a") %><%= contentOf("a", {"label": "x"}) %>`, `<% contentFor("a") %><%= contentOf("a") { %>d<% } %>`,
			`<%= contentOf("a") %>`, `<%= blk() %>`, `<%= blkctx({w: 1}) %>`, `<%= blk2() %>`, `<% contentFor("a") %><% contentFor("a") { %>x<% } %><%= contentOf("a") %>`, `<%= for (i) in [1, 2] { %><% contentFor("l") %><%= contentOf("l") %><% } %>`} {
			e.c04case("builtin-noblock", tm, false, map[string]interface{}{})
		}
		// unexported struct fields of every shape (pointers to types that print themselves included), on a
		// value and on a pointer receiver: reading one is an error (or nothing), never a panic
		{
			lbl, n, tv := &c04lbl{"l"}, 3, time.Unix(0, 0).UTC()
			rv := c04priv{label: lbl, updated: &tv, count: &n, name: "n", html: &htmlerT{}, Label: lbl, iface: lbl, list: []*c04lbl{lbl}}
			extra := map[string]interface{}{"r": rv, "pr": &rv, "rs": []c04priv{rv}}
			for _, recv := range []string{"r", "pr", "rs[0]"} {
				for _, f := range []string{"label", "updated", "count", "name", "html", "Label", "iface", "list", "nilp"} {
					for _, form := range []string{"<%= X %>", "<% let q = X %><%= q %>", "<%= if (X) { %>y<% } %>", "<%= X.Name %>", "<%= for (v) in [1] { %><%= X %><% } %>"} {
						tm := strings.Replace(form, "X", recv+"."+f, 1)
						o := runRenderExtra(RCase{Tmpl: tm}, extra)
						e.rep.Evaluations++
						e.Count("unexported-fields")
						if o.Class == "PANIC" || o.Class == "HANG" {
							e.Violate("eval-panic@"+siteOf(o.Msg), fmt.Sprintf("Render panicked on %q: %s", tm, o.Msg), map[string]interface{}{"tmpl": tm, "observed": o})
						}
					}
				}
			}
		}
		// a foreign hctx.Context (a struct embedding *plush.Context) handed to Exec: constructs that open a
		// scope need the data of a *plush.Context - an error, never a failed type assertion
		for _, tm := range []string{"<%= 1 %>", "<%= for (x) in [1, 2] { %><%= x %><% } %>", "<%= vxs[0] %>", "<%= vt1.Get().Name %>", "<%= vm[\"k\"] %>", "<% let f = fn(a) { return a } %><%= f(1) %>",
			"<%= if (true) { %>a<% } %>", "<%= vxs[0].Name %>", "<%= blk() { %>b<% } %>", "<%= blkctx({w: 1}) { %>b<% } %>", "<%= partial(\"p.html\", {who: 1}) %>"} {
			func() {
				defer func() {
					if r := recover(); r != nil {
						e.Violate("eval-panic@"+siteOf(fmt.Sprint(r)+" @ "+panicSite()), fmt.Sprintf("Exec with a context that is not a *plush.Context panicked on %q: %v", tm, r), map[string]string{"tmpl": tm})
					}
				}()
				t, err := plush.NewTemplate(tm)
				if err != nil {
					return
				}
				data := map[string]interface{}{}
				for _, b := range stdBinds() {
					data[b.Name] = b.V.Go(&runLog{})
				}
				for _, b := range c04pool() {
					data[b.Name] = b.V.Go(&runLog{})
				}
				_, _ = t.Exec(c04fctx{plush.NewContextWith(data)})
				e.rep.Evaluations++
				e.Count("foreign-context")
			}()
		}
	})
}
