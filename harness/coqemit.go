package main

import (
	"encoding/hex"
	"fmt"
	"os"
	"path/filepath"
	"sort"
	"strings"
)

// Coq term helpers ---------------------------------------------------------

func cqBytes(s string) string { return fmt.Sprintf("(hx \"%s\")", hex.EncodeToString([]byte(s))) }

func cqList(items []string) string { return "[" + strings.Join(items, "; ") + "]" }

func cqNat(n int) string { return fmt.Sprintf("%d%%nat", n) }

func cqN(n uint64) string { return fmt.Sprintf("%d%%N", n) }

func cqZ(n int64) string {
	if n < 0 {
		return fmt.Sprintf("(%d)%%Z", n)
	}
	return fmt.Sprintf("%d%%Z", n)
}

func cqBool(b bool) string {
	if b {
		return "true"
	}
	return "false"
}

func cqOpt(s string, some bool) string {
	if some {
		return "(Some " + s + ")"
	}
	return "None"
}

// Shards --------------------------------------------------------------------
//
// A shard file is
//   <prelude for kind>
//   Definition cases := [ c1; c2; ... ].
//   Definition M := Eval vm_compute in mism <checkfn> cases 0.
//   Print M.
// and the check script greps for "M = []".

var shardPrelude = map[string]string{}
var shardCheck = map[string]string{}

// AddCase appends a case term (a Coq expression of the kind's case type).
func (e *Env) AddCase(kind, id, term string, replay interface{}) {
	if e.shardKind != "" && (e.shardKind != kind || len(e.shardBuf) >= e.perShard) {
		e.flushShard()
	}
	e.shardKind = kind
	e.shardBuf = append(e.shardBuf, term)
	e.shardIDs = append(e.shardIDs, id)
	if replay != nil {
		e.replays[id] = replay
		if len(e.rep.Samples) < 3 {
			e.rep.Samples = append(e.rep.Samples, replay)
		}
	}
}

func (e *Env) flushShard() {
	if len(e.shardBuf) == 0 {
		return
	}
	name := fmt.Sprintf("shard_%03d.v", e.shardN)
	e.shardN++
	var b strings.Builder
	b.WriteString("From Coq Require Import String.\n")
	b.WriteString(shardPrelude[e.shardKind])
	b.WriteString("\nLocal Open Scope string_scope.\n")
	body := strings.Join(e.shardBuf, ";\n")
	var hs []string
	for name := range hoisted {
		if strings.Contains(body, name) {
			hs = append(hs, name)
		}
	}
	sort.Strings(hs)
	for _, name := range hs {
		b.WriteString("Definition " + name + " : " + hoisted[name][0] + " := " + hoisted[name][1] + ".\n")
	}
	b.WriteString("Definition cases := [\n")
	b.WriteString(body)
	b.WriteString("\n].\n")
	if shardCheck[e.shardKind] == "RENDER" {
		b.WriteString("Definition MU := Eval vm_compute in classify (check_render names) cases 0.\nDefinition M := Eval vm_compute in fst MU.\nDefinition U := Eval vm_compute in snd MU.\nPrint M.\nPrint U.\n")
	} else {
		b.WriteString("Definition M := Eval vm_compute in mism " + shardCheck[e.shardKind] + " cases 0.\nPrint M.\n")
	}
	if err := os.WriteFile(filepath.Join(e.OutDir, name), []byte(b.String()), 0o644); err != nil {
		panic(err)
	}
	e.rep.Shards = append(e.rep.Shards, name)
	e.allIDs = append(e.allIDs, e.shardIDs)
	e.shardBuf = nil
	e.shardIDs = nil
}
