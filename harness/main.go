// Command harness runs generated cases against the real gobuffalo/plush built
// from /repo's working tree, judges them with implementation-side oracles, and
// writes Coq case files (shard_*.v) in which the model re-computes every
// observation under vm_compute.
package main

import (
	"encoding/json"
	"flag"
	"fmt"
	"os"
	"path/filepath"
	"sort"
	"strings"
)

// Violation is something an implementation-side oracle found.
type Violation struct {
	Key    string      `json:"key"`    // stable class id (matched against known_findings.txt)
	Desc   string      `json:"desc"`   // human description
	Replay interface{} `json:"replay"` // the concrete input / history
}

// Report is what a property driver returns to the check script.
type Report struct {
	Property     string            `json:"property"`
	Evaluations  int               `json:"evaluations"`
	Distinct     int               `json:"distinct_nontrivial"`
	Rule         string            `json:"rule"`
	Samples      []interface{}     `json:"samples"`
	Exhaustive   bool              `json:"exhaustive"`
	Distribution map[string]int    `json:"distribution"`
	Violations   []Violation       `json:"violations"`
	Shards       []string          `json:"shards"`
	CaseIndex    map[string]string `json:"-"`
	Notes        []string          `json:"notes"`
}

type Env struct {
	Tier   string
	Seed   uint64
	OutDir string
	Rng    *Rng
	rep    *Report
	// case sink
	shardN    int
	shardBuf  []string // case terms of the current shard
	shardIDs  []string
	shardKind string
	perShard  int
	allIDs    [][]string
	replays   map[string]interface{}
	distinct  map[string]bool
	hangs     int
	nhang     int
}

func (e *Env) Thorough() bool { return e.Tier == "thorough" }

func (e *Env) Count(k string) {
	if e.rep.Distribution == nil {
		e.rep.Distribution = map[string]int{}
	}
	e.rep.Distribution[k]++
}

func (e *Env) Violate(key, desc string, replay interface{}) {
	if len(e.rep.Violations) < 200 {
		e.rep.Violations = append(e.rep.Violations, Violation{key, desc, replay})
	}
	// a call that does not return keeps its goroutine spinning for ever (it cannot be killed): after
	// a few of them the run is cut short - the violations found so far are the result
	if strings.Contains(strings.ToLower(key), "hang") {
		e.nhang++
		if e.nhang >= 3 {
			e.finish()
			os.Exit(0)
		}
	}
}

// finish writes the report, the replay table and the shard index.
func (e *Env) finish() {
	e.flushShard()
	e.rep.Distinct = len(e.distinct)
	b, _ := json.MarshalIndent(e.rep, "", " ")
	if err := os.WriteFile(filepath.Join(e.OutDir, "report.json"), b, 0o644); err != nil {
		panic(err)
	}
	rb, _ := json.Marshal(e.replays)
	os.WriteFile(filepath.Join(e.OutDir, "cases.json"), rb, 0o644)
	ib, _ := json.Marshal(e.allIDs)
	os.WriteFile(filepath.Join(e.OutDir, "shard_ids.json"), ib, 0o644)
	fmt.Printf("harness: %s evaluations=%d distinct=%d violations=%d shards=%d\n", e.rep.Property, e.rep.Evaluations, e.rep.Distinct, len(e.rep.Violations), len(e.rep.Shards))
}

func (e *Env) Sample(s interface{}) {
	if len(e.rep.Samples) < 6 {
		e.rep.Samples = append(e.rep.Samples, s)
	}
}

// Distinct records a canonical form of a non-trivial case.
func (e *Env) Distinct(canon string) {
	if e.distinct == nil {
		e.distinct = map[string]bool{}
	}
	e.distinct[canon] = true
}

type propFn func(e *Env)

var props = map[string]propFn{}

func register(id string, f propFn) { props[id] = f }

func main() {
	prop := flag.String("prop", "", "property id")
	tier := flag.String("tier", "quick", "quick|thorough")
	seed := flag.Uint64("seed", 1, "seed")
	out := flag.String("out", "", "output directory")
	replay := flag.String("replay", "", "replay file")
	witness := flag.String("witness", "", "run one named witness in this process")
	flag.Parse()
	f, ok := props[*prop]
	if !ok {
		ids := []string{}
		for k := range props {
			ids = append(ids, k)
		}
		sort.Strings(ids)
		fmt.Fprintf(os.Stderr, "unknown property %q (have %s)\n", *prop, strings.Join(ids, " "))
		os.Exit(2)
	}
	if *witness == "cyclic" {
		o := runRender(RCase{Tmpl: "<% vxs[0] = vxs %><%= vxs %>", Binds: c04pool()})
		fmt.Println(o.Class)
		return
	}
	if *witness == "cfshared" {
		fmt.Println(c14ContentForSharedParent())
		return
	}
	if *replay != "" {
		doReplay(*prop, *replay)
		return
	}
	if err := os.MkdirAll(*out, 0o755); err != nil {
		panic(err)
	}
	e := &Env{Tier: *tier, Seed: *seed, OutDir: *out, Rng: NewRng(*seed), rep: &Report{Property: *prop}, perShard: 400, replays: map[string]interface{}{}}
	f(e)
	e.finish()
}
