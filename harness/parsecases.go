package main

import (
	"encoding/hex"
	"fmt"
	"reflect"
	"regexp"
	"strconv"
	"strings"
	"time"

	"github.com/gobuffalo/plush/v5/ast"
	"github.com/gobuffalo/plush/v5/parser"
	"github.com/gobuffalo/plush/v5/token"
)

func hxs(s string) string { return "x" + hex.EncodeToString([]byte(s)) }

func isNilExpr(e ast.Expression) bool {
	if e == nil {
		return true
	}
	rv := reflect.ValueOf(e)
	return rv.Kind() == reflect.Ptr && rv.IsNil()
}

func dumpBlock(b *ast.BlockStatement) string {
	if b == nil {
		return "_"
	}
	var sb strings.Builder
	sb.WriteString("{")
	for _, s := range b.Statements {
		sb.WriteString(dumpStmt(s))
	}
	sb.WriteString("}")
	return sb.String()
}

func dumpExpr(e ast.Expression) string {
	if isNilExpr(e) {
		return "_"
	}
	switch t := e.(type) {
	case *ast.Identifier:
		vals := []string{}
		for n := t; n != nil; n = n.Callee {
			vals = append([]string{hxs(n.Value)}, vals...)
		}
		return fmt.Sprintf("(id %s %s)", hxs(t.Token.Literal), strings.Join(vals, ","))
	case *ast.IntegerLiteral:
		return fmt.Sprintf("(int %s %d)", hxs(t.Token.Literal), t.Value)
	case *ast.FloatLiteral:
		return fmt.Sprintf("(flt %s)", hxs(t.Token.Literal))
	case *ast.StringLiteral:
		return fmt.Sprintf("(str %s %s)", hxs(t.Token.Literal), hxs(t.Value))
	case *ast.Boolean:
		b := "0"
		if t.Value {
			b = "1"
		}
		return fmt.Sprintf("(bool %s %s)", hxs(t.Token.Literal), b)
	case *ast.HTMLLiteral:
		return fmt.Sprintf("(html %s %s)", hxs(t.Token.Literal), hxs(t.Value))
	case *ast.PrefixExpression:
		return fmt.Sprintf("(pre %s %s)", hxs(t.Operator), dumpExpr(t.Right))
	case *ast.InfixExpression:
		return fmt.Sprintf("(inf %s %s %s)", hxs(t.Operator), dumpExpr(t.Left), dumpExpr(t.Right))
	case *ast.IfExpression:
		var sb strings.Builder
		for _, ei := range t.ElseIf {
			sb.WriteString("(" + dumpExpr(ei.Condition) + " " + dumpBlock(ei.Block) + ")")
		}
		return fmt.Sprintf("(if %s %s [%s] %s)", dumpExpr(t.Condition), dumpBlock(t.Block), sb.String(), dumpBlock(t.ElseBlock))
	case *ast.ForExpression:
		return fmt.Sprintf("(for %s %s %s %s)", hxs(t.KeyName), hxs(t.ValueName), dumpExpr(t.Iterable), dumpBlock(t.Block))
	case *ast.FunctionLiteral:
		ps := []string{}
		for _, p := range t.Parameters {
			ps = append(ps, hxs(p.Value))
		}
		return fmt.Sprintf("(fn %s [%s] %s)", hxs(t.Token.Literal), strings.Join(ps, ","), dumpBlock(t.Block))
	case *ast.CallExpression:
		var sb strings.Builder
		for _, a := range t.Arguments {
			sb.WriteString(dumpExpr(a))
		}
		return fmt.Sprintf("(call %s %s [%s] %s %s)", dumpExpr(t.Function), dumpExpr(t.Callee), sb.String(), dumpBlock(t.Block), dumpExpr(t.ChainCallee))
	case *ast.IndexExpression:
		return fmt.Sprintf("(idx %s %s %s %s)", dumpExpr(t.Left), dumpExpr(t.Index), dumpExpr(t.Value), dumpExpr(t.Callee))
	case *ast.ArrayLiteral:
		var sb strings.Builder
		for _, a := range t.Elements {
			sb.WriteString(dumpExpr(a))
		}
		return "(arr [" + sb.String() + "])"
	case *ast.HashLiteral:
		var sb strings.Builder
		for _, k := range t.Order {
			sb.WriteString("(" + dumpExpr(k) + " " + dumpExpr(t.Pairs[k]) + ")")
		}
		return "(hash [" + sb.String() + "])"
	case *ast.AssignExpression:
		var n ast.Expression
		if t.Name != nil {
			n = t.Name
		}
		return fmt.Sprintf("(asg %s %s)", dumpExpr(n), dumpExpr(t.Value))
	case *ast.BreakExpression:
		return fmt.Sprintf("(brk %s)", hxs(t.Token.Literal))
	case *ast.ContinueExpression:
		return fmt.Sprintf("(cnt %s)", hxs(t.Token.Literal))
	}
	return fmt.Sprintf("(UNKNOWN %T)", e)
}

func dumpStmt(s ast.Statement) string {
	switch t := s.(type) {
	case *ast.LetStatement:
		name := "_"
		if t.Name != nil {
			name = hxs(t.Name.Value)
		}
		return fmt.Sprintf("(let %d %s %s %s)", t.Token.LineNumber, hxs(t.Token.Literal), name, dumpExpr(t.Value))
	case *ast.ReturnStatement:
		e := "0"
		if t.Type == token.E_START {
			e = "1"
		}
		return fmt.Sprintf("(ret %d %s %s)", t.Token.LineNumber, e, dumpExpr(t.ReturnValue))
	case *ast.ExpressionStatement:
		return fmt.Sprintf("(expr %d %s)", t.Token.LineNumber, dumpExpr(t.Expression))
	}
	return fmt.Sprintf("(UNKNOWNSTMT %T)", s)
}

var lineRe = regexp.MustCompile(`^line (\d+):`)

type parseObs struct {
	Class string `json:"class"` // OK | ERR | PANIC | HANG
	Dump  string `json:"dump,omitempty"`
	Lines []int  `json:"lines,omitempty"`
	Msg   string `json:"msg,omitempty"`
}

// parseImpl runs parser.Parse under recover and a watchdog.
func parseImpl(input string) parseObs {
	ch := make(chan parseObs, 1)
	go func() {
		defer func() {
			if r := recover(); r != nil {
				ch <- parseObs{Class: "PANIC", Msg: fmt.Sprint(r) + " @ " + panicSite()}
			}
		}()
		prog, err := parser.Parse(input)
		if err != nil {
			o := parseObs{Class: "ERR", Msg: err.Error()}
			rv := reflect.ValueOf(err)
			if rv.Kind() == reflect.Slice {
				for i := 0; i < rv.Len(); i++ {
					m := lineRe.FindStringSubmatch(rv.Index(i).String())
					if m == nil {
						o.Lines = append(o.Lines, -1)
					} else {
						n, _ := strconv.Atoi(m[1])
						o.Lines = append(o.Lines, n)
					}
				}
			}
			ch <- o
			return
		}
		var sb strings.Builder
		for _, s := range prog.Statements {
			sb.WriteString(dumpStmt(s))
		}
		ch <- parseObs{Class: "OK", Dump: sb.String()}
	}()
	select {
	case o := <-ch:
		return o
	case <-time.After(3 * time.Second):
		return parseObs{Class: "HANG"}
	}
}

func parsePrelude() {
	shardPrelude["parse"] = "From Plush Require Import model.Bytes model.Lexer model.Ast model.Parser model.Cases.\n"
	shardCheck["parse"] = "check_parse"
}

// addParseCase records Parse's behaviour on input. PANIC and HANG are oracle
// violations of C03 and are not sent to the model.
func (e *Env) addParseCase(tag, input string) parseObs {
	o := parseImpl(input)
	e.rep.Evaluations++
	e.Count("parse-" + tag + "-" + o.Class)
	rp := map[string]interface{}{"input": input, "observed": o}
	switch o.Class {
	case "PANIC":
		e.Violate("parse-panic", fmt.Sprintf("Parse panicked on %q: %s", input, o.Msg), rp)
		return o
	case "HANG":
		e.hangs++
		e.Violate("parse-hang", fmt.Sprintf("Parse did not return within 3s on %q", input), rp)
		return o
	}
	term := ""
	if o.Class == "OK" {
		term = fmt.Sprintf("(%s, POk %s)", cqBytes(input), cqBytes(o.Dump))
		if len(o.Dump) > 0 {
			e.Distinct("parse/" + o.Dump)
		}
	} else {
		ls := make([]string, len(o.Lines))
		for i, n := range o.Lines {
			if n < 0 {
				n = 0
				e.Violate("error-without-line", fmt.Sprintf("syntax error without 'line N:' prefix for %q: %s", input, o.Msg), rp)
			}
			ls[i] = cqNat(n)
		}
		term = fmt.Sprintf("(%s, PErr %s)", cqBytes(input), cqList(ls))
	}
	e.AddCase("parse", fmt.Sprintf("parse-%d", e.rep.Evaluations), term, rp)
	return o
}
