package main

import (
	"encoding/json"
	"fmt"
	"os"
	"sort"
	"strings"

	"github.com/gobuffalo/plush/v5"
)

// ---- C10: Context as a chain of scopes, for every history -----------------

type c10op struct {
	Kind string         `json:"op"` // root | new | set | value | has
	C    int            `json:"c,omitempty"`
	K    string         `json:"k,omitempty"`
	V    int            `json:"v,omitempty"` // 0 = nil
	Data map[string]int `json:"data,omitempty"`
}

func c10classify(v interface{}) int {
	switch t := v.(type) {
	case nil:
		return 0
	case int:
		return t
	default:
		return 99 // a built-in helper (func value)
	}
}

// run a history on the real implementation; one observation per op
// (-1: none, ctx id for constructors, value class, 0/1 for Has)
func c10impl(h []c10op) []int {
	var ctxs []*plush.Context
	obs := make([]int, 0, len(h))
	for _, o := range h {
		switch o.Kind {
		case "root":
			d := map[string]interface{}{}
			for k, v := range o.Data {
				if v == 0 {
					d[k] = nil
				} else {
					d[k] = v
				}
			}
			ctxs = append(ctxs, plush.NewContextWith(d))
			obs = append(obs, len(ctxs)-1)
		case "new":
			if o.C < len(ctxs) {
				ctxs = append(ctxs, ctxs[o.C].New().(*plush.Context))
				obs = append(obs, len(ctxs)-1)
			} else {
				obs = append(obs, -1)
			}
		case "set":
			if o.C < len(ctxs) {
				if o.V == 0 {
					ctxs[o.C].Set(o.K, nil)
				} else {
					ctxs[o.C].Set(o.K, o.V)
				}
			}
			obs = append(obs, -1)
		case "value":
			if o.C < len(ctxs) {
				obs = append(obs, c10classify(ctxs[o.C].Value(o.K)))
			} else {
				obs = append(obs, 0)
			}
		case "has":
			if o.C < len(ctxs) && ctxs[o.C].Has(o.K) {
				obs = append(obs, 1)
			} else {
				obs = append(obs, 0)
			}
		}
	}
	return obs
}

// Go-side reference (search oracle, independent of the Coq model): a chain of
// maps with the documented injection rule.
type c10ref struct {
	data  map[string]int
	has   map[string]bool
	outer *c10ref
}

func (r *c10ref) value(k string) int {
	for c := r; c != nil; c = c.outer {
		if c.has[k] {
			return c.data[k]
		}
	}
	return 0
}

func c10spec(h []c10op, helpers map[string]bool) []int {
	var ctxs []*c10ref
	obs := make([]int, 0, len(h))
	inject := func(c *c10ref) {
		for k := range helpers {
			if c.value(k) == 0 {
				c.data[k] = 99
				c.has[k] = true
			}
		}
	}
	for _, o := range h {
		switch o.Kind {
		case "root":
			c := &c10ref{data: map[string]int{}, has: map[string]bool{}}
			for k, v := range o.Data {
				c.data[k] = v
				c.has[k] = true
			}
			inject(c)
			ctxs = append(ctxs, c)
			obs = append(obs, len(ctxs)-1)
		case "new":
			if o.C < len(ctxs) {
				c := &c10ref{data: map[string]int{}, has: map[string]bool{}, outer: ctxs[o.C]}
				inject(c)
				ctxs = append(ctxs, c)
				obs = append(obs, len(ctxs)-1)
			} else {
				obs = append(obs, -1)
			}
		case "set":
			if o.C < len(ctxs) {
				ctxs[o.C].data[o.K] = o.V
				ctxs[o.C].has[o.K] = true
			}
			obs = append(obs, -1)
		case "value":
			if o.C < len(ctxs) {
				obs = append(obs, ctxs[o.C].value(o.K))
			} else {
				obs = append(obs, 0)
			}
		case "has":
			if o.C < len(ctxs) && ctxs[o.C].value(o.K) != 0 {
				obs = append(obs, 1)
			} else {
				obs = append(obs, 0)
			}
		}
	}
	return obs
}

func c10term(h []c10op, obs []int) string {
	ops := make([]string, len(h))
	outs := make([]string, len(h))
	for i, o := range h {
		switch o.Kind {
		case "root":
			keys := make([]string, 0, len(o.Data))
			for k := range o.Data {
				keys = append(keys, k)
			}
			sort.Strings(keys)
			d := make([]string, len(keys))
			for j, k := range keys {
				d[j] = fmt.Sprintf("(%s, %s)", cqBytes(k), cqN(uint64(o.Data[k])))
			}
			ops[i] = fmt.Sprintf("ONewRoot %s []", cqList(d))
		case "new":
			ops[i] = fmt.Sprintf("ONew %s", cqNat(o.C))
		case "set":
			ops[i] = fmt.Sprintf("OSet %s %s %s", cqNat(o.C), cqBytes(o.K), cqN(uint64(o.V)))
		case "value":
			ops[i] = fmt.Sprintf("OValue %s %s", cqNat(o.C), cqBytes(o.K))
		case "has":
			ops[i] = fmt.Sprintf("OHas %s %s", cqNat(o.C), cqBytes(o.K))
		}
		switch {
		case o.Kind == "value":
			outs[i] = fmt.Sprintf("RVal %s", cqN(uint64(obs[i])))
		case o.Kind == "has":
			outs[i] = fmt.Sprintf("RBool %s", cqBool(obs[i] == 1))
		case obs[i] < 0:
			outs[i] = "RNone"
		default:
			outs[i] = fmt.Sprintf("RCtx %s", cqNat(obs[i]))
		}
	}
	return fmt.Sprintf("(%s,\n  %s)", cqList(ops), cqList(outs))
}

func init() {
	register("C10", func(e *Env) {
		names := []string{}
		helpers := map[string]bool{}
		for k := range plush.Helpers.All() {
			names = append(names, k)
			helpers[k] = true
		}
		sort.Strings(names)
		hs := make([]string, len(names))
		for i, k := range names {
			hs[i] = fmt.Sprintf("(%s, 99%%N)", cqBytes(k))
		}
		shardPrelude["c10"] = "From Plush Require Import model.Bytes model.Ctx model.Cases.\nDefinition helpers : list (key * N) := " + cqList(hs) + ".\n"
		shardCheck["c10"] = "(check_c10 helpers)"
		e.perShard = 60
		e.rep.Rule = "histories = NewContextWith(root variant) ; every sequence of <= L mutating ops (New c, Set c k v) over keys {a,b,len} and values {1,2,nil}, each followed by a full Value/Has probe of every context and key (exhaustive), plus random histories of length 40-200 over up to 8 contexts; non-trivial = contains at least one Set or New; distinct by canonical op list"
		keys := []string{"a", "b", "len"}
		roots := []map[string]int{{}, {"a": 1}, {"len": 1}, {"len": 0}, {"a": 0, "b": 2}}
		probe := func(n int) []c10op {
			var p []c10op
			for c := 0; c < n; c++ {
				for _, k := range keys {
					p = append(p, c10op{Kind: "value", C: c, K: k}, c10op{Kind: "has", C: c, K: k})
				}
			}
			return p
		}
		runOne := func(h []c10op, tag string) {
			obs := c10impl(h)
			ref := c10spec(h, helpers)
			e.rep.Evaluations++
			e.Count(tag)
			canon := fmt.Sprint(h)
			nontriv := false
			for _, o := range h {
				if o.Kind == "set" || o.Kind == "new" {
					nontriv = true
				}
			}
			if nontriv {
				e.Distinct(canon)
			}
			id := fmt.Sprintf("c10-%d", e.rep.Evaluations)
			for i := range obs {
				if obs[i] != ref[i] {
					e.Violate("c10-chain-of-scopes", fmt.Sprintf("op %d (%v): implementation answered %d, chain-of-scopes reference says %d", i, h[i], obs[i], ref[i]), map[string]interface{}{"history": h, "observed": obs, "reference": ref})
					break
				}
			}
			e.AddCase("c10", id, c10term(h, obs), map[string]interface{}{"history": h, "observed": obs})
			if e.rep.Evaluations%997 == 1 {
				e.Sample(map[string]interface{}{"history": h, "observed": obs})
			}
		}
		L := 2
		if e.Thorough() {
			L = 3
		}
		var rec func(prefix []c10op, n int, depth int)
		rec = func(prefix []c10op, n int, depth int) {
			h := append(append([]c10op{}, prefix...), probe(n)...)
			runOne(h, fmt.Sprintf("exhaustive-len%d", len(prefix)-1))
			if depth == L {
				return
			}
			if n < 4 {
				for c := 0; c < n; c++ {
					rec(append(append([]c10op{}, prefix...), c10op{Kind: "new", C: c}), n+1, depth+1)
				}
			}
			for c := 0; c < n; c++ {
				for _, k := range keys {
					for v := 0; v <= 2; v++ {
						rec(append(append([]c10op{}, prefix...), c10op{Kind: "set", C: c, K: k, V: v}), n, depth+1)
					}
				}
			}
		}
		for _, r := range roots {
			rec([]c10op{{Kind: "root", Data: r}}, 1, 0)
		}
		e.rep.Exhaustive = true
		// random long histories
		nr := 300
		if e.Thorough() {
			nr = 4000
		}
		rkeys := []string{"a", "b", "len", "partial", "raw"}
		for i := 0; i < nr; i++ {
			n := 0
			var h []c10op
			ln := 40 + e.Rng.Intn(160)
			for j := 0; j < ln; j++ {
				x := e.Rng.Intn(100)
				switch {
				case n == 0 || x < 4:
					d := map[string]int{}
					for _, k := range rkeys {
						if e.Rng.Intn(4) == 0 {
							d[k] = e.Rng.Intn(3)
						}
					}
					h = append(h, c10op{Kind: "root", Data: d})
					n++
				case x < 14 && n < 8:
					h = append(h, c10op{Kind: "new", C: e.Rng.Intn(n)})
					n++
				case x < 50:
					h = append(h, c10op{Kind: "set", C: e.Rng.Intn(n), K: e.Rng.Pick(rkeys), V: e.Rng.Intn(3)})
				case x < 80:
					h = append(h, c10op{Kind: "value", C: e.Rng.Intn(n), K: e.Rng.Pick(rkeys)})
				default:
					h = append(h, c10op{Kind: "has", C: e.Rng.Intn(n), K: e.Rng.Pick(rkeys)})
				}
			}
			h = append(h, probe(n)...)
			runOne(h, "random")
		}
		e.rep.Notes = append(e.rep.Notes, "helpers="+strings.Join(names, ","))
	})
}

func doReplay(prop, file string) {
	b, err := os.ReadFile(file)
	if err != nil {
		fmt.Println(err)
		return
	}
	var rp struct {
		Replay struct {
			Case json.RawMessage `json:"case"`
		} `json:"replay"`
	}
	json.Unmarshal(b, &rp)
	var inner struct {
		Case *RCase `json:"case"`
	}
	if json.Unmarshal(rp.Replay.Case, &inner) == nil && inner.Case != nil {
		c := *inner.Case
		o := runRender(c)
		ob, _ := json.Marshal(o)
		fmt.Printf("IMPL: %s\n", ob)
		renderPrelude()
		fmt.Printf("COQ:\n%s\nLocal Open Scope string_scope.\nDefinition c := %s.\nDefinition r := Eval vm_compute in match run_case names c with OOk out st => (0%%nat, out, 0%%nat, slog st) | OErr ln e st => (1%%nat, [], ln, slog st) | OParseErr _ => (2%%nat, [], 0%%nat, []) | OPanic s => (3%%nat, [s], 0%%nat, []) | OFuel => (4%%nat, [], 0%%nat, []) | OUnsup => (5%%nat, [], 0%%nat, []) end.\nPrint r.\n", "From Coq Require Import String.\n"+shardPrelude["render"], c.CoqTerm(o))
		return
	}
	fmt.Printf("replay of %s from %s: re-run ./check %s to reproduce; the replay file holds the failing input and both observations\n", prop, file, prop)
}
