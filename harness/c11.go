package main

import (
	"fmt"
	"html/template"
	"strings"
)

// ---- C11: path access = Go navigation, or an error; never another element ------------

func mkNode(path string, depth int) VD {
	n := VD{K: "struct", Tn: "Node", Fn: []string{"Name", "A", "B", "P", "M"}}
	if depth == 0 {
		n.Els = []VD{vStr(path), vSlice("Node"), vSlice("Node"), VD{K: "nilptr", Tn: "Node"}, vMap("string", "Node")}
		return n
	}
	n.Els = []VD{vStr(path),
		vSlice("Node", mkNode(path+".A[0]", depth-1), mkNode(path+".A[1]", depth-1)),
		vSlice("Node", mkNode(path+".B[0]", depth-1)),
		vPtr(mkNode(path+".P", depth-1)),
		vMap("string", "Node", vStr("k"), mkNode(path+`.M["k"]`, depth-1))}
	return n
}

type c11step struct {
	src string // template syntax
	nav func(n *Node) *Node
	key string // canonical spelling in Name
}

func c11steps() []c11step {
	idxA := func(i int) func(n *Node) *Node {
		return func(n *Node) *Node {
			if i < 0 || i >= len(n.A) {
				return nil
			}
			return &n.A[i]
		}
	}
	return []c11step{
		{".A[0]", idxA(0), ".A[0]"}, {".A[1]", idxA(1), ".A[1]"}, {".A[2]", idxA(2), ""}, {".A[i1]", idxA(1), ".A[1]"}, {".A[i0]", idxA(0), ".A[0]"},
		{".B[0]", func(n *Node) *Node {
			if len(n.B) == 0 {
				return nil
			}
			return &n.B[0]
		}, ".B[0]"},
		{".P", func(n *Node) *Node { return n.P }, ".P"},
		{`.M["k"]`, func(n *Node) *Node {
			if v, ok := n.M["k"]; ok {
				return &v
			}
			return nil
		}, `.M["k"]`},
		{`.M["zz"]`, func(n *Node) *Node { return nil }, ""},
		{`.M[km]`, func(n *Node) *Node {
			if v, ok := n.M["k"]; ok {
				return &v
			}
			return nil
		}, `.M["k"]`},
		{".Zzz", func(n *Node) *Node { return nil }, ""},
	}
}

func init() {
	register("C11", func(e *Env) {
		renderPrelude()
		e.perShard = 30
		e.rep.Rule = "a recursive data graph (struct Node{Name; A, B []Node; P *Node; M map[string]Node}, depth 2, every Name spelling its own Go path) rooted at the context variable x (value) and px (pointer), plus decoy context variables named like the fields (A, B, P, M, Name); every path of <= 2 steps (exhaustive) and random paths of 3-4 steps over {.A[0] .A[1] .A[2](out of range) .A[i](variable index) .B[0] .P .M[\"k\"] .M[\"zz\"](missing) .M[km](variable key) .Zzz(unknown)} ending in .Name, used in an output tag, through let, and as a loop iterable; reference = the same navigation done in Go; oracle: a completed navigation must print exactly the spelled path, an impossible one must print nothing or fail - never another element's name; plus method calls on values/pointers/indexed elements of the T0/T1 family; plus slices / arrays / maps of pointers with nil elements, and navigations after a tolerated failing navigation from the same root (Go-only); distinct by path"
		root := mkNode("x", 2)
		binds := []Bind{{"x", root}, {"px", vPtr(mkNode("px", 2))}, {"i0", vInt(0)}, {"i1", vInt(1)}, {"km", vStr("k")},
			{"A", vSlice("Node", mkNode("DECOY.A[0]", 1), mkNode("DECOY.A[1]", 1))}, {"B", vSlice("Node", mkNode("DECOY.B[0]", 1))}, {"P", vPtr(mkNode("DECOY.P", 1))},
			{"M", vMap("string", "Node", vStr("k"), mkNode("DECOY.M", 1))}, {"Name", vStr("DECOY.Name")}, {"o", vT1("o")}, {"po", vPtr(vT1("po"))}}
		goRoot := root.Go(nil).(Node)
		goPx := mkNode("px", 2).Go(nil).(Node)
		steps := c11steps()
		judge := func(rootName string, path []int, form int) {
			cur := &goRoot
			if rootName == "px" {
				cur = &goPx
			}
			src := rootName
			ok := true
			for _, si := range path {
				src += steps[si].src
				if ok && cur != nil {
					cur = steps[si].nav(cur)
				}
				if cur == nil {
					ok = false
				}
			}
			want := ""
			if ok {
				want = cur.Name
			}
			tmpl := "[<%= " + src + ".Name %>]"
			switch form {
			case 1:
				tmpl = "<% let y = " + src + ".Name %>[<%= y %>]"
			case 2:
				// the path as a loop iterable: iterate its A elements
				tmpl = "[<%= for (el) in " + src + ".A { %><%= el.Name %>;<% } %>]"
				if ok {
					var xs []string
					for _, a := range cur.A {
						xs = append(xs, a.Name+";")
					}
					want = strings.Join(xs, "")
				}
			}
			c := RCase{Tmpl: tmpl, Binds: binds}
			o := e.addRenderCase(fmt.Sprintf("path%d", len(path)), c)
			e.Distinct(tmpl)
			rp := map[string]interface{}{"tmpl": tmpl, "observed": o, "go_navigation_ok": ok, "go_value": want}
			got := strings.TrimSuffix(strings.TrimPrefix(o.Out, "["), "]")
			esc := template.HTMLEscapeString(want)
			switch {
			case o.Class == "PANIC":
				e.Violate("eval-panic@"+siteOf(o.Msg), fmt.Sprintf("%s panicked: %s", tmpl, o.Msg), rp)
			case ok && form != 1 && (o.Class != "OK" || got != esc):
				e.Violate(c11key(src, o, got), fmt.Sprintf("%s: Go navigation yields %q, the template rendered %q (%s %s)", tmpl, want, got, o.Class, firstLine(o.Msg)), rp)
			case ok && form == 1 && want != "" && (o.Class != "OK" || got != esc):
				e.Violate(c11key(src, o, got), fmt.Sprintf("%s: Go navigation yields %q, the template rendered %q (%s %s)", tmpl, want, got, o.Class, firstLine(o.Msg)), rp)
			case !ok && o.Class == "OK" && got != "":
				e.Violate("c11-other-element", fmt.Sprintf("%s: navigation cannot be completed in Go, yet the template rendered %q", tmpl, got), rp)
			}
		}
		ns := len(steps)
		for _, rn := range []string{"x", "px"} {
			judge(rn, nil, 0)
			for a := 0; a < ns; a++ {
				judge(rn, []int{a}, 0)
				judge(rn, []int{a}, 1)
				if rn == "x" {
					judge(rn, []int{a}, 2)
				}
				for b := 0; b < ns; b++ {
					if rn == "x" || (a+b)%3 == 0 || e.Thorough() {
						judge(rn, []int{a, b}, 0)
					}
				}
			}
		}
		e.rep.Exhaustive = true
		n := 250
		if e.Thorough() {
			n = 6000
		}
		for i := 0; i < n; i++ {
			k := 3 + e.Rng.Intn(2)
			p := make([]int, k)
			for j := range p {
				p[j] = e.Rng.Intn(ns)
				if e.Rng.Intn(3) > 0 { // bias towards steps that can succeed
					p[j] = []int{0, 1, 3, 4, 5, 6, 7, 9}[e.Rng.Intn(8)]
				}
			}
			judge([]string{"x", "px"}[e.Rng.Intn(2)], p, e.Rng.Intn(3))
		}
		// methods on values, pointers, fields and indexed elements (T0/T1 family)
		for _, t := range []struct{ src, want string }{
			{`o.In.Hello("a")`, "hello a from o.In"}, {`po.In.Hello("a")`, "hello a from po.In"}, {`o.PIn.PHello()`, "phello o.PIn"}, {`o.PIn.Hello("b")`, "hello b from o.PIn"},
			{`o.Get().Name`, "o.In"}, {`po.Get().Name`, "po.In"}, {`o.Get().Hello("c")`, "hello c from o.In"}, {`o.Ins[1].Name`, "o.Ins[1]"}, {`o.M["k"].Name`, "o.M[k]"}, {`o.Tags[1]`, "t1"},
			{`o.Ins[0].Hello("z")`, "hello z from o.Ins[0]"}, {`o.M["k"].Hello("z")`, "hello z from o.M[k]"}, {`o.In.PHello()`, "phello o.In"},
		} {
			c := RCase{Tmpl: "[<%= " + t.src + " %>]", Binds: binds}
			o := e.addRenderCase("method", c)
			if o.Class != "OK" || o.Out != "["+template.HTMLEscapeString(t.want)+"]" {
				key := "c11-method"
				if strings.Contains(t.src, "].Hello") {
					key = "c11-method-after-index"
				}
				e.Violate(key, fmt.Sprintf("%s: Go yields %q, the template rendered %q (%s %s)", t.src, t.want, o.Out, o.Class, firstLine(o.Msg)), map[string]interface{}{"case": c.Tmpl, "observed": o})
			}
		}
		// the same chained index path evaluated several times in one scope while the index variable
		// changes (loop variable, reassignment): each evaluation must use the current value
		for _, t := range [][2]string{
			{`<%= for (i) in [0, 1] { %><%= x.A[0].A[i].Name %>|<% } %>`, "x.A[0].A[0]|x.A[0].A[1]|"},
			{`<%= for (i) in [1, 0, 1] { %><%= x.A[i].A[0].Name %>,<%= x.A[1].A[i].Name %>|<% } %>`, "x.A[1].A[0],x.A[1].A[1]|x.A[0].A[0],x.A[1].A[0]|x.A[1].A[0],x.A[1].A[1]|"},
			{`<% let i = 0 %><%= x.A[1].A[i].Name %>|<% i = 1 %><%= x.A[1].A[i].Name %>|<% i = 0 %><%= x.A[0].A[i].Name %>`, "x.A[1].A[0]|x.A[1].A[1]|x.A[0].A[0]"},
			{`<% let k = "k" %><%= x.A[0].M[k].Name %>|<% k = "zz" %><%= x.A[0].M[k].Name %>|<% k = "k" %><%= x.A[0].M[k].Name %>`, `x.A[0].M["k"]||x.A[0].M["k"]`},
			{`<% let f = fn(i) { return x.A[0].A[i].Name } %><%= f(0) %>|<%= f(1) %>|<%= f(0) %>`, "x.A[0].A[0]|x.A[0].A[1]|x.A[0].A[0]"},
		} {
			c := RCase{Tmpl: t[0], Binds: binds}
			o := e.addRenderCase("revisit", c)
			e.Distinct(t[0])
			if o.Class != "OK" || o.Out != template.HTMLEscapeString(t[1]) {
				e.Violate(c11key(t[0], o, o.Out), fmt.Sprintf("%s: Go navigation yields %q, the template rendered %q (%s %s)", t[0], t[1], o.Out, o.Class, firstLine(o.Msg)), map[string]interface{}{"case": c.Tmpl, "observed": o})
			}
		}
		// a navigation that fails in a tolerated position (unknown index variable deeper in the path,
		// member of a nil entry, inside if / ! / == / ||) must leave later navigations from the
		// same root untouched
		{
			extra := map[string]interface{}{
				"ns":   []T1{{Name: "ns[0]", Ins: []T0{{"ns[0].Ins[0]"}}, Tags: []string{"t"}}, {Name: "ns[1]", Ins: []T0{{"ns[1].Ins[0]"}}}},
				"data": map[string]interface{}{"a": nil, "b": T0{"data[b]"}},
				"pm2":  map[string]*T0{"n": nil, "b": {"pm2[b]"}},
			}
			for _, t := range [][2]string{
				{`<%= if (ns[0].Ins[nosuch]) { %>y<% } else { %>n<% } %>|<%= ns[1].Name %>|<%= ns[0].Ins[0].Name %>`, "n|ns[1]|ns[0].Ins[0]"},
				{`<%= !ns[0].Tags[nosuch] %>|<%= ns[1].Ins[0].Name %>|<%= ns[0].Name %>`, "true|ns[1].Ins[0]|ns[0]"},
				{`<%= (ns[0].Ins[nosuch]) == nil %>|<%= ns[0].Tags[0] %>|<%= ns[1].Name %>`, "true|t|ns[1]"},
				{`<%= if (data["a"].Name) { %>y<% } else { %>n<% } %>|<%= data["b"].Name %>`, "n|data[b]"},
				{`<%= for (i) in [0, 1] { %><%= if (ns[i].Ins[nosuch]) { %>y<% } %><%= ns[i].Name %>,<% } %><%= ns[1].Name %>`, "ns[0],ns[1],ns[1]"},
			} {
				o := runRenderExtra(RCase{Tmpl: t[0], Binds: binds}, extra)
				e.rep.Evaluations++
				e.Count("after-tolerated-failure")
				e.Distinct(t[0])
				if o.Class != "OK" || o.Out != template.HTMLEscapeString(t[1]) {
					e.Violate(c11key(t[0], o, o.Out), fmt.Sprintf("%s: Go navigation yields %q, the template rendered %q (%s %s)", t[0], t[1], o.Out, o.Class, firstLine(o.Msg)), map[string]interface{}{"tmpl": t[0], "observed": o})
				}
			}
		}
		// method calls on receivers one to five segments deep, by value and by pointer: the method of THAT node
		{
			tr := c11mktree("a", 4)
			extra := map[string]interface{}{"a": tr, "av": *tr}
			for _, t := range [][2]string{
				{"a.Val()", "Val:a"}, {"a.L.Val()", "Val:a.L"}, {"a.L.R.Val()", "Val:a.L.R"}, {"a.R.R.L.Val()", "Val:a.R.R.L"}, {"a.L.R.L.R.Val()", "Val:a.L.R.L.R"},
				{`a.L.R.Pick("x")`, "a.L.R/x"}, {`a.R.R.L.Pick("y")`, "a.R.R.L/y"}, {"a.L.R.V.Val()", "Leaf:a.L.R.V"}, {"a.R.L.R.V.Val()", "Leaf:a.R.L.R.V"},
				{"av.L.R.Val()", "Val:a.L.R"}, {"av.R.L.L.Val()", "Val:a.R.L.L"}, {"a.L.R.Name", "a.L.R"}, {"a.R.L.R.L.Name", "a.R.L.R.L"},
			} {
				for _, form := range []string{"[<%= X %>]", "<% let q = X %>[<%= q %>]", "[<%= for (i) in [1] { %><%= X %><% } %>]"} {
					tm := strings.Replace(form, "X", t[0], 1)
					o := runRenderExtra(RCase{Tmpl: tm, Binds: binds}, extra)
					e.rep.Evaluations++
					e.Count("deep-method-receivers")
					e.Distinct(tm)
					if o.Class != "OK" || o.Out != "["+template.HTMLEscapeString(t[1])+"]" {
						e.Violate(c11key(t[0], o, strings.Trim(o.Out, "[]")), fmt.Sprintf("%s: Go's %s is %q, the template rendered %q (%s %s)", tm, t[0], t[1], o.Out, o.Class, firstLine(o.Msg)), map[string]interface{}{"tmpl": tm, "observed": o})
					}
				}
			}
		}
		// the same selector (one node of the syntax tree) evaluated against values of different struct
		// types within one render: loop over mixed elements, a function applied to both, a rebound variable
		{
			a, v := c11art{"art", []string{"ta"}}, c11vid{7, 60, "vid", []string{"tv"}}
			extra := map[string]interface{}{"mixed": []interface{}{a, v, &a, &v}, "mixr": []interface{}{v, a}, "ma": a, "mv": v, "mm": map[string]interface{}{"a": a, "v": v}}
			for _, t := range [][2]string{
				{`<%= for (x) in mixed { %><%= x.Title %>,<% } %>`, "art,vid,art,vid,"}, {`<%= for (x) in mixr { %><%= x.Title %>,<% } %>`, "vid,art,"},
				{`<%= for (x) in mixed { %><%= x.Tags[0] %>,<% } %>`, "ta,tv,ta,tv,"}, {`<% let f = fn(x) { return x.Title } %><%= f(ma) %>|<%= f(mv) %>|<%= f(ma) %>`, "art|vid|art"},
				{`<% let x = mv %><%= for (i) in [0, 1, 2] { %><%= x.Title %>;<% x = mixed[i] %><% } %>`, "vid;art;vid;"}, {`<%= for (k, x) in mm { %><%= k %>=<%= x.Title %>;<% } %>`, "a=art;v=vid;"},
			} {
				o := runRenderExtra(RCase{Tmpl: t[0], Binds: binds}, extra)
				e.rep.Evaluations++
				e.Count("one-selector-two-types")
				e.Distinct(t[0])
				rp := map[string]interface{}{"tmpl": t[0], "observed": o}
				switch {
				case o.Class == "PANIC":
					e.Violate("eval-panic@"+siteOf(o.Msg), fmt.Sprintf("Render panicked on %q: %s", t[0], o.Msg), rp)
				case o.Class == "OK" && strings.Contains(t[0], "in mm {") && matchPermutation(o.Out, strings.SplitAfter(t[1], ";")[:2]):
					// a loop over a map visits the entries in any order
				case o.Class != "OK" || o.Out != t[1]:
					e.Violate(c11key(t[0], o, o.Out), fmt.Sprintf("%s: Go navigation yields %q, the template rendered %q (%s %s)", t[0], t[1], o.Out, o.Class, firstLine(o.Msg)), rp)
				}
			}
		}
		// promoted fields of embedded structs: the field Go's selector rules pick, at any depth
		{
			ov := c11over{c11mid: c11mid{c11base{Name: "base", Deep: "deep"}}, Name: "outer"}
			tw := c11two{c11mid: c11mid{c11base{Name: "base2", Deep: "deep2"}}, c11side: c11side{Name: "side", Side: "s"}}
			extra := map[string]interface{}{"ov": ov, "pov": &ov, "tw": tw, "ovs": []c11over{ov}, "twm": map[string]*c11two{"k": &tw}}
			for _, t := range [][2]string{
				{"ov.Name", ov.Name}, {"pov.Name", ov.Name}, {"ov.Deep", ov.Deep}, {"ovs[0].Name", ov.Name}, {"ovs[0].Deep", ov.Deep},
				{"tw.Name", tw.Name}, {"tw.Deep", tw.Deep}, {"tw.Side", tw.Side}, {`twm["k"].Name`, tw.Name}, {`twm["k"].Deep`, tw.Deep},
			} {
				for _, form := range []string{"[<%= X %>]", "<% let q = X %>[<%= q %>]", "[<%= if ((X) == W) { %>same<% } %>]"} {
					tm := strings.Replace(strings.Replace(form, "X", t[0], 1), "W", fmt.Sprintf("%q", t[1]), 1)
					want := "[" + t[1] + "]"
					if strings.Contains(form, "same") {
						want = "[same]"
					}
					o := runRenderExtra(RCase{Tmpl: tm, Binds: binds}, extra)
					e.rep.Evaluations++
					e.Count("promoted-fields")
					e.Distinct(tm)
					if o.Class != "OK" || o.Out != want {
						e.Violate(c11key(t[0], o, strings.Trim(o.Out, "[]")), fmt.Sprintf("%s: Go's %s is %q, the template rendered %q (%s %s)", tm, t[0], t[1], o.Out, o.Class, firstLine(o.Msg)), map[string]interface{}{"tmpl": tm, "observed": o})
					}
				}
			}
		}
		// an index of another kind than the map's key type is not a key of that map, whatever Go's
		// conversion of it would yield (int -> one-rune string, float -> truncated int): Go does not
		// compile the navigation, so the template gets an error or nothing - never an element
		{
			extra := map[string]interface{}{
				"bn": map[string]T0{"A": {"bn[A]"}, "1": {"bn[1]"}}, "bi": map[int]T0{1: {"bi[1]"}, 65: {"bi[65]"}}, "bf": map[float64]T0{1: {"bf[1]"}},
				"bg": map[string][]T0{"A": {{"bg[A][0]"}}}, "i65": 65, "f15": 1.5, "sA": "A",
			}
			for _, src := range []string{"bn[65].Name", "bn[i65].Name", "bn[1].Name", "bn[1.5].Name", "bi[1.5].Name", "bi[f15].Name", `bi["1"].Name`, "bi[sA].Name", "bf[1].Name", "bn[true].Name", "bg[65][0].Name"} {
				for _, form := range []string{"[<%= X %>]", "<% let q = X %>[<%= q %>]"} {
					tm := strings.Replace(form, "X", src, 1)
					o := runRenderExtra(RCase{Tmpl: tm, Binds: binds}, extra)
					e.rep.Evaluations++
					e.Count("index-of-another-kind")
					e.Distinct(tm)
					rp := map[string]interface{}{"tmpl": tm, "observed": o}
					switch {
					case o.Class == "PANIC":
						e.Violate("eval-panic@"+siteOf(o.Msg), fmt.Sprintf("Render panicked on %q: %s", tm, o.Msg), rp)
					case o.Class == "OK" && o.Out != "[]":
						e.Violate("c11-other-element", fmt.Sprintf("%s: Go does not compile this navigation, the template rendered %q", tm, o.Out), rp)
					}
				}
			}
			// the same maps indexed with their own key kind do yield the element
			for _, t := range [][2]string{{`bn["A"].Name`, "bn[A]"}, {"bn[sA].Name", "bn[A]"}, {"bi[65].Name", "bi[65]"}, {"bi[i65].Name", "bi[65]"}, {`bg["A"][0].Name`, "bg[A][0]"}} {
				tm := "[<%= " + t[0] + " %>]"
				o := runRenderExtra(RCase{Tmpl: tm, Binds: binds}, extra)
				e.rep.Evaluations++
				if o.Class != "OK" || o.Out != "["+t[1]+"]" {
					e.Violate(c11key(t[0], o, strings.Trim(o.Out, "[]")), fmt.Sprintf("%s: Go yields %q, the template rendered %q (%s %s)", tm, t[1], o.Out, o.Class, firstLine(o.Msg)), map[string]interface{}{"tmpl": tm, "observed": o})
				}
			}
		}
		// containers of pointers with nil elements and maps with nil pointer values (Go-only data:
		// decided by the real engine against Go navigation): a nil element cannot be navigated
		// further - error or empty output, never a panic, never another element
		{
			a, b := &T0{"pps[0]"}, &T0{"pps[2]"}
			extra := map[string]interface{}{
				"pps": []*T0{a, nil, b}, "arr": [3]*T0{a, nil, b}, "pm": map[string]*T0{"a": a, "n": nil},
				"nested": map[string]interface{}{"kids": []*T0{nil, b}}, "ii": 1,
			}
			for _, t := range []struct{ src, want string }{
				{"pps[0].Name", "pps[0]"}, {"pps[2].Name", "pps[2]"}, {"pps[1].Name", ""}, {"pps[ii].Name", ""}, {"pps[1]", ""}, {"arr[1].Name", ""}, {"arr[2].Name", "pps[2]"},
				{`pm["a"].Name`, "pps[0]"}, {`pm["n"].Name`, ""}, {`pm["zz"].Name`, ""}, {`nested["kids"][0].Name`, ""}, {`nested["kids"][1].Name`, "pps[2]"},
				{`pps[1].Hello("x")`, ""}, {`pps[0].Hello("x")`, "hello x from pps[0]"},
			} {
				for _, form := range []string{"[<%= X %>]", "<% let q = X %>[<%= q %>]", "[<%= for (i, p) in pps { %><%= if (i == 1) { %><%= X %><% } %><% } %>]"} {
					tm := strings.Replace(form, "X", t.src, 1)
					o := runRenderExtra(RCase{Tmpl: tm, Binds: binds}, extra)
					e.rep.Evaluations++
					e.Count("nil-elements")
					e.Distinct(tm)
					rp := map[string]interface{}{"tmpl": tm, "observed": o}
					switch {
					case o.Class == "PANIC":
						e.Violate("eval-panic@"+siteOf(o.Msg), fmt.Sprintf("Render panicked on %q: %s", tm, o.Msg), rp)
					case o.Class == "OK" && o.Out != "["+template.HTMLEscapeString(t.want)+"]" && !(t.want != "" && strings.Contains(t.src, "].Hello")):
						e.Violate(c11key(t.src, o, strings.Trim(o.Out, "[]")), fmt.Sprintf("%s: Go yields %q, the template rendered %q", tm, t.want, o.Out), rp)
					case o.Class == "ERR" && t.want != "" && !strings.Contains(t.src, "].Hello"):
						e.Violate("c11-navigation-fails", fmt.Sprintf("%s: Go yields %q, the template failed: %s", tm, t.want, firstLine(o.Msg)), rp)
					}
				}
			}
		}
		// unexported members, pointer-typed and non-nil ones included (whose pointer type may print itself):
		// unknown or unexported member -> an error or empty output, never a panic, never another value
		{
			lbl, n := &c04lbl{"secret"}, 3
			rv := c04priv{label: lbl, count: &n, name: "hidden-name", Label: &c04lbl{"public"}, list: []*c04lbl{lbl}}
			extra := map[string]interface{}{"a": rv, "pa": &rv, "as": []c04priv{rv}, "am": map[string]c04priv{"k": rv}}
			for _, recv := range []string{"a", "pa", "as[0]", "am[\"k\"]"} {
				for _, f := range []string{"label", "label.Name", "count", "name", "list", "nilp", "Label.Name"} {
					for _, form := range []string{"[<%= X %>]", "<% let q = X %>[<%= q %>]", "<%= for (i) in [1] { %>[<%= X %>]<% } %>"} {
						tm := strings.Replace(form, "X", recv+"."+f, 1)
						o := runRenderExtra(RCase{Tmpl: tm}, extra)
						e.rep.Evaluations++
						e.Count("unexported-members")
						e.Distinct(tm)
						rp := map[string]interface{}{"tmpl": tm, "observed": o}
						switch {
						case o.Class == "PANIC":
							e.Violate("eval-panic@"+siteOf(o.Msg), fmt.Sprintf("Render panicked on %q: %s", tm, o.Msg), rp)
						case f == "Label.Name" && (o.Class != "OK" || o.Out != "[public]"):
							e.Violate("c11-navigation-fails", fmt.Sprintf("%s: Go yields %q, the template gave %q (%s %s)", tm, "public", o.Out, o.Class, firstLine(o.Msg)), rp)
						case f != "Label.Name" && o.Class == "OK" && o.Out != "[]":
							e.Violate("c11-other-element", fmt.Sprintf("%s: an unexported member cannot be read, the template rendered %q", tm, o.Out), rp)
						}
					}
				}
			}
		}
		// POINTERS to maps, slices and arrays as what is indexed (a variable, a slice element, a loop variable, a
		// method result): the element, or an error - never a panic
		{
			mp := map[string]c11kid{"k": {Name: "mp[k]"}}
			sl := []c11kid{{Name: "sl[0]"}, {Name: "sl[1]"}}
			ar := [2]c11kid{{Name: "ar[0]"}, {Name: "ar[1]"}}
			var nilmp *map[string]c11kid
			extra := map[string]interface{}{"pmp": &mp, "psl": &sl, "par": &ar, "pms": []*map[string]c11kid{&mp}, "nilmp": nilmp, "mkp": func() *map[string]c11kid { return &mp }, "pmi": &map[int]string{1: "one"}}
			for _, src := range []string{`pmp["k"].Name`, `pmp["zz"].Name`, `pmp["k"]`, `psl[1].Name`, `psl[9].Name`, `par[0].Name`, `pms[0]["k"].Name`, `nilmp["k"]`, `mkp()["k"].Name`, `pmi[1]`, `pmi["x"]`, `pmp[0]`} {
				for _, form := range []string{"[<%= X %>]", "<% let q = X %>[<%= q %>]", "<%= for (m) in pms { %>[<%= m[\"k\"].Name %>]<% } %><%= X %>"} {
					tm := strings.Replace(form, "X", src, 1)
					o := runRenderExtra(RCase{Tmpl: tm}, extra)
					e.rep.Evaluations++
					e.Count("pointers-to-collections")
					e.Distinct(tm)
					if o.Class == "PANIC" {
						e.Violate("eval-panic@"+siteOf(o.Msg), fmt.Sprintf("Render panicked on %q: %s", tm, o.Msg), map[string]interface{}{"tmpl": tm, "observed": o})
					} else if o.Class == "OK" && strings.HasPrefix(src, "psl[1]") && !strings.Contains(o.Out, "sl[1]") {
						e.Violate("c11-other-element", fmt.Sprintf("%s: Go yields sl[1], the template rendered %q", tm, o.Out), map[string]interface{}{"tmpl": tm, "observed": o})
					}
				}
			}
		}
		// ONE method chained several times (n.Kid(1).Kid(0).Kid(1)), from a variable and after an index: every
		// call is made on what the previous one returned
		{
			var mk func(path string, depth int) c11kid
			mk = func(path string, depth int) c11kid {
				k := c11kid{Name: path}
				if depth > 0 {
					k.Kids = []c11kid{mk(path+".Kids[0]", depth-1), mk(path+".Kids[1]", depth-1)}
				}
				return k
			}
			extra := map[string]interface{}{"n": mk("n", 4), "w": struct{ P c11kid }{mk("w.P", 3)}}
			for _, t := range [][2]string{{"<%= n.Kid(1).Name %>", "n.Kids[1]"}, {"<%= n.Kid(1).Kid(0).Name %>", "n.Kids[1].Kids[0]"}, {"<%= n.Kid(1).Kid(0).Kid(1).Name %>", "n.Kids[1].Kids[0].Kids[1]"},
				{"<%= w.P.Kid(1).Kid(0).Kid(1).Name %>", "w.P.Kids[1].Kids[0].Kids[1]"}, {"<%= n.Kids[1].Kid(0).Kid(1).Name %>", "n.Kids[1].Kids[0].Kids[1]"}, {"<% let q = n.Kid(0).Kid(0).Kid(0).Kid(1) %><%= q.Name %>", "n.Kids[0].Kids[0].Kids[0].Kids[1]"},
				{"<%= for (k) in n.Kid(1).Kid(1).Kid(0).Kids { %><%= k.Name %>,<% } %>", "n.Kids[1].Kids[1].Kids[0].Kids[0],n.Kids[1].Kids[1].Kids[0].Kids[1],"}} {
				o := runRenderExtra(RCase{Tmpl: t[0]}, extra)
				e.rep.Evaluations++
				e.Count("method-chained-repeatedly")
				e.Distinct(t[0])
				rp := map[string]interface{}{"tmpl": t[0], "observed": o}
				switch {
				case o.Class == "PANIC":
					e.Violate("eval-panic@"+siteOf(o.Msg), fmt.Sprintf("Render panicked on %q: %s", t[0], o.Msg), rp)
				case o.Class == "OK" && o.Out != t[1]:
					e.Violate("c11-other-element", fmt.Sprintf("%s: Go yields %q, the template rendered %q", t[0], t[1], o.Out), rp)
				case o.Class == "ERR":
					e.Violate("c11-navigation-fails", fmt.Sprintf("%s: Go yields %q, the template failed: %s", t[0], t[1], firstLine(o.Msg)), rp)
				}
			}
		}
		// one member name indexed at THREE or more levels of a path (n.Kids[0].Kids[1].Kids[0]): Go navigates it.
		// (evalIndexCallee used to guess the name the indexed value is bound to by a substring search over
		// printed paths and bound Kids.Kids where the parser's placeholder says Kids: repaired in round 13)
		{
			var mk func(path string, depth int) c11kid
			mk = func(path string, depth int) c11kid {
				k := c11kid{Name: path}
				if depth > 0 {
					k.Kids = []c11kid{mk(path+".Kids[0]", depth-1), mk(path+".Kids[1]", depth-1)}
				}
				return k
			}
			extra := map[string]interface{}{"n": mk("n", 4)}
			for _, t := range [][2]string{{"<%= n.Kids[0].Kids[1].Name %>", "n.Kids[0].Kids[1]"}, {"<%= n.Kids[0].Kids[1].Kids[0].Name %>", "n.Kids[0].Kids[1].Kids[0]"}, {"<%= n.Kids[1].Kids[1].Kids[1].Kids[0].Name %>", "n.Kids[1].Kids[1].Kids[1].Kids[0]"},
				{"<%= for (k) in n.Kids[0].Kids[1].Kids { %><%= k.Name %>,<% } %>", "n.Kids[0].Kids[1].Kids[0],n.Kids[0].Kids[1].Kids[1],"}, {"<% let q = n.Kids[1].Kids[0].Kids[1] %><%= q.Name %>", "n.Kids[1].Kids[0].Kids[1]"}} {
				o := runRenderExtra(RCase{Tmpl: t[0]}, extra)
				e.rep.Evaluations++
				e.Count("member-repeated")
				e.Distinct(t[0])
				rp := map[string]interface{}{"tmpl": t[0], "observed": o}
				switch {
				case o.Class == "PANIC":
					e.Violate("eval-panic@"+siteOf(o.Msg), fmt.Sprintf("Render panicked on %q: %s", t[0], o.Msg), rp)
				case o.Class == "OK" && o.Out != t[1]:
					e.Violate("c11-other-element", fmt.Sprintf("%s: Go yields %q, the template rendered %q", t[0], t[1], o.Out), rp)
				case o.Class == "ERR":
					e.Violate("c11-member-repeated-three-levels", fmt.Sprintf("%s: Go yields %q, the template failed: %s", t[0], t[1], firstLine(o.Msg)), rp)
				}
			}
		}
		// a method call whose receiver is reached through FIELDS of what a call or an index returned
		// (X.M().Y.N(), x[i].Y.N()): Go calls N on Y.  (The parser's assignCallee overwrites the receiver
		// of the last call with the call / index result: known finding c11-middle-segment-dropped.)
		{
			tree := c11mktree("t", 2)
			extra := map[string]interface{}{"t": tree, "kids": []*c11tree{tree.L, tree.R}}
			for _, t := range [][2]string{{"<%= t.Self().L.Val() %>", "Val:t.L"}, {"<%= t.L.Self().R.Val() %>", "Val:t.L.R"}, {"<% let xs = kids %><%= xs[0].L.Val() %>", "Val:t.L.L"},
				{"<% let e = t.R %><%= e.Self().L.Pick(\"p\") %>", "t.R.L/p"}, {"<%= kids[1].R.Val() %>", "Val:t.R.R"}, {"<%= t.Self().V.Val() %>", "Leaf:t.V"}} {
				o := runRenderExtra(RCase{Tmpl: t[0]}, extra)
				e.rep.Evaluations++
				e.Count("fields-after-call-or-index")
				e.Distinct(t[0])
				rp := map[string]interface{}{"tmpl": t[0], "observed": o}
				switch {
				case o.Class == "PANIC":
					e.Violate("eval-panic@"+siteOf(o.Msg), fmt.Sprintf("Render panicked on %q: %s", t[0], o.Msg), rp)
				case o.Class == "OK" && o.Out != t[1]:
					e.Violate("c11-middle-segment-dropped", fmt.Sprintf("%s: Go yields %q, the template rendered %q", t[0], t[1], o.Out), rp)
				}
			}
		}
		// a method promoted through an embedded pointer that is nil, a value method reached through a nil
		// pointer: the navigation cannot be completed - an error or empty output, never a panic
		{
			extra := map[string]interface{}{"emb": c11outer{}, "pemb": &c11outer{}, "okemb": c11outer{&c11inner{7}}, "embs": []c11outer{{}, {&c11inner{8}}}}
			for _, t := range [][2]string{{"[<%= emb.Val() %>]", ""}, {"[<%= pemb.Val() %>]", ""}, {"[<%= okemb.Val() %>]", "[7]"}, {"[<%= embs[1].Val() %>]", "[8]"}, {"[<%= embs[0].Val() %>]", ""},
				{"<%= for (x) in embs { %>[<%= x.Val() %>]<% } %>", ""}, {"<% let q = emb.Val() %>[<%= q %>]", ""}, {"[<%= if (emb.Val()) { %>y<% } %>]", ""}, {"[<%= okemb.Val() + emb.Val() %>]", ""}} {
				o := runRenderExtra(RCase{Tmpl: t[0]}, extra)
				e.rep.Evaluations++
				e.Count("nil-embedded-receiver")
				e.Distinct(t[0])
				rp := map[string]interface{}{"tmpl": t[0], "observed": o}
				switch {
				case o.Class == "PANIC":
					e.Violate("eval-panic@"+siteOf(o.Msg), fmt.Sprintf("Render panicked on %q: %s", t[0], o.Msg), rp)
				case t[1] != "" && (o.Class != "OK" || o.Out != t[1]):
					e.Violate("c11-navigation-fails", fmt.Sprintf("%s: Go yields %q, the template gave %q (%s %s)", t[0], t[1], o.Out, o.Class, firstLine(o.Msg)), rp)
				case t[1] == "" && o.Class == "OK" && strings.ContainsAny(o.Out, "0123456789"):
					e.Violate("c11-other-element", fmt.Sprintf("%s: the navigation cannot be completed in Go, the template rendered %q", t[0], o.Out), rp)
				}
			}
		}
		// methods with a POINTER receiver called on values that are not addressable (slice elements, map
		// values, struct fields) and handing back a pointer into their receiver: every result belongs to
		// the value it was called on, also when several results of one type are alive at once
		{
			mk := func(n string) c11item { return c11item{Name: n, Leaf: c11leaf{n + ".Leaf"}} }
			extra := map[string]interface{}{"items": []c11item{mk("items[0]"), mk("items[1]"), mk("items[2]")}, "bk": map[string]c11item{"x": mk("bk[x]"), "y": mk("bk[y]")},
				"root": struct{ A, B c11item }{mk("root.A"), mk("root.B")}, "pair": func(a, b *c11leaf) string { return a.Name + "&" + b.Name },
				"ifs": []interface{}{mk("ifs[0]"), mk("ifs[1]")}}
			for _, t := range [][2]string{
				{`<%= items[0].Ref().Name %>|<%= items[1].Ref().Name %>|<%= root.A.Label() %>|<%= root.B.Ref().Name %>`, "items[0].Leaf|items[1].Leaf|root.A|root.B.Leaf"},
				{`<% let p = items[0].Ref() %><% let q = items[1].Ref() %><%= p.Name %>|<%= q.Name %>|<%= p.Name %>`, "items[0].Leaf|items[1].Leaf|items[0].Leaf"},
				{`<% let rs = [items[2].Ref(), items[0].Ref(), items[1].Ref()] %><%= rs[0].Name %>|<%= rs[1].Name %>|<%= rs[2].Name %>`, "items[2].Leaf|items[0].Leaf|items[1].Leaf"},
				{`<%= pair(items[0].Ref(), items[1].Ref()) %>|<%= pair(root.A.Ref(), root.B.Ref()) %>|<%= pair(bk["x"].Ref(), bk["y"].Ref()) %>`, "items[0].Leaf&amp;items[1].Leaf|root.A.Leaf&amp;root.B.Leaf|bk[x].Leaf&amp;bk[y].Leaf"},
				{`<% let p = bk["x"].Ref() %><% let q = bk["y"].Ref() %><%= p.Name %>|<%= q.Name %>`, "bk[x].Leaf|bk[y].Leaf"},
				{`<% let p = root.A.Ref() %><% let t = root.B.Tag("s") %><%= p.Name %>|<%= t %>`, "root.A.Leaf|root.B+s"},
				{`<% let h = {} %><%= for (i, it) in items { %><% h["k" + i] = it.Ref() %><% } %><%= h["k0"].Name %>|<%= h["k1"].Name %>|<%= h["k2"].Name %>`, "items[0].Leaf|items[1].Leaf|items[2].Leaf"},
				{`<% let first = ifs[0].Ref() %><%= for (it) in ifs { %><%= it.Label() %>,<% } %><%= first.Name %>`, "ifs[0],ifs[1],ifs[0].Leaf"},
				{`<% let f = fn(a) { return a.Ref() } %><% let p = f(items[0]) %><% let q = f(items[1]) %><%= p.Name %>|<%= q.Name %>`, "items[0].Leaf|items[1].Leaf"},
			} {
				o := runRenderExtra(RCase{Tmpl: t[0]}, extra)
				e.rep.Evaluations++
				e.Count("pointer-receiver-results")
				e.Distinct(t[0])
				rp := map[string]interface{}{"tmpl": t[0], "observed": o}
				switch {
				case o.Class == "PANIC":
					e.Violate("eval-panic@"+siteOf(o.Msg), fmt.Sprintf("Render panicked on %q: %s", t[0], o.Msg), rp)
				case o.Class == "OK" && o.Out != t[1]:
					e.Violate("c11-other-element", fmt.Sprintf("%s: Go yields %q, the template rendered %q", t[0], t[1], o.Out), rp)
				case o.Class == "ERR":
					e.Violate("c11-navigation-fails", fmt.Sprintf("%s: Go yields %q, the template failed: %s", t[0], t[1], firstLine(o.Msg)), rp)
				}
			}
		}
	})
}

// a self-similar type: every node spells its own path, methods by value and by pointer
type c11tree struct {
	Name string
	L, R *c11tree
	V    c11leaf
}
type c11leaf struct{ Name string }

func (t c11tree) Val() string           { return "Val:" + t.Name }
func (t *c11tree) Pick(s string) string { return t.Name + "/" + s }
func (l c11leaf) Val() string           { return "Leaf:" + l.Name }
func (t *c11tree) Self() *c11tree       { return t }

// a value method promoted through an embedded pointer
type c11inner struct{ v int }

func (i c11inner) Val() int { return i.v }

type c11outer struct{ *c11inner }

// a self-similar type whose only collection member is Kids
type c11kid struct {
	Name string
	Kids []c11kid
}

func (k c11kid) Kid(i int) c11kid { return k.Kids[i] }

// pointer-receiver methods, one of which hands back a pointer into the receiver
type c11item struct {
	Name string
	Leaf c11leaf
}

func (s *c11item) Ref() *c11leaf       { return &s.Leaf }
func (s *c11item) Label() string       { return s.Name }
func (s *c11item) Tag(x string) string { return s.Name + "+" + x }

func c11mktree(path string, depth int) *c11tree {
	t := &c11tree{Name: path, V: c11leaf{path + ".V"}}
	if depth > 0 {
		t.L, t.R = c11mktree(path+".L", depth-1), c11mktree(path+".R", depth-1)
	}
	return t
}

// two struct types that have a field of the same name at different positions
type c11art struct {
	Title string
	Tags  []string
}
type c11vid struct {
	ID    int
	Secs  int
	Title string
	Tags  []string
}

// embedded structs: Go resolves a selector to the shallowest field of that name
type c11base struct {
	Name string
	Deep string
}
type c11mid struct{ c11base }
type c11over struct { // a field declared after the embedded struct, same name: the outer one wins
	c11mid
	Name string
}
type c11two struct { // two embedded structs, the shallower Name wins whatever the order
	c11mid
	c11side
}
type c11side struct {
	Name string
	Side string
}

// classify a wrong result: another element's value is worse than a spurious failure
func c11key(src string, o RObs, got string) string {
	if o.Class == "OK" && got != "" {
		return "c11-other-element"
	}
	return "c11-navigation-fails"
}
