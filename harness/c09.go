package main

import (
	"fmt"
	"strings"
)

// ---- C09: scopes never leak or clobber ---------------------------------------------------

// a scope tree: items are probes, lets, assignments, or nested constructs
type sitem struct {
	Kind string // probe let set for fn partial content blkctx
	Name string
	Val  int
	Body []sitem
}

type env09 struct {
	vars  map[string]int
	outer *env09
}

// a name bound to nil: the nearest binding wins, so it hides every outer binding of the name,
// and reads as unbound
const nil09 = -1

func vs09(v int) string {
	if v == nil09 {
		return "nil"
	}
	return fmt.Sprint(v)
}

func (e *env09) get(n string) (int, bool) {
	for c := e; c != nil; c = c.outer {
		if v, ok := c.vars[n]; ok {
			if v == nil09 {
				return 0, false
			}
			return v, true
		}
	}
	return 0, false
}

var c09names = []string{"a", "b", "v", "env"} // env: a variable named like a built-in helper

// the scope in which contentFor("shared") was (last) defined during the current rendering
var sharedDef *env09

// source text + reference output (environment chain: constructs push a frame,
// lookups fall through, let and assignment write the top frame)
func render09(items []sitem, env *env09, parts map[string]string, ctr *int, src, out *strings.Builder) {
	for _, it := range items {
		*ctr++
		id := *ctr
		switch it.Kind {
		case "probe":
			src.WriteString(fmt.Sprintf("<%%= if (%s) { %%><%%= %s %%><%% } else { %%>-<%% } %%>", it.Name, it.Name))
			if v, ok := env.get(it.Name); ok {
				out.WriteString(fmt.Sprint(v))
			} else {
				out.WriteString("-")
			}
		case "let":
			src.WriteString(fmt.Sprintf("<%% let %s = %s %%>", it.Name, vs09(it.Val)))
			env.vars[it.Name] = it.Val
		case "iflet":
			// a let inside a branch of an if: branches have no scope of their own, the name is bound
			// in the scope the if stands in - and in no outer one
			if it.Val%2 == 0 {
				src.WriteString(fmt.Sprintf("<%% if (true) { let %s = %s } %%>", it.Name, vs09(it.Val)))
			} else {
				src.WriteString(fmt.Sprintf("<%% if (false) { let %s = 0 } else { %%><%% let %s = %s %%><%% } %%>", it.Name, it.Name, vs09(it.Val)))
			}
			env.vars[it.Name] = it.Val
		case "set":
			if _, ok := env.get(it.Name); !ok {
				continue // assignment to an unknown name is an error: not generated
			}
			src.WriteString(fmt.Sprintf("<%% %s = %d %%>", it.Name, it.Val))
			env.vars[it.Name] = it.Val
		case "tolfail":
			// a function whose body binds names and then fails on an unknown identifier, called where
			// that failure is tolerated (operand of == / !, a condition): the caller goes on, and
			// nothing bound inside may be visible afterwards
			src.WriteString(fmt.Sprintf("<%% let tf%d = fn(v) { let a = 91\n let b = 92\n return v + nosuchname%d } %%>", id, id))
			switch it.Val % 3 {
			case 0:
				src.WriteString(fmt.Sprintf("<%%= if (tf%d(93) == nil) { %%>T<%% } %%>", id))
				out.WriteString("T")
			case 1:
				src.WriteString(fmt.Sprintf("<%%= if (tf%d(93)) { %%>Y<%% } else { %%>N<%% } %%>", id))
				out.WriteString("N")
			default:
				src.WriteString(fmt.Sprintf("<%%= !tf%d(93) %%>", id))
				out.WriteString("true")
			}
		case "define":
			// contentFor("shared") { probes } : emits nothing here; remembered with its defining scope
			var bsrc, bout strings.Builder
			src.WriteString("<% contentFor(\"shared\") { %>")
			src.WriteString("{")
			for _, nm := range c09names {
				src.WriteString(fmt.Sprintf("<%%= if (%s) { %%><%%= %s %%><%% } else { %%>-<%% } %%>", nm, nm))
			}
			src.WriteString("}<% } %>")
			_ = bsrc
			_ = bout
			sharedDef = env
		case "replay":
			if sharedDef == nil {
				continue
			}
			// contentOf("shared", {key: N}) or contentOf("shared") from wherever we are: rendered in a
			// FRESH child of the DEFINING scope holding only this call's data (nothing of earlier replays)
			inner := &env09{vars: map[string]int{}, outer: sharedDef}
			if it.Name == "" {
				src.WriteString("<%= contentOf(\"shared\") %>")
			} else {
				src.WriteString(fmt.Sprintf("<%%= contentOf(\"shared\", {%s: %d}) %%>", it.Name, it.Val))
				inner.vars[it.Name] = it.Val
			}
			out.WriteString("{")
			for _, nm := range c09names {
				if v, ok := inner.get(nm); ok {
					out.WriteString(fmt.Sprint(v))
				} else {
					out.WriteString("-")
				}
			}
			out.WriteString("}")
		default:
			inner := &env09{vars: map[string]int{"v": it.Val}, outer: env}
			var bsrc strings.Builder
			switch it.Kind {
			case "for":
				src.WriteString(fmt.Sprintf("<%%= for (v) in [%s] { %%>", vs09(it.Val)))
				render09(it.Body, inner, parts, ctr, src, out)
				src.WriteString("<% } %>")
			case "fn":
				src.WriteString(fmt.Sprintf("<%% let fn%d = fn(v) { %%>", id))
				render09(it.Body, inner, parts, ctr, src, out)
				src.WriteString(fmt.Sprintf("<%% } %%><%%= fn%d(%s) %%>", id, vs09(it.Val)))
			case "fn0":
				// a function without parameters: its body still runs in a scope of its own
				delete(inner.vars, "v")
				src.WriteString(fmt.Sprintf("<%% let fz%d = fn() { %%>", id))
				render09(it.Body, inner, parts, ctr, src, out)
				src.WriteString(fmt.Sprintf("<%% } %%><%%= fz%d() %%>", id))
			case "partial":
				render09(it.Body, inner, parts, ctr, &bsrc, out)
				name := fmt.Sprintf("part%d", id)
				parts[name] = bsrc.String()
				src.WriteString(fmt.Sprintf("<%%= partial(\"%s\", {v: %s}) %%>", name, vs09(it.Val)))
			case "content":
				src.WriteString(fmt.Sprintf("<%% contentFor(\"c%d\") { %%>", id))
				render09(it.Body, inner, parts, ctr, src, out)
				src.WriteString(fmt.Sprintf("<%% } %%><%%= contentOf(\"c%d\", {v: %s}) %%>", id, vs09(it.Val)))
			case "forit":
				// a loop over an iterator (range): the scope is left again like that of any other loop
				v := it.Val
				if v == nil09 {
					v = 0
					inner.vars["v"] = 0
				}
				src.WriteString(fmt.Sprintf("<%%= for (v) in range(%d, %d) { %%>", v, v))
				render09(it.Body, inner, parts, ctr, src, out)
				src.WriteString("<% } %>")
			case "defblk":
				// contentOf of a name nobody defined: its own block is the default, rendered with the data
				src.WriteString(fmt.Sprintf("<%%= contentOf(\"undef%d\", {v: %s}) { %%>", id, vs09(it.Val)))
				render09(it.Body, inner, parts, ctr, src, out)
				src.WriteString("<% } %>")
			case "blkctx":
				src.WriteString(fmt.Sprintf("<%%= blkctx({v: %s}) { %%>", vs09(it.Val)))
				render09(it.Body, inner, parts, ctr, src, out)
				src.WriteString("<% } %>")
			}
		}
	}
}

func gen09(r *Rng, depth int) []sitem { return gen09x(r, depth, true) }

// contentFor("shared") is only defined at the top level, where every inner scope can see it
func gen09x(r *Rng, depth int, top bool) []sitem {
	n := 2 + r.Intn(4)
	var items []sitem
	for i := 0; i < n; i++ {
		name := c09names[r.Intn(len(c09names))]
		switch x := r.Intn(10); {
		case x < 3:
			items = append(items, sitem{Kind: "probe", Name: name})
		case x < 5:
			items = append(items, sitem{Kind: []string{"let", "let", "iflet"}[r.Intn(3)], Name: name, Val: 1 + r.Intn(8)})
		case x < 6:
			items = append(items, sitem{Kind: "set", Name: name, Val: 1 + r.Intn(8)})
		case x < 7 && r.Intn(3) == 0:
			items = append(items, sitem{Kind: "tolfail", Val: r.Intn(3)})
		case x < 7 && r.Intn(2) == 0:
			k := []string{"define", "replay", "replay"}[r.Intn(3)]
			if k == "define" && !top {
				k = "replay"
			}
			items = append(items, sitem{Kind: k, Val: 1 + r.Intn(8), Name: []string{"v", "v", "a", "b", ""}[r.Intn(5)]})
		default:
			if depth > 0 {
				k := []string{"for", "fn", "partial", "content", "blkctx", "defblk", "forit", "fn0"}[r.Intn(8)]
				val := 1 + r.Intn(8)
				if r.Intn(8) == 0 {
					val = nil09
				}
				items = append(items, sitem{Kind: k, Val: val, Body: gen09x(r, depth-1, false)})
			} else {
				items = append(items, sitem{Kind: "probe", Name: name})
			}
		}
	}
	// always end with a probe of every name
	for _, nm := range c09names {
		items = append(items, sitem{Kind: "probe", Name: nm})
	}
	return items
}

func init() {
	register("C09", func(e *Env) {
		renderPrelude()
		e.perShard = 50
		e.rep.Rule = "nestings to depth 3 of {for, user-function call, partial, contentFor+contentOf with data (the same stored block replayed several times with different data keys and with none), block helper with its own context}, each binding v, and functions that bind names and then fail on an unknown identifier where that is tolerated, with let / shadowing let / assignment / probe statements for names {a, b, v, env (also a built-in helper's name)} at every level and a probe of every name after every construct; all single constructs with a fixed body exhaustively + random trees; judged against an environment-chain reference (constructs push a frame, lookups fall through, writes go to the top frame); distinct by template"
		judge := func(items []sitem, tag string) {
			// env is also the name of a built-in helper: it is always bound by the template first, so
			// that what the probes see is a template variable at every depth
			items = append([]sitem{{Kind: "let", Name: "env", Val: 77}}, items...)
			parts := map[string]string{}
			var src, out strings.Builder
			ctr := 0
			sharedDef = nil
			render09(items, &env09{vars: map[string]int{}}, parts, &ctr, &src, &out)
			c := RCase{Tmpl: src.String(), Binds: []Bind{{"blkctx", vGo(105)}}, Parts: parts}
			if len(parts) == 0 {
				c.Parts = map[string]string{"unused": "x"}
			}
			o := e.addRenderCase(tag, c)
			e.Distinct(c.Tmpl)
			if o.Class != "OK" || o.Out != out.String() {
				e.Violate("c09-scope", fmt.Sprintf("%q rendered %q (%s %s), environment-chain reference %q", c.Tmpl, o.Out, o.Class, o.Msg, out.String()), map[string]interface{}{"case": c, "observed": o})
			}
		}
		body := []sitem{{Kind: "probe", Name: "a"}, {Kind: "probe", Name: "v"}, {Kind: "let", Name: "a", Val: 7}, {Kind: "let", Name: "b", Val: 8}, {Kind: "set", Name: "v", Val: 9}, {Kind: "probe", Name: "a"}, {Kind: "probe", Name: "b"}, {Kind: "probe", Name: "v"}}
		tail := []sitem{{Kind: "probe", Name: "a"}, {Kind: "probe", Name: "b"}, {Kind: "probe", Name: "v"}}
		kinds := []string{"for", "fn", "partial", "content", "blkctx", "defblk", "forit", "fn0"}
		// a function called under ANOTHER name than the one it was defined with (an alias, an argument), from a scope
		// where the defining name has been bound to something else: its body reads the caller's variable of that name
		for _, t := range [][2]string{
			{`<% let x = fn() { return x } %><% let g = x %><%= for (x) in ["loopvar"] { %><%= g() %><% } %>`, "loopvar"},
			{`<% let unit = fn(n) { return "" + n + unit } %><% let fmt2 = unit %><% let unit = "kg" %><%= fmt2(3) %>|<%= unit %>`, "3kg|kg"},
			{`<% let x = fn() { return x } %><% let call = fn(h) { let x = "inner"
 return h() } %><%= call(x) %>`, "inner"},
			{`<% let f = fn(a) { return a + name } %><% let name = "N" %><% let k = f %><%= k("x") %>|<%= f("y") %>`, "xN|yN"},
		} {
			c := RCase{Tmpl: t[0]}
			o := e.addRenderCase("aliased-function", c)
			e.Distinct(t[0])
			if o.Class != "OK" || o.Out != t[1] {
				e.Violate("c09-scope", fmt.Sprintf("%s rendered %q (%s %s), want %q", t[0], o.Out, o.Class, firstLine(o.Msg), t[1]), map[string]interface{}{"case": c, "observed": o})
			}
		}
		// an indexed path (us[0].Name) read in a scope that only INHERITS the indexed variable (a function body,
		// a partial, a default block, a loop inside one of these): the variable is still readable afterwards
		for _, t := range [][2]string{
			{`<% let f = fn() { %><%= us[0].Name %>|<%= len(us) %>|<%= us[1].Name %><% } %><%= f() %>|<%= len(us) %>`, "a|2|b|2"},
			{`<%= partial("pu") %>|<%= us[0].Name %>`, "b/a/2|a"}, {`<% let g = fn() { %><%= for (i) in [0, 1] { %><%= us[i].Name %><% } %><%= len(us) %><% } %><%= g() %><%= g() %>`, "ab2ab2"},
			{`<%= contentOf("nodef9") { %><%= us[1].Name %><%= len(us) %><%= for (u) in us { %><%= u.Name %><% } %><% } %>`, "b2ab"}, {`<%= blkctx({w: 1}) { %><%= us[0].Name %><%= us[1].Name %><%= len(us) %><% } %>`, "ab2"},
			{`<%= partial("pl") %>`, "a;2b;2"}, {`<% let h = fn(k) { let n = us[k].Name
 return n + len(us) } %><%= h(0) %><%= h(1) %>`, "a2b2"},
		} {
			c := RCase{Tmpl: t[0], Binds: []Bind{{"blkctx", vGo(105)}, {"us", vSlice("T0", vT0("a"), vT0("b"))}}, Parts: map[string]string{"pu": `<%= us[1].Name %>/<%= us[0].Name %>/<%= len(us) %>`, "pl": `<%= for (i) in [0, 1] { %><%= us[i].Name %>;<%= len(us) %><% } %>`}}
			o := e.addRenderCase("indexed-inherited-variable", c)
			e.Distinct(t[0])
			if o.Class != "OK" || o.Out != t[1] {
				e.Violate("c09-scope", fmt.Sprintf("%s rendered %q (%s %s), want %q", t[0], o.Out, o.Class, firstLine(o.Msg), t[1]), map[string]interface{}{"case": c, "observed": o})
			}
		}
		// one block-helper call site evaluated several times under DIFFERENT scopes (the body of a function
		// called twice, the inner one of two nested loops): the block sees the scope of THIS evaluation
		for _, t := range [][2]string{
			{`<% let f = fn(x) { %><%= contentOf("nothing", {y: "d"}) { %><%= x %><%= y %><% } %><% } %><%= f("a") %>|<%= f("b") %>|<%= f("c") %>`, "ad|bd|cd"},
			{`<%= for (a) in ["a", "b"] { %><%= for (i) in [1, 2] { %>[<%= blkctx({w: i}) { %><%= a %><%= i %>-<%= w %><% } %>]<% } %><% } %>`, "[a1-1][a2-2][b1-1][b2-2]"},
			{`<% let g = fn(x) { %><%= blk() { %><%= x %><% } %><% } %><%= g(1) %><%= g(2) %><%= g(3) %>`, "[1][2][3]"},
			{`<% let h = fn(x) { let loc = x + "!" %><%= blkctx({w: x}) { %><%= loc %><%= w %><% } %><% } %><%= h("p") %>|<%= h("q") %>`, "p!p|q!q"},
			{`<%= for (a) in ["a", "b"] { %><% let inner = a + a %><%= for (i) in [1] { %><%= blk2() { %><%= inner %><% } %><% } %>;<% } %>`, "aa|aa;bb|bb;"},
			{`<% let k = fn(x) { %><% contentFor("kf") { %><%= x %><% } %><%= contentOf("kf") %><% } %><%= k("1") %>|<%= k("2") %>`, "1|2"},
		} {
			c := RCase{Tmpl: t[0], Binds: []Bind{{"blkctx", vGo(105)}, {"blk", vGo(103)}, {"blk2", vGo(104)}}}
			o := e.addRenderCase("call-site-under-different-scopes", c)
			e.Distinct(t[0])
			if o.Class != "OK" || o.Out != t[1] {
				e.Violate("c09-scope", fmt.Sprintf("%s rendered %q (%s %s), want %q", t[0], o.Out, o.Class, firstLine(o.Msg), t[1]), map[string]interface{}{"case": c, "observed": o})
			}
		}
		// the arguments of a call are evaluated in the CALLER's scope, all of them, before any parameter
		// is bound: an earlier parameter never hides a caller's variable of the same name from a later argument
		for _, t := range [][2]string{
			{`<% let a = "A" %><% let b = "B" %><% let pair = fn(a, b) { return a + "-" + b } %><%= pair(b, a) %>|<%= a %><%= b %>`, "B-A|AB"},
			{`<% let pair = fn(k, v) { return k + "=" + v } %><%= for (k, v) in ["x", "y"] { %><%= pair("" + v, "" + k) %>;<% } %>`, "x=0;y=1;"},
			{`<% let three = fn(a, b, c) { return a + b + c } %><% let a = "1" %><% let b = "2" %><% let c = "3" %><%= three(c, a, b) %>|<%= three(b, c, a) %>`, "312|231"},
			{`<% let outer = fn(a, b) { let inner = fn(a, b) { return a + b }
 return inner(b, a) } %><%= outer("x", "y") %>`, "yx"},
			{`<% let f = fn(a, b) { return a + b } %><% let a = "p" %><%= f(a + "1", a + "2") %>|<%= f("q", a) %>`, "p1p2|qp"},
			{`<% let g = fn(v, w) { %>[<%= v %><%= w %>]<% } %><% let v = "V" %><% let w = "W" %><%= g(w, v) %><%= blkctx({v: "D"}) { %><%= g("n", v) %><% } %>`, "[WV][nD]"},
		} {
			c := RCase{Tmpl: t[0], Binds: []Bind{{"blkctx", vGo(105)}}}
			o := e.addRenderCase("argument-scope", c)
			e.Distinct(t[0])
			if o.Class != "OK" || o.Out != t[1] {
				e.Violate("c09-scope", fmt.Sprintf("%s rendered %q (%s %s), want %q", t[0], o.Out, o.Class, firstLine(o.Msg), t[1]), map[string]interface{}{"case": c, "observed": o})
			}
		}
		// bodies whose only bindings are lets nested in if / else branches (no let at their top level)
		for _, k1 := range kinds {
			for _, val := range []int{4, 5} {
				nested := []sitem{{Kind: "probe", Name: "a"}, {Kind: "iflet", Name: "a", Val: val}, {Kind: "iflet", Name: "b", Val: val + 2}, {Kind: "probe", Name: "a"}, {Kind: "probe", Name: "b"}}
				for _, pre := range [][]sitem{nil, {{Kind: "let", Name: "a", Val: 1}}} {
					judge(append(append(append([]sitem{}, pre...), sitem{Kind: k1, Val: 3, Body: nested}), []sitem{{Kind: "probe", Name: "a"}, {Kind: "probe", Name: "b"}, {Kind: "probe", Name: "v"}}...), "nested-let")
				}
			}
		}
		for _, k1 := range kinds {
			for _, pre := range [][]sitem{nil, {{Kind: "let", Name: "a", Val: 1}}, {{Kind: "let", Name: "a", Val: 1}, {Kind: "let", Name: "v", Val: 2}}} {
				judge(append(append(append([]sitem{}, pre...), sitem{Kind: k1, Val: 3, Body: body}), tail...), "single")
				for _, k2 := range kinds {
					inner := append(append([]sitem{}, body...), sitem{Kind: k2, Val: 4, Body: body})
					inner = append(inner, tail...)
					judge(append(append(append([]sitem{}, pre...), sitem{Kind: k1, Val: 3, Body: inner}), tail...), "double")
				}
			}
		}
		for _, k1 := range kinds {
			if k1 == "partial" {
				continue // a partial is a separate Render: it has its own compiler
			}
			inner := []sitem{{Kind: "replay", Val: 5, Name: "v"}, {Kind: "let", Name: "a", Val: 6}, {Kind: "let", Name: "b", Val: 7}, {Kind: "probe", Name: "a"}, {Kind: "probe", Name: "v"}, {Kind: "replay", Val: 8, Name: "b"}, {Kind: "replay"}, {Kind: "replay", Val: 9, Name: "v"}, {Kind: "probe", Name: "v"}}
			judge(append([]sitem{{Kind: "let", Name: "a", Val: 1}, {Kind: "define"}, {Kind: k1, Val: 3, Body: inner}}, tail...), "replay")
			judge(append([]sitem{{Kind: "define"}, {Kind: "replay", Val: 2, Name: "a"}, {Kind: "replay"}, {Kind: "replay", Val: 3, Name: "b"}, {Kind: "replay", Val: 4, Name: "v"}, {Kind: "replay"}}, tail...), "replay-seq")
		}
		for _, k1 := range append([]string{""}, kinds...) {
			for v := 0; v < 3; v++ {
				inner := []sitem{{Kind: "let", Name: "a", Val: 6}, {Kind: "tolfail", Val: v}, {Kind: "probe", Name: "a"}, {Kind: "probe", Name: "b"}, {Kind: "probe", Name: "v"}, {Kind: "let", Name: "b", Val: 7}, {Kind: "probe", Name: "b"}}
				if k1 == "" {
					judge(append(append([]sitem{{Kind: "let", Name: "v", Val: 2}}, inner...), tail...), "tolfail")
				} else {
					judge(append([]sitem{{Kind: "let", Name: "a", Val: 1}, {Kind: "let", Name: "v", Val: 2}, {Kind: k1, Val: 3, Body: inner}}, tail...), "tolfail")
				}
			}
		}
		// the hash handed to a partial / contentOf / block helper is data, not the callee's scope: what the
		// callee binds or assigns is not visible in it afterwards, and a second call starts afresh
		for _, call := range []struct{ pre, call string }{
			{"", "<%= partial(\"setter\", d) %>"},
			{"<% contentFor(\"cs\") { %><% let zz = 5 %><% v = v + 6 %><%= v %><% } %>", "<%= contentOf(\"cs\", d) %>"},
			{"", "<%= blkctx(d) { %><% let zz = 5 %><% v = v + 6 %><%= v %><% } %>"},
		} {
			c := RCase{Tmpl: "<% let d = {v: 3} %>" + call.pre + call.call + "|" + call.call + "[<%= for (k, x) in d { %><%= k %>=<%= x %>;<% } %>]<%= d[\"zz\"] %>",
				Binds: []Bind{{"blkctx", vGo(105)}}, Parts: map[string]string{"setter": "<% let zz = 5 %><% v = v + 6 %><%= v %>"}}
			o := e.addRenderCase("data-hash", c)
			e.Distinct(c.Tmpl)
			if want := "9|9[v=3;]"; o.Class != "OK" || o.Out != want {
				e.Violate("c09-scope", fmt.Sprintf("%q rendered %q (%s %s), want %q: the hash passed as data must not become the callee's scope", c.Tmpl, o.Out, o.Class, o.Msg, want), map[string]interface{}{"case": c, "observed": o})
			}
		}
		// names bound to nil inside a scope (parameter passed nil, loop over [nil], let x = nil, data
		// {v: nil}): the binding hides the outer variable of the same name while the scope lasts
		for _, k1 := range kinds {
			for _, val := range []int{nil09, 3} {
				inner := []sitem{{Kind: "probe", Name: "v"}, {Kind: "probe", Name: "a"}, {Kind: "let", Name: "a", Val: nil09}, {Kind: "probe", Name: "a"}, {Kind: "let", Name: "b", Val: 5},
					{Kind: k1, Val: nil09, Body: []sitem{{Kind: "probe", Name: "v"}, {Kind: "probe", Name: "a"}, {Kind: "probe", Name: "b"}}}, {Kind: "probe", Name: "v"}}
				judge(append([]sitem{{Kind: "let", Name: "a", Val: 1}, {Kind: "let", Name: "v", Val: 2}, {Kind: k1, Val: val, Body: inner}}, tail...), "nil-binding")
			}
		}
		n := 120
		if e.Thorough() {
			n = 6000
		}
		for i := 0; i < n; i++ {
			judge(gen09(e.Rng, 3), "rand")
		}
	})
}
