package main

import (
	"fmt"
	"strings"
)

// ---- C05: no silent failure ------------------------------------------------------

var c05exprs = []string{"@", "@ + 1", "1 + @", `"a" + @`, "@ - 1", "@ * 2", "4 / @", "@ < 1", "1 <= @", "@ == 1", "1 != @", "@ == nil", "nil != @", "@ && t", "t && @", "@ || f", "f || @", "!@", "!!@", "(@)",
	"[1, @]", "{a: @}", "xs[@]", "@[0]", "id(@)", `rec2(@, 1)`, `rec2("a", @)`, "rec7(1, @)", "g(@)", "g(1, @)", `o.In.Hello(@)`, "truncate(@, {size: 1})", "len(@)", "rec3(cnt(), @, t)", "@ == undefinedVar", "undefinedVar != @",
	// arguments beyond the parameter list (of a user function, of a Go helper): invoked or not, never swallowed
	"g(1, 2, @)", "g(1, 2, @, 3)", "g(1, 2, 3, @)", "id(1, @)", "cnt(@)", "rec2(\"a\", 1, @)",
	// the failing call as the value of an assignment (to an undeclared and to a declared name) that is itself a tolerant operand
	"!(undeclared = @)", "(undeclared = @) == nil", "f || (undeclared = @)", "t && (undeclared = @)", "id(undeclared = @)", "!(xs = @)", "(vs = @) != nil", "[(undeclared = @)]"}

var c05ctxs = []string{"<%= E %>", "<% E %>", "<% let q = E %>", "<% let q = 1 %><% q = E %>", "<%= if (E) { %>a<% } %>", "<%= if (f) { %>a<% } else if (E) { %>b<% } %>",
	"<%= if (t) { %><%= E %><% } %>", "<%= if (f) { %>a<% } else { %><%= E %><% } %>", "<%= for (x) in E { %>a<% } %>", "<%= for (x) in xs { %><%= E %><% } %>", "<%= for (x) in xs { %><% if (E) { break } %>z<% } %>", "<%= for (x) in range(1, 3) { %><%= x %>-<%= E %><% } %>", "<%= for (x) in until(3) { %><%= x %><% if (x == 1) { %><%= E %><% } %><% } %>", "<%= for (g) in groupBy(1, xs) { %><%= E %><% } %>", "<%= for (k, v) in mi { %><%= E %><% } %>", "<%= for (x) in between(0, 3) { %>a<% E %>b<% } %>",
	"<% let g2 = fn(a) { return E } %><%= g2(1) %>", "<%= blk() { %><%= E %><% } %>", `<%= htmlEscape("x") { %><%= E %><% } %>`, `<% contentFor("c") { %><%= E %><% } %>x<%= contentOf("c") %>`, `<%= contentOf("nope") { %><%= E %><% } %>`,
	// a stored block that fails, replayed by a contentOf that carries a default block of its own (the default is for a
	// name nobody defined, not for content that fails), and a default block that fails next to stored content that is fine
	`<% contentFor("c2") { %><%= E %><% } %>x<%= contentOf("c2") { %>default<% } %>`, `<% contentFor("c3") { %>a<% E %>b<% } %><%= contentOf("c3", {w: 1}) { %><%= 1 %><% } %>`,
	`<%= contentOf("nope2", {w: E}) { %>d<% } %>`, `<% contentFor("c4") { %>ok<% } %><%= contentOf("c4", {w: E}) { %>d<% } %>`,
	"<%= blkctx({w: E}) { %>b<% } %>", `<%= partial("p.html", {who: E}) %>`, "<% return E %>", "text<%= E %>more", "<%= xs %><% E %>tail", `<%= for (x) in xs { %>a<% E %>b<% } %>`}

// error types whose zero value is a perfectly good (non-nil) error
type c05errStruct struct{}

func (c05errStruct) Error() string { return "not found" }

type c05errCode int

func (c c05errCode) Error() string { return fmt.Sprintf("code %d", int(c)) }

type c05errText string

func (c c05errText) Error() string { return "text:" + string(c) }

type c05errArr [2]int

func (c c05errArr) Error() string { return "arr" }

func init() {
	register("C05", func(e *Env) {
		renderPrelude()
		e.perShard = 50
		e.rep.Rule = "a failing instrumented helper (fail1: logs its invocation, returns sentinel error E1) planted at every hole of 36 expression skeletons x 22 statement contexts (operands of every operator, conditions, branch bodies, loop iterable/body, array/hash elements, index, arguments of Go helpers / user functions / methods, helper blocks, contentFor/contentOf blocks, partial data and partial bodies), plus depth-2 compositions; call sites evaluated several times in one render with different functions (the failing one not first); the same holes filled with a partial whose body calls the failing helper and with partials that fail on an unknown identifier after logging that they ran (the helper's error wraps an unknown-identifier error: not the tolerated case); oracle: whenever the log shows the helper was invoked, Render must return an error with errors.Is(err, E1) and empty output; non-trivial = the helper was invoked; distinct by template"
		pre := "<% let g = fn(a, b) { return a } %>"
		check := func(tag, tmpl string) {
			c := RCase{Tmpl: pre + tmpl, Binds: stdBinds(), Parts: stdParts}
			o := e.addRenderCase(tag, c)
			invoked := false
			for _, l := range o.Log {
				if l.Id == 100 {
					invoked = true
				}
			}
			if !invoked {
				return
			}
			e.Distinct("inv/" + tmpl)
			rp := map[string]interface{}{"case": c, "observed": o}
			switch {
			case o.Class == "OK":
				e.Violate("c05-swallowed", fmt.Sprintf("failing helper was invoked but Render succeeded with %q for %q", o.Out, tmpl), rp)
			case o.Class == "ERR" && o.Sentinel != 1:
				e.Violate("c05-not-wrapped", fmt.Sprintf("failing helper was invoked, Render failed, but errors.Is(err, E1) is false for %q: %s", tmpl, o.Msg), rp)
			case o.Class == "ERR" && o.Out != "":
				e.Violate("c05-partial-output", fmt.Sprintf("Render returned an error and output %q for %q", o.Out, tmpl), rp)
			case o.Class == "PANIC":
				e.Violate("eval-panic@"+siteOf(o.Msg), fmt.Sprintf("Render panicked on %q: %s", tmpl, o.Msg), rp)
			}
		}
		for _, cx := range c05ctxs {
			for _, ex := range c05exprs {
				check("d1", strings.Replace(cx, "E", strings.Replace(ex, "@", "fail1()", 1), 1))
			}
		}
		// other failing sources in the same holes: a partial whose body calls the failing helper, and
		// partials whose body fails on an unknown identifier (after logging that they ran): the
		// error of the partial helper wraps an unknown-identifier error, which is NOT the tolerated case
		markT := show(vInt(8).Go(nil))
		check2 := func(tag, tmpl string) {
			c := RCase{Tmpl: pre + tmpl, Binds: stdBinds(), Parts: stdParts}
			o := e.addRenderCase(tag, c)
			ran := false
			for _, l := range o.Log {
				if l.Id == 101 && len(l.Args) > 0 && l.Args[0] == markT {
					ran = true
				}
			}
			if !ran {
				return
			}
			e.Distinct("inv2/" + tmpl)
			rp := map[string]interface{}{"case": c, "observed": o}
			switch {
			case o.Class == "OK":
				e.Violate("c05-swallowed", fmt.Sprintf("a partial that fails on an unknown identifier was rendered but Render succeeded with %q for %q", o.Out, tmpl), rp)
			case o.Class == "ERR" && o.Out != "":
				e.Violate("c05-partial-output", fmt.Sprintf("Render returned an error and output %q for %q", o.Out, tmpl), rp)
			case o.Class == "PANIC":
				e.Violate("eval-panic@"+siteOf(o.Msg), fmt.Sprintf("Render panicked on %q: %s", tmpl, o.Msg), rp)
			}
		}
		for _, cx := range c05ctxs {
			for _, ex := range c05exprs {
				check("d1p", strings.Replace(cx, "E", strings.Replace(ex, "@", `partial("failing")`, 1), 1))
				check2("d1u", strings.Replace(cx, "E", strings.Replace(ex, "@", `partial("badc")`, 1), 1))
			}
			check2("d1b", strings.Replace(cx, "E", `partial("badblk")`, 1))
			check2("d1b", strings.Replace(cx, "E", `!partial("badblk")`, 1))
			check2("d1b", strings.Replace(cx, "E", `partial("badblk") == nil`, 1))
		}
		// one call site evaluated several times in a render with different functions, the failing one
		// not first (loop over functions, a function taking a function, a stored block replayed)
		for _, t := range []string{
			`<%= for (h) in [cnt, fail1] { %>[<%= h() %>]<% } %>`, `<%= for (h) in [cnt, cnt, fail1, cnt] { %>[<%= h() %>]<% } %>`,
			`<% let call = fn(h) { return h() } %><%= call(cnt) %>|<%= call(fail1) %>`, `<% let call = fn(h) { return h() } %><%= call(rec0) %>|<%= call(cnt) %>|<%= if (call(fail1)) { %>y<% } %>`,
			`<% contentFor("cf") { %><%= h() %><% } %><%= contentOf("cf", {h: cnt}) %>|<%= contentOf("cf", {h: fail1}) %>`,
			`<%= for (h) in [id, fail1] { %><%= for (x) in [1] { %>[<%= h(x) %>]<% } %><% } %>`, `<% let twice = fn(h) { return h() + h() } %><%= twice(rec0) %><%= twice(fail1) %>`,
		} {
			check("callsite-reuse", t)
		}
		check("partial", `<%= partial("failing") %>`)
		check("partial", `a<%= partial("nested") %><%= partial("failing", {layout: "lay"}) %>`)
		check("partial", `<%= partial("p.html", {who: "x", layout: "failing"}) %>`)
		// depth 2: an expression skeleton inside an expression skeleton
		n := 700
		if e.Thorough() {
			n = 12000
		}
		for i := 0; i < n; i++ {
			inner := strings.Replace(c05exprs[e.Rng.Intn(len(c05exprs))], "@", "fail1()", 1)
			outer := strings.Replace(c05exprs[e.Rng.Intn(len(c05exprs))], "@", "("+inner+")", 1)
			cx := c05ctxs[e.Rng.Intn(len(c05ctxs))]
			check("d2", strings.Replace(cx, "E", outer, 1))
		}
		// failing helpers whose first result is not a string: a struct, a pointer, a map, a slice, used
		// as the receiver of a chained member / method / index / loop (Go-only helpers)
		{
			inv := 0
			extra := map[string]interface{}{
				"failS": func() (T0, error) { inv++; return T0{"partial"}, sentinels[1] },
				"failP": func() (*T0, error) { inv++; return &T0{"partial"}, sentinels[1] },
				"failN": func() (*T0, error) { inv++; return nil, sentinels[1] },
				"failM": func() (map[string]interface{}, error) { inv++; return map[string]interface{}{"k": "v"}, sentinels[1] },
				"failL": func() ([]string, error) { inv++; return []string{"a"}, sentinels[1] },
				"failI": func(x int) (T1, error) { inv++; return T1{Name: "t1"}, sentinels[1] },
			}
			for _, t := range []string{"before <%= failS().Name %> after", "<% let x = failS().Name %>ok", "<%= if (failS().Name) { %>y<% } else { %>n<% } %>", "<%= failP().Name %>", "<%= failP().Hello(\"w\") %>",
				"<%= failN().Name %>", "<%= failM()[\"k\"] %>", "<%= failL()[0] %>", "<%= for (x) in failL() { %><%= x %><% } %>", "<%= len(failL()) %>", "<%= failI(1).Name %>|<%= failI(2).In.Name %>",
				"<%= !failS().Name %>", "<%= failS().Name == nil %>", "<%= rec1(failS().Name) %>", "a<%= [failS().Name] %>b", "<%= failS() %>", "<%= failM() %>"} {
				inv = 0
				c := RCase{Tmpl: t, Binds: stdBinds(), Parts: stdParts}
				o := runRenderExtra(c, extra)
				e.rep.Evaluations++
				e.Count("chained-on-failing-helper")
				if inv == 0 {
					continue
				}
				e.Distinct("inv/" + t)
				rp := map[string]interface{}{"tmpl": t, "observed": o}
				switch {
				case o.Class == "OK":
					e.Violate("c05-swallowed", fmt.Sprintf("failing helper was invoked but Render succeeded with %q for %q", o.Out, t), rp)
				case o.Class == "ERR" && o.Sentinel != 1:
					e.Violate("c05-not-wrapped", fmt.Sprintf("failing helper was invoked, Render failed, but errors.Is(err, E1) is false for %q: %s", t, o.Msg), rp)
				case o.Class == "ERR" && o.Out != "":
					e.Violate("c05-partial-output", fmt.Sprintf("Render returned an error and output %q for %q", o.Out, t), rp)
				case o.Class == "PANIC":
					e.Violate("eval-panic@"+siteOf(o.Msg), fmt.Sprintf("Render panicked on %q: %s", t, o.Msg), rp)
				}
			}
		}
		// failing helpers whose error VALUE is the zero value of its type (a stateless sentinel struct, an
		// errno-like int that is 0, an empty named string): a non-nil error all the same
		{
			inv := 0
			extra := map[string]interface{}{
				"failZ": func() (string, error) { inv++; return "z", c05errStruct{} },
				"failC": func(s string) (int, error) { inv++; return 1, c05errCode(0) },
				"failE": func() error { inv++; return c05errText("") },
				"failA": func() (string, error) { inv++; return "a", c05errArr{} },
			}
			for _, t := range []string{"<p><%= failZ() %></p>", "<%= if (failZ()) { %>y<% } else { %>n<% } %>", "<%= failC(\"k\") + 1 %>", "<% let q = failC(\"k\") %>ok", "a<% failE() %>b", "<%= for (x) in [1, 2] { %><%= failA() %><% } %>",
				"<%= failZ() == nil %>", "<%= [failC(\"x\")] %>", "<%= blk() { %><%= failA() %><% } %>"} {
				inv = 0
				c := RCase{Tmpl: t, Binds: stdBinds(), Parts: stdParts}
				o := runRenderExtra(c, extra)
				e.rep.Evaluations++
				e.Count("zero-valued-errors")
				if inv == 0 {
					continue
				}
				e.Distinct("inv/" + t)
				rp := map[string]interface{}{"tmpl": t, "observed": o}
				switch {
				case o.Class == "OK":
					e.Violate("c05-swallowed", fmt.Sprintf("a helper returning a non-nil error (whose value is its type's zero value) was invoked but Render succeeded with %q for %q", o.Out, t), rp)
				case o.Class == "ERR" && o.Out != "":
					e.Violate("c05-partial-output", fmt.Sprintf("Render returned an error and output %q for %q", o.Out, t), rp)
				case o.Class == "PANIC":
					e.Violate("eval-panic@"+siteOf(o.Msg), fmt.Sprintf("Render panicked on %q: %s", t, o.Msg), rp)
				}
			}
		}
		// the repaired defect (F4) stays in the corpus
		for _, t := range []string{"<%= fail1() == 1 %>", "<%= fail1() || true %>", "<%= true && fail1() %>", "<% if (fail1() == 1) { %>a<% } %>"} {
			check("corpus", t)
		}
	})
}
