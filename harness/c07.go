package main

import (
	"fmt"
	"reflect"
	"strings"
)

// ---- C07: first truthy branch, uniform truthiness ------------------------------------

func init() {
	register("C07", func(e *Env) {
		renderPrelude()
		e.perShard = 50
		e.rep.Rule = "truthiness matrix: every value kind of the pool (+ Go-only kinds, + an unknown identifier) in the ten contexts if / else-if / ! / !! / x && true / x || false / true && x / false || x / else-if (true && x) / !(false || x), which must agree with each other and with the documented table (nil, false, empty string, empty HTML, nil pointers, unknown identifiers falsy; everything else truthy); if/else-if/else chains of 1..5 branches (with text blocks, and with some blocks empty) under every truth assignment with counting helpers as conditions, at top level and nested in for / fn / block helper: the output must be the first truthy branch and the log must show exactly conditions 1..k evaluated; distinct by template+assignment"
		pool := c04pool()
		falsy := map[string]bool{"vnil": true, "vf": true, "ve": true, "vhe": true, "vnp": true}
		ctxT := func(x string) string {
			return fmt.Sprintf("<%%= if (%s) { %%>Y<%% } %%>|<%%= if (vf) { %%>a<%% } else if (%s) { %%>Y<%% } %%>|<%%= !%s %%>|<%%= !!%s %%>|<%%= %s && true %%>|<%%= %s || false %%>|<%%= true && %s %%>|<%%= false || %s %%>|<%%= if (false) { %%>a<%% } else if (true && %s) { %%>Y<%% } else { %%>N<%% } %%>|<%%= !(false || %s) %%>", x, x, x, x, x, x, x, x, x, x)
		}
		want := func(t bool) string {
			if t {
				return "Y|Y|false|true|true|true|true|true|Y|false"
			}
			return "||true|false|false|false|false|false|N|true"
		}
		for _, b := range pool {
			c := RCase{Tmpl: ctxT(b.Name), Binds: pool}
			o := e.addRenderCase("matrix", c)
			if o.Class != "OK" || o.Out != want(!falsy[b.Name]) {
				e.Violate("c07-truthiness", fmt.Sprintf("%s (%s): the contexts gave %q (%s), want %q", b.Name, b.V.K, o.Out, o.Class, want(!falsy[b.Name])), map[string]interface{}{"case": c, "observed": o})
			}
		}
		{
			c := RCase{Tmpl: ctxT("undefinedVar"), Binds: pool}
			o := e.addRenderCase("matrix", c)
			if o.Class != "OK" || o.Out != want(false) {
				e.Violate("c07-truthiness", fmt.Sprintf("unknown identifier: the contexts gave %q (%s)", o.Out, o.Class), map[string]interface{}{"case": c, "observed": o})
			}
		}
		// a dotted path whose root is unknown is an unknown identifier too
		for _, x := range []string{"nosuch.Admin", "nosuch.a.b", "(nosuch.Admin)"} {
			c := RCase{Tmpl: ctxT(x), Binds: pool}
			o := e.addRenderCase("matrix", c)
			if o.Class != "OK" || o.Out != want(false) {
				e.Violate("c07-truthiness", fmt.Sprintf("unknown identifier %s: the contexts gave %q (%s %s)", x, o.Out, o.Class, firstLine(o.Msg)), map[string]interface{}{"case": c, "observed": o})
			}
		}
		extra := c04extra()
		xfalsy := map[string]bool{}
		for k, v := range extra {
			// the Go-only kinds that are falsy: typed nil pointers
			if rv := reflect.ValueOf(v); rv.Kind() == reflect.Ptr && rv.IsNil() {
				xfalsy[k] = true
			}
		}
		for k := range extra {
			c := RCase{Tmpl: ctxT(k), Binds: pool}
			o := runRenderExtra(c, extra)
			e.rep.Evaluations++
			e.Count("matrix-goonly")
			if o.Class != "OK" || o.Out != want(!xfalsy[k]) {
				e.Violate("c07-truthiness", fmt.Sprintf("%s (%T): the contexts gave %q (%s), want %q", k, extra[k], o.Out, o.Class, want(!xfalsy[k])), map[string]interface{}{"tmpl": c.Tmpl, "observed": o})
			}
		}
		// a name tested while it is unknown (falsy), then bound by each binding form, then unknown again
		// once the binding scope has ended: every test sees the binding of that moment
		{
			const IF = "<%= if (q) { %>Y<% } else { %>N<% } %>"
			for _, b := range [][2]string{
				{"<% let q = 1 %>" + IF, "Y"}, {"<%= for (q) in [1, 2] { %>" + IF + "<% } %>" + IF, "YYN"}, {"<%= for (k, q) in {\"a\": 1} { %>" + IF + "<% } %>" + IF, "YN"},
				{"<%= for (q) in range(1, 2) { %>" + IF + "<% } %>" + IF, "YYN"}, {"<%= for (q) in until(2) { %>" + IF + "<% } %>" + IF, "YYN"}, {"<%= for (q) in between(0, 3) { %>" + IF + "<% } %>" + IF, "YYN"},
				{"<%= for (q) in groupBy(1, [1, 2]) { %>" + IF + "<% } %>" + IF, "YN"}, {"<%= for (i, q) in [true] { %>" + IF + "<% } %>" + IF, "YN"},
				{"<% let h = fn(q) { %>" + IF + "<% } %><%= h(1) %>" + IF, "YN"}, {"<% let h = fn() { let q = 2 %>" + IF + "<% } %><%= h() %>" + IF, "YN"},
				{"<%= partial(\"probe\", {q: 1}) %>" + IF, "YN"}, {"<% contentFor(\"c\") { %>" + IF + "<% } %><%= contentOf(\"c\", {q: 1}) %>" + IF + "<%= contentOf(\"c\") %>", "YNN"},
				{"<%= blkctx({q: 1}) { %>" + IF + "<% } %>" + IF, "YN"}, {"<%= for (z) in [1] { %><% let q = 1 %>" + IF + "<% } %>" + IF, "YN"},
				{"<%= for (q) in [false, 1, nil, 2] { %>" + IF + "<% } %>", "NYNY"},
			} {
				for _, probe := range []string{IF, "<%= q == nil %>|", "<% if (!q) { %>u<% } %>", "<%= for (z) in [1] { %>" + IF + "<% } %>", "<% let pf = fn() { %>" + IF + "<% } %><%= pf() %>"} {
					pw := map[string]string{IF: "N", "<%= q == nil %>|": "true|", "<% if (!q) { %>u<% } %>": ""}[probe]
					if strings.Contains(probe, "[1]") || strings.Contains(probe, "pf()") {
						pw = "N"
					}
					c := RCase{Tmpl: probe + b[0], Binds: []Bind{{"blkctx", vGo(105)}}, Parts: map[string]string{"probe": IF}}
					o := e.addRenderCase("probe-then-bind", c)
					if o.Class != "OK" || o.Out != pw+b[1] {
						e.Violate("c07-truthiness", fmt.Sprintf("%s: rendered %q (%s %s), want %q", c.Tmpl, o.Out, o.Class, firstLine(o.Msg), pw+b[1]), map[string]interface{}{"case": c, "observed": o})
					}
				}
			}
		}
		// chains
		wraps := []string{"@", "<%= for (z) in [1] { %>@<% } %>", "<% let w = fn() { %>@<% } %><%= w() %>", "<%= blk() { %>@<% } %>", "<%= if (true) { %>@<% } %>",
			// the chain nested in an else-if block and in the else block of an outer chain (whose own later branches must not run)
			"<%= if (false) { %>o1<% } else if (true) { %>@<% } else if (true) { %>o3<% } else { %>o4<% } %>", "<%= if (false) { %>o1<% } else { %>@<% } %>",
			"<%= if (false) { %>o1<% } else if (false) { %>o2<% } else if (true) { %><%= for (z) in [1] { %>@<% } %><% } else if (true) { %>o4<% } %>"}
		maxN := 4
		if e.Thorough() {
			maxN = 5
		}
		for n := 1; n <= maxN; n++ {
			for hasElse := 0; hasElse < 2; hasElse++ {
				for mask3 := 0; mask3 < 4<<n; mask3++ {
					mask2 := mask3 % (2 << n)
					// style 1: some branches have EMPTY blocks ({} or { %><% }): an empty first-truthy
					// branch still ends the chain
					style := mask3 / (2 << n)
					mask := mask2 % (1 << n)
					unknownVariant := mask2 >= 1<<n
					body := func(i int, text string) (src, out string) {
						if style == 1 {
							switch (i + mask + n) % 3 {
							case 0:
								return "{}", ""
							case 1:
								return "{ %><% }", ""
							}
						}
						return "{ %>" + text + "<% }", text
					}
					outs := map[int]string{}
					unknownAt := map[int]bool{}
					binds := []Bind{{"blk", vGo(103)}}
					var sb strings.Builder
					sb.WriteString("<%= ")
					for i := 0; i < n; i++ {
						truth := mask&(1<<i) != 0
						ret := []VD{vBool(true), vInt(0), vStr("x"), vSlice("iface")}[(i+mask)%4]
						if !truth {
							ret = []VD{vBool(false), vNil(), vStr(""), VD{K: "nilptr", Tn: "T0"}}[(i+mask)%4]
						}
						binds = append(binds, Bind{fmt.Sprintf("c%d", i+1), vGo(101, vInt(i+1), ret)})
						cond := fmt.Sprintf("c%d()", i+1)
						if !truth && unknownVariant {
							// a falsy condition spelled as an unknown identifier (not logged)
							cond = fmt.Sprintf("nope%d", i+1)
							unknownAt[i] = true
						}
						bsrc, bout := body(i, fmt.Sprintf("B%d", i+1))
						outs[i] = bout
						if i == 0 {
							sb.WriteString("if (" + cond + ") " + bsrc)
						} else {
							sb.WriteString(fmt.Sprintf(" else if (%s) %s", cond, bsrc))
						}
					}
					elseOut := ""
					if hasElse == 1 {
						esrc, eout := body(n, "E")
						elseOut = eout
						sb.WriteString(" else " + esrc)
					}
					sb.WriteString(" %>")
					first := -1
					for i := 0; i < n; i++ {
						if mask&(1<<i) != 0 {
							first = i
							break
						}
					}
					wantOut := ""
					wantLog := n
					if first >= 0 {
						wantOut = outs[first]
						wantLog = first + 1
					} else if hasElse == 1 {
						wantOut = elseOut
					}
					for wi, w := range wraps {
						if wi > 0 && (mask+n+hasElse)%3 != 0 && !e.Thorough() {
							continue
						}
						c := RCase{Tmpl: strings.Replace(w, "@", sb.String(), 1), Binds: binds}
						o := e.addRenderCase("chain", c)
						wo := wantOut
						if wi == 3 {
							wo = "[" + wantOut + "]"
						}
						var wantIds []string
						for i := 0; i < wantLog; i++ {
							if !unknownAt[i] {
								wantIds = append(wantIds, fmt.Sprintf("i%d", i+1))
							}
						}
						bad := o.Class != "OK" || o.Out != wo || len(o.Log) != len(wantIds)
						for i, l := range o.Log {
							if i < len(wantIds) && (l.Id != 101 || l.Args[0] != wantIds[i]) {
								bad = true
							}
						}
						if bad {
							e.Violate("c07-chain", fmt.Sprintf("chain %q with truth mask %b: got %q (%s), %d conditions evaluated; want %q and exactly conditions 1..%d", c.Tmpl, mask, o.Out, o.Class, len(o.Log), wo, wantLog), map[string]interface{}{"case": c, "observed": o})
						}
					}
				}
			}
		}
		// a name bound to NIL in an inner scope (a nil element as the loop variable, a nil argument, let x = nil)
		// while an ENCLOSING scope holds a truthy value under the same name: inside, the name is falsy at every site
		for _, t := range [][2]string{
			{`<% let v = "outer" %><%= for (v) in [1, nil, 2] { %><%= if (v) { %>T<% } else { %>N<% } %><%= !v %>,<% } %>|<%= if (v) { %>T<% } %>`, "Tfalse,Ntrue,Tfalse,|T"},
			{`<% let x = "o" %><% let f = fn(x) { if (x) { return "T" } return "N" } %><%= f(1) %><%= f(nil) %><%= f(x) %>`, "TNT"},
			{`<% let x = true %><%= for (i) in [1, 2] { %><% let x = nil %><%= if (x) { %>T<% } else { %>F<% } %><%= x || false %><%= x && true %><% } %>|<%= x %>`, "FfalsefalseFfalsefalse|true"},
			{`<% let w = "outer" %><%= partial("nw", {w: nil}) %>|<%= blkctx({w: nil}) { %><%= if (w) { %>T<% } else { %>N<% } %><%= !!w %><% } %>`, "Nfalse|Nfalse"},
		} {
			c := RCase{Tmpl: t[0], Binds: []Bind{{"blkctx", vGo(105)}}, Parts: map[string]string{"nw": `<%= if (w) { %>T<% } else { %>N<% } %><%= !!w %>`}}
			o := e.addRenderCase("nil-shadows-outer", c)
			e.Distinct(t[0])
			if o.Class != "OK" || o.Out != t[1] {
				e.Violate("c07-truthiness", fmt.Sprintf("%s: rendered %q (%s %s), want %q", t[0], o.Out, o.Class, firstLine(o.Msg), t[1]), map[string]interface{}{"case": c, "observed": o})
			}
		}
		// a template function that FAILS on an unknown identifier, called where that is tolerated (a condition,
		// an operand of ! || &&): the chain goes on in the CALLER's scope - the function's parameters do not
		// stay bound and do not change what later conditions see
		for _, t := range [][2]string{
			{`<% let f = fn(p) { return missing } %><%= if (f(1)) { %>A<% } else if (p) { %>B<% } else { %>C<% } %>`, "C"},
			{`<% let x = false %><% let check = fn(x) { return missing.Field } %><%= if (check("yes")) { %>A<% } else if (x) { %>B<% } else { %>C<% } %>|<%= x %>`, "C|false"},
			{`<% let f = fn(p) { return missing } %><%= !f(1) %>|<%= if (p) { %>T<% } else { %>F<% } %>|<%= f(2) || p %>|<%= if (p) { %>T<% } else { %>F<% } %>`, "true|F|false|F"},
			{`<% let f = fn(q) { return nothere } %><%= for (i) in [1, 2] { %><%= if (f(i)) { %>A<% } else if (q) { %>B<% } else { %>C<% } %><% } %>|<%= if (q) { %>T<% } else { %>F<% } %>`, "CC|F"},
			{`<% let v = "outer" %><% let g = fn(v) { return nope } %><%= if (g("inner") == nil) { %><%= v %><% } %>|<%= v %>`, "outer|outer"},
		} {
			c := RCase{Tmpl: t[0]}
			o := e.addRenderCase("failing-function-in-condition", c)
			e.Distinct(t[0])
			if o.Class != "OK" || o.Out != t[1] {
				e.Violate("c07-chain", fmt.Sprintf("%s: rendered %q (%s %s), want %q", t[0], o.Out, o.Class, firstLine(o.Msg), t[1]), map[string]interface{}{"case": c, "observed": o})
			}
		}
		// chains whose HEAD condition is a negation (if (!c1()) ... else if (c2()) ... else ...), with and
		// without else-ifs and else: the first truthy branch, conditions evaluated up to it and no further
		for n := 1; n <= 3; n++ {
			for hasElse := 0; hasElse < 2; hasElse++ {
				for mask := 0; mask < 1<<n; mask++ {
					binds := []Bind{}
					var sb strings.Builder
					sb.WriteString("<%= ")
					for i := 0; i < n; i++ {
						ret := vBool(mask&(1<<i) != 0)
						if (i+mask)%2 == 1 {
							ret = map[bool]VD{true: vStr("x"), false: vNil()}[mask&(1<<i) != 0]
						}
						binds = append(binds, Bind{fmt.Sprintf("c%d", i+1), vGo(101, vInt(i+1), ret)})
						if i == 0 {
							sb.WriteString(fmt.Sprintf("if (!c1()) { %%>B1<%% }"))
						} else {
							sb.WriteString(fmt.Sprintf(" else if (c%d()) { %%>B%d<%% }", i+1, i+1))
						}
					}
					if hasElse == 1 {
						sb.WriteString(" else { %>E<% }")
					}
					sb.WriteString(" %>")
					// branch i is truthy when: i == 0 -> c1 falsy; else ci truthy
					wantOut, wantLog := "", n
					for i := 0; i < n; i++ {
						truthy := mask&(1<<i) != 0
						if i == 0 {
							truthy = !truthy
						}
						if truthy {
							wantOut, wantLog = fmt.Sprintf("B%d", i+1), i+1
							break
						}
					}
					if wantOut == "" && hasElse == 1 {
						wantOut = "E"
					}
					c := RCase{Tmpl: sb.String(), Binds: binds}
					o := e.addRenderCase("negated-head", c)
					e.Distinct(c.Tmpl + fmt.Sprint(mask))
					if o.Class != "OK" || o.Out != wantOut || len(o.Log) != wantLog {
						e.Violate("c07-chain", fmt.Sprintf("chain %q with truth mask %b: got %q (%s), %d conditions evaluated; want %q and exactly conditions 1..%d", c.Tmpl, mask, o.Out, o.Class, len(o.Log), wantOut, wantLog), map[string]interface{}{"case": c, "observed": o})
					}
				}
			}
		}
	})
}
