package main

import (
	"fmt"
	"html/template"
	"math"
	"math/big"
	"reflect"
	"strings"

	"github.com/gobuffalo/plush/v5"
	"github.com/gobuffalo/plush/v5/helpers/iterators"
	"github.com/gobuffalo/plush/v5/helpers/meta"
)

// ---- C19: iterator and collection helpers --------------------------------

type c19r struct {
	Helper string `json:"helper"`
	A      int    `json:"a"`
	B      int    `json:"b"`
	Cap    int    `json:"cap"`
	Obs    []int  `json:"observed"`
	Fin    bool   `json:"exhausted"`
}

func c19run(h string, a, b, cap int) ([]int, bool, string) {
	var it iterators.Iterator
	switch h {
	case "range":
		it = iterators.Range(a, b)
	case "between":
		it = iterators.Between(a, b)
	default:
		it = iterators.Until(a)
	}
	xs := []int{}
	for i := 0; i < cap; i++ {
		v := it.Next()
		if v == nil {
			return xs, true, ""
		}
		n, ok := v.(int)
		if !ok {
			return xs, false, fmt.Sprintf("non-int %T", v)
		}
		xs = append(xs, n)
	}
	return xs, it.Next() == nil, ""
}

// the property's own words, computed with big integers
func c19expect(h string, a, b, cap int) ([]int, bool) {
	lo, hi := big.NewInt(int64(a)), big.NewInt(int64(b))
	switch h {
	case "between":
		lo.Add(lo, big.NewInt(1))
		hi.Sub(hi, big.NewInt(1))
	case "until":
		lo = big.NewInt(0)
		hi = big.NewInt(int64(a))
		hi.Sub(hi, big.NewInt(1))
	}
	xs := []int{}
	cur := new(big.Int).Set(lo)
	for i := 0; i < cap; i++ {
		if cur.Cmp(hi) > 0 {
			return xs, true
		}
		xs = append(xs, int(cur.Int64()))
		cur.Add(cur, big.NewInt(1))
	}
	return xs, cur.Cmp(hi) > 0
}

type c19idx struct{ I int }

func c19groups(n, ln int, variant int) (res [][]int, isErr bool, note string) {
	defer func() {
		if r := recover(); r != nil {
			note = fmt.Sprintf("panic: %v", r)
		}
	}()
	var under interface{}
	switch variant % 7 {
	case 0:
		s := make([]int, ln)
		for i := range s {
			s[i] = i
		}
		under = s
	case 1:
		s := make([]string, ln)
		for i := range s {
			s[i] = fmt.Sprint(i)
		}
		under = s
	case 2:
		s := make([]c19idx, ln)
		for i := range s {
			s[i] = c19idx{i}
		}
		under = s
	case 3:
		s := make([]*c19idx, ln)
		for i := range s {
			s[i] = &c19idx{i}
		}
		under = &s
	case 4:
		s := make([]interface{}, ln)
		for i := range s {
			s[i] = i
		}
		under = &s
	case 5, 6:
		// an array, by value (5) and behind a pointer (6)
		a := reflect.New(reflect.ArrayOf(ln, reflect.TypeOf(0)))
		for i := 0; i < ln; i++ {
			a.Elem().Index(i).SetInt(int64(i))
		}
		if variant%7 == 5 {
			under = a.Elem().Interface()
		} else {
			under = a.Interface()
		}
	}
	var next func() interface{}
	if variant >= 7 {
		g, err := plush.GroupByHelper(n, under)
		if err != nil {
			return nil, true, ""
		}
		next = g.Next
	} else {
		g, err := iterators.GroupBy(n, under)
		if err != nil {
			return nil, true, ""
		}
		next = g.Next
	}
	for k := 0; k < ln+3; k++ {
		v := next()
		if v == nil {
			return res, false, ""
		}
		rv := reflect.ValueOf(v)
		grp := []int{}
		for i := 0; i < rv.Len(); i++ {
			e := rv.Index(i).Interface()
			switch t := e.(type) {
			case int:
				grp = append(grp, t)
			case string:
				var x int
				fmt.Sscan(t, &x)
				grp = append(grp, x)
			case c19idx:
				grp = append(grp, t.I)
			case *c19idx:
				grp = append(grp, t.I)
			}
		}
		res = append(res, grp)
	}
	return res, false, "iterator did not finish"
}

// sequence, map and string types that print themselves
type c19ip []byte

func (p c19ip) String() string { return "127.000.000.001/32" }

type c19id [4]byte

func (p c19id) String() string { return "id-0000-0000" }

type c19tags map[string]int

func (p c19tags) String() string { return "tags(...)" }

type c19word string

func (p c19word) String() string { return "word:" + string(p) + "!" }

type c19hs []string

func (p c19hs) HTML() template.HTML { return "<ul>...</ul>" }

func init() {
	register("C19", func(e *Env) {
		shardPrelude["c19r"] = "From Plush Require Import model.Bytes model.Iter model.Cases.\n"
		shardCheck["c19r"] = "check_c19r"
		shardPrelude["c19g"] = shardPrelude["c19r"]
		shardCheck["c19g"] = "check_c19g"
		shardPrelude["c19l"] = shardPrelude["c19r"]
		shardCheck["c19l"] = "check_c19l"
		e.perShard = 1500
		e.rep.Rule = "range/between/until: all a,b,n in [-8,8] plus the int extremes (minint, minint+1, maxint-1, maxint) crossed with small values, cap 64 values per iterator; several iterators alive at once and polled in random interleavings, also after exhaustion, directly and through nested template loops; groupBy: all slice lengths 0..40 x group counts -1..12 in both shipped implementations over 7 element / pointer / array variants; len over strings/slices/arrays/maps/pointers; non-trivial = yields at least one element or one group; distinct by (helper,args)"
		ext := []int{math.MinInt, math.MinInt + 1, math.MinInt + 2, math.MaxInt - 2, math.MaxInt - 1, math.MaxInt}
		vals := []int{}
		for i := -8; i <= 8; i++ {
			vals = append(vals, i)
		}
		all := append(append([]int{}, vals...), ext...)
		hcode := map[string]int{"range": 0, "between": 1, "until": 2}
		one := func(h string, a, b int) {
			capN := 64
			obs, fin, note := c19run(h, a, b, capN)
			e.rep.Evaluations++
			e.Count(h)
			if len(obs) > 0 {
				e.Distinct(fmt.Sprintf("%s/%d/%d", h, a, b))
			}
			exp, efin := c19expect(h, a, b, capN)
			if note != "" || !reflect.DeepEqual(obs, exp) || fin != efin {
				key := "c19-seq"
				switch {
				case h == "range" && a == math.MinInt:
					key = "c19-wrap-range-a=minint"
				case h == "between" && b == math.MinInt:
					key = "c19-wrap-between-b=minint"
				case h == "until" && a == math.MinInt:
					key = "c19-wrap-until-n=minint"
				}
				e.Violate(key, fmt.Sprintf("%s(%d,%d): yielded %v exhausted=%v, expected %v exhausted=%v %s", h, a, b, trunc(obs), fin, trunc(exp), efin, note), c19r{h, a, b, capN, obs, fin})
			}
			zs := make([]string, len(obs))
			for i, x := range obs {
				zs[i] = cqZ(int64(x))
			}
			id := fmt.Sprintf("c19r-%s-%d-%d", h, a, b)
			e.AddCase("c19r", id, fmt.Sprintf("(%s, %s, %s, %s, %s, %s)", cqNat(hcode[h]), cqZ(int64(a)), cqZ(int64(b)), cqNat(capN), cqList(zs), cqBool(fin)), c19r{h, a, b, capN, obs, fin})
			if e.rep.Evaluations%211 == 3 {
				e.Sample(c19r{h, a, b, capN, obs, fin})
			}
		}
		for _, a := range all {
			one("until", a, 0)
			for _, b := range all {
				one("range", a, b)
				one("between", a, b)
			}
		}
		if e.Thorough() {
			for i := 0; i < 20000; i++ {
				a := int(e.Rng.Next())
				if e.Rng.Intn(2) == 0 {
					a = e.Rng.Intn(2001) - 1000
				}
				b := a + e.Rng.Intn(120) - 20
				one(e.Rng.Pick([]string{"range", "between", "until"}), a, b)
			}
		}
		// several iterators alive at once, and iterators polled again after they were exhausted:
		// each yields its own closed-form sequence and then nil for ever, whatever the others do
		{
			type live struct {
				it   iterators.Iterator
				want []int
				got  []int
				done int
			}
			mk := func(k int) *live {
				a, b := e.Rng.Intn(9)-4, e.Rng.Intn(9)-2
				switch k % 3 {
				case 0:
					l := &live{it: iterators.Range(a, b)}
					for x := a; x <= b; x++ {
						l.want = append(l.want, x)
					}
					return l
				case 1:
					l := &live{it: iterators.Between(a, b)}
					for x := a + 1; x < b; x++ {
						l.want = append(l.want, x)
					}
					return l
				default:
					l := &live{it: iterators.Until(b)}
					for x := 0; x < b; x++ {
						l.want = append(l.want, x)
					}
					return l
				}
			}
			trials := 300
			if e.Thorough() {
				trials = 20000
			}
			for t := 0; t < trials; t++ {
				var ls []*live
				steps := 5 + e.Rng.Intn(40)
				bad := ""
				for s := 0; s < steps && bad == ""; s++ {
					if len(ls) == 0 || e.Rng.Intn(4) == 0 {
						ls = append(ls, mk(e.Rng.Intn(3)))
						continue
					}
					l := ls[e.Rng.Intn(len(ls))]
					v := l.it.Next()
					if v == nil {
						l.done++
						if len(l.got) != len(l.want) {
							bad = fmt.Sprintf("an iterator stopped after %v, want %v", l.got, l.want)
						}
						continue
					}
					if l.done > 0 {
						bad = fmt.Sprintf("an exhausted iterator (%v) yielded %v when polled again", l.want, v)
						continue
					}
					n, _ := v.(int)
					l.got = append(l.got, n)
					if len(l.got) > len(l.want) || l.want[len(l.got)-1] != n {
						bad = fmt.Sprintf("an iterator yielded %v, want a prefix of %v", l.got, l.want)
					}
				}
				e.rep.Evaluations++
				e.Count("interleaved-iterators")
				if bad != "" {
					e.Violate("c19-interleaved", "interleaved use of several range/between/until iterators: "+bad, map[string]interface{}{"trial": t})
					break
				}
			}
			// the same through templates: nested loops, an iterator kept in a variable and looped twice
			for _, tc := range [][2]string{
				{`<%= for (a) in range(1,2) { %><%= for (b) in range(5,6) { %><%= a %><%= b %> <% } %><% } %>`, "15 16 25 26 "},
				{`<% let r = until(2) %><%= for (x) in r { %><%= x %><% } %>|<%= for (x) in r { %><%= x %><% } %>|<%= for (a) in range(1,2) { %><%= for (b) in range(5,6) { %><%= a %><%= b %> <% } %><% } %>`, "01||15 16 25 26 "},
				{`<% let r = between(0,3) %><% let q = range(7,8) %><%= for (x) in r { %><%= x %><%= for (y) in q { %>(<%= y %>)<% } %><% } %>|<%= for (z) in until(2) { %><%= z %><% } %>`, "1(7)(8)2|01"},
			} {
				o := runRender(RCase{Tmpl: tc[0]})
				e.rep.Evaluations++
				e.Count("interleaved-iterators-template")
				if o.Class != "OK" || o.Out != tc[1] {
					e.Violate("c19-interleaved", fmt.Sprintf("%s rendered %q (%s %s), want %q", tc[0], o.Out, o.Class, o.Msg, tc[1]), map[string]interface{}{"tmpl": tc[0], "observed": o})
				}
			}
		}
		// groupBy
		e.flushShard()
		maxLen, maxN := 40, 12
		if e.Thorough() {
			maxLen, maxN = 70, 24
		}
		for ln := 0; ln <= maxLen; ln++ {
			for n := -1; n <= maxN; n++ {
				var first [][]int
				var firstErr bool
				for variant := 0; variant < 14; variant++ {
					gs, isErr, note := c19groups(n, ln, variant)
					e.rep.Evaluations++
					e.Count("groupBy")
					if note != "" {
						e.Violate("c19-groupby", fmt.Sprintf("groupBy(%d, len %d, variant %d): %s", n, ln, variant, note), map[string]int{"n": n, "len": ln, "variant": variant})
						continue
					}
					if variant == 0 {
						first, firstErr = gs, isErr
					} else if !reflect.DeepEqual(first, gs) || firstErr != isErr {
						e.Violate("c19-groupby-twins", fmt.Sprintf("groupBy(%d, len %d): variant %d gives %v, variant 0 gives %v", n, ln, variant, gs, first), map[string]int{"n": n, "len": ln, "variant": variant})
					}
					// partition oracle
					if n <= 0 {
						if !isErr {
							e.Violate("c19-groupby", fmt.Sprintf("groupBy(%d, ...) did not fail", n), map[string]int{"n": n, "len": ln, "variant": variant})
						}
					} else {
						flat := []int{}
						ok := !isErr && len(gs) <= n
						for gi, g := range gs {
							flat = append(flat, g...)
							if len(g) == 0 || (gi < len(gs)-1 && len(g) != len(gs[0])) || len(g) > len(gs[0]) {
								ok = false
							}
						}
						for i, x := range flat {
							if x != i {
								ok = false
							}
						}
						if len(flat) != ln {
							ok = false
						}
						if !ok {
							e.Violate("c19-groupby", fmt.Sprintf("groupBy(%d, len %d) = %v is not a partition into <= n consecutive equal groups", n, ln, gs), map[string]int{"n": n, "len": ln, "variant": variant})
						}
					}
					if variant == 0 || variant == 5 {
						term := "None"
						if !isErr {
							gl := make([]string, len(gs))
							for i, g := range gs {
								zs := make([]string, len(g))
								for j, x := range g {
									zs[j] = cqZ(int64(x))
								}
								gl[i] = cqList(zs)
							}
							term = "(Some " + cqList(gl) + ")"
							if len(gs) > 0 {
								e.Distinct(fmt.Sprintf("g/%d/%d", n, ln))
							}
						}
						e.AddCase("c19g", fmt.Sprintf("c19g-%d-%d-%d", n, ln, variant), fmt.Sprintf("(%s, %s, %s)", cqZ(int64(n)), cqNat(ln), term), map[string]interface{}{"n": n, "len": ln, "variant": variant, "groups": gs, "error": isErr})
					}
				}
			}
		}
		// the iterators consumed by a template loop whose body continues / breaks: every value (group) is
		// still handed out exactly once, in order, with a running index
		for _, t := range [][2]string{
			{"<%= for (v) in range(1, 6) { %><% if (v == 2) { continue } %><%= v %><% } %>", "13456"}, {"<%= for (i, v) in range(3, 8) { %><% if (v == 4) { continue } %><%= i %>:<%= v %>,<% } %>", "0:3,2:5,3:6,4:7,5:8,"},
			{"<%= for (v) in until(6) { %><% if (v == 1) { continue } %><% if (v == 3) { continue } %><%= v %><% } %>", "0245"}, {"<%= for (v) in between(0, 7) { %><%= v %><% if (v < 5) { continue } %>!<% } %>", "12345!6!"},
			{"<%= for (g) in groupBy(3, [1, 2, 3, 4, 5, 6]) { %><% if (g[0] == 3) { continue } %>[<%= for (x) in g { %><%= x %><% } %>]<% } %>", "[12][56]"},
			{"<%= for (v) in range(1, 9) { %><% if (v == 2) { continue } %><% if (v == 5) { break } %><%= v %><% } %>", "134"}, {"<%= for (v) in range(1, 4) { %><%= for (w) in until(3) { %><% if (w == 1) { continue } %><%= v %><%= w %>,<% } %><% } %>", "10,12,20,22,30,32,40,42,"},
			// an iterator held in a variable and consumed by SEVERAL loops: a loop takes from it only what it
			// visits - after a break the next loop goes on where the first one stopped
			{"<% let it = range(1, 6) %><%= for (v) in it { %><%= v %><% if (v == 2) { break } %><% } %>|<%= for (v) in it { %><%= v %><% } %>|<%= for (v) in it { %>x<% } %>", "12|3456|"},
			{"<% let it = groupBy(4, [1, 2, 3, 4, 5, 6, 7]) %><%= for (g) in it { %>[<%= for (x) in g { %><%= x %><% } %>]<% break %><% } %>|<%= for (g) in it { %>[<%= for (x) in g { %><%= x %><% } %>]<% } %>", "[12]|[34][56][7]"},
			{"<% let it = until(5) %><%= for (a) in it { %><%= a %><%= for (b) in it { %><%= b %><% break %><% } %>,<% } %>", "01,23,4,"},
			{"<% let it = between(0, 6) %><%= for (v) in it { %><% if (v == 3) { break } %><%= v %><% } %>|<%= for (v) in it { %><%= v %><% } %>", "12|45"},
			// an exhausted iterator stays exhausted: a second full loop over it yields nothing
			{"<% let it = groupBy(2, [1, 2, 3, 4, 5]) %><%= for (i, g) in it { %>[<%= i %>:<%= for (x) in g { %><%= x %><% } %>]<% } %>|<%= for (g) in it { %>again<% } %>|<%= for (g) in it { %>again<% } %>", "[0:123][1:45]||"},
			{"<% let it = range(1, 3) %><%= for (v) in it { %><%= v %><% } %>|<%= for (v) in it { %>x<% } %>|<%= for (v) in it { %>x<% } %>", "123||"},
			{"<% let it = until(2) %><%= for (v) in it { %><%= v %><% } %>|<%= for (v) in it { %>x<% } %><% let jt = between(1, 3) %><%= for (v) in jt { %><%= v %><% } %>|<%= for (v) in jt { %>x<% } %>", "01|2|"},
		} {
			c := RCase{Tmpl: t[0]}
			o := runRender(c)
			e.rep.Evaluations++
			e.Count("iterator-loop-control")
			if o.Class != "OK" || o.Out != t[1] {
				e.Violate("c19-seq", fmt.Sprintf("%s rendered %q (%s %s), want %q", t[0], o.Out, o.Class, firstLine(o.Msg), t[1]), map[string]interface{}{"tmpl": t[0], "observed": o})
			}
		}
		// groupBy handed out directly: after the terminating nil every further Next is nil, in both implementations
		for name, f := range map[string]func(int, interface{}) (iterators.Iterator, error){"iterators.GroupBy": iterators.GroupBy, "plush.GroupByHelper": func(n int, u interface{}) (iterators.Iterator, error) { return plush.GroupByHelper(n, u) }} {
			for _, ln := range []int{0, 1, 5, 6} {
				xs := make([]int, ln)
				it, err := f(2, xs)
				e.rep.Evaluations++
				e.Count("groupBy-after-exhaustion")
				if err != nil {
					continue
				}
				n := 0
				for it.Next() != nil && n < 50 {
					n++
				}
				for k := 0; k < 4; k++ {
					if v := it.Next(); v != nil {
						e.Violate("c19-groupby", fmt.Sprintf("%s(2, slice of %d): Next call %d after the terminating nil yields %v", name, ln, k+1, v), map[string]int{"len": ln})
						break
					}
				}
			}
		}
		// the groups are a partition of the sequence groupBy was GIVEN: a caller that goes on appending to
		// (or overwriting) its slice, handed over by pointer, while the groups are consumed changes nothing
		for ln := 1; ln <= 12; ln++ {
			for n := 1; n <= 5; n++ {
				for name, f := range map[string]func(int, interface{}) (iterators.Iterator, error){"iterators.GroupBy": iterators.GroupBy, "plush.GroupByHelper": func(n int, u interface{}) (iterators.Iterator, error) { return plush.GroupByHelper(n, u) }} {
					mk := func() []int {
						xs := make([]int, ln, ln+1)
						for i := range xs {
							xs[i] = i + 1
						}
						return xs
					}
					collect := func(it iterators.Iterator, between func()) string {
						var sb strings.Builder
						for k := 0; k < ln+8; k++ {
							g := it.Next()
							if g == nil {
								break
							}
							sb.WriteString(fmt.Sprint(g))
							between()
						}
						return sb.String()
					}
					ref := mk()
					it0, err0 := f(n, ref)
					xs := mk()
					it1, err1 := f(n, &xs)
					e.rep.Evaluations++
					e.Count("groupBy-growing")
					if err0 != nil || err1 != nil {
						e.Violate("c19-groupby", fmt.Sprintf("%s(%d, slice of %d): error %v / %v", name, n, ln, err0, err1), map[string]int{"n": n, "len": ln})
						continue
					}
					want := collect(it0, func() {})
					got := collect(it1, func() { xs = append(xs, 99) })
					if got != want {
						e.Violate("c19-groupby", fmt.Sprintf("%s(%d, pointer to a slice of %d) while the caller appends to its slice: groups %s, the partition of the given sequence is %s", name, n, ln, got, want), map[string]int{"n": n, "len": ln})
					}
				}
			}
		}
		{
			zs := []string{"a", "b", "c", "d", "e", "f"}
			grown := false
			extra := map[string]interface{}{"items": &zs, "more": func() string {
				if !grown {
					grown = true
					zs = append(zs, "x", "y")
				}
				return ""
			}}
			tm := "<%= for (g) in groupBy(3, items) { %>[<%= for (x) in g { %><%= x %><% } %>]<%= more() %><% } %>"
			o := runRenderExtra(RCase{Tmpl: tm}, extra)
			e.rep.Evaluations++
			e.Count("groupBy-growing")
			if o.Class != "OK" || o.Out != "[ab][cd][ef]" {
				e.Violate("c19-groupby", fmt.Sprintf("%s with items = pointer to [a..f], more() appending to it: rendered %q (%s %s), want %q", tm, o.Out, o.Class, firstLine(o.Msg), "[ab][cd][ef]"), map[string]interface{}{"tmpl": tm, "observed": o})
			}
		}
		// a nil slice (by value, or behind a pointer) is an empty sequence: no groups, no error
		{
			var nps *[]int
			for _, v := range []interface{}{[]int(nil), []string(nil), []interface{}(nil), &[]int{}, nps} {
				func() {
					defer func() {
						if r := recover(); r != nil {
							e.Violate("c19-groupby-nonseq-panic", fmt.Sprintf("groupBy(2, %T nil) panicked: %v", v, r), fmt.Sprintf("%T", v))
						}
					}()
					for name, f := range map[string]func(int, interface{}) (iterators.Iterator, error){"iterators.GroupBy": iterators.GroupBy, "plush.GroupByHelper": func(n int, u interface{}) (iterators.Iterator, error) { return plush.GroupByHelper(n, u) }} {
						e.rep.Evaluations++
						if v == interface{}(nps) {
							continue // a nil pointer is not a sequence: either answer is acceptable, a panic is not
						}
						it, err := f(2, v)
						if err != nil {
							e.Violate("c19-groupby", fmt.Sprintf("%s(2, %T with no elements) failed: %v", name, v, err), fmt.Sprintf("%T", v))
						} else if it != nil && it.Next() != nil {
							e.Violate("c19-groupby", fmt.Sprintf("%s(2, %T with no elements) yields a group", name, v), fmt.Sprintf("%T", v))
						}
					}
				}()
			}
		}
		// non-sequences are errors
		for _, v := range []interface{}{1, "abc", map[string]int{"a": 1}, nil, struct{}{}, 1.5} {
			func() {
				defer func() {
					if r := recover(); r != nil {
						e.Violate("c19-groupby-nonseq-panic", fmt.Sprintf("groupBy(2, %T) panicked: %v", v, r), fmt.Sprintf("%T", v))
					}
				}()
				_, err := iterators.GroupBy(2, v)
				_, err2 := plush.GroupByHelper(2, v)
				e.rep.Evaluations++
				if err == nil || err2 == nil {
					e.Violate("c19-groupby", fmt.Sprintf("groupBy(2, %T) did not fail", v), fmt.Sprintf("%T", v))
				}
			}()
		}
		// len
		e.flushShard()
		type lc struct {
			v    interface{}
			desc string
			want int // -1 = not a collection (no expectation from the property)
		}
		s3 := []int{1, 2, 3}
		m2 := map[string]int{"a": 1, "b": 2}
		str := "héllo"
		arr := [4]string{}
		var nilp *[]int
		lcs := []lc{
			{nil, "LNil", 0}, {"", "(LStr [])", 0}, {str, "(LStr " + cqBytes(str) + ")", len(str)},
			{s3, "(LSeq 3%nat)", 3}, {[]string{}, "(LSeq 0%nat)", 0}, {arr, "(LSeq 4%nat)", 4},
			{m2, "(LMap 2%nat)", 2}, {&s3, "(LPtr (LSeq 3%nat))", 3}, {&m2, "(LPtr (LMap 2%nat))", 2},
			{&str, "(LPtr (LStr " + cqBytes(str) + "))", len(str)}, {&arr, "(LPtr (LSeq 4%nat))", 4},
			{nilp, "LNilPtr", -1}, {1, "LOther", -1}, {true, "LOther", -1}, {struct{}{}, "LOther", -1},
			// named sequence / map / string types that also print themselves, by value and by pointer: the
			// length is the Go length, whatever String() or HTML() would say
			{c19ip{127, 0, 0, 1}, "(LSeq 4%nat)", 4}, {c19id{1, 2, 3, 4}, "(LSeq 4%nat)", 4}, {c19tags{"a": 1}, "(LMap 1%nat)", 1}, {c19word("héllo"), "(LStr " + cqBytes("héllo") + ")", len("héllo")},
			{&c19ip{10, 0, 0, 1}, "(LPtr (LSeq 4%nat))", 4}, {&c19id{}, "(LPtr (LSeq 4%nat))", 4}, {&c19tags{"a": 1, "b": 2}, "(LPtr (LMap 2%nat))", 2}, {c19ip{}, "(LSeq 0%nat)", 0},
			{c19hs{"<a>", "<b>"}, "(LSeq 2%nat)", 2}, {template.HTML("<i>"), "(LStr " + cqBytes("<i>") + ")", 3}, {[]fmt.Stringer{c19word("x")}, "(LSeq 1%nat)", 1},
		}
		// the same through the template helper
		for _, t := range [][2]string{{"ip", "4"}, {"id", "4"}, {"tags", "1"}, {"word", "6"}, {"pip", "4"}, {"hs", "2"}} {
			o := runRenderExtra(RCase{Tmpl: "<%= len(" + t[0] + ") %>"}, map[string]interface{}{"ip": c19ip{127, 0, 0, 1}, "id": c19id{}, "tags": c19tags{"a": 1}, "word": c19word("héllo"), "pip": &c19ip{1, 2, 3, 4}, "hs": c19hs{"<a>", "<b>"}})
			e.rep.Evaluations++
			e.Count("len")
			if o.Class != "OK" || o.Out != t[1] {
				e.Violate("c19-len", fmt.Sprintf("<%%= len(%s) %%> rendered %q (%s %s), Go length is %s", t[0], o.Out, o.Class, firstLine(o.Msg), t[1]), t[0])
			}
		}
		for i, c := range lcs {
			got, panicked := func() (n int, p bool) {
				defer func() {
					if r := recover(); r != nil {
						p = true
					}
				}()
				return meta.Len(c.v), false
			}()
			e.rep.Evaluations++
			e.Count("len")
			if c.want >= 0 && (panicked || got != c.want) {
				e.Violate("c19-len", fmt.Sprintf("len(%T) = %d panicked=%v, Go length is %d", c.v, got, panicked, c.want), c.desc)
			}
			obs := "None"
			if !panicked {
				obs = "(Some " + cqNat(got) + ")"
			}
			e.AddCase("c19l", fmt.Sprintf("c19l-%d", i), fmt.Sprintf("(%s, %s)", c.desc, obs), map[string]interface{}{"arg": c.desc, "len": got, "panicked": panicked})
		}
		e.rep.Exhaustive = true
	})
}

func trunc(xs []int) []int {
	if len(xs) > 6 {
		return xs[:6]
	}
	return xs
}
