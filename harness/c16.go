package main

import (
	"fmt"
	"html/template"
	"strings"
)

// ---- C16: user-defined functions ---------------------------------------------------

type c16fn struct {
	n     int
	conds []string // condition sources over p1..pn
	cf    []func([]int) bool
	rets  []string // return expression sources (len(conds)+1)
	rf    []func([]int) interface{}
}

func (f c16fn) src(name string) string {
	ps := make([]string, f.n)
	for i := range ps {
		ps[i] = fmt.Sprintf("p%d", i+1)
	}
	var sb strings.Builder
	sb.WriteString("<% let " + name + " = fn(" + strings.Join(ps, ", ") + ") {\n")
	for i, c := range f.conds {
		// decision chains: flat ifs, nested ifs, else-branches
		switch i % 5 {
		case 3:
			// an if / else-if / else chain whose LAST branches return while the first one falls through
			sb.WriteString("  if (!(" + c + ")) { if (false) { return \"never\" } } else if (" + c + ") { return " + f.rets[i] + " } else { return \"unreachable\" }\n")
		case 4:
			// ... and one whose middle branch falls through
			sb.WriteString("  if (false) { return \"never\" } else if (!(" + c + ")) { let skip2 = 2 } else if (" + c + ") { return " + f.rets[i] + " } else { return \"unreachable\" }\n")
		case 0:
			sb.WriteString("  if (" + c + ") { return " + f.rets[i] + " }\n")
		case 1:
			sb.WriteString("  if (true) { if (" + c + ") { return " + f.rets[i] + " } }\n")
		default:
			sb.WriteString("  if (!(" + c + ")) { let skip = 1 } else { return " + f.rets[i] + " }\n")
		}
	}
	sb.WriteString("  return " + f.rets[len(f.conds)] + "\n  let after = 99\n} %>")
	return sb.String()
}

func (f c16fn) eval(args []int) interface{} {
	for i, c := range f.cf {
		if c(args) {
			return f.rf[i](args)
		}
	}
	return f.rf[len(f.cf)](args)
}

func genFn(r *Rng, n int) c16fn {
	f := c16fn{n: n}
	k := r.Intn(6)
	if n == 0 {
		k = 0
	}
	mkRet := func() (string, func([]int) interface{}) {
		switch x := r.Intn(6); {
		case x == 0 && n > 0:
			i := r.Intn(n)
			return fmt.Sprintf("p%d", i+1), func(a []int) interface{} { return a[i] }
		case x == 1 && n > 0:
			i := r.Intn(n)
			return fmt.Sprintf("p%d + 10", i+1), func(a []int) interface{} { return a[i] + 10 }
		case x == 2:
			s := []string{"A", "<b>", ""}[r.Intn(3)]
			return `"` + s + `"`, func([]int) interface{} { return s }
		case x == 3:
			b := r.Bool()
			return fmt.Sprint(b), func([]int) interface{} { return b }
		default:
			c := r.Intn(5)
			return fmt.Sprint(c), func([]int) interface{} { return c }
		}
	}
	for j := 0; j < k; j++ {
		i := r.Intn(n)
		c := r.Intn(3)
		switch r.Intn(3) {
		case 0:
			f.conds = append(f.conds, fmt.Sprintf("p%d == %d", i+1, c))
			f.cf = append(f.cf, func(a []int) bool { return a[i] == c })
		case 1:
			f.conds = append(f.conds, fmt.Sprintf("p%d < %d", i+1, c))
			f.cf = append(f.cf, func(a []int) bool { return a[i] < c })
		default:
			i2 := r.Intn(n)
			f.conds = append(f.conds, fmt.Sprintf("p%d > p%d", i+1, i2+1))
			f.cf = append(f.cf, func(a []int) bool { return a[i] > a[i2] })
		}
		s, g := mkRet()
		f.rets = append(f.rets, s)
		f.rf = append(f.rf, g)
	}
	s, g := mkRet()
	f.rets = append(f.rets, s)
	f.rf = append(f.rf, g)
	return f
}

func sink16(v interface{}) string {
	if v == nil {
		return ""
	}
	return template.HTMLEscapeString(fmt.Sprint(v))
}

func init() {
	register("C16", func(e *Env) {
		renderPrelude()
		e.perShard = 60
		e.rep.Rule = "generated functions of 0-4 parameters whose bodies are if/return decision chains (flat, nested, with else branches, dead code after the return) over their parameters x argument tuples from {0,1,2,3}, called with literal arguments and with argument expressions that mention outer variables named like the function's own parameters (swapped), the result used emitted / tested / compared / in arithmetic / passed to a Go helper / stored; arguments that are themselves user-function calls (nested, after an earlier call); higher-order use (stored, passed as argument, called through a parameter) and recursion (fact, fib, sum, ackermann); function bodies spread over several tags that emit text or values before the return that is reached; calls whose body fails on an unknown identifier where that is tolerated, followed by further calls; judged against a Go reference evaluation of the decision chain; distinct by (function, arguments, use)"
		judge := func(tag, tmpl, want string, binds []Bind) {
			c := RCase{Tmpl: tmpl, Binds: append(binds, Bind{"id", vGo(107)})}
			o := e.addRenderCase(tag, c)
			e.Distinct(tmpl)
			if o.Class != "OK" || strings.TrimSpace(o.Out) != want {
				e.Violate("c16-ref", fmt.Sprintf("%q rendered %q (%s %s), reference %q", tmpl, strings.TrimSpace(o.Out), o.Class, o.Msg, want), map[string]interface{}{"case": c, "observed": o})
			}
		}
		nf := 120
		if e.Thorough() {
			nf = 2500
		}
		for i := 0; i < nf; i++ {
			n := e.Rng.Intn(5)
			f := genFn(e.Rng, n)
			def := f.src("f")
			for t := 0; t < 4; t++ {
				args := make([]int, n)
				lits := make([]string, n)
				for j := range args {
					args[j] = e.Rng.Intn(4)
					lits[j] = fmt.Sprint(args[j])
				}
				v := f.eval(args)
				call := "f(" + strings.Join(lits, ", ") + ")"
				truth := "T"
				if !refTruthy(v) {
					truth = "F"
				}
				switch t {
				case 0:
					judge("emit", def+"<%= "+call+" %>", sink16(v), nil)
					judge("test", def+"<%= if ("+call+") { %>T<% } else { %>F<% } %>|<%= !"+call+" %>", truth+"|"+fmt.Sprint(truth == "F"), nil)
				case 1:
					judge("store", def+"<% let r = "+call+" %><% let g = f %><%= r %>|<%= g("+strings.Join(lits, ", ")+") %>|<%= id("+call+") %>", sink16(v)+"|"+sink16(v)+"|"+sink16(v), nil)
				case 2:
					switch x := v.(type) {
					case int:
						judge("arith", def+"<%= "+call+" + 1 %>|<%= "+call+" == "+fmt.Sprint(x)+" %>|<%= "+call+" < "+fmt.Sprint(x)+" %>", fmt.Sprintf("%d|true|false", x+1), nil)
					case string:
						judge("concat", def+"<%= "+call+" + \"!\" %>|<%= "+call+" == \""+x+"\" %>", sink16(x+"!")+"|true", nil)
					case bool:
						judge("booleq", def+"<%= "+call+" == "+fmt.Sprint(x)+" %>|<%= "+call+" != "+fmt.Sprint(x)+" %>", "true|false", nil)
					}
				case 3:
					// argument expressions that mention outer variables named like the parameters
					if n >= 2 {
						outer := make([]int, n)
						var lets strings.Builder
						for j := range outer {
							outer[j] = 3 - (args[j]+j)%4
							if outer[j] < 0 {
								outer[j] = 0
							}
							lets.WriteString(fmt.Sprintf("<%% let p%d = %d %%>", j+1, outer[j]))
						}
						// call f(p_n, ..., p_1): reversed
						rev := make([]string, n)
						ra := make([]int, n)
						for j := range rev {
							rev[j] = fmt.Sprintf("p%d + 0", n-j)
							ra[j] = outer[n-1-j]
						}
						judge("swapped", def+lets.String()+"<%= f("+strings.Join(rev, ", ")+") %>|<%= p1 %>", sink16(f.eval(ra))+"|"+fmt.Sprint(outer[0]), nil)
					}
				}
			}
		}
		// arguments that are themselves calls of user functions (after an earlier call in the same render)
		for i := 0; i < nf/3; i++ {
			n := 2 + e.Rng.Intn(3)
			f := genFn(e.Rng, n)
			args := make([]int, n)
			parts := make([]string, n)
			for j := range args {
				args[j] = e.Rng.Intn(4)
				switch e.Rng.Intn(3) {
				case 0:
					parts[j] = fmt.Sprint(args[j])
				case 1:
					parts[j] = fmt.Sprintf("same(%d)", args[j])
				default:
					parts[j] = fmt.Sprintf("pick(9, same(%d))", args[j])
				}
			}
			tm := f.src("f") + "<% let same = fn(z) { return z } %><% let pick = fn(a, b) { return b } %><%= same(7) %>|<%= f(" + strings.Join(parts, ", ") + ") %>|<%= pick(1, same(2)) %>"
			judge("nested-args", tm, "7|"+sink16(f.eval(args))+"|2", nil)
		}
		// two generated one-parameter functions passed through the same higher-order call site
		for i := 0; i < nf/4; i++ {
			f1, f2 := genFn(e.Rng, 1), genFn(e.Rng, 1)
			a := e.Rng.Intn(4)
			tm := f1.src("f") + f2.src("g") + "<% let ap = fn(h, x) { return h(x) } %>" + fmt.Sprintf("<%%= ap(f, %d) %%>|<%%= ap(g, %d) %%>|<%%= ap(f, %d) %%>", a, a, a)
			judge("apply2", tm, sink16(f1.eval([]int{a}))+"|"+sink16(f2.eval([]int{a}))+"|"+sink16(f1.eval([]int{a})), nil)
		}
		// higher-order and recursion
		fixed := [][2]string{
			{`<% let inc = fn(x) { return x + 1 } %><% let ap = fn(h, x) { return h(h(x)) } %><%= ap(inc, 3) %>`, "5"},
			{`<% let mk = fn(k) { return fn(j) { return j * 2 } } %><% let d = mk(1) %><%= d(4) %>`, "8"},
			{`<% let lo = fn(a, b) { if (a < b) { return a } return b } %><% let hi = fn(a, b) { if (a < b) { return b } return a } %><% let apply = fn(g, a, b) { return g(a, b) } %><%= apply(lo, 3, 7) %>|<%= apply(hi, 3, 7) %>|<%= apply(lo, 3, 7) %>`, "3|7|3"},
			{`<% let twice = fn(g, x) { return g(g(x)) } %><%= twice(fn(v) { return v + 1 }, 1) %>|<%= twice(fn(v) { return v * 3 }, 1) %>|<%= for (k) in [1, 2] { %><%= twice(fn(v) { return v + k }, 0) %>,<% } %>`, "3|9|2,4,"},
			{`<% let ack = fn(m, n) { if (m == 0) { return n + 1 } if (n == 0) { return ack(m - 1, 1) } return ack(m - 1, ack(m, n - 1)) } %><%= ack(1, 2) %>|<%= ack(2, 1) %>|<%= ack(2, 2) %>`, "4|5|7"},
			{`<% let inc = fn(x) { return x + 1 } %><% let dbl = fn(x) { return x * 2 } %><% let apply = fn(g, x) { return g(x) } %><%= inc(0) %>|<%= apply(inc, dbl(3)) %>|<%= apply(dbl, inc(dbl(2))) %>`, "1|7|10"},
			{`<% let a = 1 %><% let b = 2 %><% let pick = fn(a, b) { if (a == nil) { return nosuchthing } return b } %><%= if (pick(nil, 9) == nil) { %>none<% } %>|<%= pick(1, b) %>|<%= pick(b, a) %>|<%= a %><%= b %>`, "none|2|1|12"},
			{`<% let x = "outer" %><% let f = fn(x) { return x + missingname } %><%= if (f("inner") == nil) { %>A<% } %>|<%= x %>|<%= !f("again") %>|<%= x %>`, "A|outer|true|outer"},
			{`<% let g = fn(p) { let y = "local"
 return missingname } %><%= !g(1) %>|<%= if (y) { %>leak<% } else { %>ok<% } %><% let z = 5 %>|<%= z %>`, "true|ok|5"},
			{"<% let size = fn(n) { %>\n  <% if (n > 5) { %><% return \"many\" %><% } %>\n  <% return \"few\" %>\n<% } %><%= size(9) %>|<%= size(3) %>|<%= size(3) == \"few\" %>|<%= size(7) + \"!\" %>", "many|few|true|many!"},
			{`<% let pre = fn(x) { %>text <%= x %> more<% if (x == 1) { %>in-block<% return "one" %><% } %>tail<% return "other" %><% } %><%= pre(1) %>|<%= pre(2) %>|<%= if (pre(1) == "one") { %>eq<% } %>`, "one|other|eq"},
			{`<% let fact = fn(n) { if (n <= 1) { return 1 } return n * fact(n - 1) } %><%= fact(6) %>`, "720"},
			{`<% let fib = fn(n) { if (n < 2) { return n } return fib(n - 1) + fib(n - 2) } %><%= fib(10) %>`, "55"},
			{`<% let sum = fn(n) { if (n == 0) { return 0 } return n + sum(n - 1) } %><%= sum(20) %>`, "210"},
			{`<% let fs = [fn(x) { return x + 1 }, fn(x) { return x * 3 }] %><% let g = fs[1] %><%= g(5) %>`, "15"},
			{`<% let h = {f: fn(x) { return "<" + x }} %><% let g = h["f"] %><%= g("a") %>`, "&lt;a"},
			{`<% let g = fn(a, b) { return a + "," + b } %><% let a = "1" %><% let b = "2" %><%= g("" + b, "" + a) %>`, "2,1"},
			{`<% let g = fn(a) { if (a) { return "T" } return "F" } %><%= g(true) + g(false) %>|<%= if (g(true) == "T") { %>eq<% } %>`, "TF|eq"},
			{`<% let g = fn() { return false } %><%= if (g()) { %>T<% } else { %>F<% } %>|<%= g() || "x" %>|<%= !g() %>`, "F|true|true"},
			{`<% let g = fn() { return nil } %><%= g() == nil %>|<%= if (g()) { %>T<% } else { %>F<% } %>`, "true|F"},
			{`<% let x = 5 %><% let g = fn(x) { let x = x + 1
 return x } %><%= g(1) %>|<%= x %>`, "2|5"},
			// a call that is handed an INLINE function literal, used as a condition (tested, compared) like any other call
			{`<% let apply = fn(g, v) { return g(v) } %><%= if (apply(fn(y) { return y + 1 }, 1) == 2) { %>two<% } else { %>no<% } %>|<%= apply(fn(y) { return y * 2 }, 4) %>`, "two|8"},
			{`<% let apply = fn(g, v) { return g(v) } %><% let pick = fn(a) { if (apply(fn(y) { return y == 1 }, a)) { return "one" } return "other" } %><%= pick(1) %>,<%= pick(2) %>`, "one,other"},
			{`<% let any = fn(g) { return g() } %><%= if (any(fn() { return true })) { %>T<% } %><%= if (!any(fn() { return false })) { %>F<% } %>`, "TF"},
			// a function stored in an array or a hash, called through the element
			{`<% let fs = [fn(x) { return x + 1 }, fn(x) { return x * 3 }] %><%= fs[0](5) %>|<%= fs[1](5) %>|<%= fs[0](fs[1](2)) %>`, "6|15|7"},
			{`<% let h = {"inc": fn(x) { return x + 1 }} %><%= h["inc"](41) %>|<%= if (h["inc"](0) == 1) { %>one<% } %>`, "42|one"},
			{`<% let fs = [fn(x) { return x + "!" }] %><% let ap = fn(k, v) { return fs[k](v) } %><%= ap(0, "hey") %>`, "hey!"},
			// a function WITHOUT parameters still runs its body in a scope of its own: its lets neither
			// overwrite a caller's parameter or variable of the same name nor stay visible after the call
			{`<% let two = fn() { let a = 2
 return a } %><% let g = fn(a) { if (two() == 2) { return a } return "?" } %>[<%= g(1) %>][<%= g("x") %>]`, "[1][x]"},
			{`<% let n = 10 %><% let bump = fn() { let n = 99
 return n } %><%= bump() %>|<%= n %>|<%= bump() + n %>`, "99|10|109"},
			{`<% let mk = fn() { let tmp = "t"
 return tmp + "!" } %><%= mk() %>|<%= if (tmp) { %>leaked<% } else { %>gone<% } %>`, "t!|gone"},
			{`<% let outer = fn(v) { let inner = fn() { let v = "in"
 return v }
 return inner() + "/" + v } %><%= outer("out") %>`, "in/out"},
		}
		for _, f := range fixed {
			judge("fixed", f[0], f[1], nil)
		}
		// the caller's scope has variables named like the parameters, and every argument is an expression
		// of some syntactic form (operand of a prefix / infix operator, element, hash value, call argument,
		// index) over THOSE: each is evaluated in the caller's scope, whatever was bound before it
		{
			type form struct {
				src string
				val func(a, b bool) interface{}
			}
			forms := []form{
				{"a", func(a, b bool) interface{} { return a }}, {"b", func(a, b bool) interface{} { return b }},
				{"!a", func(a, b bool) interface{} { return !a }}, {"!b", func(a, b bool) interface{} { return !b }}, {"!!b", func(a, b bool) interface{} { return b }},
				{"!(a)", func(a, b bool) interface{} { return !a }}, {"[b, a][0]", func(a, b bool) interface{} { return b }}, {"[a, b][1]", func(a, b bool) interface{} { return b }},
				{`{k: a}["k"]`, func(a, b bool) interface{} { return a }}, {"a == b", func(a, b bool) interface{} { return a == b }}, {"id(b)", func(a, b bool) interface{} { return b }},
				{"id(!a)", func(a, b bool) interface{} { return !a }}, {"!id(b)", func(a, b bool) interface{} { return !b }}, {"(b && true)", func(a, b bool) interface{} { return b }},
				{"true", func(a, b bool) interface{} { return true }},
			}
			def := "<% let both = fn(a, b) { %><%= a %>,<%= b %><% } %><% let id = fn(v) { return v } %>"
			for _, av := range []bool{true, false} {
				for _, bv := range []bool{true, false} {
					for _, f1 := range forms {
						for _, f2 := range forms {
							if !e.Thorough() && (f1.src == "true" || !strings.Contains(f2.src, "a")) {
								continue // the second argument is the one a half-bound scope would get wrong
							}
							tm := def + fmt.Sprintf("<%% let a = %v %%><%% let b = %v %%><%%= both(%s, %s) %%>|<%%= a %%>,<%%= b %%>", av, bv, f1.src, f2.src)
							judge("caller-scope-args", tm, fmt.Sprintf("%v,%v|%v,%v", f1.val(av, bv), f2.val(av, bv), av, bv), nil)
						}
					}
				}
			}
		}
		// a return reached inside a loop inside the function (recorded finding: the loop swallows it)
		for _, f := range [][2]string{
			{`<% let lp = fn(xs) { %><% for (x) in xs { %>item <%= x %>,<% if (x == 2) { %><% return x * 10 %><% } %><% } %>none<% return 0 %><% } %><%= lp([1, 2, 3]) %>|<%= lp([5]) %>|<%= lp([2]) + 1 %>`, "20|0|21"},
			{`<% let f = fn() { for (x) in [1,2,3] { if (x == 2) { return x } } return 9 } %><%= f() %>`, "2"},
		} {
			c := RCase{Tmpl: f[0]}
			o := e.addRenderCase("return-in-loop", c)
			if o.Class != "OK" || strings.TrimSpace(o.Out) != f[1] {
				e.Violate("c16-return-inside-loop", fmt.Sprintf("%q rendered %q (%s %s), reference %q: a return reached inside a for loop does not end the function", f[0], strings.TrimSpace(o.Out), o.Class, o.Msg, f[1]), map[string]interface{}{"case": c, "observed": o})
			}
		}
	})
}
