package main

import (
	"encoding/hex"
	"errors"
	"fmt"
	"hash/fnv"
	"html/template"
	"regexp"
	"sort"
	"strconv"
	"strings"
	"time"

	"github.com/gobuffalo/plush/v5"
	"github.com/gobuffalo/plush/v5/helpers/hctx"
)

// ---- the type family shared with the Coq model (model/Cases.v) -------------

type T0 struct{ Name string }

func (t T0) Hello(s string) string { return "hello " + s + " from " + t.Name }
func (t *T0) PHello() string       { return "phello " + t.Name }

type T1 struct {
	Name string
	In   T0
	Ins  []T0
	PIn  *T0
	NilP *T0
	priv string
	M    map[string]T0
	Tags []string
	N    int
}

func (t T1) Get() T0 { return t.In }

// Node is the recursive member of the family: every Name spells the node's own Go path (C11).
type Node struct {
	Name string
	A    []Node
	B    []Node
	P    *Node
	M    map[string]Node
}

// VD is a value description: the same tree is turned into a Go value for the
// implementation and into a Coq [vdesc] term for the model.
type VD struct {
	K   string   `json:"k"` // nil bool int float str html slice map struct ptr nilptr go
	B   bool     `json:"b,omitempty"`
	I   int      `json:"i,omitempty"`
	S   string   `json:"s,omitempty"`
	Ety string   `json:"ety,omitempty"` // iface int string T0
	Kty string   `json:"kty,omitempty"`
	Els []VD     `json:"els,omitempty"`
	Ks  []VD     `json:"ks,omitempty"`
	Tn  string   `json:"tn,omitempty"`
	Fn  []string `json:"fn,omitempty"`
	Id  int      `json:"id,omitempty"`
}

func vNil() VD             { return VD{K: "nil"} }
func vBool(b bool) VD      { return VD{K: "bool", B: b} }
func vInt(i int) VD        { return VD{K: "int", I: i} }
func vFloat(lit string) VD { return VD{K: "float", S: lit} }
func vStr(s string) VD     { return VD{K: "str", S: s} }
func vHTML(s string) VD    { return VD{K: "html", S: s} }
func vSlice(ety string, els ...VD) VD {
	return VD{K: "slice", Ety: ety, Els: els}
}
func vMap(kty, vty string, kvs ...VD) VD { // kvs = k1, v1, k2, v2 ...
	m := VD{K: "map", Kty: kty, Ety: vty}
	for i := 0; i+1 < len(kvs); i += 2 {
		m.Ks = append(m.Ks, kvs[i])
		m.Els = append(m.Els, kvs[i+1])
	}
	return m
}
func vT0(name string) VD {
	return VD{K: "struct", Tn: "T0", Fn: []string{"Name"}, Els: []VD{vStr(name)}}
}
func vT1(name string) VD {
	return VD{K: "struct", Tn: "T1", Fn: []string{"Name", "In", "Ins", "PIn", "NilP", "priv", "M", "Tags", "N"},
		Els: []VD{vStr(name), vT0(name + ".In"), vSlice("T0", vT0(name+".Ins[0]"), vT0(name+".Ins[1]")), vPtr(vT0(name + ".PIn")), VD{K: "nilptr", Tn: "T0"},
			vStr("secret"), vMap("string", "T0", vStr("k"), vT0(name+".M[k]")), vSlice("string", vStr("t0"), vStr("t1")), vInt(7)}}
}
func vPtr(v VD) VD             { return VD{K: "ptr", Els: []VD{v}} }
func vGo(id int, cfg ...VD) VD { return VD{K: "go", Id: id, Els: cfg} }

var coqTy = map[string]string{"iface": "TyIface", "int": "TyInt", "string": "TyString", "bool": "TyBool", "float": "TyFloat", "T0": "(TyStruct tn_T0)", "T1": "(TyStruct tn_T1)", "Node": "(TyStruct tn_Node)"}

func (v VD) Coq() string {
	switch v.K {
	case "nil":
		return "DNil"
	case "bool":
		return "(DBool " + cqBool(v.B) + ")"
	case "int":
		return "(DInt " + cqZ(int64(v.I)) + ")"
	case "float":
		return "(DFloat " + cqBytes(v.S) + ")"
	case "str":
		return "(DStr " + cqBytes(v.S) + ")"
	case "html":
		return "(DHTML " + cqBytes(v.S) + ")"
	case "slice":
		xs := make([]string, len(v.Els))
		for i, e := range v.Els {
			xs[i] = e.Coq()
		}
		return "(DSlice " + coqTy[v.Ety] + " " + cqList(xs) + ")"
	case "map":
		xs := make([]string, len(v.Els))
		for i := range v.Els {
			xs[i] = "(" + v.Ks[i].Coq() + ", " + v.Els[i].Coq() + ")"
		}
		return "(DMap " + coqTy[v.Kty] + " " + coqTy[v.Ety] + " " + cqList(xs) + ")"
	case "struct":
		xs := make([]string, len(v.Els))
		for i := range v.Els {
			xs[i] = "(" + cqBytes(v.Fn[i]) + ", " + v.Els[i].Coq() + ")"
		}
		return "(DStruct " + cqBytes(v.Tn) + " " + cqList(xs) + ")"
	case "ptr":
		return "(DPtr " + v.Els[0].Coq() + ")"
	case "nilptr":
		return "(DNilPtr " + cqBytes(v.Tn) + ")"
	case "go":
		xs := make([]string, len(v.Els))
		for i, e := range v.Els {
			xs[i] = e.Coq()
		}
		return fmt.Sprintf("(DGo %s %s)", cqN(uint64(v.Id)), cqList(xs))
	}
	return "DNil"
}

// sentinel errors of the fail_k helpers
var sentinels = []error{errors.New("E0"), errors.New("E1"), errors.New("E2"), errors.New("E3"), errors.New("E4"), errors.New("E5"), errors.New("E6"), errors.New("E7")}

// a run's recording log
type runLog struct{ entries []logEntry }
type logEntry struct {
	Id   int      `json:"id"`
	Args []string `json:"args"`
}

func show(v interface{}) string {
	switch t := v.(type) {
	case nil:
		return "n"
	case int:
		return "i" + strconv.Itoa(t)
	case string:
		return "s" + hex.EncodeToString([]byte(t))
	case template.HTML:
		return "h" + hex.EncodeToString([]byte(t))
	case bool:
		if t {
			return "b1"
		}
		return "b0"
	case float64:
		return "f" + fmt.Sprint(t)
	case []interface{}:
		if t == nil {
			return "n"
		}
		xs := make([]string, len(t))
		for i, x := range t {
			xs[i] = show(x)
		}
		return "[" + strings.Join(xs, ",") + "]"
	case []string:
		if t == nil {
			return "n"
		}
		xs := make([]string, len(t))
		for i, x := range t {
			xs[i] = show(x)
		}
		return "[" + strings.Join(xs, ",") + "]"
	case map[string]interface{}:
		return showMap(t)
	case hctx.Map:
		return showMap(t)
	case T0:
		return "T0(" + show(t.Name) + ")"
	case *T0:
		if t == nil {
			return "&n"
		}
		return "&T0(" + show(t.Name) + ")"
	case plush.HelperContext:
		if t.HasBlock() {
			return "H1"
		}
		return "H0"
	case hctx.HelperContext:
		if t.HasBlock() {
			return "H1"
		}
		return "H0"
	}
	return "?"
}

func showMap(m map[string]interface{}) string {
	if m == nil {
		return "n"
	}
	keys := make([]string, 0, len(m))
	for k := range m {
		keys = append(keys, k)
	}
	sort.Strings(keys)
	xs := make([]string, len(keys))
	for i, k := range keys {
		xs[i] = hex.EncodeToString([]byte(k)) + "=" + show(m[k])
	}
	return "{" + strings.Join(xs, ",") + "}"
}

// Go value of a description; lg receives the recording helpers' entries.
func (v VD) Go(lg *runLog) interface{} {
	switch v.K {
	case "nil":
		return nil
	case "bool":
		return v.B
	case "int":
		return v.I
	case "float":
		f, _ := strconv.ParseFloat(v.S, 64)
		return f
	case "str":
		return v.S
	case "html":
		return template.HTML(v.S)
	case "slice":
		switch v.Ety {
		case "iface":
			s := make([]interface{}, len(v.Els))
			for i, e := range v.Els {
				s[i] = e.Go(lg)
			}
			return s
		case "string":
			s := make([]string, len(v.Els))
			for i, e := range v.Els {
				s[i] = e.S
			}
			return s
		case "int":
			s := make([]int, len(v.Els))
			for i, e := range v.Els {
				s[i] = e.I
			}
			return s
		case "T0":
			s := make([]T0, len(v.Els))
			for i, e := range v.Els {
				s[i] = e.Go(lg).(T0)
			}
			return s
		case "Node":
			s := make([]Node, len(v.Els))
			for i, e := range v.Els {
				s[i] = e.Go(lg).(Node)
			}
			return s
		}
	case "map":
		switch v.Kty + "/" + v.Ety {
		case "string/iface":
			m := map[string]interface{}{}
			for i := range v.Els {
				m[v.Ks[i].S] = v.Els[i].Go(lg)
			}
			return m
		case "string/string":
			m := map[string]string{}
			for i := range v.Els {
				m[v.Ks[i].S] = v.Els[i].S
			}
			return m
		case "string/int":
			m := map[string]int{}
			for i := range v.Els {
				m[v.Ks[i].S] = v.Els[i].I
			}
			return m
		case "int/string":
			m := map[int]string{}
			for i := range v.Els {
				m[v.Ks[i].I] = v.Els[i].S
			}
			return m
		case "iface/iface":
			m := map[interface{}]interface{}{}
			for i := range v.Els {
				m[v.Ks[i].Go(lg)] = v.Els[i].Go(lg)
			}
			return m
		case "string/T0":
			m := map[string]T0{}
			for i := range v.Els {
				m[v.Ks[i].S] = v.Els[i].Go(lg).(T0)
			}
			return m
		case "string/Node":
			m := map[string]Node{}
			for i := range v.Els {
				m[v.Ks[i].S] = v.Els[i].Go(lg).(Node)
			}
			return m
		}
	case "struct":
		if v.Tn == "T0" {
			return T0{Name: v.Els[0].S}
		}
		if v.Tn == "Node" {
			nd := Node{}
			for i, n := range v.Fn {
				x := v.Els[i].Go(lg)
				switch n {
				case "Name":
					nd.Name = x.(string)
				case "A":
					nd.A = x.([]Node)
				case "B":
					nd.B = x.([]Node)
				case "P":
					nd.P = x.(*Node)
				case "M":
					nd.M = x.(map[string]Node)
				}
			}
			return nd
		}
		t := T1{}
		for i, n := range v.Fn {
			x := v.Els[i].Go(lg)
			switch n {
			case "Name":
				t.Name = x.(string)
			case "In":
				t.In = x.(T0)
			case "Ins":
				t.Ins = x.([]T0)
			case "PIn":
				t.PIn = x.(*T0)
			case "NilP":
				t.NilP = x.(*T0)
			case "priv":
				t.priv = x.(string)
			case "M":
				t.M = x.(map[string]T0)
			case "Tags":
				t.Tags = x.([]string)
			case "N":
				t.N = x.(int)
			}
		}
		return t
	case "ptr":
		x := v.Els[0].Go(lg)
		switch t := x.(type) {
		case T0:
			return &t
		case T1:
			return &t
		case Node:
			return &t
		}
		return nil
	case "nilptr":
		if v.Tn == "Node" {
			return (*Node)(nil)
		}
		return (*T0)(nil)
	case "go":
		return goHelper(v, lg)
	}
	return nil
}

func goHelper(v VD, lg *runLog) interface{} {
	rec := func(tag VD, args ...interface{}) {
		e := logEntry{Id: v.Id, Args: []string{show(tag.Go(nil))}}
		for _, a := range args {
			e.Args = append(e.Args, show(a))
		}
		lg.entries = append(lg.entries, e)
	}
	switch v.Id {
	case 14: // partial feeder: installed by the runner
		return nil
	case 100:
		k := v.Els[0].I
		return func() (string, error) {
			lg.entries = append(lg.entries, logEntry{Id: 100, Args: []string{show(k)}})
			return "", sentinels[k]
		}
	case 101:
		ret := v.Els[1].Go(lg)
		return func() interface{} { rec(v.Els[0]); return ret }
	case 102:
		return func(s string) template.HTML { return template.HTML(s) }
	case 103:
		return func(help plush.HelperContext) (template.HTML, error) {
			s, err := help.Block()
			return template.HTML("[" + s + "]"), err
		}
	case 104:
		return func(help plush.HelperContext) (template.HTML, error) {
			a, err := help.Block()
			if err != nil {
				return "", err
			}
			b, err := help.Block()
			return template.HTML(a + "|" + b), err
		}
	case 105:
		return func(data map[string]interface{}, help plush.HelperContext) (template.HTML, error) {
			c := help.New()
			for k, x := range data {
				c.Set(k, x)
			}
			s, err := help.BlockWith(c)
			return template.HTML(s), err
		}
	case 107:
		return func(x interface{}) interface{} { return x }
	case 109:
		// helpers whose parameters are TYPED as trusted HTML: only values that already are
		// template.HTML may be bound to them (Go-only)
		return func(h template.HTML) template.HTML { return "<b>" + h + "</b>" }
	case 110:
		return func(sep string, hs ...template.HTML) template.HTML {
			var out template.HTML
			for i, h := range hs {
				if i > 0 {
					out += template.HTML(sep)
				}
				out += h
			}
			return out
		}
	case 108:
		// a helper that fills defaults into the options map it was given (Go-only: the model
		// classifies calls of it as outside its fragment)
		return func(o map[string]interface{}) string {
			o["seen"] = len(o) + 1
			return "m"
		}
	case 111:
		// like 108, and it shows what it was given: the number of entries before it writes
		return func(o map[string]interface{}) string {
			n := len(o)
			o[fmt.Sprintf("k%d", n)] = n
			return strconv.Itoa(n)
		}
	case 106:
		ret := v.Els[1].Go(lg)
		rs, _ := ret.(string)
		tag := v.Els[0]
		switch v.Els[0].I {
		case 0:
			return func() string { rec(tag); return rs }
		case 1:
			return func(a int) string { rec(tag, a); return rs }
		case 2:
			return func(a string, b int) string { rec(tag, a, b); return rs }
		case 3:
			return func(a interface{}, b string, c bool) string { rec(tag, a, b, c); return rs }
		case 4:
			return func(a string, o map[string]interface{}) string { rec(tag, a, o); return rs }
		case 5:
			return func(a string, h plush.HelperContext) string { rec(tag, a, h); return rs }
		case 6:
			return func(a string, o map[string]interface{}, h plush.HelperContext) string { rec(tag, a, o, h); return rs }
		case 7:
			return func(a int, rest ...interface{}) string {
				xs := []interface{}{a}
				xs = append(xs, rest...)
				rec(tag, xs...)
				return rs
			}
		case 8:
			return func(rest ...string) string {
				xs := []interface{}{}
				for _, r := range rest {
					xs = append(xs, r)
				}
				rec(tag, xs...)
				return rs
			}
		case 9:
			return func(a string, h hctx.HelperContext) (string, error) { rec(tag, a, h); return rs, nil }
		case 10:
			return func(a, b string) string { rec(tag, a, b); return rs }
		case 11:
			return func(a T0) string { rec(tag, a); return rs }
		case 12:
			return func(a *T0) string { rec(tag, a); return rs }
		case 13:
			return func(a []interface{}) string { rec(tag, a); return rs }
		case 14:
			return func(a float64) string { rec(tag, a); return rs }
		case 15:
			return func(a template.HTML) string { rec(tag, a); return rs }
		case 16:
			return func(a bool) string { rec(tag, a); return rs }
		case 17:
			return func(a map[string]interface{}) string { rec(tag, a); return rs }
		case 18:
			return func(a, b, c string) string { rec(tag, a, b, c); return rs }
		}
	}
	return nil
}

// ---- running a render case ---------------------------------------------------

type Bind struct {
	Name string `json:"name"`
	V    VD     `json:"v"`
}

type RCase struct {
	Tmpl  string            `json:"tmpl"`
	Binds []Bind            `json:"binds,omitempty"`
	Parts map[string]string `json:"parts,omitempty"`
}

type RObs struct {
	Class    string     `json:"class"` // OK ERR PARSEERR PANIC HANG
	Out      string     `json:"out,omitempty"`
	Line     int        `json:"line,omitempty"`
	Sentinel int        `json:"sentinel"` // -1 none
	Lines    []int      `json:"lines,omitempty"`
	Msg      string     `json:"msg,omitempty"`
	Log      []logEntry `json:"log,omitempty"`
}

var lineAnyRe = regexp.MustCompile(`(?m)^line (\d+):`)

func runRender(c RCase) RObs { return runRenderExtra(c, nil) }

func runRenderExtra(c RCase, extra map[string]interface{}) RObs {
	lg := &runLog{}
	data := map[string]interface{}{}
	for k, v := range extra {
		data[k] = v
	}
	for _, b := range c.Binds {
		data[b.Name] = b.V.Go(lg)
	}
	if c.Parts != nil {
		parts := c.Parts
		data["partialFeeder"] = func(name string) (string, error) {
			if s, ok := parts[name]; ok {
				return s, nil
			}
			return "", fmt.Errorf("no partial %q", name)
		}
	}
	ch := make(chan RObs, 1)
	go func() {
		defer func() {
			if r := recover(); r != nil {
				ch <- RObs{Class: "PANIC", Msg: fmt.Sprint(r) + " @ " + panicSite(), Sentinel: -1}
			}
		}()
		ctx := plush.NewContextWith(data)
		out, err := plush.Render(c.Tmpl, ctx)
		if err == nil {
			ch <- RObs{Class: "OK", Out: out, Sentinel: -1}
			return
		}
		o := RObs{Class: "ERR", Msg: err.Error(), Sentinel: -1, Out: out}
		for k, s := range sentinels {
			if errors.Is(err, s) {
				o.Sentinel = k
			}
		}
		// a syntax error (errSlice) or an execution error?
		if _, perr := plush.NewTemplate(c.Tmpl); perr != nil {
			o.Class = "PARSEERR"
			for _, ln := range strings.Split(perr.Error(), "\n") {
				if m := lineRe.FindStringSubmatch(ln); m != nil {
					n, _ := strconv.Atoi(m[1])
					o.Lines = append(o.Lines, n)
				}
			}
		} else if m := lineRe.FindStringSubmatch(err.Error()); m != nil {
			o.Line, _ = strconv.Atoi(m[1])
		}
		ch <- o
	}()
	select {
	case o := <-ch:
		o.Log = lg.entries
		return o
	case <-time.After(5 * time.Second):
		return RObs{Class: "HANG", Sentinel: -1}
	}
}

func (c RCase) CoqTerm(o RObs) string {
	bs := make([]string, len(c.Binds))
	for i, b := range c.Binds {
		bs[i] = "(" + cqBytes(b.Name) + ", " + b.V.Coq() + ")"
	}
	names := make([]string, 0, len(c.Parts))
	for k := range c.Parts {
		names = append(names, k)
	}
	sort.Strings(names)
	ps := make([]string, len(names))
	for i, k := range names {
		ps[i] = "(" + cqBytes(k) + ", " + cqBytes(c.Parts[k]) + ")"
	}
	if c.Parts != nil {
		bs = append(bs, "("+cqBytes("partialFeeder")+", (DGo 14%N []))")
	}
	obs := ""
	switch o.Class {
	case "OK":
		obs = "(ObsOk " + cqBytes(o.Out) + ")"
	case "ERR":
		s := "None"
		if o.Sentinel >= 0 {
			s = "(Some " + cqN(uint64(o.Sentinel)) + ")"
		}
		obs = fmt.Sprintf("(ObsErr %s %s)", cqNat(o.Line), s)
	case "PARSEERR":
		ls := make([]string, len(o.Lines))
		for i, n := range o.Lines {
			ls[i] = cqNat(n)
		}
		obs = "(ObsParseErr " + cqList(ls) + ")"
	default:
		obs = "ObsPanic"
	}
	lgs := make([]string, len(o.Log))
	for i, e := range o.Log {
		as := make([]string, len(e.Args))
		for j, a := range e.Args {
			as[j] = cqBytes(a)
		}
		lgs[i] = fmt.Sprintf("(%s, %s)", cqN(uint64(e.Id)), cqList(as))
	}
	// long binding / partial lists are shared by many cases of a shard: hoisted into one
	// Definition per distinct list (see flushShard), which makes the case files much smaller
	return fmt.Sprintf("(mkrcase %s %s %s %s %s)", cqBytes(c.Tmpl), hoist("list (bytes * vdesc)", cqList(bs)), hoist("list (bytes * bytes)", cqList(ps)), obs, cqList(lgs))
}

var hoisted = map[string][2]string{} // name -> (type, term)

func hoist(ty, term string) string {
	if len(term) < 200 {
		return term
	}
	h := fnv.New64a()
	h.Write([]byte(term))
	name := fmt.Sprintf("hoisted_%x", h.Sum64())
	hoisted[name] = [2]string{ty, term}
	return name
}

var helperNames []string

func renderPrelude() {
	if helperNames == nil {
		for k := range plush.Helpers.All() {
			helperNames = append(helperNames, k)
		}
		sort.Strings(helperNames)
	}
	hs := make([]string, len(helperNames))
	for i, k := range helperNames {
		hs[i] = cqBytes(k)
	}
	shardPrelude["render"] = "From Plush Require Import model.Bytes model.Lexer model.Ast model.Parser model.Value model.Eval model.Cases.\nDefinition names : list bytes := " + cqList(hs) + ".\n"
	shardCheck["render"] = "RENDER"
}

// addRenderCase runs the case on the implementation, lets the caller's oracle
// judge it, and records it for the model.
func (e *Env) addRenderCase(tag string, c RCase) RObs {
	o := runRender(c)
	e.rep.Evaluations++
	e.Count("render-" + tag + "-" + o.Class)
	rp := map[string]interface{}{"case": c, "observed": o}
	switch o.Class {
	case "HANG":
		e.hangs++
		e.Violate("render-hang", fmt.Sprintf("Render did not return within 5s on %q", c.Tmpl), rp)
		return o
	}
	if o.Class == "ERR" && o.Out != "" {
		e.Violate("partial-output-on-error", fmt.Sprintf("Render returned an error AND output %q for %q", o.Out, c.Tmpl), rp)
	}
	if o.Class == "OK" || o.Class == "ERR" {
		e.Distinct("render/" + c.Tmpl + fmt.Sprint(len(c.Binds)))
	}
	e.AddCase("render", fmt.Sprintf("render-%d", e.rep.Evaluations), c.CoqTerm(o), rp)
	if e.rep.Evaluations%173 == 11 {
		e.Sample(rp)
	}
	return o
}
