package main

import (
	"fmt"
	"sort"
	"strings"

	"github.com/gobuffalo/plush/v5"
)

// ---- C13: rendering is deterministic; templates are immutable ----------------------

func progDump(t *plush.Template) string {
	p := plush.VerifProgram(t)
	if p == nil {
		return "<nil>"
	}
	var sb strings.Builder
	for _, s := range p.Statements {
		sb.WriteString(dumpStmt(s))
	}
	return sb.String()
}

// templates that fail to parse half-way through a construct (a loop header without its body, an open
// block, an open call): parsed between the parses of other templates
var c13poison = []string{"<% for (x) in xs %>text", "<%= for (x) in xs %>", "<% for (x) in f() %>", "<%= if (true) { %>", "<%= f(1, %>", "<% for (x) in [1, 2] { %>open", "<% let g = fn(a) { %>"}

func init() {
	register("C13", func(e *Env) {
		renderPrelude()
		e.perShard = 40
		e.rep.Rule = "templates covering every construct (the evaluator battery + hash literals with duplicate keys and side-effecting values + generated loop/scope/function programs) x histories: fresh parse, repeated Exec of one parsed template, Clone, Parse with the cache off / cold / warm, interleaved over several templates; data of distinct Go types with the same printed type name rendered alternately; pure templates evaluated twice within one render (loop body, function called twice, block rendered twice); every result (output or error text) of one (template, data) pair must be identical, and the parsed program (deep structural dump through the verif hook) must be unchanged by every Exec; the single model answer is compared too; distinct by template"
		reps := 6
		if e.Thorough() {
			reps = 40
		}
		var tmpls []string
		tmpls = append(tmpls, battery...)
		tmpls = append(tmpls,
			`<%= {a: 1, a: 2}["a"] %><%= {a: 1, a: 2}["a"] %><%= {a: 1, a: 2}["a"] %><%= {a: 1, a: 2}["a"] %>`,
			`<% let hh = {a: cnt(), b: cnt(), c: cnt(), a: cnt()} %><%= len(hh) %>`,
			`<% let hh = {x: rec1(1), y: rec1(2), z: rec1(3), w: rec1(4), v: rec1(5)} %><%= hh["z"] %>`,
			`<%= toJSON({b: 1, a: 2, c: [3, {z: 1, y: 2}]}) %>`,
			`<% let h = {"n": 1, "s": "x"} %><% h["n"] = h["n"] + 1 %><%= h["n"] %>`,
			`<% let h = {n: 1} %><% h["extra"] = "e" %><%= len(h) %>|<%= h["extra"] %>`,
			`<% let h = {} %><% h["k"] = 1 %><%= len(h) %>`,
			`<% let a = [1, "s", true] %><% a[1] = a[1] + "!" %><%= a %>`,
			`<%= truncate("a long string here", {size: 6}) %><%= truncate("abcdefgh", {}) %>`,
			`<% let f = fn() { let h = {c: 0}
 h["c"] = h["c"] + 1
 return h["c"] } %><%= f() %><%= f() %>`,
			`<%= for (k, v) in {only: 1} { %><%= k %><%= v %><% } %>`,
			`<% let a = [1,2,3] %><% a[0] = a[0] + 1 %><%= a %>`,
			`<% let f = fn(x) { return x + 1 } %><%= f(1) %><%= f(2) %>`,
			`<% contentFor("c") { %>[<%= n %>]<% } %><%= contentOf("c") %><%= contentOf("c", {n: 9}) %>`,
			`<%= partial("nested") %><%= partial("p.html", {who: "a", layout: "lay2"}) %>`,
			// a helper that writes into the options map it was given, called with the options left out
			// (they are fresh for every call), with literal options, and with a variable holding them
			`<%= optlen() %>|<%= optlen() %>|<%= optlen({a: 1}) %>`, `<% let o = {} %><%= optlen(o) %><%= optlen(o) %>|<%= optlen() %>`,
			`<%= for (i) in [1, 2] { %><%= optlen() %><% } %>`,
			// a loop over a map whose body adds an entry: the entries of the loop are those present when it starts
			`<%= for (k, v) in mi { %><% mi["z"] = 2 %>[<%= k %>=<%= v %>]<% } %>|<%= len(mi) %>`, `<%= for (k, v) in mi { %><% mi["a" + k] = 1 %><% mi["b" + k] = 1 %><%= k %>;<% } %>`,
			// a function value is opaque: the template cannot reach the parsed program through it
			`<% let f = fn(a, b) { return a } %><%= f(1, 2) %>|<%= f %>`, `<% let f = fn(a, b) { return a } %><%= f(1, 2) %><% let p = f.Parameters %><% p[0] = p[1] %>`,
			`<% let f = fn(a) { return a } %><% let b = f.Block %><%= b %>`,
			// slice + value yields a slice of its own: two results of the same left operand do not share storage
			`<% let x = [1, 2, 3] %><% let a = x + 4 %><% let b = x + 5 %><%= a[3] %>|<%= b[3] %>|<%= len(x) %>`,
			`<% let x = [1, 2, 3] %><% x = x + 9 %><% let a = x + 4 %><% let b = x + 5 %><%= a[4] %>|<%= b[4] %>|<%= x %>`,
			`<% let a = xs + 3 %><% let b = xs + 4 %><% let c = (xs + 5) + 6 %><%= a %>|<%= b %>|<%= c %>|<%= xs %>`,
			`<% let a = [1] %><%= for (i) in [1, 2, 3] { %><% let b = a + i %><% let c = a + 0 %><%= b %><% } %>`,
			// array literals changed in place and by append
			`<% let a = [1, 2, 3] %><% a[0] = a[0] + 1 %><% a = a + 4 %><%= a[0] %>,<%= a[3] %>,<%= len(a) %>`, `<%= for (i) in [1, 2] { %><% let b = [1, 2, 3] %><% b[2] = b[2] + i %><%= b[2] %><% } %>`,
			// comment tags inside blocks (kept by the parser as statements), followed by further statements, in
			// bodies that are evaluated more than once
			"<%= if (t) { %>[a<%# a note %>b<%= n %>]<% } %>", "<%= for (x) in [1, 2, 3] { %><%# first %>a<%= x %><%# second %>b<% } %>", "<% let f = fn(v) { %><%# c %>(<%= v %>)<% } %><%= f(1) %><%= f(2) %>",
			"<%= blk2() { %>x<%# c %>y<%= n %><% } %>", "<% contentFor(\"cc\") { %><%# c %>[<%= n %>]<%# d %>.<% } %><%= contentOf(\"cc\") %><%= contentOf(\"cc\", {n: 9}) %>",
			"<%= if (false) { %>no<% } else { %><%# c %>e<%= n %><%# d %><% } %>|<%= for (x) in [1, 2] { %><%= if (t) { %><%# c %>i<%= x %><% } %><% } %>",
			// templates that do not parse and record SEVERAL syntax errors, some of them with the same text: the
			// error of a template is as much a function of its text as its output is
			"<% if (true) { break } %>hello", "<% continue %>x", "<%= if (true) { %><% break %><% } %>y", "<% let f = fn() { continue } %>z",
						"<%= f([1, g(2 %>", "<%= f(g(h([1, {a: k(2 %>", "<% if (true) { %><%= f([1, g(2 %>", "<%= f(1 %><%= g([2 %><%= h(3 %><%= k([4 %>", "<% let = 1 %><% let = 2 %><%= (1 + %><% let = 3 %>",
			// run-time failures whose text quotes a name the parser made up (the placeholder of an indexed element
			// that is nil): the same text on every parse
			`<% let rows = [nil] %><%= rows[0].Name %>`, `<% let mm = {"k": nil} %>a<%= mm["k"].Name %>`, `<%= xs[0].Nope.Deep %>`, `<% let rows = [nil, nil] %><%= for (i) in [0, 1] { %><%= rows[i].F %><% } %>`,
			// partials that include themselves (one text executing while another execution of the same text is pending)
			`<%= partial("tree", {n: 3}) %>`, `<%= partial("tree", {n: 2}) %>|<%= partial("tree", {n: 1}) %>`, `<%= partial("ping", {n: 4}) %>`,
		)
		for i := 0; i < 40; i++ {
			parts := map[string]string{}
			var src, out strings.Builder
			ctr := 0
			render09(gen09(e.Rng, 2), &env09{vars: map[string]int{}}, parts, &ctr, &src, &out)
			if len(parts) == 0 {
				tmpls = append(tmpls, src.String())
			}
		}
		run := func(t *plush.Template, c RCase) string {
			lg := &runLog{}
			data := map[string]interface{}{}
			for _, b := range c.Binds {
				data[b.Name] = b.V.Go(lg)
			}
			parts := c.Parts
			data["partialFeeder"] = func(name string) (string, error) {
				if s, ok := parts[name]; ok {
					return s, nil
				}
				return "", fmt.Errorf("no partial %q", name)
			}
			res := ""
			func() {
				defer func() {
					if r := recover(); r != nil {
						res = fmt.Sprintf("PANIC %v", r)
					}
				}()
				s, err := t.Exec(plush.NewContextWith(data))
				if err != nil {
					res = "ERR:" + err.Error()
				} else {
					res = "OK:" + s
				}
			}()
			// pointers printed inside error texts differ between runs: mask them
			return maskPtrs(res)
		}
		for ti, src := range tmpls {
			c := RCase{Tmpl: src, Binds: append(stdBinds(), Bind{"optlen", vGo(111)}), Parts: stdParts}
			o := e.addRenderCase("model", c)
			if o.Class == "PARSEERR" {
				// a template that does not parse: its error (every line of it) is the same for every parse,
				// whichever entry point parses it and whatever the cache holds
				first, firstLabel := "", ""
				for _, cache := range []bool{false, true} {
					plush.CacheEnabled = cache
					for r := 0; r < 2*reps; r++ {
						for label, f := range map[string]func() error{
							"Render":       func() error { _, err := plush.Render(src, plush.NewContext()); return err },
							"NewTemplate":  func() error { _, err := plush.NewTemplate(src); return err },
							"Parse":        func() error { _, err := plush.Parse(src); return err },
							"literal-Exec": func() error { _, err := (&plush.Template{Input: src}).Exec(plush.NewContext()); return err },
						} {
							// other templates - broken ones among them - are parsed in between: what a
							// template's text means does not depend on what was parsed before it
							_, _ = plush.Parse(c13poison[(r+len(label))%len(c13poison)])
							err := f()
							got := "<nil>"
							if err != nil {
								got = err.Error()
							}
							e.rep.Evaluations++
							if first == "" {
								first, firstLabel = got, label
							} else if got != first {
								e.Violate("c13-nondeterministic", fmt.Sprintf("%q does not parse: %s reported %q but %s (cache %v, repetition %d) reported %q", src, firstLabel, first, label, cache, r, got), map[string]interface{}{"tmpl": src})
								r = 2 * reps
								break
							}
						}
					}
				}
				plush.CacheEnabled = false
				e.Distinct(src)
				continue
			}
			if o.Class == "PANIC" || o.Class == "HANG" {
				continue
			}
			e.Distinct(src)
			var results []string
			var labels []string
			add := func(label, r string) { results = append(results, r); labels = append(labels, label) }
			snap := func(t *plush.Template, label string, before string) {
				if after := progDump(t); after != before {
					e.Violate("c13-tree-mutated", fmt.Sprintf("%s: executing %q changed the parsed program", label, src), map[string]string{"tmpl": src, "before": before, "after": after})
				}
			}
			for _, cacheMode := range []string{"off", "cold", "warm"} {
				plush.CacheEnabled = cacheMode != "off"
				if cacheMode == "cold" {
					plush.VerifCacheReset()
				}
				for r := 0; r < reps; r++ {
					t, err := plush.Parse(src)
					if err != nil {
						add(cacheMode+"-parse", "PARSEERR")
						continue
					}
					d0 := progDump(t)
					add(cacheMode+"-fresh", run(t, c))
					snap(t, cacheMode+"-fresh", d0)
					add(cacheMode+"-again", run(t, c))
					snap(t, cacheMode+"-again", d0)
					cl := t.Clone()
					add(cacheMode+"-clone", run(cl, c))
					snap(t, cacheMode+"-clone", d0)
					// interleave another template
					if other, err := plush.Parse(tmpls[(ti+7)%len(tmpls)]); err == nil {
						_ = run(other, RCase{Binds: stdBinds(), Parts: stdParts})
					}
					add(cacheMode+"-after-other", run(t, c))
					snap(t, cacheMode+"-after-other", d0)
					e.rep.Evaluations += 4
				}
			}
			plush.CacheEnabled = false
			for i := range results {
				if results[i] != results[0] {
					e.Violate("c13-nondeterministic", fmt.Sprintf("%q: %s gave %q but %s gave %q", src, labels[0], results[0], labels[i], results[i]), map[string]interface{}{"tmpl": src, "results": results[:i+1], "labels": labels[:i+1]})
					break
				}
			}
		}
		// the same code evaluated twice within one render (in a loop body, in a function called twice,
		// in a block helper that renders its block twice) gives twice the single result, for templates
		// that neither bind nor count anything
		for _, src := range tmpls {
			impure := false
			for _, w := range []string{"let ", " = ", "contentFor", "cnt", "rec", "return", "break", "continue", "fail", "blk2", "h[", "a["} {
				impure = impure || strings.Contains(src, w)
			}
			if impure {
				continue
			}
			one := runRender(RCase{Tmpl: src, Binds: stdBinds(), Parts: stdParts})
			if one.Class != "OK" {
				continue
			}
			for _, w := range []struct{ name, pre, post, wpre, wmid, wpost string }{
				{"loop", "<%= for (zz9) in [1, 2] { %>", "<% } %>", "", "", ""},
				{"fn", "<% let ff9 = fn() { %>", "<% } %><%= ff9() %><%= ff9() %>", "", "", ""},
				{"blk2", "<%= blk2() { %>", "<% } %>", "", "|", ""},
				{"nested-loop", "<%= for (zz8) in [1] { %><%= for (zz9) in [1, 2] { %>", "<% } %><% } %>", "", "", ""},
			} {
				o := runRender(RCase{Tmpl: w.pre + src + w.post, Binds: stdBinds(), Parts: stdParts})
				e.rep.Evaluations++
				e.Count("twice-in-one-render/" + w.name)
				want := w.wpre + one.Out + w.wmid + one.Out + w.wpost
				if o.Class != "OK" || o.Out != want {
					e.Violate("c13-nondeterministic", fmt.Sprintf("%q evaluated twice in one render (%s) gave %q (%s %s), twice the single result is %q", src, w.name, o.Out, o.Class, o.Msg, want), map[string]interface{}{"tmpl": w.pre + src + w.post, "observed": o})
					break
				}
			}
		}
		// "equal context data": data of DIFFERENT Go types that merely print their type alike (same
		// package-qualified name, declared in different scopes, different field layout) rendered
		// one after the other - the result for each is fixed by its own fields, whatever ran before
		{
			type row struct {
				Name string
				Age  int
			}
			mkB := func() interface{} {
				type row struct {
					Age  int
					Note string
					Name string
				}
				return row{Age: 41, Note: "n", Name: "bob"}
			}
			mkC := func() interface{} {
				type row struct {
					Age int
				}
				return &row{Age: 7}
			}
			vals := []struct {
				v    interface{}
				want string
			}{{row{"amy", 30}, "OK:amy is 30"}, {mkB(), "OK:bob is 41"}, {&row{"cy", 5}, "OK:cy is 5"}, {mkC(), "ERR"}}
			tmpl := `<%= r.Name %> is <%= r.Age %>`
			for round := 0; round < 3; round++ {
				for _, cache := range []bool{false, true} {
					plush.CacheEnabled = cache
					for i := range vals {
						x := vals[(i+round)%len(vals)]
						res := ""
						func() {
							defer func() {
								if r := recover(); r != nil {
									res = fmt.Sprintf("PANIC %v", r)
								}
							}()
							out, err := plush.Render(tmpl, plush.NewContextWith(map[string]interface{}{"r": x.v}))
							if err != nil {
								res = "ERR"
							} else {
								res = "OK:" + out
							}
						}()
						e.rep.Evaluations++
						e.Count("same-named-types")
						if res != x.want {
							e.Violate("c13-nondeterministic", fmt.Sprintf("%q with r = %#v rendered %q, want %q (round %d, cache %v): the result depends on what was rendered before", tmpl, x.v, res, x.want, round, cache), map[string]interface{}{"tmpl": tmpl, "value": fmt.Sprintf("%#v", x.v), "result": res})
						}
					}
				}
			}
			plush.CacheEnabled = false
		}
		// the same page rendered alternately with contexts whose partialFeeder resolves one partial NAME to
		// different sources (per request: locale, content type), cache off / on: what a partial renders
		// to is a function of the source its own context's feeder returns, not of what was rendered before
		{
			page := `<ul><%= partial("row") %></ul><%= partial("row", {n: 1}) %>`
			feeders := []map[string]string{{"row": `<li class="a"><%= n %></li>`}, {"row": `<li class="b"><%= n + 1 %></li>`}, {"row": `plain`}}
			wants := []string{`OK:<ul><li class="a">7</li></ul><li class="a">1</li>`, `OK:<ul><li class="b">8</li></ul><li class="b">2</li>`, `OK:<ul>plain</ul>plain`}
			for _, cache := range []bool{false, true, true} {
				plush.CacheEnabled = cache
				for step := 0; step < 7; step++ {
					k := step % len(feeders)
					parts := feeders[k]
					res := ""
					out, err := plush.Render(page, plush.NewContextWith(map[string]interface{}{"n": 7, "partialFeeder": func(name string) (string, error) { return parts[name], nil }}))
					if err != nil {
						res = "ERR:" + err.Error()
					} else {
						res = "OK:" + out
					}
					e.rep.Evaluations++
					e.Count("feeder-per-context")
					if res != wants[k] {
						e.Violate("c13-nondeterministic", fmt.Sprintf("%q with the feeder of context %d rendered %q, want %q (step %d, cache %v): the result depends on what was rendered before", page, k, res, wants[k], step, cache), map[string]interface{}{"tmpl": page, "step": step, "cache": cache})
						break
					}
				}
			}
			plush.CacheEnabled = false
			plush.VerifCacheReset()
		}
		// ONE parsed template (kept, cloned, served by the cache) executed alternately with DIFFERENT data - first
		// with data in which the names it consults are absent (tolerated), then with data that has them: every
		// execution gives what a fresh parse gives for that data
		{
			datas := []map[string]interface{}{{}, {"name": "Bob", "n": 2}, {"name": nil}, {"name": "", "n": 0}, {"name": "Al", "n": 5}}
			for _, tm := range []string{`<%= if (name == nil) { %>anonymous<% } else { %>known<% } %>`, `<%= if (name) { %>hi <%= name %><% } else { %>nobody<% } %>|<%= !n %>`,
				`<%= name || "none" %>/<%= if (n && name) { %>both<% } %>`, `static text only`, `<%= 1 + 2 %><%= "lit" %>`, `<% let f = fn() { return name } %><%= f() == nil %>`} {
				fresh := make([]string, len(datas))
				for i, d := range datas {
					out, err := plush.Render(tm, plush.NewContextWith(copyMap(d)))
					fresh[i] = fmt.Sprint(out, "|", err)
				}
				t, err := plush.NewTemplate(tm)
				if err != nil {
					continue
				}
				for _, cache := range []bool{false, true} {
					plush.CacheEnabled = cache
					plush.VerifCacheReset()
					for step := 0; step < 2*len(datas); step++ {
						i := step % len(datas)
						out, err := t.Exec(plush.NewContextWith(copyMap(datas[i])))
						got := fmt.Sprint(out, "|", err)
						out2, err2 := plush.Render(tm, plush.NewContextWith(copyMap(datas[i])))
						got2 := fmt.Sprint(out2, "|", err2)
						out3, err3 := t.Clone().Exec(plush.NewContextWith(copyMap(datas[i])))
						got3 := fmt.Sprint(out3, "|", err3)
						e.rep.Evaluations += 3
						e.Count("alternating-data")
						if got != fresh[i] || got2 != fresh[i] || got3 != fresh[i] {
							e.Violate("c13-nondeterministic", fmt.Sprintf("%q with data %v (step %d, cache %v): kept template %q, Render %q, clone %q; a fresh parse gives %q", tm, datas[i], step, cache, got, got2, got3, fresh[i]), map[string]interface{}{"tmpl": tm, "step": step})
							break
						}
					}
				}
				plush.CacheEnabled = false
				plush.VerifCacheReset()
				e.Distinct("alt/" + tm)
			}
		}
		// values allocated by the execution itself and printed by address (a pointer nested in a slice handed to
		// inspect, or quoted in an error text): two executions of one template with equal data differ
		// (known finding c13-address-in-output)
		for _, tm := range []string{"<%= inspect([range(1, 3)]) %>", "<%= truncate([range(1, 3)]) %>", "<%= inspect([until(2), between(1, 4)]) %>", "<%= debug([groupBy(1, [1])]) %>"} {
			res := map[string]bool{}
			for r := 0; r < 4; r++ {
				out, err := plush.Render(tm, plush.NewContext())
				if err != nil {
					out = "ERR:" + err.Error()
				}
				res[out] = true
				e.rep.Evaluations++
			}
			e.Count("address-in-output")
			if len(res) > 1 {
				e.Violate("c13-address-in-output", fmt.Sprintf("%s rendered %d different results in 4 executions with equal (empty) data, e.g. %q", tm, len(res), firstKey(res)), map[string]interface{}{"tmpl": tm})
			}
		}
	})
}

func maskPtrs(s string) string {
	var b strings.Builder
	for i := 0; i < len(s); i++ {
		if strings.HasPrefix(s[i:], "0xc") {
			b.WriteString("0xPTR")
			i += 3
			for i < len(s) && strings.ContainsRune("0123456789abcdef", rune(s[i])) {
				i++
			}
			i--
			continue
		}
		b.WriteByte(s[i])
	}
	return b.String()
}

func firstKey(m map[string]bool) string {
	ks := []string{}
	for k := range m {
		ks = append(ks, k)
	}
	sort.Strings(ks)
	if len(ks) == 0 {
		return ""
	}
	return ks[0]
}

func copyMap(m map[string]interface{}) map[string]interface{} {
	c := map[string]interface{}{}
	for k, v := range m {
		c[k] = v
	}
	return c
}
