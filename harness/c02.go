package main

import (
	"fmt"
	"html/template"
	"strings"
)

// ---- C02: output = literal text verbatim + values of output tags ------------------

// reference scanner for literal text (the property's own words): \<% is a
// literal <%, \\<% is one backslash followed by a live tag, everything else is
// copied. Returns the text up to the first live tag and whether a tag follows.
func refText(s string) (out string, rest string, tag bool) {
	var b strings.Builder
	i := 0
	for i < len(s) {
		if s[i] == 0 {
			return b.String(), "", false // the engine stops at NUL: outside the property (NUL-free)
		}
		if s[i] == '\\' && strings.HasPrefix(s[i+1:], "<%") && !(i > 0 && s[i-1] == '\\') {
			b.WriteString("<%")
			i += 3
			continue
		}
		if s[i] == '\\' && i > 0 && s[i-1] == '\\' && strings.HasPrefix(s[i+1:], "<%") {
			// second backslash of \\<% : dropped, tag is live
			return b.String(), s[i+1:], true
		}
		if strings.HasPrefix(s[i:], "<%") {
			return b.String(), s[i:], true
		}
		b.WriteByte(s[i])
		i++
	}
	return b.String(), "", false
}

type seg struct {
	src  string // template source of the segment
	want string // what it contributes to the output
}

func init() {
	register("C02", func(e *Env) {
		renderPrelude()
		lexPrelude()
		e.perShard = 120
		e.rep.Rule = "(i) every string of length <= L over {<,%,>,\\,=,#,\",a,newline} as a whole template (tag-free ones must render to themselves; ones with escapes are judged by the reference scanner), (ii) the same strings as the content of a double-quoted and of a back-quoted string literal inside an output tag, (iii) random interleavings of text segments, output tags (literals with arbitrary contents, expressions), silent tags (let, assignment, expression, if, for) and comment tags at top level and inside if / for / function / block-helper blocks, compared with the concatenation of texts and output values in source order; distinct by template"
		alpha := []string{"<", "%", ">", "\\", "=", "#", "\"", "a", "\n"}
		L := 3
		if e.Thorough() {
			L = 5
		}
		// (i) whole templates
		allStrings(alpha, L, func(s string) {
			txt, rest, tag := refText(s)
			if tag {
				// a live tag follows: judged only for the text prefix via the lexer's first token
				e.addLexCase("text", s)
				toks, _ := lexImpl(s)
				if len(toks) > 0 && toks[0].Kind == "HTML" && toks[0].Lit != txt {
					e.Violate("c02-text", fmt.Sprintf("text before the first tag of %q lexed as %q, reference scanner says %q (rest %q)", s, toks[0].Lit, txt, rest), map[string]string{"input": s})
				}
				return
			}
			c := RCase{Tmpl: s}
			o := e.addRenderCase("tagfree", c)
			e.Distinct("t/" + s)
			if o.Class != "OK" || o.Out != txt {
				e.Violate("c02-text", fmt.Sprintf("tag-free template %q rendered %q (%s), want %q", s, o.Out, o.Class, txt), map[string]interface{}{"case": c, "observed": o})
			}
		})
		// (ii) string literal contents
		allStrings([]string{"<", "%", ">", "\\", "#", "a", "\n", "{", "é"}, L, func(body string) {
			dq := strings.ReplaceAll(body, `"`, `\"`)
			for _, form := range []struct{ open, src, close string }{{`"`, dq, `"`}, {"`", body, "`"}} {
				if form.open == `"` && strings.HasSuffix(body, "\\") {
					continue // a double-quoted string cannot end in a backslash (it would escape the closing quote); a back-quoted one can: it is raw
				}
				tmpl := "[<%= " + form.open + form.src + form.close + " %>]"
				c := RCase{Tmpl: tmpl}
				o := e.addRenderCase("strlit", c)
				want := "[" + template.HTMLEscapeString(body) + "]"
				e.Distinct("s/" + tmpl)
				if o.Class != "OK" || o.Out != want {
					e.Violate("c02-string", fmt.Sprintf("%q rendered %q (%s %s), want %q", tmpl, o.Out, o.Class, o.Msg, want), map[string]interface{}{"case": c, "observed": o})
				}
			}
		})
		// contents made of the characters the sink escapes, alone and combined (a value holding only
		// one kind of them is escaped like any other)
		allStrings([]string{"'", "&", "a", "\"", "<"}, 4, func(body string) {
			for _, tm := range []struct{ tmpl string }{{"[<%= `" + body + "` %>]"}, {"<% let v = `" + body + "` %>[<%= v %>]"}, {"[<%= for (v) in [`" + body + "`] { %><%= v %><% } %>]"}} {
				c := RCase{Tmpl: tm.tmpl}
				o := e.addRenderCase("strlit", c)
				want := "[" + template.HTMLEscapeString(body) + "]"
				e.Distinct("s/" + tm.tmpl)
				if o.Class != "OK" || o.Out != want {
					e.Violate("c02-string", fmt.Sprintf("%q rendered %q (%s %s), want %q", tm.tmpl, o.Out, o.Class, o.Msg, want), map[string]interface{}{"case": c, "observed": o})
				}
			}
		})
		// SILENT tags contribute nothing, whatever the type of the value they compute - trusted HTML included -
		// at top level and inside blocks
		for _, t := range [][2]string{
			{`a<% raw("<b>x</b>") %>b`, "ab"}, {`a<% hv %>b`, "ab"}, {`a<% raw("<i>") %>b<% hv %>c<%= hv %>`, "abc<u>"}, {`<% mkhtml("z") %>|<% blk() { %>in<% } %>|`, "||"},
			{`<%= if (true) { %>a<% raw("<b>") %>b<% hv %>c<% } %>`, "abc"}, {`<%= for (i) in [1, 2] { %><% hv %><% raw("x") %><%= i %><% } %>`, "12"}, {`a<% contentFor("k") { %>K<% } %>b<% contentOf("k") %>c<%= contentOf("k") %>`, "abcK"},
			{`a<% partial("pp") %>b<%= partial("pp") %>`, "abP"}, {`<% let f = fn() { return raw("<r>") } %>a<% f() %>b<%= f() %>`, "ab<r>"}, {`a<% [hv, raw("q")] %>b<% {k: hv} %>c`, "abc"},
		} {
			c := RCase{Tmpl: t[0], Binds: []Bind{{"hv", vHTML("<u>")}, {"mkhtml", vGo(102)}, {"blk", vGo(103)}}, Parts: map[string]string{"pp": "P"}}
			o := e.addRenderCase("silent-html-values", c)
			e.Distinct(t[0])
			if o.Class != "OK" || o.Out != t[1] {
				e.Violate("c02-concat", fmt.Sprintf("%s: rendered %q (%s %s), want %q", t[0], o.Out, o.Class, firstLine(o.Msg), t[1]), map[string]interface{}{"case": c, "observed": o})
			}
		}
		// a return inside an INNER output block: the text and values that block had produced before the return
		// stay in the output, in source order, followed by the returned value; nothing after the return is output
		for _, t := range [][2]string{
			{`<%= if (true) { %>A<%= if (true) { %>B<% return 1 %><% } %>C<% } %>D`, "AB1D"}, {`<%= if (true) { %>A<%= 2 %><%= if (true) { %>B<%= 3 %><% return "r" %>x<% } %>C<% } %>D`, "A2B3rD"},
			{`<%= for (i) in [1, 2] { %>[<%= if (i == 1) { %>one<% return "!" %><% } %>]<% } %>|`, "[one![]|"}, {`<%= if (true) { %>A<% return 1 %>B<% } %>C`, "A1C"}, {`<%= if (true) { %><%= if (true) { %><%= if (true) { %>deep<%= 1 %><% return 2 %><% } %>x<% } %>y<% } %>z`, "deep12z"},
			{`<%= blk() { %>A<%= if (true) { %>B<% return 1 %><% } %>C<% } %>D`, "[AB1]D"},
		} {
			c := RCase{Tmpl: t[0], Binds: []Bind{{"blk", vGo(103)}}}
			o := e.addRenderCase("return-in-inner-block", c)
			e.Distinct(t[0])
			if o.Class != "OK" || o.Out != t[1] {
				e.Violate("c02-concat", fmt.Sprintf("%s: rendered %q (%s %s), want %q", t[0], o.Out, o.Class, firstLine(o.Msg), t[1]), map[string]interface{}{"case": c, "observed": o})
			}
		}
		// text and values at every level of DEEP nesting (output blocks inside output blocks, loops inside
		// loops, a template function that calls itself): nothing is dropped however deep it stands
		for _, depth := range []int{1, 2, 8, 15, 16, 17, 18, 20, 24, 33, 40} {
			var src, want strings.Builder
			for d := 1; d <= depth; d++ {
				fmt.Fprintf(&src, "<%%= if (true) { %%>i%d<%%= %d %%>", d, d)
				fmt.Fprintf(&want, "i%d%d", d, d)
			}
			for d := depth; d >= 1; d-- {
				fmt.Fprintf(&src, "o%d<%% } %%>", d)
				fmt.Fprintf(&want, "o%d", d)
			}
			c := RCase{Tmpl: src.String()}
			var o RObs
			if depth <= 20 {
				o = e.addRenderCase("deep-if", c)
			} else {
				o = runRender(c)
				e.rep.Evaluations++
			}
			if o.Class != "OK" || o.Out != want.String() {
				e.Violate("c02-concat", fmt.Sprintf("%d nested output-ifs: rendered %q (%s %s), want %q", depth, o.Out, o.Class, firstLine(o.Msg), want.String()), map[string]interface{}{"case": c, "observed": o})
			}
		}
		for _, depth := range []int{1, 4, 7, 8, 9, 10, 12} {
			var src, want strings.Builder
			for d := 1; d <= depth; d++ {
				fmt.Fprintf(&src, "<%%= for (v%d) in [%d] { %%>f<%%= v%d %%>", d, d, d)
				fmt.Fprintf(&want, "f%d", d)
			}
			for d := depth; d >= 1; d-- {
				fmt.Fprintf(&src, "e%d<%% } %%>", d)
				fmt.Fprintf(&want, "e%d", d)
			}
			c := RCase{Tmpl: src.String()}
			o := e.addRenderCase("deep-for", c)
			if o.Class != "OK" || o.Out != want.String() {
				e.Violate("c02-concat", fmt.Sprintf("%d nested loops: rendered %q (%s %s), want %q", depth, o.Out, o.Class, firstLine(o.Msg), want.String()), map[string]interface{}{"case": c, "observed": o})
			}
		}
		for _, depth := range []int{3, 9, 10, 14, 20} {
			tm := fmt.Sprintf("<%% let tree = fn(n) { %%>(<%%= n %%><%%= if (n > 0) { %%><%%= tree(n - 1) %%><%% } %%>)<%% } %%><%%= tree(%d) %%>", depth)
			var want strings.Builder
			for d := depth; d >= 0; d-- {
				fmt.Fprintf(&want, "(%d", d)
			}
			want.WriteString(strings.Repeat(")", depth+1))
			c := RCase{Tmpl: tm}
			o := runRender(c)
			e.rep.Evaluations++
			e.Count("deep-recursion")
			if o.Class != "OK" || o.Out != want.String() {
				e.Violate("c02-concat", fmt.Sprintf("%s: rendered %q (%s %s), want %q", tm, o.Out, o.Class, firstLine(o.Msg), want.String()), map[string]interface{}{"case": c, "observed": o})
			}
		}
		// bytes that are not UTF-8 (a template is a byte string: Latin-1 text, a truncated rune, a lone
		// continuation byte, an encoded surrogate) stay as they are, as literal text, inside a string
		// literal, in a comment tag and next to code
		for _, b := range []string{"\xff", "caf\xe9 ", "\xc3", "\x80\xfe b", "\xed\xa0\x80", "\xf0\x9f\x98", "ok \xe4\xb8", "a\xffb\xfec"} {
			for _, tm := range [][2]string{{b, b}, {"<p>" + b + "</p><%= 1 %>", "<p>" + b + "</p>1"}, {"<%= 1 %>" + b + "<% let z = 2 %>" + b, "1" + b + b},
				{"[<%= \"" + b + "\" %>]", "[" + b + "]"}, {"[<%= `" + b + "<` %>]", "[" + b + "&lt;]"}, {"<%# " + b + " %>[" + b + "]", "[" + b + "]"},
				{"<%= if (true) { %>" + b + "<% } %>|", b + "|"}, {"<%= for (i) in [1, 2] { %>" + b + "<% } %>", b + b}} {
				c := RCase{Tmpl: tm[0]}
				o := e.addRenderCase("not-utf8", c)
				e.Distinct("u/" + tm[0])
				if o.Class != "OK" || o.Out != tm[1] {
					e.Violate("c02-text", fmt.Sprintf("%q rendered %q (%s %s), want %q", tm[0], o.Out, o.Class, o.Msg, tm[1]), map[string]interface{}{"case": c, "observed": o})
				}
			}
		}
		for _, body := range []string{`a"b`, `""`, `"`, `\"`, `a\"`, `x"y"z`, `%>"<%`, `# "c"`} {
			tmpl := `[<%= "` + strings.ReplaceAll(body, `"`, `\"`) + `" %>]`
			c := RCase{Tmpl: tmpl}
			o := e.addRenderCase("strlit", c)
			want := "[" + template.HTMLEscapeString(body) + "]"
			if !strings.HasSuffix(body, `\`) && (o.Class != "OK" || o.Out != want) {
				e.Violate("c02-string", fmt.Sprintf("%q rendered %q (%s %s), want %q", tmpl, o.Out, o.Class, o.Msg, want), map[string]interface{}{"case": c, "observed": o})
			}
		}
		// (iii) interleavings
		texts := []string{"plain ", "<p>", "</p>\n", "a\\<%b", "50% > 40%", "{x}", "é世", "\t", "#", "\"q\"", "a\\b", "< ", " %>", "=", "x\\\\<% 1 %>y",
			// literal text that is spelled like a token
			"%>", "\\<%", "}", "{", ";", "else", "<", "%", ">"}
		mk := func() seg {
			switch e.Rng.Intn(14) {
			case 0, 1, 2, 3:
				t := texts[e.Rng.Intn(len(texts))]
				out, rest, tag := refText(t)
				if tag { // "x\\<% 1 %>y": text, a silent tag, text
					_ = rest
					return seg{t, "x\\y"}
				}
				return seg{t, out}
			case 4:
				return seg{`<%= "s<" %>`, "s&lt;"}
			case 5:
				return seg{"<%= `%> <% #` %>", "%&gt; &lt;% #"}
			case 6:
				return seg{"<%= n + 1 %>", "4"}
			case 7:
				if e.Rng.Intn(2) == 0 {
					return seg{"<%= ap %>", "it&#39;s"}
				}
				return seg{"<%= s %>", "v&amp;"}
			case 8:
				// values that are falsy or empty still print what they are
				switch e.Rng.Intn(4) {
				case 0:
					return seg{"<%= n == 4 %>", "false"}
				case 1:
					return seg{"<%= !s %>|<%= 0 %>", "false|0"}
				case 2:
					return seg{"<%= \"\" %><%= n - 3 %>", "0"}
				}
				return seg{"<% let q = 1 %>", ""}
			case 9:
				// loops over iterators: what an iteration wrote before break / continue is kept
				switch e.Rng.Intn(5) {
				case 0:
					return seg{"<%= for (i) in range(1, 3) { %>[<%= i %><% if (i == 2) { %>stop<% break %><% } %>]<% } %>", "[1][2stop"}
				case 1:
					return seg{"<%= for (i) in until(3) { %>x<%= i %><% break %>y<% } %>", "x0"}
				case 2:
					return seg{"<%= for (i) in between(0, 4) { %>(<%= i %><% if (i == 2) { %>skip<% continue %><% } %>)<% } %>", "(1)(2skip(3)"}
				case 3:
					return seg{"<%= for (g) in groupBy(2, [1, 2, 3]) { %>{<%= for (x) in g { %><%= x %><% if (x == 1) { %>!<% break %><% } %><% } %>}<% } %>", "{1!}{3}"}
				}
				return seg{"<% n = n %>", ""}
			case 10:
				return seg{"<% s + \"x\" %>", ""}
			case 11:
				if e.Rng.Intn(2) == 0 {
					return seg{"<%# it's the user's note, isn't it %>", ""}
				}
				return seg{"<%# a comment %> with %> text <% %>", ""}
			case 12:
				return seg{"<% if (true) { %>never shown<% } %>", ""}
			default:
				return seg{"<% for (x) in [1,2] { %>never<% } %>", ""}
			}
		}
		wrappers := []struct{ pre, post, wpre, wpost string }{
			{"", "", "", ""},
			{"<%= if (true) { %>", "<% } %>", "", ""},
			{"<%= for (z) in [1] { %>", "<% } %>", "", ""},
			{"<% let fw = fn() { %>", "<% } %><%= fw() %>", "", ""},
			{"<%= blk() { %>", "<% } %>", "[", "]"},
		}
		n := 700
		if e.Thorough() {
			n = 15000
		}
		for i := 0; i < n; i++ {
			k := 1 + e.Rng.Intn(6)
			var src, want strings.Builder
			for j := 0; j < k; j++ {
				s := mk()
				if strings.HasPrefix(s.src, "<%#") && !strings.Contains(s.src, "'") {
					// a comment tag swallows everything up to the next %>: keep it self-contained
					s = seg{"<%# a comment %>", ""}
				}
				// two adjacent text segments must not spell a tag opener or an escape between them
				if cur := src.String(); !strings.HasPrefix(s.src, "<%") && len(cur) > 0 && len(s.src) > 0 {
					if joint := cur[len(cur)-1:] + s.src[:1]; joint == "<%" || joint == "\\<" || cur[len(cur)-1] == '\\' {
						continue
					}
				}
				src.WriteString(s.src)
				want.WriteString(s.want)
			}
			w := wrappers[e.Rng.Intn(len(wrappers))]
			tmpl := w.pre + src.String() + w.post
			c := RCase{Tmpl: tmpl, Binds: []Bind{{"n", vInt(3)}, {"s", vStr("v&")}, {"ap", vStr("it's")}, {"blk", vGo(103)}}}
			o := e.addRenderCase("mix", c)
			exp := w.wpre + want.String() + w.wpost
			e.Distinct("m/" + tmpl)
			if o.Class != "OK" || o.Out != exp {
				e.Violate("c02-concat", fmt.Sprintf("%q rendered %q (%s %s), want %q", tmpl, o.Out, o.Class, o.Msg, exp), map[string]interface{}{"case": c, "observed": o})
			}
		}
		// literal text spelled exactly like a token, alone between two tags, at top level and in every block
		for _, w := range wrappers {
			for _, t := range []string{"%>", "\\<%", "}", "{", "{ %>", ";", "else", "else {", "<", "%", ">", "=", "#", "<% ", "( )", "\\<%=", "\\<%#", "%>%>", "\\<%\\<%"} {
				if strings.Contains(t, "<% ") {
					continue // would open a real tag
				}
				out, _, _ := refText(t)
				for _, form := range []string{"<%= 1 %>T<%= 2 %>", "<% let q = 1 %>T<% q = 2 %>", "T<%= 1 %>T", "<%= 1 %>T"} {
					tmpl := w.pre + strings.ReplaceAll(form, "T", t) + w.post
					exp := strings.ReplaceAll(strings.ReplaceAll(strings.ReplaceAll(strings.ReplaceAll(form, "<%= 1 %>", "1"), "<%= 2 %>", "2"), "<% let q = 1 %>", ""), "<% q = 2 %>", "")
					exp = w.wpre + strings.ReplaceAll(exp, "T", out) + w.wpost
					c := RCase{Tmpl: tmpl, Binds: []Bind{{"blk", vGo(103)}}}
					o := e.addRenderCase("tokenlike", c)
					e.Distinct("k/" + tmpl)
					if o.Class != "OK" || o.Out != exp {
						e.Violate("c02-concat", fmt.Sprintf("%q rendered %q (%s %s), want %q", tmpl, o.Out, o.Class, o.Msg, exp), map[string]interface{}{"case": c, "observed": o})
					}
				}
			}
		}
		// both escapes in ONE literal segment (an escaped opener, later a backslash + live tag)
		for _, w := range wrappers {
			for _, t := range [][2]string{
				{"\\<%\\\\<%= 7 %>", "<%\\7"}, {"a\\<%b\\<%c\\\\<%= 1 %>d\\<%", "a<%b<%c\\1d<%"}, {"\\\\<%= 1 %>\\<%\\\\<%= 2 %>", "\\1<%\\2"},
				{"x\\<% y \\\\<% let q = 1 %>z\\<%", "x<% y \\z<%"}, {"\\<%\\<%\\\\<%= 3 %>\\\\<%= 4 %>", "<%<%\\3\\4"},
			} {
				tmpl := w.pre + t[0] + w.post
				exp := w.wpre + t[1] + w.wpost
				c := RCase{Tmpl: tmpl, Binds: []Bind{{"blk", vGo(103)}}}
				o := e.addRenderCase("both-escapes", c)
				e.Distinct("b/" + tmpl)
				if o.Class != "OK" || o.Out != exp {
					e.Violate("c02-concat", fmt.Sprintf("%q rendered %q (%s %s), want %q", tmpl, o.Out, o.Class, o.Msg, exp), map[string]interface{}{"case": c, "observed": o})
				}
			}
		}
		// a silent tag producing HTML inside a block (F6)
		for _, tmpl := range []string{`<%= if (true) { %>a<% raw("<b>") %>c<% } %>`, `<%= for (x) in [1] { %>a<% mkhtml("<b>") %>c<% } %>`} {
			c := RCase{Tmpl: tmpl, Binds: []Bind{{"mkhtml", vGo(102)}}}
			o := e.addRenderCase("silenthtml", c)
			if o.Class != "OK" || o.Out != "ac" {
				e.Violate("c02-silent-html-in-block", fmt.Sprintf("%q rendered %q: a silent <%% %%> tag contributed output inside a block", tmpl, o.Out), map[string]interface{}{"case": c, "observed": o})
			}
		}
	})
}
