package main

import (
	"context"
	"fmt"
	"os"
	"os/exec"
	"strings"
	"sync"
	"sync/atomic"
	"time"

	"github.com/gobuffalo/plush/v5"
)

// ---- C14: concurrent use (run under the race detector) ---------------------

var c14templates = []string{
	`<p><%= name %></p>`,
	`<% let a = [1,2,3] %><%= for (i,x) in a { %><%= i %>:<%= x %>,<% } %>`,
	`<%= if (n == 1) { %>one<% } else if (n == 2) { %>two<% } else { %>many<% } %>`,
	`<% let f = fn(x) { return x + 1 } %><%= f(n) %>`,
	`<% let h = {a: 1, b: "x"} %><%= h["a"] %><%= h["b"] %>`,
	`<%= for (v) in range(1, 4) { %><%= v * n %> <% } %>`,
	`<%= partial("p.html", {who: name}) %>`,
	`<% contentFor("c") { %><b><%= name %></b><% } %><%= contentOf("c") %>`,
	`<%= truncate(name + " is long", {size: 6}) %>|<%= len(items) %>`,
	`<%= for (k, v) in items { %><%= k %>=<%= v %>;<% } %><%= items[0] %>`,
	`<% let s = "" %><% for (x) in items { %><% s = s + x %><% } %><%= s %>`,
	`<%= raw("<i>") %><%= "<i>" %><%= n + 1 %><%= !missing %>`,
	`<%= name ~= "^g0" %><%= name ~= "1$" %><%= "ZAZ" ~= "A" %><%= "ZAZ" ~= "^A" %>`,
	`<%= for (x) in items { %><%= x ~= "a" %><%= x ~= "[0-9]" %>,<% } %>`,
	// a pattern never seen before in every execution (compiled for the first time while others run)
	`<%= name ~= pat %>|<%= "zz" ~= pat %>|<%= for (x) in items { %><%= x ~= pat %><% } %>`,
	// array and hash literals made of constants only, changed in place and grown by every execution
	`<% let a = [1, 2, 3] %><% a = a + n %><% a[0] = n %><%= a[0] %>,<%= a[3] %>,<%= len(a) %>`,
	`<% let a = [1, 2, 3, 4, 5] %><%= for (i) in [0, 1, 2] { %><% a[i] = a[i] + n %><% } %><% a = a + name %><%= a %>`,
	`<% let h = {"k": 1, "j": "x"} %><% h["k"] = n %><% h[name] = n %><%= h["k"] %><%= len(h) %>`,
	// plain assignment to a variable that lives in the shared parent: the execution's own business
	`<% shared = shared + name %><%= shared %>|<% counter = counter + n + 1 %><%= counter %>`,
	`<% let bump = fn() { counter = counter + 10
 return counter } %><%= bump() %>,<%= bump() %>|<%= for (i) in [1, 2] { %><% counter = counter + i %><%= counter %>;<% } %>`,
	// a slice with spare capacity held by the shared parent: every execution appends to it
	`<% let ys = sharedxs + name %><% let zs = sharedxs + n %><%= ys[2] %>|<%= zs[2] %>|<%= len(sharedxs) %>`,
	// a helper that fills defaults into the options map it is given, called WITHOUT options
	`<%= tagopt(name) %>|<%= tagopt("x" + name) %>|<%= tagopt(name, {id: "mine"}) %>`,
}

var c14patCtr int64

func c14ctx(parent *plush.Context, g int) *plush.Context {
	var c *plush.Context
	if parent != nil {
		c = parent.New().(*plush.Context)
	} else {
		c = plush.NewContext()
		c.Set("partialFeeder", func(string) (string, error) { return `[<%= who %>]`, nil })
	}
	c.Set("tagopt", func(name string, opts map[string]interface{}) string {
		if _, ok := opts["id"]; !ok {
			opts["id"] = name + "-field"
		}
		return fmt.Sprint(opts["id"])
	})
	c.Set("name", fmt.Sprintf("g%d", g%3))
	c.Set("pat", fmt.Sprintf("^g%d$|^never%d$", g%3, atomic.AddInt64(&c14patCtr, 1)))
	c.Set("n", g%4)
	c.Set("items", []string{"a", "b", fmt.Sprint(g % 2)})
	return c
}

// witness (run in a process of its own, so that its race reports stay apart): a view executed
// once on a parent context stores a contentFor block there; children of that parent then replay
// it concurrently with their own data. Returns "ok" or a description of the first wrong result.
func c14ContentForSharedParent() string {
	parent := plush.NewContext()
	view, err := plush.Parse(`<% contentFor("x") { %>[<%= name %>|<%= name %>|<%= name %>]<% } %>`)
	if err != nil {
		return "parse: " + err.Error()
	}
	if _, err := view.Exec(parent); err != nil {
		return "view: " + err.Error()
	}
	replay, err := plush.Parse(`<%= contentOf("x", {"name": me}) %>`)
	if err != nil {
		return "parse: " + err.Error()
	}
	const G, iters = 8, 400
	bad := make(chan string, G)
	var wg sync.WaitGroup
	for g := 0; g < G; g++ {
		wg.Add(1)
		go func(g int) {
			defer wg.Done()
			defer func() {
				if r := recover(); r != nil {
					bad <- fmt.Sprintf("goroutine %d panicked: %v", g, r)
				}
			}()
			me := fmt.Sprintf("g%d", g)
			want := "[" + me + "|" + me + "|" + me + "]"
			for i := 0; i < iters; i++ {
				c := parent.New()
				c.Set("me", me)
				s, err := replay.Exec(c)
				if err != nil {
					s = "ERR:" + err.Error()
				}
				if s != want {
					bad <- fmt.Sprintf("goroutine %d got %q, alone it gets %q", g, s, want)
					return
				}
			}
		}(g)
	}
	wg.Wait()
	select {
	case b := <-bad:
		return b
	default:
	}
	// a stored block that FAILS when it is replayed, from several goroutines at once: every replay
	// reports the error (and the race detector must stay quiet)
	failing, err := plush.Parse(`<% contentFor("f") { %>a<%= boom.Name() %>b<% } %>`)
	if err != nil {
		return "parse: " + err.Error()
	}
	parent.Set("boom", T0{"x"})
	if _, err := failing.Exec(parent); err != nil {
		return "failing view: " + err.Error()
	}
	parent.Set("boom", 7)
	rf, err := plush.Parse(`x<%= contentOf("f") %>y`)
	if err != nil {
		return "parse: " + err.Error()
	}
	for g := 0; g < G; g++ {
		wg.Add(1)
		go func(g int) {
			defer wg.Done()
			defer func() {
				if r := recover(); r != nil {
					bad <- fmt.Sprintf("goroutine %d panicked: %v", g, r)
				}
			}()
			for i := 0; i < iters/4; i++ {
				s, err := rf.Exec(parent.New())
				if err == nil || s != "" {
					bad <- fmt.Sprintf("goroutine %d: replay of a failing block gave %q, %v", g, s, err)
					return
				}
			}
		}(g)
	}
	wg.Wait()
	select {
	case b := <-bad:
		return b
	default:
		return "ok"
	}
}

// wait for a group of goroutines, but not for ever: a group that does not come back within the
// time limit is a deadlock (or a lost wake-up); the run ends there with what was found so far
func c14wait(e *Env, wg *sync.WaitGroup) {
	done := make(chan struct{})
	go func() { wg.Wait(); close(done) }()
	limit := 60 * time.Second
	if e.Thorough() {
		limit = 240 * time.Second
	}
	select {
	case <-done:
	case <-time.After(limit):
		e.Violate("c14-deadlock", fmt.Sprintf("a group of goroutines did not finish within %v: deadlock", limit), map[string]string{"after": fmt.Sprint(e.rep.Distribution)})
		e.finish()
		os.Exit(0)
	}
}

func init() {
	register("C14", func(e *Env) {
		e.rep.Rule = "race-detector runs: (a) 2-32 goroutines mixing Set/Value/Has/New on one context; (b) one parsed template (direct, Clone and cache-served) executed from 2-32 goroutines with own root contexts or children of one shared parent, every result compared with the sequential one; (b2) a view template storing a contentFor block and a layout template replaying it, executed one after the other on one context by every goroutine; (c) concurrent Parse/Render/CacheSet with the cache enabled; non-trivial = a goroutine group that ran to completion; distinct by (workload, template, goroutines, context mode, cache mode)"
		gs := []int{2, 4, 8}
		iters := 200
		if e.Thorough() {
			gs = []int{2, 3, 4, 8, 16, 32}
			iters = 1500
		}
		// (a) reader/writer mixes on one context
		for _, G := range gs {
			shared := plush.NewContext()
			var wg sync.WaitGroup
			for g := 0; g < G; g++ {
				wg.Add(1)
				seed := e.Rng.Next()
				go func(g int, seed uint64) {
					defer wg.Done()
					r := NewRng(seed)
					keys := []string{"a", "b", "len", "k" + fmt.Sprint(g)}
					for i := 0; i < iters; i++ {
						k := keys[r.Intn(len(keys))]
						switch r.Intn(4) {
						case 0:
							shared.Set(k, i)
						case 1:
							_ = shared.Value(k)
						case 2:
							_ = shared.Has(k)
						default:
							c := shared.New()
							c.Set(k, i)
							_ = c.Value("a")
						}
					}
				}(g, seed)
			}
			c14wait(e, &wg)
			e.rep.Evaluations += G
			e.Count("ctxmix")
			e.Distinct(fmt.Sprintf("ctxmix/%d", G))
		}
		// (b) shared template, separate contexts
		for _, cache := range []bool{false, true} {
			plush.CacheEnabled = cache
			for ti, src := range c14templates {
				for _, mode := range []string{"ownroot", "sharedparent"} {
					for _, G := range gs {
						t, err := plush.Parse(src)
						if err != nil {
							e.Violate("c14-parse", "template does not parse: "+err.Error(), src)
							continue
						}
						var parent *plush.Context
						if mode == "sharedparent" {
							parent = plush.NewContext()
							parent.Set("partialFeeder", func(string) (string, error) { return `[<%= who %>]`, nil })
							parent.Set("shared", "S")
							parent.Set("counter", 100)
							xs := make([]interface{}, 2, 16)
							xs[0], xs[1] = "x0", "x1"
							parent.Set("sharedxs", xs)
						}
						// sequential reference
						want := make([]string, G)
						for g := 0; g < G; g++ {
							s, err := t.Exec(c14ctx(parent, g))
							if err != nil {
								s = "ERR:" + err.Error()
							}
							want[g] = s
						}
						got := make([]string, G)
						var wg sync.WaitGroup
						for g := 0; g < G; g++ {
							wg.Add(1)
							go func(g int) {
								defer wg.Done()
								tt := t
								if g%3 == 1 {
									tt = t.Clone()
								} else if g%3 == 2 {
									if p, err := plush.Parse(src); err == nil {
										tt = p
									}
								}
								for rep := 0; rep < 3; rep++ {
									s, err := tt.Exec(c14ctx(parent, g))
									if err != nil {
										s = "ERR:" + err.Error()
									}
									got[g] = s
								}
							}(g)
						}
						c14wait(e, &wg)
						e.rep.Evaluations += G
						e.Count("exec-" + mode)
						e.Distinct(fmt.Sprintf("exec/%d/%s/%d/%v", ti, mode, G, cache))
						for g := 0; g < G; g++ {
							// where the result has a closed form it is checked absolutely: a fault shared by the
							// sequential and the concurrent run would otherwise cancel out
							if strings.Contains(src, "tagopt(") {
								if abs := fmt.Sprintf("g%d-field|xg%d-field|mine", g%3, g%3); want[g] != abs {
									e.Violate("c14-output-differs", fmt.Sprintf("template %q goroutine %d (%s, cache=%v): run alone it gives %q, its data says %q", src, g, mode, cache, want[g], abs), map[string]interface{}{"template": src, "mode": mode, "cache": cache})
									break
								}
							}
							if strings.HasPrefix(src, "<% shared = shared + name %>") && mode == "sharedparent" {
								if abs := fmt.Sprintf("Sg%d|%d", g%3, 100+g%4+1); want[g] != abs {
									e.Violate("c14-output-differs", fmt.Sprintf("template %q goroutine %d (%s, cache=%v): run alone it gives %q, its data says %q", src, g, mode, cache, want[g], abs), map[string]interface{}{"template": src, "mode": mode, "cache": cache})
									break
								}
							}
							if got[g] != want[g] {
								e.Violate("c14-output-differs", fmt.Sprintf("template %q goroutine %d of %d (%s, cache=%v): concurrent result %q, alone %q", src, g, G, mode, cache, got[g], want[g]), map[string]interface{}{"template": src, "goroutines": G, "mode": mode, "cache": cache})
							}
						}
						if ti == 1 && G == gs[0] {
							e.Sample(map[string]interface{}{"template": src, "goroutines": G, "mode": mode, "cache": cache, "results": got})
						}
					}
				}
			}
		}
		// (b3) a contentFor block stored in a shared parent by an earlier execution, replayed concurrently
		// from children of that parent (recorded finding: the stored block keeps the finished
		// execution's evaluator, whose scope pointer every replay swaps)
		{
			cctx, cancel := context.WithTimeout(context.Background(), 120*time.Second)
			cmd := exec.CommandContext(cctx, os.Args[0], "-prop", "C14", "-witness", "cfshared")
			out, _ := cmd.CombinedOutput()
			timedOut := cctx.Err() == context.DeadlineExceeded
			cancel()
			res := strings.TrimSpace(string(out))
			if timedOut {
				res = "the replays did not finish within 120s: deadlock"
			}
			if i := strings.LastIndex(res, "\n"); i >= 0 {
				res = res[i+1:]
			}
			e.rep.Evaluations++
			e.Count("contentfor-shared-parent")
			if res != "ok" {
				e.Violate("c14-contentfor-closure-shared-parent", "a contentFor block stored in a shared parent context and replayed concurrently from its children: "+res, map[string]string{"result": res})
			}
		}
		// (b2) two templates executed one after the other on the SAME context by each goroutine
		// (a view that stores a contentFor block, then a layout that replays it): what the first
		// Exec left in the context is used by the second, while other goroutines do the same
		{
			view, err1 := plush.Parse(`<% contentFor("side") { %><%= name %>:<%= for (x) in items { %><%= x %><% } %><% } %>v<%= n %>`)
			layout, err2 := plush.Parse(`[<%= contentOf("side") %>|<%= contentOf("side", {name: "over"}) %>|<%= name %>]`)
			if err1 != nil || err2 != nil {
				e.Violate("c14-parse", "view/layout templates do not parse", nil)
			} else {
				for _, mode := range []string{"ownroot", "sharedparent"} {
					for _, G := range gs {
						var parent *plush.Context
						if mode == "sharedparent" {
							parent = plush.NewContext()
							parent.Set("shared", "S")
						}
						two := func(g int) string {
							c := c14ctx(parent, g)
							a, err := view.Exec(c)
							if err != nil {
								a = "ERR:" + err.Error()
							}
							b, err := layout.Exec(c)
							if err != nil {
								b = "ERR:" + err.Error()
							}
							return a + "/" + b
						}
						want := make([]string, G)
						for g := 0; g < G; g++ {
							want[g] = two(g)
						}
						got := make([]string, G)
						var wg sync.WaitGroup
						for g := 0; g < G; g++ {
							wg.Add(1)
							go func(g int) {
								defer wg.Done()
								defer func() {
									if r := recover(); r != nil {
										got[g] = fmt.Sprintf("PANIC %v", r)
									}
								}()
								for rep := 0; rep < 40; rep++ {
									got[g] = two(g)
									if got[g] != want[g] {
										return
									}
								}
							}(g)
						}
						c14wait(e, &wg)
						e.rep.Evaluations += G
						e.Count("view-then-layout-" + mode)
						e.Distinct(fmt.Sprintf("viewlayout/%s/%d", mode, G))
						for g := 0; g < G; g++ {
							if got[g] != want[g] {
								e.Violate("c14-output-differs", fmt.Sprintf("view then layout on one context, goroutine %d of %d (%s): concurrent result %q, alone %q", g, G, mode, got[g], want[g]), map[string]interface{}{"goroutines": G, "mode": mode})
								break
							}
						}
					}
				}
			}
		}
		// (c) concurrent Parse / Render / CacheSet with the cache enabled
		plush.CacheEnabled = true
		for _, G := range gs {
			var wg sync.WaitGroup
			for g := 0; g < G; g++ {
				wg.Add(1)
				go func(g int) {
					defer wg.Done()
					for i := 0; i < iters/4; i++ {
						src := c14templates[(g+i)%len(c14templates)]
						switch i % 3 {
						case 0:
							_, _ = plush.Parse(src)
						case 1:
							_, _ = plush.Render(src, c14ctx(nil, g))
						default:
							if t, err := plush.NewTemplate(src); err == nil {
								plush.CacheSet(fmt.Sprintf("k%d", i%5), t)
							}
						}
					}
				}(g)
			}
			c14wait(e, &wg)
			e.rep.Evaluations += G
			e.Count("cache")
			e.Distinct(fmt.Sprintf("cache/%d", G))
		}
		// (c2) a COLD cache: every goroutine parses and executes the same, never seen, large input at the
		// same moment (start barrier); each must get the output a lone Render gives, and a template
		// that one goroutine is executing must not be written by another (race detector)
		{
			rounds := 4
			if e.Thorough() {
				rounds = 20
			}
			for round := 0; round < rounds; round++ {
				for _, G := range []int{4, 16} {
					var sb, want strings.Builder
					fmt.Fprintf(&sb, "<%% let r = %d %%>", round*100+G)
					for i := 0; i < 400; i++ {
						fmt.Fprintf(&sb, "<p><%%= r + %d %%>|<%%= if (n == %d) { %%>y<%% } else { %%>n<%% } %%></p>\n", i, i)
						fmt.Fprintf(&want, "<p>%d|%s</p>\n", round*100+G+i, map[bool]string{true: "y", false: "n"}[i == 7])
					}
					input := sb.String()
					outs := make([]string, G)
					errs := make([]error, G)
					start := make(chan struct{})
					var wg sync.WaitGroup
					for g := 0; g < G; g++ {
						wg.Add(1)
						go func(g int) {
							defer wg.Done()
							defer func() {
								if r := recover(); r != nil {
									errs[g] = fmt.Errorf("panic: %v", r)
								}
							}()
							<-start
							t, err := plush.Parse(input)
							if err != nil {
								errs[g] = err
								return
							}
							ctx := plush.NewContext()
							ctx.Set("n", 7)
							outs[g], errs[g] = t.Exec(ctx)
						}(g)
					}
					close(start)
					c14wait(e, &wg)
					e.rep.Evaluations += G
					e.Count("cold-cache")
					e.Distinct(fmt.Sprintf("cold/%d/%d", round, G))
					for g := 0; g < G; g++ {
						if errs[g] != nil || outs[g] != want.String() {
							e.Violate("c14-output-differs", fmt.Sprintf("cold cache, goroutine %d of %d: Parse+Exec of one new input gave error %v / an output of %d bytes that differs from the lone rendering (%d bytes)", g, G, errs[g], len(outs[g]), want.Len()), map[string]interface{}{"goroutines": G, "round": round})
							break
						}
					}
				}
			}
		}
		// (b3) one parsed template, never executed before, executed by all goroutines at once with data that
		// DIFFERS per goroutine (outputs of very different sizes, most longer than the source): executing
		// a shared template only reads it; the expected outputs are computed without running it
		for round := 0; round < 4; round++ {
			for _, G := range []int{4, 16} {
				src := fmt.Sprintf("<ul r=\"%d-%d\"><%%= for (x) in items { %%><li><%%= x %%></li><%% } %%></ul>", round, G)
				var t *plush.Template
				var err error
				switch round % 3 {
				case 0:
					t, err = plush.NewTemplate(src)
				case 1:
					plush.CacheEnabled = true
					t, err = plush.Parse(src)
				default:
					t, err = plush.NewTemplate(src)
					if err == nil {
						t = t.Clone()
					}
				}
				if err != nil {
					e.Violate("c14-output-differs", fmt.Sprintf("%s does not parse: %v", src, err), nil)
					continue
				}
				outs := make([]string, G)
				wants := make([]string, G)
				errs := make([]error, G)
				start := make(chan struct{})
				var wg sync.WaitGroup
				for g := 0; g < G; g++ {
					items := []string{}
					var w strings.Builder
					fmt.Fprintf(&w, "<ul r=\"%d-%d\">", round, G)
					for i := 0; i < 1+g*9; i++ {
						items = append(items, fmt.Sprintf("item-%d-%d", g, i))
						fmt.Fprintf(&w, "<li>item-%d-%d</li>", g, i)
					}
					w.WriteString("</ul>")
					wants[g] = w.String()
					wg.Add(1)
					go func(g int, items []string) {
						defer wg.Done()
						ctx := plush.NewContext()
						ctx.Set("items", items)
						<-start
						for rep := 0; rep < 3; rep++ {
							outs[g], errs[g] = t.Exec(ctx)
						}
					}(g, items)
				}
				close(start)
				c14wait(e, &wg)
				e.rep.Evaluations += G
				e.Count("first-executions-differing-data")
				e.Distinct(fmt.Sprintf("firstexec/%d/%d", round, G))
				for g := 0; g < G; g++ {
					if errs[g] != nil || outs[g] != wants[g] {
						e.Violate("c14-output-differs", fmt.Sprintf("shared template first executed by %d goroutines at once with different data: goroutine %d got %d bytes (%v), want %d bytes", G, g, len(outs[g]), errs[g], len(wants[g])), map[string]interface{}{"goroutines": G, "tmpl": src})
						break
					}
				}
			}
		}
		plush.CacheEnabled = true
		// (d) a global helper registered (sequentially) just before many goroutines build contexts - own roots,
		// children of one shared parent - and execute a template that calls it: every one of them sees it
		for round := 0; round < 12; round++ {
			name := fmt.Sprintf("c14added%d", round)
			parent := plush.NewContext() // the shared parent exists before the helper does
			if err := plush.Helpers.Add(name, func() string { return "ok" }); err != nil {
				e.Violate("c14-output-differs", fmt.Sprintf("Helpers.Add(%s): %v", name, err), nil)
				continue
			}
			t, err := plush.NewTemplate("<%= " + name + "() %><%= for (i) in [1] { %><%= " + name + "() %><% } %>")
			if err != nil {
				continue
			}
			G := []int{4, 16}[round%2]
			outs := make([]string, G)
			errs := make([]error, G)
			start := make(chan struct{})
			var wg sync.WaitGroup
			for g := 0; g < G; g++ {
				wg.Add(1)
				go func(g int) {
					defer wg.Done()
					<-start
					if g%2 == 0 {
						outs[g], errs[g] = t.Exec(plush.NewContext())
					} else {
						outs[g], errs[g] = t.Exec(parent.New())
					}
				}(g)
			}
			close(start)
			c14wait(e, &wg)
			e.rep.Evaluations += G
			e.Count("helper-added-before")
			e.Distinct(fmt.Sprintf("added/%d", round))
			for g := 0; g < G; g++ {
				if errs[g] != nil || outs[g] != "okok" {
					e.Violate("c14-output-differs", fmt.Sprintf("a helper registered before %d goroutines built their contexts: goroutine %d got %q, %v; alone \"okok\"", G, g, outs[g], errs[g]), map[string]interface{}{"goroutines": G})
					break
				}
			}
		}
		// (e) a partial that includes itself, rendered with the cache ON (every level is handed the same cached
		// template while the outer execution of it is still running), by one goroutine and by many: it finishes,
		// and with the output of a lone rendering
		{
			plush.CacheEnabled = true
			feeder := func(name string) (string, error) {
				return map[string]string{"tree": "(<%= n %><%= if (n > 0) { %><%= partial(\"tree\", {n: n - 1}) %><% } %>)"}[name], nil
			}
			for _, G := range []int{1, 4, 16} {
				outs := make([]string, G)
				errs := make([]error, G)
				var wg sync.WaitGroup
				for g := 0; g < G; g++ {
					wg.Add(1)
					go func(g int) {
						defer wg.Done()
						ctx := plush.NewContext()
						ctx.Set("partialFeeder", feeder)
						outs[g], errs[g] = plush.Render("<%= partial(\"tree\", {n: 3}) %>", ctx)
					}(g)
				}
				c14wait(e, &wg)
				e.rep.Evaluations += G
				e.Count("recursive-partial-cached")
				e.Distinct(fmt.Sprintf("recpartial/%d", G))
				for g := 0; g < G; g++ {
					if errs[g] != nil || outs[g] != "(3(2(1(0))))" {
						e.Violate("c14-output-differs", fmt.Sprintf("a partial that includes itself, cache on, %d goroutines: goroutine %d got %q, %v; alone \"(3(2(1(0))))\"", G, g, outs[g], errs[g]), map[string]interface{}{"goroutines": G})
						break
					}
				}
			}
		}
		// (f) a template FUNCTION defined once in a shared parent context (a prelude rendered there) and called -
		// recursively - by many goroutines executing one template in children of that parent
		{
			parent := plush.NewContext()
			if _, err := plush.Render(`<% let down = fn(n) { if (n == 0) { return "bottom" } return down(n - 1) } %><% let twice = fn(s) { return s + s } %>`, parent); err != nil {
				e.Violate("c14-output-differs", fmt.Sprintf("prelude: %v", err), nil)
			}
			t, err := plush.NewTemplate(`<%= down(60) %>|<%= twice("ab") %>|<%= for (i) in [1, 2] { %><%= down(i) %><% } %>`)
			if err == nil {
				for _, G := range []int{4, 16} {
					outs := make([]string, G)
					errs := make([]error, G)
					start := make(chan struct{})
					var wg sync.WaitGroup
					for g := 0; g < G; g++ {
						wg.Add(1)
						go func(g int) {
							defer wg.Done()
							<-start
							for rep := 0; rep < 5; rep++ {
								outs[g], errs[g] = t.Exec(parent.New())
							}
						}(g)
					}
					close(start)
					c14wait(e, &wg)
					e.rep.Evaluations += G
					e.Count("shared-template-function")
					e.Distinct(fmt.Sprintf("sharedfn/%d", G))
					for g := 0; g < G; g++ {
						if errs[g] != nil || outs[g] != "bottom|abab|bottombottom" {
							e.Violate("c14-output-differs", fmt.Sprintf("a function defined in a shared parent, called from %d goroutines: goroutine %d got %q, %v", G, g, outs[g], errs[g]), map[string]interface{}{"goroutines": G})
							break
						}
					}
				}
			}
		}
		// (c3) a Template built as a literal is parsed by its first Exec: all goroutines make that first
		// call (and Clone it) at the same moment
		for round := 0; round < 6; round++ {
			for _, G := range []int{4, 16} {
				src := fmt.Sprintf("<%%= for (x) in [1, 2, 3] { %%><%%= x + %d %%>,<%% } %%>", round)
				want := fmt.Sprintf("%d,%d,%d,", 1+round, 2+round, 3+round)
				t := &plush.Template{Input: src}
				outs := make([]string, G)
				errs := make([]error, G)
				start := make(chan struct{})
				var wg sync.WaitGroup
				for g := 0; g < G; g++ {
					wg.Add(1)
					go func(g int) {
						defer wg.Done()
						<-start
						if g%4 == 3 {
							outs[g], errs[g] = t.Clone().Exec(plush.NewContext())
							return
						}
						outs[g], errs[g] = t.Exec(plush.NewContext())
					}(g)
				}
				close(start)
				c14wait(e, &wg)
				e.rep.Evaluations += G
				e.Count("lazy-parse")
				e.Distinct(fmt.Sprintf("lazy/%d/%d", round, G))
				for g := 0; g < G; g++ {
					if errs[g] != nil || outs[g] != want {
						e.Violate("c14-output-differs", fmt.Sprintf("template literal executed for the first time by %d goroutines at once: goroutine %d got %q, %v; alone %q", G, g, outs[g], errs[g], want), map[string]interface{}{"goroutines": G, "tmpl": src})
						break
					}
				}
			}
		}
		plush.CacheEnabled = false
	})
}
