package main

import (
	"context"
	"fmt"
	"github.com/gobuffalo/plush/v5"
	"html/template"
	"strings"
	"time"
)

// ---- C17: partial / layout / contentFor / block helpers = inline rendering -------------

// inline rendering of a body in a child scope of the standard context extended
// with data (the "equivalent scope")
func inline17(body string, data []Bind, parts map[string]string) (string, string) {
	binds := append(append([]Bind{}, c17binds()...), data...)
	o := runRender(RCase{Tmpl: body, Binds: binds, Parts: parts})
	return o.Out, o.Class
}

func c17binds() []Bind {
	return []Bind{{"s", vStr("a<b")}, {"n", vInt(3)}, {"xs", vSlice("iface", vInt(1), vStr("<2>"))}, {"t", vBool(true)}, {"h", vHTML("<i>")},
		{"blk", vGo(103)}, {"blk2", vGo(104)}, {"blkctx", vGo(105)}}
}

func dataSrc(data []Bind) string {
	var xs []string
	for _, b := range data {
		switch b.V.K {
		case "str":
			xs = append(xs, fmt.Sprintf("%s: %q", b.Name, b.V.S))
		case "int":
			xs = append(xs, fmt.Sprintf("%s: %d", b.Name, b.V.I))
		}
	}
	return "{" + strings.Join(xs, ", ") + "}"
}

func init() {
	register("C17", func(e *Env) {
		renderPrelude()
		e.perShard = 40
		e.rep.Rule = "generated bodies (text, output tags of strings / HTML / numbers, loops, conditionals, let, nested partials to depth 3) x data maps x {no layout, layout, nested layout} x {content type unset, text/html, application/javascript} x partial names with .js / .html / no extension; contentFor/contentOf with 0..3 uses, data, default blocks and missing names; block helpers calling their block once, twice, or with their own context; time values whose printed form depends on TIME_FORMAT in the scope of the block / partial (Go-only); each compared with rendering the same source inline in the equivalent scope (a second run of the real engine), and re-evaluated by the model; distinct by template"
		bodies := []string{"plain <b>text</b>", "[<%= who %>]", "<%= s %>|<%= h %>|<%= n + 1 %>", "<%= for (x) in xs { %>(<%= x %>)<% } %>", "<%= if (t) { %>yes <%= who %><% } else { %>no<% } %>",
			"<% let q = who + \"!\" %><%= q %>", "<%= raw(who) %>", "\"quoted\" 'single' \\ back", "line1\nline2 </script>", "<%= partial(\"leaf\", {who: who + \"+\"}) %>",
			"<%= partial(\"mid\", {who: \"m\"}) %>", "<%= for (x) in xs { %><%= partial(\"leaf\", {who: x}) %><% } %>"}
		fixedParts := map[string]string{"leaf": "<leaf:<%= who %>>", "mid": "{<%= partial(\"leaf\", {who: who}) %>}", "lay": "<L><%= yield %></L>", "lay2": "<%= partial(\"leaf\", {who: \"in-layout\"}) %>{{<%= yield %>}}", "laylay": "<O><%= yield %></O>"}
		datas := [][]Bind{{{"who", vStr("W<")}}, {{"who", vStr("x")}, {"extra", vInt(5)}}, {{"who", vStr("")}}}
		n := 0
		for bi, body := range bodies {
			for _, data := range datas {
				for _, name := range []string{"p", "p.html", "p.js", "dir.v1/p", "p.md"} {
					for _, ct := range []string{"", "text/html", "application/javascript"} {
						for _, layout := range []string{"", "lay", "lay2"} {
							n++
							if !e.Thorough() && (n+bi)%5 != 0 {
								continue
							}
							parts := map[string]string{name: body}
							for k, v := range fixedParts {
								parts[k] = v
							}
							binds := c17binds()
							if ct != "" {
								binds = append(binds, Bind{"contentType", vStr(ct)})
							}
							d := append([]Bind{}, data...)
							if layout != "" {
								d = append(d, Bind{"layout", vStr(layout)})
							}
							tmpl := fmt.Sprintf("A<%%= partial(%q, %s) %%>B", name, dataSrc(d))
							c := RCase{Tmpl: tmpl, Binds: binds, Parts: parts}
							o := e.addRenderCase("partial", c)
							// inline twin: the body rendered in the child scope (+ data), JS-escaped when the
							// content type says javascript and the extension is neither .js nor empty
							ibinds := append([]Bind{}, d...)
							if ct != "" {
								ibinds = append(ibinds, Bind{"contentType", vStr(ct)})
							}
							in, cls := inline17(body, ibinds, parts)
							esc := func(s, nm string) string {
								ext := ""
								if i := strings.LastIndex(nm, "."); i >= 0 && !strings.Contains(nm[i:], "/") {
									ext = nm[i:]
								}
								if strings.Contains(ct, "javascript") && ext != ".js" && ext != "" {
									return template.JSEscapeString(s)
								}
								return s
							}
							want := esc(in, name)
							if layout != "" && cls == "OK" {
								lb := append([]Bind{}, ibinds...)
								lb = append(lb, Bind{"yield", vHTML(want)})
								lin, lcls := inline17(fixedParts[layout], lb, parts)
								want, cls = esc(lin, layout), lcls
							}
							e.Distinct(tmpl + body)
							if cls == "OK" && (o.Class != "OK" || o.Out != "A"+want+"B") {
								e.Violate("c17-partial", fmt.Sprintf("%s with %s=%q: rendered %q (%s %s), inline rendering gives %q", tmpl, name, body, o.Out, o.Class, o.Msg, "A"+want+"B"), map[string]interface{}{"case": c, "observed": o})
							}
							if cls != "OK" && o.Class == "OK" {
								e.Violate("c17-partial", fmt.Sprintf("%s: inline rendering fails (%s) but the partial rendered %q", tmpl, cls, o.Out), map[string]interface{}{"case": c, "observed": o})
							}
						}
					}
				}
			}
		}
		// the default block of a contentOf of an undefined name is rendered where it stands and is NOT
		// stored: a later contentOf of the same name renders its own default, and fails without one
		for _, t := range [][2]string{
			{`<%= contentOf("title") { %>first <%= who %><% } %>|<%= contentOf("title", {who: "bob"}) { %>second <%= who %><% } %>`, "first amy|second bob"},
			{`<%= contentOf("side") { %>dflt<% } %><%= contentOf("side") %>`, "ERR"}, {`<%= contentOf("side") { %>d1<% } %>|<%= contentOf("side") { %>d2<% } %>|<%= contentOf("side") { %>d3<% } %>`, "d1|d2|d3"},
			{`<%= for (i) in [1, 2] { %><%= contentOf("row") { %>r<%= i %><% } %>,<% } %>`, "r1,r2,"}, {`<%= partial("navp", {layout: "navlay"}) %>`, "[laynav|P|footnav]"},
			{`<%= contentOf("late") { %>dflt<% } %><% contentFor("late") { %>stored<% } %>|<%= contentOf("late") { %>dflt2<% } %>`, "dflt|stored"},
			{`<%= if (true) { %><%= contentOf("inif") { %>a<% } %><% } %><%= contentOf("inif") { %>b<% } %>`, "ab"},
		} {
			c := RCase{Tmpl: t[0], Binds: append(c17binds(), Bind{"who", vStr("amy")}), Parts: map[string]string{"navp": `P|<%= contentOf("nav") { %>footnav<% } %>`, "navlay": `[<%= contentOf("nav") { %>laynav<% } %>|<%= yield %>]`}}
			o := e.addRenderCase("default-block-not-stored", c)
			e.Distinct(t[0])
			if (t[1] == "ERR") != (o.Class == "ERR") || (t[1] != "ERR" && o.Out != t[1]) {
				e.Violate("c17-content", fmt.Sprintf("%s rendered %q (%s %s), the inline form gives %q", t[0], o.Out, o.Class, firstLine(o.Msg), t[1]), map[string]interface{}{"case": c, "observed": o})
			}
		}
		// the same helper call site reached again in a FRESH scope within one execution (the body of an inner loop
		// on every pass of the outer one, a function called several times): partial, contentFor / contentOf, a
		// default block and a block helper render what the inline body renders there
		for _, t := range [][2]string{
			{`<%= for (x) in ["a", "b"] { %><%= for (y) in [1, 2, 3] { %>(<%= x %><%= y %>)<% } %><% } %>`, "(a1)(a2)(a3)(b1)(b2)(b3)"},
			{`<%= for (x) in ["a", "b"] { %><%= for (y) in [1, 2, 3] { %><%= partial("cell") %><% } %><% } %>`, "(a1)(a2)(a3)(b1)(b2)(b3)"},
			{`<%= for (x) in ["a", "b"] { %><%= for (y) in [1, 2, 3] { %><% contentFor("cc") { %>(<%= x %><%= y %>)<% } %><%= contentOf("cc") %><% } %><% } %>`, "(a1)(a2)(a3)(b1)(b2)(b3)"},
			{`<%= for (x) in ["a", "b"] { %><%= for (y) in [1, 2, 3] { %><%= contentOf("nodef17") { %>(<%= x %><%= y %>)<% } %><% } %><% } %>`, "(a1)(a2)(a3)(b1)(b2)(b3)"},
			{`<%= for (x) in ["a", "b"] { %><%= for (y) in [1, 2, 3] { %><%= blk() { %><%= x %><%= y %><% } %><% } %><% } %>`, "[a1][a2][a3][b1][b2][b3]"},
			{`<% let f = fn(x) { %><%= partial("cellx") %><%= blkctx({y: x}) { %><%= x %><%= y %><% } %><% } %><%= f("p") %>|<%= f("q") %>`, "<p>pp|<q>qq"},
		} {
			c := RCase{Tmpl: t[0], Binds: c17binds(), Parts: map[string]string{"cell": `(<%= x %><%= y %>)`, "cellx": `<<%= x %>>`}}
			o := e.addRenderCase("call-site-in-fresh-scope", c)
			e.Distinct(t[0])
			if o.Class != "OK" || o.Out != t[1] {
				e.Violate("c17-partial", fmt.Sprintf("%s rendered %q (%s %s), the inline form gives %q", t[0], o.Out, o.Class, firstLine(o.Msg), t[1]), map[string]interface{}{"case": c, "observed": o})
			}
		}
		// a data key (or a variable of the caller) named like a BUILT-IN helper, read two or more scopes below
		// where it was bound (a partial inside a partial, a loop inside a partial, a block of the partial
		// replayed by its layout): it is what the caller bound, as in the inline form
		for _, t := range [][2]string{
			{`<%= partial("h1", {raw: "R"}) %>`, "[R|R]"}, {`<%= partial("h3", {len: "L"}) %>`, "LL"}, {`<% let truncate = "T" %><%= partial("h4") %>`, "T/T"},
			{`<%= partial("h5", {raw: "R", layout: "hlay"}) %>`, "<R:in R>"}, {`<%= contentOf("nodef", {raw: "R"}) { %><%= for (i) in [1, 2] { %><%= raw %><% } %><% } %>`, "RR"},
			{`<% let len = "mine" %><%= for (i) in [1] { %><%= for (j) in [1] { %><%= partial("h6") %><% } %><% } %>`, "mine"},
		} {
			c := RCase{Tmpl: t[0], Binds: c17binds(), Parts: map[string]string{"h1": `[<%= raw %>|<%= partial("h2") %>]`, "h2": `<%= raw %>`, "h3": `<%= for (i) in [1, 2] { %><%= len %><% } %>`,
				"h4": `<%= truncate %>/<%= if (true) { %><%= for (i) in [1] { %><%= truncate %><% } %><% } %>`, "h5": `<% contentFor("hb") { %>in <%= raw %><% } %><%= raw %>`, "hlay": `<<%= yield %>:<%= contentOf("hb") %>>`, "h6": `<%= len %>`}}
			o := e.addRenderCase("helper-named-data", c)
			e.Distinct(t[0])
			if o.Class != "OK" || o.Out != t[1] {
				e.Violate("c17-partial", fmt.Sprintf("%s rendered %q (%s %s), the inline form gives %q", t[0], o.Out, o.Class, firstLine(o.Msg), t[1]), map[string]interface{}{"case": c, "observed": o})
			}
		}
		// data whose value is nil binds the name too: it hides an outer variable of that name, exactly
		// as a let would in the inline form
		{
			const IFW = "[<%= if (who) { %>W<% } else { %>-<% } %><%= who == nil %>]"
			for _, t := range [][2]string{
				{`<% let who = "outer" %><%= partial("tw", {who: nil}) %>|<%= partial("tw") %>`, "[-true]|[Wfalse]"}, {`<% let who = "outer" %><%= partial("tw", {who: nil, layout: "lay"}) %>`, "<L>[-true]</L>"},
				{`<% let who = "outer" %><% contentFor("nb") { %>` + IFW + `<% } %><%= contentOf("nb", {who: nil}) %>|<%= contentOf("nb") %>|<%= contentOf("nb", {who: "d"}) %>`, "[-true]|[Wfalse]|[Wfalse]"},
				{`<% let who = "outer" %><%= contentOf("nodef", {who: nil}) { %>` + IFW + `<% } %>`, "[-true]"}, {`<% let who = "outer" %><%= blkctx({who: nil}) { %>` + IFW + `<% } %>`, "[-true]"},
				{`<%= for (who) in ["a"] { %><%= partial("tw", {who: nil}) %><%= partial("tw", {other: nil}) %><% } %>`, "[-true][Wfalse]"},
				{`<% let f = fn(who) { return partial("tw", {who: nil}) } %><%= f("arg") %>`, "[-true]"},
			} {
				c := RCase{Tmpl: t[0], Binds: c17binds(), Parts: map[string]string{"tw": IFW, "lay": "<L><%= yield %></L>"}}
				o := e.addRenderCase("nil-data", c)
				e.Distinct(t[0])
				if o.Class != "OK" || o.Out != t[1] {
					e.Violate("c17-partial", fmt.Sprintf("%s rendered %q (%s %s), inline rendering (a let of the same names) gives %q", t[0], o.Out, o.Class, firstLine(o.Msg), t[1]), map[string]interface{}{"case": c, "observed": o})
				}
			}
		}
		// contentFor / contentOf
		cbodies := []string{"<b><%= s %></b>", "[<%= who %>]", "<%= for (x) in xs { %><%= x %>,<% } %>", "<%= if (who) { %>W<% } else { %>-<% } %>", "text only"}
		for ci, cb := range cbodies {
			needsWho := strings.Contains(cb, "who") && !strings.Contains(cb, "if (who)")
			for uses := 0; uses <= 3; uses++ {
				var tmpl, want strings.Builder
				tmpl.WriteString("S<% contentFor(\"blk1\") { %>" + cb + "<% } %>M")
				want.WriteString("SM")
				for u := 0; u < uses; u++ {
					data := []Bind{{"who", vStr(fmt.Sprintf("u%d<", u))}}
					if u == 1 && !needsWho {
						data = nil
					}
					if data == nil {
						tmpl.WriteString("<%= contentOf(\"blk1\") %>;")
					} else {
						tmpl.WriteString("<%= contentOf(\"blk1\", " + dataSrc(data) + ") %>;")
					}
					in, _ := inline17(cb, data, nil)
					want.WriteString(in + ";")
				}
				c := RCase{Tmpl: tmpl.String(), Binds: c17binds()}
				o := e.addRenderCase("content", c)
				e.Distinct(c.Tmpl)
				if o.Class != "OK" || o.Out != want.String() {
					e.Violate("c17-content", fmt.Sprintf("%s rendered %q (%s %s), inline rendering gives %q", c.Tmpl, o.Out, o.Class, o.Msg, want.String()), map[string]interface{}{"case": c, "observed": o})
				}
			}
			// several block results pending at once: what one replay returned must not change when the
			// next block is rendered (loop over replays, siblings inside a block, a default block nested
			// in another helper's block, a helper rendering its block twice with text in between)
			if ci == 0 {
				for _, t := range [][2]string{
					{`<% contentFor("w") { %>[<%= who %>]<% } %><%= for (x) in ["alpha", "beta", "gamma"] { %><%= contentOf("w", {who: x}) %><% } %>`, "[alpha][beta][gamma]"},
					{`<% contentFor("w") { %><%= who %><% } %><%= if (true) { %><%= contentOf("w", {who: "first"}) %>|<%= contentOf("w", {who: "2nd"}) %><% } %>`, "first|2nd"},
					{`<%= blk() { %>outer:<%= contentOf("nope") { %>inner<% } %><% } %>`, "[outer:inner]"},
					{`<%= blk() { %>a<%= blk() { %>bb<%= blk() { %>ccc<% } %>dd<% } %>e<% } %>`, "[a[bb[ccc]dd]e]"},
					{`<%= blk2() { %>x<%= blk2() { %>yy<% } %>z<% } %>`, "xyy|yyz|xyy|yyz"},
					{`<% let a = blkctx({who: "p"}) { %><%= who %><% } %><% let b = blkctx({who: "qq"}) { %><%= who %><% } %><%= a %><%= b %><%= a %>`, "pqqp"},
					{`<% contentFor("w") { %><%= who %>.<% } %><% let a = contentOf("w", {who: "one"}) %><% let b = contentOf("w", {who: "two2"}) %><%= a %><%= b %><%= a %>`, "one.two2.one."},
				} {
					c := RCase{Tmpl: t[0], Binds: c17binds()}
					o := e.addRenderCase("pending-blocks", c)
					e.Distinct(c.Tmpl)
					if o.Class != "OK" || o.Out != t[1] {
						e.Violate("c17-content", fmt.Sprintf("%s rendered %q (%s %s), inline rendering gives %q", c.Tmpl, o.Out, o.Class, firstLine(o.Msg), t[1]), map[string]interface{}{"case": c, "observed": o})
					}
				}
			}
			// default block, missing name
			if ci == 0 {
				// blocks with nothing in them are blocks all the same: an empty default block renders
				// nothing (it is not a missing block), a block helper gets the empty text
				for _, t := range [][2]string{
					{"<%= contentOf(\"nope\") { %><% } %>|", "|"}, {"a<%= contentOf(\"nope\", {who: \"d\"}) { %><% } %>b", "ab"},
					{"<% contentFor(\"e\") { %><% } %>[<%= contentOf(\"e\") %>]", "[]"}, {"<%= blk() { %><% } %>", "[]"}, {"<%= blk2() { %><% } %>", "|"},
					{"<%= blkctx({who: 1}) { %><% } %>|", "|"}, {"<%= hasblk() { %><% } %><%= hasblk() %><%= hasblk() { %>x<% } %>", "YNY"},
				} {
					c := RCase{Tmpl: t[0], Binds: c17binds()}
					o := runRenderExtra(c, map[string]interface{}{"hasblk": func(h plush.HelperContext) string {
						if h.HasBlock() {
							return "Y"
						}
						return "N"
					}})
					e.rep.Evaluations++
					e.Count("empty-block")
					if o.Class != "OK" || o.Out != t[1] {
						e.Violate("c17-content", fmt.Sprintf("%s rendered %q (%s %s), want %q: an empty block is a block", t[0], o.Out, o.Class, firstLine(o.Msg), t[1]), map[string]interface{}{"case": c, "observed": o})
					}
				}
			}
			{
				c := RCase{Tmpl: "<%= contentOf(\"nope\", {who: \"d\"}) { %>" + cb + "<% } %>|", Binds: c17binds()}
				o := e.addRenderCase("content", c)
				in, _ := inline17(cb, []Bind{{"who", vStr("d")}}, nil)
				if o.Class != "OK" || o.Out != in+"|" {
					e.Violate("c17-content", fmt.Sprintf("%s rendered %q (%s), default block inline gives %q", c.Tmpl, o.Out, o.Class, in+"|"), map[string]interface{}{"case": c, "observed": o})
				}
				c2 := RCase{Tmpl: "<%= contentOf(\"nope\") %>", Binds: c17binds()}
				o2 := e.addRenderCase("content", c2)
				if o2.Class != "ERR" {
					e.Violate("c17-content", fmt.Sprintf("contentOf of an undefined name without a block must fail: %s %q", o2.Class, o2.Out), map[string]interface{}{"case": c2, "observed": o2})
				}
			}
			// block helpers
			who := []Bind{{"who", vStr("bw")}}
			in0, _ := inline17(cb, who, nil)
			for _, t := range []struct{ tmpl, want string }{
				{"<% let who = \"bw\" %><%= blk() { %>" + cb + "<% } %>", "[" + in0 + "]"},
				{"<% let who = \"bw\" %><%= blk2() { %>" + cb + "<% } %>", in0 + "|" + in0},
				{"<%= blkctx({who: \"bw\"}) { %>" + cb + "<% } %>", in0},
				{"<% let who = \"bw\" %><%= htmlEscape(\"x\") { %>" + cb + "<% } %>", template.HTMLEscapeString(template.HTMLEscapeString(in0))},
			} {
				c := RCase{Tmpl: t.tmpl, Binds: c17binds()}
				o := e.addRenderCase("blockhelper", c)
				e.Distinct(c.Tmpl)
				if o.Class != "OK" || o.Out != t.want {
					e.Violate("c17-block", fmt.Sprintf("%s rendered %q (%s %s), want %q", c.Tmpl, o.Out, o.Class, o.Msg, t.want), map[string]interface{}{"case": c, "observed": o})
				}
			}
		}
		// a partial with a layout where the partial's body leaves something for the layout to use
		// (a contentFor block): the layout must see it, as it does when both are written inline
		for _, t := range []struct {
			parts map[string]string
			tmpl  string
			want  string
		}{
			{map[string]string{"pg": `<% contentFor("side") { %>[S:<%= who %>:<%= n %>]<% } %>main-<%= who %>`, "frame": `<F><%= yield %>|<%= contentOf("side", {n: 7}) %></F>`},
				`A<%= partial("pg", {who: "mark", layout: "frame"}) %>B`, "A<F>main-mark|[S:mark:7]</F>B"},
			{map[string]string{"pg": `<% contentFor("side") { %>x<% } %>m`, "frame": `<%= contentOf("side") %><%= yield %><%= contentOf("side") %>`},
				`<%= partial("pg", {layout: "frame"}) %>|<%= partial("pg", {layout: "frame"}) %>`, "xmx|xmx"},
			{map[string]string{"pg": `<% contentFor("side") { %>x<% } %>m`, "frame": `{<%= yield %>}`},
				`<%= partial("pg", {layout: "frame"}) %><%= contentOf("side") { %>default<% } %>`, "{m}default"},
			{map[string]string{"row": `<td><%= who %></td>`, "frame": `<tr><%= yield %></tr>`},
				`<% let opts = {layout: "frame", who: "a"} %><%= partial("row", opts) %>|<%= partial("row", opts) %>|<%= opts["layout"] %><%= len(opts) %>`, "<tr><td>a</td></tr>|<tr><td>a</td></tr>|frame2"},
			{map[string]string{"row": `<% let who = who + "!" %><i><%= who %></i>`, "frame": `<%= who %>:<%= yield %>`},
				`<% let d = {who: "w", layout: "frame"} %><%= for (i) in [1, 2] { %><%= partial("row", d) %>;<% } %><%= d["who"] %>`, "w!:<i>w!</i>;w!:<i>w!</i>;w"},
			{map[string]string{"pg": `<% contentFor("t") { %>T<%= s %><% } %>b`, "frame": `<%= contentOf("t") { %>none<% } %>/<%= yield %>`, "outer": `<%= partial("pg", {layout: "frame"}) %>`},
				`<%= partial("outer") %>`, "Ta&lt;b/b"},
		} {
			c := RCase{Tmpl: t.tmpl, Binds: c17binds(), Parts: t.parts}
			o := e.addRenderCase("partial-layout-content", c)
			e.Distinct(t.tmpl + t.parts["pg"])
			if o.Class != "OK" || o.Out != t.want {
				e.Violate("c17-partial", fmt.Sprintf("%s with parts %v rendered %q (%s %s), inline rendering gives %q", t.tmpl, t.parts, o.Out, o.Class, o.Msg, t.want), map[string]interface{}{"case": c, "observed": o})
			}
		}
		// values whose printed form depends on the scope they are printed in (time.Time with
		// TIME_FORMAT): the block / partial must print them as the inline source does in the
		// equivalent scope.  Go-only values: decided by the two runs of the real engine.
		tm := time.Date(2013, time.February, 3, 4, 5, 6, 0, time.UTC)
		extra := map[string]interface{}{"tm": tm, "ptm": &tm}
		tbodies := []string{"[<%= tm %>]", "[<%= ptm %>|<%= s %>]", "<% let TIME_FORMAT = \"2006\" %>[<%= tm %>]", "<%= for (x) in xs { %><%= tm %>,<% } %>", "<%= if (t) { %><%= tm %><% } %>"}
		tdatas := []string{"", "{TIME_FORMAT: \"2006-02-Jan\"}", "{who: \"w\"}"}
		for _, tb := range tbodies {
			for _, outerFmt := range []string{"", "<% let TIME_FORMAT = \"Jan 2\" %>"} {
				for _, td := range tdatas {
					var ibinds []Bind
					if strings.Contains(td, "TIME_FORMAT") {
						ibinds = append(ibinds, Bind{"TIME_FORMAT", vStr("2006-02-Jan")})
					}
					if strings.Contains(td, "who") {
						ibinds = append(ibinds, Bind{"who", vStr("w")})
					}
					// inline twin: the body in a scope where the data (if any) shadows the outer format
					itm := outerFmt + tb
					if len(ibinds) > 0 && strings.Contains(td, "TIME_FORMAT") {
						itm = tb // the data's TIME_FORMAT shadows the outer let
					}
					in := runRenderExtra(RCase{Tmpl: itm, Binds: append(c17binds(), ibinds...)}, extra)
					arg := ""
					if td != "" {
						arg = ", " + td
					}
					routes := map[string]string{
						"contentFor": outerFmt + "<% contentFor(\"tb\") { %>" + tb + "<% } %><%= contentOf(\"tb\"" + arg + ") %>",
						"default":    outerFmt + "<%= contentOf(\"missing\"" + arg + ") { %>" + tb + "<% } %>",
						"partial":    outerFmt + "<%= partial(\"tp\"" + arg + ") %>",
						"blk":        outerFmt + "<%= blk() { %>" + tb + "<% } %>",
					}
					if td != "" {
						routes["blkctx"] = outerFmt + "<%= blkctx(" + td + ") { %>" + tb + "<% } %>"
					}
					for rn, rt := range routes {
						want := in.Out
						if rn == "blk" {
							if td != "" {
								continue
							}
							want = "[" + in.Out + "]"
						}
						c := RCase{Tmpl: rt, Binds: c17binds(), Parts: map[string]string{"tp": tb}}
						o := runRenderExtra(c, extra)
						e.rep.Evaluations++
						e.Count("time-format/" + rn)
						e.Distinct(rt)
						if in.Class == "OK" && (o.Class != "OK" || o.Out != want) {
							e.Violate("c17-scope-dependent-print", fmt.Sprintf("%s (%s) rendered %q (%s %s), the same source inline in the equivalent scope gives %q", rt, rn, o.Out, o.Class, o.Msg, want), map[string]interface{}{"tmpl": rt, "observed": o, "inline": itm})
						}
					}
				}
			}
		}
		// break / continue inside the block of a block helper that stands in a loop body: inline, they end
		// the iteration keeping what it produced so far.  (Through the helper the control value is what
		// the block evaluates to and the helper's text is lost: known finding c17-control-in-helper-block.)
		{
			extra := map[string]interface{}{"wrap": func(h plush.HelperContext) (template.HTML, error) {
				s, err := h.Block()
				return template.HTML(s), err
			}}
			for _, ctl := range []string{"continue", "break"} {
				body := "a<%= x %><% " + ctl + " %>b"
				viaHelper := "<%= for (x) in [1, 2] { %>[<%= wrap() { %>" + body + "<% } %>]<% } %>"
				inline := "<%= for (x) in [1, 2] { %>[" + body + "]<% } %>"
				o := runRenderExtra(RCase{Tmpl: viaHelper}, extra)
				in := runRenderExtra(RCase{Tmpl: inline}, extra)
				e.rep.Evaluations += 2
				e.Count("control-in-helper-block")
				e.Distinct(viaHelper)
				if in.Class == "OK" && (o.Class != "OK" || o.Out != in.Out) {
					e.Violate("c17-control-in-helper-block", fmt.Sprintf("%s rendered %q (%s %s), the same source inline gives %q", viaHelper, o.Out, o.Class, firstLine(o.Msg), in.Out), map[string]interface{}{"tmpl": viaHelper, "observed": o, "inline": inline})
				}
			}
		}
		// a value that only the context.Context wrapped by the ROOT context supplies (NewContextWithContext):
		// a partial, a layout, a replayed block and a default block see it exactly as the inline source does
		{
			feeder := func(name string) (string, error) {
				return map[string]string{"greet": "Hello <%= who %>!", "lay": "<L><%= who %>:<%= yield %></L>"}[name], nil
			}
			for _, t := range [][2]string{
				{`<%= partial("greet") %>`, "Hello mark!"}, {`<%= partial("greet", {layout: "lay"}) %>`, "<L>mark:Hello mark!</L>"},
				{`<% contentFor("c") { %>[<%= who %>]<% } %><%= contentOf("c") %><%= contentOf("c", {x: 1}) %>`, "[mark][mark]"}, {`<%= contentOf("nodef") { %>(<%= who %>)<% } %>`, "(mark)"},
				{`<%= for (i) in [1, 2] { %><%= who %><%= i %><% } %>`, "mark1mark2"}, {`<% let f = fn() { return who } %><%= f() %>`, "mark"}, {`<%= who %>`, "mark"},
			} {
				root := plush.NewContextWithContext(context.WithValue(context.Background(), "who", "mark"))
				root.Set("partialFeeder", feeder)
				out, err := plush.Render(t[0], root)
				e.rep.Evaluations++
				e.Count("wrapped-context-value")
				e.Distinct(t[0])
				if err != nil || out != t[1] {
					e.Violate("c17-partial", fmt.Sprintf("%s with who supplied by the wrapped context.Context rendered %q (%v), the inline form gives %q", t[0], out, err, t[1]), map[string]interface{}{"tmpl": t[0]})
				}
			}
		}
	})
}
