package main

import (
	"fmt"
	"html/template"
	"sort"
	"strings"
)

// ---- C08: for loops, break, continue -------------------------------------------

// body items: a small language whose meaning the oracle computes itself
type lbody []litem
type litem struct {
	Kind string // text, key, val, brk, cnt, ifbrk, ifcnt, iftext, inner
	S    string // text / comparison constant
	On   string // "k" or "v": which loop variable a condition tests
	Body lbody  // for inner (loop over [7,8]) and iftext
}

func (b lbody) src(k, v string) string {
	var sb strings.Builder
	for _, it := range b {
		cond := fmt.Sprintf("%s == %s", map[string]string{"k": k, "v": v}[it.On], it.S)
		switch it.Kind {
		case "text":
			sb.WriteString(it.S)
		case "key":
			sb.WriteString("<%= " + k + " %>")
		case "val":
			sb.WriteString("<%= " + v + " %>")
		case "brk":
			sb.WriteString("<% break %>")
		case "cnt":
			sb.WriteString("<% continue %>")
		case "ifbrk":
			sb.WriteString("<% if (" + cond + ") { break } %>")
		case "ifcnt":
			sb.WriteString("<% if (" + cond + ") { %><% continue %><% } %>")
		case "iftext":
			sb.WriteString("<%= if (" + cond + ") { %>" + it.Body.src(k, v) + "<% } %>")
		case "inner":
			sb.WriteString("<%= for (ik, iv) in [7, 8] { %>" + it.Body.src("ik", "iv") + "<% } %>")
		}
	}
	return sb.String()
}

type lsig int

const (
	sigNone lsig = iota
	sigBreak
	sigCont
	sigErr // the body fails: a variable bound to nil reads as an unknown identifier
)

func show08(v interface{}) string {
	if v == nil {
		return ""
	}
	return template.HTMLEscapeString(fmt.Sprint(v))
}

// reference meaning of one iteration of a body
func (b lbody) run(k, v interface{}, out *strings.Builder) lsig {
	for _, it := range b {
		var on interface{} = v
		if it.On == "k" {
			on = k
		}
		hit := fmt.Sprint(on) == strings.Trim(it.S, `"`)
		switch it.Kind {
		case "text":
			out.WriteString(it.S)
		case "key":
			out.WriteString(show08(k))
		case "val":
			if v == nil {
				return sigErr
			}
			out.WriteString(show08(v))
		case "brk":
			return sigBreak
		case "cnt":
			return sigCont
		case "ifbrk":
			if hit {
				return sigBreak
			}
		case "ifcnt":
			if hit {
				return sigCont
			}
		case "iftext":
			if hit {
				if s := it.Body.run(k, v, out); s != sigNone {
					return s
				}
			}
		case "inner":
			for ik, iv := range []int{7, 8} {
				if s := it.Body.run(ik, iv, out); s == sigBreak {
					break
				} else if s == sigErr {
					return s
				}
			}
		}
	}
	return sigNone
}

const ref08Err = "\x00unknown identifier"

func refLoop(keys, vals []interface{}, b lbody) string {
	var out strings.Builder
	for i := range vals {
		if s := b.run(keys[i], vals[i], &out); s == sigBreak {
			break
		} else if s == sigErr {
			return ref08Err
		}
	}
	return out.String()
}

func genBody(r *Rng, depth int, consts []string) lbody {
	n := 1 + r.Intn(4)
	var b lbody
	for i := 0; i < n; i++ {
		on := []string{"k", "v"}[r.Intn(2)]
		c := consts[r.Intn(len(consts))]
		switch x := r.Intn(12); {
		case x < 3:
			b = append(b, litem{Kind: "text", S: []string{"a", "b", "<c>", " ", "-"}[r.Intn(5)]})
		case x < 5:
			b = append(b, litem{Kind: "val"})
		case x < 6:
			b = append(b, litem{Kind: "key"})
		case x < 7:
			b = append(b, litem{Kind: "ifbrk", S: c, On: on})
		case x < 8:
			b = append(b, litem{Kind: "ifcnt", S: c, On: on})
		case x < 9 && depth > 0:
			b = append(b, litem{Kind: "iftext", S: c, On: on, Body: genBody(r, depth-1, consts)})
		case x < 10 && depth > 0:
			b = append(b, litem{Kind: "inner", Body: genBody(r, depth-1, []string{"7", "8", "0", "1"})})
		case x < 11 && i == n-1:
			b = append(b, litem{Kind: []string{"brk", "cnt"}[r.Intn(2)]})
		default:
			b = append(b, litem{Kind: "text", S: "."})
		}
	}
	return b
}

// an Iterator written in Go over a fixed list of elements
type c08it struct {
	els []interface{}
	pos int
}

func (x *c08it) Next() interface{} {
	if x.pos >= len(x.els) {
		return nil
	}
	x.pos++
	return x.els[x.pos-1]
}

func init() {
	register("C08", func(e *Env) {
		renderPrelude()
		e.perShard = 60
		e.rep.Rule = "iterables: []interface{} / []string / []int of length 0..4, maps with 1 entry (exact) and 2-3 entries (multiset of per-entry outputs), range/between/until/groupBy iterators, nil, non-iterables; bodies generated from {text, key, value, break, continue, if+break, if+continue, if+text (nested), inner loop} to nesting depth 2 (break/continue at every statement position incl. after an inner loop); oracle = a Go reference interpreter of the body run element by element (loop unrolling), concatenated; fixed patterns exhaustively + random bodies; map loops whose body inserts into the iterated map; loops evaluated several times in one render whose iterable depends on an outer loop variable, a function argument or a reassigned variable; non-trivial = at least one iteration; distinct by (iterable, body)"
		type iterable struct {
			name  string
			bind  *Bind
			expr  string
			keys  []interface{}
			vals  []interface{}
			class string // OK, ERR, or SET (map: any order)
			cs    []string
		}
		ints := func(n int) ([]interface{}, []interface{}, []VD) {
			var ks, vs []interface{}
			var ds []VD
			for i := 0; i < n; i++ {
				ks = append(ks, i)
				vs = append(vs, 10+i)
				ds = append(ds, vInt(10+i))
			}
			return ks, vs, ds
		}
		var its []iterable
		for n := 0; n <= 4; n++ {
			ks, vs, ds := ints(n)
			its = append(its, iterable{fmt.Sprintf("iface%d", n), &Bind{"it", vSlice("iface", ds...)}, "it", ks, vs, "OK", []string{"10", "12", "0", "2"}})
			its = append(its, iterable{fmt.Sprintf("ints%d", n), &Bind{"it", vSlice("int", ds...)}, "it", ks, vs, "OK", []string{"11", "13", "1", "3"}})
		}
		its = append(its,
			iterable{"strs", &Bind{"it", vSlice("string", vStr("0"), vStr("<y>"), vStr("2"))}, "it", []interface{}{0, 1, 2}, []interface{}{"0", "<y>", "2"}, "OK", []string{"0", "2"}},
			iterable{"mixed", &Bind{"it", vSlice("iface", vInt(7), vInt(2), vInt(0))}, "it", []interface{}{0, 1, 2}, []interface{}{7, 2, 0}, "OK", []string{"2", "0"}},
			iterable{"literal", nil, "[5, 6, 7]", []interface{}{0, 1, 2}, []interface{}{5, 6, 7}, "OK", []string{"6", "1", "7"}},
			iterable{"range", nil, "range(3, 6)", []interface{}{0, 1, 2, 3}, []interface{}{3, 4, 5, 6}, "OK", []string{"4", "2", "6"}},
			iterable{"between", nil, "between(3, 6)", []interface{}{0, 1}, []interface{}{4, 5}, "OK", []string{"4", "1"}},
			iterable{"until", nil, "until(3)", []interface{}{0, 1, 2}, []interface{}{0, 1, 2}, "OK", []string{"1", "2"}},
			iterable{"untilneg", nil, "until(0 - 2)", nil, nil, "OK", []string{"1"}},
			iterable{"map1", &Bind{"it", vMap("string", "int", vStr("5"), vInt(5))}, "it", []interface{}{"5"}, []interface{}{5}, "OK", []string{"5"}},
			iterable{"map3", &Bind{"it", vMap("string", "int", vStr("a"), vInt(1), vStr("b"), vInt(2), vStr("c"), vInt(3))}, "it", []interface{}{"a", "b", "c"}, []interface{}{1, 2, 3}, "SET", []string{"9"}},
			// a nil element / nil value is an element like any other: its iteration takes place
			iterable{"nils", &Bind{"it", vSlice("iface", vInt(7), VD{K: "nil"}, vInt(0), VD{K: "nil"})}, "it", []interface{}{0, 1, 2, 3}, []interface{}{7, nil, 0, nil}, "OK", []string{"7", "1", "0"}},
			iterable{"literalnil", nil, "[nil, 6, nil]", []interface{}{0, 1, 2}, []interface{}{nil, 6, nil}, "OK", []string{"6", "1", "2"}},
			iterable{"mapnil", &Bind{"it", vMap("string", "iface", vStr("a"), VD{K: "nil"})}, "it", []interface{}{"a"}, []interface{}{nil}, "OK", []string{"1"}},
			iterable{"nil", nil, "nil", nil, nil, "OK", []string{"1"}},
			iterable{"nilkey", &Bind{"it", vMap("string", "iface", vStr("a"), vInt(1))}, `it["zz"]`, nil, nil, "OK", []string{"1"}},
			iterable{"int", &Bind{"it", vInt(5)}, "it", nil, nil, "ERR", []string{"1"}},
			iterable{"str", &Bind{"it", vStr("abc")}, "it", nil, nil, "ERR", []string{"1"}},
			iterable{"struct", &Bind{"it", vT0("x")}, "it", nil, nil, "ERR", []string{"1"}},
		)
		judge := func(it iterable, b lbody, tag string) {
			tmpl := "<%= for (k, v) in " + it.expr + " { %>" + b.src("k", "v") + "<% } %>|end"
			c := RCase{Tmpl: tmpl}
			if it.bind != nil {
				c.Binds = []Bind{*it.bind}
			}
			var o RObs
			if it.class == "SET" {
				o = runRender(c)
				e.rep.Evaluations++
				e.Count("render-" + tag + "-map")
			} else {
				o = e.addRenderCase(tag, c)
			}
			rp := map[string]interface{}{"case": c, "observed": o}
			switch it.class {
			case "ERR":
				if o.Class != "ERR" {
					e.Violate("c08-noniterable", fmt.Sprintf("for over %s: want an error, got %q (%s)", it.name, o.Out, o.Class), rp)
				}
			case "OK":
				want := refLoop(it.keys, it.vals, b) + "|end"
				if len(it.vals) > 0 {
					e.Distinct(it.name + "/" + b.src("k", "v"))
				}
				if strings.HasPrefix(want, ref08Err) {
					// the body itself fails for one of the elements (it prints a variable bound to nil)
					if o.Class != "ERR" || !strings.Contains(o.Msg, "unknown identifier") {
						e.Violate("c08-unroll", fmt.Sprintf("%s: rendered %q (%s %s), but the body fails for the nil element (unknown identifier)", tmpl, o.Out, o.Class, firstLine(o.Msg)), rp)
					}
				} else if o.Class != "OK" || o.Out != want {
					e.Violate("c08-unroll", fmt.Sprintf("%s: rendered %q (%s), element-by-element reference %q", tmpl, o.Out, o.Class, want), rp)
				}
			case "SET":
				// only for bodies without break: the multiset of per-entry outputs
				hasBreak := strings.Contains(b.src("k", "v"), "break")
				if hasBreak {
					return
				}
				var parts []string
				for i := range it.vals {
					parts = append(parts, refLoop(it.keys[i:i+1], it.vals[i:i+1], b))
				}
				ok := o.Class == "OK" && strings.HasSuffix(o.Out, "|end")
				if ok {
					rest := strings.TrimSuffix(o.Out, "|end")
					ok = matchPermutation(rest, parts)
				}
				if !ok {
					e.Violate("c08-map", fmt.Sprintf("%s: rendered %q (%s), not a permutation of the per-entry outputs %q", tmpl, o.Out, o.Class, parts), rp)
				}
			}
		}
		// pointers to collections (Go-only data): looped over like the collection; a nil pointer to a
		// collection, like a nil collection, renders nothing; a pointer to something else is an error
		{
			var nps *[]int
			var npm *map[string]int
			var npa *[2]int
			var npt *T0
			extra := map[string]interface{}{"ps": &[]int{1, 2}, "pa": &[2]string{"a", "b"}, "pm": &map[string]int{"k": 7}, "nps": nps, "npm": npm, "npa": npa, "npt": npt, "pt": &T0{"x"},
				"ns": []int(nil), "nm": map[string]int(nil), "nif": []interface{}(nil)}
			for _, t := range [][2]string{{"ps", "0=1;1=2;"}, {"pa", "0=a;1=b;"}, {"pm", "k=7;"}, {"nps", ""}, {"npm", ""}, {"npa", ""}, {"ns", ""}, {"nm", ""}, {"nif", ""}, {"npt", "ERR"}, {"pt", "ERR"}} {
				tm := "<%= for (k, v) in " + t[0] + " { %><%= k %>=<%= v %>;<% } %>|end"
				o := runRenderExtra(RCase{Tmpl: tm}, extra)
				e.rep.Evaluations++
				e.Count("pointer-iterables")
				e.Distinct(tm)
				rp := map[string]interface{}{"tmpl": tm, "observed": o}
				if t[1] == "ERR" {
					if o.Class != "ERR" {
						e.Violate("c08-noniterable", fmt.Sprintf("for over %s: want an error, got %q (%s)", t[0], o.Out, o.Class), rp)
					}
				} else if o.Class != "OK" || o.Out != t[1]+"|end" {
					e.Violate("c08-unroll", fmt.Sprintf("%s: rendered %q (%s %s), element-by-element reference %q", tm, o.Out, o.Class, firstLine(o.Msg), t[1]+"|end"), rp)
				}
			}
		}
		// a loop whose body is empty: a non-iterable is still an error, an iterator is still walked to its end
		for _, it := range its {
			for _, form := range []string{"<% for (k, v) in X { } %>|end", "<%= for (k, v) in X {} %>|end", "<%= for (v) in X { %><% } %>|end"} {
				tmpl := strings.Replace(form, "X", it.expr, 1)
				c := RCase{Tmpl: tmpl}
				if it.bind != nil {
					c.Binds = []Bind{*it.bind}
				}
				o := e.addRenderCase("empty-body", c)
				rp := map[string]interface{}{"case": c, "observed": o}
				if it.class == "ERR" {
					if o.Class != "ERR" {
						e.Violate("c08-noniterable", fmt.Sprintf("for over %s with an empty body: want an error, got %q (%s)", it.name, o.Out, o.Class), rp)
					}
				} else if o.Class != "OK" || o.Out != "|end" {
					e.Violate("c08-unroll", fmt.Sprintf("%s: rendered %q (%s), an empty body renders nothing", tmpl, o.Out, o.Class), rp)
				}
			}
		}
		for _, t := range [][2]string{
			{"<% let r = range(1, 3) %><% for (x) in r { } %><%= for (i, x) in r { %><%= i %>:<%= x %>,<% } %>|", "|"},
			{"<% let r = until(3) %><%= for (x) in r { %><% } %><%= for (x) in r { %><%= x %><% } %>|", "|"},
			{"<% let r = range(1, 3) %><%= for (x) in r { %><% break %><% } %><%= for (i, x) in r { %><%= i %>:<%= x %>,<% } %>|", "0:2,1:3,|"},
		} {
			c := RCase{Tmpl: t[0]}
			o := e.addRenderCase("iterator-consumed", c)
			if o.Class != "OK" || o.Out != t[1] {
				e.Violate("c08-unroll", fmt.Sprintf("%s: rendered %q (%s %s), want %q: an iterator is walked until exhausted (or until break)", t[0], o.Out, o.Class, firstLine(o.Msg), t[1]), map[string]interface{}{"case": c, "observed": o})
			}
		}
		// maps whose keys print alike (1 and "1" in a map keyed by interface{}): once per ENTRY
		{
			extra := map[string]interface{}{"mik": map[interface{}]string{1: "int", "1": "string", "2": "other", true: "bool", "true": "strue"}, "mi64": map[interface{}]int{int64(1): 10, 1: 11, 1.0: 12}}
			for _, t := range []struct {
				it   string
				want []string
			}{{"mik", []string{"[int]", "[string]", "[other]", "[bool]", "[strue]"}}, {"mi64", []string{"[10]", "[11]", "[12]"}}} {
				tm := "<%= for (k, v) in " + t.it + " { %>[<%= v %>]<% } %>"
				o := runRenderExtra(RCase{Tmpl: tm}, extra)
				e.rep.Evaluations++
				e.Count("keys-printing-alike")
				if o.Class != "OK" || !matchPermutation(o.Out, t.want) {
					e.Violate("c08-map", fmt.Sprintf("%s: rendered %q (%s), not a permutation of the per-entry outputs %q", tm, o.Out, o.Class, t.want), map[string]interface{}{"tmpl": tm, "observed": o})
				}
			}
		}
		fixed := []lbody{
			{{Kind: "val"}, {Kind: "text", S: ","}},
			{{Kind: "key"}, {Kind: "text", S: "="}, {Kind: "val"}, {Kind: "text", S: ";"}},
			{{Kind: "text", S: "a"}, {Kind: "brk"}, {Kind: "text", S: "b"}},
			{{Kind: "text", S: "a"}, {Kind: "cnt"}, {Kind: "text", S: "b"}},
			{{Kind: "inner", Body: lbody{{Kind: "val"}, {Kind: "ifbrk", S: "7", On: "v"}}}, {Kind: "brk"}},
			{{Kind: "inner", Body: lbody{{Kind: "val"}}}, {Kind: "ifcnt", S: "0", On: "k"}, {Kind: "text", S: "t"}},
			{{Kind: "iftext", S: "1", On: "k", Body: lbody{{Kind: "text", S: "x"}, {Kind: "cnt"}, {Kind: "text", S: "y"}}}, {Kind: "val"}},
			{{Kind: "iftext", S: "1", On: "k", Body: lbody{{Kind: "text", S: "x"}, {Kind: "brk"}}}, {Kind: "val"}},
		}
		for _, it := range its {
			for _, b := range fixed {
				judge(it, b, "fixed")
			}
		}
		n := 900
		if e.Thorough() {
			n = 20000
		}
		for i := 0; i < n; i++ {
			it := its[e.Rng.Intn(len(its))]
			judge(it, genBody(e.Rng, 2, it.cs), "rand")
		}
		// the same for-node evaluated several times in one render with an iterable that depends on what
		// changed in between (outer loop variable, function argument, reassigned variable): every
		// evaluation must iterate over the CURRENT value of its iterable
		for _, t := range [][2]string{
			{`<%= for (x) in [1,2,3] { %><%= for (p) in [[x,"a"],[x,"b"]] { %><%= p[0] %><%= p[1] %>;<% } %><% } %>`, "1a;1b;2a;2b;3a;3b;"},
			{`<%= for (x) in [1,2,3] { %><%= for (p) in [x, x + 1] { %><%= p %>,<% } %>|<% } %>`, "1,2,|2,3,|3,4,|"},
			{`<%= for (x) in [1,2] { %><%= for (p) in [{k: x}, {k: x * 10}] { %><%= p["k"] %>,<% } %><% } %>`, "1,10,2,20,"},
			{`<%= for (x) in [1,2] { %><%= for (p) in [[[x]]] { %><%= p[0][0] %><% } %><% } %>`, "12"},
			{`<% let f = fn(a) { %><%= for (p) in [[a], [a + 1]] { %><%= p[0] %><% } %><% } %><%= f(1) %>|<%= f(5) %>|<%= f(1) %>`, "12|56|12"},
			{`<%= for (x) in [1,2] { %><%= for (y) in range(x, x + 1) { %><%= y %><% } %>;<% } %>`, "12;23;"},
			{`<% let l = [0] %><%= for (x) in [1,2,3] { %><%= for (y) in l { %><%= y %><% } %>;<% l = l + x %><% } %>`, "0;01;012;"},
			{`<%= for (x) in ["a","b"] { %><%= for (k, v) in {key: x} { %><%= k %>=<%= v %>,<% } %><% } %>`, "key=a,key=b,"},
			{`<%= for (x) in [1,2] { %><%= for (y) in [x] { %><%= for (z) in [[y, x]] { %><%= z[0] + z[1] %><% } %><% } %>,<% } %>`, "2,4,"},
			{`<%= for (x) in [[1,2],[3]] { %><%= for (y) in x { %><%= y %><% } %>|<% } %>`, "12|3|"},
		} {
			c := RCase{Tmpl: t[0]}
			o := e.addRenderCase("revisit", c)
			e.Distinct(t[0])
			if o.Class != "OK" || o.Out != t[1] {
				e.Violate("c08-unroll", fmt.Sprintf("%s: rendered %q (%s %s), element-by-element reference %q", t[0], o.Out, o.Class, o.Msg, t[1]), map[string]interface{}{"case": c, "observed": o})
			}
		}
		// a loop over a map whose body inserts new entries into that map: the body still runs once
		// per entry the map had when the loop started (repeated: Go's live iteration is random)
		for _, t := range [][2]string{
			{`<%= for (k, v) in mi { %>[<%= v %>]<% mi[k + "x"] = v + 1 %><% } %>`, "[9]"},
			{`<%= for (k, v) in mi { %><% mi["n1"] = 1 %><% mi["n2"] = 2 %><% mi["n3"] = 3 %>(<%= k %>)<% } %>|<%= len(mi) %>`, "(k)|4"},
			{`<%= for (k, v) in m { %><% m[k + k] = "new" %><% } %><%= len(m) %>`, "4"},
		} {
			for rep := 0; rep < 40; rep++ {
				o := runRender(RCase{Tmpl: t[0], Binds: stdBinds()})
				e.rep.Evaluations++
				e.Count("insert-while-iterating")
				if o.Class != "OK" || o.Out != t[1] {
					e.Violate("c08-unroll", fmt.Sprintf("%s: rendered %q (%s %s), once-per-entry reference %q", t[0], o.Out, o.Class, o.Msg, t[1]), map[string]interface{}{"tmpl": t[0], "observed": o})
					break
				}
			}
		}
		// loops nested up to twelve deep, each emitting before and after the inner loop and breaking at its
		// second element: the output of every level is the concatenation of its bodies, however deep it stands
		for depth := 1; depth <= 12; depth++ {
			var src strings.Builder
			for d := 1; d <= depth; d++ {
				fmt.Fprintf(&src, "<%%= for (v%d) in [1, 2, 3] { %%>b%d<%%= v%d %%>", d, d, d)
			}
			for d := depth; d >= 1; d-- {
				fmt.Fprintf(&src, "<%% if (v%d == 2) { break } %%>a%d<%% } %%>", d, d)
			}
			var ref func(d int) string
			ref = func(d int) string {
				if d > depth {
					return ""
				}
				// element 1: before, inner, after; element 2: before, inner, break
				in := ref(d + 1)
				return fmt.Sprintf("b%d1%sa%d", d, in, d) + fmt.Sprintf("b%d2%s", d, in)
			}
			c := RCase{Tmpl: src.String()}
			var o RObs
			if depth <= 6 {
				o = e.addRenderCase("deep-loops", c)
			} else {
				o = runRender(c)
				e.rep.Evaluations++
			}
			e.Distinct(c.Tmpl)
			if want := ref(1); o.Class != "OK" || o.Out != want {
				e.Violate("c08-unroll", fmt.Sprintf("%d nested loops: rendered %d bytes (%s %s), element-by-element reference %d bytes; first difference at byte %d", depth, len(o.Out), o.Class, firstLine(o.Msg), len(want), firstDiff(o.Out, want)), map[string]interface{}{"case": c, "observed_len": len(o.Out)})
			}
		}
		// an Iterator written in Go: walked until Next returns nil, and only then - elements that are
		// falsy or typed nils (a nil pointer, a nil map, a nil slice held in the interface) are elements;
		// a nil pointer that is an Iterator is a nil iterable and renders nothing
		{
			var np *T0
			var nm map[string]int
			var ns []int
			for _, t := range []struct {
				els  []interface{}
				want string
			}{{[]interface{}{1, 2, 3}, "[0:1][1:2][2:3]"}, {[]interface{}{1, np, 3}, "[0:1][1:][2:3]"}, {[]interface{}{np}, "[0:]"}, {[]interface{}{"a", nm, "b"}, "[0:a][1:][2:b]"},
				{[]interface{}{ns, ns}, "[0:][1:]"}, {[]interface{}{0, "", false}, "[0:0][1:][2:false]"}, {[]interface{}{}, ""}, {[]interface{}{&T0{"p"}, &T0{"q"}}, "[0:p][1:q]"}} {
				for _, body := range []string{"[<%= i %>:<%= v %>]", "[<%= i %>:<%= v.Name %>]"} {
					if strings.Contains(body, ".Name") != strings.Contains(t.want, "p]") {
						continue
					}
					tm := "<%= for (i, v) in it { %>" + body + "<% } %>|<%= for (v) in nilit { %>x<% } %>|"
					var nilit *c08it
					o := runRenderExtra(RCase{Tmpl: tm}, map[string]interface{}{"it": &c08it{els: t.els}, "nilit": nilit})
					e.rep.Evaluations++
					e.Count("go-iterator")
					if o.Class != "OK" || o.Out != t.want+"||" {
						e.Violate("c08-unroll", fmt.Sprintf("%s over an iterator handing out %#v: rendered %q (%s %s), want %q", tm, t.els, o.Out, o.Class, firstLine(o.Msg), t.want+"||"), map[string]interface{}{"tmpl": tm, "observed": o})
					}
				}
			}
		}
		// the repaired defect F7 and the seeded iterator-index mutant stay in the corpus
		for _, t := range []string{
			`<% for (x) in [1,2] { %><% for (y) in [3] { %><% } %><% break %><% } %>ok`,
			`<% for (x) in [1,2] { %><% let g = fn() { return 1 } %><% break %><% } %>ok`,
			`<%= for (i, v) in range(5, 8) { %><% if (v == 6) { continue } %><%= i %>:<%= v %>,<% } %>`,
		} {
			o := e.addRenderCase("corpus", RCase{Tmpl: t})
			if o.Class != "OK" {
				e.Violate("c08-corpus", fmt.Sprintf("%s: %s %s", t, o.Class, o.Msg), map[string]interface{}{"tmpl": t, "observed": o})
			}
		}
		_ = sort.Strings
	})
}

// can s be split into a permutation of parts?
func matchPermutation(s string, parts []string) bool {
	if len(parts) == 0 {
		return s == ""
	}
	for i, p := range parts {
		if strings.HasPrefix(s, p) {
			rest := append(append([]string{}, parts[:i]...), parts[i+1:]...)
			if matchPermutation(s[len(p):], rest) {
				return true
			}
		}
	}
	return false
}

func firstDiff(a, b string) int {
	for i := 0; i < len(a) && i < len(b); i++ {
		if a[i] != b[i] {
			return i
		}
	}
	if len(a) < len(b) {
		return len(a)
	}
	return len(b)
}
