package main

// a fixed battery of templates that exercises every construct of the
// evaluator model once (internal driver RENDER; the property drivers build on
// the same machinery with generated programs)

func stdBinds() []Bind {
	return []Bind{
		{"s", vStr("a<b>&'\"c")}, {"h", vHTML("<i>x</i>")}, {"n", vInt(3)}, {"z", vInt(0)}, {"t", vBool(true)}, {"f", vBool(false)},
		{"e", vStr("")}, {"fl", vFloat("1.5")}, {"xs", vSlice("iface", vInt(1), vStr("two"), vHTML("<3>"))},
		{"ss", vSlice("string", vStr("x<"), vStr("y"))}, {"is", vSlice("int", vInt(4), vInt(5))},
		{"m", vMap("string", "iface", vStr("a"), vInt(1), vStr("b"), vStr("<b>"))}, {"mi", vMap("string", "int", vStr("k"), vInt(9))},
		{"o", vT1("o")}, {"p", vPtr(vT1("p"))}, {"t0", vT0("zero")}, {"np", VD{K: "nilptr", Tn: "T0"}},
		{"fail1", vGo(100, vInt(1))}, {"cnt", vGo(101, vInt(7), vStr("c"))}, {"cntT", vGo(101, vInt(8), vBool(true))}, {"cntF", vGo(101, vInt(9), vBool(false))},
		{"mkhtml", vGo(102)}, {"blk", vGo(103)}, {"blk2", vGo(104)}, {"blkctx", vGo(105)}, {"id", vGo(107)},
		{"rec0", vGo(106, vInt(0), vStr("r0"))}, {"rec1", vGo(106, vInt(1), vStr("r1"))}, {"rec2", vGo(106, vInt(2), vStr("r2"))}, {"rec3", vGo(106, vInt(3), vStr("r3"))},
		{"rec4", vGo(106, vInt(4), vStr("r4"))}, {"rec5", vGo(106, vInt(5), vStr("r5"))}, {"rec6", vGo(106, vInt(6), vStr("r6"))}, {"rec7", vGo(106, vInt(7), vStr("r7"))},
		{"rec8", vGo(106, vInt(8), vStr("r8"))}, {"rec9", vGo(106, vInt(9), vStr("r9"))}, {"rec10", vGo(106, vInt(10), vStr("r10"))}, {"rec11", vGo(106, vInt(11), vStr("r11"))},
		{"rec12", vGo(106, vInt(12), vStr("r12"))}, {"rec13", vGo(106, vInt(13), vStr("r13"))}, {"rec14", vGo(106, vInt(14), vStr("r14"))}, {"rec15", vGo(106, vInt(15), vStr("r15"))},
		{"rec16", vGo(106, vInt(16), vStr("r16"))}, {"rec17", vGo(106, vInt(17), vStr("r17"))}, {"rec18", vGo(106, vInt(18), vStr("r18"))},
	}
}

var stdParts = map[string]string{
	"p.html":  `[<%= who %>|<%= s %>]`,
	"q.js":    `var a = "<%= s %>";`,
	"q.html":  `<b>"<%= who %>"</b>`,
	"lay":     `<L><%= yield %></L>`,
	"lay2":    `<%= partial("p.html", {who: "in"}) %>{<%= yield %>}`,
	"bad":     `<%= undefinedThing %>`,
	"badc":    `<% cntT() %><%= undefinedThing %>`,
	"badblk":  `<% contentFor("bb") { %><% cntT() %><%= undefinedThing %><% } %><%= contentOf("bb") %>`,
	"failing": `x<%= fail1() %>`,
	"synerr":  `<%= ( %>`,
	"tree":    `[<%= n %><%= if (n > 0) { %><%= partial("tree", {n: n - 1}) %><% } %>]`,
	"ping":    `(<%= n %><%= if (n > 0) { %><%= partial("pong", {n: n - 1}) %><% } %>)`,
	"pong":    `{<%= n %><%= partial("ping", {n: n - 1}) %>}`,
	"nested":  `<%= partial("p.html", {who: "n"}) %>!`,
}

var battery = []string{
	`plain text`, `<%= s %>`, `<%= h %>`, `<%= n %>|<%= t %>|<%= f %>|<%= e %>|<%= fl %>`, `<%= xs %>|<%= ss %>|<%= is %>`, `<%= m %>`,
	`<%= "lit<" %>`, "<%= `raw<` %>", `<%= raw(s) %>`, `<%= mkhtml(s) %>`, `<%= htmlEscape(s) %>`, `<%= jsEscape(s) %>`, `<%= toJSON(xs) %>`, `<%= json(m) %>`,
	`<% let a = s %><%= a %>`, `<% let a = s + "!" %><%= a %>`, `<%= s + n %>`, `<%= "" + xs %>`, `<%= n + 1 %>|<%= n - 5 %>|<%= n * n %>|<%= 7 / 2 %>|<%= 0 - 7 / 2 %>`,
	`<%= 1 / z %>`, `<%= n < 4 %><%= n > 4 %><%= n <= 3 %><%= n >= 4 %><%= n == 3 %><%= n != 3 %>`, `<%= fl + 0.25 %>|<%= fl * 2.0 %>|<%= fl < 2.0 %>|<%= 1.0 / 0.0 %>`,
	`<%= "a" < "b" %><%= "a" == "a" %><%= "10" == 10 %><%= "a" + true %>`, `<%= t && f %><%= t || f %><%= t == f %><%= t != f %><%= t + t %>`, `<%= t - f %>`,
	`<%= nil == nil %><%= nil != n %><%= nil + 1 %>`, `<%= undefinedVar == nil %><%= !undefinedVar %><%= undefinedVar || t %><%= undefinedVar && t %>`, `<%= undefinedVar %>`, `<%= undefinedVar + 1 %>`,
	`<%= n == "3" %>`, `<%= n + "3" %>`, `<%= xs + 4 %>`, `<%= ss + "z" %>`, `<%= ss + 1 %>`, `<%= is + 1 %>`, `<% let a = xs + 4 %><%= a %>`, `<% let a = xs + 4 %><%= a[0] %>`,
	`<%= !t %><%= !f %><%= !e %><%= !s %><%= !n %><%= !z %><%= !np %><%= !xs %><%= !nil %><%= !!s %>`, `<%= -n %>`,
	`<%= if (t) { %>yes<% } else { %>no<% } %>`, `<%= if (f) { %>a<% } else if (e) { %>b<% } else if (z) { %>c<% } else { %>d<% } %>`, `<% if (t) { %>silent?<% } %>`,
	`<%= if (undefinedVar) { %>a<% } else { %>b<% } %>`, `<%= if (np) { %>a<% } %>x`, `<%= if (fail1()) { %>a<% } %>`, `<%= if (cntF() || cntT() || cnt()) { %>a<% } %>`, `<%= if (cntF() && cnt()) { %>a<% } else if (cntT()) { %>b<% } else if (cnt()) { %>c<% } %>`,
	`<%= for (x) in xs { %>[<%= x %>]<% } %>`, `<%= for (i, x) in xs { %><%= i %>=<%= x %>,<% } %>`, `<% for (x) in xs { %>[<%= x %>]<% } %>`, `<%= for (x) in ss { %><%= x %>;<% } %>`, `<%= for (x) in is { %><%= x + 1 %>;<% } %>`,
	`<%= for (k, v) in mi { %><%= k %>:<%= v %><% } %>`, `<%= for (x) in nil { %>a<% } %>b`, `<%= for (x) in n { %>a<% } %>`, `<%= for (x) in s { %>a<% } %>`, `<%= for (x) in undefinedVar { %>a<% } %>`,
	`<%= for (v) in range(1, 4) { %><%= v %>,<% } %>`, `<%= for (i, v) in between(1, 4) { %><%= i %>:<%= v %>,<% } %>`, `<%= for (v) in until(3) { %><%= v %><% } %>`, `<%= for (g) in groupBy(2, xs) { %>(<%= for (y) in g { %><%= y %>.<% } %>)<% } %>`,
	`<%= for (x) in xs { %><% if (x == 1) { continue } %>[<%= x %>]<% } %>`, `<%= for (x) in xs { %>a<% if (x == "two") { break } %>b<% } %>`, `<%= for (x) in xs { %><%= for (y) in is { %><% if (y == 5) { break } %><%= y %><% } %>|<% } %>`,
	`<%= for (x) in xs { %>a<% if (x == 1) { %>i<% continue %>j<% } %>b<% } %>`, `<%= for (i, v) in range(5, 8) { %><% if (v == 6) { continue } %><%= i %>:<%= v %>,<% } %>`,
	`<% let x = "outer" %><% for (x) in is { %><% let y = x %><% } %><%= x %>|<%= y %>`, `<% let a = 1 %><% for (x) in is { %><% a = a + x %><% } %><%= a %>`, `<% for (x) in is { %><% let q = x %><% } %><%= q %>`,
	`<% let a = [1, 2, 3] %><% a[1] = "B" %><%= a %>`, `<% let a = [1, 2, 3] %><% let b = a %><% b[0] = 9 %><%= a[0] %>`, `<% let a = [1] %><% a[1] = 2 %>`, `<% let a = [1] %><%= a[1] %>`, `<% let a = [1] %><%= a["x"] %>`, `<% let a = [1] %><%= a[0 - 1] %>`, `<% let a = [1] %><% a[0] = nil %>`,
	`<% let hh = {a: 1, "b": s, a: 3} %><%= hh["a"] %>|<%= hh["b"] %>|<%= hh["zz"] %>|<%= len(hh) %>`, `<% let hh = {a: 1} %><% hh["c"] = 5 %><%= hh["c"] %><% hh["c"] = nil %><%= len(hh) %>`, `<%= m["a"] %><%= m["b"] %><%= m[1] %>`, `<%= m[nil] %>`, `<%= mi["k"] %><% mi["k"] = 2 %><%= mi["k"] %>`, `<% mi["k"] = "str" %>`, `<% mi[1] = 1 %>`, `<%= xs[0] %><%= xs[1] %><%= xs[2] %><%= xs[n] %>`, `<%= s[0] %>`, `<%= n[0] %>`,
	`<%= o.Name %>|<%= o.In.Name %>|<%= o.PIn.Name %>|<%= o.NilP %>|<%= o.NilP.Name %>|<%= o.N %>`, `<%= p.Name %>|<%= p.In.Name %>`, `<%= o.priv %>`, `<%= o.Nope %>`, `<%= o.Name.Foo %>`, `<%= o.Tags %>|<%= o.Tags[1] %>`, `<%= o.Ins[1].Name %>`, `<%= o.M["k"].Name %>|<%= o.M["zz"] %>`, `<%= o.Ins[5].Name %>`,
	`<%= t0.Hello("w") %>`, `<%= t0.PHello() %>`, `<%= o.In.Hello("x") %>`, `<%= o.PIn.PHello() %>`, `<%= o.Get().Name %>`, `<%= o.Get() %>`, `<%= p.Get().Name %>`, `<%= o.Nope() %>`, `<%= p.Nope() %>`, `<%= np.Hello("a") %>`, `<%= np.Nope() %>`, `<%= n.Foo() %>`, `<%= o.NilP.Hello("x") %>`, `<%= o.Hello %>`, `<%= t0.Hello %>`,
	`<% let g = fn(a, b) { return a + "," + b } %><%= g("1", "2") %>`, `<% let g = fn() { %>text<% } %><%= g() %>`, `<% let g = fn(a) { if (a) { return "T" } return "F" } %><%= g(t) %><%= g(f) %>`, `<% let g = fn(a) { return a } %><%= g(s) %>`, `<% let g = fn(a, b) { return a } %><%= g(1) %>`, `<% let g = fn(a) { return a } %><%= g(1, 2) %>`,
	`<% let g = fn(a) { %>pre<% return a %>post<% } %><%= g("v") %>`, `<% let a = "1" %><% let b = "2" %><% let g = fn(a, b) { return a + "," + b } %><%= g("" + b, "" + a) %>`, `<% let g = fn(x) { let inner = x } %><% g(1) %><%= inner %>`, `<% let g = fn(k) { return fn(j) { return j + k } } %><% let h2 = g(1) %><%= h2(2) %>`,
	`<%= rec0() %>`, `<%= rec1(5) %>`, `<%= rec1("x") %>`, `<%= rec1(nil) %>`, `<%= rec1() %>`, `<%= rec1(1, 2) %>`, `<%= rec2("a", 2) %>`, `<%= rec2("a") %>`, `<%= rec3(xs, "b", t) %>`, `<%= rec3(nil, nil, nil) %>`, `<%= rec4("a") %>`, `<%= rec4("a", {k: 1}) %>`, `<%= rec4("a", nil) %>`, `<%= rec4() %>`,
	`<%= rec5("a") %>`, `<%= rec5("a") { %>blk<% } %>`, `<%= rec6("a") %>`, `<%= rec6("a", {z: s}) %>`, `<%= rec6() %>`, `<%= rec7(1) %>`, `<%= rec7(1, "a", nil, 2) %>`, `<%= rec7() %>`, `<%= rec7("x") %>`, `<%= rec8() %>`, `<%= rec8("a", "b") %>`, `<%= rec8("a", 1) %>`, `<%= rec9("a") %>`, `<%= rec10() %>`, `<%= rec10("a") %>`,
	`<%= rec11(t0) %>`, `<%= rec11(o.In) %>`, `<%= rec11(np) %>`, `<%= rec12(np) %>`, `<%= rec12(o.PIn) %>`, `<%= rec12(t0) %>`, `<%= rec13(xs) %>`, `<%= rec13(ss) %>`, `<%= rec13([1, "a"]) %>`, `<%= rec14(fl) %>`, `<%= rec14(1) %>`, `<%= rec15(h) %>`, `<%= rec15(s) %>`, `<%= rec16(t) %>`, `<%= rec17({a: 1}) %>`, `<%= rec18() %>`, `<%= rec18("a") %>`,
	`<%= rec2(cnt(), n) %>`, `<%= rec2(fail1(), cnt()) %>`, `<%= rec3(cnt(), undefinedVar, t) %>`, `<%= id(s) %>`, `<%= id(h) %>`, `<%= id(nil) %>`, `<%= id(xs)[1] %>`, `<%= len(s) %>|<%= len(xs) %>|<%= len(m) %>|<%= len(nil) %>`, `<%= len(n) %>`, `<%= truncate(s, {size: 3}) %>|<%= truncate(s, {size: 4, trail: "!"}) %>|<%= truncate("ab") %>`, `<%= truncate(s, {size: "x"}) %>`, `<%= truncate(s, {size: 2, trail: 5}) %>`,
	`<%= blk() { %>in<%= s %><% } %>`, `<%= blk2() { %><%= cnt() %><% } %>`, `<%= blk() %>`, `<%= blkctx({w: s}) { %><%= w %><% } %>|<%= w %>`, `<% let w = "outer" %><%= blkctx({w: "inner"}) { %><%= w %><% let w2 = 1 %><% } %>|<%= w %>|<%= w2 %>`, `<%= htmlEscape("x") { %><b><%= s %></b><% } %>`,
	`<% contentFor("c") { %><b><%= s %></b><% } %>A<%= contentOf("c") %>B<%= contentOf("c") %>`, `<%= contentOf("missing") %>`, `<%= contentOf("missing") { %>default<% } %>`, `<% contentFor("c") { %>[<%= who %>]<% } %><%= contentOf("c", {who: "me"}) %><%= who %>`, `<% let who = "o" %><% contentFor("c") { %>[<%= who %>]<% let leak = 1 %><% } %><%= contentOf("c", {who: "me"}) %><%= who %><%= leak %>`,
	`<%= partial("p.html", {who: "W"}) %>`, `<%= partial("p.html") %>`, `<%= partial("nope") %>`, `<%= partial("bad") %>`, `<%= partial("failing") %>`, `<%= partial("synerr") %>`, `<%= partial("nested") %>`, `<%= partial("p.html", {who: "W", layout: "lay"}) %>`, `<%= partial("p.html", {who: "W", layout: "lay2"}) %>`, `<% let contentType = "application/javascript" %><%= partial("q.js") %>|<%= partial("q.html", {who: "x"}) %>|<%= partial("p.html", {who: "<"}) %>`,
	`<% let who = "outer" %><%= partial("p.html", {who: "inner"}) %><%= who %>`, `<%= partial("p.html", {who: s}) %>`, `a<% raw("<b>") %>c`, `<%= if (true) { %>a<% raw("<b>") %>c<% } %>`, `<% return 5 %>after`, `<%= 1 %>` + "\n" + `<%= undefinedVar %>`, "line1\n<%= if (t) { %>\nx\n<%= undefinedVar %>\n<% } %>", "<%= if (t) { %>a<% } %>\n\n<%= undefinedVar %>",
	`<%= f1() %>`, `<%= s() %>`, `<%= nil() %>`, `<%= o.In.Name() %>`, `<%= xs.Foo %>`, `<%= m.a %>`, `<% let a = 1 %><% a = 2 %><%= a %>`, `<% q = 2 %>`, `<% let a = {x: [1, {y: "deep<"}]} %><%= a["x"][1]["y"] %>`,
	`<%= rec0().foo %>`, `<%= o.Get().Hello("a") %>`, `<%= t0.Hello("a").x %>`, `<%= o.Ins[0].Hello("z") %>`, `<%= o.M["k"].Hello("z") %>`,
}

func init() {
	register("RENDER", func(e *Env) {
		renderPrelude()
		e.perShard = 40
		for _, t := range battery {
			e.addRenderCase("battery", RCase{Tmpl: t, Binds: stdBinds(), Parts: stdParts})
		}
	})
}
