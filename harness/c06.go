package main

import (
	"fmt"
	"html/template"
	"math"
	"regexp"
	"strings"
)

// ---- C06: operators, precedence, associativity vs a reference evaluator ---------

type xnode struct {
	op   string // "" leaf, "!" prefix, else binary
	leaf string // source text of a leaf
	val  interface{}
	l, r *xnode
}

var c06prec = map[string]int{"!": 6, "*": 5, "/": 5, "+": 4, "-": 4, "<": 3, "<=": 3, ">": 3, ">=": 3, "==": 2, "!=": 2, "~=": 2, "&&": 1, "||": 1}
var c06ops = []string{"+", "-", "*", "/", "<", "<=", ">", ">=", "==", "!=", "~=", "&&", "||"}

type refErr struct{}
type refUnspec struct{}

func refTruthy(v interface{}) bool {
	switch t := v.(type) {
	case nil:
		return false
	case bool:
		return t
	case string:
		return t != ""
	}
	return true
}

// the documented meaning; panics with refErr for documented errors and refUnspec
// for combinations the documentation leaves open
func refEval(n *xnode) interface{} {
	if n.op == "" {
		return n.val
	}
	if n.op == "!" {
		return !refTruthy(refEval(n.l))
	}
	l := refEval(n.l)
	if n.op == "&&" {
		if !refTruthy(l) {
			return false
		}
		return refTruthy(refEval(n.r))
	}
	if n.op == "||" {
		if refTruthy(l) {
			return true
		}
		return refTruthy(refEval(n.r))
	}
	r := refEval(n.r)
	if l == nil || r == nil {
		switch n.op {
		case "==":
			return l == nil && r == nil
		case "!=":
			return !(l == nil && r == nil)
		}
		panic(refErr{})
	}
	switch a := l.(type) {
	case int:
		b, ok := r.(int)
		if !ok {
			panic(refErr{})
		}
		switch n.op {
		case "+":
			return a + b
		case "-":
			return a - b
		case "*":
			return a * b
		case "/":
			if b == 0 {
				panic(refErr{})
			}
			if a == math.MinInt && b == -1 {
				return a
			}
			return a / b
		case "<":
			return a < b
		case "<=":
			return a <= b
		case ">":
			return a > b
		case ">=":
			return a >= b
		case "==":
			return a == b
		case "!=":
			return a != b
		}
		panic(refErr{})
	case float64:
		b, ok := r.(float64)
		if !ok {
			panic(refErr{})
		}
		switch n.op {
		case "+":
			return a + b
		case "-":
			return a - b
		case "*":
			return a * b
		case "/":
			if b == 0 {
				panic(refErr{})
			}
			return a / b
		case "<":
			return a < b
		case "<=":
			return a <= b
		case ">":
			return a > b
		case ">=":
			return a >= b
		case "==":
			return a == b
		case "!=":
			return a != b
		}
		panic(refErr{})
	case string:
		if n.op == "+" {
			return a + fmt.Sprint(r)
		}
		b, ok := r.(string)
		if !ok {
			panic(refUnspec{}) // comparison of a string with a non-string: left open
		}
		switch n.op {
		case "<":
			return a < b
		case "<=":
			return a <= b
		case ">":
			return a > b
		case ">=":
			return a >= b
		case "==":
			return a == b
		case "!=":
			return a != b
		case "~=":
			re, err := regexp.Compile(b)
			if err != nil {
				panic(refErr{})
			}
			return re.MatchString(a)
		}
		panic(refErr{})
	case bool:
		b, ok := r.(bool)
		if !ok {
			panic(refUnspec{}) // bool with a non-bool right operand: left open (the code uses truthiness)
		}
		switch n.op {
		case "==":
			return a == b
		case "!=":
			return a != b
		case "+":
			panic(refUnspec{}) // bool + bool: left open (the code computes AND)
		}
		panic(refErr{})
	}
	panic(refErr{})
}

func refRun(n *xnode) (v interface{}, class string) {
	defer func() {
		if r := recover(); r != nil {
			switch r.(type) {
			case refErr:
				class = "ERR"
			case refUnspec:
				class = "UNSPEC"
			default:
				panic(r)
			}
		}
	}()
	return refEval(n), "OK"
}

// style 0 = minimal parentheses, 1 = full, 2 = random redundant ones
func (n *xnode) print(style int, r *Rng) string {
	if n.op == "" {
		return n.leaf
	}
	wrap := func(s string) string { return "(" + s + ")" }
	if n.op == "!" {
		s := n.l.print(style, r)
		if n.l.op != "" && n.l.op != "!" || style == 1 {
			s = wrap(s)
		}
		return "!" + s
	}
	p := c06prec[n.op]
	ls, rs := n.l.print(style, r), n.r.print(style, r)
	if style == 1 {
		if n.l.op != "" {
			ls = wrap(ls)
		}
		if n.r.op != "" {
			rs = wrap(rs)
		}
	} else {
		if n.l.op != "" && n.l.op != "!" && c06prec[n.l.op] < p {
			ls = wrap(ls)
		}
		if n.r.op != "" && n.r.op != "!" && c06prec[n.r.op] <= p {
			rs = wrap(rs)
		}
		if style == 2 {
			if r.Intn(3) == 0 {
				ls = wrap(ls)
			}
			if r.Intn(3) == 0 {
				rs = wrap(rs)
			}
		}
	}
	out := ls + " " + n.op + " " + rs
	if style == 2 && r.Intn(4) == 0 {
		out = wrap(out)
	}
	return out
}

func init() {
	register("C06", func(e *Env) {
		renderPrelude()
		e.perShard = 80
		e.rep.Rule = "expression trees over the pool {0,1,2,7,maxint,1.5,0.25,\"\",\"a\",\"b\",\"10\",\"^a\",true,false,nil, int/float/string/negative variables, floats printed with an exponent, integers beyond 2^53 that differ by one}: every tree of depth 1 (all operator x operand pairs, and ! of each) exhaustively, random trees to depth 5; each printed with minimal, full and random-redundant parentheses; judged against a Go reference evaluator written from the documented meaning (precedence ! > * / > + - > comparisons > == != ~= > && ||, left associativity, short circuit, wrap-around ints, truncating division, errors for division by zero and type mismatches); combinations the documentation leaves open (bool+bool, string vs non-string comparison, bool vs non-bool) are excluded by name; non-trivial = reference value defined; distinct by printed expression"
		binds := []Bind{{"vi", vInt(3)}, {"vneg", vInt(-4)}, {"vfl", vFloat("2.5")}, {"vs", vStr("str")}, {"vmin", vInt(math.MinInt)}, {"vmaxm", vInt(math.MaxInt - 1)}, {"vbig", vFloat("2500000.0")}, {"vtiny", vFloat("0.000025")}, {"vhuge", vFloat("1e200")}, {"vsmall", vFloat("1e-200")}}
		leaves := []*xnode{
			{leaf: "0", val: 0}, {leaf: "1", val: 1}, {leaf: "2", val: 2}, {leaf: "7", val: 7}, {leaf: "9223372036854775807", val: math.MaxInt},
			{leaf: "1.5", val: 1.5}, {leaf: "0.25", val: 0.25}, {leaf: `""`, val: ""}, {leaf: `"a"`, val: "a"}, {leaf: `"b"`, val: "b"}, {leaf: `"10"`, val: "10"}, {leaf: `"^a"`, val: "^a"},
			{leaf: "true", val: true}, {leaf: "false", val: false}, {leaf: "nil", val: nil},
			{leaf: "vi", val: 3}, {leaf: "vneg", val: -4}, {leaf: "vfl", val: 2.5}, {leaf: "vs", val: "str"}, {leaf: "vmin", val: math.MinInt},
			// floats whose printed form uses an exponent (the printed form of x is what string + x appends)
			// integers that differ but have the same float64 image
			{leaf: "9007199254740993", val: 9007199254740993}, {leaf: "9007199254740992", val: 9007199254740992}, {leaf: "vmaxm", val: math.MaxInt - 1},
			{leaf: "vbig", val: 2.5e+06}, {leaf: "vtiny", val: 2.5e-05}, {leaf: "1000000.0", val: 1000000.0},
		}
		judge := func(tag string, n *xnode) {
			v, class := refRun(n)
			if class == "UNSPEC" {
				e.Count("unspecified")
				return
			}
			for style := 0; style < 3; style++ {
				src := n.print(style, e.Rng)
				c := RCase{Tmpl: "<%= " + src + " %>", Binds: binds}
				var o RObs
				if strings.Contains(src, "~=") {
					o = runRender(c) // regexp is an oracle in the model: judged by the reference only
					e.rep.Evaluations++
					e.Count("render-" + tag + "-regexp")
				} else {
					o = e.addRenderCase(tag, c)
				}
				rp := map[string]interface{}{"expr": src, "observed": o, "reference": fmt.Sprint(v), "reference_class": class}
				if class == "ERR" {
					if o.Class != "ERR" {
						e.Violate("c06-ref", fmt.Sprintf("%s: documented to be an error, rendered %q (%s)", src, o.Out, o.Class), rp)
					}
					continue
				}
				e.Distinct("e/" + src)
				want := ""
				if v != nil {
					want = template.HTMLEscapeString(fmt.Sprint(v))
				}
				if o.Class != "OK" || o.Out != want {
					e.Violate("c06-ref", fmt.Sprintf("%s: rendered %q (%s), reference value %q", src, o.Out, o.Class, want), rp)
				}
			}
		}
		// ~= over patterns of every syntactic class (alternation, classes, repetition, groups,
		// anchors, escapes, flags) x subjects that do and do not match, alone and inside a condition
		{
			lit := func(s string) *xnode { return &xnode{leaf: "`" + s + "`", val: s} }
			subjects := []string{"a", "b", "abc", "a|b", "a.c", "aab", "", "a+", "x", "A", "ab", "7"}
			patterns := []string{"a|b", "x|c", "^a|b$", "a.c", "a+", "[ab]", "a{2}", "(a)(b)", `a\.b`, "a?b", "b$", "^$", "|", "a|", "(?i)a", `\d`, "[^a]", "a*", ".", "ab"}
			for _, su := range subjects {
				for _, pa := range patterns {
					judge("re", &xnode{op: "~=", l: lit(su), r: lit(pa)})
					if len(su) == 1 && len(pa) == 3 {
						judge("re", &xnode{op: "&&", l: &xnode{op: "~=", l: lit(su), r: lit(pa)}, r: &xnode{op: "==", l: &xnode{op: "/", l: leaves[3], r: leaves[2]}, r: &xnode{leaf: "3", val: 3}}})
					}
				}
			}
		}
		// every tree of depth 2 over a small pool (string / int / float variables and literals) and the
		// arithmetic, comparison and equality operators, in both nestings: chains of one operator whose
		// head is a string VARIABLE included (s + 1 + 2 appends 1 then 2)
		{
			pool2 := []*xnode{{leaf: "vs", val: "str"}, {leaf: `"a"`, val: "a"}, {leaf: "1", val: 1}, {leaf: "2", val: 2}, {leaf: "vi", val: 3}, {leaf: "1.5", val: 1.5}, {leaf: "0.0", val: 0.0}, {leaf: "0", val: 0}}
			ops2 := []string{"+", "-", "*", "/", "<", "=="}
			judge2 := func(n *xnode) {
				v, class := refRun(n)
				if class == "UNSPEC" {
					return
				}
				src := n.print(0, e.Rng)
				o := runRender(RCase{Tmpl: "<%= " + src + " %>", Binds: binds})
				e.rep.Evaluations++
				e.Count("render-d2")
				rp := map[string]interface{}{"expr": src, "observed": o, "reference": fmt.Sprint(v), "reference_class": class}
				if class == "ERR" {
					if o.Class != "ERR" {
						e.Violate("c06-ref", fmt.Sprintf("%s: documented to be an error, rendered %q (%s)", src, o.Out, o.Class), rp)
					}
					return
				}
				want := ""
				if v != nil {
					want = template.HTMLEscapeString(fmt.Sprint(v))
				}
				if o.Class != "OK" || o.Out != want {
					e.Violate("c06-ref", fmt.Sprintf("%s: rendered %q (%s), reference value %q", src, o.Out, o.Class, want), rp)
				}
			}
			for _, a := range pool2 {
				for _, b := range pool2 {
					for _, c := range pool2 {
						for _, o1 := range ops2 {
							for _, o2 := range ops2 {
								judge2(&xnode{op: o2, l: &xnode{op: o1, l: a, r: b}, r: c})
								if !e.Thorough() && o1 != o2 {
									continue
								}
								judge2(&xnode{op: o1, l: a, r: &xnode{op: o2, l: b, r: c}})
							}
						}
					}
				}
			}
		}
		// float division: a zero divisor is an error whatever the dividend; a quotient that overflows is +Inf, not an error
		{
			hg, sm, z, one := &xnode{leaf: "vhuge", val: 1e200}, &xnode{leaf: "vsmall", val: 1e-200}, &xnode{leaf: "0.0", val: 0.0}, &xnode{leaf: "1.5", val: 1.5}
			for _, n := range []*xnode{{op: "/", l: hg, r: sm}, {op: "/", l: z, r: z}, {op: "/", l: &xnode{op: "-", l: one, r: one}, r: z}, {op: "/", l: sm, r: hg}, {op: "*", l: hg, r: hg},
				{op: "/", l: one, r: &xnode{op: "-", l: one, r: one}}, {op: "+", l: &xnode{leaf: `"q="`, val: "q="}, r: &xnode{op: "/", l: z, r: z}}, {op: "/", l: &xnode{op: "*", l: z, r: hg}, r: &xnode{op: "*", l: z, r: sm}}} {
				v, class := refRun(n)
				src := n.print(0, e.Rng)
				o := runRender(RCase{Tmpl: "<%= " + src + " %>", Binds: binds})
				e.rep.Evaluations++
				e.Count("render-float-extremes")
				rp := map[string]interface{}{"expr": src, "observed": o, "reference": fmt.Sprint(v), "reference_class": class}
				if class == "ERR" {
					if o.Class != "ERR" {
						e.Violate("c06-ref", fmt.Sprintf("%s: documented to be an error, rendered %q (%s)", src, o.Out, o.Class), rp)
					}
				} else if class != "UNSPEC" && (o.Class != "OK" || o.Out != template.HTMLEscapeString(fmt.Sprint(v))) {
					e.Violate("c06-ref", fmt.Sprintf("%s: rendered %q (%s %s), reference value %q", src, o.Out, o.Class, firstLine(o.Msg), fmt.Sprint(v)), rp)
				}
			}
		}
		// NaN (held by a variable, and computed: Inf - Inf): every ordered comparison with it is false,
		// == is false and != is true, whichever side it stands on (IEEE 754 / Go)
		{
			hg, one := &xnode{leaf: "vhuge", val: 1e200}, &xnode{leaf: "1.5", val: 1.5}
			inf := &xnode{op: "*", l: hg, r: hg}
			nans := []*xnode{{leaf: "vnan", val: math.NaN()}, {op: "-", l: inf, r: inf}}
			others := []*xnode{one, {leaf: "0.0", val: 0.0}, hg, inf, {leaf: "2", val: 2}, {leaf: "vnan", val: math.NaN()}}
			for _, nn := range nans {
				for _, ot := range others {
					for _, op := range []string{"<", "<=", ">", ">=", "==", "!="} {
						for _, n := range []*xnode{{op: op, l: nn, r: ot}, {op: op, l: ot, r: nn}, {op: "!", l: &xnode{op: op, l: nn, r: ot}}, {op: "&&", l: &xnode{op: op, l: ot, r: nn}, r: &xnode{leaf: "true", val: true}}} {
							v, class := refRun(n)
							if class != "OK" {
								continue
							}
							src := n.print(0, e.Rng)
							o := runRenderExtra(RCase{Tmpl: "<%= " + src + " %>", Binds: binds}, map[string]interface{}{"vnan": math.NaN()})
							e.rep.Evaluations++
							e.Count("render-nan")
							if o.Class != "OK" || o.Out != fmt.Sprint(v) {
								e.Violate("c06-ref", fmt.Sprintf("%s: rendered %q (%s %s), reference value %q", src, o.Out, o.Class, firstLine(o.Msg), fmt.Sprint(v)), map[string]interface{}{"expr": src, "observed": o, "reference": fmt.Sprint(v)})
							}
						}
					}
				}
			}
		}
		for _, a := range leaves {
			judge("d1", &xnode{op: "!", l: a})
			for _, b := range leaves {
				for _, op := range c06ops {
					judge("d1", &xnode{op: op, l: a, r: b})
				}
			}
		}
		e.rep.Exhaustive = true
		var gen func(d int) *xnode
		gen = func(d int) *xnode {
			if d == 0 || e.Rng.Intn(5) == 0 {
				return leaves[e.Rng.Intn(len(leaves))]
			}
			if e.Rng.Intn(7) == 0 {
				return &xnode{op: "!", l: gen(d - 1)}
			}
			// bias towards well-typed combinations: pick an operator family
			op := c06ops[e.Rng.Intn(len(c06ops))]
			return &xnode{op: op, l: gen(d - 1), r: gen(d - 1)}
		}
		n := 1200
		if e.Thorough() {
			n = 25000
		}
		for i := 0; i < n; i++ {
			judge("rand", gen(2+e.Rng.Intn(4)))
		}
		// arithmetic-only and logic-only trees (mostly valid)
		nums := []*xnode{leaves[0], leaves[1], leaves[2], leaves[3], leaves[15], leaves[16]}
		var genNum func(d int) *xnode
		genNum = func(d int) *xnode {
			if d == 0 || e.Rng.Intn(4) == 0 {
				return nums[e.Rng.Intn(len(nums))]
			}
			return &xnode{op: []string{"+", "-", "*", "/"}[e.Rng.Intn(4)], l: genNum(d - 1), r: genNum(d - 1)}
		}
		var genLogic func(d int) *xnode
		genLogic = func(d int) *xnode {
			if d == 0 {
				return &xnode{op: []string{"<", "<=", ">", ">=", "==", "!="}[e.Rng.Intn(6)], l: genNum(1), r: genNum(1)}
			}
			if e.Rng.Intn(4) == 0 {
				return &xnode{op: "!", l: genLogic(d - 1)}
			}
			return &xnode{op: []string{"&&", "||", "==", "!="}[e.Rng.Intn(4)], l: genLogic(d - 1), r: genLogic(d - 1)}
		}
		for i := 0; i < n/2; i++ {
			judge("arith", genNum(2+e.Rng.Intn(3)))
			judge("logic", genLogic(1+e.Rng.Intn(3)))
		}
	})
}
