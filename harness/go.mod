module verifharness

go 1.21

require github.com/gobuffalo/plush/v5 v5.0.0

require github.com/gobuffalo/flect v1.0.2 // indirect

replace github.com/gobuffalo/plush/v5 => /repo
