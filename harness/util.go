package main

import (
	"runtime"
	"strings"
)

// panicSite names the first plush frame on the panicking goroutine's stack.
func panicSite() string {
	pcs := make([]uintptr, 40)
	n := runtime.Callers(3, pcs)
	frames := runtime.CallersFrames(pcs[:n])
	for {
		f, more := frames.Next()
		if strings.Contains(f.Function, "gobuffalo/plush") {
			i := strings.LastIndex(f.Function, "/")
			return f.Function[i+1:]
		}
		if !more {
			break
		}
	}
	return "?"
}
