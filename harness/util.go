package main

import (
	"runtime"
	"strings"
)

// panicSite names the first plush frame on the panicking goroutine's stack.
func panicSite() string {
	pcs := make([]uintptr, 40)
	n := runtime.Callers(3, pcs)
	frames := runtime.CallersFrames(pcs[:n])
	for {
		f, more := frames.Next()
		if strings.Contains(f.Function, "gobuffalo/plush") {
			i := strings.LastIndex(f.Function, "/")
			return f.Function[i+1:]
		}
		if !more {
			break
		}
	}
	return "?"
}

func sortStrings(xs []string) {
	for i := 1; i < len(xs); i++ {
		for j := i; j > 0 && xs[j] < xs[j-1]; j-- {
			xs[j], xs[j-1] = xs[j-1], xs[j]
		}
	}
}
