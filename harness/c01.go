package main

import (
	"fmt"
	"github.com/gobuffalo/plush/v5"
	"html/template"
	"strings"
	"time"
)

// ---- C01: strings are always escaped, trusted HTML verbatim exactly once --------

// a route wraps an expression / statement sequence that yields the payload
// variable unchanged; P is the placeholder for the inner expression.
// Go-side values with typed fields (not carried by the model)
type c01role string
type c01page struct {
	Body  template.HTML
	Title string
	Role  c01role
}

type c01strer struct{ s string } // prints itself: plain text, not trusted HTML

func (x c01strer) String() string { return x.s }

type c01both struct{ s string } // HTMLer and Stringer: HTML() decides

func (x c01both) String() string      { return "str:" + x.s }
func (x c01both) HTML() template.HTML { return template.HTML(x.s) }

// values whose POINTER type has the printing method, held in struct fields
type c01ph struct{ s string }

func (x *c01ph) HTML() template.HTML { return template.HTML(x.s) }

type c01ps struct{ s string }

func (x *c01ps) String() string { return x.s }

// a named string type that is an HTMLer
type c01nh string

func (x c01nh) HTML() template.HTML { return template.HTML("<u>" + string(x) + "</u>") }

type c01hold struct {
	H *c01ph
	S *c01ps
	N *c01ph
	V c01both
}

var c01time = time.Date(2020, 3, 4, 5, 6, 7, 0, time.UTC)

type route struct {
	pre  string // statements before the output position
	expr string // expression in output position (uses X for the inner expression)
}

var c01routes = []struct {
	name string
	pre  string // may use X (inner expression) and N (a fresh suffix)
	expr string // expression that evaluates to the same value as X
	emit string // alternatively a full emission form using X (no further nesting)
}{
	{"id", "", "X", ""},
	{"paren", "", "(X)", ""},
	{"let", "<% let aN = X %>", "aN", ""},
	{"assign", "<% let bN = 0 %><% bN = X %>", "bN", ""},
	{"array", "", "[0, X][1]", ""},
	{"arrayvar", "<% let cN = [X, 1] %>", "cN[0]", ""},
	{"hash", "<% let dN = {k: X} %>", `dN["k"]`, ""},
	{"nested", "<% let eN = {k: [1, {j: X}]} %>", `eN["k"][1]["j"]`, ""},
	{"idhelper", "", "id(X)", ""},
	{"userfn", "<% let fN = fn(q) { return q } %>", "", "<%= fN(X) %>"},
	{"userfnarg", "<% let gN = fn(q) { %><%= q %><% } %>", "", "<%= gN(X) %>"},
	{"for", "", "", "<%= for (v) in [X] { %><%= v %><% } %>"},
	{"forkey", "", "", "<%= for (i, v) in [1, X] { %><%= if (i == 1) { %><%= v %><% } %><% } %>"},
	{"if", "", "", "<%= if (true) { %><%= X %><% } else { %>no<% } %>"},
	{"else", "", "", "<%= if (false) { %>no<% } else if (nil) { %>no<% } else { %><%= X %><% } %>"},
	{"blockctx", "", "", "<%= blkctx({w: X}) { %><%= w %><% } %>"},
	{"contentfor", "<% contentFor(\"cN\") { %><%= X %><% } %>", "", "<%= contentOf(\"cN\") %>"},
	{"contentofdata", "<% contentFor(\"eN\") { %><%= w %><% } %>", "", "<%= contentOf(\"eN\", {w: X}) %>"},
	{"contentdefault", "", "", "<%= contentOf(\"undefinedN\", {w: X}) { %><%= w %><% } %>"},
	{"partial", "", "", "<%= partial(\"echo\", {who: X}) %>"},
	{"partiallayout", "", "", "<%= partial(\"echo\", {who: X, layout: \"lay\"}) %>"},
}

func init() {
	register("C01", func(e *Env) {
		renderPrelude()
		e.perShard = 60
		e.rep.Rule = "a payload string (full byte alphabet incl. < > & ' \", pre-formed entities, multi-byte runes, invalid UTF-8) bound as a Go string, as a struct field, map value and slice element, and the same payload as template.HTML / raw(): moved through compositions (depth 1..3) of the plumbing routes let, assignment, array, hash, nested index, Go helper, user function (result and emitted argument), for (value and keyed), if/else, block helper with own context, contentFor/contentOf (+data, +default block), partial (+layout); helpers with template.HTML-typed parameters fed plain strings, and trusted HTML as the left operand of + with a plain string (both must be rejected or stay escaped); oracle: between two markers the output must be exactly html-escape(payload) for strings and exactly the payload, once, for trusted HTML; distinct by (payload, route composition, kind)"
		payloads := []string{`<b>&'"x`, `a&amp;b`, `</script><script>`, `'"`, `plain`, "é世<😀>", "\xff<\x80>", `&#34;&lt;`, "<", ">", "&", " "}
		parts := map[string]string{"echo": `<%= who %>`, "lay": `(<%= yield %>)`}
		sources := []struct {
			name    string
			expr    string
			trusted bool
		}{
			{"var", "p", false}, {"field", "o.Name", false}, {"ptrfield", "po.Name", false}, {"mapval", `m["k"]`, false}, {"sliceel", "xs[0]", false}, {"strslice", "ss[0]", false},
			{"concat", `"" + p`, false}, {"method", "o.In.Hello(\"\")", false},
			{"html", "hp", true}, {"raw", "raw(p)", true}, {"mkhtml", "mkhtml(p)", true}, {"htmlfield", `hm["k"]`, true},
		}
		n := 0
		run := func(payload string, src int, rs []int) {
			s := sources[src]
			inner := s.expr
			var pre strings.Builder
			emit := ""
			for depth, ri := range rs {
				r := c01routes[ri]
				suffix := fmt.Sprintf("%d", depth)
				if emit != "" {
					return // an emission form cannot be nested further
				}
				pre.WriteString(strings.NewReplacer("X", inner, "N", suffix).Replace(r.pre))
				if r.emit != "" {
					emit = strings.NewReplacer("X", inner, "N", suffix).Replace(r.emit)
				} else {
					inner = strings.NewReplacer("X", inner, "N", suffix).Replace(r.expr)
				}
			}
			if emit == "" {
				emit = "<%= " + inner + " %>"
			}
			tmpl := pre.String() + "[[" + emit + "]]"
			helloPrefix := ""
			if s.name == "method" {
				helloPrefix = "hello  from "
			}
			binds := []Bind{{"p", vStr(payload)}, {"hp", vHTML(payload)}, {"o", VD{K: "struct", Tn: "T1", Fn: []string{"Name", "In"}, Els: []VD{vStr(payload), vT0(payload)}}},
				{"po", vPtr(VD{K: "struct", Tn: "T1", Fn: []string{"Name"}, Els: []VD{vStr(payload)}})},
				{"m", vMap("string", "iface", vStr("k"), vStr(payload))}, {"hm", vMap("string", "iface", vStr("k"), vHTML(payload))},
				{"xs", vSlice("iface", vStr(payload))}, {"ss", vSlice("string", vStr(payload))},
				{"id", vGo(107)}, {"mkhtml", vGo(102)}, {"blkctx", vGo(105)}}
			c := RCase{Tmpl: tmpl, Binds: binds, Parts: parts}
			o := e.addRenderCase(s.name, c)
			n++
			want := template.HTMLEscapeString(helloPrefix + payload)
			if s.trusted {
				want = payload
			}
			for _, ri := range rs {
				if c01routes[ri].name == "partiallayout" {
					want = "(" + want + ")"
				}
			}
			e.Distinct(fmt.Sprint(payload, src, rs))
			if o.Class != "OK" || o.Out != "[["+want+"]]" {
				key := "c01-escape"
				if s.trusted {
					key = "c01-trusted"
				}
				e.Violate(key, fmt.Sprintf("%s: payload %q via %s rendered %q (%s %s), want %q", tmpl, payload, s.name, o.Out, o.Class, o.Msg, "[["+want+"]]"), map[string]interface{}{"case": c, "observed": o})
			}
		}
		nr := len(c01routes)
		for pi, p := range payloads {
			for si := range sources {
				for r1 := 0; r1 < nr; r1++ {
					if pi < 3 || (pi+si+r1)%4 == 0 || e.Thorough() {
						run(p, si, []int{r1})
					}
				}
			}
		}
		m := 900
		if e.Thorough() {
			m = 20000
		}
		for i := 0; i < m; i++ {
			d := 2 + e.Rng.Intn(2)
			rs := make([]int, d)
			for j := range rs {
				rs[j] = e.Rng.Intn(nr)
				if j < d-1 && c01routes[rs[j]].emit != "" {
					rs[j] = e.Rng.Intn(9) // an expression route so that nesting continues
				}
			}
			run(payloads[e.Rng.Intn(len(payloads))], e.Rng.Intn(len(sources)), rs)
		}
		// type laundering: a helper parameter typed template.HTML must not accept a plain string
		// (binding it would turn untrusted text into trusted HTML); a rejected call is correct,
		// otherwise the payload must still come out escaped.  Trusted HTML passes verbatim, once.
		for _, p := range payloads {
			binds := []Bind{{"p", vStr(p)}, {"hp", vHTML(p)}, {"o", vT1(p)}, {"ss", vSlice("string", vStr(p))}, {"boldh", vGo(109)}, {"joinh", vGo(110)}}
			for _, t := range []string{"[[<%= boldh(p) %>]]", "<% let q = p %>[[<%= boldh(q) %>]]", "[[<%= boldh(\"\" + p) %>]]", "[[<%= for (v) in ss { %><%= boldh(v) %><% } %>]]",
				"[[<%= boldh(o.Name) %>]]", "<% let g = fn(a) { return boldh(a) } %>[[<%= g(p) %>]]", "[[<%= joinh(\"\", p) %>]]", "[[<%= joinh(\"\", hp, p) %>]]"} {
				c := RCase{Tmpl: t, Binds: binds}
				o := runRender(c)
				e.rep.Evaluations++
				e.Count("typed-html-param")
				if o.Class == "PANIC" {
					e.Violate("eval-panic@"+siteOf(o.Msg), fmt.Sprintf("Render panicked on %q: %s", t, o.Msg), map[string]interface{}{"case": c, "observed": o})
				}
				if o.Class == "OK" && p != template.HTMLEscapeString(p) && strings.Contains(o.Out, p) {
					e.Violate("c01-escape", fmt.Sprintf("%s: the plain string %q was bound to a template.HTML parameter and came out raw: %q", t, p, o.Out), map[string]interface{}{"case": c, "observed": o})
				}
			}
			// operators: trusted HTML combined with a plain string must not yield trusted HTML that
			// contains the string raw (an error is fine; so is an escaped result)
			for _, t := range []string{"[[<%= raw(\"\") + p %>]]", "[[<%= hi + p %>]]", "<% let y = hi + p %>[[<%= y %>]]", "<% let g = fn(a, b) { return a + b } %>[[<%= g(raw(\"\"), p) %>]]",
				"[[<%= mkhtml(\"<u>\") + p %>]]", "[[<%= hi + \"\" + p %>]]", "[[<%= for (v) in ss { %><%= hi + v %><% } %>]]", "[[<%= [hi + p][0] %>]]", "[[<%= (hi + o.Name) %>]]"} {
				c := RCase{Tmpl: t, Binds: append(append([]Bind{}, binds...), Bind{"hi", vHTML("<i>")}, Bind{"mkhtml", vGo(102)})}
				o := runRender(c)
				e.rep.Evaluations++
				e.Count("html-plus-string")
				if o.Class == "PANIC" {
					e.Violate("eval-panic@"+siteOf(o.Msg), fmt.Sprintf("Render panicked on %q: %s", t, o.Msg), map[string]interface{}{"case": c, "observed": o})
				}
				if o.Class == "OK" && p != template.HTMLEscapeString(p) && strings.Contains(o.Out, p) {
					e.Violate("c01-escape", fmt.Sprintf("%s: the plain string %q was joined to trusted HTML and came out raw: %q", t, p, o.Out), map[string]interface{}{"case": c, "observed": o})
				}
			}
			c := RCase{Tmpl: "[[<%= boldh(hp) %>]]|[[<%= boldh(raw(p)) %>]]|[[<%= joinh(\"-\", hp, hp) %>]]", Binds: binds}
			o := runRender(c)
			e.rep.Evaluations++
			if want := "[[<b>" + p + "</b>]]|[[<b>" + p + "</b>]]|[[" + p + "-" + p + "]]"; o.Class != "OK" || o.Out != want {
				e.Violate("c01-escape", fmt.Sprintf("%s rendered %q (%s %s), want %q", c.Tmpl, o.Out, o.Class, o.Msg, want), map[string]interface{}{"case": c, "observed": o})
			}
		}
		// typed struct fields, map values and slice elements (Go-side values the model does not carry):
		// a field declared template.HTML is trusted and comes out verbatim once, a field declared as a
		// plain or named string is escaped, wherever it is read from
		for _, p := range payloads {
			pg := c01page{Body: template.HTML(p), Title: p, Role: c01role(p)}
			extra := map[string]interface{}{"pg": pg, "ppg": &pg, "pgs": []c01page{pg}, "pgm": map[string]c01page{"k": pg}, "pgi": []interface{}{pg, &pg},
				"hold": c01hold{H: &c01ph{p}, S: &c01ps{p}, V: c01both{p}}, "phold": &c01hold{H: &c01ph{p}, S: &c01ps{p}}, "holds": []c01hold{{H: &c01ph{p}}}, "pth": &c01ph{p},
				"tm": c01time, "ptm": &c01time, "hs": []template.HTML{template.HTML(p)}, "ha": [2]template.HTML{template.HTML(p), template.HTML(p)}, "hms": map[string]template.HTML{"k": template.HTML(p)}, "phs": &[]template.HTML{template.HTML(p)},
				"nhs": []c01nh{c01nh(p)}, "rs": []c01role{c01role(p)}, "sr": c01strer{p}, "psr": &c01strer{p}, "srs": []interface{}{c01strer{p}}, "both": c01both{p}, "ps": p}
			esc := template.HTMLEscapeString(p)
			for _, t := range []struct{ tmpl, want string }{
				{"[[<%= pg.Body %>]]", p}, {"[[<%= ppg.Body %>]]", p}, {"[[<%= pgs[0].Body %>]]", p}, {"[[<%= pgm[\"k\"].Body %>]]", p},
				{"[[<%= pgi[1].Body %>]]", p}, {"<% let b = pg.Body %>[[<%= b %>]]", p}, {"[[<%= for (x) in pgs { %><%= x.Body %><% } %>]]", p},
				{"[[<%= pg.Title %>]]", esc}, {"[[<%= ppg.Title %>]]", esc}, {"[[<%= pg.Role %>]]", "?" + esc},
				{"[[<%= pgs[0].Role %>]]", "?" + esc},
				// a value that prints itself (fmt.Stringer) is text; one that is also an HTMLer is trusted HTML
				{"[[<%= sr %>]]", esc}, {"[[<%= psr %>]]", esc}, {"[[<%= for (x) in srs { %><%= x %><% } %>]]", esc}, {"<% let q = sr %>[[<%= q %>]]", esc},
				// trusted HTML (and a Stringer) reached through a pointer-typed struct field: the pointer has the method
				{"[[<%= hold.H %>]]", p}, {"[[<%= phold.H %>]]", p}, {"[[<%= hold.S %>]]", esc}, {"[[<%= phold.S %>]]", esc}, {"[[<%= hold.N %>]]", ""}, {"[[<%= hold.V %>]]", p},
				{"[[<%= holds[0].H %>]]", p}, {"[[<%= for (x) in holds { %><%= x.H %><% } %>]]", p}, {"<% let q = hold.H %>[[<%= q %>]]", p}, {"[[<%= pth %>]]", p},
				// a time printed with a layout that came from string data: the layout's text is text
				{"<% let TIME_FORMAT = ps %>[[<%= tm %>]]", template.HTMLEscapeString(c01time.Format(p))}, {"<% let TIME_FORMAT = ps %>[[<%= ptm %>]]", template.HTMLEscapeString(c01time.Format(p))},
				{"<% let TIME_FORMAT = \"<2006>\" %>[[<%= for (x) in [tm] { %><%= x %><% } %>]]", "&lt;2020&gt;"},
				// typed slices, arrays and maps of trusted HTML (and of a named string type that is an HTMLer), read by a loop and by index
				{"[[<%= for (x) in hs { %><%= x %><% } %>]]", p}, {"[[<%= for (i, x) in ha { %><%= x %><% } %>]]", p + p}, {"[[<%= for (k, x) in hms { %><%= x %><% } %>]]", p}, {"[[<%= hs[0] %>]]", p}, {"[[<%= hms[\"k\"] %>]]", p},
				{"[[<%= for (x) in phs { %><%= x %><% } %>]]", p}, {"[[<%= for (x) in nhs { %><%= x %><% } %>]]", "<u>" + p + "</u>"}, {"[[<%= nhs[0] %>]]", "<u>" + p + "</u>"}, {"<%= for (x) in hs { %><% let q = x %>[[<%= q %>]]<% } %>", p},
				{"[[<%= for (x) in rs { %><%= x %><% } %>]]", "?" + esc},
				{"[[<%= both %>]]", p}, {"<% let q = both %>[[<%= q %>]]", p},
				// debug / inspect print data: only the pre tags are markup
				{"[[<%= debug(ps) %>]]", "<pre>" + esc + "</pre>"}, {"[[<%= debug(sr) %>]]", "<pre>" + template.HTMLEscapeString(fmt.Sprintf("%+v", c01strer{p})) + "</pre>"},
				{"[[<%= inspect(ps) %>]]", esc}, {"<% let r = pg.Role %>[[<%= r %>]]", "?" + esc}, {"[[<%= for (x) in pgi { %><%= x.Title %><% } %>]]", esc + esc},
			} {
				c := RCase{Tmpl: t.tmpl}
				o := runRenderExtra(c, extra)
				e.rep.Evaluations++
				e.Count("typed-field")
				// a value of a named string type has no rule of its own in the sink: it prints as nothing
				// today; printing it escaped would be as safe ("?" marks these)
				if strings.HasPrefix(t.want, "?") {
					t.want = t.want[1:]
					if o.Class == "OK" && o.Out == "[[]]" {
						continue
					}
				}
				if o.Class != "OK" || o.Out != "[["+t.want+"]]" {
					e.Violate("c01-escape", fmt.Sprintf("%s with payload %q rendered %q (%s %s), want %q", t.tmpl, p, o.Out, o.Class, o.Msg, "[["+t.want+"]]"), map[string]interface{}{"case": c, "payload": p, "observed": o})
				}
			}
		}
		// several rendered blocks pending at once (replays inside one enclosing block, block helpers in a
		// loop): each keeps exactly what it rendered - escaped string data, trusted HTML verbatim
		for _, p := range payloads {
			esc := template.HTMLEscapeString(p)
			for _, t := range [][2]string{
				{`<% contentFor("cell") { %><td><%= v %></td><% } %>[[<%= if (true) { %><%= contentOf("cell", {v: p}) %><%= contentOf("cell", {v: "R&D"}) %><%= contentOf("cell", {v: hp}) %><% } %>]]`,
					"<td>" + esc + "</td><td>R&amp;D</td><td>" + p + "</td>"},
				{`[[<%= for (x) in [p, "<i>", hp] { %><%= blk() { %><%= x %><% } %><% } %>]]`, "[" + esc + "][&lt;i&gt;][" + p + "]"},
				{`<% let a = blk() { %><%= p %><% } %><% let b = blk() { %>second & longer<% } %>[[<%= a %><%= b %><%= a %>]]`, "[" + esc + "][second & longer][" + esc + "]"},
			} {
				c := RCase{Tmpl: t[0], Binds: []Bind{{"p", vStr(p)}, {"hp", vHTML(p)}, {"blk", vGo(103)}}}
				o := e.addRenderCase("pending-blocks", c)
				if o.Class != "OK" || o.Out != "[["+t[1]+"]]" {
					e.Violate("c01-escape", fmt.Sprintf("%s with payload %q rendered %q (%s %s), want %q", t[0], p, o.Out, o.Class, o.Msg, "[["+t[1]+"]]"), map[string]interface{}{"case": c, "payload": p, "observed": o})
				}
			}
		}
		// a block helper that returns a plain STRING made of an argument and of what its block rendered
		// to: the string is data, all of it is escaped by the sink (Go-only helper)
		for _, p := range payloads {
			extra := map[string]interface{}{"pl": p,
				"labelh": func(text string, h plush.HelperContext) (string, error) {
					body, err := h.Block()
					return text + ": " + body, err
				},
				"labelctx": func(text string, h plush.HelperContext) (string, error) {
					body, err := h.BlockWith(h.New())
					return body + "/" + text, err
				},
				"labelhtml": func(text string, h plush.HelperContext) (template.HTML, error) {
					body, err := h.Block()
					return template.HTML(template.HTMLEscapeString(text) + ": " + body), err
				}}
			esc := template.HTMLEscapeString(p)
			for _, t := range [][2]string{
				{"[[<%= labelh(pl) { %>field<% } %>]]", template.HTMLEscapeString(p + ": field")}, {"[[<%= labelctx(pl) { %>f<%= 1 %><% } %>]]", template.HTMLEscapeString("f1/" + p)},
				{"[[<%= labelh(pl) { %><%= pl %><% } %>]]", template.HTMLEscapeString(p + ": " + esc)}, {"<% let r = labelh(pl) { %>x<% } %>[[<%= r %>]]", template.HTMLEscapeString(p + ": x")},
				{"[[<%= labelhtml(pl) { %><i><% } %>]]", esc + ": <i>"}, {"[[<%= for (q) in [pl] { %><%= labelh(q) { %>z<% } %><% } %>]]", template.HTMLEscapeString(p + ": z")},
			} {
				c := RCase{Tmpl: t[0]}
				o := runRenderExtra(c, extra)
				e.rep.Evaluations++
				e.Count("string-block-helper")
				if o.Class != "OK" || o.Out != "[["+t[1]+"]]" {
					e.Violate("c01-escape", fmt.Sprintf("%s with payload %q rendered %q (%s %s), want %q", t[0], p, o.Out, o.Class, o.Msg, "[["+t[1]+"]]"), map[string]interface{}{"case": c, "payload": p, "observed": o})
				}
			}
		}
		// helpers that take a NAME (contentOf, contentFor, partial) where a variable of that very name holds the
		// payload string: the name is a name, the variable's text does not reach the output through it
		for _, p := range payloads {
			for _, t := range [][2]string{
				{`[[<%= contentOf("p") { %>d<% } %>]]`, "d"}, {`<% let title = p %>[[<%= contentOf("title") { %>Untitled<% } %>]]`, "Untitled"},
				{`[[<%= for (name) in ss { %><%= contentOf("name") { %>-<% } %><% } %>]]`, "-"}, {`<% contentFor("p") { %>stored<% } %>[[<%= contentOf("p") %>]]`, "stored"},
				{`<% let echo = p %>[[<%= partial("echo", {who: "w"}) %>]]`, "w"},
			} {
				c := RCase{Tmpl: t[0], Binds: []Bind{{"p", vStr(p)}, {"ss", vSlice("string", vStr(p))}}, Parts: map[string]string{"echo": `<%= who %>`}}
				o := e.addRenderCase("name-taking-helpers", c)
				if o.Class != "OK" || o.Out != "[["+t[1]+"]]" {
					e.Violate("c01-escape", fmt.Sprintf("%s with payload %q rendered %q (%s %s), want %q", t[0], p, o.Out, o.Class, o.Msg, "[["+t[1]+"]]"), map[string]interface{}{"case": c, "payload": p, "observed": o})
				}
			}
		}
		// a variable holds whatever was assigned to it last: a plain string assigned to a variable that
		// held trusted HTML is escaped, trusted HTML assigned to one that held a string is verbatim
		for _, p := range payloads {
			esc := template.HTMLEscapeString(p)
			for _, t := range [][2]string{
				{`<% let t = raw("<b>") %><% t = p %>[[<%= t %>]]`, esc}, {`<% let t = "none" %><% t = raw(p) %>[[<%= t %>]]`, p},
				{`<% let t = p %><% t = hp %>[[<%= t %>]]`, p}, {`<% let t = hp %><% t = p %>[[<%= t %>]]`, esc}, {`<% let t = hp %><% t = "" + p %>[[<%= t %>]]`, esc},
				{`<% banner = p %>[[<%= banner %>]]`, esc}, {`<% title = hp %>[[<%= title %>]]`, p}, {`[[<%= for (n) in ss { %><% banner = n %><%= banner %><% } %>]]`, esc},
				{`<% let t = hp %><% let t = p %>[[<%= t %>]]`, esc}, {`<% let t = hp %><% let g = fn(v) { t = v; return t } %>[[<%= g(p) %>]]`, esc},
				{`<% let t = mkhtml("x") %><% if (true) { t = p } %>[[<%= t %>]]`, esc}, {`<% let t = p %><% if (true) { t = mkhtml(p) } %>[[<%= t %>]]`, p},
				{`<% let a = [hp] %><% a[0] = p %>[[<%= a[0] %>]]`, esc}, {`<% let h = {"k": hp} %><% h["k"] = p %>[[<%= h["k"] %>]]`, esc},
				{`<% let a = [p] %><% a[0] = hp %>[[<%= a[0] %>]]`, p},
			} {
				c := RCase{Tmpl: t[0], Binds: []Bind{{"p", vStr(p)}, {"hp", vHTML(p)}, {"ss", vSlice("string", vStr(p))}, {"banner", vHTML("<i>welcome</i>")}, {"title", vStr("plain")}, {"mkhtml", vGo(102)}}}
				o := e.addRenderCase("reassign", c)
				if o.Class != "OK" || o.Out != "[["+t[1]+"]]" {
					e.Violate("c01-escape", fmt.Sprintf("%s with payload %q rendered %q (%s %s), want %q", t[0], p, o.Out, o.Class, o.Msg, "[["+t[1]+"]]"), map[string]interface{}{"case": c, "payload": p, "observed": o})
				}
			}
		}
		// htmlEscape returns a plain string: escaped again by the sink (documented reading)
		for _, p := range payloads[:4] {
			c := RCase{Tmpl: "<%= htmlEscape(p) %>", Binds: []Bind{{"p", vStr(p)}}}
			o := e.addRenderCase("htmlescape", c)
			want := template.HTMLEscapeString(template.HTMLEscapeString(p))
			if o.Class != "OK" || o.Out != want {
				e.Violate("c01-escape", fmt.Sprintf("htmlEscape(%q) rendered %q, want %q", p, o.Out, want), map[string]interface{}{"case": c, "observed": o})
			}
		}
	})
}
