package main

import (
	"fmt"
	"github.com/gobuffalo/plush/v5"
	"strings"
)

// ---- C15: every error names the line of the failing tag; shifting adds k --------------

type c15fail struct {
	name string
	src  string // the failing tag (single line unless noted)
	kind string // exec | parse
}

var c15fails = []c15fail{
	{"unknown-ident", "<%= undefinedThing %>", "exec"},
	{"failing-helper", "<%= fail1() %>", "exec"},
	{"type-error", "<%= 1 + \"a\" %>", "exec"},
	{"index-range", "<%= xs[99] %>", "exec"},
	{"div-zero", "<% let z = 1 / 0 %>", "exec"},
	{"bad-call", "<%= rec1(\"notint\") %>", "exec"},
	{"assign-unknown", "<% nope = 1 %>", "exec"},
	{"noniterable", "<%= for (x) in n { %>a<% } %>", "exec"},
	{"syntax-paren", "<%= (1 + %>", "parse"},
	{"syntax-let", "<% let = 3 %>", "parse"},
	{"syntax-prefix", "<%= * 2 %>", "parse"},
	{"syntax-bigint", "<%= 99999999999999999999 %>", "parse"},
	{"syntax-break", "<% break %>", "parse"},
	{"syntax-if", "<% if (true { %>x<% } %>", "parse"},
	{"syntax-hash", "<%= {a 1} %>", "parse"},
	// an illegal number literal that ends its line (the scanner is already on the next line)
	{"syntax-illegal-number-eol", "<%= 1.2.3\n %>", "parse"},
	{"syntax-illegal-dot-number-eol", "<% let q = .5.\n %>", "parse"},
}

// filler that precedes the failing tag: each entry occupies the given number of lines
var c15fillers = []struct {
	src   string
	lines int
}{
	{"plain text\n", 1}, {"<p>\n  two\n</p>\n", 3}, {"<% let a = 1 %>\n", 1}, {"<%= \"x\" %> and <%= 2 %>\n", 1}, {"<%# a comment %>\n", 1},
	{"<%= `multi\nline\nstring` %>\n", 3}, {"<% let s2 = \"a\nb\" %>\n", 2}, {"<% let s3 = \"say \\\"hi\\\"\nto \\\"all\\\"\n\" %>\n", 3}, {"<%\n  let b = 2\n%>\n", 3}, {"<%= if (true) { %>\n  yes\n<% } %>\n", 3},
	{"<%= for (q) in [1,2] { %>\n<%= q %>\n<% } %>\n", 3}, {"\n\n", 2}, {"<% # line comment\n let c = 3 %>\n", 2}, {"\\<%= not a tag %>\n", 1},
	// only "\n" ends a line: a carriage return, alone or before it, does not
	{"a\r\nb\r\n", 2}, {"x\ry\n", 1}, {"<% let cr = \"a\r\nb\" %>\r\n", 2}, {"<%\r\n let d = 4\r %>\n", 2},
}

var c15wraps = []struct{ pre, post string }{
	{"", ""}, {"<%= if (true) { %>\n", "\n<% } %>"}, {"<%= for (w) in [1] { %>\n", "\n<% } %>"}, {"<% let fw = fn() { %>\n", "\n<% } %>\n<%= fw() %>"}, {"<%= blk() { %>\n", "\n<% } %>"},
	{"<%= if (false) { %>\nno\n<% } else { %>\n", "\n<% } %>"},
	// blocks that a helper evaluates in a context of its own: a block helper, the default block of contentOf,
	// a stored block replayed later (the failing statement is still the one inside the block)
	{"<%= blkctx({w: 1}) { %>\n", "\n<% } %>"}, {"<%= contentOf(\"c15missing\") { %>\ntext\n", "\n<% } %>"},
	{"<% contentFor(\"c15side\") { %>\n a\n", "\n<% } %>\ntext\n<%= contentOf(\"c15side\") %>"}, {"<%= if (true) { %>\n<%= blkctx({w: 2}) { %>\n\n", "\n<% } %>\n<% } %>"},
	{"<% contentFor(\"c15in\") { %>\n", "\n<% } %>\n<%= for (w) in [1] { %>\n<%= contentOf(\"c15in\", {w: w}) %>\n<% } %>"},
}

func init() {
	register("C15", func(e *Env) {
		renderPrelude()
		e.perShard = 60
		e.rep.Rule = "multi-line templates with exactly one failing statement (8 kinds of runtime failure, 7 kinds of syntax error) placed after 0..5 filler segments (text, multi-line text, tags, multi-line strings, multi-line tags, comments, loops and conditionals that render) at top level or inside if / for / function / block-helper / else bodies, also preceded in the same body by statements that fail in a tolerated way (unknown identifier inside a function called from a condition or an operand of ! == ||); oracle: the error text starts with 'line N:' with N the 1-based line on which the failing tag begins, and prefixing the template with k newlines (k in 1..5 and random) increases N by exactly k and changes nothing else; distinct by template"
		binds := append(stdBinds(), Bind{"n", vInt(3)})
		judge := func(tag, tmpl string, wantLine int, kind string) {
			c := RCase{Tmpl: tmpl, Binds: binds, Parts: stdParts}
			o := e.addRenderCase(tag, c)
			e.Distinct(tmpl)
			rp := map[string]interface{}{"case": c, "observed": o, "expected_line": wantLine}
			if o.Class != "ERR" && o.Class != "PARSEERR" {
				e.Violate("c15-no-error", fmt.Sprintf("%q should fail (%s): got %s %q", tmpl, kind, o.Class, o.Out), rp)
				return
			}
			got := o.Line
			if o.Class == "PARSEERR" {
				got = 0
				if len(o.Lines) > 0 {
					got = o.Lines[0]
				}
				if !strings.HasPrefix(o.Msg, "line ") {
					e.Violate("c15-no-line-prefix", fmt.Sprintf("%q: syntax error without 'line N:' prefix: %s", tmpl, o.Msg), rp)
				}
			}
			if got == 0 {
				e.Violate("c15-no-line-prefix", fmt.Sprintf("%q: error without 'line N:' prefix: %s", tmpl, o.Msg), rp)
				return
			}
			if got != wantLine {
				key := "c15-wrong-line"
				e.Violate(key, fmt.Sprintf("%q: error reports line %d, the failing tag begins on line %d (%s)", tmpl, got, wantLine, firstLine(o.Msg)), rp)
			}
			// shift invariance
			for _, k := range []int{1, 2, 5, 1 + e.Rng.Intn(40)} {
				c2 := RCase{Tmpl: strings.Repeat("\n", k) + tmpl, Binds: binds, Parts: stdParts}
				o2 := e.addRenderCase(tag+"-shift", c2)
				got2 := o2.Line
				if o2.Class == "PARSEERR" && len(o2.Lines) > 0 {
					got2 = o2.Lines[0]
				}
				rest := func(m string) string {
					return lineRe.ReplaceAllString(lineAnyRe.ReplaceAllString(m, "line N:"), "line N:")
				}
				if o2.Class != o.Class || got2 != got+k || rest(o2.Msg) != rest(o.Msg) {
					e.Violate("c15-shift", fmt.Sprintf("%q: with %d leading newlines the error went from line %d to line %d (%q -> %q)", tmpl, k, got, got2, firstLine(o.Msg), firstLine(o2.Msg)), map[string]interface{}{"case": c2, "observed": o2, "unshifted": o})
				}
			}
		}
		n := 0
		for _, f := range c15fails {
			for wi, w := range c15wraps {
				if f.kind == "parse" && f.name == "syntax-break" && (wi == 2) {
					continue // break is legal inside a loop
				}
				// every single filler directly before the failing tag (exhaustive) ...
				for fi, fl := range c15fillers {
					n++
					if !e.Thorough() && (n%4 != 0) && !(wi == 0 && fi >= 8 && fi <= 9) {
						continue
					}
					tmpl := fl.src + w.pre + f.src + w.post
					judge(f.name, tmpl, 1+fl.lines+strings.Count(w.pre, "\n"), f.kind)
				}
				// ... and random sequences of 0..5 fillers
				for trial := 0; trial < 2; trial++ {
					n++
					if !e.Thorough() && (n%3 != 0) {
						continue
					}
					var sb strings.Builder
					line := 1
					k := e.Rng.Intn(6)
					for j := 0; j < k; j++ {
						fl := c15fillers[e.Rng.Intn(len(c15fillers))]
						sb.WriteString(fl.src)
						line += fl.lines
					}
					sb.WriteString(w.pre)
					line += strings.Count(w.pre, "\n")
					sb.WriteString(f.src)
					sb.WriteString(w.post)
					judge(f.name, sb.String(), line, f.kind)
				}
			}
		}
		// earlier statements of the SAME body / top-level tag that fail in a tolerated way (an unknown
		// identifier inside a function called from a condition or an operand of ! == ||) or that
		// complete normally on other lines: the line reported is still the failing tag's own
		inner := []struct {
			src   string
			lines int
		}{
			{"<%= if (adm()) { %>guest<% } %>\n", 1}, {"<%= !adm() %>\n", 1}, {"<%= adm() == nil %>\n", 1}, {"<%= adm() || true %>\n", 1},
			{"<%= if (nosuchname) { %>x<% } %>\n", 1}, {"<%= if (false) { %>x<% } else if (adm()) { %>y<% } %>\n", 1},
			{"<%= ok() %>\n<%= ok() %>\n", 2}, {"<%= for (q) in [1,2] { %>\n<%= if (adm()) { %>g<% } %>\n<% } %>\n", 3},
		}
		defs := "<% let adm = fn() {\n return nobodyhome } %>\n<% let ok = fn() { return 1 } %>\n"
		for _, f := range c15fails {
			if f.kind != "exec" {
				continue
			}
			for wi, w := range c15wraps {
				for ii, in := range inner {
					n++
					if !e.Thorough() && (n+wi+ii)%3 != 0 {
						continue
					}
					k := 1 + e.Rng.Intn(2)
					tmpl := defs + w.pre + strings.Repeat(in.src, k) + f.src + w.post
					judge(f.name+"-after-tolerated", tmpl, 1+3+strings.Count(w.pre, "\n")+k*in.lines, f.kind)
				}
			}
		}
		// the failing part FOLLOWS, in the same tag, a call / block that completed on other lines:
		// the error belongs to the tag, not to the last statement of what completed
		after := []string{"<%= ok() + undefinedThing %>", "<% let z = okm() + fail1() %>", "<%= [okm(), xs[99]] %>", "<%= okm() + 1 + \"a\" %>",
			"<%= blk() { %>\nx\n<%= 1 %>\n<% } + undefinedThing %>", "<%= rec1(okm(), undefinedThing) %>", "<% let z = [ok(), okm()][5] %>"}
		// ... or FOLLOWS, in the same tag, a failure that was tolerated (raised inside a function
		// body on another line)
		after = append(after, "<%= [!adm(), undefinedThing] %>", "<%= (adm() == nil) + fail1() %>", "<% let z = [adm() || true, xs[99]] %>",
			"<%= if (adm()) { %>a<% } else if (adm()) { %>b<% } else { %><%= 1 %><% } + undefinedThing %>", "<%= rec1(!adm(), undefinedThing) %>")
		defs2 := defs + "<% let okm = fn() {\n let q = 1\n return q } %>\n"
		for _, a := range after {
			for _, w := range c15wraps {
				tmpl := defs2 + w.pre + a + w.post
				judge("after-completed-block", tmpl, 1+3+3+strings.Count(w.pre, "\n"), "exec")
			}
		}
		// errors raised inside a partial carry the outer tag's line first
		judge("partial", "a\nb\n<%= partial(\"failing\") %>", 3, "exec")
		judge("partial", "a\n<%= partial(\"bad\") %>\n", 2, "exec")
		// the failing statement directly FOLLOWS one or more # line comments (a comment tag whose comment
		// swallows its own %>, comment lines at the top of a multi-line tag): the line is that of the
		// statement's first token, not that of the comment
		for _, t := range []struct {
			src  string
			line int
			kind string
		}{
			{"<p>\n<% # note %>\n<%= undefinedThing %>\n", 3, "exec"}, {"<%\n# first\n# second\nundefinedThing.Foo()\n%>", 4, "exec"}, {"a\n<%\n# c\nlet = 3 %>", 4, "parse"},
			{"<% # one\n# two\n let z = 1 / 0 %>", 3, "exec"}, {"<%# tag comment %>\n<% # line %>\n<%= xs[99] %>", 3, "exec"}, {"<% # a\n # b\n\n # c\n fail1() %>", 5, "exec"},
			{"<%= 1 %><% # x %>\n\n<%= (1 + %>", 3, "parse"},
			// silent statements that span several lines and fail in their HEADER (condition, iterable, a wrapped
			// argument list, a failing block helper): the line is the one the statement begins on
			{"a\n<% if (1 + \"a\") { %>\nx\n<% } %>\nb", 2, "exec"}, {"<% for (x) in n { %>\nx\n\n<% } %>", 1, "exec"}, {"\n<% rec1(\n \"notint\"\n) %>", 2, "exec"},
			{"<% if (false) { %>\nx\n<% } else if (xs[99]) { %>\ny\n<% } %>", 1, "exec"}, {"t\n<% fail1() { %>\nbody\n<% } %>", 2, "exec"}, {"<% if (n + \"a\") { %>\n\n\n<% } else { %>\n<% } %>", 1, "exec"},
			{"<% let q = if (1 + \"a\") {\n 1 } %>", 1, "exec"}, {"<%\n if (n == 3) {\n  nope = 1\n }\n%>", 3, "exec"}, {"<% let q = 1 # set q\n q = 2 # again\n nope = 3 %>", 3, "exec"},
		} {
			for wi, w := range c15wraps[:3] {
				if t.kind == "parse" && wi > 0 {
					continue
				}
				judge("after-line-comment", w.pre+t.src+w.post, t.line+strings.Count(w.pre, "\n"), t.kind)
			}
		}
		// ONE faulty tag that makes the parser record errors on SEVERAL lines (a broken if header followed by
		// its else two lines down, an open call closed lines later), placed so that the lines straddle 9 / 10
		// and 99 / 100: the error starts with the line of the faulty tag, and shifting only adds k
		for _, src := range []string{"<% if (true { %>\nx\n<% } else { %>\ny\n<% } %>", "<%= f(1,\n\n 2 3) %>\n<%= ) %>", "<% let = 1 %>\n\n\n<% let = 2 %>", "<%= (1 + %>\na\n<%= * 2 %>\nb\n<% let = 3 %>"} {
			for _, k := range []int{0, 6, 7, 8, 9, 96, 97, 98, 99} {
				tmpl := strings.Repeat("\n", k) + src
				c := RCase{Tmpl: tmpl, Binds: binds, Parts: stdParts}
				var o RObs
				if k < 20 {
					o = e.addRenderCase("multi-line-errors", c)
				} else {
					o = runRender(c)
					e.rep.Evaluations++
				}
				e.Distinct(tmpl)
				first := 0
				if len(o.Lines) > 0 {
					first = o.Lines[0]
				}
				want := k + 1
				if strings.HasPrefix(src, "<%= f(1,") {
					want = 0 // the first error of this one is reported where the parser stood (line k+3): only the order is judged
				}
				sorted := true
				for i := 1; i < len(o.Lines); i++ {
					if o.Lines[i] < o.Lines[i-1] {
						sorted = false
					}
				}
				if o.Class != "PARSEERR" || (want != 0 && first != want) || !sorted {
					e.Violate("c15-wrong-line", fmt.Sprintf("%q (faulty tag on line %d): %s, error lines %v, first line %q", tmpl, k+1, o.Class, o.Lines, firstLine(o.Msg)), map[string]interface{}{"case": c, "observed": o})
				}
			}
		}
		// a helper that IGNORES the failure of its block (calls Block() and returns normally): a later failure
		// in the same tag, or in a later tag, names its own line, not that of the tolerated statement in the block
		{
			extra := map[string]interface{}{"swallow": func(h plush.HelperContext) string { _, _ = h.Block(); return "s" },
				"failing": func(s string) (string, error) { return "", fmt.Errorf("boom") }}
			for _, t := range []struct {
				src  string
				line int
			}{{"a\n<%= failing(swallow() { %>\n\n<%= undefinedThing.Foo() %>\n<% }) %>", 2}, {"a\n<%= swallow() { %>\n<%= xs[99] %>\n<% } %>\n<%= failing(\"x\") %>", 5},
				{"<%= swallow() { %>\n<%= 1 + \"a\" %>\n<% } + undefinedThing %>", 1}, {"\n\n<% let q = swallow() { %>\n<%= nope.Field %>\n<% } %>\n<% q = q + failing(q) %>", 6}} {
				for _, k := range []int{0, 3} {
					tm := strings.Repeat("\n", k) + t.src
					o := runRenderExtra(RCase{Tmpl: tm, Binds: binds}, extra)
					e.rep.Evaluations++
					e.Count("ignored-block-failure")
					e.Distinct(tm)
					if o.Class != "ERR" || o.Line != t.line+k {
						e.Violate("c15-wrong-line", fmt.Sprintf("%q: %s, error reports line %d, the failing tag begins on line %d (%s)", tm, o.Class, o.Line, t.line+k, firstLine(o.Msg)), map[string]interface{}{"tmpl": tm, "observed": o})
					}
				}
			}
		}
		// the input ENDS inside an unterminated tag at a point where the parser needs another token (after a
		// comma, an operator, an opening bracket, let x =): the error names the line of that tag
		for _, src := range []string{"<%= rec1(1, ", "<%= 1 + ", "<% let q = ", "<%= [1, 2, ", "<%= ( ", "<%= xs[ ", "<% if ( ", "<%= {a: "} {
			for fi, fl := range c15fillers {
				if !e.Thorough() && fi%3 != 0 {
					continue
				}
				judge("input-ends-in-tag", fl.src+"text\n"+src, 1+fl.lines+1, "parse")
			}
		}
	})
}

func firstLine(s string) string {
	if i := strings.Index(s, "\n"); i >= 0 {
		return s[:i]
	}
	return s
}
